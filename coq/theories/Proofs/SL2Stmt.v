(* Proofs/SL2Stmt.v — C02 version 2, part 3: attributes, statements (with scoped definitions), stanzas.
   The execution-phase invariant `Rel2`: as in Proofs/SLStmt.v (skeleton graph, pending edge and attribute
   statements denote the graph operations strict performed), plus: every strict scoped variable is a recorded
   definition of the world (one per (node, name): strict succeeded), and every lazy cell is still UNFORCED and
   lists, in execution order, the definitions of its name with PURE scope values.  No cell is forced during
   the execution phase because eager positions are pure. *)
From TSG Require Import Model.Lazy Proofs.BaseFacts Proofs.Containers Proofs.MonadFacts Proofs.SLGraph Proofs.SLForce Proofs.SLExpr Proofs.SLConv
  Proofs.SLStmt Proofs.Scoped Proofs.SL2Force Proofs.SL2Expr.

(* ---------------- the fragment: statements ---------------- *)
Section Frag2S.
  Variable okfn : ident -> Prop.
  Variable purev : ident -> bool.
  Variable m : qmatch.
  Notation fexpr2' := (fexpr2 okfn purev m).

  Definition fattr2 (a : attr) : Prop := match a with Attr _ e => fexpr2' false e end.
  Definition fcond2 (c : cond) : Prop := match c with CSome e _ | CNone e _ | CBool e _ => fexpr2' true e end.
  (* `let`: an unscoped variable takes the mode of its name; a scoped definition has a PURE scope expression *)
  Definition fbind2 (v : variable) (e : expr) : Prop :=
    match v with VarU x _ => fexpr2' (purev x) e | VarS sc _ _ => fexpr2' true sc /\ fexpr2' false e end.
  (* `var`/`set`: unscoped variables only *)
  Definition fmut2 (v : variable) (e : expr) : Prop :=
    match v with VarU x _ => fexpr2' (purev x) e | VarS _ _ _ => False end.
  Fixpoint fstmt2 (s : stmt) : Prop :=
    match s with
    | SLet v e _ => fbind2 v e
    | SVar v e _ | SSet v e _ => fmut2 v e
    | SNode v _ _ => match v with VarU _ _ => True | VarS sc _ _ => fexpr2' true sc end
    | SAttrNode n attrs _ => fexpr2' false n /\ All fattr2 attrs
    | SEdge a b _ => fexpr2' false a /\ fexpr2' false b
    | SAttrEdge a b attrs _ => fexpr2' false a /\ fexpr2' false b /\ All fattr2 attrs
    | SScan v arms _ => fexpr2' true v /\ All (fun arm : N * list stmt * loc => All fstmt2 (snd (fst arm))) arms
    | SPrint vs _ => All (fexpr2' false) vs
    | SIf arms _ => All (fun arm : list cond * list stmt * loc => All fcond2 (fst (fst arm)) /\ All fstmt2 (snd (fst arm))) arms
    | SFor _ _ v body _ => fexpr2' true v /\ All fstmt2 body
    end.
End Frag2S.

Lemma NoDup_snoc {A} (l : list A) a : NoDup l -> ~ In a l -> NoDup (l ++ [a]).
Proof.
  induction l as [|x l IH]; intros Hnd Hn; cbn [app]; [constructor; [intros []|constructor]|].
  inversion Hnd as [|? ? Hx Hnd']; subst. constructor.
  - intros Hin. apply in_app_or in Hin. destruct Hin as [Hin|[->|[]]]; [contradiction|]. apply Hn. left. reflexivity.
  - apply IH; [exact Hnd'|]. intros Hin. apply Hn. right. exact Hin.
Qed.

(* a successful strict definition of a scoped variable *)
Lemma scoped_add_ok n name v s p u s' p' : scoped_add_at n name v false s p = Ok (u, s', p') ->
  scoped_lookup (s_scoped s) n name = None /\ s_graph s' = s_graph s /\ s_locals s' = s_locals s /\ s_params s' = s_params s /\
  scoped_lookup (s_scoped s') n name = Some v /\
  (forall n' name', (n', name') <> (n, name) -> scoped_lookup (s_scoped s') n' name' = scoped_lookup (s_scoped s) n' name').
Proof.
  intros H. pose proof (Scoped.scoped_add_spec n name v false s p) as Hspec.
  destruct (scoped_lookup (s_scoped s) n name) as [v0|]; [rewrite Hspec in H; discriminate|].
  destruct Hspec as (s'' & E & L1 & L2 & Lg). rewrite E in H. inversion H; subst s''. split; [reflexivity|]. split; [exact Lg|].
  assert (Hf : s_locals s' = s_locals s /\ s_params s' = s_params s).
  { unfold scoped_add_at, bind, get_state in E. destruct (alist_get name _); [discriminate|]. unfold set_scoped, modify in E. inversion E. split; reflexivity. }
  destruct Hf as [F1 F2]. auto.
Qed.

Section Stmt2.
  Context {rx : Type}.
  Variables (t : tree) (fl : file) (glob : globals) (regexes : list rx)
            (find : rx -> str -> option (list (option (N * N))))
            (call : ident -> graph -> list value -> res (value * graph)).
  Variable okfn : ident -> Prop.
  Variable purev : ident -> bool.
  Hypothesis Hpure : forall f, okfn f -> pure_fn call f.
  Variable m : qmatch.

  Notation den2 := (den2 call).
  Notation Renv2 := (Renv2 t fl call purev).
  Notation epost2 := (epost2 t fl call purev).
  Notation esim2 := (esim2 t fl call purev).
  Notation fexpr2' := (fexpr2 okfn purev m).
  Notation fattr2' := (fattr2 okfn purev m).
  Notation fstmt2' := (fstmt2 okfn purev m).
  Notation env_rel' := (env_rel m).

  (* shorthand bodies are in the fragment too; their variables are not declared pure *)
  Hypothesis Hsh : Forall (fun sh => purev (sh_var sh) = false /\ All fattr2' (sh_attrs sh)) (f_shorthands fl).

  (* ---------------- attributes ---------------- *)
  Definition den_attrs2 (w : world) (out : list (ident * lvalue)) (kvs : list (ident * value)) : Prop :=
    Forall2 (fun x y => fst x = fst y /\ den2 w false (snd x) (snd y)) out kvs.
  Lemma den_attrs2_mono w w' out kvs : wext w w' -> den_attrs2 w out kvs -> den_attrs2 w' out kvs.
  Proof. intros Hp H. induction H as [|x y l l' [H1 H2] _ IH]; constructor; [|exact IH]. split; [exact H1|eapply den2_mono; eauto]. Qed.

  Definition apost2 (w : world) (tgt : target) (ss ss' : sstate) (ls : lstate) : list (ident * lvalue) -> lstate -> polls -> Prop :=
    fun out ls' pl' => nob pl' /\ lframe ls ls' /\ s_scoped ss' = s_scoped ss /\ exists w' kvs, wext0 w w' /\ Renv2 w' ss' ls' /\ den_attrs2 w' out kvs /\
                         apply_attrs (map (mk tgt) kvs) (s_graph ss) = Some (s_graph ss').
  Definition asim2 (tgt : target) (ms : M sstate unit) (ml : M lstate (list (ident * lvalue))) : Prop :=
    forall ss p u ss' p', ms ss p = Ok (u, ss', p') -> forall w ls pl, Renv2 w ss ls -> nob pl -> lres (ml ls pl) (apost2 w tgt ss ss' ls).

  Lemma attrs_sim2 tgt (exa : attr -> M sstate unit) (lexa : attr -> M lstate (list (ident * lvalue))) :
    forall attrs, (forall a, In a attrs -> asim2 tgt (exa a) (lexa a)) ->
    forall ss p u ss' p', iterM exa attrs ss p = Ok (u, ss', p') -> forall w ls pl, Renv2 w ss ls -> nob pl ->
      lres (mapM lexa attrs ls pl) (fun outs ls' pl' => apost2 w tgt ss ss' ls (concat outs) ls' pl').
  Proof.
    induction attrs as [|a attrs IH]; intros Ha ss p u ss' p' H w ls pl HR Hb; cbn [iterM mapM] in *.
    - apply ret_ok in H. destruct H as (-> & -> & ->). apply lres_ret. split; [exact Hb|]. split; [apply lframe_refl|]. split; [reflexivity|].
      exists w, []. split; [apply wext0_refl|]. split; [exact HR|]. split; [constructor|reflexivity].
    - apply bind_ok in H. destruct H as (u1 & s1 & p1 & H1 & H2).
      apply lres_bind. eapply lres_mono; [apply (Ha a (or_introl eq_refl) _ _ _ _ _ H1 w ls pl HR Hb)|].
      intros o1 ls1 pl1 (Hb1 & Hf1 & Hsc1 & w1 & kvs1 & Hp1 & HR1 & Hd1 & Hg1).
      apply lres_bind. eapply lres_mono; [apply (IH (fun a0 Hin => Ha a0 (or_intror Hin)) _ _ _ _ _ H2 w1 ls1 pl1 HR1 Hb1)|].
      intros outs ls2 pl2 (Hb2 & Hf2 & Hsc2 & w2 & kvs2 & Hp2 & HR2 & Hd2 & Hg2). apply lres_ret.
      split; [exact Hb2|]. split; [eapply lframe_trans; eauto|]. split; [congruence|]. exists w2, (kvs1 ++ kvs2). split; [eapply wext0_trans; eauto|].
      split; [exact HR2|]. split.
      + cbn [concat]. apply Forall2_app; [eapply den_attrs2_mono; [apply wext0_wext, Hp2|exact Hd1]|exact Hd2].
      + rewrite map_app. eapply ofold_app_ok; eauto.
  Qed.

  Notation eval' := (eval t fl glob call).
  Notation leval' := (leval t fl glob call).
  Notation exec_attr' := (exec_attr t fl glob call).
  Notation lexec_attr' := (lexec_attr t fl glob call).
  Notation eval_sim2' := (eval_sim2 t fl glob call okfn purev Hpure m).

  Lemma attr_sim2 : forall fuel le ll tgt a, fattr2' a -> env_rel' le ll -> forall lf, asim2 tgt (exec_attr' fuel le tgt a) (lexec_attr' lf ll a).
  Proof.
    induction fuel as [|fuel IH]; intros le ll tgt a Hf Henv lf ss p u ss' p' H w ls pl HR Hb; [discriminate|].
    destruct lf as [|lf]; [exact I|]. destruct a as [name value]. cbn [exec_attr] in H. cbn [lexec_attr fattr2] in *.
    apply bind_ok in H. destruct H as (u0 & s0 & p0 & H0 & H). apply poll_ok in H0. destruct H0 as (-> & -> & _).
    apply bind_ok in H. destruct H as (v & s1 & p1 & H1 & H).
    apply lres_bind. apply lres_poll; [exact Hb|]. intros pl0 Hb0.
    apply lres_bind. eapply lres_mono; [apply (eval_sim2' fuel le ll value false Hf Henv lf _ _ _ _ _ H1 w ls pl0 HR Hb0)|].
    intros lv ls1 pl1 (Hb1 & (Sg1 & Sp1 & Ssc1) & Hf1 & w1 & Hp1 & HR1 & Hd1).
    destruct (find_shorthand name (f_shorthands fl)) as [sh|] eqn:Esh.
    - (* shorthand: fresh variable map, expand, restore *)
      apply bind_ok in H. destruct H as (sg & s1' & p1' & G & H). apply get_ok in G. destruct G as (-> & -> & ->).
      apply bind_ok in H. destruct H as (u2 & s2 & p2 & H2 & H). rewrite set_locals_eq in H2. inversion H2; subst; clear H2.
      apply bind_ok in H. destruct H as (u3 & s3 & p3 & H3 & H). apply bind_ok in H. destruct H as (u4 & s4 & p4 & H4 & H5).
      rewrite set_locals_eq in H5. inversion H5; subst; clear H5.
      apply lres_get. apply lres_bind. rewrite set_llocals_eq. cbn [lres].
      assert (HR2 : Renv2 w1 (sset_locals [[]] s1) (lset_locals [[]] ls1)).
      { destruct HR1 as (A1 & A2 & A3). split; [exact A1|]. split; [|exact A3]. constructor; [constructor|constructor]. }
      rewrite Forall_forall in Hsh. destruct (Hsh sh (find_shorthand_In _ _ _ Esh)) as [Hshv Hsha].
      assert (Hd1' : den2 w1 (purev (sh_var sh)) lv v) by (rewrite Hshv; exact Hd1).
      apply lres_bind. eapply lres_mono; [apply (unscoped_add_sim2 t fl glob call purev ll (sh_var sh) v lv false _ _ _ _ _ w1 _ pl1 H3 HR2 Hd1' Hb1)|].
      intros _ ls3 pl3 (Hb3 & (Sg3 & Sp3 & Ssc3) & Hf3 & w3 & Hp3 & HR3 & _).
      assert (Hin : forall a0, In a0 (sh_attrs sh) -> asim2 tgt (exec_attr' fuel le tgt a0) (lexec_attr' lf ll a0)).
      { intros a0 Hin0. apply IH; [|exact Henv]. apply (All_In _ _ _ Hsha Hin0). }
      apply lres_bind. eapply lres_mono; [apply (attrs_sim2 tgt _ _ (sh_attrs sh) Hin _ _ _ _ _ H4 w3 ls3 pl3 HR3 Hb3)|].
      intros outs ls4 pl4 (Hb4 & Hf4 & Hsc4 & w4 & kvs & Hp4 & HR4 & Hd4 & Hg4).
      apply lres_bind. rewrite set_llocals_eq. cbn [lres]. split; [exact Hb4|].
      split; [eapply lframe_trans; [exact Hf1|]; eapply lframe_trans; [apply lframe_set_locals|]; eapply lframe_trans; [exact Hf3|]; eapply lframe_trans; [exact Hf4|apply lframe_set_locals]|].
      split; [cbn [sset_locals s_scoped] in *; congruence|].
      exists w4, kvs. split; [eapply wext0_trans; [exact Hp1|]; eapply wext0_trans; [exact Hp3|exact Hp4]|]. split.
      + destruct HR4 as (A1 & _ & A3). destruct HR1 as (_ & A2 & _). split; [exact A1|]. cbn [sset_locals lset_locals s_locals l_locals s_scoped]. split; [|exact A3].
        eapply locals_rel2_mono; [|exact A2]. apply wext0_wext. eapply wext0_trans; eauto.
      + split; [exact Hd4|]. cbn [sset_locals s_graph] in *. rewrite <- Sg1, <- Sg3. exact Hg4.
    - (* plain attribute *)
      destruct (add_attr_ok _ _ _ _ _ _ _ _ H) as (Hg & Hl & Hps). apply lres_ret. split; [exact Hb1|]. split; [exact Hf1|].
      assert (Hsc : s_scoped ss' = s_scoped s1).
      { unfold add_attr, bind, get_state in H. destruct tgt as [n|a b].
        - destruct (gnode_at (s_graph s1) n) as [nd|]; [|discriminate]. destruct (attrs_add (g_attrs nd) name v) as [m' [c|]]; [discriminate|].
          unfold set_graph, modify in H. inversion H; reflexivity.
        - destruct (gnode_at (s_graph s1) a) as [nd|]; [|discriminate]. destruct (edges_get b (g_edges nd)) as [m0|]; [|discriminate].
          destruct (attrs_add m0 name v) as [m' [c|]]; [discriminate|]. unfold set_graph, modify in H. inversion H; reflexivity. }
      split; [congruence|].
      exists w1, [(name, v)]. split; [exact Hp1|]. split.
      + destruct HR1 as (A1 & A2 & A3). split; [exact A1|]. split; [rewrite Hl; exact A2|rewrite Hsc; exact A3].
      + split; [constructor; [split; [reflexivity|exact Hd1]|constructor]|]. cbn [map ofold]. rewrite <- Sg1, Hg. reflexivity.
  Qed.

  (* ---------------- the execution-phase invariant ---------------- *)
  Definition den_edge2 (w : world) (st : lstmt) (e : N * N) : Prop :=
    exists a b dbg, st = LSEdge a b [] dbg /\ den2 w false a (VGraph (fst e)) /\ den2 w false b (VGraph (snd e)).
  Definition den_astmt2 (w : world) (st : lstmt) (ops : list aop) : Prop :=
    match st with
    | LSAttrNode n attrs _ => exists x kvs, den2 w false n (VGraph x) /\ den_attrs2 w attrs kvs /\ ops = map (mk (TNode x)) kvs
    | LSAttrEdge a b attrs _ => exists x y kvs, den2 w false a (VGraph x) /\ den2 w false b (VGraph y) /\ den_attrs2 w attrs kvs /\ ops = map (mk (TEdge x y)) kvs
    | _ => False
    end.
  Definition print_ok2 (w : world) (st : lstmt) : Prop :=
    match st with
    | LSPrint args _ => Forall (fun a => match a with Some lv => exists v, den2 w false lv v | None => True end) args
    | _ => False
    end.
  Lemma den_edge2_mono w w' st e : wext w w' -> den_edge2 w st e -> den_edge2 w' st e.
  Proof. intros Hp (a & b & dbg & E & Ha & Hb). exists a, b, dbg. split; [exact E|]. split; eapply den2_mono; eauto. Qed.
  Lemma den_astmt2_mono w w' st ops : wext w w' -> den_astmt2 w st ops -> den_astmt2 w' st ops.
  Proof.
    intros Hp. destruct st; cbn [den_astmt2]; try tauto.
    - intros (x & kvs & H1 & H2 & H3). exists x, kvs. split; [eapply den2_mono; eauto|]. split; [eapply den_attrs2_mono; eauto|exact H3].
    - intros (x & y & kvs & H1 & H1' & H2 & H3). exists x, y, kvs. split; [eapply den2_mono; eauto|]. split; [eapply den2_mono; eauto|].
      split; [eapply den_attrs2_mono; eauto|exact H3].
  Qed.
  Lemma print_ok2_mono w w' st : wext w w' -> print_ok2 w st -> print_ok2 w' st.
  Proof.
    intros Hp. destruct st; cbn [print_ok2]; try tauto. intros H. eapply Forall_impl; [|exact H]. intros [lv|]; [|auto].
    intros [v Hv]. exists v. eapply den2_mono; eauto.
  Qed.

  (* every cell is unforced and lists the definitions of its name, in order *)
  Definition cells_unforced (w : world) (cells : list (ident * scoped_values)) : Prop :=
    forall name, match alist_get name cells with
                 | Some (SVUnforced pairs) => Forall2 (pair_ok call w) pairs (sig_for name (w_sig w))
                 | Some _ => False
                 | None => sig_for name (w_sig w) = []
                 end.
  (* every recorded definition is in the strict store *)
  Definition sig_sound (w : world) (sc : list (N * vframe value)) : Prop :=
    forall n name loc, In (n, name, loc) (w_sig w) -> scoped_lookup sc n name <> None.
  Lemma pair_ok_mono w w' pr d : wext w w' -> pair_ok call w pr d -> pair_ok call w' pr d.
  Proof. intros Hp [H1 H2]. split; [exact H1|eapply den2_mono; eauto]. Qed.
  Lemma cells_unforced_mono0 w w' cells : wext0 w w' -> cells_unforced w cells -> cells_unforced w' cells.
  Proof.
    intros Hp H name. specialize (H name). rewrite (wext0_sig _ _ Hp). destruct (alist_get name cells) as [[pairs| |mp]|]; try exact H.
    eapply Forall2_mono_l; [|exact H]. intros pr d. apply pair_ok_mono, wext0_wext, Hp.
  Qed.
  Lemma cells_unforced_ok w cells : cells_unforced w cells -> cells_ok call w cells.
  Proof. intros H name. specialize (H name). destruct (alist_get name cells) as [[pairs| |mp]|]; try exact H; contradiction. Qed.

  Definition Pend (w : world) (g : graph) (ls : lstate) : Prop :=
    Forall (print_ok2 w) (l_prints ls) /\
    exists eops aopss g1, Forall2 (den_edge2 w) (l_edges ls) eops /\ Forall2 (den_astmt2 w) (l_attrs ls) aopss /\
                          apply_edges eops (l_graph ls) = Some g1 /\ apply_attrs (concat aopss) g1 = Some g.
  Definition Rel2 (w : world) (ss : sstate) (ls : lstate) : Prop :=
    Renv2 w ss ls /\ cells_unforced w (l_scoped ls) /\ sig_nodup w /\ sig_sound w (s_scoped ss) /\ Pend w (s_graph ss) ls.
  Definition RelX2 (ss : sstate) (ls : lstate) : Prop := exists w, Rel2 w ss ls.

  Lemma Pend_mono w w' g ls ls' : wext w w' -> l_graph ls' = l_graph ls -> l_edges ls' = l_edges ls -> l_attrs ls' = l_attrs ls -> l_prints ls' = l_prints ls ->
    Pend w g ls -> Pend w' g ls'.
  Proof.
    intros Hp F1 F2 F3 F4 (Hpr & eops & aopss & g1 & He & Ha & Hg1 & Hg2). split.
    - rewrite F4. eapply Forall_impl; [|exact Hpr]. intros st. apply print_ok2_mono, Hp.
    - exists eops, aopss, g1. rewrite F1, F2, F3. split; [eapply Forall2_mono_l; [|exact He]; intros st e; apply den_edge2_mono, Hp|].
      split; [eapply Forall2_mono_l; [|exact Ha]; intros st e; apply den_astmt2_mono, Hp|]. auto.
  Qed.

  (* an expression-level step keeps the invariant *)
  Lemma rel_step2 {A B} (Q : world -> B -> A -> Prop) w a ss ss' ls b ls' pl' :
    Rel2 w ss ls -> epost2 Q w a ss ss' ls b ls' pl' -> exists w', wext0 w w' /\ Rel2 w' ss' ls' /\ Q w' b a.
  Proof.
    intros (_ & Hcells & Hnd & Hss & HP) (_ & (Sg & _ & Ssc) & (F1 & F2 & F3 & F4 & F5) & w' & Hp & HR' & HQ).
    exists w'. split; [exact Hp|]. split; [|exact HQ]. split; [exact HR'|]. split; [rewrite F5; eapply cells_unforced_mono0; eauto|].
    split; [unfold sig_nodup; rewrite (wext0_sig _ _ Hp); exact Hnd|]. split.
    - intros n name loc Hin. rewrite (wext0_sig _ _ Hp) in Hin. rewrite Ssc. apply (Hss n name loc Hin).
    - rewrite Sg. apply (Pend_mono w w' _ ls ls' (wext0_wext _ _ Hp) F1 F2 F3 F4 HP).
  Qed.

  Lemma rel_length2 w ss ls : Rel2 w ss ls -> length (s_graph ss) = length (l_graph ls).
  Proof.
    intros (_ & _ & _ & _ & _ & eops & aopss & g1 & _ & _ & Hg1 & Hg2).
    rewrite (ofold_length _ apply_attr_length _ _ _ Hg2). apply (ofold_length _ apply_edge_length _ _ _ Hg1).
  Qed.

  (* ---------------- statement-level simulation and its closure properties ---------------- *)
  Definition xsim2 {A B} (Q : A -> B -> Prop) (ms : M sstate A) (ml : M lstate B) : Prop :=
    forall ss p a ss' p', ms ss p = Ok (a, ss', p') -> forall ls pl, RelX2 ss ls -> nob pl ->
      lres (ml ls pl) (fun b ls' pl' => nob pl' /\ RelX2 ss' ls' /\ Q a b).
  Notation xsimU2 := (xsim2 (@anyQ unit unit)).

  Lemma xsim2_ret {A B} (Q : A -> B -> Prop) a b : Q a b -> xsim2 Q (ret a) (ret b).
  Proof. intros HQ ss p a' ss' p' H ls pl HR Hb. apply ret_ok in H. destruct H as (-> & -> & ->). apply lres_ret. auto. Qed.
  Lemma xsim2_bind {A B C D} (Q1 : A -> B -> Prop) (Q2 : C -> D -> Prop) ms ml fs fl' :
    xsim2 Q1 ms ml -> (forall a b, Q1 a b -> xsim2 Q2 (fs a) (fl' b)) -> xsim2 Q2 (bind ms fs) (bind ml fl').
  Proof.
    intros Hm Hf ss p c ss' p' H ls pl HR Hb. apply bind_ok in H. destruct H as (a & s1 & p1 & H1 & H2).
    apply lres_bind. eapply lres_mono; [apply (Hm _ _ _ _ _ H1 ls pl HR Hb)|]. intros b ls1 pl1 (Hb1 & HR1 & HQ).
    apply (Hf a b HQ _ _ _ _ _ H2 ls1 pl1 HR1 Hb1).
  Qed.
  Lemma xsim2_seq {A B} (Q : A -> B -> Prop) (ms : M sstate unit) (ml : M lstate unit) ks kl :
    xsimU2 ms ml -> xsim2 Q ks kl -> xsim2 Q (ms ;;; ks) (ml ;;; kl).
  Proof. intros H1 H2. eapply xsim2_bind; [exact H1|]. intros _ _ _. exact H2. Qed.
  Lemma xsim2_sctx {A B} (Q : A -> B -> Prop) c ms ml : xsim2 Q ms ml -> xsim2 Q (ctx_wrap c ms) ml.
  Proof. intros Hm ss p a ss' p' H. apply ctx_wrap_ok in H. apply (Hm _ _ _ _ _ H). Qed.
  Lemma xsim2_lctx {A B} (Q : A -> B -> Prop) c ms ml : xsim2 Q ms ml -> xsim2 Q ms (ctx_wrap c ml).
  Proof. intros Hm ss p a ss' p' H ls pl HR Hb. apply lres_ctx. apply (Hm _ _ _ _ _ H ls pl HR Hb). Qed.
  Lemma xsim2_spoll {A B} (Q : A -> B -> Prop) l ms ml : xsim2 Q ms ml -> xsim2 Q (poll l ;;; ms) ml.
  Proof.
    intros Hm ss p a ss' p' H. apply bind_ok in H. destruct H as (u & s1 & p1 & H1 & H2). apply poll_ok in H1. destruct H1 as (-> & -> & _).
    apply (Hm _ _ _ _ _ H2).
  Qed.
  Lemma xsim2_lpoll {A B} (Q : A -> B -> Prop) l ms ml : xsim2 Q ms ml -> xsim2 Q ms (lpoll l ;;; ml).
  Proof.
    intros Hm ss p a ss' p' H ls pl HR Hb. apply lres_bind. unfold lpoll. apply lres_poll; [exact Hb|]. intros pl0 Hb0.
    apply (Hm _ _ _ _ _ H ls pl0 HR Hb0).
  Qed.
  Lemma xsim2_lpoll_n {A B} (Q : A -> B -> Prop) n l ms ml : xsim2 Q ms ml -> xsim2 Q ms (lpoll_n n l ;;; ml).
  Proof.
    intros Hm ss p a ss' p' H ls pl HR Hb. apply lres_bind. eapply lres_mono; [apply lpoll_n_res, Hb|].
    intros _ ls0 pl0 [-> Hb0]. apply (Hm _ _ _ _ _ H ls pl0 HR Hb0).
  Qed.
  Lemma xsim2_soof {A B} (Q : A -> B -> Prop) ml : xsim2 Q (@out_of_fuel sstate A) ml.
  Proof. intros ss p a ss' p' H. discriminate. Qed.
  Lemma xsim2_spanic {A B} (Q : A -> B -> Prop) x ml : xsim2 Q (@panic sstate A x) ml.
  Proof. intros ss p a ss' p' H. discriminate. Qed.
  Lemma xsim2_sfail {A B} (Q : A -> B -> Prop) e ml : xsim2 Q (@fail sstate A e) ml.
  Proof. intros ss p a ss' p' H. discriminate. Qed.
  Lemma xsim2_loof {A B} (Q : A -> B -> Prop) ms : xsim2 Q ms (@out_of_fuel lstate B).
  Proof. intros ss p a ss' p' H ls pl HR Hb. exact I. Qed.
  Lemma xsim2_lift {A} (r : res A) : xsim2 eq (lift r) (lift r).
  Proof. intros ss p a ss' p' H ls pl HR Hb. apply lift_ok in H. destruct H as (-> & -> & ->). cbn. auto. Qed.
  Lemma xsim2_iter {X} (P : X -> Prop) (F : X -> M sstate unit) (F' : X -> M lstate unit) l :
    (forall x, P x -> xsimU2 (F x) (F' x)) -> All P l -> xsimU2 (iterM F l) (iterM F' l).
  Proof.
    intros HF. induction l as [|x l IH]; intros HP; cbn [iterM]; [apply xsim2_ret; exact I|]. destruct HP as [Px HP].
    apply xsim2_seq; [apply HF, Px|apply IH, HP].
  Qed.
  Lemma xsim2_mapM {X A B} (Q : A -> B -> Prop) (P : X -> Prop) (F : X -> M sstate A) (F' : X -> M lstate B) l :
    (forall x, P x -> xsim2 Q (F x) (F' x)) -> All P l -> xsim2 (Forall2 Q) (mapM F l) (mapM F' l).
  Proof.
    intros HF. induction l as [|x l IH]; intros HP; cbn [mapM]; [apply xsim2_ret; constructor|]. destruct HP as [Px HP].
    eapply xsim2_bind; [apply HF, Px|]. intros a b Hab. eapply xsim2_bind; [apply IH, HP|]. intros as_ bs Habs. apply xsim2_ret. constructor; assumption.
  Qed.

  Lemma xsim2_eager fuel le ll e lf : fexpr2' true e -> env_rel' le ll -> xsim2 eq (eval' fuel le e) (leager t fl glob call lf ll e).
  Proof.
    intros Hf Henv ss p v ss' p' H ls pl [w HR] Hb.
    eapply lres_mono; [apply (leager_sim2 t fl glob call okfn purev Hpure m fuel le ll e lf _ _ _ _ _ w ls pl Hf Henv H (proj1 HR) Hb)|].
    intros v' ls' pl' (-> & HP). destruct (rel_step2 _ w tt ss ss' ls tt ls' pl' HR HP) as (w' & _ & HR' & _).
    split; [apply HP|]. split; [exists w'; exact HR'|reflexivity].
  Qed.

  Lemma rel_set_locals2 w ss ls x y : Rel2 w ss ls -> locals_rel2 call purev w x y -> Rel2 w (sset_locals x ss) (lset_locals y ls).
  Proof. intros ((A1 & A2 & A3) & B) H. split; [split; [exact A1|split; [exact H|exact A3]]|exact B]. Qed.

  Lemma xsim2_push_frame : xsimU2 push_frame lpush_frame.
  Proof.
    intros ss p u ss' p' H ls pl [w HR] Hb. rewrite push_frame_eq in H. inversion H; subst. rewrite lpush_frame_eq. cbn [lres].
    split; [exact Hb|]. split; [|exact I]. exists w. apply rel_set_locals2; [exact HR|]. constructor; [constructor|apply HR].
  Qed.
  Lemma xsim2_clear_frame : xsimU2 clear_frame lclear_frame.
  Proof.
    intros ss p u ss' p' H ls pl [w HR] Hb. rewrite clear_frame_eq in H. inversion H; subst. rewrite lclear_frame_eq. cbn [lres].
    split; [exact Hb|]. split; [|exact I]. exists w. apply rel_set_locals2; [exact HR|]. apply locals_clear2, HR.
  Qed.
  Lemma xsim2_pop_frame : xsimU2 pop_frame lpop_frame.
  Proof.
    intros ss p u ss' p' H ls pl [w HR] Hb. apply pop_frame_ok in H. destruct H as (f & up & El & -> & ->).
    eapply lres_mono; [apply (lpop_frame_sim2 t fl call purev w ss ls pl f up (proj1 HR) El Hb)|]. intros [] ls' pl' HP.
    destruct (rel_step2 _ w tt ss _ ls tt ls' pl' HR HP) as (w' & _ & HR' & _). split; [apply HP|]. split; [exists w'; exact HR'|exact I].
  Qed.

  (* a loop variable / `node` variable: bound to a plain value *)
  Lemma xsim2_unscoped_add ll name v mu : xsimU2 (unscoped_add glob name v mu) (lunscoped_add glob ll name (LValue v) mu).
  Proof.
    intros ss p u ss' p' H ls pl [w HR] Hb.
    eapply lres_mono; [apply (unscoped_add_sim2 t fl glob call purev ll name v (LValue v) mu _ _ _ _ _ w ls pl H (proj1 HR) (d2_value call w _ v) Hb)|].
    intros [] ls' pl' HP. destruct (rel_step2 _ w tt ss ss' ls tt ls' pl' HR HP) as (w' & _ & HR' & _).
    split; [apply HP|]. split; [exists w'; exact HR'|exact I].
  Qed.
  Lemma xsim2_bind_var fuel le ll e lf name mu : fexpr2' (purev name) e -> env_rel' le ll ->
    xsimU2 (x <- eval' fuel le e ;; unscoped_add glob name x mu) (x <- leval' lf ll e ;; lunscoped_add glob ll name x mu).
  Proof.
    intros Hf Henv ss p u ss' p' H ls pl [w HR] Hb. apply bind_ok in H. destruct H as (x & s1 & p1 & H1 & H2).
    apply lres_bind. eapply lres_mono; [apply (eval_sim2' fuel le ll e _ Hf Henv lf _ _ _ _ _ H1 w ls pl (proj1 HR) Hb)|].
    intros lv ls1 pl1 HP1. destruct (rel_step2 _ w x ss s1 ls lv ls1 pl1 HR HP1) as (w1 & _ & HR1 & Hd).
    eapply lres_mono; [apply (unscoped_add_sim2 t fl glob call purev ll name x lv mu _ _ _ _ _ w1 ls1 pl1 H2 (proj1 HR1) Hd (proj1 HP1))|].
    intros [] ls' pl' HP. destruct (rel_step2 _ w1 tt s1 ss' ls1 tt ls' pl' HR1 HP) as (w' & _ & HR' & _).
    split; [apply HP|]. split; [exists w'; exact HR'|exact I].
  Qed.
  Lemma xsim2_set_var fuel le ll e lf name : fexpr2' (purev name) e -> env_rel' le ll ->
    xsimU2 (x <- eval' fuel le e ;; unscoped_set glob name x) (x <- leval' lf ll e ;; lunscoped_set glob ll name x).
  Proof.
    intros Hf Henv ss p u ss' p' H ls pl [w HR] Hb. apply bind_ok in H. destruct H as (x & s1 & p1 & H1 & H2).
    apply lres_bind. eapply lres_mono; [apply (eval_sim2' fuel le ll e _ Hf Henv lf _ _ _ _ _ H1 w ls pl (proj1 HR) Hb)|].
    intros lv ls1 pl1 HP1. destruct (rel_step2 _ w x ss s1 ls lv ls1 pl1 HR HP1) as (w1 & _ & HR1 & Hd).
    eapply lres_mono; [apply (unscoped_set_sim2 t fl glob call purev ll name x lv _ _ _ _ _ w1 ls1 pl1 H2 (proj1 HR1) Hd (proj1 HP1))|].
    intros [] ls' pl' HP. destruct (rel_step2 _ w1 tt s1 ss' ls1 tt ls' pl' HR1 HP) as (w' & _ & HR' & _).
    split; [apply HP|]. split; [exists w'; exact HR'|exact I].
  Qed.

  (* ---------------- scoped definitions ---------------- *)
  (* strict: evaluate the scope, add (node, name) -> x to the scoped store (fails on a duplicate);
     lazy: evaluate the scope lazily, allocate a thunk for the value, append the pair to the UNFORCED cell *)
  Lemma scoped_def_tail ctx n name x lvx slv s1 p1 u ss' p' w1 ls1 pl1 :
    scoped_add_at n name x false s1 p1 = Ok (u, ss', p') ->
    Rel2 w1 s1 ls1 -> den2 w1 true slv (VSyn n) -> den2 w1 false lvx x -> nob pl1 ->
    lres ((var <- store_add lvx ctx ;; scoped_store_add slv name var ctx) ls1 pl1)
         (fun _ ls' pl' => nob pl' /\ RelX2 ss' ls').
  Proof.
    intros H3 HR1 Hds Hdx1 Hb1.
    destruct (scoped_add_ok _ _ _ _ _ _ _ _ H3) as (Lnone & Sg & Sl & Sp & Lnew & Lother).
    destruct HR1 as ((Hst1 & Hl1 & Hsc1) & Hcells1 & Hnd1 & Hss1 & HP).
    apply lres_bind. rewrite store_add_eq. cbn [lres].
    set (loc := length (l_store ls1)).
    set (sig2 := w_sig w1 ++ [(n, name, loc)]).
    set (w2 := W (w_rho w1 ++ [(x, false)]) sig2 (w_tree w1) (w_inhl w1)).
    destruct (Sfull_add call w1 sig2 (l_store ls1) lvx x false (ctx) Hst1 Hdx1 (prefix_app _ _)) as (Hx12 & Hst2 & Hnew). fold w2 in Hx12, Hst2, Hnew.
    assert (Hsf : forall name', sig_for name' sig2 = sig_for name' (w_sig w1) ++ (if str_eqb name' name then [(n, loc)] else [])).
    { intros name'. unfold sig2. rewrite sig_for_app. f_equal. unfold sig_for. cbn [filter fst snd]. destruct (str_eqb name' name); reflexivity. }
    (* the cell of `name` *)
    unfold scoped_store_add. apply lres_bind. unfold cell_get. apply lres_get. apply lres_ret. cbn [set_store l_scoped].
    pose proof (Hcells1 name) as Hcell.
    assert (Hpair : pair_ok call w2 (slv, LVar (N.of_nat loc), ctx) (n, loc)).
    { split; [reflexivity|]. cbn [fst snd]. eapply den2_mono; [exact Hx12|exact Hds]. }
    assert (Hfin : forall pairs', (match alist_get name (l_scoped ls1) with
                                   | Some (SVUnforced pairs) => pairs' = pairs ++ [(slv, LVar (N.of_nat loc), ctx)]
                                   | Some _ => False
                                   | None => pairs' = [(slv, LVar (N.of_nat loc), ctx)]
                                   end) ->
              lres (cell_set name (SVUnforced pairs') (set_store (l_store ls1 ++ [{| th_state := TUnforced lvx; th_dbg := ctx |}]) ls1) pl1)
                   (fun _ ls' pl' => nob pl' /\ RelX2 ss' ls')).
    { intros pairs' Hpairs'. unfold cell_set. apply lres_get. unfold set_lscoped, Lazy.upd. apply lres_modify. split; [exact Hb1|].
      exists w2. cbn [set_store l_graph l_locals l_store l_scoped l_edges l_attrs l_prints l_params l_prev]. split; [|split; [|split; [|split]]].
      - (* environments *)
        split; [exact Hst2|]. split; [rewrite Sl; eapply locals_rel2_mono; eauto|]. destruct Hsc1 as [Hws1 Hsc1]. split; [exact Hws1|].
        intros n' name' v' Hl'. destruct (N.eq_dec n' n) as [->|Hn'].
        + destruct (str_eqb_spec name' name) as [->|Hnm].
          * rewrite Lnew in Hl'. inversion Hl'; subst v'. exists loc, false. split; [unfold w2, sig2; cbn [w_sig]; apply in_or_app; right; left; reflexivity|exact Hnew].
          * rewrite Lother in Hl' by congruence. destruct (Hsc1 n name' v' Hl') as (l0 & pb0 & A & B). exists l0, pb0.
            split; [apply (prefix_In _ _ _ (proj1 (proj2 Hx12)) A)|apply (prefix_nth _ _ _ _ (proj1 Hx12) B)].
        + rewrite Lother in Hl' by congruence. destruct (Hsc1 n' name' v' Hl') as (l0 & pb0 & A & B). exists l0, pb0.
          split; [apply (prefix_In _ _ _ (proj1 (proj2 Hx12)) A)|apply (prefix_nth _ _ _ _ (proj1 Hx12) B)].
      - (* cells *)
        intros name'. cbn [l_scoped]. rewrite alist_get_set. change (w_sig w2) with sig2. rewrite Hsf. specialize (Hcells1 name'). destruct (str_eqb_spec name' name) as [->|Hnm].
        + destruct (alist_get name (l_scoped ls1)) as [[pairs| |mp]|]; try contradiction.
          * subst pairs'. apply Forall2_app; [eapply Forall2_mono_l; [|exact Hcells1]; intros pr d; apply pair_ok_mono, Hx12|]. constructor; [exact Hpair|constructor].
          * subst pairs'. rewrite Hcells1. cbn [app]. constructor; [exact Hpair|constructor].
        + rewrite app_nil_r. destruct (alist_get name' (l_scoped ls1)) as [[pairs| |mp]|]; try exact Hcells1.
          eapply Forall2_mono_l; [|exact Hcells1]. intros pr d. apply pair_ok_mono, Hx12.
      - (* no duplicate definitions *)
        unfold sig_nodup, w2, sig2. cbn [w_sig]. rewrite map_app. cbn [map fst]. apply NoDup_snoc; [exact Hnd1|].
        intros Hin. apply in_map_iff in Hin. destruct Hin as ([[n0 nm0] l0] & E & Hin). cbn [fst] in E. inversion E; subst n0 nm0.
        apply (Hss1 n name l0 Hin). exact Lnone.
      - (* recorded definitions are in the strict store *)
        intros n' name' l' Hin. unfold w2, sig2 in Hin. cbn [w_sig] in Hin. apply in_app_or in Hin. destruct Hin as [Hin|[E|[]]].
        + destruct (N.eq_dec n' n) as [->|Hn']; [destruct (str_eqb_spec name' name) as [->|Hnm]|].
          * rewrite Lnew. discriminate.
          * rewrite Lother by congruence. apply (Hss1 _ _ _ Hin).
          * rewrite Lother by congruence. apply (Hss1 _ _ _ Hin).
        + inversion E; subst. rewrite Lnew. discriminate.
      - rewrite Sg. apply (Pend_mono w1 w2 _ ls1 _ Hx12); try reflexivity. exact HP. }
    destruct (alist_get name (l_scoped ls1)) as [[pairs| |mp]|]; try contradiction; apply Hfin; reflexivity.
  Qed.


  Lemma scoped_def_core fuel le ll lf sc name x lvx ss p u ss' p' w ls pl :
    fexpr2' true sc -> env_rel' le ll ->
    (sv <- eval' fuel le sc ;; n <- scope_of sv ;; scoped_add_at n name x false) ss p = Ok (u, ss', p') ->
    Rel2 w ss ls -> den2 w false lvx x -> nob pl ->
    lres ((sv <- leval' lf ll sc ;; var <- store_add lvx (ll_ctx ll) ;; scoped_store_add sv name var (ll_ctx ll)) ls pl)
         (fun _ ls' pl' => nob pl' /\ RelX2 ss' ls').
  Proof.
    intros Hf Henv H HR Hdx Hb.
    apply bind_ok in H. destruct H as (sv & s1 & p1 & H1 & H). apply bind_ok in H. destruct H as (n & s2 & p2 & H2 & H3).
    assert (Esv : sv = VSyn n /\ s2 = s1 /\ p2 = p1).
    { unfold scope_of in H2. destruct sv; try discriminate. apply ret_ok in H2. destruct H2 as (-> & -> & ->). auto. }
    destruct Esv as (-> & -> & ->). clear H2.
    apply lres_bind. eapply lres_mono; [apply (eval_sim2' fuel le ll sc true Hf Henv lf _ _ _ _ _ H1 w ls pl (proj1 HR) Hb)|].
    intros slv ls1 pl1 HP1. destruct (rel_step2 _ w (VSyn n) ss s1 ls slv ls1 pl1 HR HP1) as (w1 & Hp1 & HR1 & Hds). unfold Qd in Hds.
    pose proof (den2_mono call w w1 (wext0_wext _ _ Hp1) _ _ _ Hdx) as Hdx1.
    apply (scoped_def_tail (ll_ctx ll) n name x lvx slv s1 p1 u ss' p' w1 ls1 pl1 H3 HR1 Hds Hdx1 (proj1 HP1)).
  Qed.

  Lemma xsim2_scoped_val fuel le ll lf sc name x : fexpr2' true sc -> env_rel' le ll ->
    xsimU2 (sv <- eval' fuel le sc ;; n <- scope_of sv ;; scoped_add_at n name x false)
           (sv <- leval' lf ll sc ;; var <- store_add (LValue x) (ll_ctx ll) ;; scoped_store_add sv name var (ll_ctx ll)).
  Proof.
    intros Hf Henv ss p u ss' p' H ls pl [w HR] Hb.
    eapply lres_mono; [apply (scoped_def_core fuel le ll lf sc name x (LValue x) _ _ _ _ _ w ls pl Hf Henv H HR (d2_value call w _ x) Hb)|].
    intros [] ls' pl' [H1 H2]. split; [exact H1|]. split; [exact H2|exact I].
  Qed.
  Lemma xsim2_scoped_def fuel le ll lf e sc name : fexpr2' false e -> fexpr2' true sc -> env_rel' le ll ->
    xsimU2 (x <- eval' fuel le e ;; sv <- eval' fuel le sc ;; n <- scope_of sv ;; scoped_add_at n name x false)
           (x <- leval' lf ll e ;; sv <- leval' lf ll sc ;; var <- store_add x (ll_ctx ll) ;; scoped_store_add sv name var (ll_ctx ll)).
  Proof.
    intros Hfe Hf Henv ss p u ss' p' H ls pl [w HR] Hb. apply bind_ok in H. destruct H as (x & s1 & p1 & H1 & H2).
    apply lres_bind. eapply lres_mono; [apply (eval_sim2' fuel le ll e false Hfe Henv lf _ _ _ _ _ H1 w ls pl (proj1 HR) Hb)|].
    intros lv ls1 pl1 HP1. destruct (rel_step2 _ w x ss s1 ls lv ls1 pl1 HR HP1) as (w1 & _ & HR1 & Hd).
    eapply lres_mono; [apply (scoped_def_core fuel le ll lf sc name x lv _ _ _ _ _ w1 ls1 pl1 Hf Henv H2 HR1 Hd (proj1 HP1))|].
    intros [] ls' pl' [A1 A2]. split; [exact A1|]. split; [exact A2|exact I].
  Qed.

  (* ---------------- graph statements ---------------- *)
  Lemma xsim2_add_node : xsim2 eq add_node ladd_node.
  Proof.
    intros ss p n ss' p' H ls pl [w HR] Hb. rewrite add_node_eq in H. inversion H; subst; clear H. rewrite ladd_node_eq. cbn [lres].
    split; [exact Hb|]. split; [|rewrite (rel_length2 _ _ _ HR); reflexivity].
    destruct HR as (HE & Hcells & Hnd & Hss & Hpr & eops & aopss & g1 & He & Ha & Hg1 & Hg2). exists w. split; [exact HE|]. split; [exact Hcells|].
    split; [exact Hnd|]. split; [exact Hss|]. split; [exact Hpr|].
    exists eops, aopss, (g1 ++ [new_gnode]). split; [exact He|]. split; [exact Ha|]. cbn [lset_graph sset_graph l_graph s_graph]. split.
    - apply (ofold_app_node _ _ (fun x g g' => apply_edge_app x g g' _) _ _ _ Hg1).
    - apply (ofold_app_node _ _ (fun x g g' => apply_attr_app x g g' _) _ _ _ Hg2).
  Qed.

  Lemma endpoint_sim2 fuel le ll e lf : fexpr2' false e -> env_rel' le ll ->
    esim2 (fun r lv n => den2 r false lv (VGraph n)) (x <- eval' fuel le e ;; lift (as_gnode x)) (leval' lf ll e).
  Proof.
    intros Hf Henv ss p n ss' p' H w ls pl HR Hb. apply bind_ok in H. destruct H as (x & s1 & p1 & H1 & H2).
    apply lift_ok in H2. destruct H2 as (Hg & -> & ->). apply as_gnode_ok in Hg. subst x.
    apply (eval_sim2' fuel le ll e false Hf Henv lf _ _ _ _ _ H1 w ls pl HR Hb).
  Qed.

  Lemma rel_push_edge2 w ss ss' ls a b x y dbg : Rel2 w ss ls -> den2 w false a (VGraph x) -> den2 w false b (VGraph y) ->
    apply_edge (x, y) (s_graph ss) = Some (s_graph ss') -> s_locals ss' = s_locals ss -> s_scoped ss' = s_scoped ss ->
    Rel2 w ss' (lpush_edge (LSEdge a b [] dbg) ls).
  Proof.
    intros ((A1 & A2 & A3) & Hcells & Hnd & Hss & Hpr & eops & aopss & g1 & He & Ha & Hg1 & Hg2) Hda Hdb Hedge Hloc Hsc.
    split; [split; [exact A1|split; [rewrite Hloc; exact A2|rewrite Hsc; exact A3]]|]. split; [exact Hcells|]. split; [exact Hnd|].
    split; [rewrite Hsc; exact Hss|]. split; [exact Hpr|].
    destruct (edge_before_attrs (x, y) _ _ _ _ Hg2 Hedge) as (g1' & E1 & E2).
    exists (eops ++ [(x, y)]), aopss, g1'. cbn [lpush_edge l_edges l_attrs l_graph]. split.
    - apply Forall2_app; [exact He|]. constructor; [|constructor]. exists a, b, dbg. auto.
    - split; [exact Ha|]. split; [|exact E2]. eapply ofold_app_ok; [exact Hg1|]. cbn [ofold]. rewrite E1. reflexivity.
  Qed.
  Lemma rel_push_attr2 w w2 s1 ss' ls1 ls2 st ops : Rel2 w s1 ls1 -> wext0 w w2 -> lframe ls1 ls2 -> s_scoped ss' = s_scoped s1 -> Renv2 w2 ss' ls2 ->
    den_astmt2 w2 st ops -> apply_attrs ops (s_graph s1) = Some (s_graph ss') ->
    Rel2 w2 ss' (lpush_attr st ls2).
  Proof.
    intros (_ & Hcells & Hnd & Hss & Hpr & eops & aopss & g1 & He & Ha & Hg1 & Hg2) Hp (F1 & F2 & F3 & F4 & F5) Hsc HR2 Hst Hops.
    pose proof (wext0_wext _ _ Hp) as Hx.
    split; [exact HR2|]. split; [cbn [lpush_attr l_scoped]; rewrite F5; eapply cells_unforced_mono0; eauto|].
    split; [unfold sig_nodup; rewrite (wext0_sig _ _ Hp); exact Hnd|].
    split; [intros n name loc Hin; rewrite (wext0_sig _ _ Hp) in Hin; rewrite Hsc; apply (Hss n name loc Hin)|]. split.
    - cbn [lpush_attr l_prints]. rewrite F4. eapply Forall_impl; [|exact Hpr]. intros st0. apply print_ok2_mono, Hx.
    - exists eops, (aopss ++ [ops]), g1. cbn [lpush_attr l_edges l_attrs l_graph]. rewrite F1, F2, F3. split.
      + eapply Forall2_mono_l; [|exact He]. intros st0 e. apply den_edge2_mono, Hx.
      + split; [apply Forall2_app; [eapply Forall2_mono_l; [|exact Ha]; intros st0 e; apply den_astmt2_mono, Hx|constructor; [exact Hst|constructor]]|].
        split; [exact Hg1|]. rewrite concat_app. cbn [concat]. rewrite app_nil_r. eapply ofold_app_ok; eauto.
  Qed.

  Notation exec_stmt' := (exec_stmt t fl config0 glob regexes find call).
  Notation lexec_stmt' := (lexec_stmt t fl config0 glob regexes find call).

  Lemma attrs_all_sim2 fuel le ll tgt lf attrs : All fattr2' attrs -> env_rel' le ll ->
    forall a, In a attrs -> asim2 tgt (exec_attr' fuel le tgt a) (lexec_attr' lf ll a).
  Proof. intros Hall Henv a Hin. apply attr_sim2; [apply (All_In _ _ _ Hall Hin)|exact Henv]. Qed.

  Lemma xsim2_attr_node fuel le ll lf node attrs : fexpr2' false node -> All fattr2' attrs -> env_rel' le ll ->
    xsimU2 (nv <- eval' fuel le node ;; n <- lift (as_gnode nv) ;; iterM (exec_attr' fuel le (TNode n)) attrs)
           (nv <- leval' lf ll node ;; outs <- mapM (lexec_attr' lf ll) attrs ;; push_lstmt (LSAttrNode nv (concat outs) (ll_ctx ll))).
  Proof.
    intros Hfn Hfa Henv ss p u ss' p' H ls pl [w HR] Hb.
    assert (H' : exists n s1 p1, (x <- eval' fuel le node ;; lift (as_gnode x)) ss p = Ok (n, s1, p1) /\ iterM (exec_attr' fuel le (TNode n)) attrs s1 p1 = Ok (u, ss', p')).
    { apply bind_ok in H. destruct H as (nv & s1 & p1 & H1 & H). apply bind_ok in H. destruct H as (n & s2 & p2 & H2 & H3).
      exists n, s2, p2. split; [|exact H3]. unfold bind at 1. rewrite H1. exact H2. }
    destruct H' as (n & s1 & p1 & H1 & H3).
    apply lres_bind. eapply lres_mono; [apply (endpoint_sim2 fuel le ll node lf Hfn Henv _ _ _ _ _ H1 w ls pl (proj1 HR) Hb)|].
    intros nv' ls1 pl1 HP1. destruct (rel_step2 _ w n ss s1 ls nv' ls1 pl1 HR HP1) as (w1 & _ & HR1 & Hdn).
    apply lres_bind. eapply lres_mono; [apply (attrs_sim2 (TNode n) _ _ attrs (attrs_all_sim2 fuel le ll (TNode n) lf attrs Hfa Henv) _ _ _ _ _ H3 w1 ls1 pl1 (proj1 HR1) (proj1 HP1))|].
    intros outs ls2 pl2 (Hb2 & Hf2 & Hsc2 & w2 & kvs & Hp2 & HR2 & Hd2 & Hg2).
    unfold push_lstmt, Lazy.upd. apply lres_modify. split; [exact Hb2|]. split; [|exact I]. exists w2.
    apply (rel_push_attr2 w1 w2 s1 ss' ls1 ls2 _ (map (mk (TNode n)) kvs) HR1 Hp2 Hf2 Hsc2 HR2); [|exact Hg2].
    exists n, kvs. split; [eapply den2_mono; [apply wext0_wext, Hp2|exact Hdn]|]. split; [exact Hd2|reflexivity].
  Qed.

  Lemma xsim2_attr_edge fuel le ll lf src snk attrs : fexpr2' false src -> fexpr2' false snk -> All fattr2' attrs -> env_rel' le ll ->
    xsimU2 (a <- (x <- eval' fuel le src ;; lift (as_gnode x)) ;; b <- (x <- eval' fuel le snk ;; lift (as_gnode x)) ;;
            iterM (exec_attr' fuel le (TEdge a b)) attrs)
           (a <- leval' lf ll src ;; b <- leval' lf ll snk ;; outs <- mapM (lexec_attr' lf ll) attrs ;;
            push_lstmt (LSAttrEdge a b (concat outs) (ll_ctx ll))).
  Proof.
    intros Hfa Hfb Hfat Henv ss p u ss' p' H ls pl [w HR] Hb.
    apply bind_ok in H. destruct H as (a & s1 & p1 & H1 & H). apply bind_ok in H. destruct H as (b & s2 & p2 & H2 & H3).
    apply lres_bind. eapply lres_mono; [apply (endpoint_sim2 fuel le ll src lf Hfa Henv _ _ _ _ _ H1 w ls pl (proj1 HR) Hb)|].
    intros a' ls1 pl1 HP1. destruct (rel_step2 _ w a ss s1 ls a' ls1 pl1 HR HP1) as (w1 & _ & HR1 & Hda).
    apply lres_bind. eapply lres_mono; [apply (endpoint_sim2 fuel le ll snk lf Hfb Henv _ _ _ _ _ H2 w1 ls1 pl1 (proj1 HR1) (proj1 HP1))|].
    intros b' ls2 pl2 HP2. destruct (rel_step2 _ w1 b s1 s2 ls1 b' ls2 pl2 HR1 HP2) as (w2 & Hp12 & HR2 & Hdb).
    apply lres_bind. eapply lres_mono; [apply (attrs_sim2 (TEdge a b) _ _ attrs (attrs_all_sim2 fuel le ll (TEdge a b) lf attrs Hfat Henv) _ _ _ _ _ H3 w2 ls2 pl2 (proj1 HR2) (proj1 HP2))|].
    intros outs ls3 pl3 (Hb3 & Hf3 & Hsc3 & w3 & kvs & Hp3 & HR3 & Hd3 & Hg3).
    unfold push_lstmt, Lazy.upd. apply lres_modify. split; [exact Hb3|]. split; [|exact I]. exists w3.
    apply (rel_push_attr2 w2 w3 s2 ss' ls2 ls3 _ (map (mk (TEdge a b)) kvs) HR2 Hp3 Hf3 Hsc3 HR3); [|exact Hg3].
    exists a, b, kvs. split; [eapply den2_mono; [|exact Hda]; apply wext0_wext; eapply wext0_trans; eauto|]. split; [eapply den2_mono; [apply wext0_wext, Hp3|exact Hdb]|]. split; [exact Hd3|reflexivity].
  Qed.

  Lemma xsim2_edge fuel le ll lf src snk dbg : fexpr2' false src -> fexpr2' false snk -> env_rel' le ll ->
    xsimU2 (a <- (x <- eval' fuel le src ;; lift (as_gnode x)) ;; b <- (x <- eval' fuel le snk ;; lift (as_gnode x)) ;;
            isnew <- add_edge a b ;; (if isnew : bool then ret tt else ret tt))
           (a <- leval' lf ll src ;; b <- leval' lf ll snk ;; push_lstmt (LSEdge a b [] dbg)).
  Proof.
    intros Hfa Hfb Henv ss p u ss' p' H ls pl [w HR] Hb.
    apply bind_ok in H. destruct H as (a & s1 & p1 & H1 & H). apply bind_ok in H. destruct H as (b & s2 & p2 & H2 & H).
    apply bind_ok in H. destruct H as (isnew & s3 & p3 & H3 & H4).
    assert (E4 : ss' = s3) by (destruct isnew; apply ret_ok in H4; destruct H4 as (_ & -> & _); reflexivity). subst s3.
    apply lres_bind. eapply lres_mono; [apply (endpoint_sim2 fuel le ll src lf Hfa Henv _ _ _ _ _ H1 w ls pl (proj1 HR) Hb)|].
    intros a' ls1 pl1 HP1. destruct (rel_step2 _ w a ss s1 ls a' ls1 pl1 HR HP1) as (w1 & _ & HR1 & Hda).
    apply lres_bind. eapply lres_mono; [apply (endpoint_sim2 fuel le ll snk lf Hfb Henv _ _ _ _ _ H2 w1 ls1 pl1 (proj1 HR1) (proj1 HP1))|].
    intros b' ls2 pl2 HP2. destruct (rel_step2 _ w1 b s1 s2 ls1 b' ls2 pl2 HR1 HP2) as (w2 & Hp12 & HR2 & Hdb).
    unfold push_lstmt, Lazy.upd. apply lres_modify. split; [apply HP2|]. split; [|exact I]. exists w2.
    destruct (add_edge_ok _ _ _ _ _ _ _ H3) as [Hedge Hs].
    apply (rel_push_edge2 w2 s2 ss' ls2 a' b' a b dbg HR2); [eapply den2_mono; [apply wext0_wext, Hp12|exact Hda]|exact Hdb|exact Hedge| |]; rewrite Hs; reflexivity.
  Qed.

  (* `print` *)
  Definition arg_ok2 (w : world) (a : option lvalue) (_ : unit) : Prop :=
    match a with Some lv => exists v, den2 w false lv v | None => True end.
  Lemma arg_ok2_mono : Qmono2 arg_ok2.
  Proof. intros r r' [lv|] [] Hp; cbn; [|auto]. intros [v Hv]. exists v. eapply den2_mono; [apply wext0_wext, Hp|exact Hv]. Qed.

  Lemma print_arg_sim2 fuel le ll lf e : fexpr2' false e -> env_rel' le ll ->
    esim2 arg_ok2 (match e with EStr _ => ret tt | _ => eval' fuel le e ;;; ret tt end)
                  (match e with EStr _ => ret None | _ => lv <- leval' lf ll e ;; ret (Some lv) end).
  Proof.
    intros Hf Henv.
    assert (Hgen : esim2 arg_ok2 (eval' fuel le e ;;; ret tt) (lv <- leval' lf ll e ;; ret (Some lv))).
    { intros ss p u ss' p' H w ls pl HR Hb. apply bind_ok in H. destruct H as (v & s1 & p1 & H1 & H2). apply ret_ok in H2. destruct H2 as (-> & -> & ->).
      apply lres_bind. eapply lres_mono; [apply (eval_sim2' fuel le ll e false Hf Henv lf _ _ _ _ _ H1 w ls pl HR Hb)|].
      intros lv ls1 pl1 HP. apply lres_ret. eapply epost2_impl; [exact HP|]. intros r Hd. exists v. exact Hd. }
    destruct e; try exact Hgen.
    intros ss p u ss' p' H w ls pl HR Hb. apply ret_ok in H. destruct H as (-> & -> & ->). apply lres_ret. apply epost2_here; [exact HR|exact Hb|exact I].
  Qed.

  Lemma xsim2_print fuel le ll lf values dbg : All (fexpr2' false) values -> env_rel' le ll ->
    xsimU2 (iterM (fun e => match e with EStr _ => ret tt | _ => eval' fuel le e ;;; ret tt end) values)
           (args <- mapM (fun e => match e with EStr _ => ret None | _ => lv <- leval' lf ll e ;; ret (Some lv) end) values ;;
            push_lstmt (LSPrint args dbg)).
  Proof.
    intros Hf Henv ss p u ss' p' H ls pl [w HR] Hb. destruct (iterM_mapM _ _ _ _ _ _ _ H) as (us & H').
    apply lres_bind.
    eapply lres_mono; [apply (trav_sim2 t fl call purev _ _ arg_ok2 (fexpr2' false) arg_ok2_mono (fun e He => print_arg_sim2 fuel le ll lf e He Henv) values Hf _ _ _ _ _ H' w ls pl (proj1 HR) Hb)|].
    intros args ls1 pl1 HP. destruct (rel_step2 _ w us ss ss' ls args ls1 pl1 HR HP) as (w1 & _ & HR1 & HF).
    unfold push_lstmt, Lazy.upd. apply lres_modify. split; [apply HP|]. split; [|exact I]. exists w1.
    destruct HR1 as (A & Hcells & Hnd & Hss & Hpr & B). split; [exact A|]. split; [exact Hcells|]. split; [exact Hnd|]. split; [exact Hss|]. split; [|exact B].
    cbn [l_prints]. apply Forall_app. split; [exact Hpr|]. constructor; [|constructor]. cbn [print_ok2].
    clear -HF. induction HF as [|a b l l' Hab _ IH]; constructor; [exact Hab|exact IH].
  Qed.

  (* ---------------- control flow ---------------- *)
  Lemma xsim2_cond fuel le ll lf c : fcond2 okfn purev m c -> env_rel' le ll ->
    xsim2 eq (test_cond t fl glob call fuel le c) (ltest_cond t fl glob call lf ll c).
  Proof.
    intros Hf Henv. destruct c; cbn [test_cond ltest_cond fcond2] in *.
    - eapply xsim2_bind; [apply xsim2_eager; eassumption|]. intros a b <-. apply xsim2_ret. reflexivity.
    - eapply xsim2_bind; [apply xsim2_eager; eassumption|]. intros a b <-. apply xsim2_ret. reflexivity.
    - eapply xsim2_bind; [apply xsim2_eager; eassumption|]. intros a b <-. apply xsim2_lift.
  Qed.

  Lemma xsim2_if test test' run run' arms :
    All (fun arm : list cond * list stmt * loc =>
           All (fun c => xsim2 eq (test c) (test' c)) (fst (fst arm)) /\ xsimU2 (run (snd (fst arm))) (run' (snd (fst arm)))) arms ->
    xsimU2 (if_loop test run arms) (lif_loop test' run' arms).
  Proof.
    induction arms as [|[[conds body] l'] arms IH]; cbn [if_loop lif_loop All fst snd]; [intros _; apply xsim2_ret; exact I|].
    intros [[Hc Hb] Hrest]. eapply xsim2_bind; [apply (xsim2_mapM eq _ test test' conds (fun c Hc0 => Hc0) Hc)|].
    intros bs bs' HF. apply Forall2_eq in HF. subst bs'. destruct (forallb (fun b => b) bs); [|apply IH, Hrest].
    apply xsim2_seq; [apply xsim2_push_frame|]. apply xsim2_seq; [exact Hb|apply xsim2_pop_frame].
  Qed.

  Lemma xsim2_scan run run' arms rs subject :
    (forall caps k r body l', nth_error arms k = Some (r, body, l') -> xsimU2 (run caps body) (run' caps body)) ->
    forall sfuel i, xsimU2 (scan_loop find run arms rs subject sfuel i) (lscan_loop find run' arms rs subject sfuel i).
  Proof.
    intros Hrun. induction sfuel as [|sfuel IH]; intros i; cbn [scan_loop lscan_loop]; [apply xsim2_soof|].
    destruct (N.ltb i (N.of_nat (length subject))); [|apply xsim2_ret; exact I]. apply xsim2_spoll. cbv zeta. apply xsim2_lpoll_n.
    destruct (arm_select find rs (skipn (N.to_nat i) subject)) as [|k|k caps]; [apply xsim2_ret; exact I|apply xsim2_sfail|].
    destruct (nth_error arms (N.to_nat k)) as [[[r body] l']|] eqn:E; [|apply xsim2_spanic].
    apply xsim2_seq; [apply xsim2_push_frame|]. apply xsim2_seq; [apply (Hrun _ _ _ _ _ E)|]. apply xsim2_seq; [apply xsim2_pop_frame|apply IH].
  Qed.

  Lemma stmt_sim2 : forall fuel le ll s, fstmt2' s -> env_rel' le ll -> forall lf, xsimU2 (exec_stmt' fuel le s) (lexec_stmt' lf ll s).
  Proof.
    induction fuel as [|fuel IH]; intros le ll s Hf Henv lf; [apply xsim2_soof|]. destruct lf as [|lf]; [apply xsim2_loof|].
    assert (Hblock : forall le' ll' (wrap : M sstate unit -> M sstate unit) body, env_rel' le' ll' -> All fstmt2' body ->
               (forall ms ml, xsimU2 ms ml -> xsimU2 (wrap ms) ml) ->
               xsimU2 (iterM (fun st => let c := ctx_update (le_ctx le') st in
                                        ctx_wrap (CtxStmts [c]) (wrap (exec_stmt' fuel (le_with_ctx le' c) st))) body)
                      (iterM (fun st => lexec_stmt' lf (ll_with_ctx ll' (ctx_update (ll_ctx ll') st)) st) body)).
    { intros le' ll' wrap body Henv' Hbody Hw. apply (xsim2_iter fstmt2'); [|exact Hbody]. intros st Hst. cbv zeta. apply xsim2_sctx, Hw.
      apply IH; [exact Hst|apply env_rel_ctx, Henv']. }
    assert (Harm : forall le' ll' body, env_rel' le' ll' -> All fstmt2' body ->
               xsimU2 (iterM (fun st => let c := ctx_update (le_ctx le') st in
                                        ctx_wrap (CtxStmts [c]) (ctx_wrap CtxOther (exec_stmt' fuel (le_with_ctx le' c) st))) body)
                      (iterM (fun st => let c := ctx_update (ll_ctx ll') st in
                                        ctx_wrap (CtxStmts [c]) (ctx_wrap CtxOther (lexec_stmt' lf (ll_with_ctx ll' c) st))) body)).
    { intros le' ll' body Henv' Hbody. apply (xsim2_iter fstmt2'); [|exact Hbody]. intros st Hst. cbv zeta. apply xsim2_sctx, xsim2_sctx, xsim2_lctx, xsim2_lctx.
      apply IH; [exact Hst|apply env_rel_ctx, Henv']. }
    destruct s; cbn [exec_stmt lexec_stmt]; cbn [fstmt2] in Hf; apply xsim2_spoll, xsim2_lpoll.
    - (* let *) destruct v as [x lx|sc name lx]; cbn [fbind2] in Hf; cbn [var_add lvar_add].
      + apply xsim2_bind_var; assumption.
      + destruct Hf as [Hsc He]. apply xsim2_scoped_def; assumption.
    - (* var *) destruct v; cbn [fmut2] in Hf; [|contradiction]. cbn [var_add lvar_add]. apply xsim2_bind_var; assumption.
    - (* set *) destruct v; cbn [fmut2] in Hf; [|contradiction]. cbn [var_set lvar_set]. apply xsim2_set_var; assumption.
    - (* node *) cbn [config0 c_var_attr c_loc_attr c_match_attr opt_attr lopt_node_attr].
      eapply xsim2_bind; [apply xsim2_add_node|]. intros n n' <-. apply xsim2_seq; [apply xsim2_ret; exact I|]. apply xsim2_seq; [apply xsim2_ret; exact I|].
      apply xsim2_seq; [apply xsim2_ret; exact I|]. destruct v as [x lx|sc name lx]; cbn [var_add lvar_add].
      + apply (xsim2_unscoped_add ll x (VGraph n) false).
      + apply xsim2_scoped_val; assumption.
    - (* attr on a node *) destruct Hf as [Hn Ha]. apply xsim2_attr_node; assumption.
    - (* edge *) destruct Hf as [Ha Hb]. cbn [config0 c_loc_attr opt_attr]. apply xsim2_edge; assumption.
    - (* attr on an edge *) destruct Hf as (Ha & Hb & Hat). apply xsim2_attr_edge; assumption.
    - (* scan *) destruct Hf as [Hv Harms]. eapply xsim2_bind; [apply xsim2_eager; eassumption|]. intros sv sv' <-.
      eapply xsim2_bind; [apply xsim2_lift|]. intros subject subject' <-. destruct (arm_table regexes arms) as [rs|]; [|apply xsim2_spanic].
      apply xsim2_scan. intros caps k r body l' E. apply Harm; [apply env_rel_caps, Henv|].
      apply (All_In _ _ _ Harms (nth_error_In _ _ E)).
    - (* print *) apply xsim2_print; assumption.
    - (* if *) apply xsim2_if. eapply All_impl; [|exact Hf]. intros [[conds body] l'] [Hc Hb]. cbn [fst snd] in *. split.
      + eapply All_impl; [|exact Hc]. intros c Hfc. apply xsim2_cond; assumption.
      + apply (Hblock le ll (fun ms => ms) body Henv Hb). auto.
    - (* for *) destruct Hf as [Hv Hbody]. eapply xsim2_bind; [apply xsim2_eager; eassumption|]. intros lv lv' <-.
      eapply xsim2_bind; [apply xsim2_lift|]. intros vals vals' <-. apply xsim2_seq; [apply xsim2_push_frame|].
      apply xsim2_seq; [|apply xsim2_pop_frame]. apply (xsim2_iter (fun _ => True)); [|clear; induction vals; cbn; auto].
      intros v _. apply xsim2_seq; [apply xsim2_clear_frame|]. apply xsim2_seq; [apply xsim2_unscoped_add|].
      apply (Hblock le ll (fun ms => ms) body Henv Hbody). auto.
  Qed.

  (* one match of one stanza *)
  Lemma stanza_sim2 fuel lf st : All fstmt2' (st_stmts st) -> nodes_for_capture m (st_full_file_idx st) <> [] ->
    xsimU2 (exec_stanza t fl config0 glob regexes find call fuel st m) (lexec_stanza t fl config0 glob regexes find call lf st m).
  Proof.
    intros Hst Hfull. unfold exec_stanza, lexec_stanza. apply xsim2_lpoll. apply xsim2_seq; [apply xsim2_clear_frame|]. cbv zeta.
    destruct (nodes_for_capture m (st_full_file_idx st)) as [|n' ns']; [contradiction|].
    apply (xsim2_iter fstmt2'); [|exact Hst]. intros s Hs.
    destruct (nodes_for_capture m (st_full_stanza_idx st)) as [|n ns]; [apply xsim2_spanic|].
    apply xsim2_sctx, xsim2_lctx. apply stmt_sim2; [exact Hs|]. repeat split.
  Qed.
End Stmt2.
