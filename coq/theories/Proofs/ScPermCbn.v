(* Proofs/ScPermCbn.v — C08 WITH scoped variables, part 1: a reference evaluator for lazy values.
   With scoped variables a thunk may read a definition made by a LATER block (reader before definer), so the
   thunk store is no longer acyclic by index and the denotation `den` of Proofs/SLForce.v (a valuation of the
   store, read in index order) is not available.  Instead: a STATIC ENVIRONMENT gives every store location its
   (original) body and every scoped-variable name its forced map, and `cev fuel lv` evaluates a lazy value by
   plain unfolding (call by name: no memoisation, no state).  A finite unfolding IS the well-founded dependency
   order: `cev f lv = Some v` can only hold when the dependencies of lv are acyclic.  The fuel-indexed function
   is monotone and deterministic; the minimal fuel of a location is what the adequacy proof (ScPermAdeq.v)
   recurses on. *)
From TSG Require Import Model.Lazy Proofs.BaseFacts Proofs.Scoped.

Record senv := { se_body : nat -> option lvalue; se_cell : ident -> option (list (N * lvalue)) }.

Fixpoint omap {A B} (f : A -> option B) (l : list A) : option (list B) :=
  match l with
  | [] => Some []
  | x :: l' => match f x with
               | Some y => match omap f l' with Some ys => Some (y :: ys) | None => None end
               | None => None
               end
  end.

Lemma omap_Forall2 {A B} (f : A -> option B) l ys : omap f l = Some ys <-> Forall2 (fun x y => f x = Some y) l ys.
Proof.
  revert ys. induction l as [|x l IH]; intros ys; cbn [omap].
  - split; [intros [= <-]; constructor|intros H; inversion H; reflexivity].
  - split.
    + destruct (f x) as [y|] eqn:E; [|discriminate]. destruct (omap f l) as [ys0|] eqn:E2; [|discriminate]. intros [= <-]. constructor; [exact E|apply IH; reflexivity].
    + intros H. inversion H as [|? y ? ys0 Hx Hl]; subst. rewrite Hx. apply IH in Hl. rewrite Hl. reflexivity.
Qed.
Lemma omap_mono {A B} (f g : A -> option B) l ys : (forall x y, In x l -> f x = Some y -> g x = Some y) -> omap f l = Some ys -> omap g l = Some ys.
Proof.
  intros H E. apply omap_Forall2 in E. apply omap_Forall2. revert H. induction E as [|x y l ys Hx _ IH]; intros H; constructor.
  - apply H; [left; reflexivity|exact Hx].
  - apply IH. intros x0 y0 Hin. apply H. right. exact Hin.
Qed.
Lemma omap_length {A B} (f : A -> option B) l ys : omap f l = Some ys -> length ys = length l.
Proof. intros E. apply omap_Forall2 in E. induction E; cbn [length]; congruence. Qed.

(* the scope of a definition as a syntax node (scopes of the fragment are literal values) *)
Definition node_of (lv : lvalue) : N := match lv with LValue (VSyn n) => n | _ => 0 end.
Definition synscope (pr : lvalue * lvalue * stmt_ctx) : bool := match fst (fst pr) with LValue (VSyn _) => true | _ => false end.
(* what forcing a cell yields (None: forcing fails or the cell is being forced) *)
Definition cell_val (c : scoped_values) : option (list (N * lvalue)) :=
  match c with
  | SVUnforced ps => if forallb synscope ps then match build node_of ps [] [] with inl m => Some m | inr _ => None end else None
  | SVForcing => None
  | SVForced m => Some m
  end.

Section Cbn.
  Variables (t : tree) (fl : file) (call : ident -> graph -> list value -> res (value * graph)).
  Variable E : senv.

  (* LazyScopedVariable::resolve on a forced map: own node first, then (inherited names) the nearest ancestor *)
  Definition resolve (name : ident) (m : list (N * lvalue)) (n : N) : option lvalue :=
    match nmap_get m n with
    | Some v => Some v
    | None => if linherited fl name then
                lancestor_lookup t (S (length (t_nodes t))) m (match node_at t n with Some nd => tn_parent nd | None => None end)
              else None
    end.

  Fixpoint cev (f : nat) (lv : lvalue) {struct f} : option value :=
    match f with
    | O => None
    | S f =>
      match lv with
      | LValue v => Some v
      | LList es => match omap (cev f) es with Some vs => Some (VList vs) | None => None end
      | LSet es => match omap (cev f) es with Some vs => Some (VSet (set_of_list vs)) | None => None end
      | LVar loc => match se_body E (N.to_nat loc) with Some b => cev f b | None => None end
      | LScoped sc name =>
          match cev f sc with
          | Some (VSyn n) =>
              match se_cell E name with
              | Some m => match resolve name m n with Some lv' => cev f lv' | None => None end
              | None => None
              end
          | _ => None
          end
      | LCall fn args =>
          match omap (cev f) args with
          | Some vs => match call fn [] vs with Ok (v, _) => Some v | _ => None end
          | None => None
          end
      end
    end.

  Lemma cev_S_eq f lv : cev (S f) lv =
      match lv with
      | LValue v => Some v
      | LList es => match omap (cev f) es with Some vs => Some (VList vs) | None => None end
      | LSet es => match omap (cev f) es with Some vs => Some (VSet (set_of_list vs)) | None => None end
      | LVar loc => match se_body E (N.to_nat loc) with Some b => cev f b | None => None end
      | LScoped sc name =>
          match cev f sc with
          | Some (VSyn n) =>
              match se_cell E name with
              | Some m => match resolve name m n with Some lv' => cev f lv' | None => None end
              | None => None
              end
          | _ => None
          end
      | LCall fn args =>
          match omap (cev f) args with
          | Some vs => match call fn [] vs with Ok (v, _) => Some v | _ => None end
          | None => None
          end
      end.
  Proof. reflexivity. Qed.

  Lemma cev_step : forall f lv v, cev f lv = Some v -> cev (S f) lv = Some v.
  Proof.
    induction f as [|f IH]; intros lv v H; [discriminate|]. rewrite cev_S_eq in H. rewrite cev_S_eq.
    assert (Hm : forall es vs, omap (cev f) es = Some vs -> omap (cev (S f)) es = Some vs).
    { intros es vs. apply omap_mono. intros x y _. apply IH. }
    destruct lv as [v0|es|es|loc|sc name|fn args].
    - exact H.
    - destruct (omap (cev f) es) as [vs|] eqn:Eo; [|discriminate]. rewrite (Hm _ _ Eo). exact H.
    - destruct (omap (cev f) es) as [vs|] eqn:Eo; [|discriminate]. rewrite (Hm _ _ Eo). exact H.
    - destruct (se_body E (N.to_nat loc)) as [b|]; [|discriminate]. apply IH, H.
    - destruct (cev f sc) as [sv|] eqn:Es; [|discriminate]. rewrite (IH _ _ Es). destruct sv; try discriminate.
      destruct (se_cell E name) as [m|]; [|discriminate]. destruct (resolve name m n) as [lv'|]; [|discriminate]. apply IH, H.
    - destruct (omap (cev f) args) as [vs|] eqn:Eo; [|discriminate]. rewrite (Hm _ _ Eo). exact H.
  Qed.
  Lemma cev_mono f f' lv v : (f <= f')%nat -> cev f lv = Some v -> cev f' lv = Some v.
  Proof. induction 1 as [|f' _ IH]; [auto|]. intros H. apply cev_step, IH, H. Qed.
  Lemma cev_det f f' lv v v' : cev f lv = Some v -> cev f' lv = Some v' -> v = v'.
  Proof.
    intros H H'. apply (cev_mono f (Nat.max f f')) in H; [|lia]. apply (cev_mono f' (Nat.max f f')) in H'; [|lia]. congruence.
  Qed.
  Lemma cev_none_mono f f' lv : (f <= f')%nat -> cev f' lv = None -> cev f lv = None.
  Proof. intros Hle H. destruct (cev f lv) as [v|] eqn:Ec; [|reflexivity]. rewrite (cev_mono f f' lv v Hle Ec) in H. discriminate. Qed.
  (* the minimal fuel *)
  Lemma cev_min : forall f lv v, cev f lv = Some v -> exists m, (m <= f)%nat /\ cev m lv = Some v /\ forall k, (k < m)%nat -> cev k lv = None.
  Proof.
    induction f as [|f IH]; intros lv v H; [discriminate|].
    destruct (cev f lv) as [v'|] eqn:Ec.
    - destruct (IH lv v' Ec) as (m & Hm & Em & Hmin). exists m. split; [lia|]. split; [|exact Hmin].
      rewrite Em. f_equal. eapply cev_det; [exact Em|exact H].
    - exists (S f). split; [lia|]. split; [exact H|]. intros k Hk. apply (cev_none_mono k f); [lia|exact Ec].
  Qed.

  (* the relation "lv evaluates to v" *)
  Definition cevv (lv : lvalue) (v : value) : Prop := exists f, cev f lv = Some v.
  Lemma cevv_det lv v v' : cevv lv v -> cevv lv v' -> v = v'.
  Proof. intros [f H] [f' H']. eapply cev_det; eauto. Qed.
  Lemma cevv_common es vs : Forall2 cevv es vs -> exists f, omap (cev f) es = Some vs.
  Proof.
    induction 1 as [|e v es vs [f1 H1] _ (f2 & H2)]; [exists 0%nat; reflexivity|].
    exists (Nat.max f1 f2). cbn [omap]. rewrite (cev_mono f1 (Nat.max f1 f2) e v ltac:(lia) H1).
    rewrite (omap_mono (cev f2) (cev (Nat.max f1 f2)) es vs); [reflexivity| |exact H2]. intros x y _. apply cev_mono. lia.
  Qed.
  Lemma cevv_value v : cevv (LValue v) v. Proof. exists 1%nat. reflexivity. Qed.
  Lemma cevv_list es vs : Forall2 cevv es vs -> cevv (LList es) (VList vs).
  Proof. intros H. destruct (cevv_common es vs H) as (f & Hf). exists (S f). rewrite cev_S_eq, Hf. reflexivity. Qed.
  Lemma cevv_set es vs : Forall2 cevv es vs -> cevv (LSet es) (VSet (set_of_list vs)).
  Proof. intros H. destruct (cevv_common es vs H) as (f & Hf). exists (S f). rewrite cev_S_eq, Hf. reflexivity. Qed.
  Lemma cevv_var loc b v : se_body E (N.to_nat loc) = Some b -> cevv b v -> cevv (LVar loc) v.
  Proof. intros Hb [f H]. exists (S f). rewrite cev_S_eq, Hb. exact H. Qed.
  Lemma cevv_scoped sc name n m lv' v : cevv sc (VSyn n) -> se_cell E name = Some m -> resolve name m n = Some lv' -> cevv lv' v ->
    cevv (LScoped sc name) v.
  Proof.
    intros [f1 H1] Hc Hr [f2 H2]. exists (S (Nat.max f1 f2)). rewrite cev_S_eq, (cev_mono f1 (Nat.max f1 f2) sc _ ltac:(lia) H1), Hc, Hr.
    apply (cev_mono f2); [lia|exact H2].
  Qed.
  Lemma cevv_call fn args vs v g : Forall2 cevv args vs -> call fn [] vs = Ok (v, g) -> cevv (LCall fn args) v.
  Proof. intros H Hc. destruct (cevv_common args vs H) as (f & Hf). exists (S f). rewrite cev_S_eq, Hf, Hc. reflexivity. Qed.
  Lemma cevv_var_inv loc v : cevv (LVar loc) v -> exists b, se_body E (N.to_nat loc) = Some b /\ cevv b v.
  Proof.
    intros [f H]. destruct f as [|f]; [discriminate|]. rewrite cev_S_eq in H. destruct (se_body E (N.to_nat loc)) as [b|]; [|discriminate].
    exists b. split; [reflexivity|exists f; exact H].
  Qed.
End Cbn.

(* the environment of a state: a forced thunk counts as a thunk whose body is its value *)
Definition body_of (th : thunk) : option lvalue :=
  match th_state th with TUnforced lv => Some lv | TForcing => None | TForced v => Some (LValue v) end.
Definition env_of (s : lstate) : senv :=
  {| se_body := fun i => match nth_error (l_store s) i with Some th => body_of th | None => None end;
     se_cell := fun name => match alist_get name (l_scoped s) with Some c => cell_val c | None => None end |}.

(* ancestor lookup only depends on the map as a function *)
Lemma lancestor_lookup_ext t m m' : (forall n, nmap_get m n = nmap_get m' n) -> forall fuel p, lancestor_lookup t fuel m p = lancestor_lookup t fuel m' p.
Proof. intros H. induction fuel as [|f IH]; intros p; cbn [lancestor_lookup]; [reflexivity|]. destruct p as [a|]; [|reflexivity]. rewrite H. destruct (nmap_get m' a); [reflexivity|apply IH]. Qed.
Lemma lancestor_lookup_map t (h : lvalue -> lvalue) m m' : (forall n, nmap_get m' n = option_map h (nmap_get m n)) ->
  forall fuel p, lancestor_lookup t fuel m' p = option_map h (lancestor_lookup t fuel m p).
Proof.
  intros H. induction fuel as [|f IH]; intros p; cbn [lancestor_lookup]; [reflexivity|]. destruct p as [a|]; [|reflexivity]. rewrite H.
  destruct (nmap_get m a); cbn [option_map]; [reflexivity|apply IH].
Qed.
Lemma resolve_map t fl (h : lvalue -> lvalue) name m m' n : (forall k, nmap_get m' k = option_map h (nmap_get m k)) ->
  resolve t fl name m' n = option_map h (resolve t fl name m n).
Proof.
  intros H. unfold resolve. rewrite H. destruct (nmap_get m n); cbn [option_map]; [reflexivity|].
  destruct (linherited fl name); [|reflexivity]. apply lancestor_lookup_map, H.
Qed.
