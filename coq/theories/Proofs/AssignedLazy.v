(* Proofs/AssignedLazy.v — C09, positive whole-run form for the LAZY interpreter (second audit, finding (g)).

   The operations of the lazy interpreter that write ONE attribute (lazy_write tgt k v d):
     lattr_node_add n k v prev dbg     evaluation of a deferred `attr (node) k = ..`
     lattr_edge_add a b k v prev dbg   evaluation of a deferred `attr (a -> b) k = ..`
     ladd_node_attr n k v              debug attribute of a `node` statement (execution phase)
   (the attribute map a NEW edge receives from ledge_add — the debug attributes recorded by `edge` — is written as a whole
   and is not an "assignment" here).

   lwrites c s0 p0 tgt k v = the run of c from (s0, p0) executes such an operation from a state reached by that run
   (Proofs/MonoSubRun.v).  lwrites_kept: if the run returns Ok, the final graph has tgt.k = v.

   Introduction rules: lsub_eval_attr_node_stmt / lsub_eval_attr_edge_stmt (evaluation of a deferred attribute statement:
   the pair (k, lv) of its list whose lv evaluated to v), lsub_deferred_attr (the deferred attribute statement x of the run:
   execution phase done, edge statements done, the attribute statements before x done).  Deferred statements are flat, so
   this covers every attribute statement of the program at any nesting depth. *)
From TSG Require Import Model.Strict Model.Lazy Proofs.BaseFacts Proofs.Containers Proofs.StrictMeta Proofs.LazyMeta Proofs.MonadFacts
  Proofs.DebugAttrs Proofs.Extends Proofs.ExtendsLazy Proofs.AttrConflict Proofs.SubRun Proofs.MonoSubRun Proofs.AssignedStrict.

Definition linv (s : lstate) : Prop := graph_sorted (l_graph s).
Definition lR (s s' : lstate) : Prop := graph_ext (l_graph s) (l_graph s').
Lemma lR_refl s : lR s s. Proof. apply graph_ext_refl. Qed.
Lemma lR_trans a b c : lR a b -> lR b c -> lR a c. Proof. apply graph_ext_trans. Qed.
Lemma lext_ok_mono A (m : M lstate A) : lext_ok m <-> mono_ok linv lR m.
Proof. split; intros H; exact H. Qed.

Notation lsub := (msubrun linv lR).

Inductive lazy_write : target -> ident -> value -> M lstate unit -> Prop :=
| lw_node n k v prev dbg : lazy_write (TNode n) k v (lattr_node_add n k v prev dbg)
| lw_edge a b k v prev dbg : lazy_write (TEdge a b) k v (lattr_edge_add a b k v prev dbg)
| lw_dbg n k v : lazy_write (TNode n) k v (ladd_node_attr n k v).

Lemma lazy_write_ext tgt k v d : lazy_write tgt k v d -> lext_ok d.
Proof. intros []; [apply lext_lattr_node_add|apply lext_lattr_edge_add|apply lext_add_node_attr]. Qed.

Lemma lazy_write_sets tgt k v d s p u s' p' : lazy_write tgt k v d -> d s p = Ok (u, s', p') -> target_attr (l_graph s') tgt k = Some v.
Proof.
  intros [n k0 v0 prev dbg|a b k0 v0 prev dbg|n k0 v0] H.
  - unfold lattr_node_add in H. apply bind_ok in H as (s0 & s1 & p1 & E & H). apply get_ok in E as (-> & -> & ->).
    destruct (gnode_at (l_graph s) n) as [nd|] eqn:E; [|discriminate].
    destruct (attrs_add (g_attrs nd) k0 v0) as [m' c] eqn:Ea. destruct c; [discriminate|].
    unfold set_lgraph, Lazy.upd in H. apply modify_ok in H as (-> & _). cbn [l_graph]. eapply node_attr_written; eauto.
  - unfold lattr_edge_add in H. apply bind_ok in H as (s0 & s1 & p1 & E & H). apply get_ok in E as (-> & -> & ->).
    destruct (gnode_at (l_graph s) a) as [nd|] eqn:E; [|discriminate].
    destruct (edges_get b (g_edges nd)) as [m|] eqn:Eb; [|discriminate].
    destruct (attrs_add m k0 v0) as [m' c] eqn:Ea. destruct c; [discriminate|].
    unfold set_lgraph, Lazy.upd in H. apply modify_ok in H as (-> & _). cbn [l_graph]. eapply edge_attr_written; eauto.
  - unfold ladd_node_attr in H. apply bind_ok in H as (s0 & s1 & p1 & E & H). apply get_ok in E as (-> & -> & ->).
    destruct (gnode_at (l_graph s) n) as [nd|] eqn:E; [|discriminate].
    destruct (attrs_add (g_attrs nd) k0 v0) as [m' c] eqn:Ea. destruct c; [discriminate|].
    unfold set_lgraph, Lazy.upd in H. apply modify_ok in H as (-> & _). cbn [l_graph]. eapply node_attr_written; eauto.
Qed.

Definition lwrites {A} (c : M lstate A) (s0 : lstate) (p0 : polls) (tgt : target) (k : ident) (v : value) : Prop :=
  exists d s' p', lazy_write tgt k v d /\ lsub d s' p' c s0 p0.

Theorem lwrites_kept {A} (c : M lstate A) s0 p0 tgt k v a sf pf :
  graph_sorted (l_graph s0) -> c s0 p0 = Ok (a, sf, pf) -> lwrites c s0 p0 tgt k v -> target_attr (l_graph sf) tgt k = Some v.
Proof.
  intros Hwf E (d & s' & p' & Hw & H).
  destruct (msubrun_ok linv lR lR_refl lR_trans _ _ _ _ _ _ _ (lazy_write_ext _ _ _ _ Hw) H _ _ _ Hwf E) as (_ & _ & _ & b & s'' & p'' & Ed & Rf).
  eapply target_attr_ext; [exact Rf|]. eapply lazy_write_sets; eauto.
Qed.
Theorem lwrites_agree {A} (c : M lstate A) s0 p0 tgt k v1 v2 a sf pf :
  graph_sorted (l_graph s0) -> c s0 p0 = Ok (a, sf, pf) -> lwrites c s0 p0 tgt k v1 -> lwrites c s0 p0 tgt k v2 -> v1 = v2.
Proof.
  intros Hwf E H1 H2. pose proof (lwrites_kept _ _ _ _ _ _ _ _ _ Hwf E H1) as K1. pose proof (lwrites_kept _ _ _ _ _ _ _ _ _ Hwf E H2) as K2.
  congruence.
Qed.
Lemma lwrites_sub {A B} (d : M lstate B) s1 p1 (c : M lstate A) s0 p0 tgt k v :
  lsub d s1 p1 c s0 p0 -> lwrites d s1 p1 tgt k v -> lwrites c s0 p0 tgt k v.
Proof. intros Hd (w & s' & p' & Hw & H). exists w, s', p'. split; [exact Hw|]. eapply msubrun_trans; eauto. Qed.

Lemma prev_insert_lext k dbg : lext_ok (prev_insert k dbg).
Proof.
  apply lext_same_graph. intros s p a s' p' H. destruct (prev_insert_eq k dbg s p) as (o & s1 & E & Hg). rewrite E in H.
  inversion H; subst. exact Hg.
Qed.
Lemma ledge_exists_lext a b : lext_ok (ledge_exists a b).
Proof.
  apply lext_same_graph. intros s p x s' p' H. unfold ledge_exists in H. apply bind_ok in H as (s0 & s1 & p1 & E & H).
  apply get_ok in E as (-> & -> & ->). destruct (gnode_at (l_graph s) a); [|discriminate]. apply ret_ok in H as (_ & -> & _). reflexivity.
Qed.
Lemma ledge_exists_edge a b s p m : target_attrs (l_graph s) (TEdge a b) = Some m -> ledge_exists a b s p = Ok (true, s, p).
Proof.
  unfold target_attrs, ledge_exists, bind, get_state, ret. intros H.
  destruct (gnode_at (l_graph s) a) as [nd|]; [|discriminate]. destruct (edges_get b (g_edges nd)); [reflexivity|discriminate].
Qed.

Section AssignedLazy.
  Context {rx : Type}.
  Variable t : tree.
  Variable fl : file.
  Variable cfg : config.
  Variable glob : globals.
  Variable regexes : list rx.
  Variable find : rx -> str -> option (list (option (N * N))).
  Variable call : ident -> graph -> list value -> res (value * graph).
  Hypothesis Hcall : call_extends_sorted call.
  Notation eval_lstmt' := (eval_lstmt t fl call).
  Notation eval_lv' := (eval_lv t fl call).
  Notation eval_as_gnode' := (eval_as_gnode t fl call).

  Lemma lext_lift A (r : res A) : lext_ok (lift r).
  Proof. apply lext_same_graph. intros s p a s' p' H. apply lift_ok in H as (_ & -> & _). reflexivity. Qed.

  Ltac same := apply lext_same_graph; intros ? ? ? ? ? H; unfold Lazy.upd in H; apply modify_ok in H as (-> & _); reflexivity.
  Ltac lext_side :=
    first
    [ exact lext_ret
    | exact lext_bind
    | (intros ? ? _; apply lext_noresult; intros ? ? ? ? ?; discriminate)
    | (intros ? ? ? ? _; apply lext_noresult; intros ? ? ? ? ?; discriminate)
    | (intros ? ?; apply lext_noresult; intros ? ? ? ? ?; discriminate)
    | (intros ?; apply lext_noresult; intros ? ? ? ? ?; discriminate)
    | exact I
    | (intros ?; exact I)
    | (intros ? ? ? _; apply lext_ctx)
    | (apply lext_same_graph; intros ? ? ? ? ? H; apply get_ok in H as (_ & -> & _); reflexivity)
    | (intros ?; first [unfold set_llocals|unfold set_lstore|unfold set_lscoped|unfold set_lparams|unfold set_lprev]; same)
    | (let x := fresh "x" in intros x; unfold push_lstmt; apply lext_same_graph; intros ? ? ? ? ? H; unfold Lazy.upd in H;
       apply modify_ok in H as (-> & _); destruct x; reflexivity)
    | exact lext_poll | exact lext_add_node | exact lext_add_node_attr | exact (lext_call call Hcall)
    | exact lext_lattr_node_add | exact lext_ledge_add | exact lext_lattr_edge_add ].

  Lemma eval_lv_lext fuel lv : lext_ok (eval_lv' fuel lv).
  Proof. apply (Phi_eval_lv t fl call (@lext_ok)) with (good_ctx := fun _ => True); lext_side. Qed.
  Lemma force_thunk_lext fuel loc : lext_ok (force_thunk t fl call fuel loc).
  Proof. apply (Phi_force_thunk t fl call (@lext_ok)) with (good_ctx := fun _ => True); lext_side. Qed.
  Lemma force_scoped_lext fuel name cell : lext_ok (force_scoped t fl call fuel name cell).
  Proof. apply (Phi_force_scoped t fl call (@lext_ok)) with (good_ctx := fun _ => True); lext_side. Qed.
  Lemma eval_as_gnode_lext fuel lv : lext_ok (eval_as_gnode' fuel lv).
  Proof. apply (Phi_eval_as_gnode t fl call (@lext_ok)) with (good_ctx := fun _ => True); lext_side. Qed.
  Lemma eval_lstmt_lext fuel st : lext_ok (eval_lstmt' fuel st).
  Proof. apply (Phi_eval_lstmt t fl call (@lext_ok)) with (good_ctx := fun _ => True); lext_side. Qed.
  Lemma lexec_stanza_lext fuel st m : lext_ok (lexec_stanza t fl cfg glob regexes find call fuel st m).
  Proof. apply (Phi_lexec_stanza t fl cfg glob regexes find call (@lext_ok)) with (good_ctx := fun _ => True); lext_side. Qed.
  Lemma cell_get_lext name : lext_ok (cell_get name).
  Proof. apply (Phi_cell_get (@lext_ok)); lext_side. Qed.
  Lemma cell_set_lext name v : lext_ok (cell_set name v).
  Proof. apply (Phi_cell_set (@lext_ok)); lext_side. Qed.
  Lemma lget_lext : lext_ok (@get_state lstate).
  Proof. apply lext_same_graph; intros ? ? ? ? ? H; apply get_ok in H as (_ & -> & _); reflexivity. Qed.

  (* what evaluate_phase runs after the attribute statements *)
  Lemma eval_tail_lext fuel (s : lstate) :
    lext_ok (iterM (eval_lstmt' fuel) (l_prints s) ;;; store_evaluate_all t fl call fuel ;;; scoped_evaluate_all t fl call fuel).
  Proof.
    apply lext_bind; [apply (mono_iterM linv lR lR_refl lR_trans); intros; apply eval_lstmt_lext|intros _].
    apply lext_bind.
    - unfold store_evaluate_all. apply lext_bind; [apply lget_lext|intros s']. apply (mono_iterM linv lR lR_refl lR_trans). intros i.
      apply lext_bind; [apply force_thunk_lext|intros _; apply lext_ret].
    - intros _. unfold scoped_evaluate_all. apply lext_bind; [apply lget_lext|intros s']. apply (mono_iterM linv lR lR_refl lR_trans). intros name.
      apply lext_bind; [apply cell_get_lext|intros c]. destruct c as [cell|]; [|apply lext_ret].
      apply lext_bind; [apply cell_set_lext|intros _]. apply lext_bind; [apply force_scoped_lext|intros map]. apply cell_set_lext.
  Qed.

  Lemma node_attr_step_lext fuel n dbg a : lext_ok (node_attr_step t fl call fuel n dbg a).
  Proof.
    unfold node_attr_step. apply lext_bind; [apply eval_lv_lext|intros v]. apply lext_bind; [apply prev_insert_lext|intros prev].
    apply lext_lattr_node_add.
  Qed.
  Lemma edge_attr_step_lext fuel a b dbg ak : lext_ok (edge_attr_step t fl call fuel a b dbg ak).
  Proof.
    unfold edge_attr_step. apply lext_bind; [apply eval_lv_lext|intros v]. apply lext_bind; [apply ledge_exists_lext|intros ex].
    destruct ex; [|apply lext_noresult; intros ? ? ? ? ?; discriminate].
    apply lext_bind; [apply prev_insert_lext|intros prev]. apply lext_lattr_edge_add.
  Qed.

  (* evaluation of the deferred `attr (node) pre.., k = lv, post..`: the pair (k, lv) whose lv evaluated to v *)
  Lemma lsub_eval_attr_node_stmt fuel node pre k lv post dbg s p n s1 p1 s2 p2 v s3 p3 :
    snd (poll_step L_eval_stmt p) = false ->
    eval_as_gnode' fuel node s (fst (poll_step L_eval_stmt p)) = Ok (n, s1, p1) ->
    iterM (node_attr_step t fl call fuel n dbg) pre s1 p1 = Ok (tt, s2, p2) ->
    eval_lv' fuel lv s2 p2 = Ok (v, s3, p3) ->
    exists prev s4, lsub (lattr_node_add n k v prev dbg) s4 p3 (eval_lstmt' fuel (LSAttrNode node (pre ++ (k, lv) :: post) dbg)) s p.
  Proof.
    intros Hp En Hpre Ev. destruct (prev_insert_eq (KNode n k) dbg s3 p3) as (o & s4 & Epi & _). exists o, s4.
    unfold eval_lstmt.
    eapply ms_bind_r; [exact (lext_poll _)|apply poll_false, Hp|]. cbv beta.
    apply ms_ctx.
    eapply ms_bind_r; [apply lext_ctx, eval_as_gnode_lext| |].
    { unfold ctx_wrap. rewrite En. reflexivity. }
    cbv beta. fold (node_attr_step t fl call fuel n dbg).
    eapply (msubrun_iterM linv lR lR_refl lR_trans); [intros y; apply node_attr_step_lext|exact Hpre|].
    unfold node_attr_step. cbn [fst snd].
    eapply ms_bind_r; [apply eval_lv_lext|exact Ev|]. cbv beta.
    eapply ms_bind_r; [apply prev_insert_lext|exact Epi|]. cbv beta. apply ms_here.
  Qed.

  (* evaluation of the deferred `attr (src -> snk) pre.., k = lv, post..` (the edge exists when (k, lv) is reached) *)
  Lemma lsub_eval_attr_edge_stmt fuel src snk pre k lv post dbg s p a b sa pa s1 p1 s2 p2 v s3 p3 m :
    snd (poll_step L_eval_stmt p) = false ->
    eval_as_gnode' fuel src s (fst (poll_step L_eval_stmt p)) = Ok (a, sa, pa) ->
    eval_as_gnode' fuel snk sa pa = Ok (b, s1, p1) ->
    iterM (edge_attr_step t fl call fuel a b dbg) pre s1 p1 = Ok (tt, s2, p2) ->
    eval_lv' fuel lv s2 p2 = Ok (v, s3, p3) ->
    target_attrs (l_graph s3) (TEdge a b) = Some m ->
    exists prev s4, lsub (lattr_edge_add a b k v prev dbg) s4 p3 (eval_lstmt' fuel (LSAttrEdge src snk (pre ++ (k, lv) :: post) dbg)) s p.
  Proof.
    intros Hp Ea Eb Hpre Ev Hm. destruct (prev_insert_eq (KEdge a b k) dbg s3 p3) as (o & s4 & Epi & _). exists o, s4.
    unfold eval_lstmt.
    eapply ms_bind_r; [exact (lext_poll _)|apply poll_false, Hp|]. cbv beta.
    apply ms_ctx.
    eapply ms_bind_r; [apply lext_ctx, eval_as_gnode_lext| |].
    { unfold ctx_wrap. rewrite Ea. reflexivity. }
    cbv beta.
    eapply ms_bind_r; [apply lext_ctx, eval_as_gnode_lext| |].
    { unfold ctx_wrap. rewrite Eb. reflexivity. }
    cbv beta. fold (edge_attr_step t fl call fuel a b dbg).
    eapply (msubrun_iterM linv lR lR_refl lR_trans); [intros y; apply edge_attr_step_lext|exact Hpre|].
    unfold edge_attr_step. cbn [fst snd].
    eapply ms_bind_r; [apply eval_lv_lext|exact Ev|]. cbv beta.
    eapply ms_bind_r; [apply ledge_exists_lext|exact (ledge_exists_edge a b s3 p3 m Hm)|]. cbv beta iota.
    eapply ms_bind_r; [apply prev_insert_lext|exact Epi|]. cbv beta. apply ms_here.
  Qed.

  (* the deferred attribute statement x of the run *)
  Lemma lsub_deferred_attr fuel matches s0 p0 s p s1 p1 apre x apost s2 p2 :
    iterM (fun pm : N * qmatch =>
             match nth_error (f_stanzas fl) (N.to_nat (fst pm)) with
             | Some st => lexec_stanza t fl cfg glob regexes find call fuel st (snd pm)
             | None => panic P_stanza_index
             end) matches s0 p0 = Ok (tt, s, p) ->
    iterM (eval_lstmt' (fuel + default_eval_fuel)) (l_edges s) s p = Ok (tt, s1, p1) ->
    l_attrs s = apre ++ x :: apost ->
    iterM (eval_lstmt' (fuel + default_eval_fuel)) apre s1 p1 = Ok (tt, s2, p2) ->
    lsub (eval_lstmt' (fuel + default_eval_fuel) x) s2 p2 (lexec_file t fl cfg glob regexes find call fuel matches) s0 p0.
  Proof.
    intros Hx He Ha Hpre. unfold lexec_file.
    eapply ms_bind_r; [|exact Hx|].
    { apply (mono_iterM linv lR lR_refl lR_trans). intros pm. destruct (nth_error (f_stanzas fl) (N.to_nat (fst pm)));
        [apply lexec_stanza_lext|apply lext_noresult; intros ? ? ? ? ?; discriminate]. }
    cbv beta. unfold evaluate_phase.
    eapply ms_bind_r; [apply lget_lext|reflexivity|]. cbv beta.
    eapply ms_bind_r; [apply (mono_iterM linv lR lR_refl lR_trans); intros; apply eval_lstmt_lext|exact He|]. cbv beta.
    apply ms_bind_l; [|intros _; apply eval_tail_lext].
    rewrite Ha. eapply (msubrun_iterM linv lR lR_refl lR_trans); [intros y; apply eval_lstmt_lext|exact Hpre|]. apply ms_here.
  Qed.
End AssignedLazy.

(* ---- whole lazy run ---- *)
Definition assigned_lazy {rx} t fl cfg supplied budget (regexes : list rx) find call fuel matches g0 (tgt : target) (k : ident) (v : value) : Prop :=
  exists glob, check_globals (f_globals fl) (globals_nested supplied) = Ok glob /\
    lwrites (lexec_file t fl cfg glob regexes find call fuel matches) (linit g0) (polls0 budget) tgt k v.

Theorem lazy_ok_run_keeps_lemma {rx} t fl cfg supplied budget (regexes : list rx) find call fuel matches g0 s p tgt k v :
  graph_sorted g0 ->
  run_lazy t fl cfg supplied budget regexes find call fuel matches g0 = Ok (s, p) ->
  assigned_lazy t fl cfg supplied budget regexes find call fuel matches g0 tgt k v ->
  target_attr (l_graph s) tgt k = Some v.
Proof.
  intros Hwf Hrun (glob & Hg & Hw). unfold run_lazy in Hrun. rewrite Hg in Hrun.
  destruct (lexec_file _ _ _ _ _ _ _ _ _ (linit g0) (polls0 budget)) as [[[u s1] p1]| | |] eqn:E; try discriminate.
  inversion Hrun; subst. exact (lwrites_kept _ (linit g0) _ _ _ _ _ _ _ Hwf E Hw).
Qed.

(* every deferred `attr (node) ..` statement of the run: its pair (k, lv), evaluated to v, is an assignment of the run *)
Lemma lazy_deferred_attr_node_assigned {rx} t fl cfg supplied budget (regexes : list rx) find call fuel matches g0 glob
    s p s1 p1 apre apost s2 p2 node pre k lv post dbg n s3 p3 s4 p4 v s5 p5 :
  call_extends_sorted call ->
  check_globals (f_globals fl) (globals_nested supplied) = Ok glob ->
  iterM (fun pm : N * qmatch =>
           match nth_error (f_stanzas fl) (N.to_nat (fst pm)) with
           | Some st => lexec_stanza t fl cfg glob regexes find call fuel st (snd pm)
           | None => panic P_stanza_index
           end) matches (linit g0) (polls0 budget) = Ok (tt, s, p) ->
  iterM (eval_lstmt t fl call (fuel + default_eval_fuel)) (l_edges s) s p = Ok (tt, s1, p1) ->
  l_attrs s = apre ++ LSAttrNode node (pre ++ (k, lv) :: post) dbg :: apost ->
  iterM (eval_lstmt t fl call (fuel + default_eval_fuel)) apre s1 p1 = Ok (tt, s2, p2) ->
  snd (poll_step L_eval_stmt p2) = false ->
  eval_as_gnode t fl call (fuel + default_eval_fuel) node s2 (fst (poll_step L_eval_stmt p2)) = Ok (n, s3, p3) ->
  iterM (node_attr_step t fl call (fuel + default_eval_fuel) n dbg) pre s3 p3 = Ok (tt, s4, p4) ->
  eval_lv t fl call (fuel + default_eval_fuel) lv s4 p4 = Ok (v, s5, p5) ->
  assigned_lazy t fl cfg supplied budget regexes find call fuel matches g0 (TNode n) k v.
Proof.
  intros Hc Hg Hx He Ha Hpre Hp En Hit Ev. exists glob. split; [exact Hg|].
  eapply lwrites_sub; [eapply (lsub_deferred_attr t fl cfg glob regexes find call Hc); eauto|].
  destruct (lsub_eval_attr_node_stmt t fl call Hc _ node pre k lv post dbg _ _ _ _ _ _ _ _ _ _ Hp En Hit Ev) as (prev & s6 & H).
  exists (lattr_node_add n k v prev dbg), s6, p5. split; [constructor|exact H].
Qed.

Lemma lazy_deferred_attr_edge_assigned {rx} t fl cfg supplied budget (regexes : list rx) find call fuel matches g0 glob
    s p s1 p1 apre apost s2 p2 src snk pre k lv post dbg a b sa pa s3 p3 s4 p4 v s5 p5 m :
  call_extends_sorted call ->
  check_globals (f_globals fl) (globals_nested supplied) = Ok glob ->
  iterM (fun pm : N * qmatch =>
           match nth_error (f_stanzas fl) (N.to_nat (fst pm)) with
           | Some st => lexec_stanza t fl cfg glob regexes find call fuel st (snd pm)
           | None => panic P_stanza_index
           end) matches (linit g0) (polls0 budget) = Ok (tt, s, p) ->
  iterM (eval_lstmt t fl call (fuel + default_eval_fuel)) (l_edges s) s p = Ok (tt, s1, p1) ->
  l_attrs s = apre ++ LSAttrEdge src snk (pre ++ (k, lv) :: post) dbg :: apost ->
  iterM (eval_lstmt t fl call (fuel + default_eval_fuel)) apre s1 p1 = Ok (tt, s2, p2) ->
  snd (poll_step L_eval_stmt p2) = false ->
  eval_as_gnode t fl call (fuel + default_eval_fuel) src s2 (fst (poll_step L_eval_stmt p2)) = Ok (a, sa, pa) ->
  eval_as_gnode t fl call (fuel + default_eval_fuel) snk sa pa = Ok (b, s3, p3) ->
  iterM (edge_attr_step t fl call (fuel + default_eval_fuel) a b dbg) pre s3 p3 = Ok (tt, s4, p4) ->
  eval_lv t fl call (fuel + default_eval_fuel) lv s4 p4 = Ok (v, s5, p5) ->
  target_attrs (l_graph s5) (TEdge a b) = Some m ->
  assigned_lazy t fl cfg supplied budget regexes find call fuel matches g0 (TEdge a b) k v.
Proof.
  intros Hc Hg Hx He Ha Hpre Hp Ea Eb Hit Ev Hm. exists glob. split; [exact Hg|].
  eapply lwrites_sub; [eapply (lsub_deferred_attr t fl cfg glob regexes find call Hc); eauto|].
  destruct (lsub_eval_attr_edge_stmt t fl call Hc (fuel + default_eval_fuel) src snk pre k lv post dbg s2 p2 a b sa pa s3 p3 s4 p4 v s5 p5 m Hp Ea Eb Hit Ev Hm) as (prev & s6 & H).
  exists (lattr_edge_add a b k v prev dbg), s6, p5. split; [constructor|exact H].
Qed.
