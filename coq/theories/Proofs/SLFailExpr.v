(* Proofs/SLFailExpr.v — C02, failure direction, part 4: expressions and attributes.
   The strict evaluation of an expression of the fragment FAILS (Err e, e not an UndefinedEdge / Cancelled error) from
   states related as in Proofs/SLExpr.v.  Then the lazy "evaluation" of the same expression either does not return
   Ok — the failing computation was in an eager position (an undefined variable, a regex capture, the list of a
   comprehension) — or returns a lazy value that is BAD: its evaluation cannot succeed (a call that fails on every
   graph, with arguments that denote the strict values; a list with a bad element ...).  After the failing
   sub-expression the lazy interpreter keeps going (the remaining elements, the rest of the comprehension): that part
   is covered by the frames of Proofs/SLFailStore.v / SLFailGraph.v only.
   Attributes: the list of lazy attributes returned for a failing `attr` either contains a bad value or a value
   whose insertion conflicts with the strict graph, after a prefix that denotes the insertions the strict run made;
   or — attribute shorthands — the bad value has been stored in a thunk that nothing may ever read: a doomed thunk. *)
From TSG Require Import Model.Lazy Proofs.BaseFacts Proofs.Containers Proofs.MonadFacts Proofs.StrictMeta
  Proofs.SLGraph Proofs.SLForce Proofs.SLExpr Proofs.SLConv Proofs.SLStmt Proofs.StrictLazy Proofs.Extends
  Proofs.SLFailGraph Proofs.SLFailStore Proofs.SLFailEval.

(* a failing call fails in the same way on every graph *)
Definition pure_err_fn (call : ident -> graph -> list value -> res (value * graph)) (f : ident) : Prop :=
  forall g args e, call f g args = Err e -> forall g2, call f g2 args = Err e.

Lemma lift_err {S A} (r : res A) (s : S) p e : lift r s p = Err e -> r = Err e.
Proof. unfold lift. destruct r; try discriminate. intros H; inversion H; reflexivity. Qed.
Lemma ret_noerr {S A} (a : A) (s : S) p e : ret a s p <> Err e. Proof. discriminate. Qed.
Lemma from_nodes_noerr ns q e : from_nodes ns q <> Err e. Proof. destruct q, ns; discriminate. Qed.
Lemma pop_frame_noerr s p e : pop_frame s p <> Err e.
Proof. unfold pop_frame, bind, get_state. destruct (s_locals s); discriminate. Qed.
Lemma drain_noerr n s p e : drain_params n s p <> Err e.
Proof. unfold drain_params, bind, get_state. destruct (Nat.ltb (length (s_params s)) n); discriminate. Qed.
Lemma poll_okerr {S} l (s : S) p e : poll l s p = Err e -> okerr e -> False.
Proof. intros H Ho. apply poll_err in H as [-> _]. exact Ho. Qed.

Section FailExpr.
  Context {rx : Type}.
  Variables (t : tree) (fl : file) (glob : globals) (regexes : list rx)
            (find : rx -> str -> option (list (option (N * N))))
            (call : ident -> graph -> list value -> res (value * graph)).
  Variable okfn : ident -> Prop.
  Hypothesis Hpure : forall f, okfn f -> pure_fn call f.
  Hypothesis Hperr : forall f, okfn f -> pure_err_fn call f.
  Hypothesis Hcall : call_graph_ext call.
  Variable m : qmatch.

  Notation den := (den call).
  Notation Renv := (Renv call).
  Notation esim := (esim call).
  Notation epost := (epost call).
  Notation Qden := (Qden call).
  Notation sbk := (sbk call).
  Notation Jst := (Jst call t fl).
  Notation bad_lv := (bad_lv call t fl).
  Notation jok := (jok call t fl).
  Notation fexpr' := (fexpr okfn m).
  Notation env_rel' := (env_rel m).
  Notation eval' := (eval t fl glob call).
  Notation leval' := (leval t fl glob call).
  Notation eval_lv' := (eval_lv t fl call).

  (* ---------------- frames below statement level: the lists of deferred statements are not touched ---------------- *)
  Definition EFr : lstate -> lstate -> Prop := FrP (@eq (list lstmt)).
  Let Prefl : forall l : list lstmt, l = l := fun l => eq_refl.
  Let Ptrans : forall a b c : list lstmt, a = b -> b = c -> a = c := fun a b c => @eq_trans _ a b c.
  Lemma EFr_refl s : EFr s s. Proof. apply FrP_refl, Prefl. Qed.
  Lemma EFr_trans a b c : EFr a b -> EFr b c -> EFr a c. Proof. apply FrP_trans, Ptrans. Qed.
  Lemma lframe_EFr ls ls' : lframe ls ls' -> EFr ls ls'.
  Proof. intros (F1 & F2 & F3 & F4 & F5). unfold EFr, FrP. rewrite F1, F2, F3, F4. split; [apply graph_ext_refl|auto]. Qed.

  (* what is known of a lazy computation that runs after the failure point *)
  Definition pfr {B} (ml : M lstate B) : Prop := (forall rhoK dt, jok rhoK dt ml) /\ fr_ok eq ml.
  Lemma pfr_nres {B} (ml : M lstate B) rhoK dt ls0 ls pl : pfr ml -> nob pl -> Jst rhoK dt (l_store ls) -> EFr ls0 ls ->
    nres (ml ls pl) (fun _ ls' pl' => nob pl' /\ Jst rhoK dt (l_store ls') /\ EFr ls0 ls').
  Proof.
    intros [Hj Hf] Hb HJ HF. destruct (ml ls pl) as [[[b ls'] pl']|e|x|] eqn:E; cbn [nres]; auto.
    destruct (Hj rhoK dt _ _ _ _ _ Hb HJ E) as [Hb' HJ']. split; [exact Hb'|]. split; [exact HJ'|]. eapply EFr_trans; [exact HF|]. eapply Hf; eauto.
  Qed.
  Lemma pfr_ret {B} (b : B) : pfr (ret b). Proof. split; [intros; apply jk_ret|apply fr_ret, Prefl]. Qed.
  Lemma pfr_bind {A B} (ml : M lstate A) (kl : A -> M lstate B) : pfr ml -> (forall a, pfr (kl a)) -> pfr (bind ml kl).
  Proof. intros [H1 H2] H. split; [intros; apply jk_bind; [apply H1|intros a; apply (H a)]|eapply fr_bind; [exact Ptrans|exact H2|intros a; apply (H a)]]. Qed.
  Lemma pfr_mapM {X B} (f : X -> M lstate B) l : (forall x, pfr (f x)) -> pfr (mapM f l).
  Proof. intros H. split; [intros; apply jk_mapM; intros x; apply (H x)|apply fr_mapM; [exact Prefl|exact Ptrans|intros x; apply (H x)]]. Qed.
  Lemma pfr_leval fuel le e : pfr (leval' fuel le e).
  Proof. split; [intros; apply jk_leval|apply fr_leval; [exact Hcall|exact Prefl|exact Ptrans]]. Qed.
  Lemma pfr_lexec_attr fuel le a : pfr (lexec_attr t fl glob call fuel le a).
  Proof. split; [intros; apply jk_lexec_attr|apply fr_lexec_attr; [exact Hcall|exact Prefl|exact Ptrans]]. Qed.
  Lemma pfr_lunscoped_add le name v mu : pfr (lunscoped_add glob le name v mu).
  Proof. split; [intros; apply jk_lunscoped_add|apply fr_lunscoped_add; [exact Prefl|exact Ptrans]]. Qed.
  Lemma pfr_set_llocals x : pfr (set_llocals x). Proof. split; [intros; apply jk_set_llocals|apply fr_set_llocals, Prefl]. Qed.
  Lemma pfr_lclear_frame : pfr lclear_frame.
  Proof. split; [intros; apply jk_lclear_frame|]. unfold lclear_frame. eapply fr_bind; [exact Ptrans|apply fr_get, Prefl|intros s; apply fr_set_llocals, Prefl]. Qed.
  Lemma pfr_lpush_frame : pfr lpush_frame.
  Proof. split; [intros; apply jk_lpush_frame|]. unfold lpush_frame. eapply fr_bind; [exact Ptrans|apply fr_get, Prefl|intros s; apply fr_set_llocals, Prefl]. Qed.
  Lemma pfr_lpop_frame : pfr lpop_frame.
  Proof.
    split; [intros; apply jk_lpop_frame|]. unfold lpop_frame. eapply fr_bind; [exact Ptrans|apply fr_get, Prefl|intros s]. destruct (l_locals s); [apply fr_panic|apply fr_set_llocals, Prefl].
  Qed.

  Lemma pfr_eval_lv F lv : pfr (eval_lv' F lv).
  Proof. split; [intros; apply jk_eval_lv|apply fr_eval_lv; [exact Hcall|exact Prefl|exact Ptrans]]. Qed.
  Lemma pfr_leager fuel le e : pfr (leager t fl glob call fuel le e).
  Proof. unfold leager. apply pfr_bind; [apply pfr_leval|intros lv; apply pfr_eval_lv]. Qed.
  Lemma pfr_ltest_cond fuel le c : pfr (ltest_cond t fl glob call fuel le c).
  Proof. split; [intros; apply jk_ltest_cond|apply fr_ltest_cond; [exact Hcall|exact Prefl|exact Ptrans]]. Qed.
  Lemma pfr_lunscoped_set le name v : pfr (lunscoped_set glob le name v).
  Proof. split; [intros; apply jk_lunscoped_set|apply fr_lunscoped_set; [exact Prefl|exact Ptrans]]. Qed.
  Lemma pfr_lpoll l : pfr (lpoll l). Proof. split; [intros; apply jk_lpoll|apply fr_lpoll, Prefl]. Qed.
  Lemma pfr_lpoll_n n l : pfr (lpoll_n n l). Proof. split; [intros; apply jk_lpoll_n|apply fr_lpoll_n; [exact Prefl|exact Ptrans]]. Qed.
  Lemma pfr_noresult {B} (ml : M lstate B) : (forall s p a s' p', ml s p <> Ok (a, s', p')) -> pfr ml.
  Proof. intros H. split; [intros; apply jk_noresult, H|]. intros s p a s' p' E. exfalso. eapply H; eauto. Qed.
  Lemma pfr_lift {B} (r : res B) : pfr (lift r).
  Proof.
    split; [|apply fr_lift, Prefl]. intros rhoK dt s p a s' p' Hb HJ H. apply lift_ok in H as (_ & -> & ->). auto.
  Qed.
  Lemma pfr_ctx {B} c (ml : M lstate B) : pfr ml -> pfr (ctx_wrap c ml).
  Proof.
    intros [H1 H2]. split; [|apply fr_ctx; [exact I|exact H2]]. intros rhoK dt s p a s' p' Hb HJ H. apply ctx_wrap_ok in H. eapply H1; eauto.
  Qed.
  Lemma pfr_iterM {X} (f : X -> M lstate unit) l : (forall x, pfr (f x)) -> pfr (iterM f l).
  Proof. intros H. split; [intros; apply jk_iterM; intros x; apply (H x)|apply fr_iterM; [exact Prefl|exact Ptrans|intros x; apply (H x)]]. Qed.

  (* ---------------- the failure relation for expression-level computations ---------------- *)
  Definition fpostE {B} (Bd : list value -> B -> Prop) (rho : list value) (ls : lstate) : B -> lstate -> polls -> Prop :=
    fun b ls' pl' => nob pl' /\ EFr ls ls' /\ exists rhoK, prefix rho rhoK /\ sbk rhoK (l_store ls') /\ Bd rhoK b.
  Definition efail {A B} (Bd : list value -> B -> Prop) (ms : M sstate A) (ml : M lstate B) : Prop :=
    forall ss p e, ms ss p = Err e -> okerr e -> forall rho ls pl, Renv rho ss ls -> nob pl -> nres (ml ls pl) (fpostE Bd rho ls).
  (* the lazy side fails right away (eager positions) *)
  Definition enok {A B} (ms : M sstate A) (ml : M lstate B) : Prop :=
    forall ss p e, ms ss p = Err e -> okerr e -> forall rho ls pl, Renv rho ss ls -> nob pl -> nok (ml ls pl).
  Lemma efail_of_enok {A B} Bd (ms : M sstate A) (ml : M lstate B) : enok ms ml -> efail Bd ms ml.
  Proof. intros H ss p e Hs Ho rho ls pl HR Hb. apply nok_nres. eapply H; eauto. Qed.

  Lemma fpostE_shift {B} (Bd : list value -> B -> Prop) rho rho1 ls ls1 b ls2 pl2 :
    lframe ls ls1 -> prefix rho rho1 -> fpostE Bd rho1 ls1 b ls2 pl2 -> fpostE Bd rho ls b ls2 pl2.
  Proof.
    intros Hf Hp (Hb & HF & rhoK & Hp2 & Hs & HB). split; [exact Hb|]. split; [eapply EFr_trans; [apply lframe_EFr, Hf|exact HF]|].
    exists rhoK. split; [eapply prefix_trans; eauto|]. auto.
  Qed.
  Lemma Renv_sbk rho ss ls : Renv rho ss ls -> sbk rho (l_store ls).
  Proof. intros [H _]. apply sbk_of_wf, H. Qed.

  (* the continuation of a failed computation: only the frames are known *)
  Lemma fpostE_tail {B C} (Bd : list value -> B -> Prop) (Bd2 : list value -> C -> Prop) rho ls b ls1 pl1 (kl : M lstate C) :
    fpostE Bd rho ls b ls1 pl1 -> pfr kl -> (forall rhoK c, Bd rhoK b -> Bd2 rhoK c) -> nres (kl ls1 pl1) (fpostE Bd2 rho ls).
  Proof.
    intros (Hb & HF & rhoK & Hp & Hs & HB) Hk Himp.
    eapply nres_mono; [apply (pfr_nres kl rhoK None ls ls1 pl1 Hk Hb (Jst_none _ _ _ _ _ Hs) HF)|].
    intros c ls2 pl2 (Hb2 & [Hs2 _] & HF2). split; [exact Hb2|]. split; [exact HF2|]. exists rhoK. auto.
  Qed.

  Lemma locals_get_none rho l l' k : locals_rel call rho l l' -> varmap_get l k = None -> varmap_get l' k = None.
  Proof.
    intros H. induction H as [|f f' l l' Hf _ IH]; cbn [varmap_get]; [reflexivity|].
    pose proof (frame_get call rho f f' k Hf) as G. destruct (alist_get k f) as [[v1 m1]|], (alist_get k f') as [[lv2 m2]|]; try contradiction; try discriminate.
    exact IH.
  Qed.

  Lemma unscoped_get_fail name : enok (unscoped_get glob name) (lunscoped_get glob name).
  Proof.
    intros ss p e H Ho rho ls pl HR Hb. unfold unscoped_get, lunscoped_get in *. destruct (globals_get glob name) as [gv|]; [discriminate|].
    unfold bind, get_state in H. destruct (varmap_get (s_locals ss) name) as [v0|] eqn:E; [discriminate|].
    apply nres_get. rewrite (locals_get_none rho _ _ name (proj2 HR) E). exact I.
  Qed.

  (* traversals: the element on which the strict traversal failed, after elements that were simulated *)
  Lemma trav_fail {X A B} (F : X -> M sstate A) (F' : X -> M lstate B) (Q : list value -> B -> A -> Prop) (Bd : list value -> B -> Prop) (P : X -> Prop) :
    Qmono Q -> (forall x, P x -> esim Q (F x) (F' x)) -> (forall x, P x -> efail Bd (F x) (F' x)) -> (forall x, pfr (F' x)) ->
    forall l, All P l ->
      efail (fun r bs => exists pre b post as_, bs = pre ++ b :: post /\ Forall2 (Q r) pre as_ /\ Bd r b) (mapM F l) (mapM F' l).
  Proof.
    intros HQ HS HFl HP. induction l as [|x l IH]; intros HPl ss p e H Ho rho ls pl HR Hb; cbn [mapM] in *; [discriminate|].
    destruct HPl as [Px HPl]. apply bind_err in H. destruct H as [H|(a & s1 & p1 & H1 & H)].
    - (* the head fails *)
      apply nres_bind. eapply nres_mono; [apply (HFl x Px _ _ _ H Ho rho ls pl HR Hb)|]. intros b ls1 pl1 HP1.
      apply nres_bind. eapply nres_mono; [apply (fpostE_tail Bd (fun r _ => Bd r b) rho ls b ls1 pl1 (mapM F' l) HP1 (pfr_mapM _ _ HP))|]; [auto|].
      intros bs ls2 pl2 (Hb2 & HF2 & rhoK & Hp & Hs & HB). apply nres_ret. split; [exact Hb2|]. split; [exact HF2|]. exists rhoK. split; [exact Hp|]. split; [exact Hs|].
      exists [], b, bs, []. split; [reflexivity|]. split; [constructor|exact HB].
    - (* the head succeeds, the tail fails *)
      apply bind_err in H. destruct H as [H|(as1 & s2 & p2 & H2 & H)]; [|exfalso; eapply ret_noerr; eauto].
      apply nres_bind. apply nres_of_lres. eapply lres_mono; [apply (HS x Px _ _ _ _ _ H1 rho ls pl HR Hb)|].
      intros b ls1 pl1 (Hb1 & S1 & Hf1 & rho1 & Hp1 & HR1 & Q1).
      apply nres_bind. eapply nres_mono; [apply (IH HPl _ _ _ H Ho rho1 ls1 pl1 HR1 Hb1)|]. intros bs ls2 pl2 HP2. apply nres_ret.
      eapply fpostE_shift; [exact Hf1|exact Hp1|]. destruct HP2 as (Hb2 & HF2 & rhoK & Hp & Hs & pre & b0 & post & as_ & -> & HF & HB).
      split; [exact Hb2|]. split; [exact HF2|]. exists rhoK. split; [exact Hp|]. split; [exact Hs|].
      exists (b :: pre), b0, post, (a :: as_). split; [reflexivity|]. split; [constructor; [apply (HQ rho1 rhoK _ _ Hp Q1)|exact HF]|exact HB].
  Qed.

  (* arguments of a call *)
  Lemma args_fail (ev : expr -> M sstate value) (lev : expr -> M lstate lvalue) :
    forall args, (forall e, In e args -> esim Qden (ev e) (lev e)) -> (forall e, In e args -> efail bad_lv (ev e) (lev e)) -> (forall e, pfr (lev e)) ->
    efail (fun r lvs => exists pre x post vs, lvs = pre ++ x :: post /\ Forall2 (den r) pre vs /\ bad_lv r x)
          (iterM (fun a => v <- ev a ;; push_param v) args) (mapM lev args).
  Proof.
    induction args as [|a args IH]; intros Hev Hfl HP ss p e H Ho rho ls pl HR Hb; cbn [iterM mapM] in *; [discriminate|].
    apply bind_err in H. destruct H as [H|(u1 & s2 & p2 & Hhd & Htl)].
    - apply bind_err in H. destruct H as [H|(v & s1 & p1 & H1 & H)]; [|rewrite push_param_eq in H; discriminate].
      apply nres_bind. eapply nres_mono; [apply (Hfl a (or_introl eq_refl) _ _ _ H Ho rho ls pl HR Hb)|]. intros b ls1 pl1 HP1.
      apply nres_bind. eapply nres_mono; [apply (fpostE_tail bad_lv (fun r _ => bad_lv r b) rho ls b ls1 pl1 (mapM lev args) HP1 (pfr_mapM _ _ HP))|]; [auto|].
      intros bs ls2 pl2 (Hb2 & HF2 & rhoK & Hp & Hs & HB). apply nres_ret. split; [exact Hb2|]. split; [exact HF2|]. exists rhoK. split; [exact Hp|]. split; [exact Hs|].
      exists [], b, bs, []. split; [reflexivity|]. split; [constructor|exact HB].
    - apply bind_ok in Hhd. destruct Hhd as (v & s1 & p1 & H1 & Hpush). rewrite push_param_eq in Hpush. inversion Hpush; subst; clear Hpush.
      apply nres_bind. apply nres_of_lres. eapply lres_mono; [apply (Hev a (or_introl eq_refl) _ _ _ _ _ H1 rho ls pl HR Hb)|].
      intros lv ls1 pl1 (Hb1 & S1 & Hf1 & rho1 & Hp1 & HR1 & Q1).
      assert (HR1' : Renv rho1 (sset_params (s_params s1 ++ [v]) s1) ls1) by exact HR1.
      apply nres_bind. eapply nres_mono; [apply (IH (fun e0 He => Hev e0 (or_intror He)) (fun e0 He => Hfl e0 (or_intror He)) HP _ _ _ Htl Ho rho1 ls1 pl1 HR1' Hb1)|].
      intros lvs ls2 pl2 HP2. apply nres_ret. eapply fpostE_shift; [exact Hf1|exact Hp1|].
      destruct HP2 as (Hb2 & HF2 & rhoK & Hp & Hs & pre & b0 & post & vs & -> & HF & HB).
      split; [exact Hb2|]. split; [exact HF2|]. exists rhoK. split; [exact Hp|]. split; [exact Hs|].
      exists (lv :: pre), b0, post, (v :: vs). split; [reflexivity|]. split; [constructor; [eapply den_mono; [exact Hp|exact Q1]|exact HF]|exact HB].
  Qed.

  (* an eager position: the lazy value is evaluated on the spot *)
  Lemma eager_fail (ms : M sstate value) (ml : M lstate lvalue) F : efail bad_lv ms ml -> enok ms (bind ml (eval_lv' F)).
  Proof.
    intros Hf ss p e H Ho rho ls pl HR Hb. apply nres_bind. eapply nres_mono; [apply (Hf _ _ _ H Ho rho ls pl HR Hb)|].
    intros lv ls1 pl1 (Hb1 & _ & rhoK & _ & Hs & HB). apply HB; assumption.
  Qed.

  (* one iteration of a comprehension / of a `for` loop binds the variable to a plain value *)
  Lemma iter_bind_sim ll var (ev : M sstate value) (lev : M lstate lvalue) v : esim Qden ev lev ->
    esim Qden (fun s p => (clear_frame ;;; unscoped_add glob var v false ;;; ev) s p)
              (fun s p => (lclear_frame ;;; lunscoped_add glob ll var (LValue v) false ;;; lev) s p).
  Proof.
    intros Helem ss0 p0 a ss0' p0' H0 rho0 ls0 pl0 HR0 Hb0.
    apply bind_ok in H0. destruct H0 as (u1 & t1 & q1 & G1 & H0). rewrite clear_frame_eq in G1. inversion G1; subst; clear G1.
    apply bind_ok in H0. destruct H0 as (u2 & t2 & q2 & G2 & G3).
    apply lres_bind. rewrite lclear_frame_eq. cbn [lres].
    assert (HRc : Renv rho0 (sset_locals (varmap_clear (s_locals ss0)) ss0) (lset_locals (varmap_clear (l_locals ls0)) ls0)).
    { destruct HR0 as [A1 A2]. split; [exact A1|apply locals_clear, A2]. }
    apply lres_bind. eapply lres_mono; [apply (unscoped_add_sim glob call ll var v (LValue v) false _ _ _ _ _ rho0 _ pl0 G2 HRc (den_value call rho0 v) Hb0)|].
    intros _ ls1' pl1' (Hb1' & S1' & Hf1' & rho1' & Hp1' & HR1' & _).
    eapply lres_mono; [apply (Helem _ _ _ _ _ G3 rho1' ls1' pl1' HR1' Hb1')|]. intros lv ls2' pl2' HP.
    eapply epost_chain; [exact S1'|eapply lframe_trans; [apply lframe_set_locals|exact Hf1']|exact Hp1'|exact HP|]. intros r _ HQ. exact HQ.
  Qed.
  Lemma unscoped_add_fail ll name v lv mu : enok (unscoped_add glob name v mu) (lunscoped_add glob ll name lv mu).
  Proof.
    intros ss p e H Ho rho ls pl [Hst Hl] Hb. unfold unscoped_add, lunscoped_add in *. destruct (globals_get glob name); [exact I|].
    unfold bind, get_state in H. destruct (varmap_add (s_locals ss) name v mu) as [l1|e1] eqn:E; [discriminate|].
    apply nres_bind. rewrite store_add_eq. cbn [nres]. apply nres_get. cbn [set_store l_locals].
    destruct Hl as [|f f' l l' Hf Hl']; cbn [varmap_add] in *; [exact I|].
    pose proof (frame_get call rho f f' name Hf) as G. destruct (alist_get name f) as [[v1 m1]|], (alist_get name f') as [[lv2 m2]|]; try contradiction; try discriminate.
    exact I.
  Qed.
  Lemma iter_bind_fail {B} Bd ll var (ev : M sstate value) (lev : M lstate B) v : efail Bd ev lev ->
    efail Bd (fun s p => (clear_frame ;;; unscoped_add glob var v false ;;; ev) s p)
             (fun s p => (lclear_frame ;;; lunscoped_add glob ll var (LValue v) false ;;; lev) s p).
  Proof.
    intros Helem ss p e H Ho rho ls pl HR Hb. apply bind_err in H. destruct H as [H|(u1 & t1 & q1 & G1 & H)]; [rewrite clear_frame_eq in H; discriminate|].
    rewrite clear_frame_eq in G1. inversion G1; subst; clear G1.
    assert (HRc : Renv rho (sset_locals (varmap_clear (s_locals ss)) ss) (lset_locals (varmap_clear (l_locals ls)) ls)).
    { destruct HR as [A1 A2]. split; [exact A1|apply locals_clear, A2]. }
    apply nres_bind. rewrite lclear_frame_eq. cbn [nres]. apply bind_err in H. destruct H as [H|(u2 & t2 & q2 & G2 & G3)].
    - apply nok_nres. apply nok_bind. apply (unscoped_add_fail ll var v (LValue v) false _ _ _ H Ho rho _ pl HRc Hb).
    - apply nres_bind. apply nres_of_lres.
      eapply lres_mono; [apply (unscoped_add_sim glob call ll var v (LValue v) false _ _ _ _ _ rho _ pl G2 HRc (den_value call rho v) Hb)|].
      intros _ ls1 pl1 (Hb1 & S1 & Hf1 & rho1 & Hp1 & HR1 & _).
      eapply nres_mono; [apply (Helem _ _ _ G3 Ho rho1 ls1 pl1 HR1 Hb1)|]. intros b ls2 pl2 HP.
      eapply fpostE_shift; [eapply lframe_trans; [apply lframe_set_locals|exact Hf1]|exact Hp1|exact HP].
  Qed.

  (* comprehensions *)
  Lemma comp_fail (ev : expr -> M sstate value) (lev : expr -> M lstate lvalue) (K : list value -> value) ll F elem var value :
    esim Qden (ev value) (lev value) -> efail bad_lv (ev value) (lev value) ->
    esim Qden (ev elem) (lev elem) -> efail bad_lv (ev elem) (lev elem) -> pfr (lev elem) ->
    efail (fun r lvs => exists pre x post outs, lvs = pre ++ x :: post /\ Forall2 (den r) pre outs /\ bad_lv r x)
      (lv <- ev value ;; vals <- lift (as_list lv) ;; push_frame ;;;
       out <- mapM (fun v => clear_frame ;;; unscoped_add glob var v false ;;; ev elem) vals ;; pop_frame ;;; ret (K out))
      (lv <- (lv <- lev value ;; eval_lv' F lv) ;; vals <- lift (as_list lv) ;; lpush_frame ;;;
       out <- mapM (fun v => lclear_frame ;;; lunscoped_add glob ll var (LValue v) false ;;; lev elem) vals ;; lpop_frame ;;; ret out).
  Proof.
    intros Hval Hvalf Helem Helemf Hpfr ss p e H Ho rho ls pl HR Hb.
    apply bind_err in H. destruct H as [H|(lv0 & s1 & p1 & H1 & H)].
    { apply nok_nres. apply nok_bind. apply (eager_fail _ _ F Hvalf _ _ _ H Ho rho ls pl HR Hb). }
    apply nres_bind. apply nres_of_lres. eapply lres_mono; [apply (eager_of t fl call _ F _ _ _ _ _ _ (Hval _ _ _ _ _ H1 rho ls pl HR Hb))|].
    intros v' ls1 pl1 (-> & Hb1 & S1 & Hf1 & rho1 & Hp1 & HR1 & _).
    apply bind_err in H. destruct H as [H|(vals & s2 & p2 & H2 & H)].
    { apply lift_err in H. apply nres_bind. rewrite H. exact I. }
    apply lift_ok in H2. destruct H2 as (Hal & -> & ->). apply nres_bind. rewrite Hal. cbn [lift nres].
    apply bind_err in H. destruct H as [H|(u3 & s3 & p3 & H3 & H)]; [rewrite push_frame_eq in H; discriminate|].
    rewrite push_frame_eq in H3. inversion H3; subst; clear H3.
    apply nres_bind. rewrite lpush_frame_eq. cbn [nres].
    assert (HR2 : Renv rho1 (sset_locals ([] :: s_locals s1) s1) (lset_locals ([] :: l_locals ls1) ls1)).
    { destruct HR1 as [A1 A2]. split; [exact A1|]. constructor; [constructor|exact A2]. }
    apply bind_err in H. destruct H as [H|(out & s4 & p4 & H4 & H)].
    2:{ exfalso. apply bind_err in H. destruct H as [H|(u5 & s5 & p5 & H5 & H)]; [eapply pop_frame_noerr; eauto|eapply ret_noerr; eauto]. }
    apply nres_bind.
    eapply nres_mono; [apply (trav_fail _ _ Qden bad_lv (fun _ => True) (Qden_mono call)
                               (fun v _ => iter_bind_sim ll var (ev elem) (lev elem) v Helem)
                               (fun v _ => iter_bind_fail bad_lv ll var (ev elem) (lev elem) v Helemf)
                               (fun v => pfr_bind _ _ pfr_lclear_frame (fun _ => pfr_bind _ _ (pfr_lunscoped_add ll var (LValue v) false) (fun _ => Hpfr)))
                               vals ltac:(clear; induction vals; cbn; auto) _ _ _ H Ho rho1 _ pl1 HR2 Hb1)|].
    intros lvs ls4 pl4 HP4.
    apply nres_bind.
    eapply nres_mono; [apply (fpostE_tail _ (fun r (_ : unit) => exists pre x post outs, lvs = pre ++ x :: post /\ Forall2 (den r) pre outs /\ bad_lv r x)
                                rho1 _ lvs ls4 pl4 lpop_frame HP4 pfr_lpop_frame)|]; [auto|].
    intros u5 ls5 pl5 HP5. apply nres_ret. eapply fpostE_shift; [eapply lframe_trans; [exact Hf1|apply lframe_set_locals]|exact Hp1|exact HP5].
  Qed.

  (* ---------------- expressions ---------------- *)
  Lemma fpostE_intro {B} (Bd : list value -> B -> Prop) rho ls b ls' pl' rhoK :
    nob pl' -> EFr ls ls' -> prefix rho rhoK -> sbk rhoK (l_store ls') -> Bd rhoK b -> fpostE Bd rho ls b ls' pl'.
  Proof. intros H1 H2 H3 H4 H5. split; [exact H1|]. split; [exact H2|]. exists rhoK. auto. Qed.

  Lemma eval_fail : forall fuel le ll e, fexpr' e -> env_rel' le ll -> forall lf, efail bad_lv (eval' fuel le e) (leval' lf ll e).
  Proof.
    induction fuel as [|fuel IH]; intros le ll e Hf Henv lf ss p err H Ho rho ls pl HR Hb; [discriminate|].
    destruct lf as [|lf]; [exact I|].
    destruct e; cbn [eval] in H; cbn [fexpr] in Hf; cbn [leval].
    - exfalso; eapply ret_noerr; eauto.
    - exfalso; eapply ret_noerr; eauto.
    - exfalso; eapply ret_noerr; eauto.
    - exfalso; eapply ret_noerr; eauto.
    - exfalso; eapply ret_noerr; eauto.
    - (* list *)
      apply bind_err in H. destruct H as [H|(vs & s1 & p1 & H1 & H)]; [|exfalso; eapply ret_noerr; eauto].
      apply nres_bind.
      eapply nres_mono; [apply (trav_fail _ _ Qden bad_lv fexpr' (Qden_mono call) (fun x Px => eval_sim t fl glob call okfn Hpure m fuel le ll x Px Henv lf)
                                 (fun x Px => IH le ll x Px Henv lf) (fun x => pfr_leval lf ll x) es Hf _ _ _ H Ho rho ls pl HR Hb)|].
      intros lvs ls1 pl1 (Hb1 & HF1 & rhoK & Hp & Hs & pre & b & post & as_ & -> & HF & HB). apply nres_ret.
      apply (fpostE_intro _ _ _ _ _ _ rhoK Hb1 HF1 Hp Hs). apply (bad_list call t fl rhoK pre as_ b post HF HB).
    - (* set *)
      apply bind_err in H. destruct H as [H|(vs & s1 & p1 & H1 & H)]; [|exfalso; eapply ret_noerr; eauto].
      apply nres_bind.
      eapply nres_mono; [apply (trav_fail _ _ Qden bad_lv fexpr' (Qden_mono call) (fun x Px => eval_sim t fl glob call okfn Hpure m fuel le ll x Px Henv lf)
                                 (fun x Px => IH le ll x Px Henv lf) (fun x => pfr_leval lf ll x) es Hf _ _ _ H Ho rho ls pl HR Hb)|].
      intros lvs ls1 pl1 (Hb1 & HF1 & rhoK & Hp & Hs & pre & b & post & as_ & -> & HF & HB). apply nres_ret.
      apply (fpostE_intro _ _ _ _ _ _ rhoK Hb1 HF1 Hp Hs). apply (bad_set call t fl rhoK pre as_ b post HF HB).
    - (* list comprehension *)
      destruct Hf as [Hfe Hfv]. apply nres_bind.
      eapply nres_mono; [apply (comp_fail (eval' fuel le) (leval' lf ll) VList ll _ e1 var e2
                                 (eval_sim t fl glob call okfn Hpure m fuel le ll e2 Hfv Henv lf) (IH le ll e2 Hfv Henv lf)
                                 (eval_sim t fl glob call okfn Hpure m fuel le ll e1 Hfe Henv lf) (IH le ll e1 Hfe Henv lf) (pfr_leval lf ll e1)
                                 _ _ _ H Ho rho ls pl HR Hb)|].
      intros lvs ls1 pl1 (Hb1 & HF1 & rhoK & Hp & Hs & pre & b & post & as_ & -> & HF & HB). apply nres_ret.
      apply (fpostE_intro _ _ _ _ _ _ rhoK Hb1 HF1 Hp Hs). apply (bad_list call t fl rhoK pre as_ b post HF HB).
    - (* set comprehension *)
      destruct Hf as [Hfe Hfv]. apply nres_bind.
      eapply nres_mono; [apply (comp_fail (eval' fuel le) (leval' lf ll) (fun o => VSet (set_of_list o)) ll _ e1 var e2
                                 (eval_sim t fl glob call okfn Hpure m fuel le ll e2 Hfv Henv lf) (IH le ll e2 Hfv Henv lf)
                                 (eval_sim t fl glob call okfn Hpure m fuel le ll e1 Hfe Henv lf) (IH le ll e1 Hfe Henv lf) (pfr_leval lf ll e1)
                                 _ _ _ H Ho rho ls pl HR Hb)|].
      intros lvs ls1 pl1 (Hb1 & HF1 & rhoK & Hp & Hs & pre & b & post & as_ & -> & HF & HB). apply nres_ret.
      apply (fpostE_intro _ _ _ _ _ _ rhoK Hb1 HF1 Hp Hs). apply (bad_set call t fl rhoK pre as_ b post HF HB).
    - (* capture: never an error *)
      apply lift_err in H. exfalso. eapply from_nodes_noerr; eauto.
    - (* unscoped variable *) apply nok_nres. apply (unscoped_get_fail name _ _ _ H Ho rho ls pl HR Hb).
    - contradiction.
    - (* call *)
      destruct Hf as [Hok Hargs]. apply bind_err in H. destruct H as [H|(u & s1 & p1 & H1 & H)].
      + apply nres_bind.
        eapply nres_mono; [apply (args_fail (eval' fuel le) (leval' lf ll) args
                                   (fun e He => eval_sim t fl glob call okfn Hpure m fuel le ll e (All_In _ _ _ Hargs He) Henv lf)
                                   (fun e He => IH le ll e (All_In _ _ _ Hargs He) Henv lf) (fun e => pfr_leval lf ll e) _ _ _ H Ho rho ls pl HR Hb)|].
        intros lvs ls1 pl1 (Hb1 & HF1 & rhoK & Hp & Hs & pre & b & post & as_ & -> & HF & HB). apply nres_ret.
        apply (fpostE_intro _ _ _ _ _ _ rhoK Hb1 HF1 Hp Hs). apply (bad_call_arg call t fl rhoK f pre as_ b post HF HB).
      + apply nres_bind. apply nres_of_lres.
        eapply lres_mono; [apply (args_sim call (eval' fuel le) (leval' lf ll) args
                                   (fun e He => eval_sim t fl glob call okfn Hpure m fuel le ll e (All_In _ _ _ Hargs He) Henv lf) _ _ _ _ _ H1 rho ls pl HR Hb)|].
        intros lvs ls1 pl1 (Hb1 & Hf1 & rho1 & vs & Hp1 & HR1 & HF & Hlen & Hg1 & Hps1). apply nres_ret.
        apply bind_err in H. destruct H as [H|(ps & s2 & p2 & H2 & H3)]; [exfalso; eapply drain_noerr; eauto|].
        rewrite <- Hlen in H2. destruct (drain_ok _ _ _ _ _ _ _ Hps1 H2) as (-> & -> & ->).
        unfold call_function, bind, get_state in H3. cbn [sset_params s_graph] in H3.
        destruct (call f (s_graph s1) vs) as [[v0 g']|e0|x0|] eqn:Ec; try discriminate.
        apply (fpostE_intro _ _ _ _ _ _ rho1 Hb1 (lframe_EFr _ _ Hf1) Hp1 (Renv_sbk _ _ _ HR1)).
        apply (bad_call_fail call t fl rho1 f lvs vs HF). intros g. rewrite (Hperr f Hok _ _ _ Ec g). exact I.
    - (* regex capture *)
      destruct Henv as (E1 & E2 & E3). rewrite <- E3. destruct (nth_error (le_caps le) (N.to_nat i)) as [s0|]; [exfalso; eapply ret_noerr; eauto|exact I].
  Qed.

  (* conditions, scan subjects, loop lists *)
  Lemma leager_fail fuel le ll e lf : fexpr' e -> env_rel' le ll -> enok (eval' fuel le e) (leager t fl glob call lf ll e).
  Proof. intros Hf Henv. unfold leager. apply eager_fail. apply eval_fail; assumption. Qed.

  (* ---------------- attributes ---------------- *)
  Hypothesis Hsh : Forall (fun sh => All (fattr okfn m) (sh_attrs sh)) (f_shorthands fl).
  Notation den_attrs := (den_attrs call).
  Notation asim := (asim call).
  Notation fattr' := (fattr okfn m).
  Notation exec_attr' := (exec_attr t fl glob call).
  Notation lexec_attr' := (lexec_attr t fl glob call).

  (* the list of lazy attributes of a failing `attr`: a prefix that denotes the insertions made by the strict run on
     the graph G, then a value that cannot be evaluated or whose insertion conflicts with the graph reached *)
  Definition BdA (rhoK : list value) (tgt : target) (G : graph) (out : list (ident * lvalue)) : Prop :=
    exists pre key lv post kvs G', out = pre ++ (key, lv) :: post /\ den_attrs rhoK pre kvs /\
      apply_attrs (map (mk tgt) kvs) G = Some G' /\ (bad_lv rhoK lv \/ exists v, den rhoK lv v /\ conflict (mk tgt (key, v)) G').
  Definition fpostA (tgt : target) (G : graph) (rho : list value) (ls : lstate) : list (ident * lvalue) -> lstate -> polls -> Prop :=
    fun out ls' pl' => nob pl' /\ EFr ls ls' /\ exists rhoK dt, prefix rho rhoK /\ Jst rhoK dt (l_store ls') /\ (dt = None -> BdA rhoK tgt G out).
  Definition afail (tgt : target) (ms : M sstate unit) (ml : M lstate (list (ident * lvalue))) : Prop :=
    forall ss p e, ms ss p = Err e -> okerr e -> forall rho ls pl, Renv rho ss ls -> nob pl -> nres (ml ls pl) (fpostA tgt (s_graph ss) rho ls).

  Lemma BdA_app_r rhoK tgt G out x : BdA rhoK tgt G out -> BdA rhoK tgt G (out ++ x).
  Proof.
    intros (pre & key & lv & post & kvs & G' & -> & H1 & H2 & H3). exists pre, key, lv, (post ++ x), kvs, G'.
    split; [rewrite <- app_assoc; reflexivity|]. auto.
  Qed.
  Lemma BdA_app_l rhoK tgt G G1 out1 kvs1 out : den_attrs rhoK out1 kvs1 -> apply_attrs (map (mk tgt) kvs1) G = Some G1 ->
    BdA rhoK tgt G1 out -> BdA rhoK tgt G (out1 ++ out).
  Proof.
    intros Hd Hg (pre & key & lv & post & kvs & G' & -> & H1 & H2 & H3). exists (out1 ++ pre), key, lv, post, (kvs1 ++ kvs), G'.
    split; [rewrite <- app_assoc; reflexivity|]. split; [apply Forall2_app; assumption|]. split; [|exact H3].
    rewrite map_app. eapply ofold_app_ok; eauto.
  Qed.
  Lemma fpostA_shift tgt G rho rho1 ls ls1 out ls2 pl2 :
    lframe ls ls1 -> prefix rho rho1 -> fpostA tgt G rho1 ls1 out ls2 pl2 -> fpostA tgt G rho ls out ls2 pl2.
  Proof.
    intros Hf Hp (Hb & HF & rhoK & dt & Hp2 & HJ & HB). split; [exact Hb|]. split; [eapply EFr_trans; [apply lframe_EFr, Hf|exact HF]|].
    exists rhoK, dt. split; [eapply prefix_trans; eauto|]. auto.
  Qed.
  Lemma fpostA_tail {C} tgt G rho ls out ls1 pl1 (kl : M lstate C) : fpostA tgt G rho ls out ls1 pl1 -> pfr kl ->
    nres (kl ls1 pl1) (fun _ ls2 pl2 => fpostA tgt G rho ls out ls2 pl2).
  Proof.
    intros (Hb & HF & rhoK & dt & Hp & HJ & HB) Hk. eapply nres_mono; [apply (pfr_nres kl rhoK dt ls ls1 pl1 Hk Hb HJ HF)|].
    intros c ls2 pl2 (Hb2 & HJ2 & HF2). split; [exact Hb2|]. split; [exact HF2|]. exists rhoK, dt. auto.
  Qed.

  Lemma attrs_fail tgt (exa : attr -> M sstate unit) (lexa : attr -> M lstate (list (ident * lvalue))) :
    forall attrs, (forall a, In a attrs -> asim tgt (exa a) (lexa a)) -> (forall a, In a attrs -> afail tgt (exa a) (lexa a)) -> (forall a, pfr (lexa a)) ->
    forall ss p e, iterM exa attrs ss p = Err e -> okerr e -> forall rho ls pl, Renv rho ss ls -> nob pl ->
      nres (mapM lexa attrs ls pl) (fun outs ls' pl' => fpostA tgt (s_graph ss) rho ls (concat outs) ls' pl').
  Proof.
    induction attrs as [|a attrs IH]; intros Ha Hfl HP ss p e H Ho rho ls pl HR Hb; cbn [iterM mapM] in *; [discriminate|].
    apply bind_err in H. destruct H as [H|(u1 & s1 & p1 & H1 & H2)].
    - apply nres_bind. eapply nres_mono; [apply (Hfl a (or_introl eq_refl) _ _ _ H Ho rho ls pl HR Hb)|]. intros o1 ls1 pl1 HP1.
      apply nres_bind. eapply nres_mono; [apply (fpostA_tail tgt _ rho ls o1 ls1 pl1 (mapM lexa attrs) HP1 (pfr_mapM _ _ HP))|].
      intros outs ls2 pl2 (Hb2 & HF2 & rhoK & dt & Hp & HJ & HB). apply nres_ret. split; [exact Hb2|]. split; [exact HF2|]. exists rhoK, dt.
      split; [exact Hp|]. split; [exact HJ|]. intros Hd. cbn [concat]. apply BdA_app_r, HB, Hd.
    - apply nres_bind. apply nres_of_lres. eapply lres_mono; [apply (Ha a (or_introl eq_refl) _ _ _ _ _ H1 rho ls pl HR Hb)|].
      intros o1 ls1 pl1 (Hb1 & Hf1 & rho1 & kvs1 & Hp1 & HR1 & Hd1 & Hg1).
      apply nres_bind. eapply nres_mono; [apply (IH (fun a0 Hin => Ha a0 (or_intror Hin)) (fun a0 Hin => Hfl a0 (or_intror Hin)) HP _ _ _ H2 Ho rho1 ls1 pl1 HR1 Hb1)|].
      intros outs ls2 pl2 HP2. apply nres_ret. eapply fpostA_shift; [exact Hf1|exact Hp1|].
      destruct HP2 as (Hb2 & HF2 & rhoK & dt & Hp & HJ & HB). split; [exact Hb2|]. split; [exact HF2|]. exists rhoK, dt.
      split; [exact Hp|]. split; [exact HJ|]. intros Hd. cbn [concat]. eapply BdA_app_l; [eapply den_attrs_mono; [exact Hp|exact Hd1]|exact Hg1|apply HB, Hd].
  Qed.

  Lemma add_attr_err tgt k v s p e : add_attr tgt k v s p = Err e -> okerr e -> conflict (mk tgt (k, v)) (s_graph s).
  Proof.
    unfold add_attr, bind, get_state. destruct tgt as [n|a b]; cbn [mk conflict fst snd].
    - destruct (gnode_at (s_graph s) n) as [nd|]; [|discriminate]. unfold attrs_add.
      destruct (alist_get k (g_attrs nd)) as [old|] eqn:E; [|discriminate]. destruct (value_eqb old v) eqn:Ev; [discriminate|].
      intros _ _. exists nd, old. auto.
    - destruct (gnode_at (s_graph s) a) as [nd|]; [|discriminate]. destruct (edges_get b (g_edges nd)) as [m0|] eqn:Ee.
      + unfold attrs_add. destruct (alist_get k m0) as [old|] eqn:E; [|discriminate]. destruct (value_eqb old v) eqn:Ev; [discriminate|].
        intros _ _. exists nd, m0, old. auto.
      + intros H Ho. inversion H; subst. contradiction.
  Qed.

  Lemma get_state_noerr {S} (s : S) p e : get_state s p <> Err e. Proof. discriminate. Qed.

  Lemma attr_fail : forall fuel le ll tgt a, fattr' a -> env_rel' le ll -> forall lf, afail tgt (exec_attr' fuel le tgt a) (lexec_attr' lf ll a).
  Proof.
    induction fuel as [|fuel IH]; intros le ll tgt a Hf Henv lf ss p err H Ho rho ls pl HR Hb; [discriminate|].
    destruct lf as [|lf]; [exact I|]. destruct a as [name value]. cbn [exec_attr] in H. cbn [lexec_attr fattr] in *.
    apply bind_err in H. destruct H as [H|(u0 & s0 & p0 & H0 & H)]; [exfalso; eapply poll_okerr; eauto|].
    apply poll_ok in H0. destruct H0 as (-> & -> & _).
    apply nres_bind. unfold lpoll. apply nres_poll; [exact Hb|]. intros pl0 Hb0.
    apply bind_err in H. destruct H as [H|(v & s1 & p1 & H1 & H)].
    - (* the value fails *)
      apply nres_bind. eapply nres_mono; [apply (eval_fail fuel le ll value Hf Henv lf _ _ _ H Ho rho ls pl0 HR Hb0)|].
      intros lv ls1 pl1 (Hb1 & HF1 & rhoK & Hp & Hs & HB).
      destruct (find_shorthand name (f_shorthands fl)) as [sh|] eqn:Esh.
      + (* shorthand: the bad value is stored in a thunk that nothing may ever read *)
        apply nres_get. apply nres_bind. rewrite set_llocals_eq. cbn [nres].
        apply nres_bind. unfold lunscoped_add. destruct (globals_get glob (sh_var sh)); [exact I|].
        apply nres_bind. rewrite store_add_eq. cbn [nres]. apply nres_get.
        destruct (varmap_add (l_locals (set_store (l_store (lset_locals [[]] ls1) ++ [{| th_state := TUnforced lv; th_dbg := ll_ctx ll |}]) (lset_locals [[]] ls1)))
                    (sh_var sh) (LVar (N.of_nat (length (l_store (lset_locals [[]] ls1))))) false) as [l1|e1]; [|exact I].
        rewrite set_llocals_eq. cbn [nres]. cbn [lset_locals l_store set_store].
        set (loc := length (l_store ls1)). set (th := {| th_state := TUnforced lv; th_dbg := ll_ctx ll |}).
        assert (HJ : Jst rhoK (Some (loc, lv)) (l_store ls1 ++ [th])).
        { split; [apply sbk_app, Hs|]. split; [apply (sbk_len call _ _ Hs)|]. split; [exact HB|]. exists (ll_ctx ll).
          unfold loc. rewrite nth_error_app2, Nat.sub_diag by lia. reflexivity. }
        match goal with |- nres (?k ?st pl1) _ => 
          assert (Hk : pfr k) by (apply pfr_bind; [apply pfr_mapM; intros a0; apply pfr_lexec_attr|intros outs; apply pfr_bind; [apply pfr_set_llocals|intros _; apply pfr_ret]]);
          assert (HFs : EFr ls st) by (eapply EFr_trans; [exact HF1|]; apply lframe_EFr; repeat split);
          eapply nres_mono; [apply (pfr_nres k rhoK (Some (loc, lv)) ls st pl1 Hk Hb1 HJ HFs)|]
        end.
        intros out ls2 pl2 (Hb2 & HJ2 & HF2). split; [exact Hb2|]. split; [exact HF2|]. exists rhoK, (Some (loc, lv)).
        split; [exact Hp|]. split; [exact HJ2|]. discriminate.
      + apply nres_ret. split; [exact Hb1|]. split; [exact HF1|]. exists rhoK, None. split; [exact Hp|]. split; [apply Jst_none, Hs|]. intros _.
        exists [], name, lv, [], [], (s_graph ss). split; [reflexivity|]. split; [constructor|]. split; [reflexivity|]. left. exact HB.
    - (* the value is evaluated; the insertion fails *)
      apply nres_bind. apply nres_of_lres.
      eapply lres_mono; [apply (eval_sim t fl glob call okfn Hpure m fuel le ll value Hf Henv lf _ _ _ _ _ H1 rho ls pl0 HR Hb0)|].
      intros lv ls1 pl1 (Hb1 & [Sg1 Sp1] & Hf1 & rho1 & Hp1 & HR1 & Hd1).
      destruct (find_shorthand name (f_shorthands fl)) as [sh|] eqn:Esh.
      + apply bind_err in H. destruct H as [H|(sg & s1' & p1' & G & H)]; [exfalso; eapply get_state_noerr; eauto|]. apply get_ok in G. destruct G as (-> & -> & ->).
        apply bind_err in H. destruct H as [H|(u2 & s2 & p2 & H2 & H)]; [rewrite set_locals_eq in H; discriminate|]. rewrite set_locals_eq in H2. inversion H2; subst; clear H2.
        apply nres_get. apply nres_bind. rewrite set_llocals_eq. cbn [nres].
        assert (HR2 : Renv rho1 (sset_locals [[]] s1) (lset_locals [[]] ls1)).
        { destruct HR1 as [A1 A2]. split; [exact A1|]. constructor; [constructor|constructor]. }
        apply bind_err in H. destruct H as [H|(u3 & s3 & p3 & H3 & H)].
        * apply nok_nres. apply nok_bind. apply (unscoped_add_fail ll (sh_var sh) v lv false _ _ _ H Ho rho1 _ pl1 HR2 Hb1).
        * apply nres_bind. apply nres_of_lres.
          eapply lres_mono; [apply (unscoped_add_sim glob call ll (sh_var sh) v lv false _ _ _ _ _ rho1 _ pl1 H3 HR2 Hd1 Hb1)|].
          intros _ ls3 pl3 (Hb3 & [Sg3 Sp3] & Hf3 & rho3 & Hp3 & HR3 & _).
          apply bind_err in H. destruct H as [H|(u4 & s4 & p4 & H4 & H5)]; [|rewrite set_locals_eq in H5; discriminate].
          assert (Hin : forall a0, In a0 (sh_attrs sh) -> fattr' a0).
          { intros a0 Hin0. rewrite Forall_forall in Hsh. apply (All_In _ _ _ (Hsh sh (find_shorthand_In _ _ _ Esh)) Hin0). }
          apply nres_bind.
          eapply nres_mono; [apply (attrs_fail tgt _ _ (sh_attrs sh)
                                     (fun a0 Hin0 => attr_sim t fl glob call okfn Hpure m Hsh fuel le ll tgt a0 (Hin a0 Hin0) Henv lf)
                                     (fun a0 Hin0 => IH le ll tgt a0 (Hin a0 Hin0) Henv lf) (fun a0 => pfr_lexec_attr lf ll a0) _ _ _ H Ho rho3 ls3 pl3 HR3 Hb3)|].
          intros outs ls4 pl4 HP4. apply nres_bind. rewrite set_llocals_eq. cbn [nres]. apply nres_ret.
          cbn [sset_locals s_graph] in *. rewrite Sg3, Sg1 in HP4.
          eapply fpostA_shift; [eapply lframe_trans; [exact Hf1|]; eapply lframe_trans; [apply lframe_set_locals|exact Hf3]|eapply prefix_trans; [exact Hp1|exact Hp3]|].
          destruct HP4 as (Hb4 & HF4 & rhoK & dt & Hp & HJ & HB). split; [exact Hb4|]. split; [eapply EFr_trans; [exact HF4|apply lframe_EFr, lframe_set_locals]|].
          exists rhoK, dt. auto.
      + pose proof (add_attr_err _ _ _ _ _ _ H Ho) as Hc. rewrite Sg1 in Hc. apply nres_ret.
        split; [exact Hb1|]. split; [apply lframe_EFr, Hf1|]. exists rho1, None. split; [exact Hp1|]. split; [apply Jst_none, (Renv_sbk _ _ _ HR1)|]. intros _.
        exists [], name, lv, [], [], (s_graph ss). split; [reflexivity|]. split; [constructor|]. split; [reflexivity|]. right. exists v. auto.
  Qed.
End FailExpr.
