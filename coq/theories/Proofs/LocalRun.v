(* Proofs/LocalRun.v — C06 locality, semantic half, part 6: stanzas and the whole execution phase.
   From the initial state, the execution phase of a file whose eager positions are eager_ok (`file_eok`, which
   `check_file = CkOk` guarantees) and whose shorthand bodies contain no comprehension never forces a
   scoped-variable cell: all cells are still unforced when the evaluation phase starts. *)
From TSG Require Import Spec.PureLv Proofs.BaseFacts Proofs.MonadFacts Proofs.Containers Proofs.Checker Proofs.LocalCheck Proofs.LocalPos
  Proofs.LocalPure Proofs.LocalEval Proofs.LocalLeval Proofs.LocalHoare Proofs.LocalStmt.

Definition one_frame : SP := fun _ l => exists fr : vframe lvalue, l = [fr].
Lemma locals_ok_false st (fr : vframe lvalue) : locals_ok st [map (fun kv => (fst kv, false)) fr] [fr].
Proof.
  constructor; [|constructor]. induction fr as [|[k [lv m]] fr IH]; cbn [map]; constructor; [|exact IH].
  split; [reflexivity|]. cbn [snd]. intros X. discriminate.
Qed.

Lemma lexec_file_phases {rx : Type} t fl cfg glob (regexes : list rx) find call fuel ms :
  lexec_file t fl cfg glob regexes find call fuel ms =
  (lexec_matches t fl cfg glob regexes find call fuel ms ;;; evaluate_phase t fl call (fuel + default_eval_fuel)).
Proof. reflexivity. Qed.

Section Run.
  Context {rx : Type}.
  Variable t : tree.
  Variable fl : file.
  Variable cfg : config.
  Variable glob : globals.
  Variable regexes : list rx.
  Variable find : rx -> str -> option (list (option (N * N))).
  Variable call : ident -> graph -> list value -> res (value * graph).
  Variable G : ident -> bool.
  Hypothesis Hglob : forall x, G x = true -> exists v, globals_get glob x = Some v.
  Hypothesis Hplain : shorthands_plain fl = true.

  Lemma ho_lexec_stanza fuel st m : block_eok G [[]] (st_stmts st) = true ->
    ho one_frame (lexec_stanza t fl cfg glob regexes find call fuel st m) (fun _ => one_frame).
  Proof.
    intros Hb. unfold lexec_stanza. eapply ho_bind; [apply ho_poll|]. intros u. cbv beta.
    eapply ho_bind.
    { eapply ho_conseq; [|intros a st0 l H; exact H|apply (ho_lclear_frame [])].
      intros st0 l [fr ->]. eexists. apply locals_ok_false. }
    intros u1. cbv beta zeta. destruct (nodes_for_capture m (st_full_file_idx st)) as [|n ns]; [apply ho_panic|].
    eapply ho_conseq; [intros st0 l H; exact H| |
      apply (ho_block G (fun s => ctx_wrap (CtxStmts [{| sc_stmt := stmt_loc s; sc_stanza := st_start st; sc_node := n |}])
                        (lexec_stmt t fl cfg glob regexes find call fuel
                           (ll_with_ctx {| ll_match := m; ll_full := st_full_file_idx st; ll_caps := []; ll_ctx := {| sc_stmt := (0, 0); sc_stanza := st_start st; sc_node := 0 |} |}
                              {| sc_stmt := stmt_loc s; sc_stanza := st_start st; sc_node := n |}) s)))].
    - intros a st0 l H. destruct (block_env_cons G (st_stmts st) [] []) as [fr' E]. rewrite E in H. unfold SInv in H.
      inversion H as [|? fr ? l' _ Hl]; subst. inversion Hl; subst. exists fr. reflexivity.
    - intros s env0 Hs. apply ho_ctx. apply (ho_lexec_stmt t fl cfg glob regexes find call G Hglob Hplain). exact Hs.
    - exact Hb.
  Qed.

  Lemma ho_lexec_matches fuel ms : forallb (fun st => block_eok G [[]] (st_stmts st)) (f_stanzas fl) = true ->
    ho one_frame (lexec_matches t fl cfg glob regexes find call fuel ms) (fun _ => one_frame).
  Proof.
    intros Hf. unfold lexec_matches. apply ho_iterM. intros pm _.
    destruct (nth_error (f_stanzas fl) (N.to_nat (fst pm))) as [st|] eqn:En; [|apply ho_panic].
    apply ho_lexec_stanza. rewrite forallb_forall in Hf. apply Hf. eapply nth_error_In. exact En.
  Qed.

  Theorem exec_phase_unforced fuel ms g0 p u ls' p' :
    forallb (fun st => block_eok G [[]] (st_stmts st)) (f_stanzas fl) = true ->
    lexec_matches t fl cfg glob regexes find call fuel ms (linit g0) p = Ok (u, ls', p') ->
    cells_unforced (l_scoped ls').
  Proof.
    intros Hf E. destruct (ho_lexec_matches fuel ms Hf (linit g0) p u ls' p') as (_ & U & _); [exists []; reflexivity|exact E|].
    apply U. intros name c H. discriminate.
  Qed.
End Run.

(* every declared global has a value after check_globals *)
Lemma check_globals_declared ds : forall g g', check_globals ds g = Ok g' ->
  (forall k v, globals_get g k = Some v -> exists v', globals_get g' k = Some v') /\
  (forall d, In d ds -> exists v, globals_get g' (gl_name d) = Some v).
Proof.
  induction ds as [|d ds IH]; intros g g'; cbn [check_globals].
  - intros [= <-]. split; [eauto|intros d []].
  - destruct (check_global d g) as [g1| | |] eqn:E1; cbn [obind]; try discriminate. intros H. destruct (IH _ _ H) as [M1 M2].
    assert (Hg1 : (forall k v, globals_get g k = Some v -> exists v', globals_get g1 k = Some v') /\ exists v, globals_get g1 (gl_name d) = Some v).
    { unfold check_global in E1. destruct (globals_get g (gl_name d)) as [v|] eqn:Eg.
      - assert (g1 = g) by (destruct (is_list_quant (gl_quant d)); [destruct (as_list v); congruence|congruence]). subst g1. eauto.
      - destruct (gl_default d) as [s|]; [|discriminate]. unfold globals_add in E1. destruct g as [|f up]; [discriminate|].
        cbn [globals_get] in Eg. destruct (alist_get (gl_name d) f) eqn:Ef; [discriminate|]. inversion E1; subst g1. split.
        + intros k v. cbn [globals_get]. rewrite alist_get_app. destruct (alist_get k f); [eauto|]. cbn [alist_get].
          destruct (str_eqb k (gl_name d)); eauto.
        + exists (VStr s). cbn [globals_get]. rewrite alist_get_app, Ef. cbn [alist_get]. rewrite str_eqb_refl. reflexivity. }
    destruct Hg1 as [N1 [v Hv]]. split.
    + intros k w Hk. destruct (N1 _ _ Hk) as [w' Hw']. eapply M1. exact Hw'.
    + intros d0 [<-|Hin]; [eapply M1; exact Hv|apply M2; exact Hin].
Qed.
Lemma is_global_glob f glob g0 : check_globals (f_globals f) g0 = Ok glob ->
  forall x, is_global f x = true -> exists v, globals_get glob x = Some v.
Proof.
  intros H x Hx. apply is_global_In in Hx. apply in_map_iff in Hx. destruct Hx as (d & <- & Hd).
  exact (proj2 (check_globals_declared _ _ _ H) d Hd).
Qed.
