(* Proofs/VarScopeCheck.v — C06, scope soundness part 2: what `check_file = CkOk` guarantees about unscoped names.
   `shape env` projects the checker's environment to names and mutability (Model/VarScope.v).
   - `check_expr_vs`: an accepted expression reads only globals and names bound in the environment;
   - `check_stmt_vs` / `check_block_vs`: an accepted statement satisfies `vs_stmt`, and the environment the checker
     continues with has the shape `vs_env` computes;
   - `check_file_vs`: every stanza of the checked file satisfies the discipline (shorthand bodies: K4, not visited). *)
From TSG Require Import Model.Checker Model.VarScope Spec.Rules Proofs.BaseFacts Proofs.Checker Proofs.LocalCheck Proofs.VarScopeShape.

Section WithG.
  Variable cx : cctx.
  Variable G : ident -> bool.
  Hypothesis HG : forall x, G x = cx_global cx x.

  Lemma get_vs env x l r : unscoped_check_get cx env x l = Ok r -> G x || is_bound (shape env) x = true.
  Proof.
    unfold unscoped_check_get. rewrite HG. unfold cx_global. destruct (varmap_get (cx_globals cx) x); [reflexivity|].
    rewrite is_bound_shape. destruct (varmap_get env x); [reflexivity|discriminate].
  Qed.
  Lemma add_vs env x l v m env' : unscoped_check_add cx env x l v m = Ok env' ->
    negb (G x) && can_add (shape env) x = true /\ shape env' = lenv_bind (shape env) x m.
  Proof.
    unfold unscoped_check_add. rewrite HG. unfold cx_global. destruct (varmap_get (cx_globals cx) x); [discriminate|].
    destruct (varmap_add env x _ m) as [e1|] eqn:E; [|discriminate]. intros [= <-].
    destruct (varmap_add_inl _ _ _ _ _ E) as [H1 H2]. rewrite H1. auto.
  Qed.
  Lemma set_vs env x l v env' : unscoped_check_set cx env x l v = Ok env' ->
    negb (G x) && can_set (shape env) x = true /\ shape env' = shape env.
  Proof.
    unfold unscoped_check_set. rewrite HG. unfold cx_global. destruct (varmap_get (cx_globals cx) x); [discriminate|].
    destruct (varmap_set env x _) as [e1|] eqn:E; [|discriminate]. intros [= <-].
    destruct (varmap_set_inl _ _ _ _ E) as [H1 H2]. rewrite H1. auto.
  Qed.

  (* ---------------- expressions ---------------- *)
  Lemma elems_vs env es rs :
    Forall2 (fun e y => check_expr cx env e = Ok y) es rs ->
    Forall (fun e => forall env e' r, check_expr cx env e = Ok (e', r) -> vs_expr G true (shape env) e' = true) es ->
    forallb (vs_expr G true (shape env)) (map fst rs) = true.
  Proof.
    induction 1 as [|e [e' r] es rs He Hes IH]; intros HF; cbn [map forallb fst]; [reflexivity|].
    inversion HF as [|? ? H1 H2]; subst. rewrite (H1 _ _ _ He), (IH H2). reflexivity.
  Qed.

  Lemma check_expr_vs : forall e env e' r, check_expr cx env e = Ok (e', r) -> vs_expr G true (shape env) e' = true.
  Proof.
    induction e using expr_ind'; intros env e' r Hc.
    1-5: cbn [check_expr] in Hc; inversion Hc; subst; reflexivity.
    - rewrite check_expr_list in Hc. unfold check_elems in Hc. bind_ok Hc rs Hrs. inversion Hc; subst. apply mapM_ok in Hrs.
      cbn [vs_expr]. eapply elems_vs; eassumption.
    - rewrite check_expr_set in Hc. unfold check_elems in Hc. bind_ok Hc rs Hrs. inversion Hc; subst. apply mapM_ok in Hrs.
      cbn [vs_expr]. eapply elems_vs; eassumption.
    - rewrite check_expr_listcomp in Hc. unfold check_comp in Hc. bind_ok Hc a Ha. destruct a as [v' vr]. cbv beta iota in Hc.
      destruct (negb (er_local vr)); [discriminate|]. destruct (negb (is_list_q (er_quant vr))); [discriminate|].
      bind_ok Hc loopenv Hle. bind_ok Hc b Hb. destruct b as [el' er]. cbv beta iota in Hc. inversion Hc; subst.
      destruct (add_vs _ _ _ _ _ _ Hle) as [A1 A2]. apply andb_true_iff in A1. destruct A1 as [A1 _].
      pose proof (IHe1 _ _ _ Hb) as E1. rewrite A2 in E1. cbn [varmap_nested shape map lenv_bind app] in E1.
      cbn [vs_expr]. rewrite (IHe2 _ _ _ Ha), A1. exact E1.
    - rewrite check_expr_setcomp in Hc. unfold check_comp in Hc. bind_ok Hc a Ha. destruct a as [v' vr]. cbv beta iota in Hc.
      destruct (negb (er_local vr)); [discriminate|]. destruct (negb (is_list_q (er_quant vr))); [discriminate|].
      bind_ok Hc loopenv Hle. bind_ok Hc b Hb. destruct b as [el' er]. cbv beta iota in Hc. inversion Hc; subst.
      destruct (add_vs _ _ _ _ _ _ Hle) as [A1 A2]. apply andb_true_iff in A1. destruct A1 as [A1 _].
      pose proof (IHe1 _ _ _ Hb) as E1. rewrite A2 in E1. cbn [varmap_nested shape map lenv_bind app] in E1.
      cbn [vs_expr]. rewrite (IHe2 _ _ _ Ha), A1. exact E1.
    - cbn [check_expr] in Hc. unfold check_capture in Hc.
      destruct (name_index n (cx_stanza_names cx)); [|discriminate]. destruct (name_index n (cx_file_names cx)); [|discriminate].
      destruct (cx_file_quants cx); [|discriminate]. destruct (nth_error _ _); [|discriminate]. inversion Hc; subst. reflexivity.
    - cbn [check_expr] in Hc. bind_ok Hc r0 Hr. inversion Hc; subst. cbn [vs_expr]. eapply get_vs; eassumption.
    - rewrite check_expr_scoped in Hc. bind_ok Hc a Ha. destruct a as [s' sr]. cbv beta iota in Hc. inversion Hc; subst.
      cbn [vs_expr andb]. apply (IHe _ _ _ Ha).
    - rewrite check_expr_call in Hc. unfold check_elems in Hc. bind_ok Hc rs Hrs. inversion Hc; subst. apply mapM_ok in Hrs.
      cbn [vs_expr]. eapply elems_vs; eassumption.
    - cbn [check_expr] in Hc. inversion Hc; subst. reflexivity.
  Qed.

  Lemma check_exprs_vs env es rs : mapM (check_expr cx env) es = Ok rs -> forallb (vs_expr G true (shape env)) (map fst rs) = true.
  Proof.
    intros H. apply mapM_ok in H. induction H as [|e [e' r] es rs He Hes IH]; cbn [map forallb fst]; [reflexivity|].
    rewrite (check_expr_vs _ _ _ _ He), IH. reflexivity.
  Qed.
  Lemma check_attrs_vs env attrs ars : mapM (check_attr cx env) attrs = Ok ars -> forallb (vs_attr G true (shape env)) (map fst ars) = true.
  Proof.
    intros H. apply mapM_ok in H. induction H as [|a [a' u] attrs ars Ha Has IH]; cbn [map forallb fst]; [reflexivity|].
    rewrite IH, andb_true_r. destruct a as [name value]. cbn [check_attr] in Ha. bind_ok Ha p Hp. destruct p as [value' r].
    cbv beta iota in Ha. inversion Ha; subst. cbn [vs_attr]. eapply check_expr_vs; eassumption.
  Qed.
  Lemma check_cond_vs env c c' u : check_cond cx env c = Ok (c', u) -> vs_expr G true (shape env) (cond_expr c') = true.
  Proof.
    destruct c as [e l|e l|e l]; cbn [check_cond]; intros H; bind_ok H p Hp; destruct p as [e' r]; cbv beta iota in H;
      (destruct (negb (er_local r)); [discriminate|]); try (destruct (negb (is_opt_q (er_quant r))); [discriminate|]);
      inversion H; subst; cbn [cond_expr]; eapply check_expr_vs; eassumption.
  Qed.
  Lemma check_conds_vs env conds crs : mapM (check_cond cx env) conds = Ok crs ->
    forallb (fun c => vs_expr G true (shape env) (cond_expr c)) (map fst crs) = true.
  Proof.
    intros H. apply mapM_ok in H. induction H as [|c [c' u] conds crs Hc Hcs IH]; cbn [map forallb fst]; [reflexivity|].
    rewrite IH, andb_true_r. eapply check_cond_vs; eassumption.
  Qed.

  (* ---------------- variables ---------------- *)
  Lemma check_var_add_vs env v val m v' env' u : check_var_add cx env v val m = Ok (v', env', u) ->
    vs_var_add G true true (shape env) v' = true /\ shape env' = bind_var (shape env) v' m.
  Proof.
    destruct v as [x l|s x l]; cbn [check_var_add]; intros H.
    - bind_ok H a Ha. inversion H; subst. cbn [vs_var_add bind_var]. eapply add_vs; eassumption.
    - bind_ok H a Ha. destruct a as [s' sr]. cbv beta iota in H. inversion H; subst. cbn [vs_var_add bind_var andb]. split; [|reflexivity].
      eapply check_expr_vs; eassumption.
  Qed.
  Lemma check_var_set_vs env v val v' env' u : check_var_set cx env v val = Ok (v', env', u) ->
    vs_var_set G true true (shape env) v' = true /\ shape env' = shape env.
  Proof.
    destruct v as [x l|s x l]; cbn [check_var_set]; intros H.
    - bind_ok H a Ha. inversion H; subst. cbn [vs_var_set]. eapply set_vs; eassumption.
    - bind_ok H a Ha. destruct a as [s' sr]. cbv beta iota in H. inversion H; subst. cbn [vs_var_set andb]. split; [|reflexivity].
      eapply check_expr_vs; eassumption.
  Qed.

  (* ---------------- sequences ---------------- *)
  Lemma check_seq_block_vs body :
    Forall (fun s => forall env s' env' u, check_stmt cx env s = Ok (s', env', u) ->
                     vs_stmt G true true (shape env) s' = true /\ shape env' = vs_env (shape env) s') body ->
    forall env body' env' u, check_seq (check_stmt cx) env body = Ok (body', env', u) ->
    vs_block G true true (shape env) body' = true /\ shape env' = vs_block_env (shape env) body'.
  Proof.
    unfold vs_block, vs_block_env.
    induction 1 as [|s body Hs Hb IH]; cbn [check_seq]; intros env body' env' u H.
    - inversion H; subst. split; reflexivity.
    - bind_ok H a Ha. destruct a as [[s' env1] u1]. cbv beta iota in H. bind_ok H b Hb'. destruct b as [[l'' env2] u2].
      cbv beta iota in H. inversion H; subst. destruct (Hs _ _ _ _ Ha) as [S1 S2]. destruct (IH _ _ _ _ Hb') as [B1 B2].
      cbn [seq_eok fold_left]. rewrite S1, <- S2, B1, B2. split; reflexivity.
  Qed.
  Lemma check_seq_arms_vs {A} (f : cenv -> A -> ck (A * cenv * list ident)) (okA : lenv -> A -> bool) l :
    Forall (fun x => forall env x' env' u, f env x = Ok (x', env', u) -> okA (shape env) x' = true /\ shape env' = shape env) l ->
    forall env l' env' u, check_seq f env l = Ok (l', env', u) ->
    forallb (okA (shape env)) l' = true /\ shape env' = shape env.
  Proof.
    induction 1 as [|x l Hx Hl IH]; cbn [check_seq]; intros env l' env' u H.
    - inversion H; subst. split; reflexivity.
    - bind_ok H a Ha. destruct a as [[x' env1] u1]. cbv beta iota in H. bind_ok H b Hb. destruct b as [[l'' env2] u2].
      cbv beta iota in H. inversion H; subst. destruct (Hx _ _ _ _ Ha) as (O1 & L1).
      destruct (IH _ _ _ _ Hb) as [O2 L2]. rewrite L1 in O2, L2. cbn [forallb]. rewrite O1, O2. split; [reflexivity|exact L2].
  Qed.

  (* ---------------- statements ---------------- *)
  Lemma check_stmt_vs s : forall env s' env' u, check_stmt cx env s = Ok (s', env', u) ->
    vs_stmt G true true (shape env) s' = true /\ shape env' = vs_env (shape env) s'.
  Proof.
    induction s using stmt_ind'; intros env s' env' u Hc.
    - cbn [check_stmt] in Hc. bind_ok Hc p Hp. destruct p as [e' r]. cbv beta iota in Hc. bind_ok Hc b Hb. destruct b as [[v' env1] u1].
      cbv beta iota in Hc. inversion Hc; subst. destruct (check_var_add_vs _ _ _ _ _ _ _ Hb) as [V1 V2].
      cbn [vs_stmt vs_env]. rewrite (check_expr_vs _ _ _ _ Hp), V1, V2. split; reflexivity.
    - cbn [check_stmt] in Hc. bind_ok Hc p Hp. destruct p as [e' r]. cbv beta iota in Hc. bind_ok Hc b Hb. destruct b as [[v' env1] u1].
      cbv beta iota in Hc. inversion Hc; subst. destruct (check_var_add_vs _ _ _ _ _ _ _ Hb) as [V1 V2].
      cbn [vs_stmt vs_env]. rewrite (check_expr_vs _ _ _ _ Hp), V1, V2. split; reflexivity.
    - cbn [check_stmt] in Hc. bind_ok Hc p Hp. destruct p as [e' r]. cbv beta iota in Hc. bind_ok Hc b Hb. destruct b as [[v' env1] u1].
      cbv beta iota in Hc. inversion Hc; subst. destruct (check_var_set_vs _ _ _ _ _ _ Hb) as [V1 V2].
      cbn [vs_stmt vs_env]. rewrite (check_expr_vs _ _ _ _ Hp), V1, V2. split; reflexivity.
    - cbn [check_stmt] in Hc. bind_ok Hc b Hb. destruct b as [[v' env1] u1]. cbv beta iota in Hc. inversion Hc; subst.
      destruct (check_var_add_vs _ _ _ _ _ _ _ Hb) as [V1 V2]. cbn [vs_stmt vs_env]. rewrite V1, V2. split; reflexivity.
    - cbn [check_stmt] in Hc. bind_ok Hc p Hp. destruct p as [e' r]. cbv beta iota in Hc. bind_ok Hc ars Hars. inversion Hc; subst.
      cbn [vs_stmt vs_env]. rewrite (check_expr_vs _ _ _ _ Hp), (check_attrs_vs _ _ _ Hars). split; reflexivity.
    - cbn [check_stmt] in Hc. bind_ok Hc p Hp. destruct p as [e' r]. cbv beta iota in Hc. bind_ok Hc p2 Hp2. destruct p2 as [e2 r2].
      cbv beta iota in Hc. inversion Hc; subst. cbn [vs_stmt vs_env]. rewrite (check_expr_vs _ _ _ _ Hp), (check_expr_vs _ _ _ _ Hp2).
      split; reflexivity.
    - cbn [check_stmt] in Hc. bind_ok Hc p Hp. destruct p as [e' r]. cbv beta iota in Hc. bind_ok Hc p2 Hp2. destruct p2 as [e2 r2].
      cbv beta iota in Hc. bind_ok Hc ars Hars. inversion Hc; subst. cbn [vs_stmt vs_env].
      rewrite (check_expr_vs _ _ _ _ Hp), (check_expr_vs _ _ _ _ Hp2), (check_attrs_vs _ _ _ Hars). split; reflexivity.
    - rewrite check_stmt_scan in Hc. bind_ok Hc p Hp. destruct p as [v' r]. cbv beta iota in Hc.
      destruct (negb (er_local r)); [discriminate|]. bind_ok Hc b Hb. destruct b as [[arms' env1] u1]. cbv beta iota in Hc.
      inversion Hc; subst. cbn [vs_stmt vs_env]. rewrite (check_expr_vs _ _ _ _ Hp). cbn [andb].
      eapply (check_seq_arms_vs (scan_arm cx)
               (fun L (arm : N * list stmt * loc) => let '(_, body, _) := arm in seq_eok (vs_stmt G true true) vs_env ([] :: L) body));
        [|exact Hb].
      eapply Forall_impl; [|exact H]. intros [[rx body] al] Hbody env0 x' env2 u2 Harm. unfold scan_arm in Harm.
      destruct (nullable_rx cx rx); [discriminate|]. bind_ok Harm c Hc'. destruct c as [[body' env3] u3]. cbv beta iota in Harm.
      inversion Harm; subst. unfold check_block in Hc'.
      destruct (check_seq_block_vs _ Hbody _ _ _ _ Hc') as [B1 B2]. cbn [varmap_nested shape map] in B1, B2.
      split; [exact B1|]. unfold varmap_pop. rewrite shape_tl. fold (shape env0) in B2. rewrite B2, tl_vs_block_env. reflexivity.
    - cbn [check_stmt] in Hc. bind_ok Hc rs Hrs. inversion Hc; subst. cbn [vs_stmt vs_env]. rewrite (check_exprs_vs _ _ _ Hrs).
      split; reflexivity.
    - rewrite check_stmt_if in Hc. bind_ok Hc b Hb. destruct b as [[arms' env1] u1]. cbv beta iota in Hc.
      inversion Hc; subst. cbn [vs_stmt vs_env].
      eapply (check_seq_arms_vs (if_arm cx)
               (fun L (arm : list cond * list stmt * loc) => let '(conds, body, _) := arm in
                  forallb (fun c => vs_expr G true L (cond_expr c)) conds && seq_eok (vs_stmt G true true) vs_env ([] :: L) body));
        [|exact Hb].
      eapply Forall_impl; [|exact H]. intros [[conds body] al] Hbody env0 x' env2 u2 Harm. unfold if_arm in Harm.
      bind_ok Harm crs Hcrs. bind_ok Harm c Hc'. destruct c as [[body' env3] u3]. cbv beta iota in Harm. inversion Harm; subst.
      unfold check_block in Hc'.
      destruct (check_seq_block_vs _ Hbody _ _ _ _ Hc') as [B1 B2]. cbn [varmap_nested shape map] in B1, B2.
      split; [rewrite (check_conds_vs _ _ _ Hcrs); exact B1|].
      unfold varmap_pop. rewrite shape_tl. fold (shape env0) in B2. rewrite B2, tl_vs_block_env. reflexivity.
    - rewrite check_stmt_for in Hc. bind_ok Hc p Hp. destruct p as [v' r]. cbv beta iota in Hc.
      destruct (negb (er_local r)); [discriminate|]. destruct (negb (is_list_q (er_quant r))); [discriminate|].
      bind_ok Hc loop_env Hle. bind_ok Hc b Hb. destruct b as [[body' env1] u1]. cbv beta iota in Hc. inversion Hc; subst.
      cbn [vs_stmt vs_env]. rewrite (check_expr_vs _ _ _ _ Hp). cbn [andb]. unfold check_block in Hb.
      destruct (add_vs _ _ _ _ _ _ Hle) as [A1 A2]. apply andb_true_iff in A1. destruct A1 as [A1 _].
      destruct (check_seq_block_vs _ H _ _ _ _ Hb) as [B1 B2]. rewrite A2 in B1, B2.
      cbn [varmap_nested shape map lenv_bind app] in B1, B2. fold (shape env) in B1, B2. rewrite A1. cbn [andb].
      split; [exact B1|]. unfold varmap_pop. rewrite shape_tl, B2, tl_vs_block_env. reflexivity.
  Qed.

  Lemma check_block_vs body env body' env' u : check_block cx env body = Ok (body', env', u) ->
    vs_block G true true (shape env) body' = true /\ shape env' = vs_block_env (shape env) body'.
  Proof. unfold check_block. apply check_seq_block_vs. apply Forall_forall. intros s _. apply check_stmt_vs. Qed.
End WithG.

Lemma check_stanzas_vs order q globals G :
  (forall i names x, G x = cx_global (stanza_ctx q globals i names) x) ->
  forall sts i sts', check_stanzas order q globals i sts = Ok sts' ->
  forallb (vs_stanza G true true) sts' = true.
Proof.
  intros HG. induction sts as [|st sts IH]; cbn [check_stanzas]; intros i sts' H.
  - inversion H; subst. reflexivity.
  - bind_ok H st' Hst. bind_ok H sts'' Hsts. inversion H; subst. cbn [forallb]. rewrite (IH _ _ Hsts), andb_true_r.
    unfold check_stanza in Hst. destruct (nth_error (qt_stanza_names q) i) as [names|]; [|discriminate].
    destruct (name_index FULL_MATCH (qt_file_names q)); [|discriminate]. bind_ok Hst a Ha. destruct a as [[stmts' env'] used].
    cbv beta iota in Hst. bind_ok Hst un Hun. destruct un; [|discriminate]. inversion Hst; subst. unfold vs_stanza. cbn [st_stmts].
    apply (check_block_vs _ G (HG i names) _ _ _ _ _ Ha).
Qed.

(* the checked file: every stanza satisfies the scope discipline with its declared globals *)
Theorem check_file_vs_with order q f f' : check_file_with order q f = CkOk f' -> vs_stanzas (is_global f') true true f' = true.
Proof.
  unfold check_file_with, check_file_ck. intros H.
  destruct (check_global_table (f_globals f) [[]]) as [globals| | |] eqn:Eg; cbn [obind to_result] in H; try discriminate.
  destruct (check_stanzas order q globals 0 (f_stanzas f)) as [sts'| | |] eqn:Es; cbn [obind to_result] in H; try discriminate.
  inversion H; subst. unfold vs_stanzas. cbn [f_stanzas].
  destruct (global_table_shape _ _ _ Eg) as (fr' & -> & Hk & Hl). cbn [map app] in Hk.
  eapply check_stanzas_vs; [|exact Es].
  intros i names x. unfold cx_global, stanza_ctx. cbn [cx_globals].
  destruct (is_global _ x) eqn:E.
  - apply is_global_In in E. cbn [f_globals] in E. rewrite <- Hk in E. apply varmap_get_single in E. destruct E as [v ->]. reflexivity.
  - destruct (varmap_get [fr'] x) as [v|] eqn:E2; [|reflexivity].
    assert (Hin : In x (map fst fr')) by (apply varmap_get_single; eauto). rewrite Hk in Hin.
    apply (is_global_In {| f_globals := f_globals f; f_inherited := f_inherited f; f_shorthands := f_shorthands f; f_stanzas := sts' |}) in Hin.
    rewrite Hin in E. discriminate.
Qed.
Lemma check_file_globals_with order q f f' : check_file_with order q f = CkOk f' ->
  f_globals f' = f_globals f /\ f_shorthands f' = f_shorthands f /\ f_inherited f' = f_inherited f.
Proof.
  unfold check_file_with, check_file_ck. intros H.
  destruct (check_global_table (f_globals f) [[]]) as [globals| | |] eqn:Eg; cbn [obind to_result] in H; try discriminate.
  destruct (check_stanzas order q globals 0 (f_stanzas f)) as [sts'| | |] eqn:Es; cbn [obind to_result] in H; try discriminate.
  inversion H; subst. auto.
Qed.
