(* Proofs/ScThSwap.v — C08 WITH scoped variables inside thunks, part 2: deltas whose thunks have KINDS, and
     block_shift3 : the same block of the fragment `tstmt` started from another state succeeds/fails alike and appends the
                    same delta (Proofs/ScPermSwap.v: delta2, extends2) with graph ids and store locations shifted;
     same_size3   : started from two states of equal sizes it appends the very same delta. *)
From TSG Require Import Model.Lazy Proofs.BaseFacts Proofs.Containers Proofs.MonadFacts Proofs.StrictMeta Proofs.LazyMeta Proofs.Cancel
  Proofs.SLForce Proofs.SLExpr Proofs.BlockPermRen Proofs.BlockPermSim Proofs.BlockPermDepth Proofs.BlockPermSwap Proofs.ScPermSound Proofs.ScPermSim Proofs.ScPermSwap Proofs.ScThSim.

(* a delta created at sizes (gb, kb); ks = the kinds of its thunks (true: local to the block, scoped-free; false: anything of the fragment) *)
Definition delta_ok3 (eaok : amap -> Prop) (okfn : ident -> Prop) (n0 gb kb : N) (d : delta2) : Prop :=
  exists ks : list bool,
    let n := gb + N.of_nat (length (e_nodes d)) in
    length (e_thunks d) = length ks /\
    Forall (fun nd => g_edges nd = [] /\ amap_plain (g_attrs nd)) (e_nodes d) /\
    (forall j th, nth_error (e_thunks d) j = Some th -> thk okfn n0 gb kb n ks j th) /\
    Forall (fun st => is_estmt st /\ sty eaok okfn n0 gb kb n ks st) (e_edges d) /\
    Forall (fun st => is_astmt st /\ sty eaok okfn n0 gb kb n ks st) (e_attrs d) /\
    Forall (fun st => is_pstmt st /\ sty eaok okfn n0 gb kb n ks st) (e_prints d) /\
    Forall (defall (LAk kb ks)) (e_defs d).

(* renamings that agree on the delta's graph ids and on its locations rename it alike *)
Lemma thk_ext okfn n0 gb kb n ks j th rg rg' rl rl' : (forall i, Dn n0 gb n i -> rg i = rg' i) -> (forall l, LAk kb ks l -> rl l = rl' l) ->
  thk okfn n0 gb kb n ks j th -> thren rg rl th = thren rg' rl' th.
Proof.
  intros HD HL. unfold thk. destruct (nth_error ks j) as [[|]|] eqn:Ej; [| |contradiction].
  - apply (thren_ext okfn (Dn n0 gb n) (LLk kb (firstn j ks))); [exact HD|]. intros l Hl. apply HL, LLk_LAk. apply (LLk_firstn kb ks j l Hl).
  - destruct th as [st dbg]. cbn [th_state]. destruct st; try contradiction. intros H. unfold thren. cbn [th_state th_dbg tsren]. f_equal. f_equal.
    apply (mvall2_ext okfn (Dn n0 gb n) (LLk kb (firstn j ks)) (LAk kb (firstn j ks))); [exact HD| | |exact H].
    + intros l Hl. apply HL, LLk_LAk. apply (LLk_firstn kb ks j l Hl).
    + intros l Hl. apply HL. apply (LAk_firstn kb ks j l Hl).
Qed.
Lemma dren2_ext3 eaok okfn n0 gb kb rg rg' rl rl' d : delta_ok3 eaok okfn n0 gb kb d ->
  (forall i, (i < n0 \/ (gb <= i /\ i < gb + N.of_nat (length (e_nodes d)))) -> rg i = rg' i) ->
  (forall l, kb <= l /\ l < kb + N.of_nat (length (e_thunks d)) -> rl l = rl' l) -> dren2 rg rl d = dren2 rg' rl' d.
Proof.
  intros (ks & Hlen & _ & Ht & He & Ha & Hp & Hd) HD HL. cbv zeta in *.
  assert (HL' : forall l, LAk kb ks l -> rl l = rl' l) by (intros l [H1 H2]; apply HL; rewrite Hlen; lia).
  assert (Hst : forall st, sty eaok okfn n0 gb kb (gb + N.of_nat (length (e_nodes d))) ks st -> lsren rg rl st = lsren rg' rl' st).
  { intros st Hs. apply (ms2all_ext eaok okfn _ _ _ rg rg' rl rl' st HD (fun l Hl => HL' l (LLk_LAk kb ks l Hl)) HL' Hs). }
  unfold dren2. f_equal.
  - apply map_ext_in. intros th Hin. apply In_nth_error in Hin as [j Hj]. apply (thk_ext okfn n0 gb kb _ ks j th rg rg' rl rl' HD HL' (Ht j th Hj)).
  - eapply map_ext_Forall; [exact He|]. intros st [_ Hs]. apply Hst, Hs.
  - eapply map_ext_Forall; [exact Ha|]. intros st [_ Hs]. apply Hst, Hs.
  - eapply map_ext_Forall; [exact Hp|]. intros st [_ Hs]. apply Hst, Hs.
  - eapply map_ext_Forall; [exact Hd|]. intros df Hdf. exact (dfren_ext _ rg rg' rl rl' df HL' Hdf).
Qed.

Section Blocks3.
  Context {rx : Type}.
  Variables (t : tree) (fl : file) (cfg : config) (glob : globals) (regexes : list rx)
            (find : rx -> str -> option (list (option (N * N))))
            (call : ident -> graph -> list value -> res (value * graph)).
  Variable eaok : amap -> Prop.
  Variable okfn : ident -> Prop.
  Variable tnt : ident -> bool.
  Variable n0 : N.
  Hypothesis Hea : forall l : loc, eaok (match c_loc_attr cfg with Some k => [(k, VStr (loc_text l))] | None => [] end).
  Hypothesis Hcall : forall f, okfn f -> call_ok call f.
  Hypothesis Hglob : forall name v, globals_get glob name = Some v -> vall (fun i => i < n0) v.

  (* a block of the fragment *)
  Definition block_ok3 (st : stanza) (qm : qmatch) : Prop :=
    All (tstmt fl okfn tnt qm) (st_stmts st) /\ Forall (fun sh => All (lattr okfn tnt qm) (sh_attrs sh)) (f_shorthands fl).

  Notation run st qm fuel := (lexec_stanza t fl cfg glob regexes find call fuel st qm).

  Lemma Rk_start B1 B2 : n0 <= gn B1 -> n0 <= gn B2 -> one_frame B1 -> one_frame B2 ->
    Rk eaok okfn tnt n0 (gn B1) (sn B1) (gn B2) (sn B2) (l_graph B1) (l_graph B2) (l_store B1) (l_store B2) (l_edges B1) (l_edges B2)
      (l_attrs B1) (l_attrs B2) (l_prints B1) (l_prints B2) (l_scoped B1) (l_scoped B2) (l_prev B1) (l_prev B2) (l_params B1) (l_params B2) []
      (wlocals (varmap_clear (l_locals B1)) B1) (wlocals (varmap_clear (l_locals B2)) B2).
  Proof.
    intros H1 H2 F1 F2. unfold one_frame in *. destruct (l_locals B1) as [|f1 [|]]; try discriminate. destruct (l_locals B2) as [|f2 [|]]; try discriminate.
    cbn [varmap_clear]. unfold Rk, gn, sn. cbn [wlocals l_graph l_locals l_store l_scoped l_edges l_attrs l_prints l_params l_prev].
    split; [exists []; rewrite !app_nil_r; repeat split; constructor|].
    split; [exists []; rewrite !app_nil_r; cbn [map length]; repeat split; intros j th Hj; destruct j; discriminate|].
    split; [split; [reflexivity|repeat constructor]|].
    split; [exists []; rewrite !app_nil_r; repeat split; constructor|]. split; [exists []; rewrite !app_nil_r; repeat split; constructor|].
    split; [exists []; rewrite !app_nil_r; repeat split; constructor|]. split; [exists []; rewrite !app_nil_r; repeat split; constructor|].
    split; [exists []; repeat split; constructor|]. split; reflexivity.
  Qed.

  Theorem block_shift3 st qm fuel B1 B2 p : block_ok3 st qm ->
    n0 <= gn B1 -> n0 <= gn B2 -> one_frame B1 -> one_frame B2 -> allunf (l_scoped B1) -> allunf (l_scoped B2) ->
    match run st qm fuel B1 p with
    | Ok (_, s1', p') =>
        exists d s2', run st qm fuel B2 p = Ok (tt, s2', p') /\ extends2 B1 d s1' /\
                      extends2 B2 (dren2 (shg (gn B1) (gn B2)) (shl (sn B1) (sn B2)) d) s2' /\ delta_ok3 eaok okfn n0 (gn B1) (sn B1) d
    | Err e => run st qm fuel B2 p = Err e
    | Panic x => run st qm fuel B2 p = Panic x
    | OutOfFuel => run st qm fuel B2 p = OutOfFuel
    end.
  Proof.
    intros [Hst Hsh] H1 H2 F1 F2 U1 U2. rewrite (run_cleared t fl cfg glob regexes find call st qm fuel B1 p), (run_cleared t fl cfg glob regexes find call st qm fuel B2 p).
    pose proof (bsim3_lexec_stanza eaok okfn tnt n0 (gn B1) (sn B1) (gn B2) (sn B2) H1 H2 (l_graph B1) (l_graph B2) (l_store B1) (l_store B2) (l_edges B1) (l_edges B2)
      (l_attrs B1) (l_attrs B2) (l_prints B1) (l_prints B2) (l_scoped B1) (l_scoped B2) (l_prev B1) (l_prev B2) (l_params B1) (l_params B2)
      eq_refl eq_refl eq_refl eq_refl U1 U2 t fl cfg glob regexes find call Hcall Hglob Hea qm Hsh fuel st 0 [] Hst
      _ _ p [] (Rk_start B1 B2 H1 H2 F1 F2) (N.le_0_l _) (prefix_refl _)) as Hb.
    pose proof (keepD_lexec_stanza t fl cfg glob regexes find call fuel st qm (wlocals (varmap_clear (l_locals B1)) B1) p) as Hd1.
    pose proof (keepD_lexec_stanza t fl cfg glob regexes find call fuel st qm (wlocals (varmap_clear (l_locals B2)) B2) p) as Hd2.
    destruct (run st qm fuel (wlocals (varmap_clear (l_locals B1)) B1) p) as [[[u s1'] p']|e|x|]; try exact Hb.
    destruct Hb as ([] & s2' & ks & E2 & HR & Hpa & Hg & _ & _). specialize (Hd1 _ _ _ eq_refl). specialize (Hd2 _ _ _ E2).
    destruct HR as ((gs & Eg1 & Eg2 & Hpl) & (ts & Es1 & Es2 & Hlen & Hth) & _ & (es & Ee1 & Ee2 & Ke & He) & (as_ & Ea1 & Ea2 & Ka & Ha) & (ps & Ep1 & Ep2 & Kp & Hp) &
                    (pa & Epa1 & Epa2 & _) & (defs & Ec1 & Ec2 & Hdf) & Hpv1 & Hpv2).
    exists {| e_nodes := gs; e_thunks := ts; e_edges := es; e_attrs := as_; e_prints := ps; e_defs := defs |}, s2'. split; [exact E2|].
    cbn [wlocals l_params l_locals] in Hpa, Hd1, Hd2.
    assert (Hpa0 : pa = []) by (rewrite Epa1 in Hpa; rewrite <- (app_nil_r (l_params B1)) in Hpa at 2; apply app_inv_head in Hpa; exact Hpa).
    assert (Hlen1 : length (varmap_clear (l_locals B1)) = length (l_locals B1)) by (destruct (l_locals B1); reflexivity).
    assert (Hlen2 : length (varmap_clear (l_locals B2)) = length (l_locals B2)) by (destruct (l_locals B2); reflexivity).
    split; [|split].
    - unfold extends2. cbn [e_nodes e_thunks e_edges e_attrs e_prints e_defs]. repeat split; try assumption; congruence.
    - unfold extends2, dren2. cbn [e_nodes e_thunks e_edges e_attrs e_prints e_defs]. subst pa. cbn [map] in Epa2. rewrite app_nil_r in Epa2.
      repeat split; try assumption; congruence.
    - exists ks. cbn [e_nodes e_thunks e_edges e_attrs e_prints e_defs]. cbv zeta.
      assert (Egn : gn s1' = gn B1 + N.of_nat (length gs)) by (unfold gn; rewrite Eg1, app_length; lia). rewrite <- Egn.
      assert (Hzip : forall (K : lstmt -> Prop) (Q : lstmt -> Prop) l, Forall K l -> Forall Q l -> Forall (fun st => K st /\ Q st) l).
      { intros K Q l H1' H2'. rewrite Forall_forall in *. intros x Hx. split; auto. }
      split; [exact Hlen|]. split; [exact Hpl|]. split; [exact Hth|]. split; [apply Hzip; assumption|]. split; [apply Hzip; assumption|]. split; [apply Hzip; assumption|exact Hdf].
  Qed.

  Corollary same_size3 st qm fuel B1 B2 p : block_ok3 st qm ->
    n0 <= gn B1 -> gn B2 = gn B1 -> sn B2 = sn B1 -> one_frame B1 -> one_frame B2 -> allunf (l_scoped B1) -> allunf (l_scoped B2) ->
    match run st qm fuel B1 p with
    | Ok (_, s1', p') => exists d s2', run st qm fuel B2 p = Ok (tt, s2', p') /\ extends2 B1 d s1' /\ extends2 B2 d s2' /\ delta_ok3 eaok okfn n0 (gn B1) (sn B1) d
    | Err e => run st qm fuel B2 p = Err e
    | Panic x => run st qm fuel B2 p = Panic x
    | OutOfFuel => run st qm fuel B2 p = OutOfFuel
    end.
  Proof.
    intros Hok H1 Eg Es F1 F2 U1 U2. pose proof (block_shift3 st qm fuel B1 B2 p Hok H1 ltac:(lia) F1 F2 U1 U2) as H.
    destruct (run st qm fuel B1 p) as [[[u s1'] p']|e|x|]; try exact H. destruct H as (d & s2' & E2 & X1 & X2 & Od).
    exists d, s2'. split; [exact E2|]. split; [exact X1|]. split; [|exact Od]. rewrite Eg, Es in X2.
    rewrite (dren2_ext3 eaok okfn n0 (gn B1) (sn B1) _ (fun i => i) _ (fun l => l) d Od) in X2.
    - rewrite dren2_id in X2. exact X2.
    - intros i _. unfold shg. destruct (N.ltb_spec i (gn B1)); lia.
    - intros l [Hl _]. unfold shl. lia.
  Qed.
End Blocks3.
