(* Proofs/CiteRun.v — C20, lazy mode: which statement the error of a whole lazy execution cites
   (run-level statements of Proofs/CiteEval.v, CiteStmt.v, CiteExec.v). *)
From TSG Require Import Model.Strict Model.Lazy.
From TSG Require Import Proofs.BaseFacts Proofs.MonadFacts Proofs.StrictMeta Proofs.LazyMeta Proofs.Captures Proofs.ErrorCtx Proofs.ErrorCtxValid.
From TSG Require Import Proofs.CiteEval Proofs.CiteStmt Proofs.CiteExec.

Section CiteRun.
  Context {rx : Type}.
  Variables (t : tree) (fl : file) (cfg : config) (glob : globals) (regexes : list rx)
            (find : rx -> str -> option (list (option (N * N))))
            (call : ident -> graph -> list value -> res (value * graph)).
  Hypothesis Hcall : call_errors_base call.

  Notation LM := (M lstate).
  Notation origin' := (origin t fl call).

  (* ---- (1) one deferred statement, from any state ---- *)
  Theorem eval_lstmt_cites fuel st s p e :
    eval_lstmt t fl call fuel st s p = Err e ->
    cancelled e \/
    (exists e1, e = EInContext (CtxStmts [ls_dbg st]) e1 /\ unwrapped e1) \/
    (exists k prev, e = EInContext (CtxStmts [prev; ls_dbg st]) EDuplicateAttribute /\ key_sets st k /\
                    (In (k, prev) (l_prev s) \/ prev = ls_dbg st)) \/
    origin' s e.
  Proof.
    intros H. set (D := fun (k : elem_key) (d : stmt_ctx) => In (k, d) (l_prev s) \/ d = ls_dbg st).
    assert (HI : inv s (prevs_in D) s).
    { split; [apply same_dbgs_refl|]. unfold prevs_in. rewrite Forall_forall. intros [k d] Hx. left. exact Hx. }
    pose proof (h_eval_lstmt t fl call Hcall s D fuel st (fun k _ => or_intror eq_refl) s p HI) as K. rewrite H in K. exact K.
  Qed.

  (* ---- (2) values: thunks and scoped definitions ---- *)
  Theorem eval_lv_cites fuel lv s p e :
    eval_lv t fl call fuel lv s p = Err e -> cancelled e \/ unwrapped e \/ origin' s e.
  Proof.
    intros H. pose proof (ev_eval_lv t fl call Hcall s (fun _ => True) fuel lv s p (conj (same_dbgs_refl s) I)) as K.
    rewrite H in K. destruct K as [K|[[_ K]|K]]; auto.
  Qed.
  Theorem force_thunk_cites fuel loc s p e :
    force_thunk t fl call fuel loc s p = Err e ->
    exists fuel' th, fuel = S fuel' /\ nth_error (l_store s) (N.to_nat loc) = Some th /\
      (cancelled e \/
       (exists e1, e = EInContext (CtxStmts [th_dbg th]) e1 /\ unwrapped e1 /\ thunk_body t fl call fuel' loc th s p = Err e1) \/
       (thunk_body t fl call fuel' loc th s p = Err e /\ origin' s e)).
  Proof.
    intros H. destruct fuel as [|fuel]; [discriminate|]. rewrite force_thunk_unfold in H. unfold bind at 1, get_state at 1 in H.
    destruct (nth_error (l_store s) (N.to_nat loc)) as [th|] eqn:En; [|discriminate]. exists fuel, th. split; [reflexivity|]. split; [reflexivity|].
    apply ctx_wrap_err in H as (e1 & Hb & ->).
    pose proof (ev_thunk_body t fl call s (fun _ => True) fuel loc th (ev_eval_lv t fl call Hcall s (fun _ => True) fuel) s p (conj (same_dbgs_refl s) I)) as K.
    rewrite Hb in K. destruct K as [[l ->]|[[_ Hu]|Ho]].
    - left. exists l. reflexivity.
    - right. left. exists e1. split; [apply unwrapped_add_stmts, Hu|]. split; assumption.
    - right. right. rewrite (origin_add_context _ _ _ _ _ _ Ho). split; assumption.
  Qed.
  Theorem force_thunk_error_origin fuel loc s p e :
    force_thunk t fl call fuel loc s p = Err e -> cancelled e \/ origin' s e.
  Proof.
    intros H. pose proof (ev_force_thunk t fl call Hcall s (fun _ => True) true fuel loc s p (conj (same_dbgs_refl s) I)) as K.
    rewrite H in K. destruct K as [K|[[K _]|K]]; [left; exact K|discriminate|right; exact K].
  Qed.
  (* the innermost context wins: no with_context changes an error that cites a creator *)
  Theorem origin_survives_context (A : Type) c (m : LM A) s0 s p e :
    m s p = Err e -> origin' s0 e -> ctx_wrap c m s p = Err e.
  Proof. intros H Ho. unfold ctx_wrap. rewrite H. rewrite (origin_add_context _ _ _ _ _ _ Ho). reflexivity. Qed.

  (* ---- (3) the execution phase of a whole file ---- *)
  Definition lexec_blocks (fuel : nat) (ms : list (N * qmatch)) : LM unit :=
    iterM (fun pm : N * qmatch =>
             match nth_error (f_stanzas fl) (N.to_nat (fst pm)) with
             | Some st => lexec_stanza t fl cfg glob regexes find call fuel st (snd pm)
             | None => panic P_stanza_index
             end) ms.
  Lemma lexec_file_unfold fuel ms :
    lexec_file t fl cfg glob regexes find call fuel ms = (lexec_blocks fuel ms ;;; evaluate_phase t fl call (fuel + default_eval_fuel)).
  Proof. reflexivity. Qed.

  Notation forced' := (forced t fl call).
  (* e cites a statement of an executed (stanza, match) block: a top-level statement or a scan-arm child *)
  Definition cites_executed (ms : list (N * qmatch)) (e : exec_error) : Prop :=
    exists i st m n rest, In (i, m) ms /\ nth_error (f_stanzas fl) (N.to_nat i) = Some st /\
      nodes_for_capture m (st_full_file_idx st) = n :: rest /\
      (top_cited t fl cfg glob regexes find call (st_start st) n m (st_stmts st) e \/
       arm_cited t fl cfg glob regexes find call (st_start st) n m (flat_map arm_stmts (st_stmts st)) e).

  Theorem lexec_blocks_error_cite fuel ms s p e :
    lexec_blocks fuel ms s p = Err e -> cancelled e \/ forced' e \/ cites_executed ms e.
  Proof.
    intros H. unfold lexec_blocks in H. apply iterM_err in H as ([i m] & s' & p' & Hin & H). cbn [fst snd] in H.
    destruct (nth_error (f_stanzas fl) (N.to_nat i)) as [st|] eqn:Est; [|discriminate].
    destruct (nodes_for_capture m (st_full_file_idx st)) as [|n rest] eqn:En.
    - unfold lexec_stanza in H. apply bind_err in H as [H|(u & s1 & p1 & _ & H)].
      + apply poll_err in H as (-> & _). left. exists L_matches. reflexivity.
      + apply bind_err in H as [H|(u' & s2 & p2 & _ & H)]; [exfalso; eapply lclear_frame_no_err, H|]. cbv zeta in H. rewrite En in H. discriminate.
    - destruct (lazy_stanza_error_cite t fl cfg glob regexes find call Hcall (st_start st) n m fuel st s' p' e rest eq_refl En H) as [Hc|[Hf|Ht]];
        [left; exact Hc|right; left; exact Hf|]. right. right. exists i, st, m, n, rest. auto.
  Qed.

  (* the execution phase does not touch prev_element_debug_info *)
  Definition keeps_prev {A} (c : LM A) : Prop := forall s p a s' p', c s p = Ok (a, s', p') -> l_prev s' = l_prev s.
  Lemma lexec_blocks_keeps_prev fuel ms : keeps_prev (lexec_blocks fuel ms).
  Proof.
    assert (Hret : forall A (a : A), keeps_prev (@ret lstate A a)) by (intros A a s p a' s' p' H; inversion H; reflexivity).
    assert (Hbind : forall A B (c : LM A) (f : A -> LM B), keeps_prev c -> (forall a, keeps_prev (f a)) -> keeps_prev (bind c f)).
    { intros A B c f Hc Hf s p b s' p' H. apply bind_ok in H as (a & s1 & p1 & H1 & H2). rewrite (Hf _ _ _ _ _ _ H2). eapply Hc, H1. }
    unfold lexec_blocks. apply (Phi_iterM (fun A c => keeps_prev c) Hret Hbind). intros pm.
    destruct (nth_error (f_stanzas fl) (N.to_nat (fst pm))) as [st|]; [|intros s p a s' p' H; discriminate].
    apply (Phi_lexec_stanza t fl cfg glob regexes find call (fun A c => keeps_prev c) Hret Hbind) with (good_ctx := fun _ => True); try exact I; try (intros; exact I).
    - intros A e _ s p a s' p' H. discriminate.
    - intros A a b e _ s p a' s' p' H. discriminate.
    - intros A x s p a s' p' H. discriminate.
    - intros A s p a s' p' H. discriminate.
    - intros A c c0 _ Hc s p a s' p' H. apply ctx_wrap_ok in H. eapply Hc, H.
    - intros s p a s' p' H. inversion H; reflexivity.
    - intros l s p a s' p' H. inversion H; reflexivity.
    - intros l s p a s' p' H. inversion H; reflexivity.
    - intros l s p a s' p' H. inversion H; reflexivity.
    - intros x s p a s' p' H. cbv [push_lstmt Lazy.upd modify] in H. destruct x; inversion H; reflexivity.
    - intros l s p a s' p' H. inversion H; reflexivity.
    - intros l s p a s' p' H. apply poll_ok in H as (-> & _). reflexivity.
    - intros s p a s' p' H. cbv [ladd_node bind get_state set_lgraph Lazy.upd modify ret] in H. destruct (add_graph_node (l_graph s)). inversion H; reflexivity.
    - intros n k v s p a s' p' H. cbv [ladd_node_attr bind get_state set_lgraph Lazy.upd modify fail panic] in H.
      destruct (gnode_at (l_graph s) n); [|discriminate]. destruct (attrs_add _ k v) as [m' c]. destruct c; [discriminate|]. inversion H; reflexivity.
    - intros f args s p a s' p' H. cbv [lcall_function bind get_state set_lgraph Lazy.upd modify ret fail panic out_of_fuel] in H.
      destruct (call f (l_graph s) args) as [[v g']| | |]; try discriminate. inversion H; reflexivity.
  Qed.

  (* ---- both phases ---- *)
  Theorem lexec_file_error_cite fuel ms s p e :
    lexec_file t fl cfg glob regexes find call fuel ms s p = Err e ->
    cancelled e \/ forced' e \/ cites_executed ms e \/
    exists s1 p1, lexec_blocks fuel ms s p = Ok (tt, s1, p1) /\ l_prev s1 = l_prev s /\
      (unwrapped e \/ cites_deferred (l_prev s) (l_edges s1 ++ l_attrs s1 ++ l_prints s1) e).
  Proof.
    intros H. rewrite lexec_file_unfold in H. apply bind_err in H as [H|([] & s1 & p1 & H1 & H)].
    - destruct (lexec_blocks_error_cite _ _ _ _ _ H) as [K|[K|K]]; auto.
    - pose proof (lexec_blocks_keeps_prev fuel ms _ _ _ _ _ H1) as Hp.
      destruct (evaluate_phase_cites t fl call Hcall _ _ _ _ H) as [K|[K|[K|K]]].
      + left. exact K.
      + right. right. right. exists s1, p1. split; [exact H1|]. split; [exact Hp|]. left. exact K.
      + right. right. right. exists s1, p1. split; [exact H1|]. split; [exact Hp|]. right. rewrite <- Hp. exact K.
      + right. left. exists s1. exact K.
  Qed.

  (* from the initial state: prev_element_debug_info is empty and no error escapes without statement context *)
  Theorem lexec_file_init_error_cite fuel ms g0 p e :
    lexec_file t fl cfg glob regexes find call fuel ms (linit g0) p = Err e ->
    cancelled e \/ forced' e \/ cites_executed ms e \/
    exists s1 p1, lexec_blocks fuel ms (linit g0) p = Ok (tt, s1, p1) /\
                  cites_deferred [] (l_edges s1 ++ l_attrs s1 ++ l_prints s1) e.
  Proof.
    intros H. destruct (lexec_file_error_cite _ _ _ _ _ H) as [K|[K|[K|(s1 & p1 & H1 & _ & [K|K])]]]; auto.
    - exfalso. destruct (lexec_file_error_valid_lemma t fl cfg glob regexes find call fuel ms g0 p e Hcall H) as [[l ->]|(cs & e0 & -> & _)].
      + eapply cancelled_not_unwrapped, K.
      + eapply stmt_ctx_not_unwrapped, K.
    - right. right. right. exists s1, p1. split; [exact H1|exact K].
  Qed.

  (* whatever forcing a thunk raises carries a statement context: an unwrapped error never comes out of a thunk *)
  Theorem force_thunk_error_not_plain fuel loc s p e : force_thunk t fl call fuel loc s p = Err e -> ~ unwrapped e.
  Proof.
    intros H. destruct (force_thunk_error_origin _ _ _ _ _ H) as [[l ->]|Ho]; [apply cancelled_not_unwrapped|eapply origin_not_unwrapped, Ho].
  Qed.

  (* ---- who creates the stored contexts: whatever a statement stores carries its own error context ---- *)
  (* d is the debug info of a thunk, of a pending scoped definition, of a deferred statement, or recorded in
     prev_element_debug_info of s *)
  Definition ctx_stored (s : lstate) (d : stmt_ctx) : Prop :=
    In d (store_dbgs s) \/
    (exists name ps x, alist_get name (l_scoped s) = Some (SVUnforced ps) /\ In (x, d) ps) \/
    In d (map ls_dbg (l_edges s ++ l_attrs s ++ l_prints s)) \/
    In d (map snd (l_prev s)).

  Lemma ctx_stored_inv (V : stmt_ctx -> Prop) s : (forall d, ctx_stored s d -> V d) <-> Inv V (fun _ => True) s.
  Proof.
    split.
    - intros H. unfold Inv, store_ok, scoped_ok, stmts_ok, prev_ok. repeat split.
      + rewrite Forall_forall. intros th Hin. apply H. left. unfold store_dbgs. apply in_map, Hin.
      + intros name c Hg. destruct c as [ps| |mp]; cbn [cell_ok]; auto. unfold pairs_ok. rewrite Forall_forall. intros [x d] Hin. cbn [snd].
        apply H. right. left. exists name, ps, x. auto.
      + rewrite Forall_forall. intros st Hin. apply H. right. right. left. apply in_map. apply in_or_app. left. exact Hin.
      + rewrite Forall_forall. intros st Hin. apply H. right. right. left. apply in_map. apply in_or_app. right. apply in_or_app. left. exact Hin.
      + rewrite Forall_forall. intros st Hin. apply H. right. right. left. apply in_map. apply in_or_app. right. apply in_or_app. right. exact Hin.
      + rewrite Forall_forall. intros x Hin. apply H. right. right. right. apply in_map, Hin.
    - intros (Hst & Hsc & He & Ha & Hp & Hv) d [H|[(name & ps & x & Hg & Hin)|[H|H]]].
      + unfold store_dbgs in H. apply in_map_iff in H as (th & <- & Hin). unfold store_ok in Hst. rewrite Forall_forall in Hst. apply Hst, Hin.
      + specialize (Hsc name _ Hg). cbn [cell_ok] in Hsc. unfold pairs_ok in Hsc. rewrite Forall_forall in Hsc. apply (Hsc _ Hin).
      + apply in_map_iff in H as (st & <- & Hin). unfold stmts_ok in *. rewrite Forall_forall in He, Ha, Hp.
        apply in_app_or in Hin as [Hin|Hin]; [apply He, Hin|]. apply in_app_or in Hin as [Hin|Hin]; [apply Ha, Hin|apply Hp, Hin].
      + apply in_map_iff in H as (x & <- & Hin). unfold prev_ok in Hv. rewrite Forall_forall in Hv. apply Hv, Hin.
  Qed.

  Theorem lexec_stmt_stores_own_ctx fuel le s s0 p0 s1 p1 d :
    lexec_stmt t fl cfg glob regexes find call fuel le s s0 p0 = Ok (tt, s1, p1) ->
    ctx_stored s1 d ->
    ctx_stored s0 d \/ d = ll_ctx le \/ exists s', In s' (stmt_subs s) /\ d = ctx_update (ll_ctx le) s'.
  Proof.
    intros H. set (V := fun d => ctx_stored s0 d \/ d = ll_ctx le \/ exists s', In s' (stmt_subs s) /\ d = ctx_update (ll_ctx le) s').
    assert (HI : Inv V (fun _ => True) s0) by (apply ctx_stored_inv; intros d' Hd; left; exact Hd).
    assert (He : env_ok V le s).
    { split; [right; left; reflexivity|]. intros s' Hs'. right. right. exists s'. auto. }
    pose proof (k_lexec_stmt t fl cfg glob regexes find call Hcall V (fun _ => True) fuel le s He s0 p0 HI) as K. rewrite H in K.
    destruct K as [K _]. revert d. apply ctx_stored_inv. exact K.
  Qed.
End CiteRun.
