(* Proofs/ScThExample.v — C08 WITH scoped variables inside thunks: three stanzas on the same syntax node m,
       (module) @m { let @m.x = @m.y }                                     a scoped variable defined from another one (a thunk that reads a cell)
       (module) @m { node @m.y }                                           the definition it reads
       (module) @m { node n  let z = @m.x  edge n -> @m.x  attr (n) r = z } reads the chain, directly and through the (tainted) local variable z
   All 6 orders of the three blocks succeed; they produce two graphs (the node of @m.y is 0 and n is 1, or the converse), isomorphic under
   0 <-> 1.  The hypotheses of lazy_run_perm_thunks hold for the program, whatever the order. *)
From Coq Require Import Permutation.
From TSG Require Import Model.Run Model.Stdlib Proofs.K7 Proofs.SLExpr Proofs.EvalPerm
  Proofs.BlockPermRen Proofs.BlockPermGraph Proofs.BlockPermEval Proofs.BlockPermStd Proofs.BlockPermExample Proofs.ScPermSim Proofs.ScPermExample
  Proofs.ScThSim Proofs.ScThSwap Proofs.ScThExec Proofs.ScThRun.
Open Scope N_scope.

Definition tx_file : file :=
  {| f_globals := []; f_inherited := []; f_shorthands := [];
     f_stanzas := [
       {| st_stmts := [SLet (VarS sx_cap [120] c8_l0) (EScoped sx_cap [121] c8_l0) c8_l0];
          st_full_stanza_idx := 0; st_full_file_idx := 0; st_start := c8_l0 |};
       {| st_stmts := [SNode (VarS sx_cap [121] c8_l0) [121] c8_l0];
          st_full_stanza_idx := 0; st_full_file_idx := 0; st_start := c8_l0 |};
       {| st_stmts := [SNode (VarU [110] c8_l0) [110] c8_l0; SLet (VarU [122] c8_l0) (EScoped sx_cap [120] c8_l0) c8_l0;
                       SEdge (c8_va 110) (EScoped sx_cap [120] c8_l0) c8_l0; SAttrNode (c8_va 110) [Attr [114] (c8_va 122)] c8_l0];
          st_full_stanza_idx := 0; st_full_file_idx := 0; st_start := c8_l0 |} ] |}.
Definition tx_tnt (name : ident) : bool := str_eqb name [122].       (* the local variable z holds a scoped read *)
Definition tx_ms (l : list N) : list (N * qmatch) := map (fun i => (i, c8_m)) l.
Definition tx_run (l : list N) : outcome exec_error graph :=
  lgraph_of (run_lazy k7_tree tx_file config0 [[]] None ([] : list regex) rx_captures c8_call default_fuel (tx_ms l) []).
Definition tx_gA : graph := [ {| g_attrs := []; g_edges := [] |}; {| g_attrs := [([114], VGraph 0)]; g_edges := [(0, [])] |} ].
Definition tx_gB : graph := [ {| g_attrs := [([114], VGraph 1)]; g_edges := [(1, [])] |}; {| g_attrs := []; g_edges := [] |} ].

Lemma tx_six_orders :
  tx_run [0;1;2] = Ok tx_gA /\ tx_run [1;0;2] = Ok tx_gA /\ tx_run [1;2;0] = Ok tx_gA /\
  tx_run [0;2;1] = Ok tx_gB /\ tx_run [2;0;1] = Ok tx_gB /\ tx_run [2;1;0] = Ok tx_gB.
Proof. repeat split; vm_compute; reflexivity. Qed.
Lemma tx_differ : tx_gA <> tx_gB. Proof. discriminate. Qed.
Lemma tx_iso : graph_iso sx_r tx_gB tx_gA.
Proof.
  split; [reflexivity|]. intros i nd E.
  assert (Hi : i = 0 \/ i = 1).
  { assert (N.to_nat i < 2)%nat by (change 2%nat with (length tx_gB); apply nth_error_Some; congruence). lia. }
  destruct Hi as [ -> | -> ]; cbn in E; inversion E; subst nd; clear E; (eexists; split; [reflexivity|]); cbn [g_attrs g_edges].
  - split; [intros k; reflexivity|]. intros b. destruct b as [|[p|p|]]; cbn; try exact I. intros k. reflexivity.
  - split; [intros k; reflexivity|]. intros b. cbn [edges_get]. exact I.
Qed.

(* the hypotheses of the theorem *)
Lemma tx_blocks_ok l : Forall (pm_ok3 tx_file c8_okfn tx_tnt) (tx_ms l).
Proof.
  apply Forall_forall. intros [i m] Hin. apply in_map_iff in Hin as (j & E & _). inversion E; subst i m. clear E.
  intros st E. cbn [fst snd] in *. split; [|apply Forall_nil].
  destruct (N.to_nat j) as [|[|[|k]]]; cbn in E; try (destruct k; discriminate); injection E as <-; cbn [All st_stmts tstmt tassign texpr lexpr tattr is_capture sx_cap c8_va].
  - split; [|exact I]. split; [exact I|]. right. left. reflexivity.
  - split; exact I.
  - split; [exact I|]. split; [change (tx_tnt [122]) with true; cbv iota; right; left; reflexivity|].
    split; [split; [left; reflexivity|right; left; reflexivity]|]. split; [|exact I]. split; [left; reflexivity|]. split; [|exact I].
    right. split; [right; exact I|reflexivity].
Qed.
Lemma tx_run_state : exists ls p, run_lazy k7_tree tx_file config0 [[]] None ([] : list regex) rx_captures c8_call default_fuel (tx_ms [2;0;1]) [] = Ok (ls, p) /\ l_graph ls = tx_gB.
Proof. eexists. eexists. split; [vm_compute; reflexivity|reflexivity]. Qed.

(* from the run in which the READER comes first and the chain  reader -> @m.x -> @m.y  is defined backwards, the theorem gives EVERY other order *)
Example tx_theorem_applies : forall ms', Permutation (tx_ms [2;0;1]) ms' ->
  exists r r', (forall i, r' (r i) = i) /\ (forall i, r (r' i) = i) /\
    exists fuel0, forall fuel', (fuel0 <= fuel')%nat -> exists ls' p',
      run_lazy k7_tree tx_file config0 [[]] None ([] : list regex) rx_captures c8_call fuel' ms' [] = Ok (ls', p') /\ graph_iso r tx_gB (l_graph ls').
Proof.
  intros ms' HP. destruct tx_run_state as (ls & p & E & Hg).
  destruct (lazy_run_perm_thunks k7_tree tx_file [[]] [] rx_captures c8_call c8_okfn tx_tnt c8_call_ok [] sx_closed c8_globals_ok default_fuel (tx_ms [2;0;1]) ms' ls p
              HP (tx_blocks_ok _) E) as (r & r' & I1 & I2 & _ & F0 & HF).
  exists r, r'. split; [exact I1|]. split; [exact I2|]. exists F0. intros F HF0. destruct (HF F HF0) as (ls' & p' & E' & Hiso). exists ls', p'. split; [exact E'|]. rewrite <- Hg. exact Hiso.
Qed.
