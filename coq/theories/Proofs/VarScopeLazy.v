(* Proofs/VarScopeLazy.v — C06, scope soundness part 5: the LAZY interpreter (Model/Lazy.v) on programs that satisfy the
   scope discipline (Model/VarScope.v).  Same invariant as for the strict interpreter: the frames `l_locals` have
   exactly the shape of the static environment.  The lazy interpreter binds every unscoped variable to a store
   location, so a lookup that succeeds returns a lazy value; forcing it later (evaluation phase, or eager positions)
   never looks at the frames.  Errors allowed (`lerr_ok`):
     never  UndefinedVariable, CannotAssignImmutableVariable, UndefinedCapture;
     DuplicateVariable only in the form that LazyScopedVariables::force raises for a SCOPED variable — directly
     inside a context naming two statements (`scoped_duplicate`). *)
From TSG Require Import Model.Exec Model.Lazy Model.VarScope Proofs.BaseFacts Proofs.MonadFacts Proofs.VarScopeShape Proofs.VarScopeHoare
  Proofs.VarScopeStrict.

Definition lerr_ok (e : exec_error) : Prop :=
  match root_cause e with
  | EUndefinedVariable | ECannotAssignImmutableVariable | EUndefinedCapture => False
  | EDuplicateVariable => scoped_duplicate e = true
  | _ => True
  end.
Lemma lerr_ok_ctx c e : lerr_ok e -> lerr_ok (add_context c e).
Proof.
  unfold lerr_ok. rewrite root_cause_add_ctx. destruct (root_cause e); auto. apply scoped_duplicate_add_ctx.
Qed.
Lemma lerr_ok_other e : variable_error e = false -> lerr_ok e.
Proof. unfold variable_error, lerr_ok. destruct (root_cause e); try discriminate; auto. Qed.

Definition llocs (s : lstate) : lenv := shape (l_locals s).

Section Lazy.
  Context {rx : Type}.
  Variable t : tree.
  Variable fl : file.
  Variable cfg : config.
  Variable glob : globals.
  Variable regexes : list rx.
  Variable find : rx -> str -> option (list (option (N * N))).
  Variable call : ident -> graph -> list value -> res (value * graph).
  Variable G : ident -> bool.
  Hypothesis HG : forall x, G x = match globals_get glob x with Some _ => true | None => false end.
  Hypothesis Hcall : forall f g args e, call f g args = Err e -> variable_error e = false.
  Hypothesis Hsh : vs_shorthands G true fl = true.

  Notation EOk := lerr_ok.
  Notation hvl := (hv llocs EOk).
  Notation neu := (neutral llocs EOk).
  Notation eval_lv' := (eval_lv t fl call).
  Notation force_thunk' := (force_thunk t fl call).
  Notation force_scoped' := (force_scoped t fl call).
  Notation leval' := (leval t fl glob call).
  Notation lexec_attr' := (lexec_attr t fl glob call).
  Notation lexec_stmt' := (lexec_stmt t fl cfg glob regexes find call).

  Lemma neutral_fail_in {A} c e : EOk (EInContext c e) -> neu (@fail_in A c e).
  Proof. intros H s p. exact H. Qed.

  Ltac neu_step :=
    lazymatch goal with
    | |- neutral _ _ (ret _) => apply neutral_ret
    | |- neutral _ _ (panic _) => apply neutral_panic
    | |- neutral _ _ out_of_fuel => apply neutral_oof
    | |- neutral _ _ (fail _) => apply neutral_fail; exact I
    | |- neutral _ _ (fail_in _ _) => apply neutral_fail_in; exact I
    | |- neutral _ _ (upd _) => apply neutral_modify; intros ?; reflexivity
    | |- neutral _ _ (modify _) => apply neutral_modify; intros ?; reflexivity
    | |- neutral _ _ (bind get_state _) => apply neutral_get; intros ?
    | |- neutral _ _ (bind _ _) => apply neutral_bind; [|intros ?]
    | |- neutral _ _ (match ?x with _ => _ end) => destruct x
    end.
  Ltac neu_tac := repeat neu_step.

  (* ---- primitives that do not touch the frames ---- *)
  Lemma neu_set_lgraph g : neu (set_lgraph g). Proof. unfold set_lgraph. neu_tac. Qed.
  Lemma neu_set_lstore x : neu (set_lstore x). Proof. unfold set_lstore. neu_tac. Qed.
  Lemma neu_set_lscoped x : neu (set_lscoped x). Proof. unfold set_lscoped. neu_tac. Qed.
  Lemma neu_set_lparams x : neu (set_lparams x). Proof. unfold set_lparams. neu_tac. Qed.
  Lemma neu_set_lprev x : neu (set_lprev x). Proof. unfold set_lprev. neu_tac. Qed.
  Lemma neu_push_lstmt st : neu (push_lstmt st).
  Proof. unfold push_lstmt, upd. apply neutral_modify. intros s. destruct st; reflexivity. Qed.
  Lemma EOk_cancel l : EOk (ECancelled l). Proof. exact I. Qed.
  Lemma neu_lpoll l : neu (lpoll l). Proof. apply neutral_poll. exact I. Qed.
  Lemma neu_lpoll_n n l : neu (lpoll_n n l).
  Proof. induction n as [|n IH]; cbn [lpoll_n]; [apply neutral_ret|]. apply neutral_bind; [apply neu_lpoll|intros _; exact IH]. Qed.
  Lemma neu_ladd_node : neu ladd_node. Proof. unfold ladd_node, set_lgraph. neu_tac. Qed.
  Lemma neu_ladd_node_attr n k v : neu (ladd_node_attr n k v). Proof. unfold ladd_node_attr, set_lgraph. neu_tac. Qed.
  Lemma neu_lopt_node_attr n name v : neu (lopt_node_attr n name v).
  Proof. destruct name; cbn [lopt_node_attr]; [apply neu_ladd_node_attr|apply neutral_ret]. Qed.
  Lemma neu_lattr_node_add n k v prev dbg : neu (lattr_node_add n k v prev dbg).
  Proof. unfold lattr_node_add, set_lgraph. neu_tac. Qed.
  Lemma neu_ledge_add a b ea : neu (ledge_add a b ea). Proof. unfold ledge_add, set_lgraph. neu_tac. Qed.
  Lemma neu_lattr_edge_add a b k v prev dbg : neu (lattr_edge_add a b k v prev dbg).
  Proof. unfold lattr_edge_add, set_lgraph. neu_tac. Qed.
  Lemma neu_ledge_exists a b : neu (ledge_exists a b). Proof. unfold ledge_exists. neu_tac. Qed.
  Lemma neu_store_add lv dbg : neu (store_add lv dbg). Proof. unfold store_add, set_lstore. neu_tac. Qed.
  Lemma neu_store_set_state loc st : neu (store_set_state loc st). Proof. unfold store_set_state, set_lstore. neu_tac. Qed.
  Lemma neu_cell_get name : neu (cell_get name). Proof. unfold cell_get. neu_tac. Qed.
  Lemma neu_cell_set name v : neu (cell_set name v). Proof. unfold cell_set, set_lscoped. neu_tac. Qed.
  Lemma neu_scoped_store_add sc name v dbg : neu (scoped_store_add sc name v dbg).
  Proof.
    unfold scoped_store_add. apply neutral_bind; [apply neu_cell_get|intros c].
    destruct c as [[| |]|]; first [apply neu_cell_set | apply neutral_fail; exact I].
  Qed.
  Lemma neu_lpush_param v : neu (lpush_param v). Proof. unfold lpush_param, set_lparams. neu_tac. Qed.
  Lemma neu_ldrain_params n : neu (ldrain_params n). Proof. unfold ldrain_params, set_lparams. neu_tac. Qed.
  Lemma neu_prev_insert k dbg : neu (prev_insert k dbg). Proof. unfold prev_insert, set_lprev. neu_tac. Qed.
  Lemma neu_lfull_match_node le : neu (lfull_match_node le). Proof. unfold lfull_match_node. neu_tac. Qed.
  Lemma neu_lcall_function f args : neu (lcall_function call f args).
  Proof.
    unfold lcall_function. apply neutral_get. intros s. destruct (call f (l_graph s) args) as [[v g']|e|x|] eqn:E.
    - unfold set_lgraph. neu_tac.
    - apply neutral_fail. apply lerr_ok_other. eapply Hcall. exact E.
    - apply neutral_panic.
    - apply neutral_oof.
  Qed.
  Lemma neu_as_syn v : neu (lift (as_syn v)).
  Proof. apply neutral_lift. destruct v; cbn [as_syn]; intros e [= <-]; exact I. Qed.
  Lemma neu_as_gnode v : neu (lift (as_gnode v)).
  Proof. apply neutral_lift. destruct v; cbn [as_gnode]; intros e [= <-]; exact I. Qed.
  Notation nctx := (neutral_ctx llocs EOk lerr_ok_ctx).

  (* ---- forcing: the evaluation of lazy values never looks at the frames ---- *)
  Lemma neu_force_pairs ev : (forall sc, neu (ev sc)) -> forall ps values dbgs, neu (force_pairs ev ps values dbgs).
  Proof.
    intros Hev. induction ps as [|[[scope v] dbg] ps IHp]; intros values dbgs; cbn [force_pairs]; [apply neutral_ret|].
    apply neutral_bind; [apply nctx, nctx, Hev|intros n].
    destruct (nmap_get values n); [|apply IHp]. destruct (dbg_get dbgs n); [apply neutral_fail_in; reflexivity|apply neutral_panic].
  Qed.

  Lemma neu_eval_all : forall fuel,
    (forall lv, neu (eval_lv' fuel lv)) /\ (forall loc, neu (force_thunk' fuel loc)) /\ (forall name cell, neu (force_scoped' fuel name cell)).
  Proof.
    induction fuel as [|fuel (IHe & IHt & IHs)]; [repeat split; intros; apply neutral_oof|].
    repeat split.
    - intros lv. destruct lv; cbn [eval_lv]; (apply neutral_bind; [apply neu_lpoll|intros _]).
      + apply neutral_ret.
      + apply neutral_bind; [apply neutral_mapM, IHe|intros vs; apply neutral_ret].
      + apply neutral_bind; [apply neutral_mapM, IHe|intros vs; apply neutral_ret].
      + apply IHt.
      + apply neutral_bind.
        { apply nctx. apply neutral_bind; [apply IHe|intros sv]. apply neu_as_syn. }
        intros n. apply neutral_bind; [apply neu_cell_get|intros c]. destruct c as [cell|]; [|apply neutral_fail; exact I].
        apply neutral_bind; [apply neu_cell_set|intros _]. apply neutral_bind; [apply IHs|intros map]. cbv zeta.
        apply neutral_bind; [apply neu_cell_set|intros _].
        match goal with |- neutral _ _ (match ?x with _ => _ end) => destruct x end; [apply IHe|apply neutral_fail; exact I].
      + apply neutral_bind.
        { apply neutral_iterM. intros a. apply neutral_bind; [apply IHe|intros v; apply neu_lpush_param]. }
        intros _. apply neutral_bind; [apply neu_ldrain_params|intros ps; apply neu_lcall_function].
    - intros loc. cbn [force_thunk]. apply neutral_get. intros s.
      destruct (nth_error (l_store s) (N.to_nat loc)) as [th|]; [|apply neutral_panic].
      apply nctx. destruct (th_state th); [|apply neutral_fail; exact I|apply neutral_ret].
      apply neutral_bind; [apply neu_store_set_state|intros _]. apply neutral_bind; [apply IHe|intros v].
      apply neutral_bind; [apply neu_store_set_state|intros _; apply neutral_ret].
    - intros name cell. cbn [force_scoped]. destruct cell as [pairs| |map]; [|apply neutral_fail; exact I|apply neutral_ret].
      apply neu_force_pairs. intros scope. apply neutral_bind; [exact (IHe scope)|intros sv]. apply neu_as_syn.
  Qed.
  Lemma neu_eval_lv fuel lv : neu (eval_lv' fuel lv). Proof. apply neu_eval_all. Qed.
  Lemma neu_force_thunk fuel loc : neu (force_thunk' fuel loc). Proof. apply neu_eval_all. Qed.
  Lemma neu_force_scoped fuel name cell : neu (force_scoped' fuel name cell). Proof. apply neu_eval_all. Qed.

  Lemma neu_eval_as_gnode fuel lv : neu (eval_as_gnode t fl call fuel lv).
  Proof. unfold eval_as_gnode. apply neutral_bind; [apply neu_eval_lv|intros v; apply neu_as_gnode]. Qed.
  Lemma neu_eval_lstmt fuel st : neu (eval_lstmt t fl call fuel st).
  Proof.
    unfold eval_lstmt. apply neutral_bind; [apply neu_lpoll|intros _]. destruct st.
    - apply nctx. apply neutral_bind; [apply nctx, neu_eval_as_gnode|intros n]. apply neutral_iterM. intros a.
      apply neutral_bind; [apply neu_eval_lv|intros v]. apply neutral_bind; [apply neu_prev_insert|intros prev]. apply neu_lattr_node_add.
    - apply nctx. apply neutral_bind; [apply nctx, neu_eval_as_gnode|intros a]. apply neutral_bind; [apply nctx, neu_eval_as_gnode|intros b].
      apply neu_ledge_add.
    - apply nctx. apply neutral_bind; [apply nctx, neu_eval_as_gnode|intros a]. apply neutral_bind; [apply nctx, neu_eval_as_gnode|intros b].
      apply neutral_iterM. intros ak. apply neutral_bind; [apply neu_eval_lv|intros v]. apply neutral_bind; [apply neu_ledge_exists|intros ex].
      destruct ex; [|apply neutral_fail; exact I]. apply neutral_bind; [apply neu_prev_insert|intros prev]. apply neu_lattr_edge_add.
    - apply nctx. apply neutral_iterM. intros a. destruct a; [|apply neutral_ret].
      apply neutral_bind; [apply neu_eval_lv|intros _; apply neutral_ret].
  Qed.
  Lemma neu_evaluate_phase fuel : neu (evaluate_phase t fl call fuel).
  Proof.
    unfold evaluate_phase. apply neutral_get. intros s.
    apply neutral_bind; [apply neutral_iterM; intros; apply neu_eval_lstmt|intros _].
    apply neutral_bind; [apply neutral_iterM; intros; apply neu_eval_lstmt|intros _].
    apply neutral_bind; [apply neutral_iterM; intros; apply neu_eval_lstmt|intros _].
    apply neutral_bind.
    - unfold store_evaluate_all. apply neutral_get. intros s'. apply neutral_iterM. intros i.
      apply neutral_bind; [apply neu_force_thunk|intros _; apply neutral_ret].
    - intros _. unfold scoped_evaluate_all. apply neutral_get. intros s'. apply neutral_iterM. intros name.
      apply neutral_bind; [apply neu_cell_get|intros c]. destruct c as [cell|]; [|apply neutral_ret].
      apply neutral_bind; [apply neu_cell_set|intros _]. apply neutral_bind; [apply neu_force_scoped|intros map]. apply neu_cell_set.
  Qed.

  (* ---- frames ---- *)
  Lemma hv_neu {A} env (m : M lstate A) : neu m -> hvl env m (keeps env).
  Proof. apply hv_neutral. Qed.
  Lemma hv_set_llocals env l : hvl env (set_llocals l) (keeps (shape l)).
  Proof. intros s p _. reflexivity. Qed.
  Lemma hv_lpush_frame env : hvl env lpush_frame (keeps ([] :: env)).
  Proof.
    intros s p Hs. unfold lpush_frame, bind, get_state, set_llocals, upd, modify. unfold keeps, llocs. cbn [l_locals].
    rewrite shape_nested. f_equal. exact Hs.
  Qed.
  Lemma hv_lpop_frame env env0 : inner env env0 -> hvl env0 lpop_frame (keeps env).
  Proof.
    intros [fr ->] s p Hs. unfold lpop_frame, bind, get_state. unfold llocs in Hs. destruct (l_locals s) as [|fr' up]; [exact I|].
    unfold set_llocals, upd, modify, keeps, llocs. cbn [l_locals]. cbn [shape map] in Hs. inversion Hs. reflexivity.
  Qed.
  Lemma hv_lclear_frame env env0 : inner env env0 -> hvl env0 lclear_frame (keeps ([] :: env)).
  Proof.
    intros [fr ->] s p Hs. unfold lclear_frame, bind, get_state, set_llocals, upd, modify, keeps, llocs. cbn [l_locals]. rewrite shape_clear.
    unfold llocs in Hs. rewrite Hs. reflexivity.
  Qed.

  (* ---- unscoped variables ---- *)
  Lemma G_false' x : G x = false -> globals_get glob x = None.
  Proof. rewrite HG. destruct (globals_get glob x); [discriminate|reflexivity]. Qed.

  Lemma hv_lunscoped_get env name : G name || is_bound env name = true -> hvl env (lunscoped_get glob name) (keeps env).
  Proof.
    intros H. unfold lunscoped_get. destruct (globals_get glob name) eqn:Eg; [apply hv_ret; reflexivity|].
    rewrite HG, Eg in H. cbn [orb] in H. intros s p Hs. unfold bind, get_state. unfold llocs in Hs. rewrite <- Hs, is_bound_shape in H.
    destruct (varmap_get (l_locals s) name); [exact Hs|discriminate].
  Qed.
  Lemma hv_lunscoped_add le env name v mu : negb (G name) && can_add env name = true ->
    hvl env (lunscoped_add glob le name v mu) (keeps (lenv_bind env name mu)).
  Proof.
    intros H. apply andb_true_iff in H. destruct H as [H1 H2]. apply negb_true_iff in H1. unfold lunscoped_add. rewrite (G_false' _ H1).
    eapply hv_bind; [apply hv_neu, neu_store_add|]. ikeep var env'.
    intros s p Hs. unfold bind, get_state. unfold llocs in Hs. rewrite <- Hs in H2. destruct (varmap_add_ok _ _ var mu H2) as [l' El]. rewrite El.
    unfold set_llocals, upd, modify, keeps, llocs. cbn [l_locals]. rewrite (proj2 (varmap_add_inl _ _ _ _ _ El)), Hs. reflexivity.
  Qed.
  Lemma hv_lunscoped_set le env name v : negb (G name) && can_set env name = true -> hvl env (lunscoped_set glob le name v) (keeps env).
  Proof.
    intros H. apply andb_true_iff in H. destruct H as [H1 H2]. apply negb_true_iff in H1. unfold lunscoped_set. rewrite (G_false' _ H1).
    eapply hv_bind; [apply hv_neu, neu_store_add|]. ikeep var env'.
    intros s p Hs. unfold bind, get_state. unfold llocs in Hs. rewrite <- Hs in H2. destruct (varmap_set_ok _ _ var H2) as [l' El]. rewrite El.
    unfold set_llocals, upd, modify, keeps, llocs. cbn [l_locals]. rewrite (proj2 (varmap_set_inl _ _ _ _ El)). exact Hs.
  Qed.

  Lemma hv_as_list env v : hvl env (lift (as_list v)) (keeps env).
  Proof. apply hv_lift; [reflexivity|]. destruct v; cbn [as_list]; intros e [= <-]; exact I. Qed.
  Lemma hv_as_str env v : hvl env (lift (as_str v)) (keeps env).
  Proof. apply hv_lift; [reflexivity|]. destruct v; cbn [as_str]; intros e [= <-]; exact I. Qed.
  Lemma hv_as_bool env v : hvl env (lift (as_bool v)) (keeps env).
  Proof. apply hv_lift; [reflexivity|]. destruct v; cbn [as_bool]; intros e [= <-]; exact I. Qed.

  (* ---- expressions ---- *)
  Lemma hv_lcomp fuel le el x v env :
    (forall le e env, vs_expr G true env e = true -> hvl env (leval' fuel le e) (keeps env)) ->
    vs_expr G true env v = true -> G x = false -> vs_expr G true ([(x, false)] :: env) el = true ->
    hvl env (lv <- (lv <- leval' fuel le v ;; eval_lv' (S fuel + default_eval_fuel) lv) ;; vals <- lift (as_list lv) ;; lpush_frame ;;;
             out <- Exec.mapM (fun v => lclear_frame ;;; lunscoped_add glob le x (LValue v) false ;;; leval' fuel le el) vals ;;
             lpop_frame ;;; ret out) (keeps env).
  Proof.
    intros IH Hv Hx Hel.
    eapply hv_bind; [eapply hv_bind; [apply IH; exact Hv|ikeep lv0 env'; apply hv_neu, neu_eval_lv]|]. ikeep lv env'.
    eapply hv_bind; [apply hv_as_list|]. ikeep vals env'.
    eapply hv_bind; [apply hv_lpush_frame|]. ikeep u env'.
    eapply hv_bind.
    { apply (hv_mapM llocs EOk (inner env)); [|exists []; reflexivity]. intros w env0 _ Hin.
      eapply hv_bind; [apply (hv_lclear_frame env); exact Hin|]. ikeep u1 env'.
      eapply hv_bind; [apply hv_lunscoped_add; rewrite Hx; reflexivity|]. ikeep u2 env'. cbn [lenv_bind app].
      eapply hv_conseq; [|apply IH; exact Hel]. intros a env' ->. eexists. reflexivity. }
    intros out env1 Hin. eapply hv_bind; [apply (hv_lpop_frame env); exact Hin|]. ikeep u3 env'. apply hv_ret. reflexivity.
  Qed.

  Lemma hv_leval : forall fuel le e env, vs_expr G true env e = true -> hvl env (leval' fuel le e) (keeps env).
  Proof.
    induction fuel as [|fuel IH]; intros le e env He; [apply hv_oof|].
    destruct e; cbn [leval]; cbn [vs_expr] in He; try (apply hv_ret; reflexivity).
    - eapply hv_bind; [apply hv_mapM_keeps; intros x Hx; apply IH; rewrite forallb_forall in He; exact (He _ Hx)|].
      ikeep vs env'. apply hv_ret. reflexivity.
    - eapply hv_bind; [apply hv_mapM_keeps; intros x Hx; apply IH; rewrite forallb_forall in He; exact (He _ Hx)|].
      ikeep vs env'. apply hv_ret. reflexivity.
    - apply andb_true_iff in He. destruct He as [He H3]. apply andb_true_iff in He. destruct He as [H1 H2]. apply negb_true_iff in H2.
      eapply hv_bind; [apply (hv_lcomp fuel le e1 var e2 env IH H1 H2 H3)|]. ikeep out env'. apply hv_ret. reflexivity.
    - apply andb_true_iff in He. destruct He as [He H3]. apply andb_true_iff in He. destruct He as [H1 H2]. apply negb_true_iff in H2.
      eapply hv_bind; [apply (hv_lcomp fuel le e1 var e2 env IH H1 H2 H3)|]. ikeep out env'. apply hv_ret. reflexivity.
    - eapply hv_bind with (Q := keeps env); [|ikeep v env'; apply hv_ret; reflexivity].
      apply hv_lift; [reflexivity|]. destruct q, (nodes_for_capture (ll_match le) file_idx); cbn [from_nodes]; intros e; discriminate.
    - apply hv_lunscoped_get. exact He.
    - cbn [andb] in He. eapply hv_bind; [apply IH; exact He|]. ikeep sv env'. apply hv_ret. reflexivity.
    - eapply hv_bind; [apply hv_mapM_keeps; intros x Hx; apply IH; rewrite forallb_forall in He; exact (He _ Hx)|].
      ikeep vs env'. apply hv_ret. reflexivity.
    - destruct (nth_error (ll_caps le) (N.to_nat i)); [apply hv_ret; reflexivity|apply hv_fail; exact I].
  Qed.
  Lemma hv_leager fuel le e env : vs_expr G true env e = true -> hvl env (leager t fl glob call fuel le e) (keeps env).
  Proof. intros He. unfold leager. eapply hv_bind; [apply hv_leval; exact He|]. ikeep lv env'. apply hv_neu, neu_eval_lv. Qed.

  (* ---- variables ---- *)
  Lemma hv_lvar_add fuel le v x mu env : vs_var_add G true true env v = true ->
    hvl env (lvar_add t fl glob call fuel le v x mu) (keeps (bind_var env v mu)).
  Proof.
    destruct v as [name l|scope name l]; cbn [vs_var_add lvar_add bind_var]; intros H; [apply hv_lunscoped_add; exact H|].
    cbn [andb] in H. destruct mu; [apply hv_fail; exact I|].
    eapply hv_bind; [apply hv_leval; exact H|]. ikeep sv env'.
    eapply hv_bind; [apply hv_neu, neu_store_add|]. ikeep var env'. apply hv_neu, neu_scoped_store_add.
  Qed.
  Lemma hv_lvar_set fuel le v x env : vs_var_set G true true env v = true -> hvl env (lvar_set glob fuel le v x) (keeps env).
  Proof.
    destruct v as [name l|scope name l]; cbn [vs_var_set lvar_set]; intros H; [apply hv_lunscoped_set; exact H|apply hv_fail; exact I].
  Qed.
  Lemma hv_ltest_cond fuel le c env : vs_expr G true env (cond_expr c) = true -> hvl env (ltest_cond t fl glob call fuel le c) (keeps env).
  Proof.
    destruct c; cbn [cond_expr ltest_cond]; intros He; (eapply hv_bind; [apply hv_leager; exact He|]); ikeep v env';
      try (apply hv_ret; reflexivity). apply hv_as_bool.
  Qed.

  (* ---- attributes, through shorthands ---- *)
  Lemma lsh_body_vs name sh : find_shorthand name (f_shorthands fl) = Some sh ->
    G (sh_var sh) = false /\ forall a, In a (sh_attrs sh) -> vs_attr G true [[(sh_var sh, false)]] a = true.
  Proof.
    intros Hf. assert (Hin : In sh (f_shorthands fl)).
    { revert Hf. generalize (f_shorthands fl). induction l as [|s l IHl]; cbn [find_shorthand]; [discriminate|].
      destruct (find_shorthand name l) as [s'|].
      - intros [= ->]. right. apply IHl. reflexivity.
      - destruct (str_eqb name (sh_name s)); [intros [= ->]; left; reflexivity|discriminate]. }
    unfold vs_shorthands in Hsh. rewrite forallb_forall in Hsh. specialize (Hsh _ Hin). unfold vs_shorthand in Hsh.
    apply andb_true_iff in Hsh. destruct Hsh as [H1 H2]. apply negb_true_iff in H1. split; [exact H1|].
    rewrite forallb_forall in H2. exact H2.
  Qed.

  Lemma hv_lexec_attr : forall fuel le a env, vs_attr G true env a = true -> hvl env (lexec_attr' fuel le a) (keeps env).
  Proof.
    induction fuel as [|fuel IH]; intros le a env Ha; [apply hv_oof|].
    destruct a as [name value]. cbn [vs_attr] in Ha. cbn [lexec_attr].
    eapply hv_bind; [apply hv_neu, neu_lpoll|]. ikeep u env'.
    eapply hv_bind; [apply hv_leval; exact Ha|]. ikeep v env'.
    destruct (find_shorthand name (f_shorthands fl)) as [sh|] eqn:Ef; [|apply hv_ret; reflexivity].
    destruct (lsh_body_vs _ _ Ef) as [Hx Hbody].
    apply hv_get. intros s Hs. cbv zeta.
    eapply hv_bind; [apply hv_set_llocals|]. ikeep u1 env'. cbn [shape map].
    eapply hv_bind; [apply hv_lunscoped_add; rewrite Hx; reflexivity|]. ikeep u2 env'. cbn [lenv_bind app].
    eapply hv_bind; [apply hv_mapM_keeps; intros a Hin; apply IH; apply Hbody; exact Hin|]. ikeep outs env'.
    eapply hv_bind; [apply hv_set_llocals|]. ikeep u3 env'. apply hv_ret. exact Hs.
  Qed.
  Lemma hv_lexec_attrs fuel le attrs env : forallb (vs_attr G true env) attrs = true ->
    hvl env (Exec.mapM (lexec_attr' fuel le) attrs) (keeps env).
  Proof. intros H. apply hv_mapM_keeps. intros a Hin. apply hv_lexec_attr. rewrite forallb_forall in H. exact (H _ Hin). Qed.

  (* ---- loops ---- *)
  Lemma hv_lscan_loop (run_arm : list str -> list stmt -> M lstate unit) arms rs subject env :
    (forall caps rxi body al, In (rxi, body, al) arms -> hvl ([] :: env) (run_arm caps body) (fun _ => inner env)) ->
    forall sfuel i, hvl env (lscan_loop find run_arm arms rs subject sfuel i) (keeps env).
  Proof.
    intros Hrun. induction sfuel as [|sfuel IHs]; intros i; cbn [lscan_loop]; [apply hv_oof|].
    destruct (N.ltb i (N.of_nat (length subject))); [|apply hv_ret; reflexivity]. cbv zeta.
    eapply hv_bind; [apply hv_neu, neu_lpoll_n|]. ikeep u env'.
    destruct (arm_select find rs (skipn (N.to_nat i) subject)) as [|k|k caps]; [apply hv_ret; reflexivity|apply hv_fail; exact I|].
    destruct (nth_error arms (N.to_nat k)) as [[[r body] l']|] eqn:En; [|apply hv_panic].
    eapply hv_bind; [apply hv_lpush_frame|]. ikeep u1 env'.
    eapply hv_bind; [apply (Hrun _ r body l'); eapply nth_error_In; exact En|]. intros u2 env1 Hin.
    eapply hv_bind; [apply (hv_lpop_frame env); exact Hin|]. ikeep u3 env'. apply IHs.
  Qed.
  Lemma hv_lif_loop (test : cond -> M lstate bool) (run_body : list stmt -> M lstate unit) env arms :
    (forall conds body al c, In (conds, body, al) arms -> In c conds -> hvl env (test c) (keeps env)) ->
    (forall conds body al, In (conds, body, al) arms -> hvl ([] :: env) (run_body body) (fun _ => inner env)) ->
    hvl env (lif_loop test run_body arms) (keeps env).
  Proof.
    induction arms as [|[[conds body] l'] arms IHa]; intros Ht Hr; cbn [lif_loop]; [apply hv_ret; reflexivity|].
    eapply hv_bind; [apply hv_mapM_keeps; intros c Hc; apply (Ht conds body l' c); [left; reflexivity|exact Hc]|]. ikeep bs env'.
    destruct (forallb (fun b => b) bs).
    - eapply hv_bind; [apply hv_lpush_frame|]. ikeep u1 env'.
      eapply hv_bind; [apply (Hr conds body l'); left; reflexivity|]. intros u2 env1 Hin. apply (hv_lpop_frame env). exact Hin.
    - apply IHa; [intros c0 b0 a0 c Hin; apply (Ht c0 b0 a0 c); right; exact Hin|intros c0 b0 a0 Hin; apply (Hr c0 b0 a0); right; exact Hin].
  Qed.

  (* ---- statements ---- *)
  Lemma hv_lexec_stmt : forall fuel le s env, vs_stmt G true true env s = true ->
    hvl env (lexec_stmt' fuel le s) (keeps (vs_env env s)).
  Proof.
    induction fuel as [|fuel IH]; intros le s env Hs; [apply hv_oof|].
    assert (Hblock : forall le' body fr, vs_block G true true (fr :: env) body = true ->
      hvl (fr :: env) (iterM (fun st => lexec_stmt' fuel (ll_with_ctx le' (ctx_update (ll_ctx le') st)) st) body) (fun _ => inner env)).
    { intros le' body fr Hb. eapply (hv_block_inner llocs EOk G true true); [|exact Hb]. intros s0 env0 H0. apply IH. exact H0. }
    assert (Harm : forall le' body fr, vs_block G true true (fr :: env) body = true ->
      hvl (fr :: env) (iterM (fun st => let c := ctx_update (ll_ctx le') st in
                                     ctx_wrap (CtxStmts [c]) (ctx_wrap CtxOther (lexec_stmt' fuel (ll_with_ctx le' c) st))) body)
          (fun _ => inner env)).
    { intros le' body fr Hb. eapply (hv_block_inner llocs EOk G true true); [|exact Hb]. intros s0 env0 H0. cbv zeta.
      apply hv_ctx; [apply lerr_ok_ctx|]. apply hv_ctx; [apply lerr_ok_ctx|]. apply IH. exact H0. }
    destruct s; cbn [lexec_stmt]; cbn [vs_stmt] in Hs; cbn [vs_env]; (eapply hv_bind; [apply hv_neu, neu_lpoll|ikeep u env']).
    - apply andb_true_iff in Hs. destruct Hs as [He Hv].
      eapply hv_bind; [apply hv_leval; exact He|]. ikeep x env'. apply hv_lvar_add. exact Hv.
    - apply andb_true_iff in Hs. destruct Hs as [He Hv].
      eapply hv_bind; [apply hv_leval; exact He|]. ikeep x env'. apply hv_lvar_add. exact Hv.
    - apply andb_true_iff in Hs. destruct Hs as [He Hv].
      eapply hv_bind; [apply hv_leval; exact He|]. ikeep x env'. apply hv_lvar_set. exact Hv.
    - eapply hv_bind; [apply hv_neu, neu_ladd_node|]. ikeep n env'.
      eapply hv_bind; [apply hv_neu, neu_lopt_node_attr|]. ikeep u1 env'.
      eapply hv_bind; [apply hv_neu, neu_lopt_node_attr|]. ikeep u2 env'.
      eapply hv_bind.
      { instantiate (1 := keeps env). destruct (c_match_attr cfg); [|apply hv_ret; reflexivity].
        eapply hv_bind; [apply hv_neu, neu_lfull_match_node|]. ikeep mn env'. apply hv_neu, neu_ladd_node_attr. }
      ikeep u3 env'. apply hv_lvar_add. exact Hs.
    - apply andb_true_iff in Hs. destruct Hs as [He Ha].
      eapply hv_bind; [apply hv_leval; exact He|]. ikeep nv env'.
      eapply hv_bind; [apply hv_lexec_attrs; exact Ha|]. ikeep outs env'. apply hv_neu, neu_push_lstmt.
    - apply andb_true_iff in Hs. destruct Hs as [Ha Hb].
      eapply hv_bind; [apply hv_leval; exact Ha|]. ikeep a env'.
      eapply hv_bind; [apply hv_leval; exact Hb|]. ikeep b env'. cbv zeta. apply hv_neu, neu_push_lstmt.
    - apply andb_true_iff in Hs. destruct Hs as [Hab Hat]. apply andb_true_iff in Hab. destruct Hab as [Ha Hb].
      eapply hv_bind; [apply hv_leval; exact Ha|]. ikeep a env'.
      eapply hv_bind; [apply hv_leval; exact Hb|]. ikeep b env'.
      eapply hv_bind; [apply hv_lexec_attrs; exact Hat|]. ikeep outs env'. apply hv_neu, neu_push_lstmt.
    - apply andb_true_iff in Hs. destruct Hs as [Hv Harms].
      eapply hv_bind; [apply hv_leager; exact Hv|]. ikeep sv env'.
      eapply hv_bind; [apply hv_as_str|]. ikeep subject env'.
      destruct (arm_table regexes arms) as [rs|]; [|apply hv_panic].
      apply hv_lscan_loop. intros caps rxi body al Hin. apply Harm. rewrite forallb_forall in Harms. exact (Harms _ Hin).
    - eapply hv_bind with (Q := keeps env); [|ikeep args env'; apply hv_neu, neu_push_lstmt].
      apply hv_mapM_keeps. intros e Hin. rewrite forallb_forall in Hs. specialize (Hs _ Hin).
      destruct e; try (apply hv_ret; reflexivity);
        (eapply hv_bind; [apply hv_leval; exact Hs|ikeep lv env'; apply hv_ret; reflexivity]).
    - apply hv_lif_loop.
      + intros conds body al c Hin Hc. apply hv_ltest_cond. rewrite forallb_forall in Hs. specialize (Hs _ Hin). cbv beta iota in Hs.
        apply andb_true_iff in Hs. destruct Hs as [H1 _]. rewrite forallb_forall in H1. exact (H1 _ Hc).
      + intros conds body al Hin. apply Hblock. rewrite forallb_forall in Hs. specialize (Hs _ Hin).
        cbv beta iota in Hs. apply andb_true_iff in Hs. apply Hs.
    - apply andb_true_iff in Hs. destruct Hs as [Hs Hbody]. apply andb_true_iff in Hs. destruct Hs as [Hv Hx]. apply negb_true_iff in Hx.
      eapply hv_bind; [apply hv_leager; exact Hv|]. ikeep lv env'.
      eapply hv_bind; [apply hv_as_list|]. ikeep vals env'.
      eapply hv_bind; [apply hv_lpush_frame|]. ikeep u1 env'.
      eapply hv_bind; [|intros u2 env1 Hin; apply (hv_lpop_frame env); exact Hin].
      apply (hv_iterM llocs EOk (inner env)); [|exists []; reflexivity]. intros v env0 _ Hin.
      eapply hv_bind; [apply (hv_lclear_frame env); exact Hin|]. ikeep u3 env'.
      eapply hv_bind; [apply hv_lunscoped_add; rewrite Hx; reflexivity|]. ikeep u4 env'. cbn [lenv_bind app].
      apply Hblock. exact Hbody.
  Qed.

  (* ---- one stanza on one match ---- *)
  Lemma hv_lexec_stanza fuel st m env0 : vs_stanza G true true st = true -> inner [] env0 ->
    hvl env0 (lexec_stanza t fl cfg glob regexes find call fuel st m) (fun _ => inner []).
  Proof.
    intros Hst Hin. unfold lexec_stanza.
    eapply hv_bind; [apply hv_neu, neu_lpoll|]. ikeep u0 env'.
    eapply hv_bind; [apply (hv_lclear_frame []); exact Hin|]. ikeep u env'. cbv zeta.
    destruct (nodes_for_capture m (st_full_file_idx st)); [apply hv_panic|].
    eapply (hv_block_inner llocs EOk G true true); [|exact Hst]. intros s env1 Hs. cbv zeta.
    apply hv_ctx; [apply lerr_ok_ctx|]. apply hv_lexec_stmt. exact Hs.
  Qed.

  (* ---- the whole run: execution phase, then evaluation phase ---- *)
  Lemma hv_lexec_file fuel ms env0 : vs_stanzas G true true fl = true -> inner [] env0 ->
    hvl env0 (lexec_file t fl cfg glob regexes find call fuel ms) (fun _ => inner []).
  Proof.
    intros Hsts Hin. unfold lexec_file.
    eapply hv_bind.
    - apply (hv_iterM llocs EOk (inner [])); [|exact Hin]. intros pm env1 _ Hin1.
      destruct (nth_error (f_stanzas fl) (N.to_nat (fst pm))) as [st|] eqn:En; [|apply hv_panic].
      apply hv_lexec_stanza; [|exact Hin1]. unfold vs_stanzas in Hsts. rewrite forallb_forall in Hsts. apply Hsts.
      eapply nth_error_In. exact En.
    - intros u env1 Hin1. eapply hv_conseq; [|apply hv_neu, neu_evaluate_phase]. intros a env' ->. exact Hin1.
  Qed.
End Lazy.
