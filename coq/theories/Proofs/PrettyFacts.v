(* Proofs/PrettyFacts.v — C14, pretty-print half: structure of the printed lines, attributes sorted by
   name, and the printed text determines nodes, edges and attributes (parse back = graph skeleton). *)
From TSG Require Import Model.Pretty Proofs.BaseFacts Proofs.OrderFacts Proofs.Containers Proofs.JsonFacts.
From Coq Require Import Sorted Permutation DecimalN DecimalPos.

(* ================= numerals ================= *)
Definition is_digit (c : N) : Prop := 48 <= c /\ c <= 57.

Lemma uint_str_digits u : Forall is_digit (uint_str u).
Proof. induction u; cbn [uint_str]; constructor; auto; unfold is_digit; lia. Qed.
Lemma dec_digits n : Forall is_digit (dec n).
Proof. apply uint_str_digits. Qed.
Lemma digits_not_in c l : Forall is_digit l -> ~ is_digit c -> ~ In c l.
Proof. intros H Hc Hin. rewrite Forall_forall in H. auto. Qed.

Lemma str_uint_uint_str u : str_uint (uint_str u) = Some u.
Proof. induction u; cbn [uint_str str_uint]; [reflexivity|..]; rewrite IHu; reflexivity. Qed.

Lemma to_uint_nonnil n : N.to_uint n <> Decimal.Nil.
Proof. destruct n; [discriminate|]. apply DecimalPos.Unsigned.to_uint_nonnil. Qed.
Lemma uint_str_nonnil u : u <> Decimal.Nil -> uint_str u <> [].
Proof. destruct u; cbn [uint_str]; congruence. Qed.

Lemma parse_dec_dec n : parse_dec (dec n) = Some n.
Proof.
  unfold parse_dec. destruct (dec n) eqn:E.
  - exfalso. revert E. apply uint_str_nonnil, to_uint_nonnil.
  - rewrite <- E. unfold dec. rewrite str_uint_uint_str, DecimalN.Unsigned.of_to. reflexivity.
Qed.

Lemma dec_inj n m : dec n = dec m -> n = m.
Proof. intros H. pose proof (parse_dec_dec n) as H1. rewrite H, parse_dec_dec in H1. congruence. Qed.

(* ================= line parsing ================= *)
Lemma strip_prefix_app p r : strip_prefix p (p ++ r) = Some r.
Proof. induction p as [|a p IH]; cbn [strip_prefix app]; [reflexivity|]. rewrite N.eqb_refl. exact IH. Qed.

Lemma split_at_app c a b : ~ In c a -> split_at c (a ++ c :: b) = (a, Some b).
Proof.
  induction a as [|x a IH]; intros Hn; cbn [split_at app].
  - rewrite N.eqb_refl. reflexivity.
  - destruct (N.eqb_spec x c) as [->|Hne]; [exfalso; apply Hn; left; reflexivity|].
    rewrite IH; [reflexivity|]. intros Hin. apply Hn. right. assumption.
Qed.

Definition pline_ok (p : pline) : Prop := match p with PAttr k _ => ~ In 58 k | _ => True end.

Lemma parse_render p : pline_ok p -> parse_line (render_pline p) = Some p.
Proof.
  destruct p as [i|i j|k t]; intros Hok; unfold parse_line, render_pline.
  - rewrite strip_prefix_app, parse_dec_dec. reflexivity.
  - replace (strip_prefix s_node_ (s_edge_ ++ dec i ++ s_arrow ++ dec j)) with (@None str) by reflexivity.
    rewrite strip_prefix_app.
    change (s_arrow ++ dec j) with (32 :: [45;62;32] ++ dec j).
    rewrite split_at_app by (apply digits_not_in; [apply dec_digits | unfold is_digit; lia]).
    rewrite strip_prefix_app, !parse_dec_dec. reflexivity.
  - replace (strip_prefix s_node_ ([32;32] ++ k ++ [58;32] ++ t)) with (@None str) by reflexivity.
    replace (strip_prefix s_edge_ ([32;32] ++ k ++ [58;32] ++ t)) with (@None str) by reflexivity.
    rewrite strip_prefix_app.
    change ([58;32] ++ t) with (58 :: [32] ++ t).
    rewrite split_at_app by exact Hok.
    rewrite strip_prefix_app. reflexivity.
Qed.

Lemma parse_render_all ls : Forall pline_ok ls -> opt_all (map parse_line (map render_pline ls)) = Some ls.
Proof. intros H. apply opt_all_map_inv. eapply Forall_impl; [|exact H]. apply parse_render. Qed.

(* ================= regrouping the lines ================= *)
Section Extract.
  Variable E : penv.

  Lemma fold_attrs (L : amap) a es ns :
    fold_right pstep (a, es, ns) (map (fun kv => PAttr (fst kv) (debug_value E (snd kv))) L)
    = (map (fun kv => (fst kv, debug_value E (snd kv))) L ++ a, es, ns).
  Proof. induction L as [|kv L IH]; cbn [map fold_right app]; [reflexivity|]. rewrite IH. reflexivity. Qed.

  Lemma fold_attr_plines m a es ns :
    fold_right pstep (a, es, ns) (attr_plines E m) = (pattrs_of E m ++ a, es, ns).
  Proof. apply fold_attrs. Qed.

  Definition raw_edges (i : N) (L : edges) : list (N * N * pattrs) :=
    map (fun e => (i, fst e, pattrs_of E (snd e))) L.

  Lemma fold_edges i (L : edges) es ns :
    fold_right pstep ([], es, ns) (flat_map (edge_plines E i) L) = ([], raw_edges i L ++ es, ns).
  Proof.
    induction L as [|e L IH]; cbn [flat_map raw_edges map app]; [reflexivity|].
    rewrite fold_right_app, IH. unfold edge_plines. cbn [fold_right].
    rewrite fold_attr_plines, app_nil_r. reflexivity.
  Qed.

  Lemma fold_node i n ns :
    fold_right pstep ([], [], ns) (node_plines E i n)
    = ([], [], (i, pattrs_of E (g_attrs n), raw_edges i (g_edges n)) :: ns).
  Proof.
    unfold node_plines. cbn [fold_right]. rewrite fold_right_app, fold_edges, fold_attr_plines, !app_nil_r.
    reflexivity.
  Qed.

  Fixpoint raw_nodes (i : N) (g : list gnode) : list (N * pattrs * list (N * N * pattrs)) :=
    match g with
    | [] => []
    | n :: g' => (i, pattrs_of E (g_attrs n), raw_edges i (g_edges n)) :: raw_nodes (i + 1) g'
    end.

  Lemma fold_graph g : forall i, fold_right pstep ([], [], []) (graph_plines E i g) = ([], [], raw_nodes i g).
  Proof.
    induction g as [|n g IH]; intros i; cbn [graph_plines raw_nodes fold_right]; [reflexivity|].
    rewrite fold_right_app, IH, fold_node. reflexivity.
  Qed.

  Lemma check_raw_edges i L :
    opt_all (map (check_edge i) (raw_edges i L)) = Some (map (fun e => (fst e, pattrs_of E (snd e))) L).
  Proof.
    induction L as [|e L IH]; cbn [raw_edges map opt_all]; [reflexivity|].
    unfold check_edge at 1. rewrite N.eqb_refl. unfold raw_edges in IH. rewrite IH. reflexivity.
  Qed.

  Lemma check_raw_nodes g : forall i, check_nodes i (raw_nodes i g) = Some (graph_skel E g).
  Proof.
    induction g as [|n g IH]; intros i; cbn [raw_nodes check_nodes graph_skel map]; [reflexivity|].
    rewrite N.eqb_refl, check_raw_edges, IH. reflexivity.
  Qed.

  Lemma extract_pretty_plines g : extract_plines (pretty_plines E g) = Some (graph_skel E g).
  Proof. unfold extract_plines, pretty_plines. rewrite fold_graph. apply check_raw_nodes. Qed.
End Extract.

(* attribute names must not contain ':' for the printed line to be split unambiguously *)
Definition amap_names_ok (m : amap) : Prop := Forall (fun kv => ~ In 58 (fst kv)) m.
Definition graph_names_ok (g : graph) : Prop :=
  Forall (fun n => amap_names_ok (g_attrs n) /\ Forall (fun e => amap_names_ok (snd e)) (g_edges n)) g.

Lemma attr_plines_ok E m : amap_names_ok m -> Forall pline_ok (attr_plines E m).
Proof.
  intros H. unfold attr_plines. apply Forall_forall. intros p Hp. apply in_map_iff in Hp.
  destruct Hp as (kv & <- & Hin). apply sort_by_In in Hin. unfold amap_names_ok in H. rewrite Forall_forall in H.
  exact (H _ Hin).
Qed.

Lemma node_plines_ok E i n :
  amap_names_ok (g_attrs n) -> Forall (fun e => amap_names_ok (snd e)) (g_edges n) -> Forall pline_ok (node_plines E i n).
Proof.
  intros Ha He. unfold node_plines. constructor; [exact I|]. apply Forall_app. split; [apply attr_plines_ok; assumption|].
  apply Forall_forall. intros p Hp. apply in_flat_map in Hp. destruct Hp as (e & Hin & Hp).
  rewrite Forall_forall in He. specialize (He _ Hin). unfold edge_plines in Hp. destruct Hp as [<-|Hp]; [exact I|].
  pose proof (attr_plines_ok E _ He) as Hok. rewrite Forall_forall in Hok. auto.
Qed.

Lemma graph_plines_ok E g : graph_names_ok g -> forall i, Forall pline_ok (graph_plines E i g).
Proof.
  induction 1 as [|n g [Ha He] Hg IH]; intros i; cbn [graph_plines]; [constructor|].
  apply Forall_app. split; [apply node_plines_ok; assumption|apply IH].
Qed.

Lemma pretty_extract_lemma E g : graph_names_ok g -> extract_lines (pretty_lines E g) = Some (graph_skel E g).
Proof.
  intros H. unfold extract_lines, pretty_lines. rewrite parse_render_all by (apply graph_plines_ok; exact H).
  apply extract_pretty_plines.
Qed.

(* the skeleton determines node count, edges and attribute names of the graph *)
Lemma graph_skel_names E g :
  skel_names (graph_skel E g) =
  map (fun n => (map fst (sort_alist (g_attrs n)), map (fun e => (fst e, map fst (sort_alist (snd e)))) (g_edges n))) g.
Proof.
  unfold skel_names, graph_skel. rewrite map_map. apply map_ext. intros n. cbn [fst snd].
  unfold pattrs_of. rewrite !map_map. f_equal. apply map_ext. intros e. cbn [fst snd]. rewrite !map_map. reflexivity.
Qed.

(* ================= structure of the line list ================= *)
Definition attr_lines (E : penv) (m : amap) : list str :=
  map (fun kv => [32;32] ++ fst kv ++ [58;32] ++ debug_value E (snd kv)) (sort_alist m).
Definition node_block (E : penv) (i : N) (n : gnode) : list str :=
  (s_node_ ++ dec i) :: attr_lines E (g_attrs n)
  ++ flat_map (fun e => (s_edge_ ++ dec i ++ s_arrow ++ dec (fst e)) :: attr_lines E (snd e)) (g_edges n).

Lemma map_flat_map {A B C} (f : B -> C) (g : A -> list B) l : map f (flat_map g l) = flat_map (fun x => map f (g x)) l.
Proof. induction l as [|x l IH]; cbn [flat_map map]; [reflexivity|]. rewrite map_app, IH. reflexivity. Qed.

Lemma render_attr_plines E m : map render_pline (attr_plines E m) = attr_lines E m.
Proof. unfold attr_plines, attr_lines. rewrite map_map. reflexivity. Qed.

Lemma render_node_plines E i n : map render_pline (node_plines E i n) = node_block E i n.
Proof.
  unfold node_plines, node_block. cbn [map render_pline]. rewrite map_app, render_attr_plines, map_flat_map.
  f_equal. f_equal. apply flat_map_ext. intros e. unfold edge_plines. cbn [map render_pline]. rewrite render_attr_plines. reflexivity.
Qed.

Lemma graph_plines_snoc E g n : forall i,
  graph_plines E i (g ++ [n]) = graph_plines E i g ++ node_plines E (i + N.of_nat (length g)) n.
Proof.
  induction g as [|x g IH]; intros i; cbn [app graph_plines length].
  - rewrite N.add_0_r, app_nil_r. reflexivity.
  - rewrite IH, app_assoc. replace (i + 1 + N.of_nat (length g)) with (i + N.of_nat (S (length g))) by lia. reflexivity.
Qed.

Lemma pretty_lines_snoc E g n :
  pretty_lines E (g ++ [n]) = pretty_lines E g ++ node_block E (N.of_nat (length g)) n.
Proof.
  unfold pretty_lines, pretty_plines. rewrite graph_plines_snoc, map_app, render_node_plines, N.add_0_l. reflexivity.
Qed.

Lemma sorted_attrs_spec (m : amap) :
  Permutation m (sort_alist m) /\ StronglySorted key_le (sort_alist m) /\
  (attrs_wf m -> StronglySorted str_lt (map fst (sort_alist m))).
Proof.
  split; [apply sort_alist_perm|]. split; [apply sort_alist_sorted|].
  intros Hwf. apply sorted_nodup_strict; [apply sort_alist_sorted|].
  eapply Permutation_NoDup; [apply Permutation_map, sort_alist_perm|exact Hwf].
Qed.

(* ================= text <-> lines ================= *)
Definition no_nl (s : str) : Prop := ~ In 10 s.

Lemma split_lines_aux_line l : forall cur t, no_nl l ->
  split_lines_aux cur (l ++ 10 :: t) = (rev cur ++ l) :: split_lines_aux [] t.
Proof.
  induction l as [|a l IH]; intros cur t Hn; cbn [app split_lines_aux].
  - rewrite N.eqb_refl, app_nil_r. reflexivity.
  - destruct (N.eqb_spec a 10) as [->|Hne]; [exfalso; apply Hn; left; reflexivity|].
    rewrite IH by (intros Hin; apply Hn; right; assumption). cbn [rev]. rewrite <- app_assoc. reflexivity.
Qed.

Lemma split_lines_text ls : Forall no_nl ls -> split_lines (flat_map (fun l => l ++ [10]) ls) = ls.
Proof.
  unfold split_lines. induction 1 as [|l ls Hl Hls IH]; cbn [flat_map]; [reflexivity|].
  rewrite <- app_assoc. cbn [app]. rewrite split_lines_aux_line by assumption. cbn [rev app]. rewrite IH. reflexivity.
Qed.

Lemma no_nl_app a b : no_nl a -> no_nl b -> no_nl (a ++ b).
Proof. unfold no_nl. intros Ha Hb Hin. apply in_app_or in Hin. tauto. Qed.
Lemma no_nl_cons c a : c <> 10 -> no_nl a -> no_nl (c :: a).
Proof. unfold no_nl. intros Hc Ha [H|H]; auto. Qed.
Lemma no_nl_nil : no_nl [].
Proof. intros []. Qed.
Ltac nonl := repeat first [assumption | apply no_nl_nil | apply no_nl_cons; [discriminate|] | apply no_nl_app].

Lemma no_nl_uint u : no_nl (uint_str u).
Proof. induction u; cbn [uint_str]; nonl. Qed.
Lemma no_nl_dec n : no_nl (dec n).
Proof. apply no_nl_uint. Qed.
Lemma no_nl_hexuint u : no_nl (hexuint_str u).
Proof. induction u; cbn [hexuint_str]; nonl. Qed.
Lemma no_nl_hex n : no_nl (hex n).
Proof. apply no_nl_hexuint. Qed.

Lemma no_nl_esc_char E c : no_nl (esc_char E c).
Proof.
  assert (Hu : no_nl (esc_unicode c)) by (unfold esc_unicode; pose proof (no_nl_hex c); nonl).
  unfold esc_char.
  repeat match goal with
  | |- context [N.eqb ?a ?b] => destruct (N.eqb_spec a b)
  | |- context [N.ltb ?a ?b] => destruct (N.ltb_spec a b)
  end; try solve [nonl]; try (apply no_nl_cons; [assumption|apply no_nl_nil]).
  destruct (nlookup c (pe_print E)) as [[|]|]; try assumption; apply no_nl_cons; try assumption; apply no_nl_nil.
Qed.

Lemma no_nl_flat_map {A} (f : A -> str) l : (forall x, no_nl (f x)) -> no_nl (flat_map f l).
Proof. intros H. induction l as [|x l IH]; cbn [flat_map]; [apply no_nl_nil|]. apply no_nl_app; auto. Qed.

Lemma no_nl_join sep l : no_nl sep -> Forall no_nl l -> no_nl (join sep l).
Proof.
  intros Hs. induction 1 as [|x l Hx Hl IH]; cbn [join]; [apply no_nl_nil|].
  destruct l; [assumption|]. nonl.
Qed.

Lemma nlookup_In {A} k (l : list (N * A)) x : nlookup k l = Some x -> In (k, x) l.
Proof.
  induction l as [|[k' a] l IH]; cbn [nlookup]; [discriminate|].
  destruct (N.eqb_spec k k') as [->|Hne]; [intros [= ->]; left; reflexivity | intros H; right; auto].
Qed.

(* the recorded kinds of syntax nodes contain no newline (tree-sitter node kinds are grammar symbols) *)
Definition env_ok (E : penv) : Prop := Forall (fun e => no_nl (fst (snd e))) (pe_syn E).

Lemma no_nl_debug_value E v : env_ok E -> no_nl (debug_value E v).
Proof.
  intros HE. induction v using value_ind'; cbn [debug_value].
  - nonl.
  - destruct b; nonl.
  - apply no_nl_dec.
  - unfold debug_str. pose proof (no_nl_flat_map (esc_char E) s (no_nl_esc_char E)). nonl.
  - assert (Forall no_nl (map (debug_value E) l)) by (apply Forall_map; assumption).
    pose proof (no_nl_join [44;32] _ ltac:(nonl) H0). nonl.
  - assert (Forall no_nl (map (debug_value E) l)) by (apply Forall_map; assumption).
    pose proof (no_nl_join [44;32] _ ltac:(nonl) H0). nonl.
  - unfold debug_syn. destruct (nlookup n (pe_syn E)) as [[kind [row col]]|] eqn:El.
    + apply nlookup_In in El. unfold env_ok in HE. rewrite Forall_forall in HE. specialize (HE _ El). cbn [fst snd] in HE.
      pose proof (no_nl_dec (row + 1)). pose proof (no_nl_dec (col + 1)). nonl.
    + pose proof (no_nl_dec (0 + 1)). nonl.
  - pose proof (no_nl_dec n). nonl.
Qed.

Definition amap_names_nl (m : amap) : Prop := Forall (fun kv => no_nl (fst kv)) m.
Definition graph_names_nl (g : graph) : Prop :=
  Forall (fun n => amap_names_nl (g_attrs n) /\ Forall (fun e => amap_names_nl (snd e)) (g_edges n)) g.

Lemma no_nl_attr_lines E m : env_ok E -> amap_names_nl m -> Forall no_nl (attr_lines E m).
Proof.
  intros HE H. unfold attr_lines. apply Forall_forall. intros s Hs. apply in_map_iff in Hs.
  destruct Hs as (kv & <- & Hin). apply sort_by_In in Hin. unfold amap_names_nl in H. rewrite Forall_forall in H.
  specialize (H _ Hin). pose proof (no_nl_debug_value E (snd kv) HE). nonl.
Qed.

Lemma no_nl_node_block E i n : env_ok E ->
  amap_names_nl (g_attrs n) -> Forall (fun e => amap_names_nl (snd e)) (g_edges n) -> Forall no_nl (node_block E i n).
Proof.
  intros HE Ha He. unfold node_block. constructor.
  - pose proof (no_nl_dec i). unfold s_node_. nonl.
  - apply Forall_app. split; [apply no_nl_attr_lines; assumption|].
    apply Forall_forall. intros s Hs. apply in_flat_map in Hs. destruct Hs as (e & Hin & Hs).
    rewrite Forall_forall in He. specialize (He _ Hin). destruct Hs as [<-|Hs].
    + pose proof (no_nl_dec i). pose proof (no_nl_dec (fst e)). unfold s_edge_, s_arrow. nonl.
    + pose proof (no_nl_attr_lines E _ HE He) as Hok. rewrite Forall_forall in Hok. auto.
Qed.

Lemma graph_lines_no_nl E g : env_ok E -> graph_names_nl g -> forall i, Forall no_nl (map render_pline (graph_plines E i g)).
Proof.
  intros HE. induction 1 as [|n g [Ha He] Hg IH]; intros i; cbn [graph_plines map]; [constructor|].
  rewrite map_app, render_node_plines. apply Forall_app. split; [apply no_nl_node_block; assumption|apply IH].
Qed.

Lemma pretty_text_lines_lemma E g : env_ok E -> graph_names_nl g -> split_lines (pretty_text E g) = pretty_lines E g.
Proof. intros HE Hg. unfold pretty_text. apply split_lines_text. apply graph_lines_no_nl; assumption. Qed.

Lemma pretty_lines_spec_lemma : forall E,
  pretty_lines E [] = [] /\
  (forall g n, pretty_lines E (g ++ [n]) = pretty_lines E g ++ node_block E (N.of_nat (length g)) n) /\
  (forall i n, node_block E i n =
     (s_node_ ++ dec i) :: attr_lines E (g_attrs n)
     ++ flat_map (fun e => (s_edge_ ++ dec i ++ s_arrow ++ dec (fst e)) :: attr_lines E (snd e)) (g_edges n)) /\
  (forall m, attr_lines E m = map (fun kv => [32;32] ++ fst kv ++ [58;32] ++ debug_value E (snd kv)) (sort_alist m) /\
             Permutation m (sort_alist m) /\ StronglySorted key_le (sort_alist m) /\
             (attrs_wf m -> StronglySorted str_lt (map fst (sort_alist m)))).
Proof.
  intros E. split; [reflexivity|]. split; [apply pretty_lines_snoc|]. split; [reflexivity|].
  intros m. split; [reflexivity|]. apply sorted_attrs_spec.
Qed.

(* ---- the pretty TEXT determines the graph's printable content (completeness of pretty_print) ---- *)
Lemma pretty_text_determines_skel_lemma E g1 g2 :
  env_ok E -> graph_names_nl g1 -> graph_names_nl g2 -> graph_names_ok g1 -> graph_names_ok g2 ->
  pretty_text E g1 = pretty_text E g2 -> graph_skel E g1 = graph_skel E g2.
Proof.
  intros HE Hn1 Hn2 Ho1 Ho2 Heq.
  assert (Hl : pretty_lines E g1 = pretty_lines E g2).
  { rewrite <- (pretty_text_lines_lemma E g1 HE Hn1), <- (pretty_text_lines_lemma E g2 HE Hn2), Heq. reflexivity. }
  pose proof (pretty_extract_lemma E g1 Ho1) as H1. pose proof (pretty_extract_lemma E g2 Ho2) as H2.
  rewrite Hl in H1. rewrite H1 in H2. injection H2 as H2. exact H2.
Qed.

Lemma graph_skel_length E g : length (graph_skel E g) = length g.
Proof. unfold graph_skel. apply map_length. Qed.

(* what two graphs with the same skeleton share: node count, per node the sorted attribute names with the
   Debug text of each value, per node the sinks in stored order, per edge the same for its attributes *)
Lemma graph_skel_eq_shape E g1 g2 : graph_skel E g1 = graph_skel E g2 ->
  length g1 = length g2 /\
  map (fun n => map fst (g_edges n)) g1 = map (fun n => map fst (g_edges n)) g2 /\
  map (fun n => map (fun kv => (fst kv, debug_value E (snd kv))) (sort_alist (g_attrs n))) g1 =
  map (fun n => map (fun kv => (fst kv, debug_value E (snd kv))) (sort_alist (g_attrs n))) g2.
Proof.
  intros H. split; [rewrite <- (graph_skel_length E g1), <- (graph_skel_length E g2), H; reflexivity|].
  split.
  - assert (Hm : map (fun p : pattrs * list (N * pattrs) => map fst (snd p)) (graph_skel E g1) =
                 map (fun p : pattrs * list (N * pattrs) => map fst (snd p)) (graph_skel E g2)) by (rewrite H; reflexivity).
    unfold graph_skel in Hm. rewrite !map_map in Hm. cbn [fst snd] in Hm.
    erewrite map_ext in Hm; [rewrite Hm; symmetry|]; [erewrite map_ext; [reflexivity|] |];
      intros n; cbn [snd]; rewrite map_map; reflexivity.
  - assert (Hm : map fst (graph_skel E g1) = map fst (graph_skel E g2)) by (rewrite H; reflexivity).
    unfold graph_skel in Hm. rewrite !map_map in Hm. cbn [fst] in Hm. exact Hm.
Qed.

(* ---- line count: every node, every attribute, every edge and every edge attribute is printed on exactly one line ---- *)
Definition node_line_count (n : gnode) : nat :=
  (1 + length (g_attrs n) + fold_right (fun e acc => 1 + length (snd e) + acc) 0 (g_edges n))%nat.
Definition graph_line_count (g : graph) : nat := fold_right (fun n acc => (node_line_count n + acc)%nat) 0%nat g.

Lemma attr_plines_length E m : length (attr_plines E m) = length m.
Proof. unfold attr_plines. rewrite map_length. symmetry. apply Permutation_length, sort_alist_perm. Qed.

Lemma edge_plines_length E i es :
  length (flat_map (edge_plines E i) es) = fold_right (fun e acc => (1 + length (snd e) + acc)%nat) 0%nat es.
Proof.
  induction es as [|e es IH]; cbn [flat_map fold_right]; [reflexivity|].
  rewrite app_length, IH. unfold edge_plines. cbn [length]. rewrite attr_plines_length. reflexivity.
Qed.

Lemma node_plines_length E i n : length (node_plines E i n) = node_line_count n.
Proof.
  unfold node_plines, node_line_count. cbn [length]. rewrite app_length, attr_plines_length, edge_plines_length. reflexivity.
Qed.

Lemma graph_plines_length E g : forall i, length (graph_plines E i g) = graph_line_count g.
Proof.
  induction g as [|n g IH]; intros i; cbn [graph_plines graph_line_count fold_right]; [reflexivity|].
  rewrite app_length, node_plines_length, IH. reflexivity.
Qed.

Lemma pretty_lines_count E g : length (pretty_lines E g) = graph_line_count g.
Proof. unfold pretty_lines, pretty_plines. rewrite map_length. apply graph_plines_length. Qed.
