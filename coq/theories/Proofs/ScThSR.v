(* Proofs/ScThSR.v — C08 WITH scoped variables inside thunks, part 4: SR_step and SR_swap of Proofs/ScPermSR.v stated
   for ANY typing of deltas: what they need is only that the renaming fixes (resp. agrees with the shifts on) the
   deltas and the common prefix state.  Instantiated with the kinded deltas of Proofs/ScThSwap.v. *)
From Coq Require Import Permutation.
From TSG Require Import Model.Lazy Proofs.BaseFacts Proofs.Containers Proofs.MonadFacts Proofs.SLForce Proofs.SLExpr Proofs.BlockPermRen Proofs.BlockPermSim Proofs.BlockPermSwap
  Proofs.BlockPermGraph Proofs.ScPermSound Proofs.ScPermSim Proofs.ScPermSwap Proofs.ScPermTyped Proofs.ScPermSR Proofs.ScThSim Proofs.ScThSwap Proofs.ScThTyped.

Lemma map_eq_in {A B} (f g : A -> B) l : map f l = map g l -> forall x, In x l -> f x = g x.
Proof. induction l as [|y l IH]; cbn [map]; intros E x []; inversion E; subst; auto. Qed.
Lemma map_id_in {A} (f : A -> A) l : map f l = l -> forall x, In x l -> f x = x.
Proof. intros E. apply (map_eq_in f (fun x => x)). rewrite E, map_id. reflexivity. Qed.
Lemma dren2_comp rg rl rg' rl' d : dren2 rg rl (dren2 rg' rl' d) = dren2 (fun i => rg (rg' i)) (fun l => rl (rl' l)) d.
Proof.
  unfold dren2. cbn [e_nodes e_thunks e_edges e_attrs e_prints e_defs]. f_equal; rewrite map_map; apply map_ext; intros x;
    [apply thren_comp|apply lsren_comp|apply lsren_comp|apply lsren_comp|apply dfren_comp].
Qed.

Section SRgen.
  Variable g0 : graph.
  Notation n0 := (N.of_nat (length g0)).

  (* appending the same delta, fixed by the renaming, to both states *)
  Theorem SR_step_gen rg rl s s' d s1 s1' : SR g0 rg rl s s' -> n0 <= gn s -> (forall i, i < n0 \/ gn s <= i -> rg i = i) -> (forall l, sn s <= l -> rl l = l) ->
    allunf (l_scoped s) -> extends2 s d s1 -> extends2 s' d s1' -> Forall nplain (e_nodes d) -> dren2 rg rl d = d -> SR g0 rg rl s1 s1'.
  Proof.
    intros ((ns & ns' & Hg & Hg' & Hlen & Hpl & Hnth) & (Hsl & Hst) & He & Ha & Hp & (Hu' & Hc)) Hn0 Hrg Hrl Hu X X' On Hfix.
    pose proof (f_equal e_thunks Hfix) as Fth. pose proof (f_equal e_edges Hfix) as Fe. pose proof (f_equal e_attrs Hfix) as Fa.
    pose proof (f_equal e_prints Hfix) as Fp. pose proof (f_equal e_defs Hfix) as Fd. cbn [dren2 e_thunks e_edges e_attrs e_prints e_defs] in Fth, Fe, Fa, Fp, Fd.
    destruct X as (Xg & Xs & Xe & Xa & Xp & _ & Xc & _). destruct X' as (Xg' & Xs' & Xe' & Xa' & Xp' & _ & Xc' & _).
    assert (Egn : gn s = n0 + N.of_nat (length ns)) by (unfold gn; rewrite Hg, app_length; lia).
    split; [|split; [|split; [|split; [|split]]]].
    - exists (ns ++ e_nodes d), (ns' ++ e_nodes d). rewrite Xg, Xg', Hg, Hg', <- !app_assoc. split; [reflexivity|]. split; [reflexivity|].
      split; [rewrite !app_length; lia|]. split; [apply Forall_app; split; [exact Hpl|exact On]|]. intros j nd Ej.
      destruct (Nat.lt_ge_cases j (length ns)) as [Hlt|Hge].
      + rewrite nth_error_app1 in Ej by exact Hlt. specialize (Hnth _ _ Ej). rewrite nth_error_app1; [exact Hnth|]. apply nth_error_Some. congruence.
      + rewrite nth_error_app2 in Ej by exact Hge. rewrite (Hrg (n0 + N.of_nat j)) by (right; lia).
        replace (N.to_nat (n0 + N.of_nat j - n0)) with j by lia. rewrite nth_error_app2 by lia. rewrite <- Hlen. exact Ej.
    - rewrite Xs, Xs', !app_length. split; [lia|]. intros i th Ei. destruct (Nat.lt_ge_cases i (length (l_store s))) as [Hlt|Hge].
      + rewrite nth_error_app1 in Ei by exact Hlt. specialize (Hst _ _ Ei). rewrite nth_error_app1; [exact Hst|]. apply nth_error_Some. congruence.
      + rewrite nth_error_app2 in Ei by exact Hge. rewrite (Hrl (N.of_nat i)) by (unfold sn; lia). rewrite Nat2N.id. rewrite nth_error_app2 by lia. rewrite <- Hsl.
        assert (Eth : nth_error (map (thren rg rl) (e_thunks d)) (i - length (l_store s)) = Some (thren rg rl th)) by (rewrite nth_error_map, Ei; reflexivity).
        rewrite Fth in Eth. exact Eth.
    - rewrite Xe, Xe', map_app, Fe. apply Permutation_app_tail, He.
    - rewrite Xa, Xa', map_app, Fa. apply Permutation_app_tail, Ha.
    - rewrite Xp, Xp', map_app, Fp. apply Permutation_app_tail, Hp.
    - split; [rewrite Xc'; apply allunf_addl, Hu'|]. intros name. destruct (Hc name) as [Hnone Hperm]. split.
      + rewrite Xc, Xc', (addl_none _ _ name Hu), (addl_none _ _ name Hu'). rewrite Hnone. reflexivity.
      + rewrite Xc, Xc', (addl_cellps _ _ name Hu), (addl_cellps _ _ name Hu'), map_app. apply Permutation_app; [exact Hperm|].
        rewrite <- (pairs_of_map name (dfren rg rl) (prren rg rl) (e_defs d) (dfren_prren rg rl)), Fd. apply Permutation_refl.
  Qed.

  (* exchanging two adjacent blocks *)
  Section Swap.
    Variables (X XA SAB XB SBA : lstate) (dA dB : delta2).
    Hypothesis Hn0 : n0 <= gn X.
    Hypothesis EA : extends2 X dA XA.
    Hypothesis EB : extends2 X dB XB.
    Hypothesis EAB : extends2 XA (dren2 (shg (gn X) (gn XA)) (shl (sn X) (sn XA)) dB) SAB.
    Hypothesis EBA : extends2 XB (dren2 (shg (gn X) (gn XB)) (shl (sn X) (sn XB)) dA) SBA.
    Notation rg := (srg X dA dB).
    Notation rl := (srl X dA dB).
    Hypothesis HXg : exists nsX, l_graph X = g0 ++ nsX /\ Forall nplain nsX.
    Hypothesis HXu : allunf (l_scoped X).
    Hypothesis HXth : forall th, In th (l_store X) -> thren rg rl th = th.
    Hypothesis HXst : forall st, In st (l_edges X) \/ In st (l_attrs X) \/ In st (l_prints X) -> lsren rg rl st = st.
    Hypothesis HXpr : forall name pr, In pr (cellps (l_scoped X) name) -> prren rg rl pr = pr.
    Hypothesis HAn : Forall nplain (e_nodes dA).
    Hypothesis HBn : Forall nplain (e_nodes dB).
    Hypothesis HAeq : dren2 rg rl dA = dren2 (shg (gn X) (gn XB)) (shl (sn X) (sn XB)) dA.
    Hypothesis HBeq : dren2 rg rl (dren2 (shg (gn X) (gn XA)) (shl (sn X) (sn XA)) dB) = dB.

    Theorem SR_swap_gen : SR g0 rg rl SAB SBA.
    Proof.
      destruct HXg as (nsX & HgX & HplX).
      destruct EA as (Ag & As & Ae & Aa & Ap & _ & Ac & _). destruct EB as (Bg & Bs & Be & Ba & Bp & _ & Bc & _).
      destruct EAB as (ABg & ABs & ABe & ABa & ABp & _ & ABc & _). destruct EBA as (BAg & BAs & BAe & BAa & BAp & _ & BAc & _).
      cbn [dren2 e_nodes e_thunks e_edges e_attrs e_prints e_defs] in ABg, ABs, ABe, ABa, ABp, ABc, BAg, BAs, BAe, BAa, BAp, BAc.
      pose proof (f_equal e_thunks HAeq) as At. pose proof (f_equal e_edges HAeq) as Aee. pose proof (f_equal e_attrs HAeq) as Aae.
      pose proof (f_equal e_prints HAeq) as Ape. pose proof (f_equal e_defs HAeq) as Ade.
      pose proof (f_equal e_thunks HBeq) as Bt. pose proof (f_equal e_edges HBeq) as Bee. pose proof (f_equal e_attrs HBeq) as Bae.
      pose proof (f_equal e_prints HBeq) as Bpe. pose proof (f_equal e_defs HBeq) as Bde.
      cbn [dren2 e_thunks e_edges e_attrs e_prints e_defs] in At, Aee, Aae, Ape, Ade, Bt, Bee, Bae, Bpe, Bde.
      assert (EgX : gn X = n0 + N.of_nat (length nsX)) by (unfold gn; rewrite HgX, app_length; lia).
      assert (Hstm : forall LX EA0 EB0, (forall st, In st LX -> lsren rg rl st = st) ->
                 map (lsren rg rl) EA0 = map (lsren (shg (gn X) (gn XB)) (shl (sn X) (sn XB))) EA0 ->
                 map (lsren rg rl) (map (lsren (shg (gn X) (gn XA)) (shl (sn X) (sn XA))) EB0) = EB0 ->
                 Permutation (map (lsren rg rl) (LX ++ EA0 ++ map (lsren (shg (gn X) (gn XA)) (shl (sn X) (sn XA))) EB0))
                             (LX ++ EB0 ++ map (lsren (shg (gn X) (gn XB)) (shl (sn X) (sn XB))) EA0)).
      { intros LX EA0 EB0 H1 H2 H3. apply perm_swap3; [exact H1|apply map_eq_in, H2|]. rewrite map_map in H3. apply (map_id_in _ _ H3). }
      split; [|split; [|split; [|split; [|split]]]].
      - exists (nsX ++ e_nodes dA ++ e_nodes dB), (nsX ++ e_nodes dB ++ e_nodes dA). rewrite ABg, Ag, BAg, Bg, HgX, <- !app_assoc.
        split; [reflexivity|]. split; [reflexivity|]. split; [rewrite !app_length; lia|].
        split; [apply Forall_app; split; [exact HplX|apply Forall_app; split; assumption]|]. intros j nd Ej.
        unfold srg. rewrite EgX, swp_base.
        pose proof (nth_swap3 (fun x => x) (fun x => x) (fun x => x) nsX (e_nodes dA) (e_nodes dB) (fun _ _ => eq_refl) (fun _ _ => eq_refl) (fun _ _ => eq_refl) (N.of_nat j) nd) as H.
        rewrite map_id, Nat2N.id in H. specialize (H Ej). rewrite map_id in H. exact H.
      - rewrite ABs, As, BAs, Bs, <- !app_assoc. split; [rewrite !app_length, !map_length; lia|]. intros i th Ei.
        apply (nth_swap3 (thren rg rl) (thren (shg (gn X) (gn XA)) (shl (sn X) (sn XA))) (thren (shg (gn X) (gn XB)) (shl (sn X) (sn XB))) (l_store X) (e_thunks dA) (e_thunks dB)).
        + exact HXth.
        + apply map_eq_in, At.
        + rewrite map_map in Bt. apply (map_id_in _ _ Bt).
        + rewrite Nat2N.id. exact Ei.
      - rewrite ABe, Ae, BAe, Be, <- !app_assoc. apply Hstm; [intros st Hin; apply HXst; auto|exact Aee|exact Bee].
      - rewrite ABa, Aa, BAa, Ba, <- !app_assoc. apply Hstm; [intros st Hin; apply HXst; auto|exact Aae|exact Bae].
      - rewrite ABp, Ap, BAp, Bp, <- !app_assoc. apply Hstm; [intros st Hin; apply HXst; auto|exact Ape|exact Bpe].
      - assert (UA : allunf (l_scoped XA)) by (rewrite Ac; apply allunf_addl, HXu). assert (UB : allunf (l_scoped XB)) by (rewrite Bc; apply allunf_addl, HXu).
        split; [rewrite BAc; apply allunf_addl, UB|]. intros name. split.
        + rewrite ABc, BAc, (addl_none _ _ name UA), (addl_none _ _ name UB), Ac, Bc, (addl_none _ _ name HXu), (addl_none _ _ name HXu).
          rewrite (pairs_of_map name _ _ (e_defs dB) (dfren_prren (shg (gn X) (gn XA)) (shl (sn X) (sn XA)))), (pairs_of_map name _ _ (e_defs dA) (dfren_prren (shg (gn X) (gn XB)) (shl (sn X) (sn XB)))).
          destruct (pairs_of name (e_defs dA)), (pairs_of name (e_defs dB)); cbn [map]; split; intros [[H1 H2] H3]; repeat split; try assumption; try discriminate.
        + rewrite ABc, BAc, (addl_cellps _ _ name UA), (addl_cellps _ _ name UB), Ac, Bc, (addl_cellps _ _ name HXu), (addl_cellps _ _ name HXu), <- !app_assoc.
          rewrite (pairs_of_map name _ _ (e_defs dB) (dfren_prren (shg (gn X) (gn XA)) (shl (sn X) (sn XA)))), (pairs_of_map name _ _ (e_defs dA) (dfren_prren (shg (gn X) (gn XB)) (shl (sn X) (sn XB)))).
          apply perm_swap3.
          * intros pr Hin. apply (HXpr name), Hin.
          * intros pr Hin. unfold pairs_of in Hin. apply in_map_iff in Hin as (df & <- & Hdf). apply filter_In in Hdf as [Hdf _].
            pose proof (map_eq_in _ _ _ Ade df Hdf) as H. apply (f_equal snd) in H. exact H.
          * intros pr Hin. unfold pairs_of in Hin. apply in_map_iff in Hin as (df & <- & Hdf). apply filter_In in Hdf as [Hdf _].
            rewrite map_map in Bde. pose proof (map_id_in _ _ Bde df Hdf) as H. apply (f_equal snd) in H. exact H.
    Qed.
  End Swap.
End SRgen.

(* ---------------- the kinded deltas satisfy the hypotheses ---------------- *)
Section Inst.
  Variable okfn : ident -> Prop.
  Variable g0 : graph.
  Notation n0 := (N.of_nat (length g0)).

  Lemma ok3_nodes gb kb d : delta_ok3 ea0 okfn n0 gb kb d -> Forall nplain (e_nodes d).
  Proof. intros (ks & _ & H & _). exact H. Qed.
  Lemma ok3_fix rg rl s d : delta_ok3 ea0 okfn n0 (gn s) (sn s) d -> (forall i, i < n0 \/ gn s <= i -> rg i = i) -> (forall l, sn s <= l -> rl l = l) -> dren2 rg rl d = d.
  Proof.
    intros Od Hrg Hrl. rewrite (dren2_ext3 ea0 okfn n0 (gn s) (sn s) rg (fun i => i) rl (fun l => l) d Od); [apply dren2_id| |].
    - intros i [Hi|[Hi _]]; apply Hrg; [left|right]; assumption.
    - intros l [Hl _]. apply Hrl, Hl.
  Qed.
  Lemma ok3_A X XB dA dB : n0 <= gn X -> extends2 X dB XB -> delta_ok3 ea0 okfn n0 (gn X) (sn X) dA ->
    dren2 (srg X dA dB) (srl X dA dB) dA = dren2 (shg (gn X) (gn XB)) (shl (sn X) (sn XB)) dA.
  Proof. intros Hn E Od. apply (dren2_ext3 ea0 okfn n0 (gn X) (sn X) _ _ _ _ dA Od); [apply (agree_A_g g0 X XB dA dB Hn E)|apply (agree_A_l g0 X XB dA dB Hn E)]. Qed.
  Lemma ok3_B X XA dA dB : n0 <= gn X -> extends2 X dA XA -> delta_ok3 ea0 okfn n0 (gn X) (sn X) dB ->
    dren2 (srg X dA dB) (srl X dA dB) (dren2 (shg (gn X) (gn XA)) (shl (sn X) (sn XA)) dB) = dB.
  Proof.
    intros Hn E Od. rewrite dren2_comp. rewrite (dren2_ext3 ea0 okfn n0 (gn X) (sn X) _ (fun i => i) _ (fun l => l) dB Od); [apply dren2_id| |].
    - apply (agree_B_g g0 X XA dA dB Hn E).
    - apply (agree_B_l g0 X XA dA dB Hn E).
  Qed.
End Inst.
