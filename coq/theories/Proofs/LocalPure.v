(* Proofs/LocalPure.v — C06 locality, semantic half, part 1: facts about pure lazy values and the small program
   logic used for the lazy interpreter:
     tr P m Q    from every state whose (store, locals) satisfy P, the computation m
                 (a) commutes with replacing the scoped store: it neither reads nor writes `l_scoped`,
                 (b) if it succeeds: the store only grew / forced thunks (`sext`), the scoped store and the deferred
                     statement lists are untouched (`quiet`), and (store, locals) satisfy Q. *)
From TSG Require Import Spec.PureLv Proofs.BaseFacts Proofs.MonadFacts Proofs.Containers.

(* ---------------- sext ---------------- *)
Lemma sext_refl st : sext st st.
Proof. split; [lia|]. intros i th H. exists th. auto. Qed.
Lemma sext_trans a b c : sext a b -> sext b c -> sext a c.
Proof.
  intros [L1 H1] [L2 H2]. split; [lia|]. intros i th H. destruct (H1 _ _ H) as (th1 & N1 & D1 & S1).
  destruct (H2 _ _ N1) as (th2 & N2 & D2 & S2). exists th2. split; [exact N2|]. split; [congruence|].
  destruct S2 as [S2|[v S2]]; [|right; eauto]. destruct S1 as [S1|[v S1]]; [left; congruence|right; exists v; congruence].
Qed.
Lemma sext_app st x : sext st (st ++ x).
Proof.
  split; [rewrite app_length; lia|]. intros i th H. exists th. split; [|auto].
  rewrite nth_error_app1; [exact H|]. apply nth_error_Some. congruence.
Qed.
Lemma quiet_refl s : quiet s s. Proof. repeat split. Qed.
Lemma quiet_trans a b c : quiet a b -> quiet b c -> quiet a c.
Proof. unfold quiet. intros (A1 & A2 & A3 & A4 & A5) (B1 & B2 & B3 & B4 & B5). repeat split; congruence. Qed.

(* ---------------- purity is monotone ---------------- *)
Lemma pure_loc_mono st st' l : pure_loc st l ->
  (forall i th, (i <= N.to_nat l)%nat -> nth_error st i = Some th ->
     exists th', nth_error st' i = Some th' /\ (th_state th' = th_state th \/ exists v, th_state th' = TForced v)) ->
  pure_loc st' l.
Proof.
  induction 1 as [loc th v Hn Hs|loc th lv Hn Hs Hns Hlt Hp IH]; intros Hx.
  - destruct (Hx _ _ (le_n _) Hn) as (th' & Hn' & [E|[v' E]]); eapply PLoc_forced; try exact Hn'; [rewrite E; exact Hs|exact E].
  - destruct (Hx _ _ (le_n _) Hn) as (th' & Hn' & [E|[v' E]]); [|eapply PLoc_forced; [exact Hn'|exact E]].
    eapply PLoc_unforced; [exact Hn'|rewrite E; exact Hs|exact Hns|exact Hlt|]. intros l Hin. apply (IH _ Hin).
    intros i th0 Hi. apply Hx. specialize (Hlt _ Hin). lia.
Qed.
Lemma pure_loc_sext st st' l : sext st st' -> pure_loc st l -> pure_loc st' l.
Proof.
  intros [_ H] Hp. eapply pure_loc_mono; [exact Hp|]. intros i th _ Hn. destruct (H _ _ Hn) as (th' & A & _ & B). eauto.
Qed.
Lemma pure_lv_sext st st' lv : sext st st' -> pure_lv st lv -> pure_lv st' lv.
Proof. intros Hs [H1 H2]. split; [exact H1|]. intros l Hin. eapply pure_loc_sext; eauto. Qed.
Lemma Forall2_impl' {A B} (R R' : A -> B -> Prop) l l' : (forall a b, R a b -> R' a b) -> Forall2 R l l' -> Forall2 R' l l'.
Proof. intros H. induction 1; constructor; auto. Qed.
Lemma locals_ok_sext st st' env l : sext st st' -> locals_ok st env l -> locals_ok st' env l.
Proof.
  intros Hs H. unfold locals_ok in *. eapply Forall2_impl'; [|exact H]. intros a b Hab. eapply Forall2_impl'; [|exact Hab].
  intros x y [E Hxy]. split; [exact E|]. intros Hb. destruct (Hxy Hb) as [M Hp]. split; [exact M|]. eapply pure_lv_sext; eauto.
Qed.

(* ---------------- structure of pure_lv ---------------- *)
Lemma pure_lv_value st v : pure_lv st (LValue v). Proof. split; [reflexivity|intros l []]. Qed.
Lemma pure_lv_var st loc : pure_lv st (LVar loc) <-> pure_loc st loc.
Proof. split; [intros [_ H]; apply H; left; reflexivity|]. intros H. split; [reflexivity|]. intros l [<-|[]]. exact H. Qed.
Lemma pure_lv_scoped st sc x : ~ pure_lv st (LScoped sc x). Proof. intros [H _]. discriminate. Qed.
Lemma pure_lvs_iff st (l : list lvalue) :
  (forallb lv_noscoped l = true /\ forall x, In x (flat_map lv_locs l) -> pure_loc st x) <-> Forall (pure_lv st) l.
Proof.
  induction l as [|a l IH]; cbn [forallb flat_map].
  - split; [constructor|]. intros _. split; [reflexivity|intros x []].
  - split.
    + intros [H1 H2]. apply andb_true_iff in H1. destruct H1 as [A B]. constructor.
      * split; [exact A|]. intros x Hx. apply H2. apply in_or_app. left. exact Hx.
      * apply IH. split; [exact B|]. intros x Hx. apply H2. apply in_or_app. right. exact Hx.
    + intros H. inversion H as [|? ? [A1 A2] Hl]; subst. apply IH in Hl. destruct Hl as [B1 B2]. split; [rewrite A1, B1; reflexivity|].
      intros x Hx. apply in_app_or in Hx. destruct Hx; auto.
Qed.
Lemma pure_lv_list st l : pure_lv st (LList l) <-> Forall (pure_lv st) l. Proof. apply pure_lvs_iff. Qed.
Lemma pure_lv_set st l : pure_lv st (LSet l) <-> Forall (pure_lv st) l. Proof. apply pure_lvs_iff. Qed.
Lemma pure_lv_call st f l : pure_lv st (LCall f l) <-> Forall (pure_lv st) l. Proof. apply pure_lvs_iff. Qed.

(* a fresh thunk whose body is pure in the current store *)
Lemma pure_loc_new st lv dbg : pure_lv st lv -> (forall l, In l (lv_locs lv) -> l < N.of_nat (length st)) ->
  pure_loc (st ++ [{| th_state := TUnforced lv; th_dbg := dbg |}]) (N.of_nat (length st)).
Proof.
  intros [H1 H2] Hlt. eapply PLoc_unforced; [rewrite Nat2N.id, nth_error_app2, Nat.sub_diag; [reflexivity|lia]|reflexivity|exact H1|exact Hlt|].
  intros l Hin. eapply pure_loc_sext; [apply sext_app|]. apply H2. exact Hin.
Qed.
(* every location mentioned by a pure value exists *)
Lemma pure_loc_lt st l : pure_loc st l -> l < N.of_nat (length st).
Proof.
  intros H. assert (Hn : nth_error st (N.to_nat l) <> None) by (destruct H as [? ? ? Hn _|? ? ? Hn _ _ _ _]; congruence).
  apply nth_error_Some in Hn. lia.
Qed.

(* ---------------- the logic ---------------- *)
Notation LM := (M lstate).
Definition SP := list thunk -> varmap lvalue -> Prop.

Definition tr {A} (P : SP) (m : LM A) (Q : A -> SP) : Prop :=
  forall ls p, P (l_store ls) (l_locals ls) ->
    (forall sc, m (with_scoped sc ls) p = omap_scoped sc (m ls p)) /\
    (forall a ls' p', m ls p = Ok (a, ls', p') ->
       sext (l_store ls) (l_store ls') /\ quiet ls ls' /\ Q a (l_store ls') (l_locals ls')).

Lemma tr_false {A} (P : SP) (m : LM A) Q : (forall st l, P st l -> False) -> tr P m Q.
Proof. intros H ls p HP. destruct (H _ _ HP). Qed.
Lemma tr_conseq {A} (P P' : SP) (m : LM A) (Q Q' : A -> SP) :
  (forall st l, P' st l -> P st l) -> (forall a st l, Q a st l -> Q' a st l) -> tr P m Q -> tr P' m Q'.
Proof.
  intros HP HQ H ls p HP'. destruct (H ls p (HP _ _ HP')) as [C R]. split; [exact C|]. intros a ls' p' E.
  destruct (R _ _ _ E) as (S1 & Q1 & HQ1). auto.
Qed.
Lemma tr_ret {A} (P : SP) (a : A) (Q : A -> SP) : (forall st l, P st l -> Q a st l) -> tr P (ret a) Q.
Proof.
  intros H ls p HP. split; [reflexivity|]. intros a' ls' p' E. apply ret_ok in E. destruct E as (-> & -> & ->).
  split; [apply sext_refl|]. split; [apply quiet_refl|auto].
Qed.
Lemma tr_bind {A B} (P : SP) (m : LM A) (Q : A -> SP) (f : A -> LM B) (R : B -> SP) :
  tr P m Q -> (forall a, tr (Q a) (f a) R) -> tr P (bind m f) R.
Proof.
  intros Hm Hf ls p HP. destruct (Hm ls p HP) as [C1 H1]. split.
  - intros sc. unfold bind. rewrite C1. destruct (m ls p) as [[[a ls1] p1]|e|x|] eqn:E; cbn [omap_scoped]; try reflexivity.
    destruct (H1 _ _ _ eq_refl) as (S1 & Q1 & HQ). exact (proj1 (Hf a ls1 p1 HQ) sc).
  - intros b ls' p' H. apply bind_ok in H. destruct H as (a & ls1 & p1 & E & H2). destruct (H1 _ _ _ E) as (S1 & Q1 & HQ).
    destruct (proj2 (Hf a ls1 p1 HQ) _ _ _ H2) as (S2 & Q2 & HR).
    split; [eapply sext_trans; eassumption|]. split; [eapply quiet_trans; eassumption|exact HR].
Qed.
(* facts about the store that survive growth can be carried across *)
Definition stable (F : list thunk -> Prop) : Prop := forall st st', sext st st' -> F st -> F st'.
Lemma tr_frame {A} (F : list thunk -> Prop) (P : SP) (m : LM A) (Q : A -> SP) :
  stable F -> tr P m Q -> tr (fun st l => P st l /\ F st) m (fun a st l => Q a st l /\ F st).
Proof.
  intros HF H ls p [HP HFs]. destruct (H ls p HP) as [C R]. split; [exact C|]. intros a ls' p' E.
  destruct (R _ _ _ E) as (S1 & Q1 & HQ1). split; [exact S1|]. split; [exact Q1|]. split; [exact HQ1|]. eapply HF; eassumption.
Qed.
Lemma tr_ctx {A} c (P : SP) (m : LM A) Q : tr P m Q -> tr P (ctx_wrap c m) Q.
Proof.
  intros H ls p HP. destruct (H ls p HP) as [C R]. split.
  - intros sc. unfold ctx_wrap. rewrite C. destruct (m ls p) as [[[a s1] p1]| | |]; reflexivity.
  - intros a ls' p' E. apply ctx_wrap_ok in E. exact (R _ _ _ E).
Qed.
Lemma tr_lift {A} (P : SP) (r : res A) (Q : A -> SP) : (forall a st l, r = Ok a -> P st l -> Q a st l) -> tr P (lift r) Q.
Proof.
  intros H ls p HP. split; [destruct r; reflexivity|]. intros a ls' p' E. apply lift_ok in E. destruct E as (-> & -> & ->).
  split; [apply sext_refl|]. split; [apply quiet_refl|eauto].
Qed.
Lemma tr_fail {A} (P : SP) e (Q : A -> SP) : tr P (fail e) Q.
Proof. intros ls p _. split; [reflexivity|]. intros a ls' p' E. discriminate. Qed.
Lemma tr_fail_in {A} (P : SP) c e (Q : A -> SP) : tr P (fail_in c e) Q.
Proof. intros ls p _. split; [reflexivity|]. intros a ls' p' E. discriminate. Qed.
Lemma tr_panic {A} (P : SP) x (Q : A -> SP) : tr P (panic x) Q.
Proof. intros ls p _. split; [reflexivity|]. intros a ls' p' E. discriminate. Qed.
Lemma tr_oof {A} (P : SP) (Q : A -> SP) : tr P out_of_fuel Q.
Proof. intros ls p _. split; [reflexivity|]. intros a ls' p' E. discriminate. Qed.
Lemma tr_poll (P : SP) l : tr P (lpoll l) (fun _ => P).
Proof.
  intros ls p HP. split.
  - intros sc. unfold lpoll, poll. destruct (poll_step l p) as [q c]. destruct c; reflexivity.
  - intros a ls' p' E. apply poll_ok in E. destruct E as (-> & _ & _). split; [apply sext_refl|]. split; [apply quiet_refl|exact HP].
Qed.

Lemma tr_mapM {A B} (I : SP) (R : B -> list thunk -> Prop) (f : A -> LM B) l :
  (forall y, stable (R y)) ->
  (forall x, In x l -> tr I (f x) (fun y st lo => I st lo /\ R y st)) ->
  tr I (Exec.mapM f l) (fun ys st lo => I st lo /\ Forall (fun y => R y st) ys).
Proof.
  intros HR. induction l as [|x l IH]; intros Hf; cbn [Exec.mapM].
  - apply tr_ret. intros st lo HI. split; [exact HI|constructor].
  - eapply tr_bind; [apply Hf; left; reflexivity|]. intros y. cbv beta.
    eapply tr_bind.
    + apply (tr_frame (R y)); [apply HR|]. apply IH. intros x' Hx'. apply Hf. right. exact Hx'.
    + intros ys. apply tr_ret. intros st lo [[HI Hys] Hy]. split; [exact HI|]. constructor; assumption.
Qed.
Lemma tr_iterM {A} (I : SP) (f : A -> LM unit) l :
  (forall x, In x l -> tr I (f x) (fun _ => I)) -> tr I (iterM f l) (fun _ => I).
Proof.
  induction l as [|x l IH]; intros Hf; cbn [iterM].
  - apply tr_ret. auto.
  - eapply tr_bind; [apply Hf; left; reflexivity|]. intros u. cbv beta. apply IH. intros x' Hx'. apply Hf. right. exact Hx'.
Qed.

(* ---------------- primitives that touch neither store, locals nor scoped cells ---------------- *)
Lemma tr_lpush_param (P : SP) v : tr P (lpush_param v) (fun _ => P).
Proof.
  intros ls p HP. split; [reflexivity|]. intros a ls' p' E. unfold lpush_param, bind, get_state, set_lparams, Lazy.upd, modify in E.
  inversion E; subst. cbn [l_store l_locals]. split; [apply sext_refl|]. split; [repeat split|exact HP].
Qed.
Lemma tr_ldrain_params (P : SP) n : tr P (ldrain_params n) (fun _ => P).
Proof.
  intros ls p HP. unfold ldrain_params, bind, get_state. cbn [with_scoped l_params].
  destruct (Nat.ltb (length (l_params ls)) n); (split; [reflexivity|]); intros a ls' p' E; [discriminate|].
  unfold set_lparams, Lazy.upd, modify, ret in E. inversion E; subst. cbn [l_store l_locals].
  split; [apply sext_refl|]. split; [repeat split|exact HP].
Qed.
Section Call.
  Variable call : ident -> graph -> list value -> res (value * graph).
  Lemma tr_lcall (P : SP) f args : tr P (lcall_function call f args) (fun _ => P).
  Proof.
    intros ls p HP. unfold lcall_function, bind, get_state. cbn [with_scoped l_graph].
    destruct (call f (l_graph ls) args) as [[v g']|e|x|]; (split; [reflexivity|]); intros a ls' p' E; try discriminate.
    unfold set_lgraph, Lazy.upd, modify, ret in E. inversion E; subst. cbn [l_store l_locals].
    split; [apply sext_refl|]. split; [repeat split|exact HP].
  Qed.
End Call.
