(* Proofs/Extends.v — C09 for the strict interpreter: every run only extends the graph
   (existing nodes, edges and attribute values are kept; new nodes are numbered after the old
   ones) and keeps it well formed (one edge per ordered pair, attribute names unique). *)
From TSG Require Import Model.Strict Proofs.BaseFacts Proofs.Containers Proofs.StrictMeta Proofs.MonadFacts.
From Coq Require Import Sorted.

Definition attrs_ext (m m' : amap) : Prop := forall k v, alist_get k m = Some v -> alist_get k m' = Some v.
Definition edges_ext (es es' : edges) : Prop :=
  forall b a, edges_get b es = Some a -> exists a', edges_get b es' = Some a' /\ attrs_ext a a'.
Definition gnode_ext (n n' : gnode) : Prop := attrs_ext (g_attrs n) (g_attrs n') /\ edges_ext (g_edges n) (g_edges n').
Definition graph_ext (g g' : graph) : Prop :=
  (length g <= length g')%nat /\
  forall i n, nth_error g i = Some n -> exists n', nth_error g' i = Some n' /\ gnode_ext n n'.

Lemma attrs_ext_refl m : attrs_ext m m. Proof. intros k v H; exact H. Qed.
Lemma attrs_ext_trans a b c : attrs_ext a b -> attrs_ext b c -> attrs_ext a c.
Proof. intros H1 H2 k v H. auto. Qed.
Lemma edges_ext_refl es : edges_ext es es.
Proof. intros b a H. exists a. split; [exact H|apply attrs_ext_refl]. Qed.
Lemma edges_ext_trans a b c : edges_ext a b -> edges_ext b c -> edges_ext a c.
Proof.
  intros H1 H2 k x H. destruct (H1 _ _ H) as (y & Hy & Hxy). destruct (H2 _ _ Hy) as (z & Hz & Hyz).
  exists z. split; [exact Hz|]. eapply attrs_ext_trans; eauto.
Qed.
Lemma gnode_ext_refl n : gnode_ext n n.
Proof. split; [apply attrs_ext_refl|apply edges_ext_refl]. Qed.
Lemma gnode_ext_trans a b c : gnode_ext a b -> gnode_ext b c -> gnode_ext a c.
Proof. intros [A1 E1] [A2 E2]. split; [eapply attrs_ext_trans|eapply edges_ext_trans]; eauto. Qed.
Lemma graph_ext_refl g : graph_ext g g.
Proof. split; [lia|]. intros i n H. exists n. split; [exact H|apply gnode_ext_refl]. Qed.
Lemma graph_ext_trans a b c : graph_ext a b -> graph_ext b c -> graph_ext a c.
Proof.
  intros [L1 H1] [L2 H2]. split; [lia|]. intros i n H. destruct (H1 _ _ H) as (n' & Hn' & E1).
  destruct (H2 _ _ Hn') as (n'' & Hn'' & E2). exists n''. split; [exact Hn''|]. eapply gnode_ext_trans; eauto.
Qed.

(* ---- the graph primitives extend ---- *)
Lemma add_graph_node_ext g : graph_ext g (fst (add_graph_node g)) /\ graph_wf (fst (add_graph_node g)) = graph_wf (g ++ [new_gnode]).
Proof.
  unfold add_graph_node; cbn [fst]. split; [|reflexivity]. split; [rewrite app_length; cbn; lia|].
  intros i n H. exists n. split; [|apply gnode_ext_refl]. rewrite nth_error_app1; [exact H|]. apply nth_error_Some. congruence.
Qed.
Lemma graph_wf_app_new g : graph_wf g -> graph_wf (g ++ [new_gnode]).
Proof. intros H. apply Forall_app. split; [exact H|]. repeat constructor. Qed.

Lemma attrs_add_ext m k v : snd (attrs_add m k v) = None -> attrs_ext m (fst (attrs_add m k v)).
Proof.
  unfold attrs_add. destruct (alist_get k m) as [old|] eqn:E.
  - destruct (value_eqb old v); cbn [fst snd]; [intros _; apply attrs_ext_refl|discriminate].
  - cbn [fst snd]. intros _ k' v' H. rewrite alist_get_app, H. reflexivity.
Qed.

Lemma graph_update_ext g i f :
  (forall n, gnode_at g i = Some n -> gnode_ext n (f n)) -> graph_ext g (graph_update g i f).
Proof.
  intros Hf. unfold graph_update. split; [rewrite list_update_length; lia|].
  intros j n H. rewrite nth_error_list_update. destruct (Nat.eqb_spec j (N.to_nat i)) as [->|Hn].
  - rewrite H. cbn. exists (f n). split; [reflexivity|]. apply Hf. exact H.
  - exists n. split; [exact H|apply gnode_ext_refl].
Qed.
Lemma graph_update_wf g i f : graph_wf g -> (forall n, gnode_wf n -> gnode_wf (f n)) -> graph_wf (graph_update g i f).
Proof. intros H Hf. apply list_update_Forall; assumption. Qed.

Lemma edges_set_ext b m m' es : edges_wf es -> edges_get b es = Some m -> attrs_ext m m' -> edges_ext es (edges_set b m' es).
Proof.
  intros Hwf Hb Hm k a Hk. rewrite edges_get_set; [|exact Hwf|congruence].
  destruct (N.eqb_spec k b) as [->|Hn].
  - exists m'. split; [reflexivity|]. rewrite Hb in Hk. inversion Hk; subst. exact Hm.
  - exists a. split; [exact Hk|apply attrs_ext_refl].
Qed.

Lemma edges_add_ext b es : edges_wf es -> edges_ext es (snd (edges_add b es)).
Proof.
  intros Hwf k a Hk. pose proof (edges_add_spec b es Hwf) as S. destruct (edges_add b es) as [isnew es']. cbn [snd].
  destruct S as (_ & _ & Hget & _). rewrite Hget. destruct (N.eqb_spec k b) as [->|Hn].
  - rewrite Hk. exists a. split; [reflexivity|apply attrs_ext_refl].
  - exists a. split; [exact Hk|apply attrs_ext_refl].
Qed.

(* ---- the admissible predicate ---- *)
Definition ext_ok {A} (m : M sstate A) : Prop :=
  forall s p a s' p', graph_wf (s_graph s) -> m s p = Ok (a, s', p') ->
    graph_wf (s_graph s') /\ graph_ext (s_graph s) (s_graph s').

Definition call_extends (call : ident -> graph -> list value -> res (value * graph)) : Prop :=
  forall f g args v g', graph_wf g -> call f g args = Ok (v, g') -> graph_wf g' /\ graph_ext g g'.

Section ExtStrict.
  Context {rx : Type}.
  Variable t : tree.
  Variable fl : file.
  Variable cfg : config.
  Variable glob : globals.
  Variable regexes : list rx.
  Variable find : rx -> str -> option (list (option (N * N))).
  Variable call : ident -> graph -> list value -> res (value * graph).
  Hypothesis Hcall : call_extends call.

  Lemma ext_ret A (a : A) : ext_ok (ret a).
  Proof. intros s p a' s' p' Hwf H. apply ret_ok in H as (_ & -> & _). split; [exact Hwf|apply graph_ext_refl]. Qed.
  Lemma ext_bind A B (m : M sstate A) (f : A -> M sstate B) : ext_ok m -> (forall a, ext_ok (f a)) -> ext_ok (bind m f).
  Proof.
    intros Hm Hf s p b s' p' Hwf H. apply bind_ok in H as (a & s1 & p1 & E & H).
    destruct (Hm _ _ _ _ _ Hwf E) as [W1 E1]. destruct (Hf a _ _ _ _ _ W1 H) as [W2 E2].
    split; [exact W2|eapply graph_ext_trans; eauto].
  Qed.
  Lemma ext_noresult A (m : M sstate A) : (forall s p a s' p', m s p <> Ok (a, s', p')) -> ext_ok m.
  Proof. intros H s p a s' p' _ E. exfalso. eapply H; eauto. Qed.
  Lemma ext_ctx A c (m : M sstate A) : ext_ok m -> ext_ok (ctx_wrap c m).
  Proof. intros Hm s p a s' p' Hwf H. apply ctx_wrap_ok in H. eapply Hm; eauto. Qed.
  Lemma ext_same_graph A (m : M sstate A) :
    (forall s p a s' p', m s p = Ok (a, s', p') -> s_graph s' = s_graph s) -> ext_ok m.
  Proof. intros H s p a s' p' Hwf E. rewrite (H _ _ _ _ _ E). split; [exact Hwf|apply graph_ext_refl]. Qed.

  Ltac inv_set H := unfold set_graph in H; apply modify_ok in H as (-> & _); cbn [s_graph].

  Lemma ext_add_node : ext_ok add_node.
  Proof.
    intros s p n s' p' Hwf H. unfold add_node in H. apply bind_ok in H as (s0 & s1 & p1 & E & H). apply get_ok in E as (-> & -> & ->).
    unfold add_graph_node in H. apply bind_ok in H as (u & s2 & p2 & E & H). apply ret_ok in H as (_ & -> & _). inv_set E.
    split; [apply graph_wf_app_new, Hwf|]. apply (proj1 (add_graph_node_ext (s_graph s))).
  Qed.

  Lemma ext_add_attr tgt k v : ext_ok (add_attr tgt k v).
  Proof.
    intros s p a s' p' Hwf H. unfold add_attr in H. apply bind_ok in H as (s0 & s1 & p1 & E & H). apply get_ok in E as (-> & -> & ->).
    destruct tgt as [n|x y].
    - destruct (gnode_at (s_graph s) n) as [nd|] eqn:E; [|discriminate].
      pose proof (gnode_at_wf _ _ _ Hwf E) as (Ha & He & Hea).
      pose proof (attrs_add_wf (g_attrs nd) k v Ha) as Hw. pose proof (attrs_add_ext (g_attrs nd) k v) as Hx.
      destruct (attrs_add (g_attrs nd) k v) as [m' c]. cbn [fst snd] in *. destruct c; [discriminate|].
      inv_set H. split.
      + apply graph_update_wf; [exact Hwf|]. intros n0 (_ & H1 & H2). repeat split; assumption.
      + apply graph_update_ext. intros n0 Hn0. rewrite E in Hn0. inversion Hn0; subst. split; cbn; [apply Hx; reflexivity|apply edges_ext_refl].
    - destruct (gnode_at (s_graph s) x) as [nd|] eqn:E; [|discriminate].
      pose proof (gnode_at_wf _ _ _ Hwf E) as (Ha & He & Hea).
      destruct (edges_get y (g_edges nd)) as [m|] eqn:E2; [|discriminate].
      pose proof (attrs_add_wf m k v (edges_get_attrs_wf _ _ _ Hea E2)) as Hw. pose proof (attrs_add_ext m k v) as Hx.
      destruct (attrs_add m k v) as [m' c]. cbn [fst snd] in *. destruct c; [discriminate|].
      inv_set H. split.
      + apply graph_update_wf; [exact Hwf|]. intros n0 (H0 & _ & _). repeat split; cbn.
        * exact H0.
        * unfold edges_wf. rewrite edges_set_sinks. exact He.
        * apply edges_set_attrs_wf; assumption.
      + apply graph_update_ext. intros n0 Hn0. rewrite E in Hn0. inversion Hn0; subst. split; cbn; [apply attrs_ext_refl|].
        eapply edges_set_ext; eauto.
  Qed.

  Lemma ext_add_edge a b : ext_ok (add_edge a b).
  Proof.
    intros s p r s' p' Hwf H. unfold add_edge in H. apply bind_ok in H as (s0 & s1 & p1 & E & H). apply get_ok in E as (-> & -> & ->).
    unfold graph_add_edge in H.
    destruct (gnode_at (s_graph s) a) as [nd|] eqn:E; [|discriminate].
    pose proof (gnode_at_wf _ _ _ Hwf E) as (Ha & He & Hea).
    pose proof (edges_add_wf b _ He) as Hw. pose proof (edges_add_attrs_wf b _ Hea) as Hw2. pose proof (edges_add_ext b _ He) as Hx.
    destruct (edges_add b (g_edges nd)) as [isnew es]. cbn [snd] in *.
    apply bind_ok in H as (u & s2 & p2 & E2 & H). apply ret_ok in H as (_ & -> & _). inv_set E2.
    split.
    - apply graph_update_wf; [exact Hwf|]. intros n0 (H0 & _ & _). repeat split; assumption.
    - apply graph_update_ext. intros n0 Hn0. rewrite E in Hn0. inversion Hn0; subst. split; cbn; [apply attrs_ext_refl|exact Hx].
  Qed.

  Lemma ext_call f args : ext_ok (call_function call f args).
  Proof.
    intros s p v s' p' Hwf H. unfold call_function in H. apply bind_ok in H as (s0 & s1 & p1 & E & H). apply get_ok in E as (-> & -> & ->).
    destruct (call f (s_graph s) args) as [[v' g']| | |] eqn:E; try discriminate.
    apply bind_ok in H as (u & s2 & p2 & E2 & H). apply ret_ok in H as (_ & -> & _). inv_set E2. eapply Hcall; eauto.
  Qed.

  Lemma ext_poll l : ext_ok (@poll sstate l).
  Proof. apply ext_same_graph. intros s p a s' p' H. apply poll_ok in H as (-> & _). reflexivity. Qed.

  Ltac same_modify := apply ext_same_graph; intros s p a s' p' H; apply modify_ok in H as (-> & _); reflexivity.

  Theorem exec_file_extends fuel sts ms : ext_ok (exec_file t fl cfg glob regexes find call fuel sts ms).
  Proof.
    apply (Phi_exec_file t fl cfg glob regexes find call (@ext_ok)) with (good_ctx := fun _ => True); [..|exact (fun _ => I)].
    - exact ext_ret.
    - exact ext_bind.
    - intros A e _. apply ext_noresult. intros s p a s' p'. discriminate.
    - intros A x. apply ext_noresult. intros s p a s' p'. discriminate.
    - intros A. apply ext_noresult. intros s p a s' p'. discriminate.
    - intros A c m _. apply ext_ctx.
    - apply ext_same_graph. intros s p a s' p' H. apply get_ok in H as (_ & -> & _). reflexivity.
    - intros l. unfold set_locals. same_modify.
    - intros l. unfold set_scoped. same_modify.
    - intros l. unfold set_params. same_modify.
    - exact ext_poll.
    - exact ext_add_node.
    - exact ext_add_attr.
    - exact ext_add_edge.
    - exact ext_call.
  Qed.
End ExtStrict.

(* whole strict run: File::execute_into in strict mode on a pre-populated graph g0 *)
Theorem run_strict_extends_lemma {rx} t fl cfg supplied budget (regexes : list rx) find call fuel matches g0 s p :
  call_extends call -> graph_wf g0 ->
  run_strict t fl cfg supplied budget regexes find call fuel matches g0 = Ok (s, p) ->
  graph_wf (s_graph s) /\ graph_ext g0 (s_graph s).
Proof.
  intros Hc Hwf. unfold run_strict. destruct (check_globals (f_globals fl) (globals_nested supplied)) as [glob| | |]; try discriminate.
  destruct (exec_file _ _ _ _ _ _ _ _ _ _ (sinit g0) (polls0 budget)) as [[[u s1] p1]| | |] eqn:E; try discriminate.
  intros H; inversion H; subst. exact (exec_file_extends t fl cfg glob regexes find call Hc fuel _ _ (sinit g0) _ u s p Hwf E).
Qed.
