(* Proofs/ParseNodeText.v — the text field of every `node` statement of a parsed file, at any depth, is the Display text of
   its variable: `SNode v t l` with t = display_variable (dpenv_of (x_print X)) v (Model/Parser.v statement_body; the dumped
   real AST carries `format!("{}", node)` there, compared by stream C07).  Same route as Proofs/ParseClean.v: a boolean on
   statements, shown for `statement_body` relative to the parser one level down, then for the loops and the file. *)
From TSG Require Import Model.AstDisplay.
From TSG Require Import Model.Parser Proofs.BaseFacts Proofs.ParseLocStmt.

Definition node_textb (E : dpenv) (s : stmt) : bool :=
  match s with SNode v t _ => str_eqb t (display_variable E v) | _ => true end.

Lemma node_textb_spec E v t l : node_textb E (SNode v t l) = true <-> t = display_variable E v.
Proof. cbn [node_textb]. apply str_eqb_eq. Qed.

Definition arm_stmts {A} (arms : list (A * list stmt * loc)) : list stmt :=
  flat_map (fun arm : A * list stmt * loc => block_stmts (snd (fst arm))) arms.

Ltac bi H :=
  lazymatch type of H with
  | bind _ _ _ = ROk _ _ =>
      let a := fresh "a" in let s1 := fresh "s" in let E := fresh "E" in
      apply bind_inv in H; destruct H as (a & s1 & E & H)
  | ret _ _ = ROk _ _ => apply ret_inv in H; destruct H as [? ?]; subst
  | fail _ _ = ROk _ _ => discriminate H
  end.
Ltac bis H := repeat bi H.

Section NodeText.
  Variable X : ext.
  Variable F : nat.
  Let E := dpenv_of (x_print X).

  (* rec: parse_statement one level down *)
  Definition ntl (rec : M stmt) : Prop :=
    forall s st s', rec s = ROk st s' -> forallb (node_textb E) (st :: substmts st) = true.

  Lemma flat_nt st : substmts st = [] -> node_textb E st = true -> forallb (node_textb E) (st :: substmts st) = true.
  Proof. intros -> H. cbn [forallb]. rewrite H. reflexivity. Qed.

  Section Body.
    Variable rec : M stmt.
    Hypothesis Hrec : ntl rec.

    Lemma statements_loop_nt k : forall s l s',
      statements_loop X F rec k s = ROk l s' -> forallb (node_textb E) (block_stmts l) = true.
    Proof.
      induction k as [|k IH]; intros s l s' H; [discriminate|]. cbn [statements_loop] in H.
      bi H. ifs H; [bi H; reflexivity|]. bis H.
      unfold block_stmts. cbn [flat_map]. rewrite forallb_app. apply andb_true_iff. split.
      - eapply Hrec; eassumption.
      - eapply IH; eassumption.
    Qed.
    Lemma parse_statements_nt s l s' :
      parse_statements X F rec s = ROk l s' -> forallb (node_textb E) (block_stmts l) = true.
    Proof. unfold parse_statements. intros H. bis H. eapply statements_loop_nt; eassumption. Qed.

    Lemma scan_arms_loop_nt kl k : forall s arms s',
      scan_arms_loop X F rec kl k s = ROk arms s' -> forallb (node_textb E) (arm_stmts arms) = true.
    Proof.
      induction k as [|k IH]; intros s arms s' H; [discriminate|]. cbn [scan_arms_loop] in H.
      bi H. ifs H; [bi H; reflexivity|]. bis H.
      unfold arm_stmts. cbn [flat_map fst snd]. rewrite forallb_app. apply andb_true_iff. split.
      - eapply parse_statements_nt; eassumption.
      - eapply IH; eassumption.
    Qed.

    Lemma elif_loop_nt k : forall l0 s arms s',
      elif_loop X F rec k l0 s = ROk arms s' -> forallb (node_textb E) (arm_stmts arms) = true.
    Proof.
      induction k as [|k IH]; intros l0 s arms s' H; [discriminate|]. cbn [elif_loop] in H.
      apply if_ok_inv in H. destruct H as [(u & s0 & E0 & H)|H]; [|bi H; reflexivity].
      bis H. unfold arm_stmts. cbn [flat_map fst snd]. rewrite forallb_app. apply andb_true_iff. split.
      - eapply parse_statements_nt; eassumption.
      - eapply IH; eassumption.
    Qed.

    Lemma statement_body_nt : ntl (statement_body X F rec).
    Proof.
      intros s st s' H. unfold statement_body in H. bi H. bi H. bi H.
      ifs H. { bis H. apply flat_nt; reflexivity. }
      ifs H. { bis H. apply flat_nt; reflexivity. }
      ifs H. { bis H. apply flat_nt; reflexivity. }
      ifs H. { bis H. apply flat_nt; [reflexivity|]. apply node_textb_spec. reflexivity. }
      ifs H. { bis H. apply flat_nt; reflexivity. }
      ifs H.
      { bi H. bi H. bi H. bi H. bi H. ifs H; bis H; apply flat_nt; reflexivity. }
      ifs H. { bis H. apply flat_nt; reflexivity. }
      ifs H.
      { bis H. cbn [forallb node_textb substmts andb]. match goal with |- forallb _ (flat_map _ ?arms) = true => change (forallb (node_textb E) (arm_stmts arms) = true) end.
        eapply scan_arms_loop_nt; eassumption. }
      ifs H.
      { bis H. cbn [forallb node_textb substmts andb].
        match goal with |- forallb _ (flat_map _ ?arms) = true => change (forallb (node_textb E) (arm_stmts arms) = true) end.
        unfold arm_stmts. cbn [flat_map fst snd]. rewrite flat_map_app, !forallb_app.
        repeat (apply andb_true_iff; split).
        - eapply parse_statements_nt; eassumption.
        - eapply elif_loop_nt; eassumption.
        - match goal with
          | Hel : if_ok _ _ _ _ = ROk _ _ |- _ =>
              apply if_ok_inv in Hel; destruct Hel as [(u & sx & Eu & Hel)|Hel]; bis Hel
          end; [|reflexivity].
          cbn [flat_map fst snd]. rewrite app_nil_r. eapply parse_statements_nt; eassumption. }
      ifs H.
      { bis H. cbn [forallb node_textb substmts andb].
        match goal with |- forallb _ (flat_map _ ?b) = true => change (forallb (node_textb E) (block_stmts b) = true) end. eapply parse_statements_nt; eassumption. }
      bi H.
    Qed.
  End Body.

  Lemma parse_statement_n_nt n : ntl (parse_statement_n X F n).
  Proof.
    induction n as [|n IH]; intros s st s' H; [discriminate|]. cbn [parse_statement_n] in H.
    revert H. apply statement_body_nt. intros s1 st1 s1' H1. exact (IH _ _ _ H1).
  Qed.
  Lemma parse_stanza_statements_nt s l s' :
    parse_stanza_statements X F s = ROk l s' -> forallb (node_textb E) (block_stmts l) = true.
  Proof. apply parse_statements_nt. apply parse_statement_n_nt. Qed.

  Definition acc_stmts (a : facc) : list stmt := flat_map (fun st => block_stmts (st_stmts st)) (a_stanzas a).

  Lemma parse_stanza_nt s p s' :
    parse_stanza X F s = ROk p s' -> forallb (node_textb E) (block_stmts (st_stmts (fst p))) = true.
  Proof. unfold parse_stanza. intros H. bis H. cbn [fst st_stmts]. eapply parse_stanza_statements_nt; eassumption. Qed.

  Lemma file_loop_nt k : forall a s a' s',
    file_loop X F k a s = ROk a' s' ->
    forallb (node_textb E) (acc_stmts a) = true -> forallb (node_textb E) (acc_stmts a') = true.
  Proof.
    induction k as [|k IH]; intros a s a' s' H Hc; [discriminate|]. cbn [file_loop] in H.
    destruct (p_rest s) as [|c r]; [injection H as <- <-; exact Hc|].
    apply bind_inv in H. destruct H as (a1 & s1 & Hstep & H). bi H.
    refine (IH _ _ _ _ H _). clear H IH.
    apply if_ok_inv in Hstep. destruct Hstep as [(u & s2 & Eu & H)|Hstep].
    { bis H. exact Hc. }
    apply if_ok_inv in Hstep. destruct Hstep as [(u & s2 & Eu & H)|Hstep].
    { bis H. exact Hc. }
    apply if_ok_inv in Hstep. destruct Hstep as [(u & s2 & Eu & H)|Hstep].
    { bis H. exact Hc. }
    apply bind_inv in Hstep. destruct Hstep as (p & s2 & Ep & Hstep). bi Hstep. apply parse_stanza_nt in Ep.
    unfold acc_stmts in *. cbn [a_stanzas]. rewrite flat_map_app, forallb_app, Hc. cbn [flat_map]. rewrite app_nil_r. exact Ep.
  Qed.

  Lemma parse_into_file_nt s a s' :
    parse_into_file X F s = ROk a s' -> forallb (node_textb E) (acc_stmts a) = true.
  Proof.
    unfold parse_into_file. intros H. bi H.
    apply bind_inv in H. destruct H as (a1 & s1 & Hf & H).
    apply file_loop_nt in Hf; [|reflexivity].
    destruct (x_merged X (a_query_source a1)) as [[|]|]; try discriminate. bi H. exact Hf.
  Qed.
End NodeText.

Lemma parsed_node_text_lemma X fuel text f pats :
  parse X fuel text = POk f pats -> forallb (node_textb (dpenv_of (x_print X))) (file_stmts f) = true.
Proof.
  unfold parse. destruct (parse_into_file X fuel (init_state text)) as [a s| e | n | |] eqn:E; try discriminate.
  - intros H. injection H as <- _. apply parse_into_file_nt in E. exact E.
  - destruct (error_obs e) as [[v l] p]. discriminate.
Qed.
