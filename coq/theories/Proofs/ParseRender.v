(* Proofs/ParseRender.v — the round trip parse (render layout ast) = located ast, construct by
   construct.  Part A: expressions. *)
From TSG Require Import Model.Parser Spec.Render Proofs.BaseFacts Proofs.Parser.

(* induction principle for the nested inductive type of expressions *)
Section ExprInd.
  Variable P : expr -> Prop.
  Hypothesis HFalse : P EFalse.
  Hypothesis HNull : P ENull.
  Hypothesis HTrue : P ETrue.
  Hypothesis HInt : forall n, P (EInt n).
  Hypothesis HStr : forall s, P (EStr s).
  Hypothesis HList : forall es, Forall P es -> P (EList es).
  Hypothesis HSet : forall es, Forall P es -> P (ESet es).
  Hypothesis HListComp : forall el v vl val l, P el -> P val -> P (EListComp el v vl val l).
  Hypothesis HSetComp : forall el v vl val l, P el -> P val -> P (ESetComp el v vl val l).
  Hypothesis HCapture : forall n q f s l, P (ECapture n q f s l).
  Hypothesis HUnscoped : forall n l, P (EUnscoped n l).
  Hypothesis HScoped : forall sc n l, P sc -> P (EScoped sc n l).
  Hypothesis HCall : forall f args, Forall P args -> P (ECall f args).
  Hypothesis HRegexCap : forall i, P (ERegexCap i).
  Fixpoint expr_ind' (e : expr) : P e :=
    let all := fix all (l : list expr) : Forall P l :=
      match l with [] => Forall_nil P | a :: l' => Forall_cons a (expr_ind' a) (all l') end in
    match e with
    | EFalse => HFalse | ENull => HNull | ETrue => HTrue
    | EInt n => HInt n | EStr s => HStr s
    | EList es => HList es (all es)
    | ESet es => HSet es (all es)
    | EListComp el v vl val l => HListComp el v vl val l (expr_ind' el) (expr_ind' val)
    | ESetComp el v vl val l => HSetComp el v vl val l (expr_ind' el) (expr_ind' val)
    | ECapture n q f s l => HCapture n q f s l
    | EUnscoped n l => HUnscoped n l
    | EScoped sc n l => HScoped sc n l (expr_ind' sc)
    | ECall f args => HCall f args (all args)
    | ERegexCap i => HRegexCap i
    end.
End ExprInd.

Definition wf_all (X : ext) : list expr -> Prop :=
  fix all (l : list expr) : Prop := match l with [] => True | a :: l' => WfExpr X a /\ all l' end.
Lemma wf_all_Forall X l : wf_all X l <-> Forall (WfExpr X) l.
Proof.
  induction l as [|a l IH]; cbn [wf_all]; [split; auto|]. rewrite IH. split.
  - intros [H1 H2]. constructor; assumption.
  - intros H. inversion H; subst. split; assumption.
Qed.

Section RT.
  Variable X : ext.
  Variable F : nat.
  Hypothesis Sane : UnicodeSane X.

  Ltac norm :=
    unfold G, Gs, t_comma, t_lparen, t_rparen, t_lbrack, t_rbrack, t_lbrace, t_rbrace, t_dot, t_eq, t_quote, t_at, t_hash, t_dollar;
    rewrite ?st_after_app, ?p_loc_st_after; repeat rewrite <- pos_after_app;
    repeat (progress (cbn [app]; repeat rewrite <- app_assoc)).

  (* ---------------------------------------------------------------- characters *)
  Lemma ne_by (f : N -> bool) c d : f c = true -> f d = false -> c <> d.
  Proof. intros H1 H2 ->. congruence. Qed.
  Lemma ne_by' (f : N -> bool) c d : f c = false -> f d = true -> c <> d.
  Proof. intros H1 H2 ->. congruence. Qed.

  Lemma ident_start_not_ws c : is_ident_start X c = true -> is_whitespace X c = false.
  Proof. intros H. destruct (is_whitespace X c) eqn:E; [|reflexivity]. destruct (Sane c E) as [_ H']. congruence. Qed.

  Definition head_ok (c : N) : Prop :=
    c <> 41 /\ c <> 93 /\ c <> 125 /\ c <> 44 /\ c <> 46 /\ c <> 59 /\ is_whitespace X c = false.

  Lemma head_ok_ident_start c : is_ident_start X c = true -> head_ok c.
  Proof.
    intros H. repeat split; try (apply (ne_by (is_ident_start X)); [exact H | reflexivity]).
    apply ident_start_not_ws; exact H.
  Qed.
  Lemma head_ok_digit c : ascii_digit c = true -> head_ok c.
  Proof.
    intros H. repeat split; try (apply (ne_by ascii_digit); [exact H | reflexivity]).
    unfold ascii_digit in H. apply andb_true_iff in H. destruct H as [H1 H2]. apply N.leb_le in H1, H2.
    unfold is_whitespace. replace (c <? 128) with true by (symmetry; apply N.ltb_lt; lia).
    unfold ascii_ws. replace (c <=? 13) with false by (symmetry; apply N.leb_gt; lia).
    replace (c =? 32) with false by (symmetry; apply N.eqb_neq; lia). rewrite andb_false_r. reflexivity.
  Qed.
  Lemma head_ok_no_gap c t : head_ok c -> no_gap_start X (c :: t).
  Proof. intros [_ [_ [_ [_ [_ [H59 Hws]]]]]]. split; assumption. Qed.
  Lemma head_ok_no_dot c t : head_ok c -> no_dot_start (c :: t).
  Proof. intros [_ [_ [_ [_ [H46 _]]]]]. exact H46. Qed.

  Lemma render_int_head z n : exists c t, render_int z n = c :: t /\ ascii_digit c = true.
  Proof.
    pose proof (render_int_digits z n) as Hd. destruct (render_int z n) as [|c t] eqn:E.
    - exfalso. unfold render_int in E. apply app_eq_nil in E. destruct E as [_ E]. exact (dec_nonempty n E).
    - exists c, t. split; [reflexivity|]. cbn [forallb] in Hd. apply andb_true_iff in Hd. apply Hd.
  Qed.

  (* ---------------------------------------------------------------- gaps *)
  Lemma sep_wf a b g : WfGap X g -> WfGap X (sep a b g).
  Proof.
    intros Hg. unfold sep. destruct (a && b); [|exact Hg]. destruct g; [|exact Hg].
    constructor; [reflexivity | constructor].
  Qed.
  Lemma gap_head_not_ident g r : WfGap X g -> g <> [] -> no_ident_start X (render_gap g ++ r).
  Proof.
    intros Hg Hne. destruct g as [|i g]; [congruence|]. inversion Hg as [|? ? Hi _]; subst.
    destruct i as [c|b]; cbn.
    - apply (Sane c Hi).
    - reflexivity.
  Qed.
  Lemma sep_follow a b g r : WfGap X g -> a = true -> (b = false -> no_ident_start X r) ->
    no_ident_start X (render_gap (sep a b g) ++ r).
  Proof.
    intros Hg -> Hb. unfold sep. cbn [andb]. destruct b.
    - destruct g as [|i g]; [reflexivity|]. apply gap_head_not_ident; [exact Hg | discriminate].
    - destruct g as [|i g]; [cbn; auto|]. apply gap_head_not_ident; [exact Hg | discriminate].
  Qed.
  Lemma gap_follow g r : WfGap X g -> no_ident_start X r -> no_ident_start X (render_gap g ++ r).
  Proof.
    intros Hg Hr. destruct g as [|i g]; [exact Hr|]. apply gap_head_not_ident; [exact Hg | discriminate].
  Qed.

  (* ---------------------------------------------------------------- the first character of an expression *)
  Lemma rtext_head e : WfExpr X e -> forall L, exists c t,
    rtext L e = c :: t /\ head_ok c /\ (starts_word e = false -> is_ident X c = false).
  Proof.
    induction e; intros Hwf L; cbn [rtext starts_word];
      try (eexists; eexists; split; [reflexivity|]; split; [repeat split; discriminate | reflexivity]).
    - destruct (render_int_head (l_zeros L []) n) as [c [t [E Hd]]]. exists c, t. rewrite E.
      split; [reflexivity|]. split; [apply head_ok_digit; exact Hd | discriminate].
    - destruct es; eexists; eexists; (split; [reflexivity|]); (split; [repeat split; discriminate | reflexivity]).
    - destruct es; eexists; eexists; (split; [reflexivity|]); (split; [repeat split; discriminate | reflexivity]).
    - cbn [WfExpr] in Hwf. destruct name as [|c t]; [contradiction|]. exists c, t. split; [reflexivity|].
      split; [apply head_ok_ident_start; apply Hwf | discriminate].
    - cbn [WfExpr] in Hwf. destruct Hwf as [Hsc _]. destruct (IHe Hsc (sub L 0)) as [c [t [E [Hh Hs]]]].
      exists c. eexists. rewrite E. split; [reflexivity|]. split; assumption.
  Qed.

  (* ---------------------------------------------------------------- statements of the round trip *)
  Definition rec_n (n : nat) : M expr := fun s' => parse_expression_n X F n s'.

  (* parsing the text of e (written with layout L) followed by ANY rest: the expression read so far is
     the located e, and the parser continues with the whitespace and the `.name` suffixes of rest *)
  Definition Pexpr (e : expr) : Prop := forall L n s rest, WfLayout X L ->
    p_rest s = rtext L e ++ rest -> (ends_word e = true -> no_ident_start X rest) ->
    (len s <= n)%nat -> (len s < F)%nat ->
    exists k, (length rest < k)%nat /\
      expression_body X F (rec_n n) s =
      (consume_whitespace X F ;;; suffix_loop X F k (rloc L (p_loc s) e)) (st_after s (rtext L e) rest).

  Definition Fullexpr (e : expr) : Prop := forall L n s g r, WfLayout X L ->
    expr_follow X (ends_word e) g r -> p_rest s = rtext L e ++ render_gap g ++ r ->
    (len s < n)%nat -> (len s < F)%nat ->
    parse_expression_n X F n s = ROk (rloc L (p_loc s) e) (st_after s (rtext L e ++ render_gap g) r).

  Lemma P_Full e : Pexpr e -> Fullexpr e.
  Proof.
    intros HP L n s g r HL [Hg [Hr [Hd Hw]]] E Hn HF. destruct n as [|n]; [lia|]. cbn [parse_expression_n].
    change (fun s' : pst => parse_expression_n X F n s') with (rec_n n).
    destruct (HP L n s (render_gap g ++ r) HL E Hw) as [k [Hk Hb]]; [lia | exact HF |].
    rewrite Hb. unfold bind.
    rewrite (consume_whitespace_ok X F g _ r Hg Hr) by (try reflexivity; lensolve E HF).
    rewrite st_after_app. apply suffix_loop_stop; [lia | exact Hd].
  Qed.

  (* ---------------------------------------------------------------- primaries *)
  Lemma parse_literal_ok lit v s rest :
    (lit = t_false /\ v = EFalse) \/ (lit = t_null /\ v = ENull) \/ (lit = t_true /\ v = ETrue) ->
    p_rest s = (35 :: lit) ++ rest -> no_ident_start X rest -> (len s < F)%nat ->
    parse_literal X F s = ROk v (st_after s (35 :: lit) rest).
  Proof.
    intros Hl E Hr HF. unfold parse_literal. unfold bind at 1. unfold get_loc at 1. unfold bind at 1.
    rewrite (consume_token_ok t_hash s (lit ++ rest)) by exact E. unfold bind at 1.
    assert (Hn : WfIdent X lit) by (destruct Hl as [[-> _]|[[-> _]|[-> _]]]; split; reflexivity).
    rewrite (parse_name_ok X F w_literal lit _ rest Hn Hr) by (try reflexivity; lensolve E HF).
    rewrite st_after_app. destruct Hl as [[-> ->]|[[-> ->]|[-> ->]]]; reflexivity.
  Qed.

  Lemma digit_dispatch c : ascii_digit c = true ->
    (c =? 35) = false /\ (c =? 34) = false /\ (c =? 64) = false /\ (c =? 36) = false /\
    (c =? 40) = false /\ (c =? 91) = false /\ (c =? 123) = false.
  Proof.
    intros H. repeat split; apply N.eqb_neq; apply (ne_by ascii_digit); (exact H || reflexivity).
  Qed.

  Lemma parse_capture_ok n s rest : WfIdent X n -> p_rest s = (64 :: n) ++ rest -> no_ident_start X rest ->
    (len s < F)%nat ->
    parse_capture X F s = ROk (ECapture n QZero u32_max u32_max (p_loc s)) (st_after s (64 :: n) rest).
  Proof.
    intros Hn E Hr HF. destruct n as [|c t]; [contradiction|]. destruct Hn as [Hc Ht].
    unfold parse_capture. unfold bind at 1. unfold get_loc at 1. unfold bind at 1.
    rewrite (consume_token_ok t_at s ((c :: t) ++ rest)) by exact E. unfold bind at 1.
    rewrite (next_eq _ c (t ++ rest)) by reflexivity. rewrite advance_st_after, st_after_app, Hc. cbn [negb].
    unfold bind at 1. unfold consume_while. rewrite (while_loop_ok (is_ident X) t _ rest F Ht).
    - unfold ret. rewrite st_after_app. reflexivity.
    - destruct rest; [exact I | exact Hr].
    - reflexivity.
    - lensolve E HF.
  Qed.

  Lemma parse_regex_capture_ok z i s rest : i <= usize_max -> p_rest s = (36 :: render_int z i) ++ rest ->
    no_ident_start X rest -> (len s < F)%nat ->
    parse_regex_capture F s = ROk (ERegexCap i) (st_after s (36 :: render_int z i) rest).
  Proof.
    intros Hi E Hr HF. unfold parse_regex_capture. unfold bind at 1. unfold get_loc at 1. unfold bind at 1.
    rewrite (consume_token_ok t_dollar s (render_int z i ++ rest)) by exact E. unfold bind at 1.
    unfold consume_while.
    rewrite (while_loop_ok ascii_digit (render_int z i) _ rest F (render_int_digits z i)).
    - rewrite (render_int_value usize_max z i Hi). unfold ret. rewrite st_after_app. reflexivity.
    - pose proof (no_ident_no_digit X rest Hr) as Hd. destruct rest; [exact I | exact Hd].
    - reflexivity.
    - lensolve E HF.
  Qed.

  Ltac finish_primary E HF :=
    exists F; split; [lensolve E HF | reflexivity].

  Lemma P_literal e : e = EFalse \/ e = ENull \/ e = ETrue -> Pexpr e.
  Proof.
    intros He L n s rest HL E Hw Hn HF.
    assert (Hl : exists lit, rtext L e = 35 :: lit /\
              ((lit = t_false /\ e = EFalse) \/ (lit = t_null /\ e = ENull) \/ (lit = t_true /\ e = ETrue))).
    { destruct He as [-> | [-> | ->]]; eexists; (split; [reflexivity|]); auto. }
    destruct Hl as [lit [Ht Hl]]. assert (Hw' : no_ident_start X rest) by (apply Hw; destruct He as [-> | [-> | ->]]; reflexivity).
    assert (Hrl : rloc L (p_loc s) e = e) by (destruct He as [-> | [-> | ->]]; reflexivity).
    rewrite Ht in *. rewrite Hrl.
    unfold expression_body. unfold bind at 1. rewrite (peek_eq s 35 (lit ++ rest)) by exact E.
    cbn [N.eqb Pos.eqb]. unfold bind at 1.
    rewrite (parse_literal_ok lit e s rest Hl E Hw' HF). finish_primary E HF.
  Qed.

  Lemma P_int n : n <= u32_max -> Pexpr (EInt n).
  Proof.
    intros Hn L k s rest HL E Hw Hk HF. cbn [rtext rloc] in *.
    destruct (render_int_head (l_zeros L []) n) as [c [t [Et Hd]]].
    destruct (digit_dispatch c Hd) as [H1 [H2 [H3 [H4 [H5 [H6 H7]]]]]].
    unfold expression_body. unfold bind at 1.
    rewrite (peek_eq s c (t ++ rest)) by (rewrite E, Et; reflexivity).
    rewrite H1, H2, H3, H4, H5, H6, H7, Hd. unfold bind at 1.
    rewrite (parse_integer_constant_ok F (l_zeros L []) n s rest Hn (no_ident_no_digit X rest (Hw eq_refl)) E HF).
    finish_primary E HF.
  Qed.

  Lemma P_str v : Pexpr (EStr v).
  Proof.
    intros L k s rest HL E Hw Hk HF. cbn [rtext rloc] in *.
    unfold expression_body. unfold bind at 1.
    rewrite (peek_eq s 34 (escape (l_esc L []) v ++ [34] ++ rest)) by (rewrite E; unfold render_string; cbn [app]; rewrite <- app_assoc; reflexivity).
    cbn [N.eqb Pos.eqb]. unfold bind at 1. unfold bind at 1.
    rewrite (parse_string_ok F (l_esc L []) v s rest E HF). unfold ret at 1. finish_primary E HF.
  Qed.

  Lemma P_capture n q f i l : WfIdent X n -> Pexpr (ECapture n q f i l).
  Proof.
    intros Hn L k s rest HL E Hw Hk HF. cbn [rtext rloc] in *.
    unfold expression_body. unfold bind at 1. rewrite (peek_eq s 64 (n ++ rest)) by exact E.
    cbn [N.eqb Pos.eqb]. unfold bind at 1.
    rewrite (parse_capture_ok n s rest Hn E (Hw eq_refl) HF). finish_primary E HF.
  Qed.

  Lemma P_regexcap i : i <= usize_max -> Pexpr (ERegexCap i).
  Proof.
    intros Hi L k s rest HL E Hw Hk HF. cbn [rtext rloc] in *.
    unfold expression_body. unfold bind at 1.
    rewrite (peek_eq s 36 (render_int (l_zeros L []) i ++ rest)) by exact E.
    cbn [N.eqb Pos.eqb]. unfold bind at 1.
    rewrite (parse_regex_capture_ok (l_zeros L []) i s rest Hi E (Hw eq_refl) HF). finish_primary E HF.
  Qed.

  Lemma P_unscoped n l : WfIdent X n -> Pexpr (EUnscoped n l).
  Proof.
    intros Hn L k s rest HL E Hw Hk HF. cbn [rtext rloc] in *.
    destruct n as [|c t] eqn:En; [contradiction|]. rewrite <- En in *.
    assert (Hc : is_ident_start X c = true) by (subst n; apply Hn).
    destruct (ident_start_dispatch X c Hc) as [H1 [H2 [H3 [H4 [H5 [H6 [H7 H8]]]]]]].
    unfold expression_body. unfold bind at 1.
    rewrite (peek_eq s c (t ++ rest)) by (rewrite E, En; reflexivity).
    rewrite H1, H2, H3, H4, H5, H6, H7, H8, Hc.
    unfold bind at 1. unfold bind at 1. unfold get_loc at 1. unfold bind at 1.
    rewrite (parse_name_ok X F w_variable n s rest Hn (Hw eq_refl) E HF).
    unfold ret at 1. finish_primary E HF.
  Qed.

  (* ---------------------------------------------------------------- scoped variables *)
  Lemma WfLayout_sub L i : WfLayout X L -> WfLayout X (sub L i).
  Proof. intros H p. apply (H (i :: p)). Qed.
  Lemma WfLayout_gap L k : WfLayout X L -> WfGap X (l_gap L [k]).
  Proof. intros H. apply H. Qed.

  Lemma wfident_no_gap n r : WfIdent X n -> no_gap_start X (n ++ r).
  Proof.
    destruct n as [|c t]; [contradiction|]. intros [Hc _]. cbn [app].
    apply head_ok_no_gap, head_ok_ident_start, Hc.
  Qed.

  Lemma P_scoped sc n l : WfIdent X n -> Pexpr sc -> Pexpr (EScoped sc n l).
  Proof.
    intros Hn IH L k s rest HL E Hw Hk HF. cbn [rtext rloc] in *.
    repeat rewrite <- app_assoc in E.
    set (tsc := rtext (sub L 0) sc) in *.
    destruct (IH (sub L 0) k s (G L 1 ++ [46] ++ G L 2 ++ n ++ rest) (WfLayout_sub L 0 HL) E) as [k1 [Hk1 Hb]].
    { intros _. apply gap_follow; [apply WfLayout_gap; exact HL | reflexivity]. }
    { exact Hk. } { exact HF. }
    rewrite Hb. clear Hb. unfold bind at 1.
    rewrite (consume_whitespace_ok X F (l_gap L [1%nat]) _ ([46] ++ G L 2 ++ n ++ rest))
      by (try reflexivity; try (apply WfLayout_gap; exact HL); try (split; [discriminate | reflexivity]); lensolve E HF).
    rewrite st_after_app. destruct k1 as [|k2]; [lia|]. cbn [suffix_loop].
    unfold peek_is at 1. cbn [p_rest st_after app]. cbn [N.eqb Pos.eqb].
    unfold bind at 1.
    rewrite (skip_unwrap_eq 5 _ 46 (G L 2 ++ n ++ rest)) by reflexivity.
    rewrite advance_st_after, st_after_app. unfold bind at 1.
    rewrite (consume_whitespace_ok X F (l_gap L [2%nat]) _ (n ++ rest))
      by (try reflexivity; try (apply WfLayout_gap; exact HL); try (apply wfident_no_gap; exact Hn); lensolve E HF).
    rewrite st_after_app. unfold bind at 1. unfold get_loc at 1. unfold bind at 1.
    rewrite (parse_name_ok X F w_scoped n _ rest Hn (Hw eq_refl)) by (try reflexivity; lensolve E HF).
    rewrite !st_after_app. rewrite p_loc_st_after.
    exists k2. split.
    - repeat (rewrite app_length in Hk1 || cbn [length] in Hk1). lia.
    - repeat rewrite <- app_assoc. reflexivity.
  Qed.

  (* ---------------------------------------------------------------- calls *)
  (* a closing delimiter: what follows the last item of a sequence *)
  Definition closing (cl : N) : Prop :=
    cl <> 59 /\ cl <> 46 /\ is_whitespace X cl = false /\ is_ident X cl = false.
  Lemma closing_41 : closing 41. Proof. repeat split; (discriminate || reflexivity). Qed.
  Lemma closing_93 : closing 93. Proof. repeat split; (discriminate || reflexivity). Qed.
  Lemma closing_125 : closing 125. Proof. repeat split; (discriminate || reflexivity). Qed.
  Lemma closing_44 : closing 44. Proof. repeat split; (discriminate || reflexivity). Qed.

  Lemma closing_props cl r : closing cl ->
    no_gap_start X (cl :: r) /\ no_dot_start (cl :: r) /\ no_ident_start X (cl :: r).
  Proof. intros [H1 [H2 [H3 H4]]]. repeat split; assumption. Qed.

  Lemma expr_text_props e L r : WfExpr X e ->
    no_gap_start X (rtext L e ++ r) /\ no_dot_start (rtext L e ++ r) /\
    (starts_word e = false -> no_ident_start X (rtext L e ++ r)).
  Proof.
    intros Hwf. destruct (rtext_head e Hwf L) as [c [t [Et [Hh Hs]]]]. rewrite Et. cbn [app].
    split; [apply head_ok_no_gap; exact Hh|]. split; [apply (head_ok_no_dot c (t ++ r)); exact Hh | exact Hs].
  Qed.

  Lemma args_tail_props args L i cl rest : wf_all X args -> closing cl ->
    let r := rtext_args rtext L i args ++ [cl] ++ rest in
    no_gap_start X r /\ no_dot_start r /\ (next_starts_word args = false -> no_ident_start X r).
  Proof.
    intros Hwf Hcl. destruct args as [|a args]; cbn [rtext_args next_starts_word app].
    - destruct (closing_props cl rest Hcl) as [H1 [H2 H3]]. auto.
    - destruct Hwf as [Ha _]. repeat rewrite <- app_assoc. apply expr_text_props. exact Ha.
  Qed.

  Lemma call_loop_ok args : Forall Pexpr args -> wf_all X args -> forall L i n s rest k,
    WfLayout X L -> p_rest s = rtext_args rtext L i args ++ [41] ++ rest ->
    (len s < n)%nat -> (len s < k)%nat -> (len s < F)%nat ->
    call_loop X F (rec_n n) k s =
      ROk (rloc_args rloc L i (p_loc s) args) (st_after s (rtext_args rtext L i args) ([41] ++ rest)).
  Proof.
    induction args as [|a args IH]; intros HP Hwf L i n s rest k HL E Hn Hk HF;
      (destruct k as [|k]; [lia|]); cbn [call_loop rtext_args rloc_args] in *.
    - unfold bind at 1. rewrite (peek_eq s 41 rest) by exact E. cbn [N.eqb Pos.eqb]. unfold ret.
      rewrite st_after_nil' by exact E. reflexivity.
    - inversion HP as [|? ? HPa HPargs]; subst. destruct Hwf as [Hwa Hwargs].
      repeat rewrite <- app_assoc in E.
      destruct (rtext_head a Hwa (sub L (2 * i))) as [c [t [Et [Hh Hs]]]].
      pose proof E as E'. rewrite Et in E'.
      unfold bind at 1. rewrite (peek_eq s c (t ++ Gs L (2 * i + 1) (ends_word a) (next_starts_word args) ++ rtext_args rtext L (S i) args ++ [41] ++ rest))
        by (rewrite E, Et; reflexivity).
      replace (c =? 41) with false by (symmetry; apply N.eqb_neq; apply Hh).
      destruct (args_tail_props args L (S i) 41 rest Hwargs closing_41) as [Ht1 [Ht2 Ht3]].
      unfold bind at 1. unfold rec_n at 1.
      rewrite (P_Full a HPa (sub L (2 * i)) n s (sep (ends_word a) (next_starts_word args) (l_gap L [(2 * i + 1)%nat]))
                 (rtext_args rtext L (S i) args ++ [41] ++ rest)); try assumption.
      + unfold bind at 1. rewrite consume_whitespace_noop by (try exact Ht1; lensolve E HF).
        unfold bind at 1.
        rewrite (IH HPargs Hwargs L (S i) n _ rest k HL) by (try reflexivity; lensolve E' Hk || lensolve E' Hn || lensolve E' HF).
        unfold ret. rewrite st_after_app, p_loc_st_after. repeat rewrite <- app_assoc. reflexivity.
      + apply WfLayout_sub; exact HL.
      + split; [apply sep_wf, WfLayout_gap; exact HL|]. split; [exact Ht1|]. split; [exact Ht2|].
        intros Hew. apply sep_follow; [apply WfLayout_gap; exact HL | exact Hew | exact Ht3].
  Qed.

  Lemma P_call f args : WfIdent X f -> wf_all X args -> Forall Pexpr args -> Pexpr (ECall f args).
  Proof.
    intros Hf Hwf HP L n s rest HL E Hw Hn HF. cbn [rtext rloc] in *.
    repeat rewrite <- app_assoc in E. cbn [app] in E.
    unfold expression_body. unfold bind at 1. rewrite (peek_eq s 40 _ E).
    cbn [N.eqb Pos.eqb]. unfold bind at 1. unfold parse_call. unfold bind at 1.
    rewrite (consume_token_ok t_lparen s _ E). unfold bind at 1.
    destruct (args_tail_props args (sub L 2) 0 41 rest Hwf closing_41) as [Ht1 [Ht2 Ht3]].
    rewrite (consume_whitespace_ok X F (l_gap L [0%nat]) _ (f ++ Gs L 1 true (next_starts_word args) ++ rtext_args rtext (sub L 2) 0 args ++ [41] ++ rest))
      by (try reflexivity; try (apply WfLayout_gap; exact HL); try (apply wfident_no_gap; exact Hf); lensolve E HF).
    rewrite st_after_app. unfold bind at 1.
    rewrite (parse_name_ok X F w_function f _ (Gs L 1 true (next_starts_word args) ++ rtext_args rtext (sub L 2) 0 args ++ [41] ++ rest) Hf)
      by (try reflexivity; try (apply sep_follow; [apply WfLayout_gap; exact HL | reflexivity | exact Ht3]); lensolve E HF).
    rewrite st_after_app. unfold bind at 1.
    rewrite (consume_whitespace_ok X F (sep true (next_starts_word args) (l_gap L [1%nat])) _ (rtext_args rtext (sub L 2) 0 args ++ [41] ++ rest))
      by (try reflexivity; try (apply sep_wf, WfLayout_gap; exact HL); try exact Ht1; lensolve E HF).
    rewrite st_after_app. unfold bind at 1.
    rewrite (call_loop_ok args HP Hwf (sub L 2) 0 n _ rest F (WfLayout_sub L 2 HL))
      by (try reflexivity; lensolve E HF || lensolve E Hn).
    rewrite st_after_app, p_loc_st_after. unfold bind at 1.
    rewrite (consume_token_ok t_rparen _ rest) by reflexivity.
    rewrite st_after_app. unfold ret at 1.
    exists F. split; [lensolve E HF|]. repeat rewrite <- app_assoc. reflexivity.
  Qed.

  (* ---------------------------------------------------------------- list and set literals *)
  (* the sequence as parse_sequence meets it: positioned at an element *)
  Definition seq_text (L : layout) (i : nat) (es : list expr) : list N :=
    match es with
    | [] => []
    | e :: es' => rtext (sub L (3 * i)) e ++ G L (3 * i + 2) ++ rtext_more rtext L (S i) es'
    end.
  Definition seq_loc (L : layout) (i : nat) (p : loc) (es : list expr) : list expr :=
    match es with
    | [] => []
    | e :: es' => rloc (sub L (3 * i)) p e ::
                  rloc_more rloc L (S i) (pos_after p (rtext (sub L (3 * i)) e ++ G L (3 * i + 2))) es'
    end.
  Lemma rtext_more_cases L j es :
    (rtext_more rtext L j es = [] /\ es = []) \/
    rtext_more rtext L j es = [44] ++ G L (3 * j + 1) ++ seq_text L j es.
  Proof.
    destruct es as [|e es]; cbn [rtext_more seq_text].
    - destruct (l_flag L []); [right; rewrite app_nil_r; reflexivity | left; auto].
    - right. reflexivity.
  Qed.
  Lemma rloc_more_seq L j p es :
    rloc_more rloc L j p es = seq_loc L j (pos_after p ([44] ++ G L (3 * j + 1))) es.
  Proof. destruct es; reflexivity. Qed.

  Lemma seq_tail_props es L i cl rest : wf_all X es -> closing cl ->
    let r := seq_text L i es ++ [cl] ++ rest in no_gap_start X r /\ no_dot_start r /\ no_ident_start X r
      /\ match r with c :: _ => c <> 44 | [] => True end.
  Proof.
    intros Hwf Hcl. destruct es as [|a es]; cbn [seq_text app].
    - destruct (closing_props cl rest Hcl) as [H1 [H2 H3]]. repeat split; auto.
  Abort.

  Lemma more_tail_props es L j cl rest : closing cl ->
    let r := rtext_more rtext L j es ++ [cl] ++ rest in
    no_gap_start X r /\ no_dot_start r /\ no_ident_start X r.
  Proof.
    intros Hcl. destruct (rtext_more_cases L j es) as [[-> _]| ->]; cbn [app].
    - apply closing_props; exact Hcl.
    - apply closing_props; exact closing_44.
  Qed.
  Lemma seq_tail_no_gap es L i cl rest : wf_all X es -> closing cl ->
    no_gap_start X (seq_text L i es ++ [cl] ++ rest).
  Proof.
    intros Hwf Hcl. destruct es as [|a es]; cbn [seq_text app].
    - apply closing_props; exact Hcl.
    - destruct Hwf as [Ha _]. repeat rewrite <- app_assoc. apply expr_text_props. exact Ha.
  Qed.

  Lemma sequence_loop_ok cl es : closing cl -> (forall c, head_ok c -> c <> cl) -> cl <> 44 ->
    Forall Pexpr es -> wf_all X es -> forall L i n s rest k,
    WfLayout X L -> p_rest s = seq_text L i es ++ [cl] ++ rest ->
    (len s < n)%nat -> (len s < k)%nat -> (len s < F)%nat ->
    sequence_loop X F (rec_n n) cl k s =
      ROk (seq_loc L i (p_loc s) es) (st_after s (seq_text L i es) ([cl] ++ rest)).
  Proof.
    intros Hcl Hhead H44. induction es as [|a es IH]; intros HP Hwf L i n s rest k HL E Hn Hk HF;
      (destruct k as [|k]; [lia|]); cbn [sequence_loop seq_text seq_loc] in *.
    - unfold bind at 1. rewrite (peek_eq s cl rest) by exact E. rewrite N.eqb_refl. unfold ret.
      rewrite st_after_nil' by exact E. reflexivity.
    - inversion HP as [|? ? HPa HPes]; subst. destruct Hwf as [Hwa Hwes].
      repeat rewrite <- app_assoc in E.
      destruct (rtext_head a Hwa (sub L (3 * i))) as [c [t [Et [Hh Hs]]]].
      pose proof E as E'. rewrite Et in E'.
      unfold bind at 1. rewrite (peek_eq s c _ E').
      replace (c =? cl) with false by (symmetry; apply N.eqb_neq; apply Hhead; exact Hh).
      destruct (more_tail_props es L (S i) cl rest Hcl) as [Ht1 [Ht2 Ht3]].
      unfold bind at 1. unfold rec_n at 1.
      rewrite (P_Full a HPa (sub L (3 * i)) n s (l_gap L [(3 * i + 2)%nat])
                 (rtext_more rtext L (S i) es ++ [cl] ++ rest)); try assumption.
      2: { apply WfLayout_sub; exact HL. }
      2: { split; [apply WfLayout_gap; exact HL|]. split; [exact Ht1|]. split; [exact Ht2|].
           intros _. apply gap_follow; [apply WfLayout_gap; exact HL | exact Ht3]. }
      unfold bind at 1. rewrite consume_whitespace_noop by (try exact Ht1; lensolve E' HF).
      rewrite rloc_more_seq. unfold bind at 1.
      destruct (rtext_more_cases L (S i) es) as [[Hm ->]|Hm]; rewrite Hm in *.
      + (* last element, no trailing comma *)
        cbn [app] in *. rewrite (peek_eq _ cl rest) by reflexivity. rewrite N.eqb_refl.
        unfold bind at 1. unfold ret at 1. unfold bind at 1.
        rewrite (IH HPes Hwes L (S i) n _ rest k HL) by (try reflexivity; lensolve E' Hk || lensolve E' Hn || lensolve E' HF).
        cbn [seq_loc seq_text]. unfold ret. rewrite st_after_app. rewrite !app_nil_r. reflexivity.
      + repeat rewrite <- app_assoc. cbn [app].
        rewrite (peek_eq _ 44 (G L (3 * S i + 1) ++ seq_text L (S i) es ++ [cl] ++ rest)) by reflexivity.
        replace (44 =? cl) with false by (symmetry; apply N.eqb_neq; congruence).
        unfold bind at 1. unfold bind at 1.
        rewrite (consume_token_ok t_comma _ (G L (3 * S i + 1) ++ seq_text L (S i) es ++ [cl] ++ rest)) by reflexivity.
        rewrite st_after_app.
        rewrite (consume_whitespace_ok X F (l_gap L [(3 * S i + 1)%nat]) _ (seq_text L (S i) es ++ [cl] ++ rest))
          by (try reflexivity; try (apply WfLayout_gap; exact HL); try (apply seq_tail_no_gap; assumption); lensolve E' HF).
        rewrite st_after_app. unfold bind at 1.
        rewrite (IH HPes Hwes L (S i) n _ rest k HL) by (try reflexivity; lensolve E' Hk || lensolve E' Hn || lensolve E' HF).
        unfold ret. rewrite st_after_app, p_loc_st_after.
        repeat rewrite <- app_assoc. cbn [app]. repeat rewrite pos_after_app. reflexivity.
  Qed.

  Lemma starts_with_single_ne cc c r : c <> cc -> starts_with [cc] (c :: r) = false.
  Proof. intros H. cbn [starts_with]. replace (cc =? c) with false by (symmetry; apply N.eqb_neq; congruence). reflexivity. Qed.

  (* text and located elements of a list/set literal between its delimiters *)
  Definition lit_text (L : layout) (oc cc : N) (es : list expr) : list N :=
    match es with
    | [] => [oc] ++ G L 0 ++ [cc]
    | e :: es' => [oc] ++ G L 0 ++ rtext (sub L 3) e ++ G L 1 ++ rtext_more rtext (sub L 4) 0 es' ++ [cc]
    end.
  Definition lit_loc (L : layout) (oc : N) (p : loc) (es : list expr) : list expr :=
    match es with
    | [] => []
    | e :: es' =>
        let p1 := pos_after p ([oc] ++ G L 0) in
        rloc (sub L 3) p1 e :: rloc_more rloc (sub L 4) 0 (pos_after p1 (rtext (sub L 3) e ++ G L 1)) es'
    end.

  Lemma collection_lit_ok oc cc lit comp es : closing cc -> (forall c, head_ok c -> c <> cc) -> cc <> 44 ->
    Forall Pexpr es -> wf_all X es -> forall L n s rest, WfLayout X L ->
    p_rest s = lit_text L oc cc es ++ rest -> (len s <= n)%nat -> (len s < F)%nat ->
    parse_collection X F (rec_n n) [oc] [cc] cc lit comp s =
      ROk (lit (lit_loc L oc (p_loc s) es)) (st_after s (lit_text L oc cc es) rest).
  Proof.
    intros Hcl Hhead H44 HP Hwf L n s rest HL E Hn HF.
    unfold parse_collection. unfold bind at 1. unfold get_loc at 1. unfold bind at 1.
    destruct es as [|e es]; cbn [lit_text lit_loc] in *; repeat rewrite <- app_assoc in E.
    - rewrite (consume_token_ok [oc] s _ E). unfold bind at 1.
      rewrite (consume_whitespace_ok X F (l_gap L [0%nat]) _ ([cc] ++ rest))
        by (try reflexivity; try (apply WfLayout_gap; exact HL); try (apply closing_props; exact Hcl); lensolve E HF).
      rewrite st_after_app. unfold if_ok at 1.
      rewrite (consume_token_ok [cc] _ rest) by reflexivity. unfold ret. rewrite st_after_app.
      repeat rewrite <- app_assoc. reflexivity.
    - inversion HP as [|? ? HPe HPes]; subst. destruct Hwf as [Hwe Hwes].
      destruct (rtext_head e Hwe (sub L 3)) as [c [t [Et [Hh Hs]]]].
      pose proof E as E'. rewrite Et in E'.
      rewrite (consume_token_ok [oc] s _ E). unfold bind at 1.
      rewrite (consume_whitespace_ok X F (l_gap L [0%nat]) _ (rtext (sub L 3) e ++ G L 1 ++ rtext_more rtext (sub L 4) 0 es ++ [cc] ++ rest))
        by (try reflexivity; try (apply WfLayout_gap; exact HL); try (apply expr_text_props; exact Hwe); lensolve E HF).
      rewrite st_after_app. unfold if_ok at 1.
      rewrite consume_token_fail by (cbn [p_rest st_after]; rewrite Et; apply starts_with_single_ne, Hhead, Hh).
      destruct (more_tail_props es (sub L 4) 0 cc rest Hcl) as [Ht1 [Ht2 Ht3]].
      unfold bind at 1. unfold rec_n at 1.
      rewrite (P_Full e HPe (sub L 3) n _ (l_gap L [1%nat]) (rtext_more rtext (sub L 4) 0 es ++ [cc] ++ rest)); try assumption.
      2: { apply WfLayout_sub; exact HL. }
      2: { split; [apply WfLayout_gap; exact HL|]. split; [exact Ht1|]. split; [exact Ht2|].
           intros _. apply gap_follow; [apply WfLayout_gap; exact HL | exact Ht3]. }
      2: { reflexivity. }
      2: { rewrite Et. lensolve E' Hn. }
      2: { rewrite Et. lensolve E' HF. }
      rewrite st_after_app, p_loc_st_after. unfold bind at 1.
      rewrite consume_whitespace_noop by (try exact Ht1; lensolve E' HF).
      rewrite rloc_more_seq.
      destruct (rtext_more_cases (sub L 4) 0 es) as [[Hm ->]|Hm]; rewrite Hm in *.
      + cbn [app]. unfold if_ok at 1. rewrite (consume_token_ok [cc] _ rest) by reflexivity.
        unfold ret. rewrite st_after_app. cbn [seq_loc]. norm. reflexivity.
      + repeat rewrite <- app_assoc. cbn [app]. unfold if_ok at 1.
        rewrite consume_token_fail by (cbn [p_rest st_after]; apply starts_with_single_ne; congruence).
        unfold if_ok at 1.
        rewrite (consume_token_ok t_comma _ (G (sub L 4) (3 * 0 + 1) ++ seq_text (sub L 4) 0 es ++ [cc] ++ rest)) by reflexivity.
        rewrite st_after_app. unfold bind at 1.
        rewrite (consume_whitespace_ok X F (l_gap (sub L 4) [(3 * 0 + 1)%nat]) _ (seq_text (sub L 4) 0 es ++ [cc] ++ rest))
          by (try reflexivity; try (apply WfLayout_gap, WfLayout_sub; exact HL); try (apply seq_tail_no_gap; assumption); lensolve E' HF).
        rewrite st_after_app. unfold bind at 1. unfold parse_sequence.
        rewrite (sequence_loop_ok cc es Hcl Hhead H44 HPes Hwes (sub L 4) 0 n _ rest F (WfLayout_sub L 4 HL))
          by (try reflexivity; lensolve E' HF || lensolve E' Hn).
        rewrite st_after_app, p_loc_st_after. unfold bind at 1.
        rewrite consume_whitespace_noop by (try (apply closing_props; exact Hcl); lensolve E' HF).
        unfold bind at 1. rewrite (consume_token_ok [cc] _ rest) by reflexivity.
        unfold ret. rewrite st_after_app. norm. reflexivity.
  Qed.

  Lemma head_ne_93 c : head_ok c -> c <> 93. Proof. intros H. apply H. Qed.
  Lemma head_ne_125 c : head_ok c -> c <> 125. Proof. intros H. apply H. Qed.

  Lemma P_list es : wf_all X es -> Forall Pexpr es -> Pexpr (EList es).
  Proof.
    intros Hwf HP L n s rest HL E Hw Hn HF.
    assert (Et : rtext L (EList es) = lit_text L 91 93 es) by (destruct es; reflexivity).
    assert (El : rloc L (p_loc s) (EList es) = EList (lit_loc L 91 (p_loc s) es)) by (destruct es; reflexivity).
    rewrite Et in *. rewrite El.
    assert (Eh : exists t, lit_text L 91 93 es ++ rest = 91 :: t) by (destruct es; eexists; reflexivity).
    destruct Eh as [t Eh].
    unfold expression_body. unfold bind at 1. rewrite (peek_eq s 91 t) by (rewrite E; exact Eh).
    cbn [N.eqb Pos.eqb]. unfold bind at 1. unfold parse_list, t_lbrack, t_rbrack.
    rewrite (collection_lit_ok 91 93 EList EListComp es closing_93 head_ne_93 ltac:(discriminate) HP Hwf L n s rest HL E Hn HF).
    exists F. split; [|reflexivity]. clear -E HF. unfold len in HF. rewrite E, app_length in HF. lia.
  Qed.
  Lemma P_set es : wf_all X es -> Forall Pexpr es -> Pexpr (ESet es).
  Proof.
    intros Hwf HP L n s rest HL E Hw Hn HF.
    assert (Et : rtext L (ESet es) = lit_text L 123 125 es) by (destruct es; reflexivity).
    assert (El : rloc L (p_loc s) (ESet es) = ESet (lit_loc L 123 (p_loc s) es)) by (destruct es; reflexivity).
    rewrite Et in *. rewrite El.
    assert (Eh : exists t, lit_text L 123 125 es ++ rest = 123 :: t) by (destruct es; eexists; reflexivity).
    destruct Eh as [t Eh].
    unfold expression_body. unfold bind at 1. rewrite (peek_eq s 123 t) by (rewrite E; exact Eh).
    cbn [N.eqb Pos.eqb]. unfold bind at 1. unfold parse_set, t_lbrace, t_rbrace.
    rewrite (collection_lit_ok 123 125 ESet ESetComp es closing_125 head_ne_125 ltac:(discriminate) HP Hwf L n s rest HL E Hn HF).
    exists F. split; [|reflexivity]. clear -E HF. unfold len in HF. rewrite E, app_length in HF. lia.
  Qed.

  (* ---------------------------------------------------------------- comprehensions *)
  Definition comp_text (L : layout) (oc cc : N) (el : expr) (v : ident) (val : expr) : list N :=
    [oc] ++ G L 0 ++ rtext (sub L 3) el ++ Gs L 1 (ends_word el) true ++ t_for ++ Gs L 2 true true ++ v
    ++ Gs L 5 true true ++ t_in ++ Gs L 6 true (starts_word val) ++ rtext (sub L 4) val ++ G L 7 ++ [cc].
  Definition comp_loc (L : layout) (oc : N) (comp : expr -> ident -> loc -> expr -> loc -> expr)
      (p : loc) (el : expr) (v : ident) (val : expr) : expr :=
    let p1 := pos_after p ([oc] ++ G L 0) in
    let pv := pos_after p1 (rtext (sub L 3) el ++ Gs L 1 (ends_word el) true ++ t_for ++ Gs L 2 true true) in
    let p2 := pos_after pv (v ++ Gs L 5 true true ++ t_in ++ Gs L 6 true (starts_word val)) in
    comp (rloc (sub L 3) p1 el) v pv (rloc (sub L 4) p2 val) p.

  Lemma collection_comp_ok oc cc lit comp el v val : closing cc -> (forall c, head_ok c -> c <> cc) ->
    cc <> 102 -> Pexpr el -> Pexpr val -> WfExpr X el -> WfIdent X v -> WfExpr X val ->
    forall L n s rest, WfLayout X L ->
    p_rest s = comp_text L oc cc el v val ++ rest -> (len s <= n)%nat -> (len s < F)%nat ->
    parse_collection X F (rec_n n) [oc] [cc] cc lit comp s =
      ROk (comp_loc L oc comp (p_loc s) el v val) (st_after s (comp_text L oc cc el v val) rest).
  Proof.
    intros Hcl Hhead H102 HPel HPval Hwel Hv Hwval L n s rest HL E Hn HF.
    unfold comp_text, comp_loc in *. repeat rewrite <- app_assoc in E.
    destruct (rtext_head el Hwel (sub L 3)) as [c [t [Et [Hh Hs]]]].
    pose proof E as E'. rewrite Et in E'.
    unfold parse_collection. unfold bind at 1. unfold get_loc at 1. unfold bind at 1.
    rewrite (consume_token_ok [oc] s _ E). unfold bind at 1.
    match type of E with _ = _ ++ _ ++ ?r => 
      rewrite (consume_whitespace_ok X F (l_gap L [0%nat]) _ r)
        by (try reflexivity; try (apply WfLayout_gap; exact HL); try (apply expr_text_props; exact Hwel); lensolve E HF)
    end.
    rewrite st_after_app. unfold if_ok at 1.
    rewrite consume_token_fail by (cbn [p_rest st_after]; rewrite Et; apply starts_with_single_ne, Hhead, Hh).
    unfold bind at 1. unfold rec_n at 1.
    match type of E with _ = _ ++ _ ++ _ ++ _ ++ ?r =>
      rewrite (P_Full el HPel (sub L 3) n _ (sep (ends_word el) true (l_gap L [1%nat])) r)
    end.
    2: { apply WfLayout_sub; exact HL. }
    2: { split; [apply sep_wf, WfLayout_gap; exact HL|]. split; [split; [discriminate|reflexivity]|].
         split; [discriminate|]. intros Hew. apply sep_follow; [apply WfLayout_gap; exact HL | exact Hew | discriminate]. }
    2: { reflexivity. }
    2: { rewrite Et. lensolve E' Hn. }
    2: { rewrite Et. lensolve E' HF. }
    rewrite st_after_app, p_loc_st_after. unfold bind at 1.
    rewrite consume_whitespace_noop by (try (split; [discriminate|reflexivity]); lensolve E' HF).
    unfold if_ok at 1.
    rewrite consume_token_fail by (cbn [p_rest st_after app t_for]; apply starts_with_single_ne; congruence).
    unfold if_ok at 1.
    rewrite consume_token_fail by reflexivity.
    unfold bind at 1.
    match type of E with _ = _ ++ _ ++ _ ++ _ ++ _ ++ ?r =>
      rewrite (consume_token_ok t_for _ r) by reflexivity
    end.
    rewrite st_after_app. unfold bind at 1.
    match type of E with _ = _ ++ _ ++ _ ++ _ ++ _ ++ _ ++ ?r =>
      rewrite (consume_whitespace_ok X F (sep true true (l_gap L [2%nat])) _ r)
        by (try reflexivity; try (apply sep_wf, WfLayout_gap; exact HL); try (apply wfident_no_gap; exact Hv); lensolve E' HF)
    end.
    rewrite st_after_app. unfold bind at 1.
    (* the loop variable, parsed as an expression *)
    unfold parse_unscoped_variable_with. unfold bind at 1. unfold parse_variable_with.
    unfold bind at 1. unfold get_loc at 1. unfold bind at 1. unfold rec_n at 1.
    match type of E with _ = _ ++ _ ++ _ ++ _ ++ _ ++ _ ++ _ ++ _ ++ ?r =>
      rewrite (P_Full (EUnscoped v (0, 0)) (P_unscoped v (0, 0) Hv) L n _ (sep true true (l_gap L [5%nat])) r)
    end.
    2: { exact HL. }
    2: { split; [apply sep_wf, WfLayout_gap; exact HL|]. split; [split; [discriminate|reflexivity]|].
         split; [discriminate|]. intros _. apply sep_follow; [apply WfLayout_gap; exact HL | reflexivity | discriminate]. }
    2: { reflexivity. }
    2: { lensolve E' Hn. }
    2: { lensolve E' HF. }
    cbn [rtext rloc expr_as_variable]. unfold ret at 1. unfold ret at 1.
    rewrite st_after_app, !p_loc_st_after. unfold bind at 1.
    rewrite consume_whitespace_noop by (try (split; [discriminate|reflexivity]); lensolve E' HF).
    unfold bind at 1.
    match type of E with _ = _ ++ _ ++ _ ++ _ ++ _ ++ _ ++ _ ++ _ ++ _ ++ ?r =>
      rewrite (consume_token_ok t_in _ r) by reflexivity
    end.
    rewrite st_after_app. unfold bind at 1.
    match type of E with _ = _ ++ _ ++ _ ++ _ ++ _ ++ _ ++ _ ++ _ ++ _ ++ _ ++ ?r =>
      rewrite (consume_whitespace_ok X F (sep true (starts_word val) (l_gap L [6%nat])) _ r)
        by (try reflexivity; try (apply sep_wf, WfLayout_gap; exact HL); try (apply expr_text_props; exact Hwval); lensolve E' HF)
    end.
    rewrite st_after_app. unfold bind at 1. unfold rec_n at 1.
    rewrite (P_Full val HPval (sub L 4) n _ (l_gap L [7%nat]) ([cc] ++ rest)).
    2: { apply WfLayout_sub; exact HL. }
    2: { destruct (closing_props cc rest Hcl) as [H1 [H2 H3]].
         split; [apply WfLayout_gap; exact HL|]. split; [exact H1|]. split; [exact H2|].
         intros _. apply gap_follow; [apply WfLayout_gap; exact HL | exact H3]. }
    2: { reflexivity. }
    2: { lensolve E' Hn. }
    2: { lensolve E' HF. }
    rewrite st_after_app, p_loc_st_after. unfold bind at 1.
    rewrite consume_whitespace_noop by (try (apply closing_props; exact Hcl); lensolve E' HF).
    unfold bind at 1. rewrite (consume_token_ok [cc] _ rest) by reflexivity.
    unfold ret. norm. reflexivity.
  Qed.

  Lemma P_listcomp el v vl val l : WfExpr X el -> WfIdent X v -> WfExpr X val -> Pexpr el -> Pexpr val ->
    Pexpr (EListComp el v vl val l).
  Proof.
    intros Hwel Hv Hwval HPel HPval L n s rest HL E Hw Hn HF.
    change (rtext L (EListComp el v vl val l)) with (comp_text L 91 93 el v val) in *.
    change (rloc L (p_loc s) (EListComp el v vl val l)) with (comp_loc L 91 EListComp (p_loc s) el v val).
    unfold expression_body. unfold bind at 1. rewrite (peek_eq s 91 _ E).
    cbn [N.eqb Pos.eqb]. unfold bind at 1. unfold parse_list, t_lbrack, t_rbrack.
    rewrite (collection_comp_ok 91 93 EList EListComp el v val closing_93 head_ne_93 ltac:(discriminate) HPel HPval Hwel Hv Hwval L n s rest HL E Hn HF).
    exists F. split; [|reflexivity]. clear -E HF. unfold len in HF. rewrite E, app_length in HF. lia.
  Qed.
  Lemma P_setcomp el v vl val l : WfExpr X el -> WfIdent X v -> WfExpr X val -> Pexpr el -> Pexpr val ->
    Pexpr (ESetComp el v vl val l).
  Proof.
    intros Hwel Hv Hwval HPel HPval L n s rest HL E Hw Hn HF.
    change (rtext L (ESetComp el v vl val l)) with (comp_text L 123 125 el v val) in *.
    change (rloc L (p_loc s) (ESetComp el v vl val l)) with (comp_loc L 123 ESetComp (p_loc s) el v val).
    unfold expression_body. unfold bind at 1. rewrite (peek_eq s 123 _ E).
    cbn [N.eqb Pos.eqb]. unfold bind at 1. unfold parse_set, t_lbrace, t_rbrace.
    rewrite (collection_comp_ok 123 125 ESet ESetComp el v val closing_125 head_ne_125 ltac:(discriminate) HPel HPval Hwel Hv Hwval L n s rest HL E Hn HF).
    exists F. split; [|reflexivity]. clear -E HF. unfold len in HF. rewrite E, app_length in HF. lia.
  Qed.

  (* ---------------------------------------------------------------- all expressions *)
  Lemma Pexpr_all e : WfExpr X e -> Pexpr e.
  Proof.
    induction e using expr_ind'; intros Hwf; cbn [WfExpr] in Hwf.
    - apply P_literal; auto.
    - apply P_literal; auto.
    - apply P_literal; auto.
    - apply P_int; exact Hwf.
    - apply P_str.
    - fold (wf_all X es) in Hwf. apply P_list; [exact Hwf|]. apply wf_all_Forall in Hwf.
      rewrite Forall_forall in *. intros a Ha. apply H; [exact Ha | apply Hwf; exact Ha].
    - fold (wf_all X es) in Hwf. apply P_set; [exact Hwf|]. apply wf_all_Forall in Hwf.
      rewrite Forall_forall in *. intros a Ha. apply H; [exact Ha | apply Hwf; exact Ha].
    - destruct Hwf as [H1 [H2 H3]]. apply P_listcomp; auto.
    - destruct Hwf as [H1 [H2 H3]]. apply P_setcomp; auto.
    - apply P_capture; exact Hwf.
    - apply P_unscoped; exact Hwf.
    - destruct Hwf as [H1 H2]. apply P_scoped; auto.
    - destruct Hwf as [Hf Hargs]. fold (wf_all X args) in Hargs. apply P_call; [exact Hf | exact Hargs |].
      apply wf_all_Forall in Hargs. rewrite Forall_forall in *. intros a Ha. apply H; [exact Ha | apply Hargs; exact Ha].
    - apply P_regexcap; exact Hwf.
  Qed.

  (* parse_expression on the rendering of any well-formed expression, followed by a gap and a rest
     that continues neither the expression nor its last token, yields the located expression *)
  Lemma parse_render_expr_lemma e L s g r : WfExpr X e -> WfLayout X L -> expr_follow X (ends_word e) g r ->
    p_rest s = rtext L e ++ render_gap g ++ r -> (len s < F)%nat ->
    parse_expression X F s = ROk (rloc L (p_loc s) e) (st_after s (rtext L e ++ render_gap g) r).
  Proof.
    intros Hwf HL Hf E HF. unfold parse_expression.
    apply (P_Full e (Pexpr_all e Hwf) L F s g r HL Hf E HF HF).
  Qed.
End RT.

(* ---------------------------------------------------------------- layout independence *)
(* the AST up to locations (and the unresolved-capture fields the parser always writes) *)
Fixpoint erase_locs (e : expr) : expr :=
  match e with
  | EFalse | ENull | ETrue | EInt _ | EStr _ | ERegexCap _ => e
  | EList es => EList (map erase_locs es)
  | ESet es => ESet (map erase_locs es)
  | EListComp a v _ x _ => EListComp (erase_locs a) v (0, 0) (erase_locs x) (0, 0)
  | ESetComp a v _ x _ => ESetComp (erase_locs a) v (0, 0) (erase_locs x) (0, 0)
  | ECapture n _ _ _ _ => ECapture n QZero u32_max u32_max (0, 0)
  | EUnscoped n _ => EUnscoped n (0, 0)
  | EScoped sc n _ => EScoped (erase_locs sc) n (0, 0)
  | ECall f args => ECall f (map erase_locs args)
  end.

Lemma rloc_more_erase es : Forall (fun e => forall L p, erase_locs (rloc L p e) = erase_locs e) es ->
  forall L i p, map erase_locs (rloc_more rloc L i p es) = map erase_locs es.
Proof.
  induction 1 as [|b es' Hb Hes' IH]; intros L i q; cbn [rloc_more map]; [reflexivity|]. rewrite Hb, IH. reflexivity.
Qed.
Lemma rloc_args_erase es : Forall (fun e => forall L p, erase_locs (rloc L p e) = erase_locs e) es ->
  forall L i p, map erase_locs (rloc_args rloc L i p es) = map erase_locs es.
Proof.
  induction 1 as [|b es' Hb Hes' IH]; intros L i q; cbn [rloc_args map]; [reflexivity|]. rewrite Hb, IH. reflexivity.
Qed.

Lemma rloc_erase e : forall L p, erase_locs (rloc L p e) = erase_locs e.
Proof.
  induction e using expr_ind'; intros L p; cbn [rloc erase_locs]; try reflexivity.
  - destruct es as [|a es]; [reflexivity|]. cbn [erase_locs map]. inversion H as [|? ? Ha Hes]; subst.
    rewrite Ha, (rloc_more_erase es Hes). reflexivity.
  - destruct es as [|a es]; [reflexivity|]. cbn [erase_locs map]. inversion H as [|? ? Ha Hes]; subst.
    rewrite Ha, (rloc_more_erase es Hes). reflexivity.
  - rewrite IHe1, IHe2. reflexivity.
  - rewrite IHe1, IHe2. reflexivity.
  - rewrite IHe. reflexivity.
  - rewrite (rloc_args_erase args H). reflexivity.
Qed.
Lemma rloc_erase_indep L1 L2 p1 p2 e : erase_locs (rloc L1 p1 e) = erase_locs (rloc L2 p2 e).
Proof. rewrite !rloc_erase. reflexivity. Qed.

(* the Display text of an expression / variable does not read locations (nor the capture fields): it is the same for the
   written AST and for the located AST the parser returns.  Used for the text field of `node` statements. *)
Lemma display_expr_erase E e : display_expr E (erase_locs e) = display_expr E e.
Proof.
  induction e using expr_ind'; cbn [erase_locs display_expr]; try reflexivity.
  - rewrite map_map. rewrite (map_ext_in _ (display_expr E)); [reflexivity|].
    intros a Ha. rewrite Forall_forall in H. exact (H a Ha).
  - rewrite map_map. rewrite (map_ext_in _ (display_expr E)); [reflexivity|].
    intros a Ha. rewrite Forall_forall in H. exact (H a Ha).
  - rewrite IHe1, IHe2. reflexivity.
  - rewrite IHe1, IHe2. reflexivity.
  - rewrite IHe. reflexivity.
  - do 2 f_equal. f_equal. induction H as [|a args Ha Hargs IH]; [reflexivity|].
    cbn [map flat_map]. rewrite Ha, IH. reflexivity.
Qed.
Lemma display_expr_rloc E L p e : display_expr E (rloc L p e) = display_expr E e.
Proof. rewrite <- (display_expr_erase E (rloc L p e)), rloc_erase. apply display_expr_erase. Qed.
Lemma display_variable_vloc E L p v : display_variable E (vloc L p v) = display_variable E v.
Proof.
  unfold vloc. destruct v as [n l|sc n l]; cbn [var_expr rloc expr_as_variable display_variable].
  - reflexivity.
  - rewrite display_expr_rloc. reflexivity.
Qed.

(* ---------------------------------------------------------------- UnicodeSane reduces to the external tables *)
Lemma UnicodeSane_intro X :
  (forall c, 128 <= c -> x_ws X c = true -> x_alnum X c = false /\ x_alpha X c = false) -> UnicodeSane X.
Proof.
  intros H c Hws. unfold is_whitespace in Hws. unfold is_ident, is_ident_start, is_alphanumeric, is_alphabetic.
  destruct (N.ltb_spec c 128) as [Hlt|Hge].
  - unfold ascii_ws in Hws.
    assert (Hc : c = 9 \/ c = 10 \/ c = 11 \/ c = 12 \/ c = 13 \/ c = 32).
    { apply orb_true_iff in Hws. destruct Hws as [Hr|He].
      - apply andb_true_iff in Hr. destruct Hr as [H1 H2]. apply N.leb_le in H1, H2. lia.
      - apply N.eqb_eq in He. lia. }
    destruct Hc as [-> | [-> | [-> | [-> | [-> | ->]]]]]; split; reflexivity.
  - destruct (H c Hge Hws) as [Hn Ha]. rewrite Hn, Ha.
    replace (c =? 95) with false by (symmetry; apply N.eqb_neq; lia).
    replace (c =? 45) with false by (symmetry; apply N.eqb_neq; lia). split; reflexivity.
Qed.
