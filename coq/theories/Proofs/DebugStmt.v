(* Proofs/DebugStmt.v — C15 (correctness half) at the level of the STATEMENTS `node` and `edge` of both
   interpreters: what exec_stmt / lexec_stmt (and, for lazy edges, eval_lstmt) leave in the graph when the
   debug attributes are configured. *)
From TSG Require Import Model.Strict Model.Lazy Proofs.BaseFacts Proofs.MonadFacts Proofs.Containers Proofs.DebugAttrs Proofs.DebugSim.

(* the attributes a `node` statement records on its fresh node: variable text, "line R column C" of the
   variable, first full-match node — each only if configured *)
Definition opt_entry (name : option ident) (v : value) : amap :=
  match name with Some k => [(k, v)] | None => [] end.
Definition node_dbg_attrs (cfg : config) (vtext : str) (vloc : loc) (mn : N) : amap :=
  opt_entry (c_var_attr cfg) (VStr vtext) ++ opt_entry (c_loc_attr cfg) (VStr (loc_text vloc)) ++ opt_entry (c_match_attr cfg) (VSyn mn).
(* the attributes a NEW edge gets from an `edge` statement at location l *)
Definition edge_dbg_attrs (cfg : config) (l : loc) : amap := opt_entry (c_loc_attr cfg) (VStr (loc_text l)).
Definition first_full_match (m : qmatch) (full : N) : N := hd 0 (nodes_for_capture m full).
(* the match-node attribute needs a full-match node *)
Definition match_available (cfg : config) (m : qmatch) (full : N) : Prop :=
  c_match_attr cfg = None \/ nodes_for_capture m full <> [].

Definition sg (s : sstate) (g : graph) : sstate :=
  {| s_graph := g; s_locals := s_locals s; s_scoped := s_scoped s; s_params := s_params s |}.
Definition lg (s : lstate) (g : graph) : lstate :=
  {| l_graph := g; l_locals := l_locals s; l_store := l_store s; l_scoped := l_scoped s; l_edges := l_edges s;
     l_attrs := l_attrs s; l_prints := l_prints s; l_params := l_params s; l_prev := l_prev s |}.

Lemma list_update_last {A} (f : A -> A) l x : list_update (length l) f (l ++ [x]) = l ++ [f x].
Proof. induction l as [|y l IH]; cbn [length app list_update]; [reflexivity|]. rewrite IH. reflexivity. Qed.
Lemma gnode_at_last g nd : gnode_at (g ++ [nd]) (N.of_nat (length g)) = Some nd.
Proof. unfold gnode_at. rewrite Nat2N.id, nth_error_app2, Nat.sub_diag; [reflexivity|]. apply Nat.le_refl. Qed.
Lemma graph_update_last g nd f : graph_update (g ++ [nd]) (N.of_nat (length g)) f = g ++ [f nd].
Proof. unfold graph_update. rewrite Nat2N.id. apply list_update_last. Qed.

Lemma with_attrs_nil_r nd : with_attrs (g_attrs nd ++ []) nd = nd.
Proof. destruct nd as [a e]. unfold with_attrs. cbn [g_attrs g_edges]. rewrite app_nil_r. reflexivity. Qed.

Lemma cfg_distinct_facts cfg : cfg_distinct cfg ->
  forall vt vl,
    (forall k, c_loc_attr cfg = Some k -> alist_get k (opt_entry (c_var_attr cfg) vt) = None) /\
    (forall k, c_match_attr cfg = Some k -> alist_get k (opt_entry (c_var_attr cfg) vt ++ opt_entry (c_loc_attr cfg) vl) = None).
Proof.
  intros (H1 & H2 & H3) vt vl. split.
  - intros k Hk. destruct (c_var_attr cfg) as [kv|] eqn:Ev; [|reflexivity]. cbn [opt_entry alist_get].
    destruct (str_eqb_spec k kv) as [->|]; [|reflexivity]. exfalso. exact (H1 kv kv Hk eq_refl eq_refl).
  - intros k Hk. rewrite alist_get_app.
    assert (Hv : alist_get k (opt_entry (c_var_attr cfg) vt) = None).
    { destruct (c_var_attr cfg) as [kv|] eqn:Ev; [|reflexivity]. cbn [opt_entry alist_get].
      destruct (str_eqb_spec k kv) as [->|]; [|reflexivity]. exfalso. exact (H2 kv kv Hk eq_refl eq_refl). }
    rewrite Hv. destruct (c_loc_attr cfg) as [kl|] eqn:El; [|reflexivity]. cbn [opt_entry alist_get].
    destruct (str_eqb_spec k kl) as [->|]; [|reflexivity]. exfalso. exact (H3 kl kl Hk eq_refl eq_refl).
Qed.

(* ================= strict ================= *)
Section StrictStmt.
  Context {rx : Type}.
  Variable t : tree.
  Variable fl : file.
  Variable cfg : config.
  Variable glob : globals.
  Variable regexes : list rx.
  Variable find : rx -> str -> option (list (option (N * N))).
  Variable call : ident -> graph -> list value -> res (value * graph).
  Notation exec_stmt' := (exec_stmt t fl cfg glob regexes find call).
  Notation eval' := (eval t fl glob call).

  Lemma add_node_eq s p : add_node s p = Ok (N.of_nat (length (s_graph s)), sg s (s_graph s ++ [new_gnode]), p).
  Proof. reflexivity. Qed.

  Lemma add_attr_last s0 g nd k v p : alist_get k (g_attrs nd) = None ->
    add_attr (TNode (N.of_nat (length g))) k v (sg s0 (g ++ [nd])) p =
    Ok (tt, sg s0 (g ++ [with_attrs (g_attrs nd ++ [(k, v)]) nd]), p).
  Proof.
    intros Hk. unfold add_attr, bind, get_state. cbn [sg s_graph]. rewrite gnode_at_last. unfold attrs_add. rewrite Hk.
    cbv beta iota. unfold set_graph, modify. rewrite graph_update_last. reflexivity.
  Qed.
  Lemma opt_attr_last s0 g nd name v p : (forall k, name = Some k -> alist_get k (g_attrs nd) = None) ->
    opt_attr (TNode (N.of_nat (length g))) name v (sg s0 (g ++ [nd])) p =
    Ok (tt, sg s0 (g ++ [with_attrs (g_attrs nd ++ opt_entry name v) nd]), p).
  Proof.
    intros Hk. destruct name as [k|]; cbn [opt_attr opt_entry].
    - apply add_attr_last. apply Hk. reflexivity.
    - rewrite with_attrs_nil_r. reflexivity.
  Qed.

  (* the `node` statement, as an equation: after the poll it is the binding of the variable in the state
     whose graph has exactly one more node, carrying exactly the configured debug attributes *)
  Lemma strict_node_stmt_eq fuel le v vtext l s p :
    cfg_distinct cfg -> match_available cfg (le_match le) (le_full le) ->
    snd (poll_step L_exec_stmt p) = false ->
    exec_stmt' (S fuel) le (SNode v vtext l) s p =
    var_add t fl glob call fuel le v (VGraph (N.of_nat (length (s_graph s)))) false
      (sg s (s_graph s ++ [ {| g_attrs := node_dbg_attrs cfg vtext (variable_loc v) (first_full_match (le_match le) (le_full le));
                               g_edges := [] |} ]))
      (fst (poll_step L_exec_stmt p)).
  Proof.
    intros Hd Hm Hp. cbn [exec_stmt].
    unfold bind at 1. unfold poll. destruct (poll_step L_exec_stmt p) as [p1 c] eqn:Ep. cbn [snd fst] in *. subst c.
    unfold bind at 1. rewrite add_node_eq.
    destruct (cfg_distinct_facts cfg Hd (VStr vtext) (VStr (loc_text (variable_loc v)))) as [F1 F2].
    unfold bind at 1. rewrite (opt_attr_last s (s_graph s) new_gnode); [|intros k _; reflexivity].
    unfold bind at 1. rewrite (opt_attr_last s (s_graph s)); [|cbn [with_attrs g_attrs new_gnode app]; exact F1].
    unfold bind at 1. unfold node_dbg_attrs, first_full_match.
    destruct (c_match_attr cfg) as [km|] eqn:Em.
    - destruct Hm as [Hm|Hm]; [congruence|].
      unfold bind at 1. unfold full_match_node. destruct (nodes_for_capture (le_match le) (le_full le)) as [|mn rest]; [congruence|].
      unfold ret at 1. cbn [hd]. rewrite add_attr_last.
      + cbn [with_attrs g_attrs g_edges new_gnode app opt_entry]. rewrite <- app_assoc. reflexivity.
      + cbn [with_attrs g_attrs new_gnode app]. apply F2. reflexivity.
    - unfold ret at 1. cbn [with_attrs g_attrs g_edges new_gnode app opt_entry]. rewrite app_nil_r. reflexivity.
  Qed.

  (* unscoped variable not yet bound: the statement succeeds; the final state is explicit *)
  Lemma strict_node_stmt_unscoped fuel le name vl vtext l s p l' :
    cfg_distinct cfg -> match_available cfg (le_match le) (le_full le) ->
    snd (poll_step L_exec_stmt p) = false ->
    globals_get glob name = None ->
    varmap_add (s_locals s) name (VGraph (N.of_nat (length (s_graph s)))) false = inl l' ->
    exec_stmt' (S fuel) le (SNode (VarU name vl) vtext l) s p =
    Ok (tt, {| s_graph := s_graph s ++ [ {| g_attrs := node_dbg_attrs cfg vtext vl (first_full_match (le_match le) (le_full le)); g_edges := [] |} ];
               s_locals := l'; s_scoped := s_scoped s; s_params := s_params s |},
        fst (poll_step L_exec_stmt p)).
  Proof.
    intros Hd Hm Hp Hg Hv. rewrite strict_node_stmt_eq by assumption.
    cbn [var_add variable_loc]. unfold unscoped_add. rewrite Hg. unfold bind, get_state. cbn [sg s_locals]. rewrite Hv. reflexivity.
  Qed.

  (* the `edge` statement *)
  Lemma strict_edge_stmt_lemma fuel le src snk l s p a b s1 p1 s2 p2 nd :
    snd (poll_step L_exec_stmt p) = false ->
    eval' fuel le src s (fst (poll_step L_exec_stmt p)) = Ok (VGraph a, s1, p1) ->
    eval' fuel le snk s1 p1 = Ok (VGraph b, s2, p2) ->
    gnode_at (s_graph s2) a = Some nd -> edges_wf (g_edges nd) ->
    exists s' nd', exec_stmt' (S fuel) le (SEdge src snk l) s p = Ok (tt, s', p2) /\
      gnode_at (s_graph s') a = Some nd' /\ g_attrs nd' = g_attrs nd /\
      edges_get b (g_edges nd') = Some (match edges_get b (g_edges nd) with Some old => old | None => edge_dbg_attrs cfg l end) /\
      (forall x, x <> b -> edges_get x (g_edges nd') = edges_get x (g_edges nd)) /\
      length (s_graph s') = length (s_graph s2) /\
      (forall i, i <> a -> gnode_at (s_graph s') i = gnode_at (s_graph s2) i) /\
      s_locals s' = s_locals s2 /\ s_scoped s' = s_scoped s2 /\ s_params s' = s_params s2.
  Proof.
    intros Hp E1 E2 Hn Hw. cbn [exec_stmt].
    unfold bind at 1. unfold poll. destruct (poll_step L_exec_stmt p) as [p0 c] eqn:Ep. cbn [snd fst] in *. subst c.
    unfold bind at 1. unfold bind at 1. rewrite E1. unfold lift at 1. cbn [as_gnode].
    unfold bind at 1. unfold bind at 1. rewrite E2. unfold lift at 1. cbn [as_gnode].
    unfold bind at 1. unfold add_edge at 1. unfold bind at 1. unfold get_state at 1. unfold graph_add_edge. rewrite Hn.
    pose proof (edges_add_spec b (g_edges nd) Hw) as S. destruct (edges_add b (g_edges nd)) as [isnew es] eqn:Ea.
    destruct S as (Hw' & Hnew & Hget & _).
    assert (Hother : forall g i f, i <> a -> gnode_at (graph_update g a f) i = gnode_at g i).
    { intros g i f Hi. unfold gnode_at, graph_update. rewrite nth_error_list_update.
      destruct (Nat.eqb_spec (N.to_nat i) (N.to_nat a)) as [e|]; [|reflexivity]. apply N2Nat.inj in e. contradiction. }
    destruct (edges_get b (g_edges nd)) as [old|] eqn:Eb.
    - assert (isnew = false) by (destruct isnew; [assert (true = true) as Ht by reflexivity; apply Hnew in Ht; congruence|reflexivity]). subst.
      unfold bind at 1. unfold set_graph at 1, modify at 1. unfold ret at 1. unfold ret at 1.
      eexists. exists (with_edges es nd). split; [reflexivity|]. cbn [s_graph s_locals s_scoped s_params].
      split; [apply graph_update_at, Hn|]. split; [reflexivity|]. split; [|split; [|split; [|split]]].
      + cbn [with_edges g_edges]. rewrite Hget, N.eqb_refl. reflexivity.
      + intros x Hx. cbn [with_edges g_edges]. rewrite Hget. destruct (N.eqb_spec x b); [contradiction|reflexivity].
      + unfold graph_update. apply list_update_length.
      + intros i Hi. apply Hother, Hi.
      + auto.
    - assert (isnew = true) by (apply Hnew; reflexivity). subst.
      unfold bind at 1. unfold set_graph at 1, modify at 1. unfold ret at 1.
      assert (Hb' : edges_get b es <> None) by (rewrite Hget, N.eqb_refl; discriminate).
      unfold edge_dbg_attrs. destruct (c_loc_attr cfg) as [k|] eqn:Ek; cbn [opt_attr opt_entry].
      + unfold add_attr, bind, get_state. cbn [s_graph]. rewrite (graph_update_at _ a _ nd Hn). cbn [with_edges g_edges].
        rewrite Hget, N.eqb_refl. cbn [attrs_add alist_get app]. unfold set_graph, modify. cbn [s_graph s_locals s_scoped s_params].
        eexists. eexists. split; [reflexivity|]. cbn [s_graph s_locals s_scoped s_params].
        split; [apply graph_update_at, graph_update_at, Hn|]. split; [reflexivity|]. split; [|split; [|split; [|split]]].
        * cbn [with_edges g_edges]. rewrite edges_get_set by assumption. rewrite N.eqb_refl. reflexivity.
        * intros x Hx. cbn [with_edges g_edges]. rewrite edges_get_set by assumption. destruct (N.eqb_spec x b); [contradiction|].
          rewrite Hget. destruct (N.eqb_spec x b); [contradiction|reflexivity].
        * unfold graph_update. rewrite !list_update_length. reflexivity.
        * intros i Hi. rewrite !Hother by exact Hi. reflexivity.
        * auto.
      + unfold ret. eexists. exists (with_edges es nd). split; [reflexivity|]. cbn [s_graph s_locals s_scoped s_params].
        split; [apply graph_update_at, Hn|]. split; [reflexivity|]. split; [|split; [|split; [|split]]].
        * cbn [with_edges g_edges]. rewrite Hget, N.eqb_refl. reflexivity.
        * intros x Hx. cbn [with_edges g_edges]. rewrite Hget. destruct (N.eqb_spec x b); [contradiction|reflexivity].
        * unfold graph_update. apply list_update_length.
        * intros i Hi. apply Hother, Hi.
        * auto.
  Qed.
End StrictStmt.

(* ================= lazy ================= *)
Section LazyStmt.
  Context {rx : Type}.
  Variable t : tree.
  Variable fl : file.
  Variable cfg : config.
  Variable glob : globals.
  Variable regexes : list rx.
  Variable find : rx -> str -> option (list (option (N * N))).
  Variable call : ident -> graph -> list value -> res (value * graph).
  Notation lexec_stmt' := (lexec_stmt t fl cfg glob regexes find call).
  Notation leval' := (leval t fl glob call).

  Lemma ladd_node_eq s p : ladd_node s p = Ok (N.of_nat (length (l_graph s)), lg s (l_graph s ++ [new_gnode]), p).
  Proof. reflexivity. Qed.

  Lemma ladd_node_attr_last s0 g nd k v p : alist_get k (g_attrs nd) = None ->
    ladd_node_attr (N.of_nat (length g)) k v (lg s0 (g ++ [nd])) p =
    Ok (tt, lg s0 (g ++ [with_attrs (g_attrs nd ++ [(k, v)]) nd]), p).
  Proof.
    intros Hk. unfold ladd_node_attr, bind, get_state. cbn [lg l_graph]. rewrite gnode_at_last. unfold attrs_add. rewrite Hk.
    cbv beta iota. unfold set_lgraph, Lazy.upd, modify. rewrite graph_update_last. reflexivity.
  Qed.
  Lemma lopt_node_attr_last s0 g nd name v p : (forall k, name = Some k -> alist_get k (g_attrs nd) = None) ->
    lopt_node_attr (N.of_nat (length g)) name v (lg s0 (g ++ [nd])) p =
    Ok (tt, lg s0 (g ++ [with_attrs (g_attrs nd ++ opt_entry name v) nd]), p).
  Proof.
    intros Hk. destruct name as [k|]; cbn [lopt_node_attr opt_entry].
    - apply ladd_node_attr_last. apply Hk. reflexivity.
    - rewrite with_attrs_nil_r. reflexivity.
  Qed.

  Lemma lazy_node_stmt_eq fuel le v vtext l s p :
    cfg_distinct cfg -> match_available cfg (ll_match le) (ll_full le) ->
    snd (poll_step L_exec_stmt p) = false ->
    lexec_stmt' (S fuel) le (SNode v vtext l) s p =
    lvar_add t fl glob call fuel le v (LValue (VGraph (N.of_nat (length (l_graph s))))) false
      (lg s (l_graph s ++ [ {| g_attrs := node_dbg_attrs cfg vtext (variable_loc v) (first_full_match (ll_match le) (ll_full le));
                               g_edges := [] |} ]))
      (fst (poll_step L_exec_stmt p)).
  Proof.
    intros Hd Hm Hp. cbn [lexec_stmt].
    unfold bind at 1. unfold lpoll, poll. destruct (poll_step L_exec_stmt p) as [p1 c] eqn:Ep. cbn [snd fst] in *. subst c.
    unfold bind at 1. rewrite ladd_node_eq.
    destruct (cfg_distinct_facts cfg Hd (VStr vtext) (VStr (loc_text (variable_loc v)))) as [F1 F2].
    unfold bind at 1. rewrite (lopt_node_attr_last s (l_graph s) new_gnode); [|intros k _; reflexivity].
    unfold bind at 1. rewrite (lopt_node_attr_last s (l_graph s)); [|cbn [with_attrs g_attrs new_gnode app]; exact F1].
    unfold bind at 1. unfold node_dbg_attrs, first_full_match.
    destruct (c_match_attr cfg) as [km|] eqn:Em.
    - destruct Hm as [Hm|Hm]; [congruence|].
      unfold bind at 1. unfold lfull_match_node. destruct (nodes_for_capture (ll_match le) (ll_full le)) as [|mn rest]; [congruence|].
      unfold ret at 1. cbn [hd]. rewrite ladd_node_attr_last.
      + cbn [with_attrs g_attrs g_edges new_gnode app opt_entry]. rewrite <- app_assoc. reflexivity.
      + cbn [with_attrs g_attrs new_gnode app]. apply F2. reflexivity.
    - unfold ret at 1. cbn [with_attrs g_attrs g_edges new_gnode app opt_entry]. rewrite app_nil_r. reflexivity.
  Qed.

  (* unscoped variable not yet bound: success, explicit final state (the variable is bound to a new thunk
     holding the graph node) *)
  Lemma lazy_node_stmt_unscoped fuel le name vl vtext l s p l' :
    cfg_distinct cfg -> match_available cfg (ll_match le) (ll_full le) ->
    snd (poll_step L_exec_stmt p) = false ->
    globals_get glob name = None ->
    varmap_add (l_locals s) name (LVar (N.of_nat (length (l_store s)))) false = inl l' ->
    lexec_stmt' (S fuel) le (SNode (VarU name vl) vtext l) s p =
    Ok (tt, {| l_graph := l_graph s ++ [ {| g_attrs := node_dbg_attrs cfg vtext vl (first_full_match (ll_match le) (ll_full le)); g_edges := [] |} ];
               l_locals := l';
               l_store := l_store s ++ [ {| th_state := TUnforced (LValue (VGraph (N.of_nat (length (l_graph s))))); th_dbg := ll_ctx le |} ];
               l_scoped := l_scoped s; l_edges := l_edges s; l_attrs := l_attrs s; l_prints := l_prints s;
               l_params := l_params s; l_prev := l_prev s |},
        fst (poll_step L_exec_stmt p)).
  Proof.
    intros Hd Hm Hp Hg Hv. rewrite lazy_node_stmt_eq by assumption.
    cbn [lvar_add variable_loc]. unfold lunscoped_add. rewrite Hg. unfold store_add, bind, get_state, set_lstore, Lazy.upd, modify, ret.
    cbn [lg l_locals l_store]. rewrite Hv. reflexivity.
  Qed.

  (* execution phase of `edge`: the statement is recorded together with the attributes a NEW edge will get *)
  Lemma lazy_edge_stmt_exec_lemma fuel le src snk l s p a b s1 p1 s2 p2 :
    snd (poll_step L_exec_stmt p) = false ->
    leval' fuel le src s (fst (poll_step L_exec_stmt p)) = Ok (a, s1, p1) ->
    leval' fuel le snk s1 p1 = Ok (b, s2, p2) ->
    exists s', lexec_stmt' (S fuel) le (SEdge src snk l) s p = Ok (tt, s', p2) /\
      l_edges s' = l_edges s2 ++ [LSEdge a b (edge_dbg_attrs cfg l) (ll_ctx le)] /\
      l_graph s' = l_graph s2 /\ l_attrs s' = l_attrs s2 /\ l_prints s' = l_prints s2 /\ l_store s' = l_store s2 /\
      l_locals s' = l_locals s2 /\ l_scoped s' = l_scoped s2 /\ l_params s' = l_params s2 /\ l_prev s' = l_prev s2.
  Proof.
    intros Hp E1 E2. cbn [lexec_stmt].
    unfold bind at 1. unfold lpoll, poll. destruct (poll_step L_exec_stmt p) as [p0 c] eqn:Ep. cbn [snd fst] in *. subst c.
    unfold bind at 1. rewrite E1. unfold bind at 1. rewrite E2. cbv zeta.
    unfold push_lstmt, Lazy.upd, modify. eexists. split; [reflexivity|]. cbn. unfold edge_dbg_attrs, opt_entry.
    destruct (c_loc_attr cfg); repeat split; reflexivity.
  Qed.

  (* evaluation phase: the recorded edge statement creates the edge with the recorded attributes, or leaves an
     existing edge (and everything else) as it is *)
  Lemma lazy_edge_stmt_eval_lemma fuel src snk ea dbg s p a b s1 p1 s2 p2 nd :
    snd (poll_step L_eval_stmt p) = false ->
    eval_as_gnode t fl call fuel src s (fst (poll_step L_eval_stmt p)) = Ok (a, s1, p1) ->
    eval_as_gnode t fl call fuel snk s1 p1 = Ok (b, s2, p2) ->
    gnode_at (l_graph s2) a = Some nd -> edges_wf (g_edges nd) ->
    exists s' nd', eval_lstmt t fl call fuel (LSEdge src snk ea dbg) s p = Ok (tt, s', p2) /\
      gnode_at (l_graph s') a = Some nd' /\ g_attrs nd' = g_attrs nd /\
      edges_get b (g_edges nd') = Some (match edges_get b (g_edges nd) with Some old => old | None => ea end) /\
      (forall x, x <> b -> edges_get x (g_edges nd') = edges_get x (g_edges nd)) /\
      length (l_graph s') = length (l_graph s2) /\
      (forall i, i <> a -> gnode_at (l_graph s') i = gnode_at (l_graph s2) i).
  Proof.
    intros Hp E1 E2 Hn Hw. unfold eval_lstmt.
    unfold bind at 1. unfold lpoll, poll. destruct (poll_step L_eval_stmt p) as [p0 c] eqn:Ep. cbn [snd fst] in *. subst c.
    unfold ctx_wrap at 1. unfold bind at 1. unfold ctx_wrap at 1. rewrite E1.
    unfold bind at 1. unfold ctx_wrap at 1. rewrite E2.
    unfold ledge_add, bind, get_state, graph_add_edge. rewrite Hn.
    pose proof (edges_add_spec b (g_edges nd) Hw) as S. destruct (edges_add b (g_edges nd)) as [isnew es] eqn:Ea.
    destruct S as (Hw' & Hnew & Hget & _).
    assert (Hother : forall g i f, i <> a -> gnode_at (graph_update g a f) i = gnode_at g i).
    { intros g i f Hi. unfold gnode_at, graph_update. rewrite nth_error_list_update.
      destruct (Nat.eqb_spec (N.to_nat i) (N.to_nat a)) as [e|]; [|reflexivity]. apply N2Nat.inj in e. contradiction. }
    destruct (edges_get b (g_edges nd)) as [old|] eqn:Eb.
    - assert (isnew = false) by (destruct isnew; [assert (true = true) as Ht by reflexivity; apply Hnew in Ht; congruence|reflexivity]). subst.
      unfold set_lgraph, Lazy.upd, modify.
      eexists. exists (with_edges es nd). split; [reflexivity|]. cbn [l_graph].
      split; [apply graph_update_at, Hn|]. split; [reflexivity|]. split; [|split; [|split]].
      + cbn [with_edges g_edges]. rewrite Hget, N.eqb_refl. reflexivity.
      + intros x Hx. cbn [with_edges g_edges]. rewrite Hget. destruct (N.eqb_spec x b); [contradiction|reflexivity].
      + unfold graph_update. apply list_update_length.
      + intros i Hi. apply Hother, Hi.
    - assert (isnew = true) by (apply Hnew; reflexivity). subst.
      assert (Hb' : edges_get b es <> None) by (rewrite Hget, N.eqb_refl; discriminate).
      unfold set_lgraph, Lazy.upd, modify.
      eexists. exists (with_edges (edges_set b ea es) (with_edges es nd)). split; [reflexivity|]. cbn [l_graph].
      split; [|split; [reflexivity|split; [|split; [|split]]]].
      + rewrite (graph_update_at _ a _ (with_edges es nd)); [reflexivity|apply graph_update_at, Hn].
      + cbn [with_edges g_edges]. rewrite edges_get_set by assumption. rewrite N.eqb_refl. reflexivity.
      + intros x Hx. cbn [with_edges g_edges]. rewrite edges_get_set by assumption. destruct (N.eqb_spec x b); [contradiction|].
        rewrite Hget. destruct (N.eqb_spec x b); [contradiction|reflexivity].
      + unfold graph_update. rewrite !list_update_length. reflexivity.
      + intros i Hi. rewrite !Hother by exact Hi. reflexivity.
  Qed.
End LazyStmt.
