(* Proofs/Loader.v — Model/Loader.v `load` in terms of the observations `parse` and `check_file` that the correspondence
   streams compare with the implementation. *)
From TSG Require Import Model.Loader.
From TSG Require Model.Parser Model.Checker.

Lemma load_spec_lemma X q fuel text :
  load X q fuel text =
  match Parser.parse X fuel text with
  | Parser.POk f pats =>
      match Checker.check_file q f with
      | Checker.CkOk f' => LdOk f' pats
      | Checker.CkErr v l _ => LdErr (LCheck v l)
      | Checker.CkPanic n => LdPanic n
      end
  | Parser.PErr v l _ => LdErr (LParse v l)
  | Parser.PPanic n => LdPanic n
  | Parser.PFuel => LdFuel
  | Parser.PMiss => LdMiss
  end.
Proof.
  unfold load, Parser.parse.
  destruct (Parser.parse_into_file X fuel (Parser.init_state text)) as [a s|pe|n| |]; try reflexivity.
  - unfold Checker.check_file, Checker.check_file_with, Checker.to_result.
    destruct (Checker.check_file_ck (fun l => l) q (Parser.file_of_acc a)); reflexivity.
  - unfold load_error_of_parse. destruct (Parser.error_obs pe) as [[v l] p]. reflexivity.
Qed.

Lemma load_err_inv_lemma X q fuel text e :
  load X q fuel text = LdErr e ->
  (exists v l p, Parser.parse X fuel text = Parser.PErr v l p /\ e = LParse v l) \/
  (exists f pats v l ns, Parser.parse X fuel text = Parser.POk f pats /\ Checker.check_file q f = Checker.CkErr v l ns /\ e = LCheck v l).
Proof.
  rewrite load_spec_lemma. destruct (Parser.parse X fuel text) as [f pats|v l p|n| |]; try discriminate.
  - destruct (Checker.check_file q f) as [f'|v l ns|n] eqn:Ec; try discriminate. intros H. injection H as <-.
    right. exists f, pats, v, l, ns. repeat split. exact Ec.
  - intros H. injection H as <-. left. exists v, l, p. split; reflexivity.
Qed.

(* the error VALUES of the two models *)
Lemma load_err_value_lemma X q fuel text e :
  load X q fuel text = LdErr e ->
  (exists pe, Parser.parse_into_file X fuel (Parser.init_state text) = Parser.RErr pe /\ e = load_error_of_parse pe) \/
  (exists a s ce, Parser.parse_into_file X fuel (Parser.init_state text) = Parser.ROk a s /\
                  Checker.check_file_ck (fun l => l) q (Parser.file_of_acc a) = Err ce /\ e = load_error_of_check ce).
Proof.
  unfold load. destruct (Parser.parse_into_file X fuel (Parser.init_state text)) as [a s|pe|n| |]; try discriminate.
  - destruct (Checker.check_file_ck (fun l => l) q (Parser.file_of_acc a)) as [f'|ce|n|] eqn:Ec; try discriminate.
    intros H. injection H as <-. right. exists a, s, ce. repeat split. exact Ec.
  - intros H. injection H as <-. left. exists pe. split; reflexivity.
Qed.
