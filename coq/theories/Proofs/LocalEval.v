(* Proofs/LocalEval.v — C06 locality, semantic half, part 2: evaluating a PURE lazy value (values.rs / store.rs:
   `eval_lv`, `force_thunk`) forces pure thunks only: it commutes with any replacement of the scoped store, leaves
   the scoped store, the locals and the deferred statements alone, and only forces thunks. *)
From TSG Require Import Spec.PureLv Proofs.BaseFacts Proofs.MonadFacts Proofs.Containers Proofs.LocalPure.

Definition lset_store (x : list thunk) (s : lstate) : lstate :=
  {| l_graph := l_graph s; l_locals := l_locals s; l_store := x; l_scoped := l_scoped s; l_edges := l_edges s;
     l_attrs := l_attrs s; l_prints := l_prints s; l_params := l_params s; l_prev := l_prev s |}.
Definition set_thunk (loc : N) (x : thunk_state) (st : list thunk) : list thunk :=
  list_update (N.to_nat loc) (fun th => {| th_state := x; th_dbg := th_dbg th |}) st.
Lemma set_then {A} loc x (k : M lstate A) ls p :
  (store_set_state loc x ;;; k) ls p = k (lset_store (set_thunk loc x (l_store ls)) ls) p.
Proof. reflexivity. Qed.
Lemma store_set_state_eq loc x ls p :
  store_set_state loc x ls p = Ok (tt, lset_store (set_thunk loc x (l_store ls)) ls, p).
Proof. reflexivity. Qed.

Lemma stable_Forall_pure es : stable (fun st => Forall (pure_lv st) es).
Proof. intros st st' Hs H. eapply Forall_impl; [|exact H]. intros a. apply pure_lv_sext. exact Hs. Qed.
Lemma stable_lt n : stable (fun st => (n < length st)%nat).
Proof. intros st st' [Hl _] H. lia. Qed.

(* overwriting a thunk with its value *)
Lemma tr_set_forced loc v l0 :
  tr (fun st l => (N.to_nat loc < length st)%nat /\ l = l0) (store_set_state loc (TForced v))
     (fun _ st l => l = l0 /\ exists th, nth_error st (N.to_nat loc) = Some th /\ th_state th = TForced v).
Proof.
  intros ls p [Hlt Hl]. split; [reflexivity|]. intros a ls' p' E.
  rewrite store_set_state_eq in E.
  inversion E; subst. cbn [lset_store l_store l_locals]. unfold set_thunk. split.
  - split; [rewrite list_update_length; lia|]. intros i th Hn. rewrite nth_error_list_update.
    destruct (Nat.eqb_spec i (N.to_nat loc)) as [->|Hne]; [|exists th; auto].
    rewrite Hn. cbn [option_map]. eexists. split; [reflexivity|]. cbn [th_dbg th_state]. split; [reflexivity|right; eauto].
  - split; [repeat split|]. split; [reflexivity|].
    destruct (nth_error (l_store ls) (N.to_nat loc)) as [th|] eqn:En; [|apply nth_error_None in En; lia].
    eexists. rewrite nth_error_list_update, Nat.eqb_refl, En. cbn [option_map]. split; reflexivity.
Qed.

Section Eval.
  Variable t : tree.
  Variable fl : file.
  Variable call : ident -> graph -> list value -> res (value * graph).
  Notation eval_lv' := (eval_lv t fl call).
  Notation force_thunk' := (force_thunk t fl call).

  Lemma force_thunk_S fuel loc ls p :
    force_thunk' (S fuel) loc ls p =
    match nth_error (l_store ls) (N.to_nat loc) with
    | None => Panic P_store_index
    | Some th =>
        ctx_wrap (CtxStmts [th_dbg th])
          (match th_state th with
           | TUnforced inner =>
               store_set_state loc TForcing ;;; (v <- eval_lv' fuel inner ;; store_set_state loc (TForced v) ;;; ret v)
           | TForced v => ret v
           | TForcing => fail ERecursivelyDefinedVariable
           end) ls p
    end.
  Proof. cbn [force_thunk]. unfold bind at 1, get_state. destruct (nth_error (l_store ls) (N.to_nat loc)); reflexivity. Qed.

  Section Step.
    Variable fuel : nat.
    Hypothesis IHe : forall lv l0, tr (fun st l => pure_lv st lv /\ l = l0) (eval_lv' fuel lv) (fun _ _ l => l = l0).

    Lemma eval_list es l0 :
      tr (fun st lo => Forall (pure_lv st) es /\ lo = l0) (Exec.mapM (eval_lv' fuel) es) (fun _ _ lo => lo = l0).
    Proof.
      eapply tr_conseq; [| |apply (tr_mapM (fun st lo => Forall (pure_lv st) es /\ lo = l0) (fun (_ : value) _ => True))].
      - auto.
      - intros a st l [[_ H] _]. exact H.
      - intros y st st' _ _. exact I.
      - intros x Hx. eapply tr_conseq; [| |apply (tr_frame (fun st => Forall (pure_lv st) es)); [apply stable_Forall_pure|apply (IHe x l0)]].
        + intros st l [HF ->]. split; [split; [|reflexivity]|exact HF]. rewrite Forall_forall in HF. apply HF. exact Hx.
        + intros a st l [-> HF]. split; [split; [exact HF|reflexivity]|exact I].
    Qed.
    Lemma eval_args (args : list lvalue) l0 :
      tr (fun st lo => Forall (pure_lv st) args /\ lo = l0)
         (iterM (fun a => v <- eval_lv' fuel a ;; lpush_param v) args) (fun _ _ lo => lo = l0).
    Proof.
      eapply tr_conseq; [| |apply (tr_iterM (fun st lo => Forall (pure_lv st) args /\ lo = l0))].
      - auto.
      - intros a st l [_ H]. exact H.
      - intros x Hx. eapply tr_bind.
        + eapply tr_conseq; [| |apply (tr_frame (fun st => Forall (pure_lv st) args)); [apply stable_Forall_pure|apply (IHe x l0)]].
          * intros st l [HF ->]. split; [split; [|reflexivity]|exact HF]. rewrite Forall_forall in HF. apply HF. exact Hx.
          * intros a st l H. exact H.
        + intros v. cbv beta. eapply tr_conseq; [| |apply tr_lpush_param]; [intros st l H; exact H|].
          intros a st l [-> HF]. split; [exact HF|reflexivity].
    Qed.

    Hypothesis IHt : forall loc l0, tr (fun st l => pure_loc st loc /\ l = l0) (force_thunk' fuel loc) (fun _ _ l => l = l0).

    Lemma eval_lv_step lv l0 : tr (fun st l => pure_lv st lv /\ l = l0) (eval_lv' (S fuel) lv) (fun _ _ l => l = l0).
    Proof.
      destruct lv; cbn [eval_lv]; (eapply tr_bind; [apply tr_poll|intros u; cbv beta]).
      - apply tr_ret. intros st l [_ H]. exact H.
      - eapply tr_bind; [|intros vs; apply tr_ret; intros st lo H; exact H].
        eapply tr_conseq; [| |apply (eval_list l l0)]; [|intros a st lo H; exact H]. intros st lo [H ->]. split; [apply pure_lv_list; exact H|reflexivity].
      - eapply tr_bind; [|intros vs; apply tr_ret; intros st lo H; exact H].
        eapply tr_conseq; [| |apply (eval_list l l0)]; [|intros a st lo H; exact H]. intros st lo [H ->]. split; [apply pure_lv_set; exact H|reflexivity].
      - eapply tr_conseq; [| |apply (IHt loc l0)]; [|intros a st lo H; exact H]. intros st lo [H ->]. split; [apply pure_lv_var; exact H|reflexivity].
      - apply tr_false. intros st lo [H _]. exact (pure_lv_scoped _ _ _ H).
      - eapply tr_bind.
        + eapply tr_conseq; [| |apply (eval_args args l0)]; [|intros a st lo H; exact H]. intros st lo [H ->]. split; [apply (pure_lv_call st f); exact H|reflexivity].
        + intros u'. cbv beta. eapply tr_bind; [apply tr_ldrain_params|]. intros ps. cbv beta. apply tr_lcall.
    Qed.

    Lemma force_thunk_step loc l0 : tr (fun st l => pure_loc st loc /\ l = l0) (force_thunk' (S fuel) loc) (fun _ _ l => l = l0).
    Proof.
      intros ls p [Hp Hl].
      (* the body of an unforced pure thunk, run from the state where the thunk is marked Forcing *)
      assert (Hk : forall lv, tr (fun st l => (pure_lv st lv /\ l = l0) /\ (N.to_nat loc < length st)%nat)
                     (v <- eval_lv' fuel lv ;; store_set_state loc (TForced v) ;;; ret v)
                     (fun _ st l => l = l0 /\ exists th v, nth_error st (N.to_nat loc) = Some th /\ th_state th = TForced v)).
      { intros lv. eapply tr_bind; [apply (tr_frame (fun st => (N.to_nat loc < length st)%nat)); [apply stable_lt|apply (IHe lv l0)]|].
        intros v. cbv beta. eapply tr_bind; [eapply tr_conseq; [| |apply (tr_set_forced loc v l0)]|].
        - intros st l [-> H]. split; [exact H|reflexivity].
        - intros a st l H. exact H.
        - intros u. apply tr_ret. intros st l [-> (th & Hn & Hs)]. split; [reflexivity|]. eauto. }
      split.
      - intros sc. rewrite !force_thunk_S. cbn [with_scoped l_store].
        inversion Hp as [? th v Hn Hs|? th lv Hn Hs Hns Hlt Hpl]; subst; rewrite Hn, Hs; [reflexivity|].
        unfold ctx_wrap. rewrite !set_then. cbn [with_scoped l_store].
        set (ls1 := lset_store (set_thunk loc TForcing (l_store ls)) ls).
        change (lset_store (set_thunk loc TForcing (l_store ls)) (with_scoped sc ls)) with (with_scoped sc ls1).
        assert (H1 : (pure_lv (l_store ls1) lv /\ l_locals ls1 = l_locals ls) /\ (N.to_nat loc < length (l_store ls1))%nat).
        { unfold ls1. cbn [lset_store l_store l_locals]. unfold set_thunk. split; [split; [|reflexivity]|].
          - split; [exact Hns|]. intros l Hin. eapply pure_loc_mono; [apply Hpl; exact Hin|]. intros i th0 Hi Hn0.
            exists th0. rewrite nth_error_list_update. specialize (Hlt _ Hin).
            destruct (Nat.eqb_spec i (N.to_nat loc)) as [->|_]; [lia|]. auto.
          - rewrite list_update_length. apply nth_error_Some. congruence. }
        rewrite (proj1 (Hk lv ls1 p H1) sc). destruct ((v <- eval_lv' fuel lv ;; store_set_state loc (TForced v) ;;; ret v) ls1 p) as [[[a s] q]| | |]; reflexivity.
      - intros a ls' p' E. rewrite force_thunk_S in E.
        inversion Hp as [? th v Hn Hs|? th lv Hn Hs Hns Hlt Hpl]; subst; rewrite Hn, Hs in E.
        + apply ctx_wrap_ok in E. apply ret_ok in E. destruct E as (-> & -> & ->). split; [apply sext_refl|]. split; [apply quiet_refl|reflexivity].
        + apply ctx_wrap_ok in E. rewrite set_then in E.
          set (ls1 := lset_store (set_thunk loc TForcing (l_store ls)) ls) in *.
          assert (H1 : (pure_lv (l_store ls1) lv /\ l_locals ls1 = l_locals ls) /\ (N.to_nat loc < length (l_store ls1))%nat).
          { unfold ls1. cbn [lset_store l_store l_locals]. unfold set_thunk. split; [split; [|reflexivity]|].
            - split; [exact Hns|]. intros l Hin. eapply pure_loc_mono; [apply Hpl; exact Hin|]. intros i th0 Hi Hn0.
              exists th0. rewrite nth_error_list_update. specialize (Hlt _ Hin).
              destruct (Nat.eqb_spec i (N.to_nat loc)) as [->|_]; [lia|]. auto.
            - rewrite list_update_length. apply nth_error_Some. congruence. }
          destruct (proj2 (Hk lv ls1 p H1) _ _ _ E) as (S1 & Q1 & HQ & th' & v' & Hn' & Hs').
          split; [|split; [exact Q1|exact HQ]].
          destruct S1 as [L1 X1]. unfold ls1 in L1, X1. cbn [lset_store l_store] in L1, X1. unfold set_thunk in L1, X1.
          rewrite list_update_length in L1. split; [exact L1|]. intros i th0 Hn0.
          specialize (X1 i). rewrite nth_error_list_update in X1.
          destruct (Nat.eqb_spec i (N.to_nat loc)) as [Heq|Hne].
          * rewrite Heq in Hn0. rewrite Heq in X1. rewrite Hn0 in X1. cbn [option_map] in X1. destruct (X1 _ eq_refl) as (th2 & A & B & _). cbn [th_dbg] in B.
            exists th2. split; [rewrite Heq; exact A|]. split; [exact B|]. right. exists v'. congruence.
          * exact (X1 _ Hn0).
    Qed.
  End Step.

  Theorem eval_pure : forall fuel,
    (forall lv l0, tr (fun st l => pure_lv st lv /\ l = l0) (eval_lv' fuel lv) (fun _ _ l => l = l0)) /\
    (forall loc l0, tr (fun st l => pure_loc st loc /\ l = l0) (force_thunk' fuel loc) (fun _ _ l => l = l0)).
  Proof.
    induction fuel as [|fuel [IHe IHt]].
    - split; intros; cbn [eval_lv force_thunk]; apply tr_oof.
    - split; intros; [apply eval_lv_step|apply force_thunk_step]; assumption.
  Qed.
  Lemma eval_lv_pure fuel lv l0 : tr (fun st l => pure_lv st lv /\ l = l0) (eval_lv' fuel lv) (fun _ _ l => l = l0).
  Proof. apply eval_pure. Qed.
End Eval.
