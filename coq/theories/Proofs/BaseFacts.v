(* Proofs/BaseFacts.v — facts about strings, comparisons, association lists, values. *)
From TSG Require Import Model.Base Model.Value.

Lemma list_cmp_eq {A} (cmp : A -> A -> comparison) :
  (forall x y, cmp x y = Eq <-> x = y) -> forall a b, list_cmp cmp a b = Eq <-> a = b.
Proof.
  intros H a; induction a as [|x a IH]; intros [|y b]; cbn [list_cmp]; try (split; congruence).
  destruct (cmp x y) eqn:E.
  - apply H in E; subst. rewrite IH. split; congruence.
  - split; [discriminate|]. intros Heq; inversion Heq; subst. assert (cmp y y = Eq) by (apply H; reflexivity). congruence.
  - split; [discriminate|]. intros Heq; inversion Heq; subst. assert (cmp y y = Eq) by (apply H; reflexivity). congruence.
Qed.

Lemma str_cmp_eq a b : str_cmp a b = Eq <-> a = b.
Proof. apply list_cmp_eq. intros; apply N.compare_eq_iff. Qed.

Lemma list_eqb_eq {A} (eqb : A -> A -> bool) :
  (forall x y, eqb x y = true <-> x = y) -> forall a b, list_eqb eqb a b = true <-> a = b.
Proof.
  intros H a; induction a as [|x a IH]; intros [|y b]; cbn [list_eqb]; try (split; congruence).
  rewrite andb_true_iff, H, IH. split; [intros [-> ->]; reflexivity | intros Heq; inversion Heq; auto].
Qed.
Lemma str_eqb_eq a b : str_eqb a b = true <-> a = b.
Proof. apply list_eqb_eq. intros; apply N.eqb_eq. Qed.
Lemma str_eqb_refl a : str_eqb a a = true.
Proof. apply str_eqb_eq; reflexivity. Qed.
Lemma str_eqb_neq a b : str_eqb a b = false <-> a <> b.
Proof. rewrite <- str_eqb_eq. destruct (str_eqb a b); split; congruence. Qed.
Lemma str_eqb_spec a b : reflect (a = b) (str_eqb a b).
Proof. destruct (str_eqb a b) eqn:E; constructor; [apply str_eqb_eq | apply str_eqb_neq]; assumption. Qed.

(* ---- association lists ---- *)
Section Alist.
  Context {V : Type}.
  Implicit Types (l : list (ident * V)) (k : ident).

  Lemma alist_get_app l1 l2 k :
    alist_get k (l1 ++ l2) = match alist_get k l1 with Some v => Some v | None => alist_get k l2 end.
  Proof. induction l1 as [|[k' v'] l1 IH]; cbn [alist_get app]; [reflexivity|]. destruct (str_eqb k k'); auto. Qed.

  Lemma alist_get_set l k v k' :
    alist_get k' (alist_set k v l) = if str_eqb k' k then Some v else alist_get k' l.
  Proof.
    induction l as [|[k0 v0] l IH]; cbn [alist_set alist_get].
    - reflexivity.
    - destruct (str_eqb_spec k k0) as [->|Hn]; cbn [alist_get].
      + destruct (str_eqb k' k0); reflexivity.
      + rewrite IH. destruct (str_eqb_spec k' k0) as [->|Hn'].
        * destruct (str_eqb_spec k0 k); [congruence|reflexivity].
        * reflexivity.
  Qed.

  Lemma alist_get_remove l k k' :
    alist_get k' (alist_remove k l) = if str_eqb k' k then None else alist_get k' l.
  Proof.
    induction l as [|[k0 v0] l IH]; cbn [alist_remove alist_get].
    - destruct (str_eqb k' k); reflexivity.
    - destruct (str_eqb_spec k k0) as [->|Hn]; cbn [alist_get].
      + rewrite IH. destruct (str_eqb k' k0); reflexivity.
      + rewrite IH. destruct (str_eqb_spec k' k0) as [->|Hn'].
        * destruct (str_eqb_spec k0 k); [congruence|reflexivity].
        * reflexivity.
  Qed.

  Lemma alist_get_In l k v : alist_get k l = Some v -> In (k, v) l.
  Proof.
    induction l as [|[k0 v0] l IH]; cbn [alist_get]; [discriminate|].
    destruct (str_eqb_spec k k0) as [->|Hn]; [intros [= ->]; left; reflexivity | intros H; right; auto].
  Qed.
  Lemma alist_get_None l k : alist_get k l = None <-> ~ In k (map fst l).
  Proof.
    induction l as [|[k0 v0] l IH]; cbn [alist_get map fst In]; [tauto|].
    destruct (str_eqb_spec k k0) as [->|Hn]; [split; [discriminate | intros H; exfalso; apply H; left; reflexivity]|].
    rewrite IH. split; [intros H [E|E]; [congruence|tauto] | tauto].
  Qed.
  Lemma alist_In_get l k v : NoDup (map fst l) -> In (k, v) l -> alist_get k l = Some v.
  Proof.
    induction l as [|[k0 v0] l IH]; cbn [map fst In alist_get]; [tauto|].
    intros Hnd [E|Hin]; inversion Hnd as [|? ? Hnotin Hnd']; subst.
    - inversion E; subst. rewrite str_eqb_refl. reflexivity.
    - destruct (str_eqb_spec k k0) as [->|Hn]; [|auto].
      exfalso. apply Hnotin. apply in_map_iff. exists (k0, v); auto.
  Qed.

  Lemma alist_set_keys l k v : alist_get k l <> None -> map fst (alist_set k v l) = map fst l.
  Proof.
    induction l as [|[k0 v0] l IH]; cbn [alist_get alist_set map fst]; [congruence|].
    destruct (str_eqb_spec k k0) as [->|Hn]; cbn [map fst]; [reflexivity|]. intros H. rewrite IH; auto.
  Qed.
  Lemma alist_remove_keys_incl l k x : In x (map fst (alist_remove k l)) -> In x (map fst l).
  Proof.
    induction l as [|[k0 v0] l IH]; cbn [alist_remove map fst]; [tauto|].
    destruct (str_eqb k k0); cbn [map fst In]; tauto.
  Qed.
  Lemma alist_remove_nodup l k : NoDup (map fst l) -> NoDup (map fst (alist_remove k l)).
  Proof.
    induction l as [|[k0 v0] l IH]; cbn [alist_remove map fst]; [auto|].
    intros Hnd; inversion Hnd; subst. destruct (str_eqb k k0); cbn [map fst]; [auto|].
    constructor; [|auto]. intros Hin. apply alist_remove_keys_incl in Hin. auto.
  Qed.
End Alist.

(* ---- values: the derived comparison decides equality ---- *)
Section ValueInd.
  Variable P : value -> Prop.
  Hypothesis Hnull : P VNull.
  Hypothesis Hbool : forall b, P (VBool b).
  Hypothesis Hint : forall n, P (VInt n).
  Hypothesis Hstr : forall s, P (VStr s).
  Hypothesis Hlist : forall l, Forall P l -> P (VList l).
  Hypothesis Hset : forall l, Forall P l -> P (VSet l).
  Hypothesis Hsyn : forall n, P (VSyn n).
  Hypothesis Hgraph : forall n, P (VGraph n).
  Fixpoint value_ind' (v : value) : P v :=
    let fix go (l : list value) : Forall P l :=
      match l with [] => Forall_nil _ | x :: l' => Forall_cons x (value_ind' x) (go l') end in
    match v with
    | VNull => Hnull | VBool b => Hbool b | VInt n => Hint n | VStr s => Hstr s
    | VList l => Hlist l (go l) | VSet l => Hset l (go l)
    | VSyn n => Hsyn n | VGraph n => Hgraph n
    end.
End ValueInd.

Definition vlist_cmp : list value -> list value -> comparison := list_cmp value_cmp.
Lemma value_cmp_list x y : value_cmp (VList x) (VList y) = vlist_cmp x y.
Proof.
  revert y; induction x as [|u x IH]; intros [|w y]; try reflexivity.
  change (value_cmp (VList (u :: x)) (VList (w :: y))) with
    (match value_cmp u w with Eq => value_cmp (VList x) (VList y) | c => c end).
  rewrite IH. reflexivity.
Qed.
Lemma value_cmp_set x y : value_cmp (VSet x) (VSet y) = vlist_cmp x y.
Proof.
  revert y; induction x as [|u x IH]; intros [|w y]; try reflexivity.
  change (value_cmp (VSet (u :: x)) (VSet (w :: y))) with
    (match value_cmp u w with Eq => value_cmp (VSet x) (VSet y) | c => c end).
  rewrite IH. reflexivity.
Qed.

Lemma bool_cmp_eq a b : bool_cmp a b = Eq <-> a = b.
Proof. destruct a, b; cbn; split; congruence. Qed.

Lemma vlist_cmp_eq l : Forall (fun v => forall w, value_cmp v w = Eq <-> v = w) l ->
  forall l', vlist_cmp l l' = Eq <-> l = l'.
Proof.
  induction 1 as [|x l Hx Hl IH]; intros [|y l']; cbn [vlist_cmp list_cmp]; try (split; congruence).
  destruct (value_cmp x y) eqn:E.
  - apply Hx in E; subst. fold vlist_cmp. rewrite IH. split; congruence.
  - split; [discriminate|]. intros Heq; inversion Heq; subst. assert (value_cmp y y = Eq) by (apply Hx; reflexivity). congruence.
  - split; [discriminate|]. intros Heq; inversion Heq; subst. assert (value_cmp y y = Eq) by (apply Hx; reflexivity). congruence.
Qed.

Lemma value_cmp_eq v : forall w, value_cmp v w = Eq <-> v = w.
Proof.
  induction v using value_ind'; intros w.
  - destruct w; cbn; split; congruence.
  - destruct w; cbn; try (split; congruence). rewrite bool_cmp_eq. split; congruence.
  - destruct w; cbn; try (split; congruence). rewrite N.compare_eq_iff. split; congruence.
  - destruct w; try (cbn; split; congruence). change (value_cmp (VStr s) (VStr s0)) with (str_cmp s s0).
    rewrite str_cmp_eq. split; congruence.
  - destruct w; try (cbn; split; congruence). rewrite value_cmp_list, vlist_cmp_eq by assumption. split; congruence.
  - destruct w; try (cbn; split; congruence). rewrite value_cmp_set, vlist_cmp_eq by assumption. split; congruence.
  - destruct w; cbn; try (split; congruence). rewrite N.compare_eq_iff. split; congruence.
  - destruct w; cbn; try (split; congruence). rewrite N.compare_eq_iff. split; congruence.
Qed.

Lemma value_eqb_eq v w : value_eqb v w = true <-> v = w.
Proof. unfold value_eqb. rewrite <- value_cmp_eq. destruct (value_cmp v w); split; congruence. Qed.
Lemma value_eqb_refl v : value_eqb v v = true.
Proof. apply value_eqb_eq; reflexivity. Qed.
Lemma value_eqb_neq v w : value_eqb v w = false <-> v <> w.
Proof. rewrite <- value_eqb_eq. destruct (value_eqb v w); split; congruence. Qed.

Lemma NoDup_app_one {A} (l : list A) x : NoDup l -> ~ In x l -> NoDup (l ++ [x]).
Proof.
  induction l as [|y l IH]; cbn; intros Hnd Hn.
  - repeat constructor. intros [].
  - inversion Hnd; subst. constructor.
    + rewrite in_app_iff. cbn. intros [H|[H|[]]]; [auto | subst; auto].
    + apply IH; auto.
Qed.
