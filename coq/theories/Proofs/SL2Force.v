(* Proofs/SL2Force.v — C02 version 2 (strict/lazy simulation WITH scoped variables), part 1: worlds,
   denotations, the thunk store, the scoped cells and the two forcing lemmas.
   A WORLD gives every store location its value and a purity flag, lists the scoped-variable definitions
   executed so far as (syntax node, name, location of the value thunk) in execution order, and records the
   syntax tree and the inherited names it is about.
   `den2 w b lv v`: the lazy value lv denotes v; in PURE mode (b = true) lv contains no scoped read and
   mentions only pure locations.  A pure thunk has a pure body; every thunk body mentions only EARLIER
   locations; a scoped read `LScoped sv name` on node n denotes the value of a definition of `name` on n — or,
   for an inherited name, on a proper ancestor of n — whose value thunk is an earlier location.
   Cells: the cell of `name` lists, in order, the definitions of `name` in the world, with PURE scope values
   (so forcing a cell never re-enters a cell: this excludes the K7 class).
   Level 0 (`force0_all`): forcing a pure value touches only pure thunks and no cell.
   Level 1 (`force1_all`): forcing any value forces the cells it reads (their scopes at level 0: no duplicate
   node because the world has one definition per (node, name)), resolves the read on the forced map
   (`resolve_forced`: own node first; for an inherited name the nearest defining ancestor, which is the
   recorded one because no definer has a defining proper ancestor: `sig_antichain`) and then forces the value
   thunk found; it yields exactly the denoted value.  Never an error, never a panic. *)
From TSG Require Import Model.Lazy Proofs.BaseFacts Proofs.Containers Proofs.MonadFacts Proofs.SLGraph Proofs.SLForce Proofs.Scoped.

Record world := W { w_rho : list (value * bool); w_sig : list (N * ident * nat); w_tree : tree; w_inhl : list ident }.
Definition wcut (k : nat) (w : world) : world := W (firstn k (w_rho w)) (w_sig w) (w_tree w) (w_inhl w).
Definition wext (w w' : world) : Prop :=
  prefix (w_rho w) (w_rho w') /\ prefix (w_sig w) (w_sig w') /\ w_tree w' = w_tree w /\ w_inhl w' = w_inhl w.
Lemma wext_refl w : wext w w. Proof. repeat split; apply prefix_refl. Qed.
Lemma wext_trans a b c : wext a b -> wext b c -> wext a c.
Proof. intros (A1 & A2 & A3 & A4) (B1 & B2 & B3 & B4). split; [eapply prefix_trans; eauto|]. split; [eapply prefix_trans; eauto|]. split; congruence. Qed.
Lemma prefix_firstn {A} (l l' : list A) i : prefix l l' -> prefix (firstn i l) (firstn i l').
Proof. intros [r ->]. rewrite firstn_app. apply prefix_app. Qed.
Lemma wext_cut i w w' : wext w w' -> wext (wcut i w) (wcut i w').
Proof. intros (A1 & A2 & A3 & A4). split; cbn [wcut w_rho w_sig w_tree w_inhl]; [apply prefix_firstn, A1|]. auto. Qed.
Lemma wcut_all w k : k = length (w_rho w) -> wcut k w = w.
Proof. intros ->. destruct w as [r s tr il]. unfold wcut. cbn [w_rho w_sig w_tree w_inhl]. rewrite firstn_all. reflexivity. Qed.
(* the proper ancestors of a syntax node, nearest first (the chain both interpreters walk for inherited names) *)
Definition parent_of (t : tree) (n : N) : option N := match node_at t n with Some nd => tn_parent nd | None => None end.
Definition anc (t : tree) (n : N) : list N := ancestors t (S (length (t_nodes t))) (parent_of t n).
Definition winh (w : world) (name : ident) : bool := existsb (str_eqb name) (w_inhl w).
Lemma ancestors_mono t : forall f f' p x, (f <= f')%nat -> In x (ancestors t f p) -> In x (ancestors t f' p).
Proof.
  induction f as [|f IH]; intros f' p x Hle Hin; [destruct Hin|]. destruct f' as [|f']; [lia|]. cbn [ancestors] in *.
  destruct p as [a|]; [|destruct Hin]. destruct Hin as [->|Hin]; [left; reflexivity|right]. apply (IH f'); [lia|exact Hin].
Qed.
(* two ancestors of one node are comparable *)
Lemma ancestors_chain t : forall f p x y, In x (ancestors t f p) -> In y (ancestors t f p) ->
  x = y \/ In y (ancestors t f (parent_of t x)) \/ In x (ancestors t f (parent_of t y)).
Proof.
  induction f as [|f IH]; intros p x y Hx Hy; [destruct Hx|]. cbn [ancestors] in Hx, Hy. destruct p as [a|]; [|destruct Hx].
  fold (parent_of t a) in Hx, Hy. destruct Hx as [<-|Hx], Hy as [<-|Hy].
  - left. reflexivity.
  - right. left. apply (ancestors_mono t f (S f)); [lia|exact Hy].
  - right. right. apply (ancestors_mono t f (S f)); [lia|exact Hx].
  - destruct (IH _ x y Hx Hy) as [E|[H|H]]; [left; exact E|right; left|right; right]; apply (ancestors_mono t f (S f)); try lia; exact H.
Qed.
Lemma anc_chain t n x y : In x (anc t n) -> In y (anc t n) -> x = y \/ In y (anc t x) \/ In x (anc t y).
Proof. apply ancestors_chain. Qed.
Lemma first_some_In {A B} (f : A -> option B) l y : first_some f l = Some y -> exists x, In x l /\ f x = Some y.
Proof.
  induction l as [|a l IH]; cbn [first_some]; [discriminate|]. destruct (f a) as [b|] eqn:E.
  - intros [= <-]. exists a. split; [left; reflexivity|exact E].
  - intros H. destruct (IH H) as (x & Hx & Hf). exists x. split; [right; exact Hx|exact Hf].
Qed.
Lemma first_some_unique {B} (f : N -> option B) l x y : In x l -> f x = Some y -> (forall x', In x' l -> x' <> x -> f x' = None) ->
  first_some f l = Some y.
Proof.
  induction l as [|a l IH]; intros Hin Hf Hn; [destruct Hin|]. cbn [first_some]. destruct (N.eq_dec a x) as [->|Hne].
  - rewrite Hf. reflexivity.
  - rewrite (Hn a (or_introl eq_refl) Hne). destruct Hin as [E|Hin]; [contradiction|]. apply IH; [exact Hin|exact Hf|].
    intros x' Hx' Hne'. apply Hn; [right; exact Hx'|exact Hne'].
Qed.
Lemma prefix_In {A} (l l' : list A) x : prefix l l' -> In x l -> In x l'.
Proof. intros [r ->] H. apply in_or_app. left. exact H. Qed.

Definition set_scoped_l (x : list (ident * scoped_values)) (s : lstate) : lstate :=
  {| l_graph := l_graph s; l_locals := l_locals s; l_store := l_store s; l_scoped := x; l_edges := l_edges s;
     l_attrs := l_attrs s; l_prints := l_prints s; l_params := l_params s; l_prev := l_prev s |}.
Lemma set_scoped_same s : set_scoped_l (l_scoped s) s = s. Proof. destruct s; reflexivity. Qed.

(* ---------------- the cells' content ---------------- *)
Definition sig_for (name : ident) (sig : list (N * ident * nat)) : list (N * nat) :=
  map (fun e => (fst (fst e), snd e)) (filter (fun e => str_eqb name (snd (fst e))) sig).
Definition forced_map (ds : list (N * nat)) : list (N * lvalue) := map (fun d => (fst d, LVar (N.of_nat (snd d)))) ds.

Lemma sig_for_app name a b : sig_for name (a ++ b) = sig_for name a ++ sig_for name b.
Proof. unfold sig_for. rewrite filter_app, map_app. reflexivity. Qed.
Lemma sig_for_in name sig n loc : In (n, name, loc) sig -> In (n, loc) (sig_for name sig).
Proof.
  intros H. unfold sig_for. apply in_map_iff. exists (n, name, loc). split; [reflexivity|]. apply filter_In. split; [exact H|].
  cbn [fst snd]. apply str_eqb_refl.
Qed.
Lemma sig_for_in_inv name sig n loc : In (n, loc) (sig_for name sig) -> In (n, name, loc) sig.
Proof.
  unfold sig_for. intros H. apply in_map_iff in H. destruct H as ([[n' name'] loc'] & E & H). apply filter_In in H. destruct H as [H Hn].
  cbn [fst snd] in *. apply str_eqb_eq in Hn. inversion E; subst. exact H.
Qed.
Lemma sig_for_nodup name sig : NoDup (map fst sig) -> NoDup (map fst (sig_for name sig)).
Proof.
  induction sig as [|[[n nm] loc] sig IH]; intros Hnd; [constructor|]. cbn [map fst] in Hnd. inversion Hnd as [|? ? Hnot Hnd']; subst.
  unfold sig_for. cbn [filter fst snd]. destruct (str_eqb_spec name nm) as [->|Hne]; [|apply IH, Hnd'].
  cbn [map fst snd]. constructor; [|apply IH, Hnd']. intros Hin. apply in_map_iff in Hin. destruct Hin as ([n' loc'] & E & Hin). cbn [fst] in E. subst n'.
  apply sig_for_in_inv in Hin. apply Hnot. apply in_map_iff. exists (n, nm, loc'). split; [reflexivity|exact Hin].
Qed.
Lemma nmap_get_forced_none ds n : ~ In n (map fst ds) -> nmap_get (forced_map ds) n = None.
Proof.
  induction ds as [|[k loc] ds IH]; intros H; cbn [forced_map map nmap_get fst snd]; [reflexivity|]. cbn [map fst In] in H.
  destruct (N.eqb_spec n k) as [->|Hne]; [exfalso; apply H; left; reflexivity|]. apply IH. intros Hi. apply H. right. exact Hi.
Qed.
Lemma nmap_get_forced_some ds n loc : NoDup (map fst ds) -> In (n, loc) ds -> nmap_get (forced_map ds) n = Some (LVar (N.of_nat loc)).
Proof.
  induction ds as [|[k l0] ds IH]; intros Hnd Hin; [destruct Hin|]. cbn [forced_map map nmap_get fst snd]. cbn [map fst] in Hnd.
  inversion Hnd as [|? ? Hnot Hnd']; subst. destruct Hin as [E|Hin].
  - inversion E; subst. rewrite N.eqb_refl. reflexivity.
  - destruct (N.eqb_spec n k) as [->|Hne]; [|apply IH; assumption]. exfalso. apply Hnot. apply in_map_iff. exists (k, loc). split; [reflexivity|exact Hin].
Qed.

(* ---------------- generic forcing steps: lists, sets, calls ---------------- *)
Section Generic.
  Variable call : ident -> graph -> list value -> res (value * graph).
  Variable D : lvalue -> value -> Prop.
  Variable I : list thunk -> list (ident * scoped_values) -> Prop.
  Variable T : list thunk -> list (ident * scoped_values) -> list thunk -> list (ident * scoped_values) -> Prop.
  Hypothesis T_refl : forall st sc, T st sc st sc.
  Hypothesis T_trans : forall a b c d e f, T a b c d -> T c d e f -> T a b e f.

  (* only the store and the cells changed; the invariant holds again *)
  Definition gstep (ls ls' : lstate) : Prop :=
    exists st' sc', ls' = set_scoped_l sc' (set_store st' ls) /\ I st' sc' /\ T (l_store ls) (l_scoped ls) st' sc'.
  Definition gpost {A} (a : A) (ls : lstate) : A -> lstate -> polls -> Prop :=
    fun a' ls' p' => a' = a /\ nob p' /\ gstep ls ls'.
  Definition gspec (ev : lvalue -> M lstate value) : Prop :=
    forall lv v ls p, I (l_store ls) (l_scoped ls) -> D lv v -> nob p -> lres (ev lv ls p) (gpost v ls).

  Lemma gstep_refl ls : I (l_store ls) (l_scoped ls) -> gstep ls ls.
  Proof. intros HI. exists (l_store ls), (l_scoped ls). split; [destruct ls; reflexivity|]. split; [exact HI|apply T_refl]. Qed.
  Lemma gstep_trans ls ls1 ls2 : gstep ls ls1 -> gstep ls1 ls2 -> gstep ls ls2.
  Proof.
    intros (st1 & sc1 & -> & I1 & T1) (st2 & sc2 & -> & I2 & T2). exists st2, sc2. split; [reflexivity|]. split; [exact I2|].
    cbn [set_scoped_l set_store l_store l_scoped] in T2. eapply T_trans; eauto.
  Qed.
  Lemma gstep_inv ls ls1 : gstep ls ls1 -> I (l_store ls1) (l_scoped ls1).
  Proof. intros (st1 & sc1 & -> & I1 & _). exact I1. Qed.

  Lemma g_here {A} (a : A) ls p : I (l_store ls) (l_scoped ls) -> nob p -> gpost a ls a ls p.
  Proof. intros HI Hb. split; [reflexivity|]. split; [exact Hb|apply gstep_refl, HI]. Qed.

  Lemma g_mapM ev : gspec ev -> forall es vs ls p, Forall2 D es vs -> I (l_store ls) (l_scoped ls) -> nob p ->
    lres (mapM ev es ls p) (gpost vs ls).
  Proof.
    intros Hev es vs ls p HF. revert ls p. induction HF as [|e v es vs Hd HF IH]; intros ls p HI Hb; cbn [mapM].
    - apply lres_ret. apply g_here; assumption.
    - apply lres_bind. eapply lres_mono; [apply (Hev e v ls p HI Hd Hb)|]. intros v' ls1 p1 (-> & Hb1 & G1).
      apply lres_bind. eapply lres_mono; [apply (IH ls1 p1 (gstep_inv _ _ G1) Hb1)|]. intros vs' ls2 p2 (-> & Hb2 & G2).
      apply lres_ret. split; [reflexivity|]. split; [exact Hb2|eapply gstep_trans; eauto].
  Qed.

  Lemma g_push_args ev : gspec ev -> forall es vs ls p, Forall2 D es vs -> I (l_store ls) (l_scoped ls) -> nob p ->
    lres (iterM (fun a => v <- ev a ;; lpush_param v) es ls p)
         (fun _ ls' p' => nob p' /\ exists st' sc', ls' = set_params_l (l_params ls ++ vs) (set_scoped_l sc' (set_store st' ls)) /\ I st' sc' /\
                            T (l_store ls) (l_scoped ls) st' sc').
  Proof.
    intros Hev es vs ls p HF. revert ls p. induction HF as [|e v es vs Hd HF IH]; intros ls p HI Hb; cbn [iterM].
    - apply lres_ret. split; [exact Hb|]. exists (l_store ls), (l_scoped ls). split; [rewrite app_nil_r; destruct ls; reflexivity|]. split; [exact HI|apply T_refl].
    - apply lres_bind. apply lres_bind. eapply lres_mono; [apply (Hev e v ls p HI Hd Hb)|]. intros v' ls1 p1 (-> & Hb1 & st1 & sc1 & -> & I1 & T1).
      unfold lpush_param at 1. apply lres_get. unfold set_lparams, Lazy.upd. apply lres_modify.
      eapply lres_mono; [apply (IH (set_params_l (l_params ls ++ [v]) (set_scoped_l sc1 (set_store st1 ls))) p1 I1 Hb1)|].
      intros _ ls2 p2 (Hb2 & st2 & sc2 & -> & I2 & T2). split; [exact Hb2|]. exists st2, sc2. split.
      + cbn [set_params_l set_scoped_l set_store l_params l_graph l_locals l_store l_scoped l_edges l_attrs l_prints l_prev]. rewrite <- app_assoc. reflexivity.
      + split; [exact I2|]. cbn [set_params_l set_scoped_l set_store l_store l_scoped] in T2. eapply T_trans; eauto.
  Qed.

  Lemma g_call ev f args vs v ls p : gspec ev -> Forall2 D args vs -> (forall g, call f g vs = Ok (v, g)) ->
    I (l_store ls) (l_scoped ls) -> nob p ->
    lres ((iterM (fun a => x <- ev a ;; lpush_param x) args ;;; ps <- ldrain_params (length args) ;; lcall_function call f ps) ls p) (gpost v ls).
  Proof.
    intros Hev HF Hc HI Hb. apply lres_bind. eapply lres_mono; [apply (g_push_args ev Hev args vs ls p HF HI Hb)|].
    intros _ ls1 p1 (Hb1 & st1 & sc1 & -> & I1 & T1).
    apply lres_bind. unfold ldrain_params. apply lres_get. cbn [set_params_l set_scoped_l set_store l_params].
    rewrite app_length, <- (Forall2_len _ _ _ HF).
    destruct (Nat.ltb_spec (length (l_params ls) + length args) (length args)) as [Hlt|_]; [exfalso; lia|].
    replace (length (l_params ls) + length args - length args)%nat with (length (l_params ls)) by lia.
    rewrite firstn_app, firstn_all, Nat.sub_diag, firstn_O, app_nil_r, skipn_app, skipn_all, Nat.sub_diag, skipn_O. cbn [app].
    apply lres_bind. unfold set_lparams, Lazy.upd. apply lres_modify. apply lres_ret.
    unfold lcall_function. apply lres_get. cbn [l_graph set_params_l set_scoped_l set_store]. rewrite (Hc (l_graph ls)).
    apply lres_bind. unfold set_lgraph, Lazy.upd. apply lres_modify. apply lres_ret.
    cbn [l_graph l_locals l_store l_scoped l_edges l_attrs l_prints l_params l_prev set_params_l set_scoped_l set_store].
    split; [reflexivity|]. split; [exact Hb1|]. exists st1, sc1. split; [|split; [exact I1|exact T1]].
    destruct ls; reflexivity.
  Qed.
End Generic.

Section Den2.
  Variable call : ident -> graph -> list value -> res (value * graph).

  Inductive den2 (w : world) (b : bool) : lvalue -> value -> Prop :=
  | d2_value v : den2 w b (LValue v) v
  | d2_list ls vs : Forall2 (den2 w b) ls vs -> den2 w b (LList ls) (VList vs)
  | d2_set ls vs : Forall2 (den2 w b) ls vs -> den2 w b (LSet ls) (VSet (set_of_list vs))
  | d2_var loc v pb : nth_error (w_rho w) (N.to_nat loc) = Some (v, pb) -> (b = true -> pb = true) -> den2 w b (LVar loc) v
  | d2_scoped sv name n a loc v pb : b = false -> den2 w b sv (VSyn n) ->
      (a = n \/ (winh w name = true /\ In a (anc (w_tree w) n))) -> In (a, name, loc) (w_sig w) ->
      nth_error (w_rho w) loc = Some (v, pb) -> den2 w b (LScoped sv name) v
  | d2_call f args vs v : Forall2 (den2 w b) args vs -> (forall g, call f g vs = Ok (v, g)) -> den2 w b (LCall f args) v.

  Lemma den2_mono w w' : wext w w' -> forall b lv v, den2 w b lv v -> den2 w' b lv v.
  Proof.
    intros (Hr & Hs & Ht & Hi) b. fix IH 3. intros lv v H. destruct H as [v|ls vs HF|ls vs HF|loc v pb Hn Hb|sv name n a loc v pb Eb Hsv Ha Hin Hn|f args vs v HF Hc].
    - constructor.
    - constructor. revert ls vs HF. fix IHF 3. intros ls vs HF. destruct HF as [|x y l l' Hxy HF]; constructor; [apply IH, Hxy|apply IHF, HF].
    - constructor. revert ls vs HF. fix IHF 3. intros ls vs HF. destruct HF as [|x y l l' Hxy HF]; constructor; [apply IH, Hxy|apply IHF, HF].
    - apply (d2_var _ _ loc v pb); [apply (prefix_nth _ _ _ _ Hr Hn)|exact Hb].
    - apply (d2_scoped _ _ sv name n a loc v pb); [exact Eb|apply IH, Hsv| |apply (prefix_In _ _ _ Hs Hin)|apply (prefix_nth _ _ _ _ Hr Hn)].
      unfold winh. rewrite Ht, Hi. exact Ha.
    - apply (d2_call _ _ f args vs v); [|exact Hc]. clear Hc. revert args vs HF. fix IHF 3. intros args vs HF.
      destruct HF as [|x y l l' Hxy HF]; constructor; [apply IH, Hxy|apply IHF, HF].
  Qed.
  Lemma den2_list_mono w w' b ls vs : wext w w' -> Forall2 (den2 w b) ls vs -> Forall2 (den2 w' b) ls vs.
  Proof. intros Hp H. induction H; constructor; [eapply den2_mono; eauto|assumption]. Qed.

  (* a pure denotation is a denotation *)
  Lemma den2_weaken w b : forall lv v, den2 w b lv v -> den2 w false lv v.
  Proof.
    fix IH 3. intros lv v H. destruct H as [v|ls vs HF|ls vs HF|loc v pb Hn Hb|sv name n a loc v pb Eb Hsv Ha Hin Hn|f args vs v HF Hc].
    - constructor.
    - constructor. revert ls vs HF. fix IHF 3. intros ls vs HF. destruct HF as [|x y l l' Hxy HF]; constructor; [apply IH, Hxy|apply IHF, HF].
    - constructor. revert ls vs HF. fix IHF 3. intros ls vs HF. destruct HF as [|x y l l' Hxy HF]; constructor; [apply IH, Hxy|apply IHF, HF].
    - apply (d2_var _ _ loc v pb); [exact Hn|discriminate].
    - apply (d2_scoped _ _ sv name n a loc v pb); [reflexivity|apply IH, Hsv|exact Ha|exact Hin|exact Hn].
    - apply (d2_call _ _ f args vs v); [|exact Hc]. clear Hc. revert args vs HF. fix IHF 3. intros args vs HF.
      destruct HF as [|x y l l' Hxy HF]; constructor; [apply IH, Hxy|apply IHF, HF].
  Qed.
  Lemma den2_to w b b' lv v : den2 w b lv v -> (b' = true -> b = true) -> den2 w b' lv v.
  Proof. intros H Hb. destruct b'; [rewrite <- (Hb eq_refl); exact H|eapply den2_weaken; exact H]. Qed.

  (* ---------------- well-formed stores ---------------- *)
  Definition purel (w : world) (i : nat) : Prop := exists v, nth_error (w_rho w) i = Some (v, true).
  Lemma purel_dec w i : purel w i \/ ~ purel w i.
  Proof.
    unfold purel. destruct (nth_error (w_rho w) i) as [[v [|]]|]; [left; eauto| |]; right; intros [v' H]; discriminate.
  Qed.
  Definition thunk_ok2 (w : world) (i : nat) (th : thunk) : Prop :=
    exists v pb, nth_error (w_rho w) i = Some (v, pb) /\
                 match th_state th with
                 | TForced v' => v' = v
                 | TUnforced lv => den2 (wcut i w) pb lv v
                 | TForcing => False
                 end.
  (* pure thunks below k *)
  Definition S0 (k : nat) (w : world) (st : list thunk) : Prop :=
    length (w_rho w) = length st /\ forall i th, (i < k)%nat -> nth_error st i = Some th -> purel w i -> thunk_ok2 w i th.
  (* all thunks below k and all pure thunks *)
  Definition S1 (k : nat) (w : world) (st : list thunk) : Prop :=
    length (w_rho w) = length st /\ forall i th, nth_error st i = Some th -> ((i < k)%nat \/ purel w i) -> thunk_ok2 w i th.
  Definition Sfull (w : world) (st : list thunk) : Prop :=
    length (w_rho w) = length st /\ forall i th, nth_error st i = Some th -> thunk_ok2 w i th.

  Lemma Sfull_nil tr il : Sfull (W [] [] tr il) [].
  Proof. split; [reflexivity|]. intros [|i] th H; discriminate. Qed.
  Lemma Sfull_S1 k w st : Sfull w st -> S1 k w st.
  Proof. intros [Hl H]. split; [exact Hl|]. intros i th Hn _. apply (H i th Hn). Qed.
  Lemma Sfull_S0 k w st : Sfull w st -> S0 k w st.
  Proof. intros [Hl H]. split; [exact Hl|]. intros i th _ Hn _. apply (H i th Hn). Qed.
  Lemma S1_Sfull w st : S1 (length st) w st -> Sfull w st.
  Proof. intros [Hl H]. split; [exact Hl|]. intros i th Hn. apply (H i th Hn). left. apply nth_error_Some. congruence. Qed.
  Lemma S1_S0 k k' w st : S1 k w st -> S0 k' w st.
  Proof. intros [Hl H]. split; [exact Hl|]. intros i th _ Hn Hp. apply (H i th Hn). right. exact Hp. Qed.

  Lemma thunk_ok2_mono w w' i th : wext w w' -> thunk_ok2 w i th -> thunk_ok2 w' i th.
  Proof.
    intros Hx (v & pb & Hn & Hs). exists v, pb. split; [apply (prefix_nth _ _ _ _ (proj1 Hx) Hn)|].
    destruct (th_state th); try exact Hs. eapply den2_mono; [apply wext_cut, Hx|exact Hs].
  Qed.

  (* LazyStore::add of a value that denotes v in mode pb: the new location has purity pb *)
  Lemma Sfull_add w sig' st lv v pb dbg : Sfull w st -> den2 w pb lv v -> prefix (w_sig w) sig' ->
    let w' := W (w_rho w ++ [(v, pb)]) sig' (w_tree w) (w_inhl w) in
    wext w w' /\ Sfull w' (st ++ [{| th_state := TUnforced lv; th_dbg := dbg |}]) /\
    nth_error (w_rho w') (length st) = Some (v, pb).
  Proof.
    intros [Hlen Hok] Hd Hs w'. assert (Hx : wext w w') by (split; [apply prefix_app|split; [exact Hs|split; reflexivity]]).
    assert (Hnew : nth_error (w_rho w') (length st) = Some (v, pb)).
    { unfold w'. cbn [w_rho]. rewrite <- Hlen, nth_error_app2, Nat.sub_diag by lia. reflexivity. }
    split; [exact Hx|]. split; [|exact Hnew]. split.
    - unfold w'. cbn [w_rho]. rewrite !app_length, Hlen. reflexivity.
    - intros i th Hn. destruct (Nat.lt_ge_cases i (length st)) as [Hlt|Hge].
      + rewrite nth_error_app1 in Hn by exact Hlt. apply (thunk_ok2_mono w w' i th Hx). apply (Hok i th Hn).
      + assert (Hi : i = length st).
        { assert (i < length (st ++ [{| th_state := TUnforced lv; th_dbg := dbg |}]))%nat by (apply nth_error_Some; congruence).
          rewrite app_length in H. cbn [length] in H. lia. }
        subst i. rewrite nth_error_app2, Nat.sub_diag in Hn by lia. cbn in Hn. inversion Hn; subst th. exists v, pb.
        split; [exact Hnew|]. cbn [th_state]. eapply den2_mono; [|exact Hd].
        split; [|split; [exact Hs|split; reflexivity]]. unfold w', wcut. cbn [w_rho w_sig]. rewrite <- Hlen, firstn_app, firstn_all, Nat.sub_diag, firstn_O, app_nil_r. apply prefix_refl.
  Qed.

  (* ---------------- cells ---------------- *)
  Definition pair_ok (w : world) (pr : lvalue * lvalue * stmt_ctx) (d : N * nat) : Prop :=
    snd (fst pr) = LVar (N.of_nat (snd d)) /\ den2 w true (fst (fst pr)) (VSyn (fst d)).
  Definition cell_ok (w : world) (name : ident) (c : scoped_values) : Prop :=
    match c with
    | SVUnforced pairs => Forall2 (pair_ok w) pairs (sig_for name (w_sig w))
    | SVForcing => False
    | SVForced m => m = forced_map (sig_for name (w_sig w))
    end.
  Definition cells_ok (w : world) (cells : list (ident * scoped_values)) : Prop :=
    forall name, match alist_get name cells with Some c => cell_ok w name c | None => sig_for name (w_sig w) = [] end.
  Definition sig_nodup (w : world) : Prop := NoDup (map fst (w_sig w)).
  (* no definition of an inherited name on a node AND on one of its proper ancestors *)
  Definition sig_antichain (w : world) : Prop :=
    forall name n a l1 l2, winh w name = true -> In a (anc (w_tree w) n) -> In (n, name, l1) (w_sig w) -> In (a, name, l2) (w_sig w) -> False.
  (* the world is about this tree and this file's inherited names *)
  Definition wstatic (t : tree) (fl : file) (w : world) : Prop := w_tree w = t /\ w_inhl w = f_inherited fl.

  Lemma nmap_get_forced_in ds n : nmap_get (forced_map ds) n <> None -> exists loc, In (n, loc) ds.
  Proof.
    induction ds as [|[k l0] ds IH]; cbn [forced_map map nmap_get fst snd]; [congruence|].
    destruct (N.eqb_spec n k) as [->|Hne]; [intros _; exists l0; left; reflexivity|]. intros H. destruct (IH H) as [loc Hl]. exists loc. right. exact Hl.
  Qed.
  (* LazyScopedVariable::resolve on the forced map: own node first, then (inherited names) the nearest ancestor *)
  Lemma resolve_forced t fl w name n a loc : sig_nodup w -> sig_antichain w -> wstatic t fl w ->
    (a = n \/ (winh w name = true /\ In a (anc (w_tree w) n))) -> In (a, name, loc) (w_sig w) ->
    match nmap_get (forced_map (sig_for name (w_sig w))) n with
    | Some v => Some v
    | None => if linherited fl name then
                lancestor_lookup t (S (length (t_nodes t))) (forced_map (sig_for name (w_sig w)))
                  (match node_at t n with Some nd => tn_parent nd | None => None end)
              else None
    end = Some (LVar (N.of_nat loc)).
  Proof.
    intros Hnd Hac [Ht Hi] Ha Hin. pose proof (sig_for_nodup name _ Hnd) as Hnd'. pose proof (sig_for_in name _ a loc Hin) as Hin'.
    destruct Ha as [->|[Hinh Hanc]]; [rewrite (nmap_get_forced_some _ n loc Hnd' Hin'); reflexivity|].
    destruct (nmap_get (forced_map (sig_for name (w_sig w))) n) as [x|] eqn:En.
    - exfalso. destruct (nmap_get_forced_in (sig_for name (w_sig w)) n) as [l1 Hl1]; [congruence|]. apply sig_for_in_inv in Hl1. apply (Hac name n a l1 loc Hinh Hanc Hl1 Hin).
    - assert (El : linherited fl name = true) by (unfold linherited; rewrite <- Hi; exact Hinh). rewrite El.
      rewrite lancestor_lookup_nearest. rewrite Ht in Hanc. fold (parent_of t n). fold (anc t n).
      apply (first_some_unique _ _ a); [exact Hanc|apply (nmap_get_forced_some _ a loc Hnd' Hin')|].
      intros a' Ha' Hne. destruct (nmap_get (forced_map (sig_for name (w_sig w))) a') as [x|] eqn:Ea'; [|reflexivity]. exfalso.
      destruct (nmap_get_forced_in (sig_for name (w_sig w)) a') as [l1 Hl1]; [congruence|]. apply sig_for_in_inv in Hl1.
      destruct (anc_chain t n a' a Ha' Hanc) as [E|[H|H]]; [contradiction| |]; rewrite <- Ht in H.
      + apply (Hac name a' a l1 loc Hinh H Hl1 Hin).
      + apply (Hac name a a' loc l1 Hinh H Hin Hl1).
  Qed.

  Section Force.
    Variables (t : tree) (fl : file).
    Notation eval_lv' := (eval_lv t fl call).
    Notation force_thunk' := (force_thunk t fl call).
    Notation force_scoped' := (force_scoped t fl call).

    (* ================= level 0: pure values ================= *)
    Definition I0 (k : nat) (w : world) (st : list thunk) (sc : list (ident * scoped_values)) : Prop := S0 k w st.
    Definition T0 (k : nat) (w : world) (st : list thunk) (sc : list (ident * scoped_values)) (st' : list thunk) (sc' : list (ident * scoped_values)) : Prop :=
      sc' = sc /\ forall i, ((k <= i)%nat \/ ~ purel w i) -> nth_error st' i = nth_error st i.
    Lemma T0_refl k w st sc : T0 k w st sc st sc. Proof. split; [reflexivity|auto]. Qed.
    Lemma T0_trans k w a b c d e f : T0 k w a b c d -> T0 k w c d e f -> T0 k w a b e f.
    Proof. intros [A1 A2] [B1 B2]. split; [congruence|]. intros i Hi. rewrite (B2 i Hi). apply A2, Hi. Qed.
    Notation gpost0 k w := (gpost (I0 k w) (T0 k w)).

    Lemma force0_all : forall fuel w,
      (forall k, gspec (den2 (wcut k w) true) (I0 k w) (T0 k w) (eval_lv' fuel)) /\
      (forall loc v k ls p, S0 k w (l_store ls) -> (N.to_nat loc < k)%nat -> nth_error (w_rho w) (N.to_nat loc) = Some (v, true) -> nob p ->
         lres (force_thunk' fuel loc ls p) (gpost0 k w v ls)).
    Proof.
      induction fuel as [|fuel IH]; intros w; [split; [intros k lv v ls p _ _ _|intros]; exact I|]. destruct (IH w) as [IHe IHt]. split.
      - intros k lv v ls p Hst Hd Hb. cbn [eval_lv]. apply lres_bind. apply lres_poll; [exact Hb|]. intros p0 Hb0.
        inversion Hd as [v0|es vs HF|es vs HF|loc v0 pb Hn Hpb|sv name n a loc v0 pb Eb Hsv Ha Hin Hn|f args vs v0 HF Hc]; subst.
        + apply lres_ret. apply g_here; [apply T0_refl|exact Hst|exact Hb0].
        + apply lres_bind. eapply lres_mono; [apply (g_mapM _ _ _ (T0_refl k w) (T0_trans k w) _ (IHe k) es vs ls p0 HF Hst Hb0)|].
          intros vs' ls1 p1 (-> & H). apply lres_ret. split; [reflexivity|exact H].
        + apply lres_bind. eapply lres_mono; [apply (g_mapM _ _ _ (T0_refl k w) (T0_trans k w) _ (IHe k) es vs ls p0 HF Hst Hb0)|].
          intros vs' ls1 p1 (-> & H). apply lres_ret. split; [reflexivity|exact H].
        + cbn [wcut w_rho] in Hn. apply nth_error_firstn_lt in Hn. destruct Hn as [Hlt Hn]. rewrite (Hpb eq_refl) in Hn.
          apply (IHt loc v k ls p0 Hst Hlt Hn Hb0).
        + discriminate.
        + apply (g_call call _ _ _ (T0_refl k w) (T0_trans k w) _ f args vs v ls p0 (IHe k) HF Hc Hst Hb0).
      - intros loc v k ls p Hst Hlt Hrho Hb. cbn [force_thunk]. apply lres_get.
        destruct Hst as [Hlen Hok].
        destruct (nth_error (l_store ls) (N.to_nat loc)) as [th|] eqn:Eth.
        2:{ exfalso. apply nth_error_None in Eth. assert (N.to_nat loc < length (w_rho w))%nat by (apply nth_error_Some; congruence). lia. }
        apply lres_ctx. destruct (Hok _ _ Hlt Eth (ex_intro _ v Hrho)) as (v0 & pb0 & Hv0 & Hs).
        assert (E0 : (v0, pb0) = (v, true)) by congruence. inversion E0; subst v0 pb0. clear E0.
        destruct (th_state th) as [inner| |v'] eqn:Es; [| contradiction |].
        + apply lres_bind. unfold store_set_state at 1. apply lres_get. unfold set_lstore, Lazy.upd. apply lres_modify.
          set (st1 := list_update (N.to_nat loc) (fun th0 => {| th_state := TForcing; th_dbg := th_dbg th0 |}) (l_store ls)).
          assert (Hst1 : S0 (N.to_nat loc) w st1).
          { split; [unfold st1; rewrite list_update_length; exact Hlen|]. intros i th0 Hi Hn. unfold st1 in Hn.
            rewrite nth_error_update_other in Hn by lia. apply (Hok i th0); [lia|exact Hn]. }
          apply lres_bind.
          eapply lres_mono; [apply (IHe (N.to_nat loc) inner v (set_store st1 ls) p Hst1 Hs Hb)|].
          intros v' ls2 p2 (-> & Hb2 & st2 & sc2 & -> & Hst2 & (Hsc2 & Hun2)). cbn [set_store l_store l_scoped] in Hun2, Hsc2. subst sc2.
          apply lres_bind. unfold store_set_state. apply lres_get. unfold set_lstore, Lazy.upd. apply lres_modify. cbn [set_scoped_l set_store l_store].
          apply lres_ret. split; [reflexivity|]. split; [exact Hb2|].
          exists (list_update (N.to_nat loc) (fun th0 => {| th_state := TForced v; th_dbg := th_dbg th0 |}) st2), (l_scoped ls).
          split; [reflexivity|]. destruct Hst2 as [Hlen2 Hok2]. split; [split|split; [reflexivity|]].
          * rewrite list_update_length. exact Hlen2.
          * intros i th0 Hi Hn Hp. destruct (Nat.eq_dec i (N.to_nat loc)) as [->|Hne].
            -- rewrite nth_error_list_update, Nat.eqb_refl in Hn. destruct (nth_error st2 (N.to_nat loc)); [|discriminate].
               cbn in Hn. inversion Hn; subst th0. exists v, true. split; [exact Hrho|reflexivity].
            -- rewrite nth_error_update_other in Hn by exact Hne.
               destruct (Nat.lt_ge_cases i (N.to_nat loc)) as [Hl|Hg]; [apply (Hok2 i th0 Hl Hn Hp)|].
               rewrite (Hun2 i (or_introl Hg)) in Hn. unfold st1 in Hn. rewrite nth_error_update_other in Hn by exact Hne. apply (Hok i th0 Hi Hn Hp).
          * intros i Hi. assert (Hne : i <> N.to_nat loc).
            { destruct Hi as [Hi|Hi]; [lia|]. intros ->. apply Hi. exists v. exact Hrho. }
            rewrite nth_error_update_other by exact Hne.
            assert (Hi' : (N.to_nat loc <= i)%nat \/ ~ purel w i) by (destruct Hi as [Hi|Hi]; [left; lia|right; exact Hi]).
            rewrite (Hun2 i Hi'). unfold st1. apply nth_error_update_other. exact Hne.
        + subst v'. apply lres_ret. apply g_here; [apply T0_refl|split; assumption|exact Hb].
    Qed.

    (* a pure value on a fully well-formed store *)
    Lemma Sfull_after0 k w st st' : Sfull w st -> S0 k w st' -> k = length st ->
      (forall i, ((k <= i)%nat \/ ~ purel w i) -> nth_error st' i = nth_error st i) -> Sfull w st'.
    Proof.
      intros [Hl H] [Hl' H'] -> Hun. split; [exact Hl'|]. intros i th Hn. destruct (purel_dec w i) as [Hp|Hp].
      - apply (H' i th); [|exact Hn|exact Hp]. assert (i < length st')%nat by (apply nth_error_Some; congruence). lia.
      - rewrite (Hun i (or_intror Hp)) in Hn. apply (H i th Hn).
    Qed.
    Definition full_post2 {A} (w : world) (a : A) (ls : lstate) : A -> lstate -> polls -> Prop :=
      fun a' ls' p' => a' = a /\ nob p' /\ exists st', ls' = set_store st' ls /\ Sfull w st'.
    Lemma gpost0_full {A} w (a : A) ls a' ls' p' : Sfull w (l_store ls) ->
      gpost0 (length (l_store ls)) w a ls a' ls' p' -> full_post2 w a ls a' ls' p'.
    Proof.
      intros Hst (-> & Hb' & st' & sc' & -> & Hst' & (-> & Hun)). split; [reflexivity|]. split; [exact Hb'|]. exists st'.
      split; [destruct ls; reflexivity|]. apply (Sfull_after0 _ w (l_store ls) st' Hst Hst' eq_refl Hun).
    Qed.
    Lemma force0_full fuel w lv v ls p : Sfull w (l_store ls) -> den2 w true lv v -> nob p ->
      lres (eval_lv' fuel lv ls p) (full_post2 w v ls).
    Proof.
      intros Hst Hd Hb. destruct (force0_all fuel w) as [He _].
      rewrite <- (wcut_all w (length (l_store ls))) in Hd by (symmetry; apply (proj1 Hst)).
      eapply lres_mono; [apply (He _ lv v ls p (Sfull_S0 _ w _ Hst) Hd Hb)|]. intros v' ls' p'. apply gpost0_full, Hst.
    Qed.

    (* ================= forcing a cell: every scope at level 0 ================= *)
    Lemma force_pairs_ok K w (ev : lvalue -> M lstate N) :
      (forall sc n ls p, S0 K w (l_store ls) -> den2 w true sc (VSyn n) -> nob p -> lres (ev sc ls p) (gpost0 K w n ls)) ->
      forall ps ds, Forall2 (pair_ok w) ps ds -> forall done dbgs ls p, NoDup (map fst (done ++ ds)) -> S0 K w (l_store ls) -> nob p ->
        lres (force_pairs ev ps (forced_map done) dbgs ls p) (gpost0 K w (forced_map (done ++ ds)) ls).
    Proof.
      intros Hev ps ds HF. induction HF as [|[[scope lv] dbg] [n loc] ps ds [Hlv Hsc] HF IH]; intros done dbgs ls p Hnd Hst Hb; cbn [force_pairs].
      - rewrite app_nil_r. apply lres_ret. apply g_here; [apply T0_refl|exact Hst|exact Hb].
      - cbn [fst snd] in Hlv, Hsc. apply lres_bind. apply lres_ctx. apply lres_ctx.
        eapply lres_mono; [apply (Hev scope n ls p Hst Hsc Hb)|]. intros n' ls1 p1 (-> & Hb1 & G1).
        rewrite nmap_get_forced_none.
        2:{ rewrite map_app in Hnd. apply NoDup_remove_2 in Hnd. intros Hi. apply Hnd. apply in_or_app. left. exact Hi. }
        assert (E : forced_map done ++ [(n, lv)] = forced_map (done ++ [(n, loc)])) by (unfold forced_map; rewrite map_app; cbn [map fst snd]; rewrite Hlv; reflexivity).
        rewrite E.
        eapply lres_mono; [apply (IH (done ++ [(n, loc)]) _ ls1 p1); [rewrite <- app_assoc; exact Hnd|apply (gstep_inv _ _ _ _ G1)|exact Hb1]|].
        intros m ls2 p2 (-> & Hb2 & G2). split; [rewrite <- app_assoc; reflexivity|]. split; [exact Hb2|].
        eapply gstep_trans; [apply T0_trans|exact G1|exact G2].
    Qed.

    Lemma force_scoped_ok fuel name cell w ls p : sig_nodup w -> cell_ok w name cell -> S0 (length (l_store ls)) w (l_store ls) -> nob p ->
      lres (force_scoped' fuel name cell ls p) (gpost0 (length (l_store ls)) w (forced_map (sig_for name (w_sig w))) ls).
    Proof.
      intros Hnd Hc Hst Hb. destruct fuel as [|fuel]; [exact I|]. cbn [force_scoped]. destruct cell as [pairs| |m]; cbn [cell_ok] in Hc; [|contradiction|].
      - change (@nil (N * lvalue)) with (forced_map []).
        apply (force_pairs_ok (length (l_store ls)) w _) with (ds := sig_for name (w_sig w)) (done := []); [|exact Hc|apply sig_for_nodup, Hnd|exact Hst|exact Hb].
        intros sc n ls0 p0 Hst0 Hd0 Hb0. destruct (force0_all fuel w) as [He _]. apply lres_bind.
        rewrite <- (wcut_all w (length (l_store ls))) in Hd0 by (symmetry; apply (proj1 Hst)).
        eapply lres_mono; [apply (He _ sc (VSyn n) ls0 p0 Hst0 Hd0 Hb0)|]. intros v' ls1 p1 (-> & H). eapply lres_lift; [reflexivity|]. split; [reflexivity|exact H].
      - subst m. apply lres_ret. apply g_here; [apply T0_refl|exact Hst|exact Hb].
    Qed.

    (* ================= level 1: all values ================= *)
    Definition I1 (k : nat) (w : world) (st : list thunk) (sc : list (ident * scoped_values)) : Prop := S1 k w st /\ cells_ok w sc.
    Definition T1 (k : nat) (w : world) (st : list thunk) (sc : list (ident * scoped_values)) (st' : list thunk) (sc' : list (ident * scoped_values)) : Prop :=
      forall i, (k <= i)%nat -> ~ purel w i -> nth_error st' i = nth_error st i.
    Lemma T1_refl k w st sc : T1 k w st sc st sc. Proof. intros i _ _. reflexivity. Qed.
    Lemma T1_trans k w a b c d e f : T1 k w a b c d -> T1 k w c d e f -> T1 k w a b e f.
    Proof. intros A B i Hi Hp. rewrite (B i Hi Hp). apply A; assumption. Qed.
    Notation gpost1 k w := (gpost (I1 k w) (T1 k w)).

    Lemma S1_after0 K k w st st' : S1 k w st -> S0 K w st' -> K = length st ->
      (forall i, ((K <= i)%nat \/ ~ purel w i) -> nth_error st' i = nth_error st i) -> S1 k w st'.
    Proof.
      intros [Hl H] [Hl' H'] -> Hun. split; [exact Hl'|]. intros i th Hn Hi. destruct (purel_dec w i) as [Hp|Hp].
      - apply (H' i th); [|exact Hn|exact Hp]. assert (i < length st')%nat by (apply nth_error_Some; congruence). lia.
      - rewrite (Hun i (or_intror Hp)) in Hn. apply (H i th Hn Hi).
    Qed.
    (* a level-0 step is a level-1 step *)
    Lemma lift01 {A} k w (a : A) ls a' ls' p' : I1 k w (l_store ls) (l_scoped ls) ->
      gpost0 (length (l_store ls)) w a ls a' ls' p' -> gpost1 k w a ls a' ls' p'.
    Proof.
      intros [Hst Hc] (-> & Hb' & st' & sc' & -> & Hst' & (-> & Hun)). split; [reflexivity|]. split; [exact Hb'|]. exists st', (l_scoped ls).
      split; [reflexivity|]. split; [split; [apply (S1_after0 _ k w (l_store ls) st' Hst Hst' eq_refl Hun)|exact Hc]|].
      intros i _ Hp. apply Hun. right. exact Hp.
    Qed.

    Lemma cells_ok_set w cells name c : cells_ok w cells -> cell_ok w name c -> cells_ok w (alist_set name c cells).
    Proof.
      intros H Hc name'. rewrite alist_get_set. destruct (str_eqb_spec name' name) as [->|Hne]; [exact Hc|apply H].
    Qed.

    Lemma force1_all : forall fuel w, sig_nodup w -> sig_antichain w -> wstatic t fl w ->
      (forall k, gspec (den2 (wcut k w) false) (I1 k w) (T1 k w) (eval_lv' fuel)) /\
      (forall loc v pb k ls p, I1 k w (l_store ls) (l_scoped ls) -> (N.to_nat loc < k)%nat -> nth_error (w_rho w) (N.to_nat loc) = Some (v, pb) -> nob p ->
         lres (force_thunk' fuel loc ls p) (gpost1 k w v ls)).
    Proof.
      induction fuel as [|fuel IH]; intros w Hnd Hac Hws; [split; [intros k lv v ls p _ _ _|intros]; exact I|]. destruct (IH w Hnd Hac Hws) as [IHe IHt]. split.
      - intros k lv v ls p Hst Hd Hb. cbn [eval_lv]. apply lres_bind. apply lres_poll; [exact Hb|]. intros p0 Hb0.
        inversion Hd as [v0|es vs HF|es vs HF|loc v0 pb Hn Hpb|sv name n a loc v0 pb Eb Hsv Ha Hin Hn|f args vs v0 HF Hc]; subst.
        + apply lres_ret. apply g_here; [apply T1_refl|exact Hst|exact Hb0].
        + apply lres_bind. eapply lres_mono; [apply (g_mapM _ _ _ (T1_refl k w) (T1_trans k w) _ (IHe k) es vs ls p0 HF Hst Hb0)|].
          intros vs' ls1 p1 (-> & H). apply lres_ret. split; [reflexivity|exact H].
        + apply lres_bind. eapply lres_mono; [apply (g_mapM _ _ _ (T1_refl k w) (T1_trans k w) _ (IHe k) es vs ls p0 HF Hst Hb0)|].
          intros vs' ls1 p1 (-> & H). apply lres_ret. split; [reflexivity|exact H].
        + cbn [wcut w_rho] in Hn. apply nth_error_firstn_lt in Hn. destruct Hn as [Hlt Hn].
          apply (IHt loc v pb k ls p0 Hst Hlt Hn Hb0).
        + (* scoped read: the scope, then the cell (level 0), then the value thunk of the definition found *)
          change (winh (wcut k w) name) with (winh w name) in Ha. cbn [wcut w_sig w_tree] in Hin, Ha.
          apply lres_bind. apply lres_ctx. apply lres_bind.
          eapply lres_mono; [apply (IHe k sv (VSyn n) ls p0 Hst Hsv Hb0)|]. intros v' ls1 p1 (-> & Hb1 & G1).
          eapply lres_lift; [reflexivity|].
          pose proof (gstep_inv _ _ _ _ G1) as [Hst1 Hc1].
          apply lres_bind. unfold cell_get. apply lres_get. apply lres_ret.
          pose proof (Hc1 name) as Hcell. pose proof (sig_for_in name _ a loc Hin) as Hin'.
          destruct (alist_get name (l_scoped ls1)) as [cell|]; [|rewrite Hcell in Hin'; destruct Hin'].
          apply lres_bind. unfold cell_set at 1. apply lres_get. unfold set_lscoped, Lazy.upd. apply lres_modify.
          apply lres_bind.
          set (ls2 := set_scoped_l (alist_set name SVForcing (l_scoped ls1)) ls1).
          eapply lres_mono; [apply (force_scoped_ok fuel name cell w ls2 p1 Hnd Hcell (S1_S0 _ _ w _ Hst1) Hb1)|].
          intros m ls3 p3 (-> & Hb3 & st3 & sc3 & -> & Hst3 & (Hsc3 & Hun3)). cbn [ls2 set_scoped_l l_store l_scoped] in Hsc3, Hun3, Hst3. subst sc3.
          cbv zeta. rewrite (resolve_forced t fl w name n a loc Hnd Hac Hws Ha Hin).
          apply lres_bind. unfold cell_set. apply lres_get. unfold set_lscoped, Lazy.upd. apply lres_modify.
          cbn [ls2 set_scoped_l set_store l_graph l_locals l_store l_scoped l_edges l_attrs l_prints l_params l_prev].
          set (sc4 := alist_set name (SVForced (forced_map (sig_for name (w_sig w)))) (alist_set name SVForcing (l_scoped ls1))).
          assert (Hc4 : cells_ok w sc4).
          { unfold sc4. intros name'. rewrite !alist_get_set. destruct (str_eqb_spec name' name) as [->|Hne]; [reflexivity|apply Hc1]. }
          assert (Hst4 : S1 k w st3) by (apply (S1_after0 _ k w (l_store ls1) st3 Hst1 Hst3 eq_refl Hun3)).
          assert (Hd4 : den2 (wcut k w) false (LVar (N.of_nat loc)) v).
          { apply (d2_var _ _ _ v pb); [rewrite Nnat.Nat2N.id; exact Hn|discriminate]. }
          eapply lres_mono; [apply (IHe k (LVar (N.of_nat loc)) v (set_scoped_l sc4 (set_store st3 ls1)) p3 (conj Hst4 Hc4) Hd4 Hb3)|].
          intros v' ls5 p5 (-> & Hb5 & G5). split; [reflexivity|]. split; [exact Hb5|].
          eapply gstep_trans; [apply T1_trans|exact G1|]. eapply gstep_trans; [apply T1_trans| |exact G5].
          exists st3, sc4. split; [reflexivity|]. split; [split; assumption|]. intros i _ Hp. apply Hun3. right. exact Hp.
        + apply (g_call call _ _ _ (T1_refl k w) (T1_trans k w) _ f args vs v ls p0 (IHe k) HF Hc Hst Hb0).
      - intros loc v pb k ls p Hst Hlt Hrho Hb. destruct pb.
        + (* a pure thunk: level 0 *)
          destruct (force0_all (S fuel) w) as [_ Ht0]. destruct Hst as [Hst Hc].
          assert (Hlt0 : (N.to_nat loc < length (l_store ls))%nat).
          { rewrite <- (proj1 Hst). apply nth_error_Some. congruence. }
          eapply lres_mono; [apply (Ht0 loc v _ ls p (S1_S0 _ _ w _ Hst) Hlt0 Hrho Hb)|]. intros v' ls' p'. apply lift01. split; assumption.
        + cbn [force_thunk]. apply lres_get. pose proof Hst as [[Hlen Hok] Hcells].
          assert (Hnp : ~ purel w (N.to_nat loc)) by (intros [v' Hv']; congruence).
          destruct (nth_error (l_store ls) (N.to_nat loc)) as [th|] eqn:Eth.
          2:{ exfalso. apply nth_error_None in Eth. assert (N.to_nat loc < length (w_rho w))%nat by (apply nth_error_Some; congruence). lia. }
          apply lres_ctx. destruct (Hok _ _ Eth (or_introl Hlt)) as (v0 & pb0 & Hv0 & Hs).
          assert (E0 : (v0, pb0) = (v, false)) by congruence. inversion E0; subst v0 pb0. clear E0.
          destruct (th_state th) as [inner| |v'] eqn:Es; [| contradiction |].
          * apply lres_bind. unfold store_set_state at 1. apply lres_get. unfold set_lstore, Lazy.upd. apply lres_modify.
            set (st1 := list_update (N.to_nat loc) (fun th0 => {| th_state := TForcing; th_dbg := th_dbg th0 |}) (l_store ls)).
            assert (Hst1 : S1 (N.to_nat loc) w st1).
            { split; [unfold st1; rewrite list_update_length; exact Hlen|]. intros i th0 Hn Hi. unfold st1 in Hn.
              assert (Hne : i <> N.to_nat loc) by (destruct Hi as [Hi|Hi]; [lia|intros ->; contradiction]).
              rewrite nth_error_update_other in Hn by exact Hne. apply (Hok i th0 Hn). destruct Hi as [Hi|Hi]; [left; lia|right; exact Hi]. }
            apply lres_bind.
            eapply lres_mono; [apply (IHe (N.to_nat loc) inner v (set_store st1 ls) p (conj Hst1 Hcells) Hs Hb)|].
            intros v' ls2 p2 (-> & Hb2 & st2 & sc2 & -> & [Hst2 Hc2] & Hun2). cbn [set_store l_store l_scoped] in Hun2.
            apply lres_bind. unfold store_set_state. apply lres_get. unfold set_lstore, Lazy.upd. apply lres_modify. cbn [set_scoped_l set_store l_store].
            apply lres_ret. split; [reflexivity|]. split; [exact Hb2|].
            exists (list_update (N.to_nat loc) (fun th0 => {| th_state := TForced v; th_dbg := th_dbg th0 |}) st2), sc2.
            split; [reflexivity|]. destruct Hst2 as [Hlen2 Hok2]. split; [split; [split|exact Hc2]|].
            -- rewrite list_update_length. exact Hlen2.
            -- intros i th0 Hn Hi. destruct (Nat.eq_dec i (N.to_nat loc)) as [->|Hne].
               ++ rewrite nth_error_list_update, Nat.eqb_refl in Hn. destruct (nth_error st2 (N.to_nat loc)); [|discriminate].
                  cbn in Hn. inversion Hn; subst th0. exists v, false. split; [exact Hrho|reflexivity].
               ++ rewrite nth_error_update_other in Hn by exact Hne.
                  destruct (purel_dec w i) as [Hp|Hp]; [apply (Hok2 i th0 Hn (or_intror Hp))|].
                  destruct (Nat.lt_ge_cases i (N.to_nat loc)) as [Hl|Hg]; [apply (Hok2 i th0 Hn (or_introl Hl))|].
                  rewrite (Hun2 i Hg Hp) in Hn. unfold st1 in Hn. rewrite nth_error_update_other in Hn by exact Hne. apply (Hok i th0 Hn Hi).
            -- intros i Hi Hp. rewrite nth_error_update_other by lia. rewrite (Hun2 i ltac:(lia) Hp). unfold st1. apply nth_error_update_other. lia.
          * subst v'. apply lres_ret. apply g_here; [apply T1_refl|exact Hst|exact Hb].
    Qed.

    (* with a fully well-formed store and well-formed cells (the evaluation phase) *)
    Definition full_post1 {A} (w : world) (a : A) (ls : lstate) : A -> lstate -> polls -> Prop :=
      fun a' ls' p' => a' = a /\ nob p' /\ exists st' sc', ls' = set_scoped_l sc' (set_store st' ls) /\ Sfull w st' /\ cells_ok w sc'.
    Lemma gpost1_full {A} w (a : A) ls a' ls' p' : Sfull w (l_store ls) ->
      gpost1 (length (l_store ls)) w a ls a' ls' p' -> full_post1 w a ls a' ls' p'.
    Proof.
      intros [Hl _] (-> & Hb' & st' & sc' & -> & [Hst' Hc'] & _). split; [reflexivity|]. split; [exact Hb'|]. exists st', sc'. split; [reflexivity|].
      split; [|exact Hc']. apply S1_Sfull. replace (length st') with (length (l_store ls)) by (rewrite <- Hl; apply (proj1 Hst')). exact Hst'.
    Qed.
    Lemma force1_full fuel w lv v ls p : sig_nodup w -> sig_antichain w -> wstatic t fl w -> Sfull w (l_store ls) -> cells_ok w (l_scoped ls) -> den2 w false lv v -> nob p ->
      lres (eval_lv' fuel lv ls p) (full_post1 w v ls).
    Proof.
      intros Hnd Hac Hws Hst Hc Hd Hb. destruct (force1_all fuel w Hnd Hac Hws) as [He _].
      rewrite <- (wcut_all w (length (l_store ls))) in Hd by (symmetry; apply (proj1 Hst)).
      eapply lres_mono; [apply (He _ lv v ls p (conj (Sfull_S1 _ w _ Hst) Hc) Hd Hb)|]. intros v' ls' p'. apply gpost1_full, Hst.
    Qed.
    Lemma force1_full_thunk fuel w i ls p : sig_nodup w -> sig_antichain w -> wstatic t fl w -> Sfull w (l_store ls) -> cells_ok w (l_scoped ls) -> (i < length (l_store ls))%nat -> nob p ->
      lres (force_thunk' fuel (N.of_nat i) ls p)
           (fun _ ls' p' => nob p' /\ exists st' sc', ls' = set_scoped_l sc' (set_store st' ls) /\ Sfull w st' /\ cells_ok w sc').
    Proof.
      intros Hnd Hac Hws Hst Hc Hi Hb. pose proof (proj1 Hst) as Hlen.
      destruct (nth_error (w_rho w) i) as [[v pb]|] eqn:Ev; [|apply nth_error_None in Ev; lia].
      destruct (force1_all fuel w Hnd Hac Hws) as [_ Ht].
      eapply lres_mono; [apply (Ht (N.of_nat i) v pb (length (l_store ls)) ls p (conj (Sfull_S1 _ w _ Hst) Hc)); rewrite ?Nnat.Nat2N.id; [exact Hi|exact Ev|exact Hb]|].
      intros v' ls' p' HP. apply (gpost1_full w v ls v' ls' p' Hst) in HP. destruct HP as (_ & H). exact H.
    Qed.
    (* LazyScopedVariables::evaluate_all on one name *)
    Lemma force_cell_full fuel w name ls p : sig_nodup w -> Sfull w (l_store ls) -> cells_ok w (l_scoped ls) -> nob p ->
      lres ((c <- cell_get name ;;
             match c with
             | None => ret tt
             | Some cell => cell_set name SVForcing ;;; m <- force_scoped' fuel name cell ;; cell_set name (SVForced m)
             end) ls p)
           (fun _ ls' p' => nob p' /\ exists st' sc', ls' = set_scoped_l sc' (set_store st' ls) /\ Sfull w st' /\ cells_ok w sc').
    Proof.
      intros Hnd Hst Hc Hb. apply lres_bind. unfold cell_get. apply lres_get. apply lres_ret. pose proof (Hc name) as Hcell.
      destruct (alist_get name (l_scoped ls)) as [cell|].
      2:{ apply lres_ret. split; [exact Hb|]. exists (l_store ls), (l_scoped ls). split; [destruct ls; reflexivity|]. split; assumption. }
      apply lres_bind. unfold cell_set at 1. apply lres_get. unfold set_lscoped, Lazy.upd. apply lres_modify. apply lres_bind.
      set (ls2 := set_scoped_l (alist_set name SVForcing (l_scoped ls)) ls).
      eapply lres_mono; [apply (force_scoped_ok fuel name cell w ls2 p Hnd Hcell (Sfull_S0 _ w _ Hst) Hb)|].
      intros m ls3 p3 (-> & Hb3 & st3 & sc3 & -> & Hst3 & (Hsc3 & Hun3)). cbn [ls2 set_scoped_l l_store l_scoped] in Hsc3, Hun3, Hst3. subst sc3.
      unfold cell_set. apply lres_get. unfold set_lscoped, Lazy.upd. apply lres_modify. split; [exact Hb3|].
      exists st3, (alist_set name (SVForced (forced_map (sig_for name (w_sig w)))) (alist_set name SVForcing (l_scoped ls))).
      split; [reflexivity|]. split; [apply (Sfull_after0 _ w (l_store ls) st3 Hst Hst3 eq_refl Hun3)|].
      intros name'. rewrite !alist_get_set. destruct (str_eqb_spec name' name) as [->|Hne]; [reflexivity|apply Hc].
    Qed.
  End Force.
End Den2.
