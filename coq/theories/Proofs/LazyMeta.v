(* Proofs/LazyMeta.v — one induction over the lazy interpreter (execution phase and evaluation
   phase) for every admissible predicate on computations. *)
From TSG Require Import Model.Lazy Proofs.StrictMeta.

Section Meta.
  Context {rx : Type}.
  Variable t : tree.
  Variable fl : file.
  Variable cfg : config.
  Variable glob : globals.
  Variable regexes : list rx.
  Variable find : rx -> str -> option (list (option (N * N))).
  Variable call : ident -> graph -> list value -> res (value * graph).

  Variable Phi : forall A : Type, M lstate A -> Prop.
  Arguments Phi {A} _.

  Hypothesis Phi_ret : forall A (a : A), Phi (ret a).
  Hypothesis Phi_bind : forall A B (m : M lstate A) (f : A -> M lstate B), Phi m -> (forall a, Phi (f a)) -> Phi (bind m f).
  Hypothesis Phi_fail : forall A e, base_error e -> Phi (@fail lstate A e).
  Hypothesis Phi_fail_in : forall A a b e, base_error e -> Phi (@fail_in A (CtxStmts [a; b]) e).
  Hypothesis Phi_panic : forall A p, Phi (@panic lstate A p).
  Hypothesis Phi_oof : forall A, Phi (@out_of_fuel lstate A).
  (* the lazy interpreter wraps errors only in Context::Other or in ONE statement context *)
  Variable good_ctx : context -> Prop.
  Hypothesis good_other : good_ctx CtxOther.
  Hypothesis good_single : forall sc, good_ctx (CtxStmts [sc]).
  Hypothesis Phi_ctx0 : forall A c (m : M lstate A), good_ctx c -> Phi m -> Phi (ctx_wrap c m).
  Lemma Phi_ctx A c (m : M lstate A) : (c = CtxOther \/ exists sc, c = CtxStmts [sc]) -> Phi m -> Phi (ctx_wrap c m).
  Proof. intros [->|[sc ->]] H; apply Phi_ctx0; auto. Qed.
  Hypothesis Phi_get : Phi (@get_state lstate).
  Hypothesis Phi_set_llocals : forall l, Phi (set_llocals l).
  Hypothesis Phi_set_lstore : forall l, Phi (set_lstore l).
  Hypothesis Phi_set_lscoped : forall l, Phi (set_lscoped l).
  Hypothesis Phi_push_lstmt : forall st, Phi (push_lstmt st).
  Hypothesis Phi_set_lparams : forall l, Phi (set_lparams l).
  Hypothesis Phi_set_lprev : forall l, Phi (set_lprev l).
  Hypothesis Phi_lpoll : forall l, Phi (lpoll l).
  Hypothesis Phi_ladd_node : Phi ladd_node.
  Hypothesis Phi_ladd_node_attr : forall n k v, Phi (ladd_node_attr n k v).
  Hypothesis Phi_lcall : forall f args, Phi (lcall_function call f args).
  Hypothesis Phi_lattr_node_add : forall n k v prev dbg, Phi (lattr_node_add n k v prev dbg).
  Hypothesis Phi_ledge_add : forall a b ea, Phi (ledge_add a b ea).
  Hypothesis Phi_lattr_edge_add : forall a b k v prev dbg, Phi (lattr_edge_add a b k v prev dbg).

  Lemma Phi_lift A (r : res A) : base_res r -> Phi (lift r).
  Proof.
    destruct r as [a|e|p|]; cbn; intros H.
    - exact (Phi_ret _ a).
    - exact (Phi_fail _ e H).
    - exact (Phi_panic _ p).
    - exact (Phi_oof _).
  Qed.
  Lemma Phi_mapM A B (f : A -> M lstate B) l : (forall x, Phi (f x)) -> Phi (mapM f l).
  Proof. intros H. induction l as [|x l IH]; cbn [mapM]; [apply Phi_ret|]. apply Phi_bind; [apply H|]. intros y. apply Phi_bind; [exact IH|]. intros ys. apply Phi_ret. Qed.
  Lemma Phi_iterM A (f : A -> M lstate unit) l : (forall x, Phi (f x)) -> Phi (iterM f l).
  Proof. intros H. induction l as [|x l IH]; cbn [iterM]; [apply Phi_ret|]. apply Phi_bind; [apply H|]. intros _. exact IH. Qed.

  Ltac pctx := (apply Phi_ctx; [first [left; reflexivity | right; eexists; reflexivity]|]).

  Lemma base_as_syn v : base_res (as_syn v). Proof. destruct v; cbn; exact I. Qed.

  Ltac phi_prim :=
    first [ apply Phi_ret | apply Phi_get | apply Phi_set_llocals | apply Phi_set_lstore | apply Phi_set_lscoped
          | apply Phi_push_lstmt | apply Phi_set_lparams | apply Phi_set_lprev
          | apply Phi_lpoll | apply Phi_ladd_node | apply Phi_ladd_node_attr | apply Phi_lcall
          | apply Phi_lattr_node_add | apply Phi_ledge_add | apply Phi_lattr_edge_add
          | apply Phi_panic | apply Phi_oof | apply Phi_fail; exact I | apply Phi_fail_in; exact I
          | apply Phi_lift; first [apply base_as_bool | apply base_as_str | apply base_as_list | apply base_as_gnode
                                  | apply base_as_syn | apply base_from_nodes] ].
  Ltac phi_step :=
    first [ phi_prim
          | apply Phi_bind; [|intros ?]
          | pctx
          | apply Phi_mapM; intros ?
          | apply Phi_iterM; intros ?
          | match goal with |- Phi (match ?x with _ => _ end) => destruct x end
          | match goal with |- Phi (if ?x then _ else _) => destruct x end ].
  Ltac phi := repeat phi_step.

  Lemma Phi_lpoll_n n l : Phi (lpoll_n n l).
  Proof. induction n as [|n IH]; cbn [lpoll_n]; [apply Phi_ret|]. apply Phi_bind; [apply Phi_lpoll|intros _; exact IH]. Qed.
  Lemma Phi_lopt_node_attr n name v : Phi (lopt_node_attr n name v). Proof. unfold lopt_node_attr. phi. Qed.
  Lemma Phi_lpush_frame : Phi lpush_frame. Proof. unfold lpush_frame. phi. Qed.
  Lemma Phi_lpop_frame : Phi lpop_frame. Proof. unfold lpop_frame. phi. Qed.
  Lemma Phi_lclear_frame : Phi lclear_frame. Proof. unfold lclear_frame. phi. Qed.
  Lemma Phi_store_add lv dbg : Phi (store_add lv dbg). Proof. unfold store_add. phi. Qed.
  Lemma Phi_store_set_state loc st : Phi (store_set_state loc st). Proof. unfold store_set_state. phi. Qed.
  Lemma Phi_cell_get name : Phi (cell_get name). Proof. unfold cell_get. phi. Qed.
  Lemma Phi_cell_set name v : Phi (cell_set name v). Proof. unfold cell_set. phi. Qed.
  Lemma Phi_scoped_store_add sc name v dbg : Phi (scoped_store_add sc name v dbg).
  Proof. unfold scoped_store_add. apply Phi_bind; [apply Phi_cell_get|intros c]. destruct c as [[| |]|]; first [apply Phi_cell_set | apply Phi_fail; exact I]. Qed.
  Lemma Phi_lpush_param v : Phi (lpush_param v). Proof. unfold lpush_param. phi. Qed.
  Lemma Phi_ldrain_params n : Phi (ldrain_params n). Proof. unfold ldrain_params. phi. Qed.
  Lemma Phi_prev_insert k dbg : Phi (prev_insert k dbg). Proof. unfold prev_insert. phi. Qed.
  Lemma Phi_ledge_exists a b : Phi (ledge_exists a b). Proof. unfold ledge_exists. phi. Qed.
  Lemma Phi_lfull_match_node le : Phi (lfull_match_node le). Proof. unfold lfull_match_node. phi. Qed.
  Lemma Phi_lunscoped_get name : Phi (lunscoped_get glob name). Proof. unfold lunscoped_get. phi. Qed.
  Lemma Phi_lunscoped_add le name v m : Phi (lunscoped_add glob le name v m).
  Proof. unfold lunscoped_add. destruct (globals_get glob name); [apply Phi_fail; exact I|]. apply Phi_bind; [apply Phi_store_add|intros var]. phi. Qed.
  Lemma Phi_lunscoped_set le name v : Phi (lunscoped_set glob le name v).
  Proof. unfold lunscoped_set. destruct (globals_get glob name); [apply Phi_fail; exact I|]. apply Phi_bind; [apply Phi_store_add|intros var]. phi. Qed.

  Ltac phi2_step :=
    first [ apply Phi_lpoll_n | apply Phi_lopt_node_attr | apply Phi_lpush_frame | apply Phi_lpop_frame | apply Phi_lclear_frame
          | apply Phi_store_add | apply Phi_store_set_state | apply Phi_cell_get | apply Phi_cell_set | apply Phi_scoped_store_add
          | apply Phi_lpush_param | apply Phi_ldrain_params | apply Phi_prev_insert | apply Phi_ledge_exists
          | apply Phi_lfull_match_node | apply Phi_lunscoped_get | apply Phi_lunscoped_add | apply Phi_lunscoped_set
          | phi_step ].
  Ltac phi2 := repeat phi2_step.

  Lemma Phi_force_pairs ev : (forall sc, Phi (ev sc)) -> forall ps values dbgs, Phi (force_pairs ev ps values dbgs).
  Proof.
    intros Hev. induction ps as [|[[scope v] dbg] ps IHp]; intros values dbgs; cbn [force_pairs]; [apply Phi_ret|].
    apply Phi_bind; [pctx; pctx; apply Hev|intros n].
    destruct (nmap_get values n); [|apply IHp]. destruct (dbg_get dbgs n); [apply Phi_fail_in; exact I|apply Phi_panic].
  Qed.

  Notation eval_lv' := (eval_lv t fl call).
  Notation force_thunk' := (force_thunk t fl call).
  Notation force_scoped' := (force_scoped t fl call).

  Lemma Phi_eval_all : forall fuel,
    (forall lv, Phi (eval_lv' fuel lv)) /\ (forall loc, Phi (force_thunk' fuel loc)) /\ (forall name cell, Phi (force_scoped' fuel name cell)).
  Proof.
    induction fuel as [|fuel (IHe & IHt & IHs)]; [repeat split; intros; apply Phi_oof|].
    repeat split.
    - intros lv. destruct lv; cbn [eval_lv]; (apply Phi_bind; [apply Phi_lpoll|intros _]).
      + apply Phi_ret.
      + phi2. apply IHe.
      + phi2. apply IHe.
      + apply IHt.
      + apply Phi_bind.
        { pctx. apply Phi_bind; [apply IHe|intros sv]. apply Phi_lift, base_as_syn. }
        intros n. apply Phi_bind; [apply Phi_cell_get|intros c]. destruct c as [cell|]; [|apply Phi_fail; exact I].
        apply Phi_bind; [apply Phi_cell_set|intros _]. apply Phi_bind; [apply IHs|intros map]. cbv zeta.
        apply Phi_bind; [apply Phi_cell_set|intros _].
        match goal with |- Phi (match ?x with _ => _ end) => destruct x end; [apply IHe|apply Phi_fail; exact I].
      + phi2. apply IHe.
    - intros loc. cbn [force_thunk]. apply Phi_bind; [apply Phi_get|intros s].
      destruct (nth_error (l_store s) (N.to_nat loc)) as [th|]; [|apply Phi_panic].
      pctx. destruct (th_state th); phi2. apply IHe.
    - intros name cell. cbn [force_scoped]. destruct cell as [pairs| |map]; [|apply Phi_fail; exact I|apply Phi_ret].
      apply Phi_force_pairs. intros scope. apply Phi_bind; [exact (IHe scope)|intros sv]. apply Phi_lift, base_as_syn.
  Qed.
  Lemma Phi_eval_lv fuel lv : Phi (eval_lv' fuel lv). Proof. apply Phi_eval_all. Qed.
  Lemma Phi_force_thunk fuel loc : Phi (force_thunk' fuel loc). Proof. apply Phi_eval_all. Qed.
  Lemma Phi_force_scoped fuel name cell : Phi (force_scoped' fuel name cell). Proof. apply Phi_eval_all. Qed.

  Lemma Phi_eval_as_gnode fuel lv : Phi (eval_as_gnode t fl call fuel lv).
  Proof. unfold eval_as_gnode. apply Phi_bind; [apply Phi_eval_lv|intros v; apply Phi_lift, base_as_gnode]. Qed.

  Lemma Phi_eval_lstmt fuel st : Phi (eval_lstmt t fl call fuel st).
  Proof.
    unfold eval_lstmt. apply Phi_bind; [apply Phi_lpoll|intros _]. destruct st.
    - pctx. apply Phi_bind; [pctx; apply Phi_eval_as_gnode|intros n]. apply Phi_iterM. intros a.
      apply Phi_bind; [apply Phi_eval_lv|intros v]. apply Phi_bind; [apply Phi_prev_insert|intros prev]. apply Phi_lattr_node_add.
    - pctx. apply Phi_bind; [pctx; apply Phi_eval_as_gnode|intros a]. apply Phi_bind; [pctx; apply Phi_eval_as_gnode|intros b].
      apply Phi_ledge_add.
    - pctx. apply Phi_bind; [pctx; apply Phi_eval_as_gnode|intros a]. apply Phi_bind; [pctx; apply Phi_eval_as_gnode|intros b].
      apply Phi_iterM. intros ak. apply Phi_bind; [apply Phi_eval_lv|intros v]. apply Phi_bind; [apply Phi_ledge_exists|intros ex].
      destruct ex; [|apply Phi_fail; exact I]. apply Phi_bind; [apply Phi_prev_insert|intros prev]. apply Phi_lattr_edge_add.
    - pctx. apply Phi_iterM. intros a. destruct a; [|apply Phi_ret]. apply Phi_bind; [apply Phi_eval_lv|intros _; apply Phi_ret].
  Qed.

  Lemma Phi_evaluate_phase fuel : Phi (evaluate_phase t fl call fuel).
  Proof.
    unfold evaluate_phase. apply Phi_bind; [apply Phi_get|intros s].
    apply Phi_bind; [apply Phi_iterM; intros; apply Phi_eval_lstmt|intros _].
    apply Phi_bind; [apply Phi_iterM; intros; apply Phi_eval_lstmt|intros _].
    apply Phi_bind; [apply Phi_iterM; intros; apply Phi_eval_lstmt|intros _].
    apply Phi_bind.
    - unfold store_evaluate_all. apply Phi_bind; [apply Phi_get|intros s']. apply Phi_iterM. intros i.
      apply Phi_bind; [apply Phi_force_thunk|intros _; apply Phi_ret].
    - intros _. unfold scoped_evaluate_all. apply Phi_bind; [apply Phi_get|intros s']. apply Phi_iterM. intros name.
      apply Phi_bind; [apply Phi_cell_get|intros c]. destruct c as [cell|]; [|apply Phi_ret].
      apply Phi_bind; [apply Phi_cell_set|intros _]. apply Phi_bind; [apply Phi_force_scoped|intros map]. apply Phi_cell_set.
  Qed.

  (* ---- execution phase ---- *)
  Notation leval' := (leval t fl glob call).
  Lemma Phi_leval : forall fuel le e, Phi (leval' fuel le e).
  Proof.
    induction fuel as [|fuel IH]; intros le e; [apply Phi_oof|].
    assert (Heager : forall e', Phi (lv <- leval' fuel le e' ;; eval_lv' (S fuel + default_eval_fuel) lv)).
    { intros e'. apply Phi_bind; [apply IH|intros lv; apply Phi_eval_lv]. }
    assert (Hcomp : forall elem var value,
      Phi (lv <- (lv <- leval' fuel le value ;; eval_lv' (S fuel + default_eval_fuel) lv) ;; vals <- lift (as_list lv) ;;
           lpush_frame ;;;
           out <- mapM (fun v => lclear_frame ;;; lunscoped_add glob le var (LValue v) false ;;; leval' fuel le elem) vals ;;
           lpop_frame ;;; ret out)).
    { intros elem var value. apply Phi_bind; [apply Heager|intros lv]. apply Phi_bind; [apply Phi_lift, base_as_list|intros vals].
      apply Phi_bind; [apply Phi_lpush_frame|intros _]. apply Phi_bind.
      - apply Phi_mapM. intros v. apply Phi_bind; [apply Phi_lclear_frame|intros _]. apply Phi_bind; [apply Phi_lunscoped_add|intros _]. apply IH.
      - intros out. apply Phi_bind; [apply Phi_lpop_frame|intros _; apply Phi_ret]. }
    destruct e; cbn [leval]; try (phi2; apply IH).
    - apply Phi_bind; [apply Hcomp|intros out; apply Phi_ret].
    - apply Phi_bind; [apply Hcomp|intros out; apply Phi_ret].
  Qed.
  Lemma Phi_leager fuel le e : Phi (leager t fl glob call fuel le e).
  Proof. unfold leager. apply Phi_bind; [apply Phi_leval|intros lv; apply Phi_eval_lv]. Qed.
  Lemma Phi_lvar_add fuel le v x m : Phi (lvar_add t fl glob call fuel le v x m).
  Proof.
    destruct v; cbn [lvar_add]; [apply Phi_lunscoped_add|]. destruct m; [apply Phi_fail; exact I|].
    apply Phi_bind; [apply Phi_leval|intros sv]. apply Phi_bind; [apply Phi_store_add|intros var]. apply Phi_scoped_store_add.
  Qed.
  Lemma Phi_lvar_set fuel le v x : Phi (lvar_set glob fuel le v x).
  Proof. destruct v; cbn [lvar_set]; [apply Phi_lunscoped_set|apply Phi_fail; exact I]. Qed.
  Lemma Phi_ltest_cond fuel le c : Phi (ltest_cond t fl glob call fuel le c).
  Proof. destruct c; cbn [ltest_cond]; (apply Phi_bind; [apply Phi_leager|intros v]); try apply Phi_ret. apply Phi_lift, base_as_bool. Qed.

  Notation lexec_attr' := (lexec_attr t fl glob call).
  Lemma Phi_lexec_attr : forall fuel le a, Phi (lexec_attr' fuel le a).
  Proof.
    induction fuel as [|fuel IH]; intros le a; [apply Phi_oof|].
    destruct a as [name value]. cbn [lexec_attr]. apply Phi_bind; [apply Phi_lpoll|intros _].
    apply Phi_bind; [apply Phi_leval|intros v]. destruct (find_shorthand name (f_shorthands fl)) as [sh|]; [|apply Phi_ret].
    apply Phi_bind; [apply Phi_get|intros s]. cbv zeta. apply Phi_bind; [apply Phi_set_llocals|intros _].
    apply Phi_bind; [apply Phi_lunscoped_add|intros _]. apply Phi_bind; [apply Phi_mapM; intros; apply IH|intros outs].
    apply Phi_bind; [apply Phi_set_llocals|intros _; apply Phi_ret].
  Qed.

  Lemma Phi_lscan_loop run_arm arms rs subject :
    (forall caps body, Phi (run_arm caps body)) ->
    forall sfuel i, Phi (lscan_loop find run_arm arms rs subject sfuel i).
  Proof.
    intros Hrun. induction sfuel as [|sfuel IHs]; intros i; cbn [lscan_loop]; [apply Phi_oof|].
    destruct (N.ltb i (N.of_nat (length subject))); [|apply Phi_ret]. cbv zeta.
    apply Phi_bind; [apply Phi_lpoll_n|intros _].
    destruct (arm_select find rs (skipn (N.to_nat i) subject)) as [|k|k caps]; [apply Phi_ret|apply Phi_fail; exact I|].
    destruct (nth_error arms (N.to_nat k)) as [[[r body] l']|]; [|apply Phi_panic].
    apply Phi_bind; [apply Phi_lpush_frame|intros _].
    apply Phi_bind; [apply Hrun|intros _].
    apply Phi_bind; [apply Phi_lpop_frame|intros _]. apply IHs.
  Qed.
  Lemma Phi_lif_loop test run_body :
    (forall c, Phi (test c)) -> (forall body, Phi (run_body body)) ->
    forall arms, Phi (lif_loop test run_body arms).
  Proof.
    intros Ht Hr. induction arms as [|[[conds body] l'] arms IHa]; cbn [lif_loop]; [apply Phi_ret|].
    apply Phi_bind; [apply Phi_mapM; intros c; apply Ht|intros bs].
    destruct (forallb (fun b => b) bs); [|exact IHa].
    apply Phi_bind; [apply Phi_lpush_frame|intros _].
    apply Phi_bind; [apply Hr|intros _]. apply Phi_lpop_frame.
  Qed.

  Notation lexec_stmt' := (lexec_stmt t fl cfg glob regexes find call).
  Lemma Phi_lexec_stmt : forall fuel le s, Phi (lexec_stmt' fuel le s).
  Proof.
    induction fuel as [|fuel IH]; intros le s; [apply Phi_oof|].
    assert (Hblock : forall le' body,
               Phi (iterM (fun st => lexec_stmt' fuel (ll_with_ctx le' (ctx_update (ll_ctx le') st)) st) body)).
    { intros le' body. apply Phi_iterM. intros st. apply IH. }
    assert (Harm : forall le' body,
               Phi (iterM (fun st => let c := ctx_update (ll_ctx le') st in
                                     ctx_wrap (CtxStmts [c]) (ctx_wrap CtxOther (lexec_stmt' fuel (ll_with_ctx le' c) st))) body)).
    { intros le' body. apply Phi_iterM. intros st. cbv zeta. pctx; pctx; apply IH. }
    destruct s; cbn [lexec_stmt]; (apply Phi_bind; [apply Phi_lpoll|intros _]).
    - apply Phi_bind; [apply Phi_leval|intros x; apply Phi_lvar_add].
    - apply Phi_bind; [apply Phi_leval|intros x; apply Phi_lvar_add].
    - apply Phi_bind; [apply Phi_leval|intros x; apply Phi_lvar_set].
    - phi2. all: apply Phi_lvar_add.
    - apply Phi_bind; [apply Phi_leval|intros nv]. apply Phi_bind; [apply Phi_mapM; intros; apply Phi_lexec_attr|intros outs]. apply Phi_push_lstmt.
    - apply Phi_bind; [apply Phi_leval|intros a]. apply Phi_bind; [apply Phi_leval|intros b]. cbv zeta. apply Phi_push_lstmt.
    - apply Phi_bind; [apply Phi_leval|intros a]. apply Phi_bind; [apply Phi_leval|intros b].
      apply Phi_bind; [apply Phi_mapM; intros; apply Phi_lexec_attr|intros outs]. apply Phi_push_lstmt.
    - apply Phi_bind; [apply Phi_leager|intros sv]. apply Phi_bind; [apply Phi_lift, base_as_str|intros subject].
      destruct (arm_table regexes arms) as [rs|]; [|apply Phi_panic].
      apply Phi_lscan_loop. intros caps body. apply (Harm (ll_with_caps le caps) body).
    - apply Phi_bind; [|intros args; apply Phi_push_lstmt]. apply Phi_mapM. intros e. destruct e; try apply Phi_ret.
      all: apply Phi_bind; [apply Phi_leval|intros lv; apply Phi_ret].
    - apply Phi_lif_loop; [intros c; apply Phi_ltest_cond|]. intros body. apply (Hblock le body).
    - apply Phi_bind; [apply Phi_leager|intros lv]. apply Phi_bind; [apply Phi_lift, base_as_list|intros vals].
      apply Phi_bind; [apply Phi_lpush_frame|intros _]. apply Phi_bind; [|intros _; apply Phi_lpop_frame].
      apply Phi_iterM. intros v. apply Phi_bind; [apply Phi_lclear_frame|intros _].
      apply Phi_bind; [apply Phi_lunscoped_add|intros _]. apply (Hblock le body).
  Qed.

  Lemma Phi_lexec_stanza fuel st m : Phi (lexec_stanza t fl cfg glob regexes find call fuel st m).
  Proof.
    unfold lexec_stanza. apply Phi_bind; [apply Phi_lpoll|intros _]. apply Phi_bind; [apply Phi_lclear_frame|intros _].
    cbv zeta. destruct (nodes_for_capture m (st_full_file_idx st)); [apply Phi_panic|]. apply Phi_iterM. intros s. pctx; apply Phi_lexec_stmt.
  Qed.

  Theorem Phi_lexec_file fuel ms : Phi (lexec_file t fl cfg glob regexes find call fuel ms).
  Proof.
    unfold lexec_file. apply Phi_bind; [|intros _; apply Phi_evaluate_phase]. apply Phi_iterM. intros pm.
    destruct (nth_error (f_stanzas fl) (N.to_nat (fst pm))); [apply Phi_lexec_stanza|apply Phi_panic].
  Qed.
End Meta.
