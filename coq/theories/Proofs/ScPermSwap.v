(* Proofs/ScPermSwap.v — C08 WITH scoped variables, part 6: what one block of the fragment `sstmt` does, as a DELTA
   (fresh nodes, fresh thunks, deferred statements, scoped definitions), and
     block_shift2 : the same block started from another state (other sizes, other cells) succeeds/fails alike and
                    appends the same delta with graph ids and store locations shifted;
     same_size    : started from two states of equal sizes it appends the very same delta. *)
From TSG Require Import Model.Lazy Proofs.BaseFacts Proofs.Containers Proofs.MonadFacts Proofs.StrictMeta Proofs.LazyMeta Proofs.Cancel
  Proofs.SLForce Proofs.SLExpr Proofs.BlockPermRen Proofs.BlockPermSim Proofs.BlockPermDepth Proofs.BlockPermSwap Proofs.ScPermSound Proofs.ScPermSim.

Record delta2 := { e_nodes : list gnode; e_thunks : list thunk; e_edges : list lstmt; e_attrs : list lstmt; e_prints : list lstmt; e_defs : list sdef }.
Definition dren2 (rg rl : N -> N) (d : delta2) : delta2 :=
  {| e_nodes := e_nodes d; e_thunks := map (thren rg rl) (e_thunks d); e_edges := map (lsren rg rl) (e_edges d);
     e_attrs := map (lsren rg rl) (e_attrs d); e_prints := map (lsren rg rl) (e_prints d); e_defs := map (dfren rg rl) (e_defs d) |}.
Definition extends2 (s : lstate) (d : delta2) (s' : lstate) : Prop :=
  l_graph s' = l_graph s ++ e_nodes d /\ l_store s' = l_store s ++ e_thunks d /\
  l_edges s' = l_edges s ++ e_edges d /\ l_attrs s' = l_attrs s ++ e_attrs d /\ l_prints s' = l_prints s ++ e_prints d /\
  l_params s' = l_params s /\ l_scoped s' = addl (e_defs d) (l_scoped s) /\ l_prev s' = l_prev s /\ length (l_locals s') = length (l_locals s).

(* a delta created at sizes (gb, kb) *)
Definition delta_ok2 (eaok : amap -> Prop) (okfn : ident -> Prop) (n0 gb kb : N) (d : delta2) : Prop :=
  let D := fun i => i < n0 \/ (gb <= i /\ i < gb + N.of_nat (length (e_nodes d))) in
  let L := fun m l => kb <= l /\ l < m in
  let top := kb + N.of_nat (length (e_thunks d)) in
  Forall (fun nd => g_edges nd = [] /\ amap_plain (g_attrs nd)) (e_nodes d) /\
  (forall j th, nth_error (e_thunks d) j = Some th -> thall okfn D (L (kb + N.of_nat j)) th) /\
  Forall (fun st => is_estmt st /\ msall eaok okfn D (L top) st) (e_edges d) /\
  Forall (fun st => is_astmt st /\ msall eaok okfn D (L top) st) (e_attrs d) /\
  Forall (fun st => is_pstmt st /\ msall eaok okfn D (L top) st) (e_prints d) /\
  Forall (defall (L top)) (e_defs d).

Lemma extends2_det s d1 d2 s' : extends2 s d1 s' -> extends2 s d2 s' -> e_nodes d1 = e_nodes d2 /\ e_thunks d1 = e_thunks d2 /\ e_edges d1 = e_edges d2 /\ e_attrs d1 = e_attrs d2 /\ e_prints d1 = e_prints d2.
Proof.
  intros (A1 & A2 & A3 & A4 & A5 & _) (B1 & B2 & B3 & B4 & B5 & _). rewrite A1 in B1. rewrite A2 in B2. rewrite A3 in B3. rewrite A4 in B4. rewrite A5 in B5.
  apply app_inv_head in B1, B2, B3, B4, B5. auto.
Qed.
Lemma extends2_sizes s d s' : extends2 s d s' ->
  gn s' = gn s + N.of_nat (length (e_nodes d)) /\ sn s' = sn s + N.of_nat (length (e_thunks d)) /\ (one_frame s -> one_frame s') /\ (allunf (l_scoped s) -> allunf (l_scoped s')).
Proof.
  intros (Hg & Hs & _ & _ & _ & _ & Hc & _ & Hl). unfold gn, sn, one_frame. rewrite Hg, Hs, !app_length, Hl, Hc. split; [lia|]. split; [lia|]. split; [auto|]. apply allunf_addl.
Qed.

(* renamings that agree on the delta's domain rename it alike *)
Lemma thren_ext okfn (D L : N -> Prop) rg rg' rl rl' th : (forall i, D i -> rg i = rg' i) -> (forall i, L i -> rl i = rl' i) -> thall okfn D L th -> thren rg rl th = thren rg' rl' th.
Proof.
  intros HD HL. destruct th as [st dbg]. unfold thall, thren. cbn [th_state th_dbg]. intros H. f_equal. destruct st; cbn [tsren tsall] in *; [|reflexivity|].
  - f_equal. apply (lvren_ext okfn D L); assumption.
  - f_equal. apply (vren_ext D); assumption.
Qed.
Lemma map_ext_Forall {A B} (P : A -> Prop) (f g : A -> B) l : Forall P l -> (forall x, P x -> f x = g x) -> map f l = map g l.
Proof. intros H Hfg. apply map_ext_in. intros x Hx. rewrite Forall_forall in H. apply Hfg, H, Hx. Qed.
Lemma dren2_ext eaok okfn n0 gb kb rg rg' rl rl' d : delta_ok2 eaok okfn n0 gb kb d ->
  (forall i, (i < n0 \/ (gb <= i /\ i < gb + N.of_nat (length (e_nodes d)))) -> rg i = rg' i) ->
  (forall l, kb <= l /\ l < kb + N.of_nat (length (e_thunks d)) -> rl l = rl' l) -> dren2 rg rl d = dren2 rg' rl' d.
Proof.
  intros (_ & Ht & He & Ha & Hp & Hd) HD HL. unfold dren2. f_equal.
  - apply map_ext_in. intros th Hin. apply In_nth_error in Hin as [j Hj]. eapply thren_ext; [exact HD| |apply (Ht j th Hj)].
    intros l [H1 H2]. apply HL. assert (j < length (e_thunks d))%nat by (apply nth_error_Some; congruence). lia.
  - eapply map_ext_Forall; [exact He|]. intros st [_ Hst]. exact (msall_ext eaok okfn _ _ rg rg' rl rl' st HD HL Hst).
  - eapply map_ext_Forall; [exact Ha|]. intros st [_ Hst]. exact (msall_ext eaok okfn _ _ rg rg' rl rl' st HD HL Hst).
  - eapply map_ext_Forall; [exact Hp|]. intros st [_ Hst]. exact (msall_ext eaok okfn _ _ rg rg' rl rl' st HD HL Hst).
  - eapply map_ext_Forall; [exact Hd|]. intros df Hdf. exact (dfren_ext _ rg rg' rl rl' df HL Hdf).
Qed.
Lemma lsren_id st : lsren (fun i => i) (fun l => l) st = st.
Proof.
  assert (Hat : forall l, map (atren (fun i => i) (fun l => l)) l = l).
  { intros l. rewrite <- (map_id l) at 2. apply map_ext. intros [k lv]. unfold atren. cbn [fst snd]. rewrite lvren_idf. reflexivity. }
  destruct st; cbn [lsren]; rewrite ?lvren_idf, ?Hat; try reflexivity.
  f_equal. rewrite <- (map_id args) at 2. apply map_ext. intros [lv|]; cbn [option_map]; [rewrite lvren_idf|]; reflexivity.
Qed.
Lemma thren_id th : thren (fun i => i) (fun l => l) th = th.
Proof. destruct th as [st dbg]. unfold thren. cbn [th_state th_dbg]. f_equal. destruct st; cbn [tsren]; rewrite ?lvren_idf, ?vren_idf; reflexivity. Qed.
Lemma dfren_id d : dfren (fun i => i) (fun l => l) d = d.
Proof. destruct d as [name [[sc v] dbg]]. unfold dfren. cbn [fst snd]. rewrite !lvren_idf. reflexivity. Qed.
Lemma dren2_id d : dren2 (fun i => i) (fun l => l) d = d.
Proof.
  destruct d. unfold dren2. cbn [e_nodes e_thunks e_edges e_attrs e_prints e_defs]. f_equal.
  - rewrite <- (map_id e_thunks0) at 2. apply map_ext, thren_id.
  - rewrite <- (map_id e_edges0) at 2. apply map_ext, lsren_id.
  - rewrite <- (map_id e_attrs0) at 2. apply map_ext, lsren_id.
  - rewrite <- (map_id e_prints0) at 2. apply map_ext, lsren_id.
  - rewrite <- (map_id e_defs0) at 2. apply map_ext, dfren_id.
Qed.

Section Blocks2.
  Context {rx : Type}.
  Variables (t : tree) (fl : file) (cfg : config) (glob : globals) (regexes : list rx)
            (find : rx -> str -> option (list (option (N * N))))
            (call : ident -> graph -> list value -> res (value * graph)).
  Variable eaok : amap -> Prop.
  Variable okfn : ident -> Prop.
  Variable n0 : N.
  Hypothesis Hea : forall l : loc, eaok (match c_loc_attr cfg with Some k => [(k, VStr (loc_text l))] | None => [] end).
  Hypothesis Hcall : forall f, okfn f -> call_ok call f.
  Hypothesis Hglob : forall name v, globals_get glob name = Some v -> vall (fun i => i < n0) v.

  (* a block of the fragment *)
  Definition block_ok2 (st : stanza) (qm : qmatch) : Prop :=
    All (sstmt fl okfn qm) (st_stmts st) /\ Forall (fun sh => All (fattr okfn qm) (sh_attrs sh)) (f_shorthands fl).

  Notation run st qm fuel := (lexec_stanza t fl cfg glob regexes find call fuel st qm).

  Lemma R'_start B1 B2 : n0 <= gn B1 -> n0 <= gn B2 -> one_frame B1 -> one_frame B2 ->
    R' eaok okfn n0 (gn B1) (sn B1) (gn B2) (sn B2) (l_graph B1) (l_graph B2) (l_store B1) (l_store B2) (l_edges B1) (l_edges B2)
      (l_attrs B1) (l_attrs B2) (l_prints B1) (l_prints B2) (l_scoped B1) (l_scoped B2) (l_prev B1) (l_prev B2) (l_params B1) (l_params B2)
      (wlocals (varmap_clear (l_locals B1)) B1) (wlocals (varmap_clear (l_locals B2)) B2).
  Proof.
    intros H1 H2 F1 F2. split; [apply (R_start eaok okfn n0 B1 B2 H1 H2 F1 F2)|].
    cbn [wlocals l_edges l_attrs l_prints l_scoped]. split; [exists []; rewrite !app_nil_r; repeat split; constructor|].
    split; [exists []; rewrite !app_nil_r; repeat split; constructor|]. split; [exists []; rewrite !app_nil_r; repeat split; constructor|].
    exists []. repeat split. constructor.
  Qed.

  (* shift equivariance of one block, in terms of deltas *)
  Theorem block_shift2 st qm fuel B1 B2 p : block_ok2 st qm ->
    n0 <= gn B1 -> n0 <= gn B2 -> one_frame B1 -> one_frame B2 -> allunf (l_scoped B1) -> allunf (l_scoped B2) ->
    match run st qm fuel B1 p with
    | Ok (_, s1', p') =>
        exists d s2', run st qm fuel B2 p = Ok (tt, s2', p') /\ extends2 B1 d s1' /\
                      extends2 B2 (dren2 (shg (gn B1) (gn B2)) (shl (sn B1) (sn B2)) d) s2' /\ delta_ok2 eaok okfn n0 (gn B1) (sn B1) d
    | Err e => run st qm fuel B2 p = Err e
    | Panic x => run st qm fuel B2 p = Panic x
    | OutOfFuel => run st qm fuel B2 p = OutOfFuel
    end.
  Proof.
    intros [Hst Hsh] H1 H2 F1 F2 U1 U2. rewrite (run_cleared t fl cfg glob regexes find call st qm fuel B1 p), (run_cleared t fl cfg glob regexes find call st qm fuel B2 p).
    pose proof (bsim'_lexec_stanza eaok okfn n0 (gn B1) (sn B1) (gn B2) (sn B2) H1 H2 (l_graph B1) (l_graph B2) (l_store B1) (l_store B2) (l_edges B1) (l_edges B2)
      (l_attrs B1) (l_attrs B2) (l_prints B1) (l_prints B2) (l_scoped B1) (l_scoped B2) (l_prev B1) (l_prev B2) (l_params B1) (l_params B2)
      eq_refl eq_refl eq_refl eq_refl U1 U2 t fl cfg glob regexes find call Hcall Hglob Hea qm Hsh fuel st 0 0 Hst
      _ _ p (R'_start B1 B2 H1 H2 F1 F2) (N.le_0_l _) (N.le_0_l _)) as Hb.
    pose proof (keepD_lexec_stanza t fl cfg glob regexes find call fuel st qm (wlocals (varmap_clear (l_locals B1)) B1) p) as Hd1.
    pose proof (keepD_lexec_stanza t fl cfg glob regexes find call fuel st qm (wlocals (varmap_clear (l_locals B2)) B2) p) as Hd2.
    destruct (run st qm fuel (wlocals (varmap_clear (l_locals B1)) B1) p) as [[[u s1'] p']|e|x|]; try exact Hb.
    destruct Hb as ([] & s2' & E2 & HR & Hpa & Hg & Hs & _). specialize (Hd1 _ _ _ eq_refl). specialize (Hd2 _ _ _ E2).
    destruct HR as (((gs & Eg1 & Eg2 & Hpl) & (ts & Es1 & Es2 & Hac) & _ & _ & _ & _ & (pa & Epa1 & Epa2 & _) & _ & _ & Hpv1 & Hpv2) &
                    (es & Ee1 & Ee2 & Ke & He) & (as_ & Ea1 & Ea2 & Ka & Ha) & (ps & Ep1 & Ep2 & Kp & Hp) & (defs & Ec1 & Ec2 & Hdf)).
    exists {| e_nodes := gs; e_thunks := ts; e_edges := es; e_attrs := as_; e_prints := ps; e_defs := defs |}, s2'. split; [exact E2|].
    cbn [wlocals l_params l_locals] in Hpa, Hd1, Hd2.
    assert (Hpa0 : pa = []) by (rewrite Epa1 in Hpa; rewrite <- (app_nil_r (l_params B1)) in Hpa at 2; apply app_inv_head in Hpa; exact Hpa).
    assert (Hlen1 : length (varmap_clear (l_locals B1)) = length (l_locals B1)) by (destruct (l_locals B1); reflexivity).
    assert (Hlen2 : length (varmap_clear (l_locals B2)) = length (l_locals B2)) by (destruct (l_locals B2); reflexivity).
    split; [|split].
    - unfold extends2. cbn [e_nodes e_thunks e_edges e_attrs e_prints e_defs]. repeat split; try assumption; congruence.
    - unfold extends2, dren2. cbn [e_nodes e_thunks e_edges e_attrs e_prints e_defs]. subst pa. cbn [map] in Epa2. rewrite app_nil_r in Epa2.
      repeat split; try assumption; congruence.
    - unfold delta_ok2. cbn [e_nodes e_thunks e_edges e_attrs e_prints e_defs].
      assert (Egn : gn s1' = gn B1 + N.of_nat (length gs)) by (unfold gn; rewrite Eg1, app_length; lia).
      assert (Esn : sn s1' = sn B1 + N.of_nat (length ts)) by (unfold sn; rewrite Es1, app_length; lia).
      rewrite <- Egn, <- Esn. split; [exact Hpl|]. split; [exact Hac|].
      assert (Hzip : forall (K : lstmt -> Prop) (Q : lstmt -> Prop) l, Forall K l -> Forall Q l -> Forall (fun st => K st /\ Q st) l).
      { intros K Q l H1' H2'. rewrite Forall_forall in *. intros x Hx. split; auto. }
      split; [apply Hzip; assumption|]. split; [apply Hzip; assumption|]. split; [apply Hzip; assumption|exact Hdf].
  Qed.

  (* from two states of equal sizes: the very same delta *)
  Corollary same_size st qm fuel B1 B2 p : block_ok2 st qm ->
    n0 <= gn B1 -> gn B2 = gn B1 -> sn B2 = sn B1 -> one_frame B1 -> one_frame B2 -> allunf (l_scoped B1) -> allunf (l_scoped B2) ->
    match run st qm fuel B1 p with
    | Ok (_, s1', p') => exists d s2', run st qm fuel B2 p = Ok (tt, s2', p') /\ extends2 B1 d s1' /\ extends2 B2 d s2' /\ delta_ok2 eaok okfn n0 (gn B1) (sn B1) d
    | Err e => run st qm fuel B2 p = Err e
    | Panic x => run st qm fuel B2 p = Panic x
    | OutOfFuel => run st qm fuel B2 p = OutOfFuel
    end.
  Proof.
    intros Hok H1 Eg Es F1 F2 U1 U2. pose proof (block_shift2 st qm fuel B1 B2 p Hok H1 ltac:(lia) F1 F2 U1 U2) as H.
    destruct (run st qm fuel B1 p) as [[[u s1'] p']|e|x|]; try exact H. destruct H as (d & s2' & E2 & X1 & X2 & Od).
    exists d, s2'. split; [exact E2|]. split; [exact X1|]. split; [|exact Od]. rewrite Eg, Es in X2.
    rewrite (dren2_ext eaok okfn n0 (gn B1) (sn B1) _ (fun i => i) _ (fun l => l) d Od) in X2.
    - rewrite dren2_id in X2. exact X2.
    - intros i _. unfold shg. destruct (N.ltb_spec i (gn B1)); lia.
    - intros l [Hl _]. unfold shl. lia.
  Qed.
End Blocks2.
