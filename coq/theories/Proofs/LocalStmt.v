(* Proofs/LocalStmt.v — C06 locality, semantic half, part 5: the execution phase of the lazy interpreter keeps the
   invariant "every variable whose static bit is true is immutable and bound to a pure lazy value" (`locals_ok`),
   statement by statement, and never forces a scoped-variable cell. *)
From TSG Require Import Spec.PureLv Proofs.BaseFacts Proofs.MonadFacts Proofs.Containers Proofs.Checker Proofs.LocalCheck Proofs.LocalPos
  Proofs.LocalPure Proofs.LocalEval Proofs.LocalLeval Proofs.LocalHoare.

Lemma ho_pure {A} (phi : Prop) (P : SP) (m : M lstate A) Q : (phi -> ho P m Q) -> ho (fun st l => P st l /\ phi) m Q.
Proof. intros H ls p a ls' p' [HP Hphi] E. exact (H Hphi _ _ _ _ _ HP E). Qed.

Lemma block_env_cons G body : forall fr env, exists fr', block_env G (fr :: env) body = fr' :: env.
Proof.
  unfold block_env. induction body as [|s body IH]; intros fr env; cbn [fold_left]; [eauto|].
  assert (H : exists fr1, stmt_env G (fr :: env) s = fr1 :: env).
  { destruct s; cbn [stmt_env]; eauto; destruct v; cbn [bind_var lenv_bind]; eauto. }
  destruct H as [fr1 ->]. apply IH.
Qed.

Lemma ho_lpush_frame env : ho (SInv env) lpush_frame (fun _ => SInv ([] :: env)).
Proof.
  intros ls p a ls' p' HI E. unfold lpush_frame, bind, get_state, set_llocals, Lazy.upd, modify in E. inversion E; subst.
  cbn [l_store l_locals l_scoped]. split; [apply sext_refl|]. split; [intros X; exact X|]. constructor; [constructor|exact HI].
Qed.
Lemma ho_lpop_frame env : ho (fun st l => exists fr, SInv (fr :: env) st l) lpop_frame (fun _ => SInv env).
Proof.
  intros ls p a ls' p' [fr HI] E. unfold lpop_frame, bind, get_state in E. unfold SInv in HI.
  destruct (l_locals ls) as [|fr' up] eqn:El; [discriminate|]. unfold set_llocals, Lazy.upd, modify in E. inversion E; subst.
  cbn [l_store l_locals l_scoped]. split; [apply sext_refl|]. split; [intros X; exact X|]. inversion HI; subst. assumption.
Qed.
Lemma ho_lclear_frame env : ho (fun st l => exists fr, SInv (fr :: env) st l) lclear_frame (fun _ => SInv ([] :: env)).
Proof.
  intros ls p a ls' p' [fr HI] E. unfold lclear_frame, bind, get_state, set_llocals, Lazy.upd, modify in E. inversion E; subst.
  cbn [l_store l_locals l_scoped]. split; [apply sext_refl|]. split; [intros X; exact X|]. unfold SInv in *.
  inversion HI; subst. cbn [varmap_clear]. constructor; [constructor|assumption].
Qed.

Section Stmts.
  Context {rx : Type}.
  Variable t : tree.
  Variable fl : file.
  Variable cfg : config.
  Variable glob : globals.
  Variable regexes : list rx.
  Variable find : rx -> str -> option (list (option (N * N))).
  Variable call : ident -> graph -> list value -> res (value * graph).
  Variable G : ident -> bool.
  Hypothesis Hglob : forall x, G x = true -> exists v, globals_get glob x = Some v.
  Hypothesis Hplain : shorthands_plain fl = true.
  Notation leval' := (leval t fl glob call).
  Notation lexec_attr' := (lexec_attr t fl glob call).
  Notation lexec_stmt' := (lexec_stmt t fl cfg glob regexes find call).
  Notation SInv := (SInv).

  Lemma sh_attr_eok name sh a env : find_shorthand name (f_shorthands fl) = Some sh -> In a (sh_attrs sh) -> attr_eok G env a = true.
  Proof.
    intros Hf Ha. apply find_shorthand_In' in Hf. unfold shorthands_plain in Hplain. rewrite forallb_forall in Hplain.
    specialize (Hplain _ Hf). rewrite forallb_forall in Hplain. specialize (Hplain _ Ha). destruct a as [n e]. cbn [attr_eok].
    apply no_comp_eok. exact Hplain.
  Qed.

  (* attributes, through shorthands *)
  Lemma ho_lexec_attr : forall fuel le a env l0, attr_eok G env a = true ->
    ho (Inv env l0) (lexec_attr' fuel le a) (fun _ => Inv env l0).
  Proof.
    induction fuel as [|fuel IH]; intros le a env l0 Ha; [apply ho_oof|].
    destruct a as [name value]. cbn [attr_eok] in Ha. cbn [lexec_attr].
    eapply ho_bind; [apply ho_poll|]. intros u. cbv beta.
    eapply ho_bind.
    { eapply ho_conseq; [intros st l H; exact H| |apply ho_of_tr, (leval_ok t fl glob call G Hglob fuel le value env l0 Ha)].
      intros lv st l [H _]. exact H. }
    intros v. cbv beta. destruct (find_shorthand name (f_shorthands fl)) as [sh|] eqn:Ef; [|apply ho_ret; auto].
    apply ho_get. intros s. cbv zeta.
    eapply ho_conseq; [| |apply (ho_pure (l_locals s = l0) (fun st _ => locals_ok st env l0))].
    { intros st l [[H1 H2] [H3 H4]]. split; [exact H1|congruence]. }
    { intros a st l H. exact H. }
    intros ->.
    eapply ho_bind; [apply (ho_set_llocals (fun st => locals_ok st env l0))|]. intros u1. cbv beta.
    set (env' := [[(sh_var sh, false)]] : lenv).
    eapply ho_bind.
    { eapply ho_conseq; [| |apply (ho_frame (fun st => locals_ok st env l0)); [apply stable_locals_ok|
                               apply (ho_lunscoped_add glob le (sh_var sh) v false false [[]])]].
      - intros st l [H ->]. split; [split; [constructor; constructor|intros X; discriminate]|exact H].
      - intros a st l H. exact H. }
    intros u2. cbv beta. cbn [lenv_bind app].
    eapply ho_bind.
    { apply (ho_mapM (fun st l => LocalHoare.SInv env' st l /\ locals_ok st env l0)). intros x Hx.
      eapply ho_conseq; [| |apply (ho_frame (fun st => locals_ok st env l0)); [apply stable_locals_ok|
                               apply (ho_exists (fun l1 => Inv env' l1))]].
      - intros st l [H1 H2]. split; [|exact H2]. exists l. split; [exact H1|reflexivity].
      - intros a st l H. exact H.
      - intros l1. eapply ho_conseq; [intros st l H; exact H| |apply (IH le x env' l1 (sh_attr_eok _ _ _ _ Ef Hx))].
        intros a st l [H ->]. exact H. }
    intros outs. cbv beta. eapply ho_bind.
    { eapply ho_conseq; [| |apply (ho_set_llocals (fun st => locals_ok st env l0))]; [|intros a st l H; exact H].
      intros st l [_ H]. exact H. }
    intros u3. apply ho_ret. auto.
  Qed.
  Lemma ho_lexec_attrs fuel le attrs env : forallb (attr_eok G env) attrs = true ->
    ho (SInv env) (Exec.mapM (lexec_attr' fuel le) attrs) (fun _ => SInv env).
  Proof.
    intros Ha. apply ho_mapM. intros a Hin. rewrite forallb_forall in Ha.
    eapply ho_conseq; [|intros x st l H; exact H|apply (ho_exists (fun l0 => Inv env l0))].
    - intros st l H. exists l. split; [exact H|reflexivity].
    - intros l0. eapply ho_conseq; [intros st l H; exact H| |apply (ho_lexec_attr fuel le a env l0 (Ha _ Hin))].
      intros x st l [H ->]. exact H.
  Qed.

  (* a block: the statements thread the static environment *)
  Lemma ho_block (run : stmt -> M lstate unit) :
    (forall s env0, stmt_eok G env0 s = true -> ho (SInv env0) (run s) (fun _ => SInv (stmt_env G env0 s))) ->
    forall body env0, block_eok G env0 body = true -> ho (SInv env0) (iterM run body) (fun _ => SInv (block_env G env0 body)).
  Proof.
    intros Hrun. unfold block_eok, block_env. induction body as [|s body IH]; intros env0 Hb; cbn [iterM fold_left].
    - apply ho_ret. auto.
    - cbn [seq_eok] in Hb. apply andb_true_iff in Hb. destruct Hb as [H1 H2].
      eapply ho_bind; [apply (Hrun s env0 H1)|]. intros u. cbv beta. apply IH. exact H2.
  Qed.
  Lemma ho_block_inner (run : stmt -> M lstate unit) fr env body :
    (forall s env0, stmt_eok G env0 s = true -> ho (SInv env0) (run s) (fun _ => SInv (stmt_env G env0 s))) ->
    block_eok G (fr :: env) body = true -> ho (SInv (fr :: env)) (iterM run body) (fun _ st l => exists fr', SInv (fr' :: env) st l).
  Proof.
    intros Hrun Hb. eapply ho_conseq; [intros st l H; exact H| |apply (ho_block run Hrun body (fr :: env) Hb)].
    intros a st l H. destruct (block_env_cons G body fr env) as [fr' E]. rewrite E in H. eauto.
  Qed.

  Lemma ho_lscan_loop (run_arm : list str -> list stmt -> M lstate unit) arms rs subject env :
    (forall caps rxi body al, In (rxi, body, al) arms ->
       ho (SInv ([] :: env)) (run_arm caps body) (fun _ st l => exists fr', SInv (fr' :: env) st l)) ->
    forall sfuel i, ho (SInv env) (lscan_loop find run_arm arms rs subject sfuel i) (fun _ => SInv env).
  Proof.
    intros Hrun. induction sfuel as [|sfuel IHs]; intros i; cbn [lscan_loop]; [apply ho_oof|].
    destruct (N.ltb i (N.of_nat (length subject))); [|apply ho_ret; auto]. cbv zeta.
    eapply ho_bind.
    { instantiate (1 := fun _ => SInv env). generalize (match arm_select find rs (skipn (N.to_nat i) subject) with ASelEmpty k => S (N.to_nat k) | _ => length rs end).
      intros n. induction n as [|n IHn]; cbn [lpoll_n]; [apply ho_ret; auto|]. eapply ho_bind; [apply ho_poll|intros u; exact IHn]. }
    intros u. cbv beta.
    destruct (arm_select find rs (skipn (N.to_nat i) subject)) as [|k|k caps]; [apply ho_ret; auto|apply ho_fail|].
    destruct (nth_error arms (N.to_nat k)) as [[[r body] l']|] eqn:En; [|apply ho_panic].
    eapply ho_bind; [apply ho_lpush_frame|]. intros u1. cbv beta.
    eapply ho_bind; [apply (Hrun _ r body l'); eapply nth_error_In; exact En|]. intros u2. cbv beta.
    eapply ho_bind; [apply ho_lpop_frame|]. intros u3. apply IHs.
  Qed.
  Lemma ho_lif_loop (test : cond -> M lstate bool) (run_body : list stmt -> M lstate unit) env arms :
    (forall conds body al c, In (conds, body, al) arms -> In c conds -> ho (SInv env) (test c) (fun _ => SInv env)) ->
    (forall conds body al, In (conds, body, al) arms ->
       ho (SInv ([] :: env)) (run_body body) (fun _ st l => exists fr', SInv (fr' :: env) st l)) ->
    ho (SInv env) (lif_loop test run_body arms) (fun _ => SInv env).
  Proof.
    induction arms as [|[[conds body] l'] arms IHa]; intros Ht Hr; cbn [lif_loop]; [apply ho_ret; auto|].
    eapply ho_bind; [apply ho_mapM; intros c Hc; apply (Ht conds body l' c); [left; reflexivity|exact Hc]|]. intros bs. cbv beta.
    destruct (forallb (fun b => b) bs).
    - eapply ho_bind; [apply ho_lpush_frame|]. intros u1. cbv beta.
      eapply ho_bind; [apply (Hr conds body l'); left; reflexivity|]. intros u2. apply ho_lpop_frame.
    - apply IHa; [intros c0 b0 a0 c Hin; apply (Ht c0 b0 a0 c); right; exact Hin|intros c0 b0 a0 Hin; apply (Hr c0 b0 a0); right; exact Hin].
  Qed.

  Lemma ho_ltest_cond fuel le c env : eager_ok G env (cond_expr c) = true ->
    ho (SInv env) (ltest_cond t fl glob call fuel le c) (fun _ => SInv env).
  Proof.
    destruct c; cbn [cond_expr ltest_cond]; intros He; (eapply ho_bind; [apply (ho_leager t fl glob call G Hglob fuel le e env He)|]);
      intros v; try (apply ho_ret; auto). apply ho_lift.
  Qed.

  Lemma ho_lexec_stmt : forall fuel le s env, stmt_eok G env s = true ->
    ho (SInv env) (lexec_stmt' fuel le s) (fun _ => SInv (stmt_env G env s)).
  Proof.
    induction fuel as [|fuel IH]; intros le s env Hs; [apply ho_oof|].
    assert (Hblock : forall le' body fr, block_eok G (fr :: env) body = true ->
      ho (SInv (fr :: env)) (iterM (fun st => lexec_stmt' fuel (ll_with_ctx le' (ctx_update (ll_ctx le') st)) st) body)
         (fun _ st lo => exists fr', SInv (fr' :: env) st lo)).
    { intros le' body fr Hb. apply ho_block_inner; [|exact Hb]. intros s0 env0 H0. apply IH. exact H0. }
    assert (Harm : forall le' body fr, block_eok G (fr :: env) body = true ->
      ho (SInv (fr :: env)) (iterM (fun st => let c := ctx_update (ll_ctx le') st in
                                     ctx_wrap (CtxStmts [c]) (ctx_wrap CtxOther (lexec_stmt' fuel (ll_with_ctx le' c) st))) body)
         (fun _ st lo => exists fr', SInv (fr' :: env) st lo)).
    { intros le' body fr Hb. apply ho_block_inner; [|exact Hb]. intros s0 env0 H0. cbv zeta. apply ho_ctx, ho_ctx, IH. exact H0. }
    destruct s; cbn [lexec_stmt]; cbn [stmt_eok] in Hs; cbn [stmt_env]; (eapply ho_bind; [apply ho_poll|intros u; cbv beta]).
    - apply andb_true_iff in Hs. destruct Hs as [He Hv].
      eapply ho_bind; [apply (ho_leval t fl glob call G Hglob fuel le e env He)|]. intros x. cbv beta.
      eapply ho_conseq; [| |apply (ho_lvar_add t fl glob call G Hglob fuel le v x false (eager_ok G env e) env Hv)]; [|intros a st lo H; exact H].
      intros st lo [H1 H2]. split; [exact H1|]. intros E. split; [reflexivity|apply H2; exact E].
    - apply andb_true_iff in Hs. destruct Hs as [He Hv].
      eapply ho_bind; [apply (ho_leval_inv t fl glob call G Hglob fuel le e env He)|]. intros x. cbv beta.
      eapply ho_conseq; [| |apply (ho_lvar_add t fl glob call G Hglob fuel le v x true false env Hv)]; [|intros a st lo H; exact H].
      intros st lo H1. split; [exact H1|]. intros E. discriminate.
    - apply andb_true_iff in Hs. destruct Hs as [He Hv].
      eapply ho_bind; [apply (ho_leval_inv t fl glob call G Hglob fuel le e env He)|]. intros x. cbv beta. apply ho_lvar_set.
    - eapply ho_bind; [apply ho_neutral, neutral_ladd_node|]. intros n. cbv beta.
      eapply ho_bind; [apply ho_neutral, neutral_lopt_node_attr|]. intros u1. cbv beta.
      eapply ho_bind; [apply ho_neutral, neutral_lopt_node_attr|]. intros u2. cbv beta.
      eapply ho_bind.
      { instantiate (1 := fun _ => SInv env). destruct (c_match_attr cfg); [|apply ho_ret; auto].
        eapply ho_bind; [apply ho_neutral, neutral_lfull_match_node|]. intros mn. cbv beta. apply ho_neutral, neutral_ladd_node_attr. }
      intros u3. cbv beta.
      eapply ho_conseq; [| |apply (ho_lvar_add t fl glob call G Hglob fuel le v (LValue (VGraph n)) false true env Hs)]; [|intros a st lo H; exact H].
      intros st lo H1. split; [exact H1|]. intros _. split; [reflexivity|apply pure_lv_value].
    - apply andb_true_iff in Hs. destruct Hs as [He Ha].
      eapply ho_bind; [apply (ho_leval_inv t fl glob call G Hglob fuel le node env He)|]. intros nv. cbv beta.
      eapply ho_bind; [apply (ho_lexec_attrs fuel le attrs env Ha)|]. intros outs. cbv beta. apply ho_neutral, neutral_push_lstmt.
    - apply andb_true_iff in Hs. destruct Hs as [Ha Hb].
      eapply ho_bind; [apply (ho_leval_inv t fl glob call G Hglob fuel le src env Ha)|]. intros a. cbv beta.
      eapply ho_bind; [apply (ho_leval_inv t fl glob call G Hglob fuel le snk env Hb)|]. intros b. cbv beta zeta. apply ho_neutral, neutral_push_lstmt.
    - apply andb_true_iff in Hs. destruct Hs as [Hab Hat]. apply andb_true_iff in Hab. destruct Hab as [Ha Hb].
      eapply ho_bind; [apply (ho_leval_inv t fl glob call G Hglob fuel le src env Ha)|]. intros a. cbv beta.
      eapply ho_bind; [apply (ho_leval_inv t fl glob call G Hglob fuel le snk env Hb)|]. intros b. cbv beta.
      eapply ho_bind; [apply (ho_lexec_attrs fuel le attrs env Hat)|]. intros outs. cbv beta. apply ho_neutral, neutral_push_lstmt.
    - apply andb_true_iff in Hs. destruct Hs as [Hv Harms].
      eapply ho_bind; [apply (ho_leager t fl glob call G Hglob fuel le value env Hv)|]. intros sv. cbv beta.
      eapply ho_bind; [apply ho_lift|]. intros subject. cbv beta.
      destruct (arm_table regexes arms) as [rs|]; [|apply ho_panic].
      apply ho_lscan_loop. intros caps rxi body al Hin. apply Harm.
      rewrite forallb_forall in Harms. exact (Harms _ Hin).
    - eapply ho_bind; [|intros args; apply ho_neutral, neutral_push_lstmt]. apply ho_mapM. intros e Hin.
      rewrite forallb_forall in Hs. specialize (Hs _ Hin).
      destruct e; try (apply ho_ret; auto); (eapply ho_bind; [apply (ho_leval_inv t fl glob call G Hglob fuel le _ env Hs)|intros lv; apply ho_ret; auto]).
    - apply ho_lif_loop.
      + intros conds body al c Hin Hc. apply ho_ltest_cond. rewrite forallb_forall in Hs. specialize (Hs _ Hin). cbv beta iota in Hs.
        apply andb_true_iff in Hs. destruct Hs as [H1 _]. rewrite forallb_forall in H1. exact (H1 _ Hc).
      + intros conds body al Hin. apply Hblock. rewrite forallb_forall in Hs. specialize (Hs _ Hin). cbv beta iota in Hs.
        apply andb_true_iff in Hs. apply Hs.
    - apply andb_true_iff in Hs. destruct Hs as [Hv Hbody].
      eapply ho_bind; [apply (ho_leager t fl glob call G Hglob fuel le value env Hv)|]. intros lv. cbv beta.
      eapply ho_bind; [apply ho_lift|]. intros vals. cbv beta.
      eapply ho_bind; [apply ho_lpush_frame|]. intros u1. cbv beta.
      eapply ho_bind; [|intros u2; apply ho_lpop_frame].
      eapply ho_conseq; [| |apply (ho_iterM (fun st lo => exists fr, SInv (fr :: env) st lo))]; [intros st lo H; exists []; exact H|intros a st lo H; exact H|].
      intros v _. eapply ho_bind; [apply ho_lclear_frame|]. intros u3. cbv beta.
      eapply ho_bind.
      { eapply ho_conseq; [| |apply (ho_lunscoped_add glob le var (LValue v) false true ([] :: env))]; [|intros a st lo H; exact H].
        intros st lo H. split; [exact H|]. intros _. split; [reflexivity|apply pure_lv_value]. }
      intros u4. cbv beta. cbn [lenv_bind app]. apply Hblock. exact Hbody.
  Qed.
End Stmts.
