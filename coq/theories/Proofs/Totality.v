(* Proofs/Totality.v — C05 (execution part): the scan loops always advance and terminate; the model's
   panic sites that correspond to the listed known findings are reachable exactly in those classes. *)
From TSG Require Import Model.Strict Model.Lazy Proofs.MonadFacts.

Section Select.
  Context {rx : Type}.
  Variable find : rx -> str -> option (list (option (N * N))).
  (* the regex engine returns well-formed spans: start <= end *)
  Hypothesis find_wf : forall r s caps a b, find r s = Some caps -> cap0 caps = (a, b) -> (a <= b)%N.

  Lemma arm_collect_nonempty arms : forall k suffix best a c,
    (forall a0 c0, best = Some (a0, c0) -> (fst (cap0 c0) < snd (cap0 c0))%N) ->
    arm_collect find arms k suffix best = ASelArm a c -> (fst (cap0 c) < snd (cap0 c))%N.
  Proof.
    induction arms as [|r arms IH]; intros k suffix best a c Hb H; cbn [arm_collect] in H.
    - destruct best as [[a0 c0]|]; [|discriminate]. inversion H; subst. eapply Hb; reflexivity.
    - destruct (find r suffix) as [caps|] eqn:E; [|eapply IH; eauto].
      destruct (cap0 caps) as [x y] eqn:Ec. destruct (N.eqb_spec x y) as [->|Hne]; [discriminate|].
      eapply IH; [|exact H]. intros a0 c0 Hbest.
      assert (Hxy : (x < y)%N) by (pose proof (find_wf _ _ _ _ _ E Ec); apply N.le_neq; auto).
      destruct best as [[k0 c1]|].
      + destruct (N.ltb x (fst (cap0 c1))); inversion Hbest; subst; [rewrite Ec; exact Hxy|eapply Hb; reflexivity].
      + inversion Hbest; subst. rewrite Ec. exact Hxy.
  Qed.
  Lemma arm_select_progress arms suffix a c : arm_select find arms suffix = ASelArm a c -> (0 < snd (cap0 c))%N.
  Proof.
    intros H. unfold arm_select in H. pose proof (arm_collect_nonempty arms 0 suffix None a c) as P.
    assert (Hlt : (fst (cap0 c) < snd (cap0 c))%N) by (apply P; [intros a0 c0 Hn; discriminate|exact H]).
    eapply N.le_lt_trans; [apply N.le_0_l|exact Hlt].
  Qed.
End Select.

(* strict: with fuel S |subject| the loop itself never runs out of fuel (the arm blocks may) *)
Lemma strict_scan_terminates_lemma {rx : Type} (find : rx -> str -> option (list (option (N * N)))) run_arm arms rs subject :
  (forall r s caps a b, find r s = Some caps -> cap0 caps = (a, b) -> (a <= b)%N) ->
  (forall caps body s p, run_arm caps body s p <> OutOfFuel) ->
  forall sfuel i s p, (length subject - N.to_nat i < sfuel)%nat -> scan_loop find run_arm arms rs subject sfuel i s p <> OutOfFuel.
Proof.
  intros Hwf Hrun. induction sfuel as [|sfuel IH]; intros i s p Hlt; [lia|]. cbn [scan_loop].
  destruct (N.ltb_spec i (N.of_nat (length subject))) as [Hi|Hi]; [|discriminate].
  intros H. apply bind_oof in H as [H|(u & s1 & p1 & _ & H)].
  - unfold poll in H. destruct (poll_step L_scan p) as [q c]. destruct c; discriminate.
  - cbv zeta in H. destruct (arm_select find rs (skipn (N.to_nat i) subject)) as [|k|k caps] eqn:Es; try discriminate.
    destruct (nth_error arms (N.to_nat k)) as [[[r body] l']|]; [|discriminate].
    pose proof (arm_select_progress find Hwf rs _ k caps Es) as Hp.
    apply bind_oof in H as [H|(u2 & s2 & p2 & _ & H)].
    { unfold push_frame in H. apply bind_oof in H as [H|(a & s3 & p3 & _ & H)]; discriminate. }
    apply bind_oof in H as [H|(u3 & s3 & p3 & _ & H)]; [eapply Hrun; eauto|].
    apply bind_oof in H as [H|(u4 & s4 & p4 & _ & H)].
    { unfold pop_frame in H. apply bind_oof in H as [H|(a & s5 & p5 & _ & H)]; [discriminate|]. destruct (s_locals a); discriminate. }
    revert H. apply IH. lia.
Qed.

(* the panic / divergence sites behind the listed known findings *)
Lemma missing_full_capture_panics {rx : Type} t fl cfg glob (regexes : list rx) find call fuel st m s p stmt rest :
  nodes_for_capture m (st_full_stanza_idx st) = [] -> st_stmts st = stmt :: rest ->
  exec_stanza t fl cfg glob regexes find call fuel st m s p = Panic P_missing_full_capture.
Proof.
  intros Hn Hs. unfold exec_stanza. rewrite Hs, Hn. cbn [iterM]. unfold bind, clear_frame, get_state, set_locals, modify, panic. reflexivity.
Qed.
Lemma unresolved_capture_panics t fl glob call fuel le name fidx sidx l s p :
  eval t fl glob call (S fuel) le (ECapture name QZero fidx sidx l) s p = Panic P_unreachable_quantifier.
Proof. reflexivity. Qed.

(* a shorthand that names itself never produces a result, whatever the fuel: the model diverges
   (the implementation overflows its stack) — known finding K2 *)
Lemma recursive_shorthand_diverges t (fl : file) glob call a x vloc l0 sloc :
  find_shorthand a (f_shorthands fl) = Some {| sh_name := a; sh_var := x; sh_vloc := vloc; sh_attrs := [Attr a (EUnscoped x l0)]; sh_loc := sloc |} ->
  forall fuel le tgt value s p r, exec_attr t fl glob call fuel le tgt (Attr a value) s p <> Ok r.
Proof.
  intros Hsh. induction fuel as [|fuel IH]; intros le tgt value s p [[b s'] p'] H; [discriminate|].
  cbn [exec_attr] in H. apply bind_ok in H as (u & s1 & p1 & _ & H). apply bind_ok in H as (v & s2 & p2 & _ & H).
  rewrite Hsh in H. apply bind_ok in H as (s3 & s4 & p4 & _ & H). cbv zeta in H.
  apply bind_ok in H as (u5 & s5 & p5 & _ & H). apply bind_ok in H as (u6 & s6 & p6 & _ & H).
  apply bind_ok in H as (u7 & s7 & p7 & H7 & _). cbn [sh_attrs iterM] in H7.
  apply bind_ok in H7 as (u8 & s8 & p8 & H8 & _). eapply IH; eauto.
Qed.
