(* Proofs/IdxMeq.v — pointwise equality of computations of the interpreter monad and its congruence lemmas (no functional
   extensionality in this development), used by the capture-index bridge (Proofs/IdxStrict.v, IdxLazy.v). *)
From TSG Require Import Model.Lazy Model.IdxBridge Proofs.BaseFacts.

Section Meq.
  Context {S : Type}.
  Definition meq {A} (m m' : M S A) : Prop := forall s p, m s p = m' s p.

  Lemma meq_refl {A} (m : M S A) : meq m m. Proof. intros s p. reflexivity. Qed.
  Lemma meq_sym {A} (m m' : M S A) : meq m m' -> meq m' m. Proof. intros H s p. symmetry. apply H. Qed.
  Lemma meq_trans {A} (a b c : M S A) : meq a b -> meq b c -> meq a c. Proof. intros H1 H2 s p. rewrite H1. apply H2. Qed.

  Lemma meq_bind {A B} (m m' : M S A) (f f' : A -> M S B) : meq m m' -> (forall a, meq (f a) (f' a)) -> meq (bind m f) (bind m' f').
  Proof. intros Hm Hf s p. unfold bind. rewrite Hm. destruct (m' s p) as [[[a s1] p1]|e|x|]; try reflexivity. apply Hf. Qed.
  Lemma meq_ctx_wrap {A} c (m m' : M S A) : meq m m' -> meq (ctx_wrap c m) (ctx_wrap c m').
  Proof. intros Hm s p. unfold ctx_wrap. rewrite Hm. reflexivity. Qed.

  (* lists: the function on the right runs on the image of the list *)
  Lemma meq_mapM {A A' B} (f : A -> M S B) (g : A' -> M S B) (h : A -> A') l :
    (forall x, In x l -> meq (f x) (g (h x))) -> meq (mapM f l) (mapM g (map h l)).
  Proof.
    induction l as [|x l IH]; intros H; cbn [mapM map]; [apply meq_refl|].
    apply meq_bind; [apply H; left; reflexivity|]. intros y. apply meq_bind; [|intros ys; apply meq_refl].
    apply IH. intros z Hz. apply H. right. exact Hz.
  Qed.
  Lemma meq_iterM {A A'} (f : A -> M S unit) (g : A' -> M S unit) (h : A -> A') l :
    (forall x, In x l -> meq (f x) (g (h x))) -> meq (iterM f l) (iterM g (map h l)).
  Proof.
    induction l as [|x l IH]; intros H; cbn [iterM map]; [apply meq_refl|].
    apply meq_bind; [apply H; left; reflexivity|]. intros _. apply IH. intros z Hz. apply H. right. exact Hz.
  Qed.
  (* same list on both sides *)
  Lemma meq_mapM_same {A B} (f g : A -> M S B) l : (forall x, In x l -> meq (f x) (g x)) -> meq (mapM f l) (mapM g l).
  Proof. intros H. rewrite <- (map_id l) at 2. apply meq_mapM. exact H. Qed.
  Lemma meq_iterM_same {A} (f g : A -> M S unit) l : (forall x, In x l -> meq (f x) (g x)) -> meq (iterM f l) (iterM g l).
  Proof. intros H. rewrite <- (map_id l) at 2. apply meq_iterM. exact H. Qed.
End Meq.

(* ---------------- facts about the normalization ---------------- *)
Lemma find_shorthand_norm name l : find_shorthand name (map norm_shorthand l) = option_map norm_shorthand (find_shorthand name l).
Proof.
  induction l as [|sh l IH]; cbn [map find_shorthand]; [reflexivity|]. rewrite IH.
  destruct (find_shorthand name l) as [s'|]; cbn [option_map]; [reflexivity|].
  cbn [norm_shorthand sh_name]. destruct (str_eqb name (sh_name sh)); reflexivity.
Qed.
Lemma find_shorthand_In' name l sh : find_shorthand name l = Some sh -> In sh l.
Proof.
  induction l as [|s l IH]; cbn [find_shorthand]; [discriminate|]. destruct (find_shorthand name l) as [s'|].
  - intros [= ->]. right. apply IH. reflexivity.
  - destruct (str_eqb name (sh_name s)); [intros [= ->]; left; reflexivity|discriminate].
Qed.

Lemma norm_expr_is_str e : match norm_expr e with EStr _ => True | _ => False end <-> match e with EStr _ => True | _ => False end.
Proof. destruct e; cbn [norm_expr]; tauto. Qed.

Lemma stmt_loc_norm s : stmt_loc (norm_stmt s) = stmt_loc s.
Proof. destruct s; reflexivity. Qed.
Lemma variable_loc_norm v : variable_loc (norm_var v) = variable_loc v.
Proof. destruct v; reflexivity. Qed.

Section ArmTable.
  Context {rx : Type} (regexes : list rx).
  Lemma arm_table_norm arms : arm_table regexes (map norm_arm arms) = arm_table regexes arms.
  Proof.
    induction arms as [|arm arms IH]; cbn [map arm_table]; [reflexivity|]. rewrite IH. reflexivity.
  Qed.
End ArmTable.

Lemma nth_error_norm_arms arms k : nth_error (map norm_arm arms) k = option_map norm_arm (nth_error arms k).
Proof. apply nth_error_map. Qed.

(* membership of capture lists *)
Lemma in_flat_map_intro {A B} (f : A -> list B) l x y : In x l -> In y (f x) -> In y (flat_map f l).
Proof. intros H1 H2. apply in_flat_map. exists x. split; assumption. Qed.
