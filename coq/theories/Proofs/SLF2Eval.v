(* Proofs/SLF2Eval.v — C02, failure direction with scoped variables, part 3: lazy values, scopes and deferred statements
   whose evaluation cannot succeed on any K-state; DOOMED lazy states; the evaluation phase of a doomed state is never Ok.
   Kinds of doom (w = the world at the failure point):
   * a doomed thunk / a doomed cell (a pair whose scope cannot evaluate to a syntax node) — in the invariant J;
   * `dupsig w`: the early definitions of some name contain the same node twice (strict: DuplicateVariable) — the final
     sweep forces every cell and a forced map has no duplicate key;
   * a deferred statement that cannot be evaluated (`bad_stmt`), or an attribute statement that conflicts with the graph of
     the strict run after replaying the early edge and attribute statements (`bad_stmt_g`), as in Proofs/SLFailEval.v. *)
From TSG Require Import Model.Lazy Proofs.BaseFacts Proofs.Containers Proofs.MonadFacts Proofs.StrictMeta Proofs.OrderFacts
  Proofs.SLGraph Proofs.SLForce Proofs.SLExpr Proofs.SLConv Proofs.SLStmt Proofs.StrictLazy Proofs.Extends Proofs.Scoped
  Proofs.SL2Force Proofs.SL2Expr Proofs.SL2Stmt Proofs.SLFailGraph Proofs.SLFailStore Proofs.SLFailEval Proofs.SLF2Store Proofs.SLF2Jok.
From Coq Require Import Permutation.

Lemma prev_insert_nres2 k dbg ls pl (Phi : option stmt_ctx -> lstate -> polls -> Prop) :
  (forall prev ls', l_store ls' = l_store ls -> l_scoped ls' = l_scoped ls -> l_graph ls' = l_graph ls -> Phi prev ls' pl) -> nres (prev_insert k dbg ls pl) Phi.
Proof. intros H. unfold prev_insert, bind, get_state, set_lprev, upd, modify, ret. cbn [nres]. apply H; reflexivity. Qed.

Lemma NoDup_app_l {A} (a b : list A) : NoDup (a ++ b) -> NoDup a.
Proof.
  induction a as [|x a IH]; intros H; [constructor|]. cbn [app] in H. inversion H as [|? ? Hx Hnd]; subst. constructor; [|apply IH, Hnd].
  intros Hin. apply Hx. apply in_or_app. left. exact Hin.
Qed.

Section Eval2.
  Variable call : ident -> graph -> list value -> res (value * graph).
  Hypothesis Hcall : call_graph_ext call.
  Variables (t : tree) (fl : file).
  Variable D : ident -> N -> Prop.
  Hypothesis Hanti : forall name n a, inherited fl name = true -> D name n -> D name a -> In a (anc t n) -> False.
  Notation den2 := (den2 call).
  Notation K := (K call fl D).
  Notation J := (J call t fl D).
  Notation bad_lv2 := (bad_lv2 call t fl D).
  Notation bad_scope := (bad_scope call t fl D).
  Notation eval_lv' := (eval_lv t fl call).
  Notation eval_lstmt' := (eval_lstmt t fl call).
  Notation jok2 := (jok2 call t fl D).
  Notation den_attrs2 := (den_attrs2 call).

  Section Fixed.
    Variable w : world.
    Hypothesis Hws : wstatic t fl w.

    Lemma jok2_nres {A} dt dc (m : M lstate A) s p : jok2 w dt dc m -> J w dt dc s -> nres (m s p) (fun _ s' _ => J w dt dc s').
    Proof. intros Hm HJ. destruct (m s p) as [[[a s'] p']|e|x|] eqn:E; cbn [nres]; auto. eapply Hm; eauto. Qed.
    Lemma kok_nres {A} (m : M lstate A) s p : jok2 w None None m -> K w s -> nres (m s p) (fun _ s' _ => K w s').
    Proof. intros Hm HK. eapply nres_mono; [apply (jok2_nres None None m s p Hm (K_J _ _ _ _ _ _ HK))|]. intros a s' p' H. apply H. Qed.

    Lemma den_J F dt dc lv v ls pl (Phi : value -> lstate -> polls -> Prop) : den2 w false lv v -> J w dt dc ls ->
      (forall ls' pl', J w dt dc ls' -> graph_ext (l_graph ls) (l_graph ls') -> Phi v ls' pl') -> nres (eval_lv' F lv ls pl) Phi.
    Proof.
      intros Hd HJ H. destruct (evJ call t fl D Hanti w dt dc Hws F) as (He & _ & _). pose proof (He lv ls pl HJ) as N.
      destruct (eval_lv' F lv ls pl) as [[[v' ls'] pl']|e|x|] eqn:E; cbn [nres] in *; auto. destruct N as (HJ' & _ & Hv). rewrite (Hv v Hd). apply H; [exact HJ'|].
      apply (fr_eval_lv t fl call Hcall eq (@eq_refl _) (@eq_trans _) F lv _ _ _ _ _ E).
    Qed.
    Lemma den_K F lv v ls pl (Phi : value -> lstate -> polls -> Prop) : den2 w false lv v -> K w ls ->
      (forall ls' pl', K w ls' -> Phi v ls' pl') -> nres (eval_lv' F lv ls pl) Phi.
    Proof. intros Hd HK H. apply (den_J F None None lv v ls pl Phi Hd (K_J _ _ _ _ _ _ HK)). intros ls' pl' HJ' _. apply H, HJ'. Qed.

    Lemma nok_bind {A B} (m : M lstate A) (f : A -> M lstate B) s p : nok (m s p) -> nok (bind m f s p).
    Proof. intros H. apply nres_bind. apply nok_nres. exact H. Qed.

    (* ---------------- lazy values whose evaluation cannot succeed ---------------- *)
    Lemma mapM_bad F pre vs x post : Forall2 (den2 w false) pre vs -> bad_lv2 w x ->
      forall ls pl, K w ls -> nok (mapM (eval_lv' F) (pre ++ x :: post) ls pl).
    Proof.
      intros HF Hx. induction HF as [|e v pre vs Hd _ IH]; intros ls pl HK; cbn [app mapM].
      - apply nok_bind. apply Hx; assumption.
      - apply nres_bind. apply (den_K F e v ls pl _ Hd HK). intros ls' pl' HK'. apply nok_bind. apply IH; assumption.
    Qed.
    Lemma bad_list pre vs x post : Forall2 (den2 w false) pre vs -> bad_lv2 w x -> bad_lv2 w (LList (pre ++ x :: post)).
    Proof.
      intros HF Hx F ls pl HK. destruct F as [|F]; [exact I|]. cbn [eval_lv]. apply nres_bind. unfold lpoll. apply nres_poll_any. intros pl0.
      apply nok_bind. apply (mapM_bad F pre vs x post HF Hx); assumption.
    Qed.
    Lemma bad_set pre vs x post : Forall2 (den2 w false) pre vs -> bad_lv2 w x -> bad_lv2 w (LSet (pre ++ x :: post)).
    Proof.
      intros HF Hx F ls pl HK. destruct F as [|F]; [exact I|]. cbn [eval_lv]. apply nres_bind. unfold lpoll. apply nres_poll_any. intros pl0.
      apply nok_bind. apply (mapM_bad F pre vs x post HF Hx); assumption.
    Qed.
    Lemma bad_call_arg f pre vs x post : Forall2 (den2 w false) pre vs -> bad_lv2 w x -> bad_lv2 w (LCall f (pre ++ x :: post)).
    Proof.
      intros HF Hx F ls pl HK. destruct F as [|F]; [exact I|]. cbn [eval_lv]. apply nres_bind. unfold lpoll. apply nres_poll_any. intros pl0.
      apply nok_bind. clear pl. revert ls pl0 HK. induction HF as [|e v pre vs Hd _ IH]; intros ls pl HK; cbn [app iterM].
      - apply nok_bind. apply nok_bind. apply Hx; assumption.
      - apply nres_bind. apply nres_bind. apply (den_K F e v ls pl _ Hd HK). intros ls' pl' HK'.
        unfold lpush_param at 1. apply nres_get. unfold set_lparams, Lazy.upd. apply nres_modify. apply IH. exact HK'.
    Qed.
    (* a call that fails (or panics, or runs out of fuel) on every graph *)
    Lemma bad_call_fail f args vs : Forall2 (den2 w false) args vs ->
      (forall g, match call f g vs with Ok _ => False | _ => True end) -> bad_lv2 w (LCall f args).
    Proof.
      intros HF Hc F ls pl HK. destruct F as [|F]; [exact I|]. cbn [eval_lv]. apply nres_bind. unfold lpoll. apply nres_poll_any. intros pl0.
      destruct (evJ call t fl D Hanti w None None Hws F) as (He & _ & _).
      apply nres_bind. eapply nres_mono; [apply (n_push_args call t fl D w None None _ He args ls pl0 (K_J _ _ _ _ _ _ HK))|].
      intros _ ls1 pl1 (HJ1 & vs' & Hp1 & Hl1 & Hd1). rewrite (Hd1 vs HF) in *. clear Hd1.
      apply nres_bind. unfold ldrain_params. apply nres_get. rewrite Hp1, app_length, Hl1.
      destruct (Nat.ltb_spec (length (l_params ls) + length args) (length args)) as [Hlt|_]; [exfalso; lia|].
      replace (length (l_params ls) + length args - length args)%nat with (length (l_params ls)) by lia.
      rewrite firstn_app, firstn_all, Nat.sub_diag, firstn_O, app_nil_r, skipn_app, skipn_all, Nat.sub_diag, skipn_O. cbn [app].
      apply nres_bind. unfold set_lparams, Lazy.upd. apply nres_modify. apply nres_ret.
      unfold lcall_function. apply nres_get. cbn [l_graph]. specialize (Hc (l_graph ls1)).
      destruct (call f (l_graph ls1) vs) as [[v g']|e|x|]; [contradiction|exact I|exact I|exact I].
    Qed.

    (* scopes *)
    Lemma bad_scope_lv slv : bad_lv2 w slv -> bad_scope w slv.
    Proof. intros H F ls pl HK. unfold evs. apply nok_bind. apply H; assumption. Qed.
    Lemma bad_scope_type slv v : den2 w false slv v -> (forall n, v <> VSyn n) -> bad_scope w slv.
    Proof.
      intros Hd Hv F ls pl HK. unfold evs. apply nres_bind. apply (den_K F slv v ls pl _ Hd HK). intros ls' pl' _.
      apply nres_lift. intros n Hn. apply as_syn_ok in Hn. eapply Hv; eauto.
    Qed.
    (* a scoped read whose scope cannot evaluate to a syntax node *)
    Lemma bad_scoped_read sv name : bad_scope w sv -> bad_lv2 w (LScoped sv name).
    Proof.
      intros H F ls pl HK. destruct F as [|F]; [exact I|]. cbn [eval_lv]. apply nres_bind. unfold lpoll. apply nres_poll_any. intros pl0.
      apply nok_bind. apply nres_ctx. apply (H F ls pl0 HK).
    Qed.

    (* the endpoint of an edge / the node of an attribute statement does not evaluate to a graph node *)
    Definition bad_end (lv : lvalue) : Prop := forall F ls pl, K w ls -> nok (eval_as_gnode t fl call F lv ls pl).
    Lemma bad_end_lv lv : bad_lv2 w lv -> bad_end lv.
    Proof. intros H F ls pl HK. unfold eval_as_gnode. apply nok_bind. apply H; assumption. Qed.
    Lemma bad_end_type lv v : den2 w false lv v -> (forall n, v <> VGraph n) -> bad_end lv.
    Proof.
      intros Hd Hv F ls pl HK. unfold eval_as_gnode. apply nres_bind. apply (den_K F lv v ls pl _ Hd HK). intros ls' pl' _.
      apply nres_lift. intros n Hn. destruct v; cbn in Hn; try discriminate. eapply Hv; reflexivity.
    Qed.

    Definition bad_stmt (st : lstmt) : Prop := forall F ls pl, K w ls -> nok (eval_lstmt' F st ls pl).
    Definition bad_stmt_g (G : graph) (st : lstmt) : Prop :=
      forall F ls pl, K w ls -> graph_ext G (l_graph ls) -> nok (eval_lstmt' F st ls pl).

    Notation kok := (jok2 w None None).
    Lemma bad_stmt_node_end n attrs dbg : bad_end n -> bad_stmt (LSAttrNode n attrs dbg).
    Proof.
      intros Hn F ls pl HK. unfold eval_lstmt. apply nres_bind. unfold lpoll. apply nres_poll_any. intros pl0.
      apply nres_ctx. apply nok_bind. apply nres_ctx. apply Hn; assumption.
    Qed.
    Lemma bad_stmt_node_attr n attrs dbg k lv : In (k, lv) attrs -> bad_lv2 w lv -> bad_stmt (LSAttrNode n attrs dbg).
    Proof.
      intros Hin Hlv F ls pl HK. unfold eval_lstmt. apply nres_bind. unfold lpoll. apply nres_poll_any. intros pl0.
      apply nres_ctx. apply nres_bind. apply nres_ctx. eapply nres_mono; [apply (kok_nres _ ls pl0 (jk_eval_as_gnode call t fl D Hanti w None None Hws F n) HK)|].
      intros x ls1 pl1 HK1. apply (nok_iter (fun s _ => K w s) _ attrs (k, lv) Hin); [| |exact HK1].
      - intros a s p HI. apply kok_nres; [|exact HI]. apply jk_bind; [apply jk_eval_lv; assumption|intros v]. apply jk_bind; [apply jk_prev_insert|intros prev]. apply jk_lattr_node_add.
      - intros s p HK2. cbn [fst snd]. apply nok_bind. apply Hlv; assumption.
    Qed.
    Lemma bad_stmt_edge_src a b ea dbg : bad_end a -> bad_stmt (LSEdge a b ea dbg).
    Proof.
      intros Hn F ls pl HK. unfold eval_lstmt. apply nres_bind. unfold lpoll. apply nres_poll_any. intros pl0.
      apply nres_ctx. apply nok_bind. apply nres_ctx. apply Hn; assumption.
    Qed.
    Lemma bad_stmt_edge_snk a b ea dbg : bad_end b -> bad_stmt (LSEdge a b ea dbg).
    Proof.
      intros Hn F ls pl HK. unfold eval_lstmt. apply nres_bind. unfold lpoll. apply nres_poll_any. intros pl0.
      apply nres_ctx. apply nres_bind. apply nres_ctx. eapply nres_mono; [apply (kok_nres _ ls pl0 (jk_eval_as_gnode call t fl D Hanti w None None Hws F a) HK)|].
      intros x ls1 pl1 HK1. apply nok_bind. apply nres_ctx. apply Hn; assumption.
    Qed.
    Lemma bad_stmt_aedge_src a b attrs dbg : bad_end a -> bad_stmt (LSAttrEdge a b attrs dbg).
    Proof.
      intros Hn F ls pl HK. unfold eval_lstmt. apply nres_bind. unfold lpoll. apply nres_poll_any. intros pl0.
      apply nres_ctx. apply nok_bind. apply nres_ctx. apply Hn; assumption.
    Qed.
    Lemma bad_stmt_aedge_snk a b attrs dbg : bad_end b -> bad_stmt (LSAttrEdge a b attrs dbg).
    Proof.
      intros Hn F ls pl HK. unfold eval_lstmt. apply nres_bind. unfold lpoll. apply nres_poll_any. intros pl0.
      apply nres_ctx. apply nres_bind. apply nres_ctx. eapply nres_mono; [apply (kok_nres _ ls pl0 (jk_eval_as_gnode call t fl D Hanti w None None Hws F a) HK)|].
      intros x ls1 pl1 HK1. apply nok_bind. apply nres_ctx. apply Hn; assumption.
    Qed.
    Lemma bad_stmt_aedge_attr a b attrs dbg k lv : In (k, lv) attrs -> bad_lv2 w lv -> bad_stmt (LSAttrEdge a b attrs dbg).
    Proof.
      intros Hin Hlv F ls pl HK. unfold eval_lstmt. apply nres_bind. unfold lpoll. apply nres_poll_any. intros pl0.
      apply nres_ctx. apply nres_bind. apply nres_ctx. eapply nres_mono; [apply (kok_nres _ ls pl0 (jk_eval_as_gnode call t fl D Hanti w None None Hws F a) HK)|].
      intros x ls1 pl1 HK1. apply nres_bind. apply nres_ctx. eapply nres_mono; [apply (kok_nres _ ls1 pl1 (jk_eval_as_gnode call t fl D Hanti w None None Hws F b) HK1)|].
      intros y ls2 pl2 HK2. apply (nok_iter (fun s _ => K w s) _ attrs (k, lv) Hin); [| |exact HK2].
      - intros ak s p HI. apply kok_nres; [|exact HI]. apply jk_bind; [apply jk_eval_lv; assumption|intros v]. apply jk_bind; [apply jk_ledge_exists|intros ex].
        destruct ex; [|apply jk_fail]. apply jk_bind; [apply jk_prev_insert|intros prev]. apply jk_lattr_edge_add.
      - intros s p HK3. cbn [fst snd]. apply nok_bind. apply Hlv; assumption.
    Qed.
    Lemma bad_stmt_print args dbg lv : In (Some lv) args -> bad_lv2 w lv -> bad_stmt (LSPrint args dbg).
    Proof.
      intros Hin Hlv F ls pl HK. unfold eval_lstmt. apply nres_bind. unfold lpoll. apply nres_poll_any. intros pl0.
      apply nres_ctx. apply (nok_iter (fun s _ => K w s) _ args (Some lv) Hin); [| |exact HK].
      - intros a s p HI. apply kok_nres; [|exact HI]. destruct a as [lv0|]; [|apply jk_ret]. apply jk_bind; [apply jk_eval_lv; assumption|intros v; apply jk_ret].
      - intros s p HK3. apply nok_bind. apply Hlv; assumption.
    Qed.

    (* ---------------- replaying the early statements on a graph that extends the strict one ---------------- *)
    Definition Inv2 (dt : option (nat * lvalue)) (dc : option (ident * lvalue)) (G : graph) (s : lstate) : Prop :=
      J w dt dc s /\ graph_ext G (l_graph s).

    Lemma den_inv2 F dt dc G lv v ls pl (Phi : value -> lstate -> polls -> Prop) : den2 w false lv v -> Inv2 dt dc G ls ->
      (forall ls' pl', Inv2 dt dc G ls' -> Phi v ls' pl') -> nres (eval_lv' F lv ls pl) Phi.
    Proof.
      intros Hd (HJ & Hg) H. apply (den_J F dt dc lv v ls pl Phi Hd HJ). intros ls' pl' HJ' Hx. apply H. split; [exact HJ'|eapply graph_ext_trans; eauto].
    Qed.
    Lemma gnode_inv2 F dt dc G lv x ls pl (Phi : N -> lstate -> polls -> Prop) : den2 w false lv (VGraph x) -> Inv2 dt dc G ls ->
      (forall ls' pl', Inv2 dt dc G ls' -> Phi x ls' pl') -> nres (eval_as_gnode t fl call F lv ls pl) Phi.
    Proof.
      intros Hd HI H. unfold eval_as_gnode. apply nres_bind. apply (den_inv2 F dt dc G lv _ ls pl _ Hd HI). intros ls' pl' HI'.
      apply nres_lift. intros n [= <-]. apply H; assumption.
    Qed.
    Lemma Inv2_same dt dc G ls ls' : l_store ls' = l_store ls -> l_scoped ls' = l_scoped ls -> l_graph ls' = l_graph ls -> Inv2 dt dc G ls -> Inv2 dt dc G ls'.
    Proof. intros E1 E2 E3 [HJ Hg]. split; [eapply J_same; eauto|rewrite E3; exact Hg]. Qed.

    Lemma node_attrs_both F dt dc x dbg : forall attrs kvs G G' ls pl, den_attrs2 w attrs kvs ->
      apply_attrs (map (mk (TNode x)) kvs) G = Some G' -> Inv2 dt dc G ls ->
      nres (iterM (fun a : ident * lvalue => v <- eval_lv' F (snd a) ;; prev <- prev_insert (KNode x (fst a)) dbg ;; lattr_node_add x (fst a) v prev dbg) attrs ls pl)
           (fun _ ls' _ => Inv2 dt dc G' ls').
    Proof.
      intros attrs kvs G G' ls pl HF. revert G ls pl. induction HF as [|[k lv] [k' v] attrs kvs [Hk Hd] _ IH]; intros G ls pl Hg HI; cbn [iterM map ofold] in *.
      - inversion Hg; subst. apply nres_ret. exact HI.
      - cbn [fst snd] in *. subst k'. destruct (apply_attr (mk (TNode x) (k, v)) G) as [Gm|] eqn:E; [|discriminate]. apply nres_bind.
        apply nres_bind. apply (den_inv2 F dt dc G lv v ls pl _ Hd HI). intros ls1 pl1 HI1.
        apply nres_bind. apply prev_insert_nres2. intros prev ls2 Es Ec Eg. pose proof (Inv2_same dt dc G ls1 ls2 Es Ec Eg HI1) as (HJ2 & Hg2).
        unfold lattr_node_add. apply nres_get.
        destruct (gnode_at (l_graph ls2) x) as [nd|] eqn:En; [|exact I]. destruct (attrs_add (g_attrs nd) k v) as [m' [c|]] eqn:Ea; [exact I|].
        unfold set_lgraph, Lazy.upd. apply nres_modify. apply (IH Gm _ pl1 Hg). split; [eapply J_same; [| |exact HJ2]; reflexivity|]. cbn [l_graph].
        apply (apply_attr_ext_both (mk (TNode x) (k, v)) G (l_graph ls2)); [exact Hg2|exact E|]. cbn [mk apply_attr fst snd]. rewrite En, Ea. reflexivity.
    Qed.
    Lemma edge_attrs_both F dt dc x y dbg : forall attrs kvs G G' ls pl, den_attrs2 w attrs kvs ->
      apply_attrs (map (mk (TEdge x y)) kvs) G = Some G' -> Inv2 dt dc G ls ->
      nres (iterM (fun ak : ident * lvalue =>
                     v <- eval_lv' F (snd ak) ;; ex <- ledge_exists x y ;;
                     if ex then prev <- prev_insert (KEdge x y (fst ak)) dbg ;; lattr_edge_add x y (fst ak) v prev dbg else fail EUndefinedEdge) attrs ls pl)
           (fun _ ls' _ => Inv2 dt dc G' ls').
    Proof.
      intros attrs kvs G G' ls pl HF. revert G ls pl. induction HF as [|[k lv] [k' v] attrs kvs [Hk Hd] _ IH]; intros G ls pl Hg HI; cbn [iterM map ofold] in *.
      - inversion Hg; subst. apply nres_ret. exact HI.
      - cbn [fst snd] in *. subst k'. destruct (apply_attr (mk (TEdge x y) (k, v)) G) as [Gm|] eqn:E; [|discriminate]. apply nres_bind.
        apply nres_bind. apply (den_inv2 F dt dc G lv v ls pl _ Hd HI). intros ls1 pl1 HI1.
        apply nres_bind. unfold ledge_exists. apply nres_get. destruct (gnode_at (l_graph ls1) x) as [nd|] eqn:En; [|exact I]. apply nres_ret.
        destruct (edges_get y (g_edges nd)) as [m0|] eqn:Ee; [|exact I].
        apply nres_bind. apply prev_insert_nres2. intros prev ls2 Es Ec Eg. pose proof (Inv2_same dt dc G ls1 ls2 Es Ec Eg HI1) as (HJ2 & Hg2).
        unfold lattr_edge_add. apply nres_get. rewrite Eg, En, Ee.
        destruct (attrs_add m0 k v) as [m' [c|]] eqn:Ea; [exact I|].
        unfold set_lgraph, Lazy.upd. apply nres_modify. apply (IH Gm _ pl1 Hg). split; [eapply J_same; [| |exact HJ2]; reflexivity|]. cbn [l_graph].
        apply (apply_attr_ext_both (mk (TEdge x y) (k, v)) G (l_graph ls1)); [apply HI1|exact E|]. cbn [mk apply_attr fst snd]. rewrite En, Ee, Ea. reflexivity.
    Qed.

    (* the attribute that conflicts *)
    Lemma node_attr_conflict F dt dc x dbg key lv v post G ls pl : den2 w false lv v -> conflict (AN x key v) G -> Inv2 dt dc G ls ->
      nok (iterM (fun a : ident * lvalue => v <- eval_lv' F (snd a) ;; prev <- prev_insert (KNode x (fst a)) dbg ;; lattr_node_add x (fst a) v prev dbg) ((key, lv) :: post) ls pl).
    Proof.
      intros Hd Hc HI. cbn [iterM fst snd]. apply nres_bind. apply nres_bind. apply (den_inv2 F dt dc G lv v ls pl _ Hd HI). intros ls1 pl1 (HJ1 & Hg1).
      apply nres_bind. apply prev_insert_nres2. intros prev ls2 Es Ec Eg. unfold lattr_node_add. apply nres_get. rewrite Eg.
      destruct (conflict_ext _ _ _ Hg1 Hc) as (nd & old & En & Ek & Ev). rewrite En. unfold attrs_add. rewrite Ek, Ev. exact I.
    Qed.
    Lemma edge_attr_conflict F dt dc x y dbg key lv v post G ls pl : den2 w false lv v -> conflict (AE x y key v) G -> Inv2 dt dc G ls ->
      nok (iterM (fun ak : ident * lvalue =>
                     v <- eval_lv' F (snd ak) ;; ex <- ledge_exists x y ;;
                     if ex then prev <- prev_insert (KEdge x y (fst ak)) dbg ;; lattr_edge_add x y (fst ak) v prev dbg else fail EUndefinedEdge) ((key, lv) :: post) ls pl).
    Proof.
      intros Hd Hc HI. cbn [iterM fst snd]. apply nres_bind. apply nres_bind. apply (den_inv2 F dt dc G lv v ls pl _ Hd HI). intros ls1 pl1 (HJ1 & Hg1).
      destruct (conflict_ext _ _ _ Hg1 Hc) as (nd & m & old & En & Ee & Ek & Ev).
      apply nres_bind. unfold ledge_exists. apply nres_get. rewrite En. apply nres_ret. rewrite Ee.
      apply nres_bind. apply prev_insert_nres2. intros prev ls2 Es Ec Eg. unfold lattr_edge_add. apply nres_get. rewrite Eg, En, Ee.
      unfold attrs_add. rewrite Ek, Ev. exact I.
    Qed.

    Lemma K_inv2 G ls : K w ls -> graph_ext G (l_graph ls) -> Inv2 None None G ls.
    Proof. intros HK Hg. split; [apply K_J, HK|exact Hg]. Qed.

    (* statements that conflict with the graph G of the strict run *)
    Lemma bad_stmt_node_conflict G G' n x pre kvs key lv v post dbg :
      den2 w false n (VGraph x) -> den_attrs2 w pre kvs -> den2 w false lv v ->
      apply_attrs (map (mk (TNode x)) kvs) G = Some G' -> conflict (AN x key v) G' ->
      bad_stmt_g G (LSAttrNode n (pre ++ (key, lv) :: post) dbg).
    Proof.
      intros Hn Hpre Hlv Hg Hc F ls pl HK Hx. unfold eval_lstmt. apply nres_bind. unfold lpoll. apply nres_poll_any. intros pl0.
      apply nres_ctx. apply nres_bind. apply nres_ctx. apply (gnode_inv2 F None None G n x ls pl0 _ Hn (K_inv2 _ _ HK Hx)). intros ls1 pl1 HI1.
      eapply nres_eq; [apply iterM_app|]. apply nres_bind.
      eapply nres_mono; [apply (node_attrs_both F None None x dbg pre kvs G G' ls1 pl1 Hpre Hg HI1)|]. intros u ls2 pl2 HI2.
      apply (node_attr_conflict F None None x dbg key lv v post G' ls2 pl2 Hlv Hc HI2).
    Qed.
    Lemma bad_stmt_edge_conflict G G' a b x y pre kvs key lv v post dbg :
      den2 w false a (VGraph x) -> den2 w false b (VGraph y) -> den_attrs2 w pre kvs -> den2 w false lv v ->
      apply_attrs (map (mk (TEdge x y)) kvs) G = Some G' -> conflict (AE x y key v) G' ->
      bad_stmt_g G (LSAttrEdge a b (pre ++ (key, lv) :: post) dbg).
    Proof.
      intros Ha Hb0 Hpre Hlv Hg Hc F ls pl HK Hx. unfold eval_lstmt. apply nres_bind. unfold lpoll. apply nres_poll_any. intros pl0.
      apply nres_ctx. apply nres_bind. apply nres_ctx. apply (gnode_inv2 F None None G a x ls pl0 _ Ha (K_inv2 _ _ HK Hx)). intros ls1 pl1 HI1.
      apply nres_bind. apply nres_ctx. apply (gnode_inv2 F None None G b y ls1 pl1 _ Hb0 HI1). intros ls2 pl2 HI2.
      eapply nres_eq; [apply iterM_app|]. apply nres_bind.
      eapply nres_mono; [apply (edge_attrs_both F None None x y dbg pre kvs G G' ls2 pl2 Hpre Hg HI2)|]. intros u ls3 pl3 HI3.
      apply (edge_attr_conflict F None None x y dbg key lv v post G' ls3 pl3 Hlv Hc HI3).
    Qed.

    (* ---- the statements recorded before the failure point, replayed ---- *)
    Lemma eval_den_edge F dt dc G G' st e ls pl : den_edge2 call w st e -> apply_edge e G = Some G' -> Inv2 dt dc G ls ->
      nres (eval_lstmt' F st ls pl) (fun _ ls' _ => Inv2 dt dc G' ls').
    Proof.
      intros (a & b & dbg & -> & Ha & Hb0) He HI. destruct e as [x y]. cbn [fst snd] in *. unfold eval_lstmt.
      apply nres_bind. unfold lpoll. apply nres_poll_any. intros pl0. apply nres_ctx.
      apply nres_bind. apply nres_ctx. apply (gnode_inv2 F dt dc G a x ls pl0 _ Ha HI). intros ls1 pl1 HI1.
      apply nres_bind. apply nres_ctx. apply (gnode_inv2 F dt dc G b y ls1 pl1 _ Hb0 HI1). intros ls2 pl2 (HJ2 & Hg2).
      unfold ledge_add. apply nres_get. destruct (graph_add_edge (l_graph ls2) x y) as [[g1 isnew]|] eqn:E; [|exact I].
      assert (Hx : graph_ext G' g1).
      { apply (apply_edge_ext_both (x, y) G (l_graph ls2)); [exact Hg2|exact He|]. unfold apply_edge. cbn [fst snd]. rewrite E. reflexivity. }
      destruct isnew.
      - rewrite (edge_reset_id _ _ _ _ E). unfold set_lgraph, Lazy.upd. apply nres_modify. split; [eapply J_same; [| |exact HJ2]; reflexivity|exact Hx].
      - unfold set_lgraph, Lazy.upd. apply nres_modify. split; [eapply J_same; [| |exact HJ2]; reflexivity|exact Hx].
    Qed.
    Lemma eval_den_edges F dt dc : forall stmts eops G G' ls pl, Forall2 (den_edge2 call w) stmts eops -> apply_edges eops G = Some G' ->
      Inv2 dt dc G ls -> nres (iterM (eval_lstmt' F) stmts ls pl) (fun _ ls' _ => Inv2 dt dc G' ls').
    Proof.
      intros stmts eops G G' ls pl HF. revert G ls pl. induction HF as [|st e stmts eops Hd _ IH]; intros G ls pl Hg HI; cbn [iterM ofold] in *.
      - inversion Hg; subst. apply nres_ret. exact HI.
      - destruct (apply_edge e G) as [Gm|] eqn:E; [|discriminate]. apply nres_bind.
        eapply nres_mono; [apply (eval_den_edge F dt dc G Gm st e ls pl Hd E HI)|]. intros u ls1 pl1 HI1. apply (IH Gm ls1 pl1 Hg HI1).
    Qed.
    Lemma eval_den_astmt F dt dc G G' st ops ls pl : den_astmt2 call w st ops -> apply_attrs ops G = Some G' -> Inv2 dt dc G ls ->
      nres (eval_lstmt' F st ls pl) (fun _ ls' _ => Inv2 dt dc G' ls').
    Proof.
      intros Hd Hg HI. unfold eval_lstmt. apply nres_bind. unfold lpoll. apply nres_poll_any. intros pl0.
      destruct st as [n attrs dbg|a b ea dbg|a b attrs dbg|args dbg]; cbn [den_astmt2] in Hd; try contradiction.
      - destruct Hd as (x & kvs & Hn & Ha & ->). apply nres_ctx.
        apply nres_bind. apply nres_ctx. apply (gnode_inv2 F dt dc G n x ls pl0 _ Hn HI). intros ls1 pl1 HI1.
        apply (node_attrs_both F dt dc x dbg attrs kvs G G' ls1 pl1 Ha Hg HI1).
      - destruct Hd as (x & y & kvs & Hna & Hnb & Ha & ->). apply nres_ctx.
        apply nres_bind. apply nres_ctx. apply (gnode_inv2 F dt dc G a x ls pl0 _ Hna HI). intros ls1 pl1 HI1.
        apply nres_bind. apply nres_ctx. apply (gnode_inv2 F dt dc G b y ls1 pl1 _ Hnb HI1). intros ls2 pl2 HI2.
        apply (edge_attrs_both F dt dc x y dbg attrs kvs G G' ls2 pl2 Ha Hg HI2).
    Qed.
    Lemma eval_den_astmts F dt dc : forall stmts aopss G G' ls pl, Forall2 (den_astmt2 call w) stmts aopss -> apply_attrs (concat aopss) G = Some G' ->
      Inv2 dt dc G ls -> nres (iterM (eval_lstmt' F) stmts ls pl) (fun _ ls' _ => Inv2 dt dc G' ls').
    Proof.
      intros stmts aopss G G' ls pl HF. revert G ls pl. induction HF as [|st ops stmts aopss Hd _ IH]; intros G ls pl Hg HI; cbn [iterM concat] in *.
      - cbn [ofold] in Hg. inversion Hg; subst. apply nres_ret. exact HI.
      - apply ofold_app_inv in Hg. destruct Hg as (Gm & G1 & G2). apply nres_bind.
        eapply nres_mono; [apply (eval_den_astmt F dt dc G Gm st ops ls pl Hd G1 HI)|]. intros u ls1 pl1 HI1. apply (IH Gm ls1 pl1 G2 HI1).
    Qed.

    (* any deferred statement: the invariant is kept, the graph is only extended *)
    Lemma eval_any_stmt F dt dc G st ls pl : Inv2 dt dc G ls -> nres (eval_lstmt' F st ls pl) (fun _ ls' _ => Inv2 dt dc G ls').
    Proof.
      intros (HJ & Hx). destruct (eval_lstmt' F st ls pl) as [[[u ls'] pl']|e|x|] eqn:E; cbn [nres]; auto.
      split; [apply (jk_eval_lstmt call t fl D Hanti w dt dc Hws F st _ _ _ _ _ HJ E)|].
      destruct (fr_eval_lstmt t fl call Hcall eq (@eq_refl _) (@eq_trans _) F st _ _ _ _ _ E) as (Hg & _). eapply graph_ext_trans; eauto.
    Qed.

    (* ================= kinds of doom that mention the lists of deferred statements ================= *)
    Definition Kconf2 (ls : lstate) : Prop :=
      exists E_pre post_e A_pre st post_a eops aopss G0 g1 G,
        l_edges ls = E_pre ++ post_e /\ l_attrs ls = A_pre ++ st :: post_a /\
        Forall2 (den_edge2 call w) E_pre eops /\ Forall2 (den_astmt2 call w) A_pre aopss /\
        graph_ext G0 (l_graph ls) /\ apply_edges eops G0 = Some g1 /\ apply_attrs (concat aopss) g1 = Some G /\ bad_stmt_g G st.
    Definition Kstmt2 (ls : lstate) : Prop :=
      exists st, (In st (l_edges ls) \/ In st (l_attrs ls) \/ In st (l_prints ls)) /\ bad_stmt st.
    Definition dupsig : Prop := exists name, ~ NoDup (map fst (sig_for name (w_sig w))).
    Definition Kind2 (dt : option (nat * lvalue)) (dc : option (ident * lvalue)) (ls : lstate) : Prop :=
      dt <> None \/ dc <> None \/ dupsig \/ Kstmt2 ls \/ Kconf2 ls.

    Lemma Kind2_step dt dc ls ls' : Kind2 dt dc ls -> FrP (@prefix lstmt) ls ls' -> Kind2 dt dc ls'.
    Proof.
      intros HK (Hg & He & Ha & Hp). destruct HK as [Hd|[Hd|[Hd|[(st & Hin & Hbad)|HC]]]]; [left; exact Hd|right; left; exact Hd|right; right; left; exact Hd|right; right; right; left|right; right; right; right].
      - exists st. split; [|exact Hbad]. destruct Hin as [H|[H|H]]; [left|right; left|right; right]; eapply prefix_in; eauto.
      - destruct HC as (E_pre & post_e & A_pre & st & post_a & eops & aopss & G0 & g1 & G & H1 & H2 & H3 & H4 & H5 & H6 & H7 & H8).
        destruct He as [re Ee]. destruct Ha as [ra Ea]. exists E_pre, (post_e ++ re), A_pre, st, (post_a ++ ra), eops, aopss, G0, g1, G.
        split; [rewrite Ee, H1, app_assoc; reflexivity|]. split; [rewrite Ea, H2, <- app_assoc; reflexivity|].
        split; [exact H3|]. split; [exact H4|]. split; [eapply graph_ext_trans; eauto|]. auto.
    Qed.

    (* ---------------- the evaluation phase cannot succeed ---------------- *)
    Lemma stmts_J F dt dc l s p : J w dt dc s -> nres (iterM (eval_lstmt' F) l s p) (fun _ s' _ => J w dt dc s').
    Proof.
      intros HI. apply (nres_iter (fun s _ => J w dt dc s)); [|exact HI]. intros st _ s0 p0 HI0. apply jok2_nres; [apply jk_eval_lstmt; assumption|exact HI0].
    Qed.
    Lemma stmts_bad F dt dc l st s p : In st l -> bad_stmt st -> J w dt dc s -> nok (iterM (eval_lstmt' F) l s p).
    Proof.
      intros Hin Hbad HI. apply (nok_iter (fun s _ => J w dt dc s) _ l st Hin); [| |exact HI].
      - intros y s0 p0 HI0. apply jok2_nres; [apply jk_eval_lstmt; assumption|exact HI0].
      - intros s0 p0 HJ0. apply Hbad. apply HJ0.
    Qed.
    Lemma store_all_J F dt dc s p : J w dt dc s -> nres (store_evaluate_all t fl call F s p) (fun _ s' _ => J w dt dc s').
    Proof.
      intros HI. unfold store_evaluate_all. apply nres_get. apply (nres_iter (fun s _ => J w dt dc s)); [|exact HI].
      intros i _ s0 p0 HI0. apply jok2_nres; [|exact HI0]. apply jk_bind; [apply jk_force_thunk; assumption|intros v; apply jk_ret].
    Qed.

    Lemma doomed_thunk_forced F dc loc lv s p : J w (Some (loc, lv)) dc s -> nok (force_thunk t fl call F (N.of_nat loc) s p).
    Proof.
      intros ((Hs & Hc) & (Hk & Hbad & dbg & Hn) & _). destruct F as [|F]; [exact I|]. cbn [force_thunk]. apply nres_get. rewrite Nnat.Nat2N.id, Hn.
      apply nres_ctx. cbn [th_state th_dbg]. apply nres_bind. rewrite store_set_state_eq. cbn [nres]. apply nok_bind.
      apply Hbad. split; [cbn [set_store l_store]; apply storeK_forcing, Hs|exact Hc].
    Qed.

    Lemma sweep_names (cells : list (ident * scoped_values)) name : alist_get name cells <> None -> In name (map fst (sort_alist cells)).
    Proof.
      intros H. apply alist_get_in_keys in H. eapply Permutation_in; [|exact H]. apply Permutation_map. apply sort_alist_perm.
    Qed.
    Lemma dupsig_cell name ls : ~ NoDup (map fst (sig_for name (w_sig w))) -> K w ls -> alist_get name (l_scoped ls) <> None.
    Proof. intros Hd (_ & Hc) E. specialize (Hc name). rewrite E in Hc. cbn [cellK] in Hc. rewrite Hc in Hd. apply Hd. constructor. Qed.
    Lemma dupsig_map name m : ~ NoDup (map fst (sig_for name (w_sig w))) -> mapK fl D w name m -> False.
    Proof.
      intros Hd ((extra & ->) & Hnd & _). apply Hd. rewrite map_app, forced_map_keys in Hnd. apply NoDup_app_l in Hnd. exact Hnd.
    Qed.

    Theorem evaluate_kind F dt dc ls pl : J w dt dc ls -> Kind2 dt dc ls -> nok (evaluate_phase t fl call F ls pl).
    Proof.
      intros HJ HK. unfold evaluate_phase. apply nres_get.
      assert (Hsweep : forall name, (forall s, J w dt dc s -> alist_get name (l_scoped s) <> None) ->
                (forall s p, J w dt dc s -> nok (sweep_step call t fl F name s p)) ->
                nok ((iterM (eval_lstmt' F) (l_edges ls) ;;; iterM (eval_lstmt' F) (l_attrs ls) ;;; iterM (eval_lstmt' F) (l_prints ls) ;;;
                      store_evaluate_all t fl call F ;;; scoped_evaluate_all t fl call F) ls pl)).
      { intros name Hcell Hstep.
        apply nres_bind. eapply nres_mono; [apply (stmts_J F dt dc (l_edges ls) ls pl HJ)|]. intros u1 ls1 pl1 HI1.
        apply nres_bind. eapply nres_mono; [apply (stmts_J F dt dc (l_attrs ls) ls1 pl1 HI1)|]. intros u2 ls2 pl2 HI2.
        apply nres_bind. eapply nres_mono; [apply (stmts_J F dt dc (l_prints ls) ls2 pl2 HI2)|]. intros u3 ls3 pl3 HI3.
        apply nres_bind. eapply nres_mono; [apply (store_all_J F dt dc ls3 pl3 HI3)|]. intros u4 ls4 pl4 HI4.
        unfold scoped_evaluate_all. apply nres_get.
        apply (nok_iter (fun s _ => J w dt dc s) (sweep_step call t fl F) _ name); [apply sweep_names, Hcell, HI4| |exact Hstep|exact HI4].
        intros nm s0 p0 HI0. apply jok2_nres; [apply jk_sweep_step; assumption|exact HI0]. }
      destruct HK as [Hd|[Hd|[[name Hd]|[(st & Hin & Hbad)|HC]]]].
      - (* a doomed thunk: reached by evaluate_all *)
        destruct dt as [[loc lv]|]; [|congruence].
        apply nres_bind. eapply nres_mono; [apply (stmts_J F _ dc (l_edges ls) ls pl HJ)|]. intros u1 ls1 pl1 HI1.
        apply nres_bind. eapply nres_mono; [apply (stmts_J F _ dc (l_attrs ls) ls1 pl1 HI1)|]. intros u2 ls2 pl2 HI2.
        apply nres_bind. eapply nres_mono; [apply (stmts_J F _ dc (l_prints ls) ls2 pl2 HI2)|]. intros u3 ls3 pl3 HI3.
        apply nok_bind. unfold store_evaluate_all. apply nres_get.
        assert (Hlen : (loc < length (l_store ls3))%nat).
        { destruct HI3 as (_ & (_ & _ & dbg & Hn) & _). apply nth_error_Some. congruence. }
        apply (nok_iter (fun s _ => J w (Some (loc, lv)) dc s) _ _ (N.of_nat loc)); [| | |exact HI3].
        + apply in_map. apply in_seq. lia.
        + intros i s0 p0 HI0. apply jok2_nres; [|exact HI0]. apply jk_bind; [apply jk_force_thunk; assumption|intros v; apply jk_ret].
        + intros s0 p0 HJ0. apply nok_bind. apply (doomed_thunk_forced F dc loc lv s0 p0 HJ0).
      - (* a doomed cell: reached by the sweep over the cells *)
        destruct dc as [[name slv]|]; [|congruence]. apply (Hsweep name).
        + intros s (_ & _ & (_ & Hc)) E. rewrite E in Hc. exact Hc.
        + intros s p HJs. eapply nres_mono; [apply (n_sweep_step call t fl D Hanti w dt _ Hws F name s p HJs)|]. intros u s' p' (_ & Himp).
          assert (Hne : alist_get name (l_scoped s) <> None) by (destruct HJs as (_ & _ & (_ & Hc)); intros E; rewrite E in Hc; exact Hc).
          destruct (Himp Hne) as [Hno _]. apply (Hno slv eq_refl).
      - (* duplicate early definitions: the sweep forces the cell of that name *)
        apply (Hsweep name).
        + intros s HJs. apply (dupsig_cell name s Hd), HJs.
        + intros s p HJs. eapply nres_mono; [apply (n_sweep_step call t fl D Hanti w dt dc Hws F name s p HJs)|]. intros u s' p' (_ & Himp).
          destruct (Himp (dupsig_cell name s Hd (proj1 HJs))) as [_ [m Hm]]. apply (dupsig_map name m Hd Hm).
      - (* a statement that cannot be evaluated, in one of the three lists *)
        destruct Hin as [Hin|[Hin|Hin]].
        + apply nok_bind. apply (stmts_bad F dt dc _ st ls pl Hin Hbad HJ).
        + apply nres_bind. eapply nres_mono; [apply (stmts_J F dt dc (l_edges ls) ls pl HJ)|]. intros u1 ls1 pl1 HI1.
          apply nok_bind. apply (stmts_bad F dt dc _ st ls1 pl1 Hin Hbad HI1).
        + apply nres_bind. eapply nres_mono; [apply (stmts_J F dt dc (l_edges ls) ls pl HJ)|]. intros u1 ls1 pl1 HI1.
          apply nres_bind. eapply nres_mono; [apply (stmts_J F dt dc (l_attrs ls) ls1 pl1 HI1)|]. intros u2 ls2 pl2 HI2.
          apply nok_bind. apply (stmts_bad F dt dc _ st ls2 pl2 Hin Hbad HI2).
      - (* an attribute that conflicts with the strict graph *)
        destruct HC as (E_pre & post_e & A_pre & st & post_a & eops & aopss & G0 & g1 & G & H1 & H2 & H3 & H4 & H5 & H6 & H7 & H8).
        rewrite H1, H2. assert (HI0 : Inv2 dt dc G0 ls) by (split; assumption).
        apply nres_bind. eapply nres_eq; [apply iterM_app|]. apply nres_bind.
        eapply nres_mono; [apply (eval_den_edges F dt dc E_pre eops G0 g1 ls pl H3 H6 HI0)|]. intros u1 ls1 pl1 HI1.
        eapply nres_mono; [apply (nres_iter (fun s _ => Inv2 dt dc g1 s) (eval_lstmt' F) post_e); [|exact HI1]|].
        { intros y _ s0 p0 HIy. apply eval_any_stmt, HIy. }
        intros u2 ls2 pl2 HI2. apply nok_bind. eapply nres_eq; [apply iterM_app|]. apply nres_bind.
        eapply nres_mono; [apply (eval_den_astmts F dt dc A_pre aopss g1 G ls2 pl2 H4 H7 HI2)|]. intros u3 ls3 pl3 (HJ3 & Hg3).
        cbn [iterM]. apply nok_bind. apply H8; [apply HJ3|exact Hg3].
    Qed.
  End Fixed.

  (* ================= doomed states ================= *)
  Definition Doomed2 (ls : lstate) : Prop := exists w dt dc, wstatic t fl w /\ J w dt dc ls /\ Kind2 w dt dc ls.

  Theorem evaluate_doomed2 F ls pl : Doomed2 ls -> nok (evaluate_phase t fl call F ls pl).
  Proof. intros (w & dt & dc & Hws & HJ & HK). apply (evaluate_kind w Hws F dt dc ls pl HJ HK). Qed.

  Definition ck {A} (m : M lstate A) : Prop := forall w dt dc, wstatic t fl w -> jok2 w dt dc m.
  Definition dpres2 {A} (m : M lstate A) : Prop := forall ls pl, Doomed2 ls -> nres (m ls pl) (fun _ ls' _ => Doomed2 ls').
  Lemma dpres2_of {A} (m : M lstate A) : ck m -> fr_ok (@prefix lstmt) m -> dpres2 m.
  Proof.
    intros Hj Hf ls pl (w & dt & dc & Hws & HJ & HK). destruct (m ls pl) as [[[a ls'] pl']|e|x|] eqn:E; cbn [nres]; auto.
    exists w, dt, dc. split; [exact Hws|]. split; [apply (Hj w dt dc Hws _ _ _ _ _ HJ E)|]. eapply Kind2_step; [exact HK|]. eapply Hf; eauto.
  Qed.
  Lemma dpres2_bind {A B} (m : M lstate A) (f : A -> M lstate B) : dpres2 m -> (forall a, dpres2 (f a)) -> dpres2 (bind m f).
  Proof. intros Hm Hf ls pl HD. apply nres_bind. eapply nres_mono; [apply (Hm ls pl HD)|]. intros a ls1 pl1 HD1. apply (Hf a ls1 pl1 HD1). Qed.
  Lemma dpres2_ret {A} (a : A) : dpres2 (ret a).
  Proof. intros ls pl HD. apply nres_ret. auto. Qed.
  Lemma dpres2_ctx {A} c (m : M lstate A) : dpres2 m -> dpres2 (ctx_wrap c m).
  Proof. intros Hm ls pl HD. apply nres_ctx. apply (Hm ls pl HD). Qed.
  Lemma dpres2_iterM {X} (f : X -> M lstate unit) l : (forall x, dpres2 (f x)) -> dpres2 (iterM f l).
  Proof. intros H. induction l as [|x l IH]; cbn [iterM]; [apply dpres2_ret|]. apply dpres2_bind; [apply H|intros _; exact IH]. Qed.
  Lemma dpres2_iterM_All {X} (P : X -> Prop) (f : X -> M lstate unit) l : (forall x, P x -> dpres2 (f x)) -> All P l -> dpres2 (iterM f l).
  Proof. intros H. induction l as [|x l IH]; intros HP; cbn [iterM]; [apply dpres2_ret|]. destruct HP as [Px HP]. apply dpres2_bind; [apply H, Px|intros _; apply IH, HP]. Qed.
End Eval2.
