(* Proofs/ScThRun.v — C08 WITH scoped variables inside thunks, part 7: the whole run under any permutation of the blocks,
   for the fragment `tstmt` (as Proofs/ScPermRun.v). *)
From Coq Require Import Permutation.
From TSG Require Import Model.Lazy Proofs.BaseFacts Proofs.MonadFacts Proofs.SLForce Proofs.EvalPerm Proofs.BlockPermRen Proofs.BlockPermExec Proofs.BlockPermGraph Proofs.BlockPermEval Proofs.BlockPermFuel Proofs.BlockPermRun
  Proofs.ScPermSim Proofs.ScPermSwap Proofs.ScPermTyped Proofs.ScPermSR Proofs.ScPermExec Proofs.ScPermEvalSwap Proofs.ScPermRun
  Proofs.ScThSim Proofs.ScThSwap Proofs.ScThTyped Proofs.ScThSR Proofs.ScThExec Proofs.ScThEval.

Section Run3.
  Context {rx : Type}.
  Variables (t : tree) (fl : file) (supplied : globals) (regexes : list rx)
            (find : rx -> str -> option (list (option (N * N))))
            (call : ident -> graph -> list value -> res (value * graph)).
  Variable okfn : ident -> Prop.
  Variable tnt : ident -> bool.
  Hypothesis Hcall : forall f, okfn f -> call_ok call f.
  Variable g0 : graph.
  Notation n0 := (N.of_nat (length g0)).
  Hypothesis Hcl : gclosed n0 g0.
  Hypothesis Hglob : forall glob, check_globals (f_globals fl) (globals_nested supplied) = Ok glob ->
     forall name v, globals_get glob name = Some v -> vall (fun i => i < n0) v.

  Notation run fuel ms := (run_lazy t fl config0 supplied None regexes find call fuel ms g0).
  Notation run2 fuel F ms := (run_lazy2 t fl config0 supplied None regexes find call fuel F ms g0).
  Notation ok := (pm_ok3 fl okfn tnt).
  Notation Pst := (Pst t fl supplied regexes find call g0).

  Lemma swap_run3 fuel F1 l1 a b l2 ls p : Forall ok (l1 ++ a :: b :: l2) -> run2 fuel F1 (l1 ++ a :: b :: l2) = Ok (ls, p) ->
    exists r r', (forall i, r' (r i) = i) /\ (forall i, r (r' i) = i) /\ (forall i, i < n0 -> r i = i) /\
      exists F0, forall F, (F0 <= F)%nat -> exists ls' p', run2 fuel F (l1 ++ b :: a :: l2) = Ok (ls', p') /\ graph_iso r (l_graph ls) (l_graph ls').
  Proof.
    intros Hok H. unfold run_lazy2 in *. destruct (check_globals (f_globals fl) (globals_nested supplied)) as [glob|e|x|] eqn:Eg; try discriminate.
    unfold bind in H. destruct (iterM (bstep t fl config0 glob regexes find call fuel) (l1 ++ a :: b :: l2) (linit g0) (polls0 None)) as [[[u S] pS]|e|x|] eqn:ES; try discriminate.
    destruct (evaluate_phase t fl call F1 S pS) as [[[u1 fin] p1]|e|x|] eqn:EE; try discriminate. inversion H; subst ls p; clear H.
    destruct (exec_swap3 t fl glob regexes find call okfn tnt Hcall g0 (Hglob glob eq_refl) fuel l1 a b l2 (polls0 None) u S pS Hok eq_refl ES)
      as (S' & pS' & bds & rg & rl & rg' & rl' & ES' & HbS & HbS' & HS & I1 & I2 & I3 & I4).
    destruct HS as (HSR & (Ht & _ & _) & _ & _ & _ & Hrg & Hrl & Hmono).
    destruct (eval_swap_ty t fl call okfn Hcall g0 Hcl rg rl rg' rl' S S' HSR (styped3_evty okfn g0 rg bds S Ht Hmono) Hrg Hrl I1 I4 pS pS' F1 u1 fin p1 HbS' EE) as (F0 & HF).
    exists rg, rg'. split; [exact I1|]. split; [exact I2|]. split; [intros i Hi; apply Hrg; left; exact Hi|].
    exists F0. intros F HF0. destruct (HF F HF0) as (fin' & p' & E' & Hiso). exists fin', p'. unfold bind. rewrite ES', E'. split; [reflexivity|exact Hiso].
  Qed.

  Lemma Pst_swap3 l1 a b l2 : Forall ok (l1 ++ a :: b :: l2) -> Pst (l1 ++ a :: b :: l2) (l1 ++ b :: a :: l2).
  Proof.
    intros Hok fuel ls p H. rewrite run_lazy_2 in H. destruct (swap_run3 fuel _ l1 a b l2 ls p Hok H) as (r & r' & I1 & I2 & Fx & F0 & HF).
    exists r, r'. split; [exact I1|]. split; [exact I2|]. split; [exact Fx|]. exists (Nat.max fuel F0). intros fuel' Hf.
    destruct (HF (fuel' + default_eval_fuel)%nat ltac:(lia)) as (ls' & p' & E & Hiso). exists ls', p'. split; [|exact Hiso].
    rewrite run_lazy_2. apply (run_lazy2_exec_mono t fl supplied regexes find call g0 Hglob fuel fuel' _ _ ls' p' ltac:(lia) E).
  Qed.
  Lemma ok_perm3 ms ms' : Permutation ms ms' -> Forall ok ms -> Forall ok ms'.
  Proof. intros HP H. apply Forall_forall. intros x Hx. rewrite Forall_forall in H. apply H. eapply Permutation_in; [apply Permutation_sym, HP|exact Hx]. Qed.
  Lemma Pst_transp3 ms ms' : Permutation_transp ms ms' -> Forall ok ms -> Pst ms ms'.
  Proof.
    induction 1 as [l|x y l1 l2|l l' l'' HP1 IH1 HP2 IH2]; intros Hok.
    - apply Pst_refl.
    - apply Pst_swap3, Hok.
    - eapply Pst_trans; [apply IH1, Hok|apply IH2]. apply (ok_perm3 l l'); [apply Permutation_Permutation_transp, HP1|exact Hok].
  Qed.

  Theorem lazy_run_perm_thunks fuel ms ms' ls p : Permutation ms ms' -> Forall ok ms -> run fuel ms = Ok (ls, p) ->
    exists r r', (forall i, r' (r i) = i) /\ (forall i, r (r' i) = i) /\ (forall i, i < n0 -> r i = i) /\
      exists fuel0, forall fuel', (fuel0 <= fuel')%nat -> exists ls' p', run fuel' ms' = Ok (ls', p') /\ graph_iso r (l_graph ls) (l_graph ls').
  Proof. intros HP Hok H. apply (Pst_transp3 ms ms' (proj1 (Permutation_Permutation_transp ms ms') HP) Hok fuel ls p H). Qed.

  Theorem lazy_run_perm_thunks_fail fuel ms ms' : Permutation ms ms' -> Forall ok ms ->
    (forall r, run fuel ms <> Ok r) -> run fuel ms <> OutOfFuel -> forall fuel' r, run fuel' ms' <> Ok r.
  Proof.
    intros HP Hok Hno Hoof fuel' [ls' p'] E'.
    destruct (lazy_run_perm_thunks fuel' ms' ms ls' p' (Permutation_sym HP) (ok_perm3 _ _ HP Hok) E') as (r0 & r0' & _ & _ & _ & fuel0 & HF).
    destruct (HF (Nat.max fuel fuel0) ltac:(lia)) as (ls & p & E & _).
    destruct (run_lazy_fuel_mono t fl config0 supplied None regexes find call fuel (Nat.max fuel fuel0) ms g0 ltac:(lia)) as [Eo|Eo]; [exact (Hoof Eo)|].
    rewrite E in Eo. exact (Hno _ Eo).
  Qed.
End Run3.
