(* Proofs/GraphRefine.v — C17: the whole public operation language refines Spec/GraphSpec.v, over histories. *)
From TSG Require Import Spec.GraphSpec Proofs.BaseFacts Proofs.Containers Proofs.ContainerRefine.
From Coq Require Import Sorted.

Lemma Forall2_nth_l {A B} (R : A -> B -> Prop) l1 l2 i x :
  Forall2 R l1 l2 -> nth_error l1 i = Some x -> exists y, nth_error l2 i = Some y /\ R x y.
Proof.
  intros H; revert i; induction H as [|a b l1 l2 Hab H IH]; intros [|i] E; cbn [nth_error] in *; try discriminate.
  - injection E as <-. eauto.
  - eauto.
Qed.
Lemma Forall2_nth_None {A B} (R : A -> B -> Prop) l1 l2 i :
  Forall2 R l1 l2 -> nth_error l1 i = None -> nth_error l2 i = None.
Proof.
  intros H; revert i; induction H as [|a b l1 l2 Hab H IH]; intros [|i] E; cbn [nth_error] in *; try discriminate; auto.
Qed.
Lemma Forall2_len {A B} (R : A -> B -> Prop) l1 l2 : Forall2 R l1 l2 -> length l1 = length l2.
Proof. induction 1; cbn [length]; congruence. Qed.
Lemma Forall2_list_update {A B} (R : A -> B -> Prop) f g l1 l2 i :
  Forall2 R l1 l2 -> (forall x y, R x y -> R (f x) (g y)) -> Forall2 R (list_update i f l1) (list_update i g l2).
Proof.
  intros H Hfg; revert i; induction H as [|a b l1 l2 Hab H IH]; intros [|i]; cbn [list_update]; constructor; auto.
Qed.
Lemma list_update_same {A} (f : A -> A) l i x : nth_error l i = Some x -> f x = x -> list_update i f l = l.
Proof.
  revert i; induction l as [|a l IH]; intros [|i] E Hx; cbn [nth_error list_update] in *; try discriminate.
  - injection E as ->. rewrite Hx. reflexivity.
  - f_equal. eauto.
Qed.

Definition nrel (n : gnode) (sn : snode) : Prop := g_attrs n = sn_attrs sn /\ erel (g_edges n) (sn_edges sn).
Definition srel (s : cstate) (t : sstate) : Prop := Forall2 nrel (cs_graph s) (ss_nodes t) /\ cs_vars s = ss_vars t.

Lemma srel_init : srel cinit sinit.
Proof. split; [constructor|reflexivity]. Qed.

Lemma gnode_at_None_range g a : gnode_at g a = None -> in_range g a = false.
Proof. unfold gnode_at, in_range. intros E. apply nth_error_None in E. apply N.ltb_ge. lia. Qed.

(* the concrete edge operations on node a, in one equation *)
Lemma cstep_eop g vs a n o :
  gnode_at g a = Some n ->
  (forall b, o = EAdd b -> in_range g b = true) ->
  cstep {| cs_graph := g; cs_vars := vs |} (eop_cop a o) =
  ({| cs_graph := graph_update g a (with_edges (fst (estep (g_edges n) o))); cs_vars := vs |}, snd (estep (g_edges n) o)).
Proof.
  intros E Hr.
  assert (Hsame : graph_update g a (with_edges (g_edges n)) = g).
  { unfold graph_update, gnode_at in *. eapply list_update_same; [exact E|]. destruct n; reflexivity. }
  assert (Hin : in_range g a = true).
  { unfold in_range, gnode_at in *. apply N.ltb_lt. assert (N.to_nat a < length g)%nat by (apply nth_error_Some; congruence). lia. }
  destruct o as [b|b|b k v|b k|b| |]; cbn [eop_cop estep cstep cs_graph cs_vars].
  - rewrite Hin, (Hr b eq_refl). cbn [andb]. unfold graph_add_edge. rewrite E.
    destruct (edges_add b (g_edges n)) as [isnew es']. reflexivity.
  - rewrite E. cbn [fst snd]. rewrite Hsame. reflexivity.
  - rewrite E. destruct (edges_get b (g_edges n)) as [m|]; [|cbn [fst snd]; rewrite Hsame; reflexivity].
    destruct (attrs_add m k v) as [m' c]. reflexivity.
  - rewrite E. destruct (edges_get b (g_edges n)); cbn [fst snd]; rewrite Hsame; reflexivity.
  - rewrite E. destruct (edges_get b (g_edges n)); cbn [fst snd]; rewrite Hsame; reflexivity.
  - rewrite E. cbn [fst snd]. rewrite Hsame. reflexivity.
  - rewrite E. cbn [fst snd]. rewrite Hsame. reflexivity.
Qed.
Lemma cstep_eop_none g vs a o :
  gnode_at g a = None -> cstep {| cs_graph := g; cs_vars := vs |} (eop_cop a o) = ({| cs_graph := g; cs_vars := vs |}, RSkipped).
Proof.
  intros E. destruct o; cbn [eop_cop cstep cs_graph cs_vars]; rewrite ?E; try reflexivity.
  rewrite (gnode_at_None_range _ _ E). reflexivity.
Qed.

Lemma onedge_sim g vs t a o :
  srel {| cs_graph := g; cs_vars := vs |} t ->
  (forall b, o = EAdd b -> in_range g b = true) ->
  snd (cstep {| cs_graph := g; cs_vars := vs |} (eop_cop a o)) = snd (s_onedge t a o) /\
  srel (fst (cstep {| cs_graph := g; cs_vars := vs |} (eop_cop a o))) (fst (s_onedge t a o)).
Proof.
  intros [Hg Hv] Hr. cbn [cs_graph cs_vars] in *. unfold s_onedge, snode_at.
  destruct (gnode_at g a) as [n|] eqn:E.
  - rewrite (cstep_eop g vs a n o E Hr). unfold gnode_at in E.
    destruct (Forall2_nth_l _ _ _ _ _ Hg E) as (sn & Esn & Ha & He). rewrite Esn. cbn [fst snd].
    destruct (estep_sim _ _ o He) as [Ho He']. split; [exact Ho|].
    split; [|exact Hv]. cbn [cs_graph s_update ss_nodes]. unfold graph_update. apply Forall2_list_update; [exact Hg|].
    intros x y [Hxa _]. split; [exact Hxa|exact He'].
  - rewrite (cstep_eop_none g vs a o E). unfold gnode_at in E. rewrite (Forall2_nth_None _ _ _ _ Hg E). cbn [fst snd].
    split; [reflexivity|]. split; assumption.
Qed.

Lemma sstep_sim s t o : srel s t ->
  snd (cstep s o) = snd (sstep t o) /\ srel (fst (cstep s o)) (fst (sstep t o)).
Proof.
  intros H. destruct s as [g vs]. destruct t as [nodes tvs]. pose proof H as [Hg Hv]. cbn [cs_graph cs_vars ss_nodes ss_vars] in Hg, Hv. subst tvs.
  pose proof (Forall2_len _ _ _ Hg) as Hlen. set (t := {| ss_nodes := nodes; ss_vars := vs |}) in *.
  assert (Hrange : forall x, s_in_range t x = in_range g x) by (intros x; unfold s_in_range, in_range; cbn [t ss_nodes]; rewrite Hlen; reflexivity).
  destruct o as [|a b|a b|a b k v|a b k|a k v|a k|a|a b| |a| |a| | |k v|k|k| | |].
  - (* add node *) cbn [sstep]; unfold s_onvars; cbn [t cstep ss_nodes ss_vars add_graph_node cs_graph cs_vars fst snd]. rewrite Hlen. split; [reflexivity|].
    split; [|reflexivity]. cbn [cs_graph ss_nodes]. apply Forall2_app; [exact Hg|]. constructor; [|constructor].
    split; [reflexivity|exact erel_nil].
  - (* add edge *) cbn [sstep]. rewrite !Hrange. destruct (in_range g a && in_range g b) eqn:Er.
    + apply andb_prop in Er. destruct Er as [_ Erb]. apply (onedge_sim g vs t a (EAdd b) H). intros b' [= <-]. exact Erb.
    + cbn [cstep cs_graph cs_vars]. rewrite Er. cbn [fst snd]. split; [reflexivity|exact H].
  - apply (onedge_sim g vs t a (EGet b) H). discriminate.
  - apply (onedge_sim g vs t a (EAttrAdd b k v) H). discriminate.
  - apply (onedge_sim g vs t a (EAttrGet b k) H). discriminate.
  - (* node attr add *) cbn [sstep]; unfold s_onvars; cbn [t cstep ss_nodes ss_vars cs_graph cs_vars]. unfold snode_at; cbn [t ss_nodes]. destruct (gnode_at g a) as [n|] eqn:E; unfold gnode_at in E.
    + destruct (Forall2_nth_l _ _ _ _ _ Hg E) as (sn & Esn & Ha & He). rewrite Esn, <- Ha.
      destruct (attrs_add (g_attrs n) k v) as [m' c]. cbn [fst snd]. split; [reflexivity|]. split; [|reflexivity].
      cbn [t cs_graph s_update ss_nodes]. unfold graph_update. apply Forall2_list_update; [exact Hg|].
      intros x y [_ Hxe]. split; [reflexivity|exact Hxe].
    + rewrite (Forall2_nth_None _ _ _ _ Hg E). cbn [fst snd]. split; [reflexivity|exact H].
  - cbn [sstep]; unfold s_onvars; cbn [t cstep ss_nodes ss_vars cs_graph cs_vars]. unfold snode_at; cbn [t ss_nodes]. destruct (gnode_at g a) as [n|] eqn:E; unfold gnode_at in E.
    + destruct (Forall2_nth_l _ _ _ _ _ Hg E) as (sn & Esn & Ha & He). rewrite Esn, <- Ha. split; [reflexivity|exact H].
    + rewrite (Forall2_nth_None _ _ _ _ Hg E). split; [reflexivity|exact H].
  - cbn [sstep]; unfold s_onvars; cbn [t cstep ss_nodes ss_vars cs_graph cs_vars]. unfold snode_at; cbn [t ss_nodes]. destruct (gnode_at g a) as [n|] eqn:E; unfold gnode_at in E.
    + destruct (Forall2_nth_l _ _ _ _ _ Hg E) as (sn & Esn & Ha & He). rewrite Esn, <- Ha. split; [reflexivity|exact H].
    + rewrite (Forall2_nth_None _ _ _ _ Hg E). split; [reflexivity|exact H].
  - apply (onedge_sim g vs t a (EAttrIter b) H). discriminate.
  - cbn [sstep]; unfold s_onvars; cbn [t cstep ss_nodes ss_vars cs_graph cs_vars fst snd]. rewrite Hlen. split; [reflexivity|exact H].
  - apply (onedge_sim g vs t a EIter H). discriminate.
  - cbn [sstep]; unfold s_onvars; cbn [t cstep ss_nodes ss_vars cs_graph cs_vars fst snd]. rewrite Hlen. split; [reflexivity|exact H].
  - apply (onedge_sim g vs t a ECount H). discriminate.
  - cbn [sstep]; unfold s_onvars; cbn [t cstep ss_nodes ss_vars s_onvars cs_graph cs_vars fst snd]. split; [reflexivity|]. split; [exact Hg|reflexivity].
  - cbn [sstep]; unfold s_onvars; cbn [t cstep ss_nodes ss_vars s_onvars cs_graph cs_vars]. destruct vs as [|f [|f' up]]; cbn [fst snd cs_vars]; (split; [reflexivity|]); split; try exact Hg; reflexivity.
  - cbn [sstep]; unfold s_onvars; cbn [t cstep ss_nodes ss_vars s_onvars cs_graph cs_vars]. destruct (globals_add vs k v) as [vs' ok]. cbn [fst snd cs_vars]. split; [reflexivity|]. split; [exact Hg|reflexivity].
  - cbn [sstep]; unfold s_onvars; cbn [t cstep ss_nodes ss_vars s_onvars cs_graph cs_vars fst snd]. split; [reflexivity|]. split; [exact Hg|reflexivity].
  - cbn [sstep]; unfold s_onvars; cbn [t cstep ss_nodes ss_vars s_onvars cs_graph cs_vars fst snd]. split; [reflexivity|]. split; [exact Hg|reflexivity].
  - cbn [sstep]; unfold s_onvars; cbn [t cstep ss_nodes ss_vars s_onvars cs_graph cs_vars fst snd]. split; [reflexivity|]. split; [exact Hg|reflexivity].
  - cbn [sstep]; unfold s_onvars; cbn [t cstep ss_nodes ss_vars s_onvars cs_graph cs_vars fst snd]. split; [reflexivity|]. split; [exact Hg|reflexivity].
  - cbn [sstep]; unfold s_onvars; cbn [t cstep ss_nodes ss_vars s_onvars cs_graph cs_vars fst snd]. split; [reflexivity|]. split; [exact Hg|reflexivity].
Qed.

Lemma graph_refine_from s t ops : srel s t ->
  snd (run cstep s ops) = snd (run sstep t ops) /\ srel (fst (run cstep s ops)) (fst (run sstep t ops)).
Proof. apply (run_sim cstep sstep srel). intros; apply sstep_sim; assumption. Qed.
