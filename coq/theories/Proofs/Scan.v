(* Proofs/Scan.v — the scan loop of Model/Scan.v computes exactly the declarative ScanSeq of
   Spec/ScanSpec.v, makes progress, terminates, and turns empty matches into errors; for an
   arbitrary regex engine `find` satisfying only `start <= end <= length`. *)
From TSG Require Import Model.Scan Spec.ScanSpec.

Lemma whole_match_spec : forall o a b c,
  whole_match o = Some (a, b, c) <-> exists g, o = Some (Some (a, b) :: g) /\ c = Some (a, b) :: g.
Proof.
  intros o a b c. destruct o as [[|[[x y]|] g]|]; cbn [whole_match]; split;
    try discriminate; try (intros (g' & H & _); discriminate).
  - intros H; inversion H; subst. exists g; auto.
  - intros (g' & H & ->). inversion H; subst. reflexivity.
Qed.

Lemma str_skip_len : forall i s, i <= str_len s -> str_len (str_skip i s) = str_len s - i.
Proof. intros i s H. unfold str_len, str_skip in *. rewrite skipn_length. lia. Qed.

Section ScanProofs.
  Variable find : regex -> str -> option rcaps.
  Hypothesis find_wf : forall r s a b g, find r s = Some (Some (a, b) :: g) -> a <= b /\ b <= str_len s.

  (* ---------------- the inner arm loop ---------------- *)
  Lemma collect_spec : forall l k0 suffix acc,
    match collect find l k0 suffix acc with
    | CEmpty k => exists j r a c, nth_error l j = Some r /\ k = k0 + N.of_nat j /\
                    whole_match (find r suffix) = Some (a, a, c) /\
                    (forall j' r' a' c', (j' < j)%nat -> nth_error l j' = Some r' ->
                                         whole_match (find r' suffix) <> Some (a', a', c'))
    | CList out => (forall j r a c, nth_error l j = Some r -> whole_match (find r suffix) <> Some (a, a, c)) /\
                   exists new, out = rev acc ++ new /\
                   (forall a k b c, In (a, k, b, c) new <->
                      exists j r, nth_error l j = Some r /\ k = k0 + N.of_nat j /\
                                  whole_match (find r suffix) = Some (a, b, c))
    end.
  Proof.
    induction l as [|r l IH]; intros k0 suffix acc; cbn [collect].
    - split; [intros j ? ? ? H; destruct j; discriminate|].
      exists []. rewrite app_nil_r. split; [reflexivity|].
      intros; split; [intros []|intros (j & r & H & _); destruct j; discriminate].
    - destruct (whole_match (find r suffix)) as [[[a b] c]|] eqn:F.
      + destruct (N.eqb_spec a b) as [E|E].
        * subst b. exists 0%nat, r, a, c. repeat split; auto; try lia.
        * specialize (IH (k0 + 1) suffix ((a, k0, b, c) :: acc)).
          destruct (collect find l (k0 + 1) suffix ((a, k0, b, c) :: acc)) as [k|out].
          -- destruct IH as (j & r' & a' & c' & Hn & Hk & Hf & Hfirst).
             exists (S j), r', a', c'. repeat split; auto; try lia.
             intros j' r'' a'' c'' Hlt Hn'. destruct j' as [|j']; cbn [nth_error] in Hn'.
             ++ inversion Hn'; subst. rewrite F. intros X; inversion X; subst; congruence.
             ++ eapply Hfirst; eauto; lia.
          -- destruct IH as (Hne & new & Hout & Hin). split.
             ++ intros j r' a' c' Hn. destruct j; cbn [nth_error] in Hn;
                  [inversion Hn; subst; rewrite F; intros X; inversion X; subst; congruence|eauto].
             ++ exists ((a, k0, b, c) :: new). split.
                ** rewrite Hout. cbn [rev]. rewrite <- app_assoc. reflexivity.
                ** intros a' k' b' c'. split.
                   --- intros [X|X].
                       +++ inversion X; subst. exists 0%nat, r. repeat split; auto; lia.
                       +++ apply Hin in X. destruct X as (j & r' & ? & ? & ?). exists (S j), r'. repeat split; auto; lia.
                   --- intros (j & r' & Hn & Hk & Hf). destruct j; cbn [nth_error] in Hn.
                       +++ inversion Hn; subst. rewrite F in Hf. inversion Hf; subst. left. f_equal. f_equal. f_equal. lia.
                       +++ right. apply Hin. exists j, r'. repeat split; auto; lia.
      + specialize (IH (k0 + 1) suffix acc).
        destruct (collect find l (k0 + 1) suffix acc) as [k|out].
        * destruct IH as (j & r' & a' & c' & Hn & Hk & Hf & Hfirst).
          exists (S j), r', a', c'. repeat split; auto; try lia.
          intros j' r'' a'' c'' Hlt Hn'. destruct j' as [|j']; cbn [nth_error] in Hn'.
          -- inversion Hn'; subst. rewrite F. discriminate.
          -- eapply Hfirst; eauto; lia.
        * destruct IH as (Hne & new & Hout & Hin). split.
          -- intros j r' a' c' Hn. destruct j; cbn [nth_error] in Hn; [inversion Hn; subst; rewrite F; discriminate|eauto].
          -- exists new. split; auto. intros a' k' b' c'. rewrite Hin. split.
             ++ intros (j & r' & ? & ? & ?). exists (S j), r'. repeat split; auto; lia.
             ++ intros (j & r' & Hn & Hk & Hf). destruct j; cbn [nth_error] in Hn; [inversion Hn; subst; congruence|].
                exists j, r'. repeat split; auto; lia.
  Qed.

  (* ---------------- sort_by_key + [0] ---------------- *)
  Definition cand_le (x y : cand) : Prop :=
    let '(a, k, _, _) := x in let '(a', k', _, _) := y in a < a' \/ (a = a' /\ k <= k').

  Lemma cand_lt_spec : forall a k b c a' k' b' c',
    cand_lt (a, k, b, c) (a', k', b', c') = true <-> a < a' \/ (a = a' /\ k < k').
  Proof.
    intros. cbn [cand_lt]. rewrite orb_true_iff, andb_true_iff, !N.ltb_lt, N.eqb_eq. reflexivity.
  Qed.

  Lemma best_spec : forall l c, In (best c l) (c :: l) /\ forall d, In d (c :: l) -> cand_le (best c l) d.
  Proof.
    induction l as [|d l IH]; intros c; cbn [best].
    - split; [left; reflexivity|]. intros d [<-|[]]. destruct c as [[[a k] b] g]. cbn [cand_le]. lia.
    - specialize (IH (if cand_lt d c then d else c)). destruct IH as (Hin & Hmin). split.
      + destruct (cand_lt d c); cbn [In] in *; intuition.
      + intros e He.
        assert (Hc: cand_le (best (if cand_lt d c then d else c) l) (if cand_lt d c then d else c)) by (apply Hmin; left; reflexivity).
        destruct He as [<-|[<-|He]].
        * (* e = c *)
          destruct (cand_lt d c) eqn:K; [|exact Hc].
          destruct d as [[[a1 k1] b1] g1], c as [[[a2 k2] b2] g2]; destruct (best _ l) as [[[a0 k0] b0] g0].
          apply cand_lt_spec in K. cbn [cand_le] in *. lia.
        * (* e = d *)
          destruct (cand_lt d c) eqn:K; [exact Hc|].
          destruct d as [[[a1 k1] b1] g1], c as [[[a2 k2] b2] g2]; destruct (best _ l) as [[[a0 k0] b0] g0].
          assert (K' : ~ (a1 < a2 \/ (a1 = a2 /\ k1 < k2))) by (rewrite <- cand_lt_spec with (b := b1) (c := g1) (b' := b2) (c' := g2); congruence).
          cbn [cand_le] in *. lia.
        * apply Hmin. right. exact He.
  Qed.

  (* ---------------- one selection step, declaratively ---------------- *)
  Definition arm_hit (arms : list regex) (suffix : str) (k a b : N) (c : rcaps) : Prop :=
    exists r, nth_error arms (N.to_nat k) = Some r /\ whole_match (find r suffix) = Some (a, b, c).

  Lemma scan_pick_spec : forall arms suffix,
    match scan_pick find arms suffix with
    | PEmpty k => exists a c, arm_hit arms suffix k a a c /\
                    forall k' a' c', k' < k -> ~ arm_hit arms suffix k' a' a' c'
    | PNone => forall k a b c, ~ arm_hit arms suffix k a b c
    | PArm k a b c => arm_hit arms suffix k a b c /\ a < b /\
                      (forall k' a' c', ~ arm_hit arms suffix k' a' a' c') /\
                      (forall k' a' b' c', arm_hit arms suffix k' a' b' c' -> a < a' \/ (a = a' /\ k <= k'))
    end.
  Proof.
    intros arms suffix. unfold scan_pick.
    pose proof (collect_spec arms 0 suffix []) as C.
    destruct (collect find arms 0 suffix []) as [k|out].
    - destruct C as (j & r & a & c & Hn & Hk & Hfind & Hfirst). rewrite N.add_0_l in Hk. subst k.
      exists a, c. split.
      + exists r. rewrite Nat2N.id. auto.
      + intros k' a' c' Hlt (r' & Hn' & Hf'). eapply (Hfirst (N.to_nat k')); eauto. lia.
    - destruct C as (Hne & new & Hout & Hin). cbn [rev app] in Hout. subst out.
      assert (Hin' : forall a k b c, In (a, k, b, c) new <-> arm_hit arms suffix k a b c).
      { intros a k b c. rewrite Hin. unfold arm_hit. split.
        - intros (j & r & Hn & Hk & Hf). rewrite N.add_0_l in Hk. subst k. exists r. rewrite Nat2N.id. auto.
        - intros (r & Hn & Hf). exists (N.to_nat k), r. repeat split; auto. lia. }
      assert (Hne' : forall k a c, ~ arm_hit arms suffix k a a c).
      { intros k a c (r & Hn & Hf). eapply Hne; eauto. }
      destruct new as [|c0 l].
      + intros k a b c H. apply Hin' in H. destruct H.
      + destruct (best_spec l c0) as (Bin & Bmin).
        destruct (best c0 l) as [[[a k] b] c] eqn:B.
        apply Hin' in Bin.
        assert (Hab : a <> b) by (intros ->; eapply Hne'; eauto).
        destruct Bin as (r & Hn & Hf).
        assert (Hle : a <= b).
        { apply whole_match_spec in Hf. destruct Hf as (g & Hf & _). apply find_wf in Hf. lia. }
        split; [exists r; auto|]. split; [lia|]. split; [exact Hne'|].
        intros k' a' b' c' H. apply Hin' in H. apply Bmin in H. cbn [cand_le] in H. exact H.
  Qed.

  Lemma arm_hit_match : forall arms s i k a b g,
    arm_match find arms s i k a b g <-> arm_hit arms (str_skip i s) k a b (Some (a, b) :: g).
  Proof.
    intros. unfold arm_match, arm_hit. split; intros (r & Hn & Hf); exists r; split; auto.
    - apply whole_match_spec. exists g; auto.
    - apply whole_match_spec in Hf. destruct Hf as (g' & Hf & Hc). inversion Hc; subst. exact Hf.
  Qed.

  Lemma arm_hit_shape : forall arms suffix k a b c,
    arm_hit arms suffix k a b c -> exists g, c = Some (a, b) :: g.
  Proof. intros ? ? ? ? ? ? (r & _ & Hf). apply whole_match_spec in Hf. destruct Hf as (g & _ & ->). eauto. Qed.

  Lemma arm_hit_wf : forall arms suffix k a b c,
    arm_hit arms suffix k a b c -> a <= b /\ b <= str_len suffix.
  Proof.
    intros ? ? ? ? ? ? (r & _ & Hf). apply whole_match_spec in Hf. destruct Hf as (g & Hf & _).
    apply find_wf in Hf. exact Hf.
  Qed.

  (* ---------------- the loop computes the specified sequence ---------------- *)
  Theorem loop_sound : forall arms s fuel i evs f,
    scan_loop find fuel arms s i = (evs, f) -> f <> SOutOfFuel -> ScanSeq find arms s i evs f.
  Proof.
    intros arms s. induction fuel as [|fuel IH]; intros i evs f H Hf; cbn [scan_loop] in H.
    { inversion H; subst; congruence. }
    destruct (N.ltb_spec i (str_len s)) as [L|L].
    2:{ inversion H; subst. constructor; auto. }
    pose proof (scan_pick_spec arms (str_skip i s)) as P.
    destruct (scan_pick find arms (str_skip i s)) as [|k|k a b c].
    - inversion H; subst. apply SS_none; auto.
      intros k a b g M. apply arm_hit_match in M. eapply P; eauto.
    - inversion H; subst. destruct P as (a & c & Hhit & Hfirst).
      destruct (arm_hit_shape _ _ _ _ _ _ Hhit) as (g & ->).
      eapply SS_empty with (a := a) (g := g); auto.
      + apply arm_hit_match; auto.
      + intros k' a' g' Hlt M. apply arm_hit_match in M. eapply Hfirst; eauto.
    - destruct P as (Hhit & Hab & Hne & Hmin).
      destruct (scan_loop find fuel arms s (i + b)) as [evs' f'] eqn:R. inversion H; subst.
      destruct (arm_hit_shape _ _ _ _ _ _ Hhit) as (g & ->).
      eapply SS_step; eauto.
      + intros k' a' g' M. apply arm_hit_match in M. eapply Hne; eauto.
      + apply arm_hit_match; auto.
      + intros k' a' b' g' M. apply arm_hit_match in M. eapply Hmin; eauto.
  Qed.

  (* ---------------- progress and termination ---------------- *)
  Theorem loop_chain : forall arms s fuel i evs f,
    scan_loop find fuel arms s i = (evs, f) -> ev_chain s i evs.
  Proof.
    intros arms s. induction fuel as [|fuel IH]; intros i evs f H; cbn [scan_loop] in H.
    { inversion H; subst; exact I. }
    destruct (N.ltb_spec i (str_len s)) as [L|L].
    2:{ inversion H; subst; exact I. }
    pose proof (scan_pick_spec arms (str_skip i s)) as P.
    destruct (scan_pick find arms (str_skip i s)) as [|k|k a b c]; try (inversion H; subst; exact I).
    destruct P as (Hhit & Hab & _ & _).
    destruct (scan_loop find fuel arms s (i + b)) as [evs' f'] eqn:R. inversion H; subst.
    apply arm_hit_wf in Hhit. rewrite str_skip_len in Hhit by lia.
    cbn [ev_chain]. repeat split; try lia. eapply IH; eauto.
  Qed.

  Theorem loop_terminates : forall arms s fuel i,
    (N.to_nat (str_len s - i) < fuel)%nat -> snd (scan_loop find fuel arms s i) <> SOutOfFuel.
  Proof.
    intros arms s. induction fuel as [|fuel IH]; intros i Hlt; [lia|]. cbn [scan_loop].
    destruct (N.ltb_spec i (str_len s)) as [L|L]; [|cbn [snd]; congruence].
    pose proof (scan_pick_spec arms (str_skip i s)) as P.
    destruct (scan_pick find arms (str_skip i s)) as [|k|k a b c]; try (cbn [snd]; congruence).
    destruct P as (Hhit & Hab & _ & _).
    apply arm_hit_wf in Hhit. rewrite str_skip_len in Hhit by lia.
    specialize (IH (i + b)). destruct (scan_loop find fuel arms s (i + b)) as [evs' f'] eqn:R. cbn [snd] in *.
    apply IH. lia.
  Qed.

  (* ---------------- the specified sequence is unique ---------------- *)
  Lemma ScanSeq_status : forall arms s i evs f, ScanSeq find arms s i evs f -> f <> SOutOfFuel.
  Proof. intros arms s i evs f H. induction H; congruence. Qed.

  Lemma arm_match_fun : forall arms s i k a b g a' b' g',
    arm_match find arms s i k a b g -> arm_match find arms s i k a' b' g' -> a = a' /\ b = b' /\ g = g'.
  Proof.
    intros arms s i k a b g a' b' g' (r & Hn & Hf) (r' & Hn' & Hf').
    rewrite Hn in Hn'. inversion Hn'; subst r'. rewrite Hf in Hf'. inversion Hf'; auto.
  Qed.

  Theorem ScanSeq_unique : forall arms s i evs f,
    ScanSeq find arms s i evs f -> forall evs' f', ScanSeq find arms s i evs' f' -> evs = evs' /\ f = f'.
  Proof.
    intros arms s i evs f H. induction H as [i L|i L Hno|i k a g L Hm Hfirst|i k a b g evs f L Hne Hm Hab Hmin Hrest IH];
      intros evs' f' H'; inversion H' as [i' L'|i' L' Hno'|i' k' a' g' L' Hm' Hfirst'|i' k' a' b' g' evs'' f'' L' Hne' Hm' Hab' Hmin' Hrest']; subst;
      try (split; reflexivity); try lia;
      try (exfalso; eapply Hno; eauto; fail); try (exfalso; eapply Hno'; eauto; fail);
      try (exfalso; eapply Hne; eauto; fail); try (exfalso; eapply Hne'; eauto; fail).
    - (* empty / empty: the first arm with an empty match is unique *)
      split; [reflexivity|]. f_equal.
      destruct (N.lt_trichotomy k k') as [Hlt|[Heq|Hgt]]; auto.
      + exfalso. eapply Hfirst'; eauto.
      + exfalso. eapply Hfirst; eauto.
    - (* step / step: the minimal (start, arm) is unique, and an arm has one first match *)
      pose proof (Hmin _ _ _ _ Hm') as M1. pose proof (Hmin' _ _ _ _ Hm) as M2.
      assert (k = k' /\ a = a') as [-> ->] by lia.
      destruct (arm_match_fun _ _ _ _ _ _ _ _ _ _ Hm Hm') as (_ & -> & ->).
      destruct (IH _ _ Hrest') as [-> ->]. split; reflexivity.
  Qed.

  (* the loop with enough fuel IS the specification *)
  Theorem loop_complete : forall arms s fuel i evs f,
    (N.to_nat (str_len s - i) < fuel)%nat ->
    (ScanSeq find arms s i evs f <-> scan_loop find fuel arms s i = (evs, f)).
  Proof.
    intros arms s fuel i evs f Hfuel. split.
    - intros HS. destruct (scan_loop find fuel arms s i) as [evs' f'] eqn:R.
      assert (Hf : f' <> SOutOfFuel).
      { pose proof (loop_terminates arms s fuel i Hfuel) as T. rewrite R in T. exact T. }
      pose proof (loop_sound _ _ _ _ _ _ R Hf) as HS'.
      destruct (ScanSeq_unique _ _ _ _ _ HS _ _ HS') as [-> ->]. reflexivity.
    - intros R. apply loop_sound with (fuel := fuel); auto.
      pose proof (loop_terminates arms s fuel i Hfuel) as T. rewrite R in T. exact T.
  Qed.

  (* ---------------- empty matches are errors, never executed arms ---------------- *)
  Theorem empty_match_error : forall arms s fuel i k a g,
    i < str_len s -> arm_match find arms s i k a a g ->
    exists k', k' <= k /\ scan_loop find (S fuel) arms s i = ([], SErrEmpty k') /\
               (exists a' g', arm_match find arms s i k' a' a' g') /\
               scan_select find arms (str_skip i s) = SelEmpty k'.
  Proof.
    intros arms s fuel i k a g L M. cbn [scan_loop]. unfold scan_select.
    destruct (N.ltb_spec i (str_len s)) as [_|L']; [|lia].
    apply arm_hit_match in M.
    pose proof (scan_pick_spec arms (str_skip i s)) as P.
    destruct (scan_pick find arms (str_skip i s)) as [|k'|k' a' b' c'].
    - exfalso. eapply P; eauto.
    - destruct P as (a' & c' & Hhit & Hfirst). exists k'. repeat split; auto.
      + destruct (N.le_gt_cases k' k) as [|Hgt]; auto. exfalso. eapply Hfirst; eauto.
      + destruct (arm_hit_shape _ _ _ _ _ _ Hhit) as (g' & ->). exists a', g'. apply arm_hit_match. exact Hhit.
    - exfalso. destruct P as (_ & _ & Hne & _). eapply Hne; eauto.
  Qed.

  Theorem selected_arm_nonempty : forall arms suffix k c,
    scan_select find arms suffix = SelArm k c ->
    exists a b g, c = Some (a, b) :: g /\ a < b /\ b <= str_len suffix /\
      (exists r, nth_error arms (N.to_nat k) = Some r /\ find r suffix = Some c).
  Proof.
    intros arms suffix k c. unfold scan_select.
    pose proof (scan_pick_spec arms suffix) as P.
    destruct (scan_pick find arms suffix) as [|k'|k' a b c']; try discriminate.
    intros H; inversion H; subst. destruct P as (Hhit & Hab & _ & _).
    pose proof (arm_hit_wf _ _ _ _ _ _ Hhit) as [_ Hb].
    destruct Hhit as (r & Hn & Hf). apply whole_match_spec in Hf. destruct Hf as (g & Hf & ->).
    exists a, b, g. repeat split; auto. exists r; auto.
  Qed.

  (* ---------------- the static rule of the checker ---------------- *)
  Lemma scan_check_from_spec : forall l k0,
    match scan_check_from find l k0 with
    | Some k => exists j r, nth_error l j = Some r /\ k = k0 + N.of_nat j /\ find r [] <> None /\
                  forall j' r', (j' < j)%nat -> nth_error l j' = Some r' -> find r' [] = None
    | None => forall r, In r l -> find r [] = None
    end.
  Proof.
    induction l as [|r l IH]; intros k0; cbn [scan_check_from].
    - intros r [].
    - destruct (find r []) eqn:F.
      + exists 0%nat, r. repeat split; auto; try lia; congruence.
      + specialize (IH (k0 + 1)). destruct (scan_check_from find l (k0 + 1)) as [k|].
        * destruct IH as (j & r' & Hn & Hk & Hf & Hfirst). exists (S j), r'. repeat split; auto; try lia.
          intros j' r'' Hlt Hn'. destruct j'; cbn [nth_error] in Hn'; [inversion Hn'; subst; auto|eapply Hfirst; eauto; lia].
        * intros r' [<-|Hin]; auto.
  Qed.

  Theorem nullable_rejected : forall arms r, In r arms -> find r [] <> None -> scan_check find arms <> None.
  Proof.
    intros arms r Hin Hf. unfold scan_check. pose proof (scan_check_from_spec arms 0) as S.
    destruct (scan_check_from find arms 0); [congruence|]. exfalso. apply Hf. apply S. exact Hin.
  Qed.

  Theorem check_accepts_iff : forall arms, scan_check find arms = None <-> forall r, In r arms -> find r [] = None.
  Proof.
    intros arms. unfold scan_check. pose proof (scan_check_from_spec arms 0) as S.
    destruct (scan_check_from find arms 0) as [k|]; split; auto; try discriminate.
    intros H. destruct S as (j & r & Hn & _ & Hf & _). exfalso. apply Hf. apply H. eapply nth_error_In; eauto.
  Qed.

  Lemma nullable_rejected_then_guard_lemma : forall arms,
    (forall r, In r arms -> find r [] <> None -> scan_check find arms <> None) /\
    (scan_check find arms = None <-> forall r, In r arms -> find r [] = None) /\
    (forall s fuel i k a g, i < str_len s -> arm_match find arms s i k a a g ->
       exists k', k' <= k /\ scan_loop find (S fuel) arms s i = ([], SErrEmpty k')).
  Proof.
    intros arms. split; [|split].
    - intros r. exact (nullable_rejected arms r).
    - exact (check_accepts_iff arms).
    - intros s fuel i k a g L M.
      destruct (empty_match_error arms s fuel i k a g L M) as (k' & Hle & Hrun & _). eauto.
  Qed.

  (* ---------------- capture texts ---------------- *)
  Lemma captures_text_length : forall suffix c, length (captures_text suffix c) = length c.
  Proof. intros. unfold captures_text. apply map_length. Qed.

  Lemma captures_text_nth : forall suffix c k,
    nth_error (captures_text suffix c) k =
    match nth_error c k with
    | Some (Some (a, b)) => Some (substr suffix a b)
    | Some None => Some []
    | None => None
    end.
  Proof.
    intros suffix c k. unfold captures_text. rewrite nth_error_map.
    destruct (nth_error c k) as [[[a b]|]|]; reflexivity.
  Qed.
  Lemma capture_strings_lemma : forall suffix c k,
    length (captures_text suffix c) = length c /\
    nth_error (captures_text suffix c) k =
      match nth_error c k with
      | Some (Some (a, b)) => Some (substr suffix a b)
      | Some None => Some []
      | None => None
      end.
  Proof. intros. split; [apply captures_text_length | apply captures_text_nth]. Qed.
End ScanProofs.

(* `$k` in both modes *)
Lemma regex_capture_lookup_lemma : forall (current : list str) (k : N),
  regex_capture_strict current k = regex_capture_lazy current k /\
  match nth_error current (N.to_nat k) with
  | Some t => regex_capture_strict current k = Ok (VStr t)
  | None => regex_capture_strict current k = Err EUndefinedRegexCapture
  end /\
  ((N.to_nat k < length current)%nat \/ regex_capture_lazy current k = Err EUndefinedRegexCapture).
Proof.
  intros current k. unfold regex_capture_strict, regex_capture_lazy.
  destruct (nth_error current (N.to_nat k)) eqn:E; repeat split; auto.
  left. apply nth_error_Some. congruence.
Qed.
