(* Proofs/ParseLocStmt.v — the statement level of the parser model: the locations of the statements of a parsed block, in
   preorder (a statement, then the statements of its nested blocks), are STRICTLY INCREASING and lie between the location
   where the block's parser started and the location where it stopped (`within`, Proofs/ParseLoc.v).
   A statement's location is the parser position at its keyword; parse_name consumes at least one character
   (parse_name_lt) and everything else moves the position monotonically.  Hence: no two statements of a parsed file share a
   location (parse_into_file_within, parsed_locs_unique_lemma).  No fuel hypothesis: only Ok results are described. *)
From TSG Require Import Model.AstDisplay.
From TSG Require Import Model.Parser Proofs.BaseFacts Proofs.ParseLoc.

(* ------------------------------------------------------------------ location lists *)
Definition slocs (st : stmt) : list loc := stmt_loc st :: map stmt_loc (substmts st).
Definition blocs (l : list stmt) : list loc := map stmt_loc (block_stmts l).
Definition scan_locs (arms : list (N * list stmt * loc)) : list loc :=
  map stmt_loc (flat_map (fun arm : N * list stmt * loc => block_stmts (snd (fst arm))) arms).
Definition if_locs (arms : list (list cond * list stmt * loc)) : list loc :=
  map stmt_loc (flat_map (fun arm : list cond * list stmt * loc => block_stmts (snd (fst arm))) arms).
Definition flocs (sts : list stanza) : list loc :=
  map stmt_loc (flat_map (fun st => block_stmts (st_stmts st)) sts).

Lemma blocs_cons st l : blocs (st :: l) = slocs st ++ blocs l.
Proof. unfold blocs, slocs, block_stmts. cbn [flat_map]. rewrite map_app. reflexivity. Qed.
Lemma scan_locs_cons a l : scan_locs (a :: l) = blocs (snd (fst a)) ++ scan_locs l.
Proof. unfold scan_locs, blocs. cbn [flat_map]. rewrite map_app. reflexivity. Qed.
Lemma if_locs_cons a l : if_locs (a :: l) = blocs (snd (fst a)) ++ if_locs l.
Proof. unfold if_locs, blocs. cbn [flat_map]. rewrite map_app. reflexivity. Qed.
Lemma if_locs_app l1 l2 : if_locs (l1 ++ l2) = if_locs l1 ++ if_locs l2.
Proof. unfold if_locs. rewrite flat_map_app, map_app. reflexivity. Qed.
Lemma flocs_snoc l st : flocs (l ++ [st]) = flocs l ++ blocs (st_stmts st).
Proof. unfold flocs, blocs. rewrite flat_map_app, map_app. cbn [flat_map]. rewrite app_nil_r. reflexivity. Qed.

(* ------------------------------------------------------------------ inversion of Ok results *)
Lemma bind_inv {A B} (m : M A) (f : A -> M B) s b s2 :
  bind m f s = ROk b s2 -> exists a s1, m s = ROk a s1 /\ f a s1 = ROk b s2.
Proof. unfold bind. destruct (m s) as [a s1| | | |]; try discriminate. intros H. exists a, s1. split; [reflexivity|exact H]. Qed.
Lemma if_ok_inv {A B} (m : M A) (th el : M B) s b s2 :
  if_ok m th el s = ROk b s2 -> (exists a s1, m s = ROk a s1 /\ th s1 = ROk b s2) \/ el s = ROk b s2.
Proof.
  unfold if_ok. destruct (m s) as [a s1| | | |]; try discriminate; intros H; [left; exists a, s1; split; [reflexivity|exact H]|right; exact H].
Qed.
Lemma ret_inv {A} (a : A) s b s2 : ret a s = ROk b s2 -> b = a /\ s2 = s.
Proof. unfold ret. intros H. injection H as <- <-. split; reflexivity. Qed.
Lemma get_loc_inv s l s2 : get_loc s = ROk l s2 -> l = p_loc s /\ s2 = s.
Proof. unfold get_loc. intros H. injection H as <- <-. split; reflexivity. Qed.

(* loc_le by transitivity along the hypotheses *)
Ltac lle :=
  first
    [ apply loc_le_refl
    | assumption
    | apply loc_le_succ
    | match goal with
      | H : loc_le ?a ?b |- loc_le ?a ?c => apply (loc_le_trans a b c H); lle
      | H : loc_le (loc_succ ?a) ?b |- loc_le ?a ?c =>
          apply (loc_le_trans a (loc_succ a) c (loc_le_succ a)); apply (loc_le_trans (loc_succ a) b c H); lle
      end ].

(* rec: parse_statement one level down *)
Definition sp (rec : M stmt) : Prop :=
  forall s st s', rec s = ROk st s' -> within (p_loc s) (slocs st) (p_loc s').

Create HintDb wdb discriminated.

(* the fact that an Ok result of a known parser function provides *)
Ltac mfact E :=
  lazymatch type of E with
  | get_loc _ = ROk _ _ => apply get_loc_inv in E; destruct E as [? ?]; subst
  | parse_name _ _ _ _ = ROk _ _ =>
      let E' := fresh "Hlt" in pose proof (loc_lt_succ _ _ (parse_name_lt _ _ _ _ _ _ E)) as E'
  | ?m ?s = ROk _ ?s' =>
      first
        [ let Hm := fresh in
          eassert (Hm : mp _ m) by mleaf;
          apply (mp_inv _ _ _ _ _ Hm) in E; clear Hm;
          let P := fresh "P" in destruct E as [E P]
        | match goal with Hr : sp m |- _ => apply Hr in E end
        | let W := fresh "W" in eassert (W : within (p_loc s) _ (p_loc s')) by (eauto 2 with wdb nocore)
        | idtac ]
  end.
Ltac binv H :=
  lazymatch type of H with
  | bind _ _ _ = ROk _ _ =>
      let a := fresh "a" in let s1 := fresh "s" in let E := fresh "E" in
      apply bind_inv in H; destruct H as (a & s1 & E & H); mfact E
  | ret _ _ = ROk _ _ => apply ret_inv in H; destruct H as [? ?]; subst
  | fail _ _ = ROk _ _ => discriminate H
  end.
Ltac binvs H := repeat binv H.
Ltac ifs H := match type of H with (if ?b then _ else _) _ = ROk _ _ => destruct b end.

Lemma substmts_scan v arms l : map stmt_loc (substmts (SScan v arms l)) = scan_locs arms.
Proof. reflexivity. Qed.
Lemma substmts_if arms l : map stmt_loc (substmts (SIf arms l)) = if_locs arms.
Proof. reflexivity. Qed.
Lemma substmts_for v vl e body l : map stmt_loc (substmts (SFor v vl e body l)) = blocs body.
Proof. reflexivity. Qed.

(* `within` goals from `within` hypotheses, by concatenation and weakening *)
Ltac wsolve :=
  try change (blocs []) with (@nil loc); try change (scan_locs []) with (@nil loc);
  try change (if_locs []) with (@nil loc);
  lazymatch goal with
  | |- within _ [] _ => cbn [within]; lle
  | |- within ?lo (?L1 ++ ?L2) ?hi =>
      match goal with
      | H : within ?a L1 ?b |- _ =>
          apply (within_app L1 lo b L2 hi); [apply (within_weaken_l a lo L1 b); [lle|exact H]|wsolve]
      end
  | |- within ?lo ?L ?hi =>
      match goal with
      | H : within ?a L ?b |- _ =>
          apply (within_weaken_l a lo L hi); [lle|apply (within_weaken_r L a b hi H); lle]
      end
  end.

(* a statement without nested blocks *)
Ltac flat := unfold slocs; cbn [stmt_loc substmts map within]; split; lle.

Section StmtLoc.
  Variable X : ext.
  Variable F : nat.

  Lemma assignment_tail_mp : mp (fun p => vc (fst p) /\ ec (snd p)) (assignment_tail X F).
  Proof.
    unfold assignment_tail. mbind v Hv. mstep. mstep. mstep. mbind e He. mstep. split; assumption.
  Qed.
  Lemma print_loop_mp k : mp ecs (print_loop X F k).
  Proof.
    induction k as [|k IH]; intros s; cbn [print_loop]; [exact I|].
    destruct (peek_is 44 s); [|apply okp_here; reflexivity].
    mapp s. mstep. mstep. mbind e He. mstep. eapply mp_bind; [exact IH|]. intros l Hl. mstep. apply ecs_cons; assumption.
  Qed.
  Lemma regex_step_mp pattern pl :
    mt (match x_regex X pattern with
        | None => fun _ => RMiss
        | Some false => fail (PEInvalidRegex pattern pl)
        | Some true => fun s1 =>
            ROk (N.of_nat (length (p_pats s1)))
                {| p_rest := p_rest s1; p_off := p_off s1; p_row := p_row s1; p_col := p_col s1;
                   p_pats := pattern :: p_pats s1 |}
        end).
  Proof.
    destruct (x_regex X pattern) as [[|]|]; intros s; cbn [okp fail]; try exact I.
    split; [apply loc_le_refl|exact I].
  Qed.
  Hint Resolve assignment_tail_mp print_loop_mp regex_step_mp : mp.

  Section Body.
    Variable rec : M stmt.
    Hypothesis Hrec : sp rec.

    Lemma statements_loop_w k : forall s l s',
      statements_loop X F rec k s = ROk l s' -> within (p_loc s) (blocs l) (p_loc s').
    Proof.
      induction k as [|k IH]; intros s l s' H; [discriminate|]. cbn [statements_loop] in H.
      binv H. destruct (a =? 125); [binv H; wsolve|].
      binv H. binv H. apply bind_inv in H. destruct H as (l1 & s3 & El & H). apply IH in El. binv H.
      rewrite blocs_cons. wsolve.
    Qed.
    Hint Resolve statements_loop_w : wdb.
    Lemma parse_statements_w s l s' :
      parse_statements X F rec s = ROk l s' -> within (p_loc s) (blocs l) (p_loc s').
    Proof.
      unfold parse_statements. intros H. binvs H. wsolve.
    Qed.
    Hint Resolve parse_statements_w : wdb.

    Lemma scan_arms_loop_w kl k : forall s arms s',
      scan_arms_loop X F rec kl k s = ROk arms s' -> within (p_loc s) (scan_locs arms) (p_loc s').
    Proof.
      induction k as [|k IH]; intros s arms s' H; [discriminate|]. cbn [scan_arms_loop] in H.
      binv H. destruct (a =? 125); [binv H; wsolve|].
      binv H. binv H. binv H. binv H. binv H. binv H.
      apply bind_inv in H. destruct H as (l1 & s7 & El & H). apply IH in El. binv H.
      rewrite scan_locs_cons. cbn [fst snd]. wsolve.
    Qed.
    Hint Resolve scan_arms_loop_w : wdb.

    Lemma elif_loop_w k : forall l0 s arms s',
      elif_loop X F rec k l0 s = ROk arms s' -> within (p_loc s) (if_locs arms) (p_loc s').
    Proof.
      induction k as [|k IH]; intros l0 s arms s' H; [discriminate|]. cbn [elif_loop] in H.
      apply if_ok_inv in H. destruct H as [(u & s0 & E & H)|H]; [|binv H; wsolve].
      mfact E. binv H. binv H. binv H. binv H. binv H. binv H. binv H.
      apply bind_inv in H. destruct H as (l1 & s8 & El & H). apply IH in El. binv H.
      rewrite if_locs_cons. cbn [fst snd]. wsolve.
    Qed.
    Hint Resolve elif_loop_w : wdb.

    Lemma statement_body_w : sp (statement_body X F rec).
    Proof.
      intros s st s' H. unfold statement_body in H. binv H. binv H. binv H.
      ifs H. { binvs H. flat. }
      ifs H. { binvs H. flat. }
      ifs H. { binvs H. flat. }
      ifs H. { binvs H. flat. }
      ifs H. { binvs H. flat. }
      ifs H.
      { binv H. binv H. binv H. binv H. binv H. ifs H; binvs H; flat. }
      ifs H. { binvs H. flat. }
      ifs H.
      { binvs H. unfold slocs. cbn [stmt_loc]. rewrite substmts_scan. cbn [within]. split; [lle|]. wsolve. }
      ifs H.
      { binvs H.
        match goal with
        | Hel : if_ok _ _ _ _ = ROk _ _ |- _ =>
            apply if_ok_inv in Hel; destruct Hel as [(u & sx & Eu & Hel)|Hel]; [mfact Eu; binvs Hel|binv Hel]
        end;
        unfold slocs; cbn [stmt_loc]; rewrite substmts_if, if_locs_cons, if_locs_app, ?if_locs_cons;
        cbn [fst snd within]; (split; [lle|]); wsolve. }
      ifs H.
      { binvs H. unfold slocs. cbn [stmt_loc]. rewrite substmts_for. cbn [within]. split; [lle|]. wsolve. }
      binv H.
    Qed.
  End Body.

  Lemma parse_statement_n_w n : sp (parse_statement_n X F n).
  Proof.
    induction n as [|n IH]; intros s st s' H; [discriminate|]. cbn [parse_statement_n] in H.
    revert H. apply statement_body_w. intros s1 st1 s1' H1. apply IH. exact H1.
  Qed.
  Lemma parse_stanza_statements_w s l s' :
    parse_stanza_statements X F s = ROk l s' -> within (p_loc s) (blocs l) (p_loc s').
  Proof. apply parse_statements_w. apply parse_statement_n_w. Qed.
  Hint Resolve parse_stanza_statements_w : wdb.

  (* ---------------------------------------------------------------- top level *)
  Lemma parse_shorthand_mp : mt (parse_shorthand X F).
  Proof.
    unfold parse_shorthand. mstep. mstep. mstep. mstep. mstep. mstep. mstep. mstep. mstep. mstep. mstep. exact I.
  Qed.
  Hint Resolve parse_shorthand_mp parse_global_mp : mp.

  Lemma parse_stanza_w s p s' :
    parse_stanza X F s = ROk p s' -> within (p_loc s) (blocs (st_stmts (fst p))) (p_loc s').
  Proof.
    unfold parse_stanza. intros H. binvs H. cbn [fst st_stmts]. wsolve.
  Qed.

  Lemma file_loop_w k : forall a s a' s' lo,
    file_loop X F k a s = ROk a' s' ->
    within lo (flocs (a_stanzas a)) (p_loc s) -> within lo (flocs (a_stanzas a')) (p_loc s').
  Proof.
    induction k as [|k IH]; intros a s a' s' lo H Hw; [discriminate|]. cbn [file_loop] in H.
    destruct (p_rest s) as [|c r]; [injection H as <- <-; exact Hw|].
    apply bind_inv in H. destruct H as (a1 & s1 & Hstep & H). binv H.
    refine (IH _ _ _ _ lo H _). clear H IH.
    assert (Hs : exists L, flocs (a_stanzas a1) = flocs (a_stanzas a) ++ L /\ within (p_loc s) L (p_loc s1)).
    { apply if_ok_inv in Hstep. destruct Hstep as [(u & s2 & E0 & H)|Hstep].
      { mfact E0. binvs H. exists []. cbn [a_stanzas]. rewrite app_nil_r. split; [reflexivity|wsolve]. }
      apply if_ok_inv in Hstep. destruct Hstep as [(u & s2 & E0 & H)|Hstep].
      { mfact E0. binvs H. exists []. cbn [a_stanzas]. rewrite app_nil_r. split; [reflexivity|wsolve]. }
      apply if_ok_inv in Hstep. destruct Hstep as [(u & s2 & E0 & H)|Hstep].
      { mfact E0. binvs H. exists []. cbn [a_stanzas]. rewrite app_nil_r. split; [reflexivity|wsolve]. }
      binv Hstep. binv Hstep. apply parse_stanza_w in E0.
      exists (blocs (st_stmts (fst a2))). cbn [a_stanzas]. rewrite flocs_snoc. split; [reflexivity|exact E0]. }
    destruct Hs as (L & -> & HL).
    eapply within_app; [exact Hw|]. eapply within_weaken_r; [exact HL|lle].
  Qed.

  Lemma parse_into_file_within s a s' :
    parse_into_file X F s = ROk a s' -> within (p_loc s) (flocs (a_stanzas a)) (p_loc s').
  Proof.
    unfold parse_into_file. intros H. binv H.
    apply bind_inv in H. destruct H as (a1 & s1 & Hf & H).
    apply (file_loop_w _ _ _ _ _ (p_loc s)) in Hf; [|cbn [a_stanzas flocs flat_map map within]; exact E].
    destruct (x_merged X (a_query_source a1)) as [[|]|]; try discriminate. binv H. exact Hf.
  Qed.
End StmtLoc.

Lemma within_sorted L : forall lo hi, within lo L hi ->
  forall i j a b, (i < j)%nat -> nth_error L i = Some a -> nth_error L j = Some b -> loc_lt a b.
Proof.
  induction L as [|x r IH]; intros lo hi H i j a b Hij Hi Hj; [destruct i; discriminate|].
  cbn [within] in H. destruct H as [H1 H2]. destruct j as [|j]; [lia|]. cbn [nth_error] in Hj. destruct i as [|i].
  - cbn [nth_error] in Hi. injection Hi as <-. apply loc_succ_lt. eapply within_ge; [exact H2|].
    eapply nth_error_In; exact Hj.
  - cbn [nth_error] in Hi. eapply (IH _ _ H2 i j); [lia|exact Hi|exact Hj].
Qed.

(* no two statements of a parsed file, at any depth, share a location; and they come in increasing order *)
Lemma parsed_locs_within X fuel text f pats :
  parse X fuel text = POk f pats -> exists hi, within (0, 0) (map stmt_loc (file_stmts f)) hi.
Proof.
  unfold parse. destruct (parse_into_file X fuel (init_state text)) as [a s| e | n | |] eqn:E; try discriminate.
  - intros H. injection H as <- _. apply parse_into_file_within in E. exists (p_loc s). exact E.
  - destruct (error_obs e) as [[v l] p]. discriminate.
Qed.
Lemma parsed_locs_increasing_lemma X fuel text f pats :
  parse X fuel text = POk f pats ->
  forall i j a b, (i < j)%nat ->
    nth_error (map stmt_loc (file_stmts f)) i = Some a -> nth_error (map stmt_loc (file_stmts f)) j = Some b ->
    fst a < fst b \/ (fst a = fst b /\ snd a < snd b).
Proof. intros H. destruct (parsed_locs_within _ _ _ _ _ H) as [hi Hw]. exact (within_sorted _ _ _ Hw). Qed.
Lemma parsed_locs_unique_lemma X fuel text f pats : parse X fuel text = POk f pats -> locs_unique f = true.
Proof. intros H. destruct (parsed_locs_within _ _ _ _ _ H) as [hi Hw]. exact (within_distinct _ _ _ Hw). Qed.
