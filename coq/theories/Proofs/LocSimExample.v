(* Proofs/LocSimExample.v — C08 on a REAL pair of re-parsed files (second audit, AUDIT2 §8).  Two texts with the same two stanzas in the two orders,
       (a) @x { node @x.n  attr (@x.n) k = "A" }        (b) @y { node @y.n  attr (@y.n) k = "B" }
   loaded by the loader model (parser model then checker model) with the query tables tree-sitter gives for the merged query of each text (capture
   names numbered by first appearance: x, FULL, y  resp.  y, FULL, x).  The loaded files differ in every location and in the file capture index of
   @x / @y (0 vs 2); the old hypothesis `Permutation (f_stanzas ..) (f_stanzas ..)` is false of them, `block_rel` (Proofs/LocSimRun.v) holds with the
   renaming 0 <-> 2.  Matches by hand on K7.k7_tree: stanza (a) on node 1, stanza (b) on node 3. *)
From Coq Require Import String Ascii Permutation.
From TSG Require Import Model.Run Model.Parser Model.Checker Model.Loader Model.IdxBridge Model.LocErase Props.C20disp Proofs.K7
  Proofs.StanzaPerm Proofs.LocSimRun Proofs.ScPermSim Proofs.ScPermSwap Proofs.ScPermExec Proofs.IdxRealExample Proofs.IdxReal Proofs.BlockPermGraph Proofs.BlockPermRen Proofs.SLExpr.
Open Scope N_scope.

Definition s2n (s : string) : list N := map (fun a => N.of_nat (nat_of_ascii a)) (list_ascii_of_string s).
Definition nl : string := String (ascii_of_nat 10) EmptyString.
Definition dq : string := String (ascii_of_nat 34) EmptyString.
Definition rr_stA : string := ("(a) @x {" ++ nl ++ "  node @x.n" ++ nl ++ "  attr (@x.n) k = " ++ dq ++ "A" ++ dq ++ nl ++ "}" ++ nl)%string.
Definition rr_stB : string := ("(b) @y {" ++ nl ++ "  node @y.n" ++ nl ++ "  attr (@y.n) k = " ++ dq ++ "B" ++ dq ++ nl ++ "}" ++ nl)%string.
Definition rr_textAB : list N := s2n (rr_stA ++ rr_stB).
Definition rr_textBA : list N := s2n (rr_stB ++ rr_stA).
Definition rr_qAB : Checker.query_tables :=
  {| Checker.qt_stanza_names := [[[120]; Checker.FULL_MATCH]; [[121]; Checker.FULL_MATCH]];
     Checker.qt_file_names := [[120]; Checker.FULL_MATCH; [121]];
     Checker.qt_file_quants := [[QOne; QOne; QZero]; [QZero; QOne; QOne]]; Checker.qt_nullable := [false; false] |}.
Definition rr_qBA : Checker.query_tables :=
  {| Checker.qt_stanza_names := [[[121]; Checker.FULL_MATCH]; [[120]; Checker.FULL_MATCH]];
     Checker.qt_file_names := [[121]; Checker.FULL_MATCH; [120]];
     Checker.qt_file_quants := [[QOne; QOne; QZero]; [QZero; QOne; QOne]]; Checker.qt_nullable := [false; false] |}.
Definition rr_ldAB := Loader.load pex_ext rr_qAB (Parser.fuel_of rr_textAB) rr_textAB.
Definition rr_ldBA := Loader.load pex_ext rr_qBA (Parser.fuel_of rr_textBA) rr_textBA.
Definition rr_file_of (r : Loader.load_result) : file :=
  match r with Loader.LdOk f _ => f | _ => {| f_globals := []; f_inherited := []; f_shorthands := []; f_stanzas := [] |} end.
Definition rr_flAB : file := Eval vm_compute in rr_file_of rr_ldAB.
Definition rr_flBA : file := Eval vm_compute in rr_file_of rr_ldBA.
Lemma rr_loaded : rr_ldAB = Loader.LdOk rr_flAB [] /\ rr_ldBA = Loader.LdOk rr_flBA [].
Proof. split; vm_compute; reflexivity. Qed.

(* the matches of the merged queries: AB numbers x=0 FULL=1 y=2, BA numbers y=0 FULL=1 x=2 *)
Definition rr_mA : qmatch := [(0, [1]); (1, [1])].
Definition rr_mB : qmatch := [(2, [3]); (1, [3])].
Definition rr_mA' : qmatch := [(2, [1]); (1, [1])].
Definition rr_mB' : qmatch := [(0, [3]); (1, [3])].
Definition rr_ms : list (N * qmatch) := [(0, rr_mA); (1, rr_mB)].          (* file AB: stanza 0 = (a), stanza 1 = (b) *)
Definition rr_ms' : list (N * qmatch) := [(0, rr_mB'); (1, rr_mA')].       (* file BA in ITS stanza order: (b) first *)
Definition rr_ms'_ts : list (N * qmatch) := [(1, rr_mA'); (0, rr_mB')].    (* file BA in node order (as tree-sitter reports): (a) on node 1 first *)
Definition rr_swap (i : N) : N := if N.eqb i 0 then 2 else if N.eqb i 2 then 0 else i.
Lemma rr_swap_inj i j : rr_swap i = rr_swap j -> i = j.
Proof. unfold rr_swap. destruct (N.eqb_spec i 0), (N.eqb_spec i 2), (N.eqb_spec j 0), (N.eqb_spec j 2); lia. Qed.
Lemma rr_matches_renamed : rr_mA' = rename_match rr_swap rr_mA /\ rr_mB' = rename_match rr_swap rr_mB.
Proof. split; reflexivity. Qed.

(* the OLD hypothesis is false of the pair; the new one holds *)
Lemma rr_old_hypothesis_false : ~ Permutation (f_stanzas rr_flAB) (f_stanzas rr_flBA).
Proof.
  intros P.
  assert (H : In (nth 0 (f_stanzas rr_flAB) {| st_stmts := []; st_full_stanza_idx := 0; st_full_file_idx := 0; st_start := (0,0) |}) (f_stanzas rr_flBA)).
  { apply (Permutation_in _ P). left. reflexivity. }
  destruct H as [H|[H|[]]]; discriminate.
Qed.
Lemma rr_rest : reloc_rest rr_flAB rr_flBA.
Proof. split; reflexivity. Qed.
Lemma rr_block_rel b b' rho m :
  (forall i j, rho i = rho j -> i = j) -> snd b' = rename_match rho m -> snd b = m ->
  (exists st st', fst b = Some st /\ fst b' = Some st' /\ reloc_stanza rho st = erase_stanza_locs st') ->
  block_rel rr_flAB rr_flBA b b'.
Proof.
  intros Hinj E' E (st & st' & Eb & Eb' & Est). unfold block_rel. destruct b as [o m0], b' as [o' m0']. cbn [fst snd] in *. subst.
  exists rho. split; [exact Est|]. split; [reflexivity|]. apply nodes_rename_match. exact Hinj.
Qed.
Lemma rr_blocks_related : Forall2 (block_rel rr_flAB rr_flBA) (blocks_of rr_flAB [(1, rr_mB); (0, rr_mA)]) (blocks_of rr_flBA rr_ms').
Proof.
  constructor; [|constructor; [|constructor]].
  - apply (rr_block_rel _ _ rr_swap rr_mB rr_swap_inj); [reflexivity|reflexivity|]. eexists. eexists. split; [reflexivity|]. split; [reflexivity|]. vm_compute. reflexivity.
  - apply (rr_block_rel _ _ rr_swap rr_mA rr_swap_inj); [reflexivity|reflexivity|]. eexists. eexists. split; [reflexivity|]. split; [reflexivity|]. vm_compute. reflexivity.
Qed.
Lemma rr_blocks_related_ts : Forall2 (block_rel rr_flAB rr_flBA) (blocks_of rr_flAB rr_ms) (blocks_of rr_flBA rr_ms'_ts).
Proof.
  constructor; [|constructor; [|constructor]].
  - apply (rr_block_rel _ _ rr_swap rr_mA rr_swap_inj); [reflexivity|reflexivity|]. eexists. eexists. split; [reflexivity|]. split; [reflexivity|]. vm_compute. reflexivity.
  - apply (rr_block_rel _ _ rr_swap rr_mB rr_swap_inj); [reflexivity|reflexivity|]. eexists. eexists. split; [reflexivity|]. split; [reflexivity|]. vm_compute. reflexivity.
Qed.

Definition rr_call := the_call k7_tree [].
Lemma rr_globals : forall glob, check_globals (f_globals rr_flAB) (globals_nested [[]]) = Ok glob ->
  forall name v, globals_get glob name = Some v -> vall (fun i => i < N.of_nat (length (@nil gnode))) v.
Proof. intros glob E. vm_compute in E. inversion E; subst glob. intros name v H. discriminate. Qed.
Lemma rr_blocks_ok : Forall (pm_ok2 (normalize_file rr_flAB) nofn) rr_ms.
Proof.
  unfold rr_ms. apply Forall_cons; [|apply Forall_cons; [|apply Forall_nil]]; intros st E; vm_compute in E; inversion E; subst st; (split; [|apply Forall_nil]);
    cbn [st_stmts All sstmt svar is_capture mexpr mattr fexpr].
  all: repeat split; first [exact I | reflexivity | right; left; reflexivity | left; exact I].
Qed.
Definition rr_gAB : graph := Eval vm_compute in
  match run_lazy k7_tree rr_flAB config0 [[]] None ([] : list Regex.regex) Regex.rx_captures rr_call default_fuel rr_ms [] with Ok (ls, _) => l_graph ls | _ => [] end.
Lemma rr_run_AB : exists ls p,
  run_lazy k7_tree rr_flAB config0 [[]] None ([] : list Regex.regex) Regex.rx_captures rr_call default_fuel rr_ms [] = Ok (ls, p) /\ l_graph ls = rr_gAB /\ length rr_gAB = 2%nat.
Proof. eexists. eexists. split; [vm_compute; reflexivity|split; reflexivity]. Qed.
(* cross-check by evaluation: file BA on its own matches in its own stanza order builds the two nodes in the other order: a different graph *)
Definition rr_gBA : graph := Eval vm_compute in
  match run_lazy k7_tree rr_flBA config0 [[]] None ([] : list Regex.regex) Regex.rx_captures rr_call default_fuel rr_ms' [] with Ok (ls, _) => l_graph ls | _ => [] end.
Lemma rr_run_BA : exists ls p,
  run_lazy k7_tree rr_flBA config0 [[]] None ([] : list Regex.regex) Regex.rx_captures rr_call default_fuel rr_ms' [] = Ok (ls, p) /\ l_graph ls = rr_gBA /\
  length rr_gBA = 2%nat /\ rr_gBA <> rr_gAB.
Proof. eexists. eexists. split; [vm_compute; reflexivity|]. split; [reflexivity|]. split; [reflexivity|]. vm_compute. discriminate. Qed.
Lemma rr_perm : Permutation rr_ms [(1, rr_mB); (0, rr_mA)] /\ rr_ms <> [(1, rr_mB); (0, rr_mA)].
Proof. split; [apply perm_swap|vm_compute; discriminate]. Qed.
