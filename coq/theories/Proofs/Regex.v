(* Proofs/Regex.v — well-formedness of the executable matcher of Model/Regex.v: every reported
   span is ordered and inside the haystack, group 0 is always present, and the capture table has
   exactly 1 + rx_ngroups entries.  This discharges, for rx_captures, the only hypothesis the scan
   theorems make about the regex engine. *)
From TSG Require Import Model.Regex Model.Scan Spec.ScanSpec Proofs.Scan.

Definition mcap_ok (n : nat) (o : option (nat * nat)) : Prop :=
  match o with Some (a, b) => (a <= b /\ b <= n)%nat | None => True end.
(* invariant of the capture table: spans well-formed, length fixed *)
Definition mcaps_ok (n L : nat) (c : mcaps) : Prop := Forall (mcap_ok n) c /\ length c = L.

Lemma set_cap_ok : forall n k a b c, Forall (mcap_ok n) c -> (a <= b /\ b <= n)%nat -> Forall (mcap_ok n) (set_cap k (a, b) c).
Proof.
  intros n. induction k as [|k IH]; intros a b c Hc Hab.
  - destruct c as [|h t]; cbn [set_cap]; constructor; auto. inversion Hc; auto.
  - destruct c as [|h t]; cbn [set_cap].
    + constructor; [exact I|]. apply IH; auto.
    + inversion Hc; subst. constructor; auto.
Qed.

Lemma set_cap_length : forall k v c, (k < length c)%nat -> length (set_cap k v c) = length c.
Proof.
  induction k as [|k IH]; intros v c H; destruct c as [|h t]; cbn [set_cap length] in *; try lia.
  rewrite IH; lia.
Qed.

Lemma set_cap_inv : forall n L k a b c,
  mcaps_ok n L c -> (k < L)%nat -> (a <= b /\ b <= n)%nat -> mcaps_ok n L (set_cap k (a, b) c).
Proof.
  intros n L k a b c [Hc Hl] Hk Hab. split; [apply set_cap_ok; auto|]. rewrite set_cap_length; lia.
Qed.

Lemma set_cap_0_head : forall v c, exists t, set_cap 0 v c = Some v :: t.
Proof. intros v [|h t]; cbn [set_cap]; eauto. Qed.

Section MatcherFacts.
  Variable s : str.
  Variable L : nat.
  Let n := length s.

  (* every answer of the matcher is an answer of its final continuation, called at a position
     between the current one and the end, with a well-formed capture table *)
  Lemma rx_m_inv : forall fuel r i c k (P : nat * mcaps -> Prop),
    (N.to_nat (rx_ngroups r) < L)%nat ->
    (i <= n)%nat -> mcaps_ok n L c ->
    (forall j c', (i <= j /\ j <= n)%nat -> mcaps_ok n L c' -> forall x, k j c' = Some x -> P x) ->
    forall x, rx_m s fuel r i c k = Some x -> P x.
  Proof.
    induction fuel as [|fuel IH]; intros r i c k P Hg Hi Hc Hk x H; cbn [rx_m] in H; [discriminate|].
    destruct r as [ |ch| |neg items|a b|a b|g r|r|r|r| | | ]; cbn [rx_ngroups] in Hg.
    - (* REps *) apply (Hk i c); auto; lia.
    - (* RChr *) unfold at_ in H. destruct (nth_error s i) as [y|] eqn:E; [|discriminate].
      assert (i < n)%nat by (apply nth_error_Some; congruence).
      destruct (ch =? y); [|discriminate]. apply (Hk (S i) c); auto; lia.
    - (* RAny *) unfold at_ in H. destruct (nth_error s i) as [y|] eqn:E; [|discriminate].
      assert (i < n)%nat by (apply nth_error_Some; congruence).
      destruct (y =? 10); [discriminate|]. apply (Hk (S i) c); auto; lia.
    - (* RCls *) unfold at_ in H. destruct (nth_error s i) as [y|] eqn:E; [|discriminate].
      assert (i < n)%nat by (apply nth_error_Some; congruence).
      destruct (xorb neg (in_cls items y)); [|discriminate]. apply (Hk (S i) c); auto; lia.
    - (* RSeq *)
      apply (IH a i c (fun j c' => rx_m s fuel b j c' k) P); auto; [lia|].
      intros j c' Hj Hc' x' H'. apply (IH b j c' k P); auto; try lia.
      intros j' c'' Hj' Hc'' x'' H''. apply (Hk j' c''); auto; lia.
    - (* RAlt *)
      destruct (rx_m s fuel a i c k) as [y|] eqn:E.
      + inversion H; subst. apply (IH a i c k P); auto. lia.
      + apply (IH b i c k P); auto. lia.
    - (* RGrp *)
      apply (IH r i c (fun j c' => k j (set_cap (N.to_nat g) (i, j) c')) P); auto; [lia|].
      intros j c' Hj Hc' x' H'. apply (Hk j (set_cap (N.to_nat g) (i, j) c')); auto.
      apply set_cap_inv; auto; lia.
    - (* ROpt *)
      destruct (rx_m s fuel r i c k) as [y|] eqn:E.
      + inversion H; subst. apply (IH r i c k P); auto.
      + apply (Hk i c); auto; lia.
    - (* RStar *)
      match type of H with match ?m with _ => _ end = _ => destruct m as [y|] eqn:E end.
      + inversion H; subst.
        apply (IH r i c (fun j c' => if Nat.eqb j i then None else rx_m s fuel (RStar r) j c' k) P); auto.
        intros j c' Hj Hc' x' H'. destruct (Nat.eqb j i); [discriminate|].
        apply (IH (RStar r) j c' k P); auto; try lia.
        intros j' c'' Hj' Hc'' x'' H''. apply (Hk j' c''); auto; lia.
      + apply (Hk i c); auto; lia.
    - (* RPlus *)
      apply (IH r i c (fun j c' => if Nat.eqb j i then None else rx_m s fuel (RStar r) j c' k) P); auto.
      intros j c' Hj Hc' x' H'. destruct (Nat.eqb j i); [discriminate|].
      apply (IH (RStar r) j c' k P); auto; try lia.
      intros j' c'' Hj' Hc'' x'' H''. apply (Hk j' c''); auto; lia.
    - (* RBol *) destruct (Nat.eqb i 0); [|discriminate]. apply (Hk i c); auto; lia.
    - (* REol *) destruct (Nat.eqb i (length s)); [|discriminate]. apply (Hk i c); auto; lia.
    - (* RWb *)
      match type of H with (if ?b then _ else _) = _ => destruct b end; [|discriminate]. apply (Hk i c); auto; lia.
  Qed.
End MatcherFacts.

Lemma repeat_None_ok : forall n L, mcaps_ok n L (repeat None L).
Proof.
  intros n L. split; [|apply repeat_length].
  induction L; cbn [repeat]; constructor; auto. exact I.
Qed.

(* group 0 present, all spans well-formed, table length *)
Lemma rx_find_from_ok : forall s fuel r ng cnt start c,
  (N.to_nat (rx_ngroups r) <= ng)%nat ->
  (start + cnt = S (length s))%nat ->
  rx_find_from s cnt start fuel r ng = Some c ->
  Forall (mcap_ok (length s)) c /\ length c = S ng /\ exists a b t, c = Some (a, b) :: t.
Proof.
  intros s fuel r ng. induction cnt as [|cnt IH]; intros start c Hg Hs H; cbn [rx_find_from] in H; [discriminate|].
  destruct (rx_m s fuel r start (repeat None (S ng)) (fun j c0 => Some (j, c0))) as [[j c0]|] eqn:E.
  - assert (Hc : c = set_cap 0 (start, j) c0) by congruence. subst c. clear H.
    pose proof (rx_m_inv s (S ng) fuel r start (repeat None (S ng)) (fun j c0 => Some (j, c0))
                 (fun x => (start <= fst x /\ fst x <= length s)%nat /\ mcaps_ok (length s) (S ng) (snd x))) as X.
    cbv beta in X. specialize (X ltac:(lia) ltac:(lia) (repeat_None_ok _ _)).
    assert (Hk : forall j' c', (start <= j' /\ j' <= length s)%nat -> mcaps_ok (length s) (S ng) c' ->
                 forall x, Some (j', c') = Some x ->
                 (start <= fst x /\ fst x <= length s)%nat /\ mcaps_ok (length s) (S ng) (snd x)).
    { intros j' c' Hj Hc' x Hx. inversion Hx; subst. cbn [fst snd]. split; auto. }
    specialize (X Hk _ E). cbn [fst snd] in X. clear Hk.
    destruct X as (Hj & Hc0 & Hl).
    split; [apply set_cap_ok; auto; lia|]. split; [rewrite set_cap_length; lia|].
    destruct (set_cap_0_head (start, j) c0) as (t & ->). eauto.
  - apply (IH (S start) c Hg); auto. lia.
Qed.

Definition cap_ok (n : N) (o : option (N * N)) : Prop :=
  match o with Some (a, b) => a <= b /\ b <= n | None => True end.

Lemma rx_captures_ok : forall r s l,
  rx_captures r s = Some l ->
  Forall (cap_ok (str_len s)) l /\
  length l = S (N.to_nat (rx_ngroups r)) /\
  exists a b g, l = Some (a, b) :: g.
Proof.
  intros r s l H. unfold rx_captures, rx_find in H.
  destruct (rx_find_from s (S (length s)) 0 (rx_fuel s r) r (N.to_nat (rx_ngroups r))) as [c|] eqn:E; [|discriminate].
  inversion H; subst l. clear H.
  apply rx_find_from_ok in E; try lia. destruct E as (Hok & Hl & a & b & t & ->).
  split; [|split].
  - apply Forall_map. eapply Forall_impl; [|exact Hok].
    intros [[x y]|] Hxy; cbn [cap_to_N cap_ok mcap_ok] in *; auto. unfold str_len. lia.
  - rewrite map_length. exact Hl.
  - cbn [map cap_to_N]. eauto.
Qed.

(* the hypothesis of the scan theorems, for the executable matcher *)
Lemma rx_captures_find_wf : forall r s a b g,
  rx_captures r s = Some (Some (a, b) :: g) -> a <= b /\ b <= str_len s.
Proof.
  intros r s a b g H. apply rx_captures_ok in H. destruct H as (Hok & _ & _).
  inversion Hok as [|o l Ho _]; subst. exact Ho.
Qed.

(* the model used by the correspondence stream satisfies the scan specification *)
Lemma scan_spec_rx_lemma : forall arms s evs f,
  ScanSeq rx_captures arms s 0 evs f <-> scan_loop rx_captures (S (length s)) arms s 0 = (evs, f).
Proof.
  intros arms s evs f. apply (loop_complete rx_captures rx_captures_find_wf).
  unfold str_len. lia.
Qed.
