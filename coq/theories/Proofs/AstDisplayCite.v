(* Proofs/AstDisplayCite.v — C20 end to end WITH the statement text: the chain of a run's error, computed with
   `chain_of_error_disp` (statement texts = display_stmt of the file's statement at the cited location), renders to a text
   that contains the Display of the very statement the C20 theorems say is cited.  Glue between Proofs/AstDisplay.v
   and the error-context theorems (Proofs/ErrorCtx.v, ErrorCtxValid.v, ErrChain.v). *)
From TSG Require Import Model.Strict Model.Lazy Proofs.StrictMeta Proofs.ErrorCtx Proofs.Captures Proofs.ErrorCtxValid.
From TSG Require Import Model.ErrRender Proofs.ParseErr Proofs.ErrRender Model.ErrChain Proofs.ErrChain.
From TSG Require Import Model.AstDisplay Proofs.AstDisplay.

(* the two traversals are the same function *)
Lemma substmts_is_stmt_subs : substmts = stmt_subs.
Proof. reflexivity. Qed.
Lemma stmt_in_block st s : stmt_in st s -> In s (block_stmts (st_stmts st)).
Proof. intros H. exact H. Qed.

Lemma blocks_in_fst {A} : forall sts (ms : list (list A)) st m, In (st, m) (blocks sts ms) -> In st sts.
Proof.
  induction sts as [|x sts IH]; intros ms st m H; [destruct ms; destruct H|].
  destruct ms as [|m0 ms]; [destruct H|]. cbn [blocks] in H. apply in_app_or in H. destruct H as [H|H].
  - apply in_map_iff in H. destruct H as (y & Hy & _). inversion Hy; subst. left. reflexivity.
  - right. exact (IH ms st m H).
Qed.

Lemma strict_error_rendering_cites_disp_lemma : forall {rx : Type} t fl cfg glob (regexes : list rx) find call fuel sts ms s p e
    E cause_text node_kind node_pos other_msg w tsg_path tsg src_path src,
  call_errors_base call ->
  locs_unique fl = true -> incl sts (f_stanzas fl) ->
  exec_file t fl cfg glob regexes find call fuel sts ms s p = Err e ->
  (exists l, e = ECancelled l) \/
  exists st m, In (st, m) (blocks sts ms) /\
    match nodes_for_capture m (st_full_stanza_idx st) with
    | n :: _ =>
        exists s', stmt_in st s' /\ stmt_at fl (stmt_loc s') = Some s' /\
          let out := render_pretty w tsg_path tsg src_path src (chain_of_error_disp E fl cause_text node_kind node_pos other_msg e) in
          cites3 tsg_path src_path out (stmt_loc s') (st_start st) (node_pos n) /\
          contains (display_stmt E s') out = true
    | [] => False
    end.
Proof.
  intros rx t fl cfg glob regexes find call fuel sts ms s p e E ct nk np om w tp tsg sp src Hc Hu Hincl H.
  destruct (@strict_file_error_loc_lemma rx t fl cfg glob regexes find call fuel sts ms s p e Hc H) as [Hl|(sz & m & Hin & Hm)]; [left; exact Hl|].
  right. exists sz, m. split; [exact Hin|].
  destruct (nodes_for_capture m (st_full_stanza_idx sz)) as [|n rest]; [exact Hm|].
  destruct Hm as (s' & e0 & e1 & Hs & -> & _ & _). exists s'. split; [exact Hs|].
  assert (Hfs : In s' (file_stmts fl)).
  { apply (in_file_stmts fl sz s'); [apply Hincl; exact (blocks_in_fst _ _ _ _ Hin)|exact (stmt_in_block sz s' Hs)]. }
  split; [exact (stmt_at_unique fl s' Hu Hfs)|]. cbv zeta. split.
  - exact (chain_cites_lemma (stmt_text_of E fl) ct nk np om w tp tsg sp src _ _ (outer_in _ _ _ (in_eq _ _))).
  - exact (chain_disp_shows_stmt E fl ct nk np om w tp tsg sp src _ (mk_ctx (st_start sz) n (stmt_loc s')) s' Hu Hfs (outer_in _ _ _ (in_eq _ _)) eq_refl).
Qed.

Lemma lazy_error_rendering_cites_disp_lemma : forall {rx : Type} t fl cfg supplied budget (regexes : list rx) find call fuel ms g0 e
    E cause_text node_kind node_pos other_msg w tsg_path tsg src_path src,
  call_errors_base call ->
  locs_unique fl = true ->
  run_lazy t fl cfg supplied budget regexes find call fuel ms g0 = Err e ->
  check_globals (f_globals fl) (globals_nested supplied) = Err e \/
  (exists l, e = ECancelled l) \/
  exists cs e0, e = EInContext (CtxStmts cs) e0 /\ (length cs = 1 \/ length cs = 2)%nat /\
    Forall (fun c => valid_ctx fl ms c /\
              let out := render_pretty w tsg_path tsg src_path src (chain_of_error_disp E fl cause_text node_kind node_pos other_msg e) in
              cites3 tsg_path src_path out (sc_stmt c) (sc_stanza c) (node_pos (sc_node c)) /\
              exists s', stmt_at fl (sc_stmt c) = Some s' /\ (exists st, In st (f_stanzas fl) /\ stmt_in st s') /\
                         contains (display_stmt E s') out = true) cs.
Proof.
  intros rx t fl cfg supplied budget regexes find call fuel ms g0 e E ct nk np om w tp tsg sp src Hc Hu H.
  destruct (@run_lazy_error_valid_lemma rx t fl cfg supplied budget regexes find call fuel ms g0 e Hc H) as [Hg|[Hl|(cs & e0 & -> & _ & Hlen & Hv)]];
    [left; exact Hg|right; left; exact Hl|].
  right. right. exists cs, e0. split; [reflexivity|]. split; [exact Hlen|].
  apply Forall_forall. intros c Hin. pose proof (proj1 (Forall_forall _ _) Hv c Hin) as Hvc. split; [exact Hvc|]. cbv zeta. split.
  - exact (chain_cites_lemma (stmt_text_of E fl) ct nk np om w tp tsg sp src _ _ (outer_in _ _ _ Hin)).
  - destruct Hvc as (i & st & m & n & rest & _ & Hnth & _ & _ & _ & (s' & Hs & Hl)).
    assert (Hst : In st (f_stanzas fl)) by (eapply nth_error_In; exact Hnth).
    assert (Hfs : In s' (file_stmts fl)) by (apply (in_file_stmts fl st s' Hst), (stmt_in_block st s' Hs)).
    exists s'. split; [rewrite <- Hl; exact (stmt_at_unique fl s' Hu Hfs)|]. split; [exists st; split; assumption|].
    exact (chain_disp_shows_stmt E fl ct nk np om w tp tsg sp src _ c s' Hu Hfs (outer_in _ _ _ Hin) (eq_sym Hl)).
Qed.
