(* Proofs/AssignedStrict.v — C09, positive whole-run form for the STRICT interpreter (second audit, finding (g)).

   Ghost relation, no change to the model:  writes c s0 p0 tgt k v  =  the run of c from (s0, p0) EXECUTES the primitive
   `add_attr tgt k v` (Attributes::add on node / edge tgt — the only operation of the strict interpreter that writes an
   attribute: attribute statements, shorthand expansions and debug attributes all go through it) from a state REACHED by
   that run; the derivation (Proofs/MonoSubRun.v `msubrun`) records that everything executed around it only extends the graph.

   writes_kept: if the run of c returns Ok with final state sf, every such write is still there: target_attr sf tgt k = v.
   Hence two executed writes to the same (tgt, k) wrote the same value (writes_agree).

   Introduction rules (what counts as "written"): esub_exec_attr_write (an executed, non-shorthand `k = e` of an attribute
   statement whose e evaluated to v, at ANY nesting depth: it takes a derivation down to the exec_attr), esub_attr_node_stmt /
   esub_attr_edge_stmt (an executed `attr (node) ..` / `attr (a -> b) ..` statement), esub_top_stmt (a top-level statement of a
   stanza that the run of the file reached).  Rules descending through `if` / `for` / `scan` bodies are NOT provided. *)
From TSG Require Import Model.Strict Proofs.BaseFacts Proofs.Containers Proofs.StrictMeta Proofs.MonadFacts Proofs.DebugAttrs
  Proofs.Extends Proofs.AttrConflict Proofs.SubRun Proofs.MonoSubRun.

Definition sinv (s : sstate) : Prop := graph_wf (s_graph s).
Definition sR (s s' : sstate) : Prop := graph_ext (s_graph s) (s_graph s').
Lemma sR_refl s : sR s s. Proof. apply graph_ext_refl. Qed.
Lemma sR_trans a b c : sR a b -> sR b c -> sR a c. Proof. apply graph_ext_trans. Qed.
(* Proofs/Extends.v `ext_ok` is the instance of mono_ok *)
Lemma ext_ok_mono A (m : M sstate A) : ext_ok m <-> mono_ok sinv sR m.
Proof. split; intros H; exact H. Qed.

Notation esub := (msubrun sinv sR).

(* an attribute value of g is an attribute value of every extension of g *)
Lemma target_attr_ext g g' tgt k v : graph_ext g g' -> target_attr g tgt k = Some v -> target_attr g' tgt k = Some v.
Proof.
  intros [_ H] Ht. unfold target_attr, target_attrs, gnode_at in *. destruct tgt as [n|a b].
  - destruct (nth_error g (N.to_nat n)) as [nd|] eqn:E; [|discriminate]. destruct (H _ _ E) as (nd' & -> & [Ha _]). apply Ha. exact Ht.
  - destruct (nth_error g (N.to_nat a)) as [nd|] eqn:E; [|discriminate]. destruct (H _ _ E) as (nd' & -> & [_ He]).
    destruct (edges_get b (g_edges nd)) as [m|] eqn:Eb; [|discriminate]. destruct (He _ _ Eb) as (m' & -> & Hm). apply Hm. exact Ht.
Qed.

Lemma edges_get_set_eq b m m' es : edges_get b es = Some m -> edges_get b (edges_set b m' es) = Some m'.
Proof.
  induction es as [|[s a] es IH]; cbn [edges_get edges_set]; [discriminate|]. destruct (N.compare b s) eqn:Ec.
  - apply N.compare_eq in Ec. subst s. rewrite N.eqb_refl. cbn [edges_get]. rewrite N.compare_refl. reflexivity.
  - discriminate.
  - intros H. destruct (N.eqb_spec b s) as [->|_]; [rewrite N.compare_refl in Ec; discriminate|]. cbn [edges_get]. rewrite Ec. apply IH, H.
Qed.

(* the element's attribute map after a successful Attributes::add *)
Lemma node_attr_written g n nd k v m' :
  gnode_at g n = Some nd -> attrs_add (g_attrs nd) k v = (m', None) -> target_attr (graph_update g n (with_attrs m')) (TNode n) k = Some v.
Proof.
  intros E Ea. unfold target_attr, target_attrs. rewrite (graph_update_at _ n _ nd E). cbn [with_attrs g_attrs].
  pose proof (attr_add_then_get_lemma (g_attrs nd) k v) as Hg. rewrite Ea in Hg. exact Hg.
Qed.
Lemma edge_attr_written g a b nd m k v m' :
  gnode_at g a = Some nd -> edges_get b (g_edges nd) = Some m -> attrs_add m k v = (m', None) ->
  target_attr (graph_update g a (with_edges (edges_set b m' (g_edges nd)))) (TEdge a b) k = Some v.
Proof.
  intros E Eb Ea. unfold target_attr, target_attrs. rewrite (graph_update_at _ a _ nd E). cbn [with_edges g_edges].
  rewrite (edges_get_set_eq _ _ _ _ Eb). pose proof (attr_add_then_get_lemma m k v) as Hg. rewrite Ea in Hg. exact Hg.
Qed.

Lemma add_attr_sets tgt k v s p u s' p' : add_attr tgt k v s p = Ok (u, s', p') -> target_attr (s_graph s') tgt k = Some v.
Proof.
  intros H. unfold add_attr in H. apply bind_ok in H as (s0 & s1 & p1 & E & H). apply get_ok in E as (-> & -> & ->).
  destruct tgt as [n|x y].
  - destruct (gnode_at (s_graph s) n) as [nd|] eqn:E; [|discriminate].
    destruct (attrs_add (g_attrs nd) k v) as [m' c] eqn:Ea. destruct c; [discriminate|].
    unfold set_graph in H. apply modify_ok in H as (-> & _). cbn [s_graph]. eapply node_attr_written; eauto.
  - destruct (gnode_at (s_graph s) x) as [nd|] eqn:E; [|discriminate].
    destruct (edges_get y (g_edges nd)) as [m|] eqn:Eb; [|discriminate].
    destruct (attrs_add m k v) as [m' c] eqn:Ea. destruct c; [discriminate|].
    unfold set_graph in H. apply modify_ok in H as (-> & _). cbn [s_graph]. eapply edge_attr_written; eauto.
Qed.

(* ---- the ghost relation and the whole-run theorem ---- *)
Definition writes {A} (c : M sstate A) (s0 : sstate) (p0 : polls) (tgt : target) (k : ident) (v : value) : Prop :=
  exists s' p', esub (add_attr tgt k v) s' p' c s0 p0.

Theorem writes_kept {A} (c : M sstate A) s0 p0 tgt k v a sf pf :
  graph_wf (s_graph s0) -> c s0 p0 = Ok (a, sf, pf) -> writes c s0 p0 tgt k v -> target_attr (s_graph sf) tgt k = Some v.
Proof.
  intros Hwf E (s' & p' & H).
  destruct (msubrun_ok sinv sR sR_refl sR_trans _ _ _ _ _ _ _ (ext_add_attr tgt k v) H _ _ _ Hwf E) as (_ & _ & _ & b & s'' & p'' & Ed & Rf).
  eapply target_attr_ext; [exact Rf|]. eapply add_attr_sets; eauto.
Qed.
Theorem writes_agree {A} (c : M sstate A) s0 p0 tgt k v1 v2 a sf pf :
  graph_wf (s_graph s0) -> c s0 p0 = Ok (a, sf, pf) -> writes c s0 p0 tgt k v1 -> writes c s0 p0 tgt k v2 -> v1 = v2.
Proof.
  intros Hwf E H1 H2. pose proof (writes_kept _ _ _ _ _ _ _ _ _ Hwf E H1) as K1. pose proof (writes_kept _ _ _ _ _ _ _ _ _ Hwf E H2) as K2.
  congruence.
Qed.
(* a write inside a part of the run is a write of the run *)
Lemma writes_sub {A B} (d : M sstate B) s1 p1 (c : M sstate A) s0 p0 tgt k v :
  esub d s1 p1 c s0 p0 -> writes d s1 p1 tgt k v -> writes c s0 p0 tgt k v.
Proof. intros Hd (s' & p' & H). exists s', p'. eapply msubrun_trans; eauto. Qed.

Lemma poll_false {S} l (s : S) p : snd (poll_step l p) = false -> poll l s p = Ok (tt, s, fst (poll_step l p)).
Proof. unfold poll. destruct (poll_step l p) as [q c]. cbn [fst snd]. intros ->. reflexivity. Qed.

Section AssignedStrict.
  Context {rx : Type}.
  Variable t : tree.
  Variable fl : file.
  Variable cfg : config.
  Variable glob : globals.
  Variable regexes : list rx.
  Variable find : rx -> str -> option (list (option (N * N))).
  Variable call : ident -> graph -> list value -> res (value * graph).
  Hypothesis Hcall : call_extends call.
  Notation exec_stmt' := (exec_stmt t fl cfg glob regexes find call).
  Notation exec_attr' := (exec_attr t fl glob call).
  Notation eval' := (eval t fl glob call).
  Notation exec_stanza' := (exec_stanza t fl cfg glob regexes find call).
  Notation exec_file' := (exec_file t fl cfg glob regexes find call).

  Lemma ext_lift A (r : res A) : ext_ok (lift r).
  Proof. apply ext_same_graph. intros s p a s' p' H. apply lift_ok in H as (_ & -> & _). reflexivity. Qed.

  Ltac ext_side :=
    first
    [ exact ext_ret
    | exact ext_bind
    | (intros ? ? _; apply ext_noresult; intros ? ? ? ? ?; discriminate)
    | (intros ? ?; apply ext_noresult; intros ? ? ? ? ?; discriminate)
    | (intros ?; apply ext_noresult; intros ? ? ? ? ?; discriminate)
    | (intros ? ? ? _; apply ext_ctx)
    | (apply ext_same_graph; intros ? ? ? ? ? H; apply get_ok in H as (_ & -> & _); reflexivity)
    | (intros ?; first [unfold set_locals|unfold set_scoped|unfold set_params]; apply ext_same_graph; intros ? ? ? ? ? H;
       apply modify_ok in H as (-> & _); reflexivity)
    | exact ext_poll | exact ext_add_node | exact ext_add_attr | exact ext_add_edge | exact (ext_call call Hcall)
    | (split; [exact I|intros; exact I]) ].

  Lemma eval_ext fuel le e : ext_ok (eval' fuel le e).
  Proof. apply (Phi_eval t fl glob call (@ext_ok)); ext_side. Qed.
  Lemma exec_attr_ext fuel le tgt a : ext_ok (exec_attr' fuel le tgt a).
  Proof. apply (Phi_exec_attr t fl glob call (@ext_ok)); ext_side. Qed.
  Lemma exec_stmt_ext fuel le s : ext_ok (exec_stmt' fuel le s).
  Proof. apply (Phi_exec_stmt t fl cfg glob regexes find call (@ext_ok)) with (good_ctx := fun _ => True); ext_side. Qed.
  Lemma exec_stanza_ext fuel st m : ext_ok (exec_stanza' fuel st m).
  Proof.
    apply (Phi_exec_stanza t fl cfg glob regexes find call (@ext_ok)) with (good_ctx := fun _ => True); ext_side.
  Qed.
  Lemma clear_frame_ext : ext_ok clear_frame.
  Proof.
    apply ext_same_graph. intros s p a s' p' H. unfold clear_frame in H. apply bind_ok in H as (s0 & s1 & p1 & E & H).
    apply get_ok in E as (-> & -> & ->). unfold set_locals in H. apply modify_ok in H as (-> & _). reflexivity.
  Qed.

  (* an executed `k = e` (k not a shorthand) whose value expression evaluated to v executes add_attr tgt k v *)
  Lemma esub_exec_attr_write fuel le tgt k e s1 p1 v s2 p2 :
    snd (poll_step L_exec_attr p1) = false -> find_shorthand k (f_shorthands fl) = None ->
    eval' fuel le e s1 (fst (poll_step L_exec_attr p1)) = Ok (v, s2, p2) ->
    esub (add_attr tgt k v) s2 p2 (exec_attr' (S fuel) le tgt (Attr k e)) s1 p1.
  Proof.
    intros Hp Hs Ev. cbn [exec_attr].
    eapply ms_bind_r; [exact (ext_poll _)|apply poll_false, Hp|]. cbv beta.
    eapply ms_bind_r; [apply eval_ext|exact Ev|]. cbv beta. rewrite Hs. apply ms_here.
  Qed.

  (* the attribute list of a statement *)
  Lemma esub_exec_attrs_write fuel le tgt pre k e post s1 p1 s2 p2 v s3 p3 :
    iterM (exec_attr' (S fuel) le tgt) pre s1 p1 = Ok (tt, s2, p2) ->
    snd (poll_step L_exec_attr p2) = false -> find_shorthand k (f_shorthands fl) = None ->
    eval' fuel le e s2 (fst (poll_step L_exec_attr p2)) = Ok (v, s3, p3) ->
    esub (add_attr tgt k v) s3 p3 (iterM (exec_attr' (S fuel) le tgt) (pre ++ Attr k e :: post)) s1 p1.
  Proof.
    intros Hpre Hp Hs Ev. eapply (msubrun_iterM sinv sR sR_refl sR_trans); [intros y; apply exec_attr_ext|exact Hpre|].
    apply esub_exec_attr_write; assumption.
  Qed.

  (* `attr (node) pre.., k = e, post..` *)
  Lemma esub_attr_node_stmt fuel le node pre k e post l s p n s1 p1 s2 p2 v s3 p3 :
    snd (poll_step L_exec_stmt p) = false ->
    eval' (S fuel) le node s (fst (poll_step L_exec_stmt p)) = Ok (VGraph n, s1, p1) ->
    iterM (exec_attr' (S fuel) le (TNode n)) pre s1 p1 = Ok (tt, s2, p2) ->
    snd (poll_step L_exec_attr p2) = false -> find_shorthand k (f_shorthands fl) = None ->
    eval' fuel le e s2 (fst (poll_step L_exec_attr p2)) = Ok (v, s3, p3) ->
    esub (add_attr (TNode n) k v) s3 p3 (exec_stmt' (S (S fuel)) le (SAttrNode node (pre ++ Attr k e :: post) l)) s p.
  Proof.
    intros Hp En Hpre Hp2 Hs Ev. cbn [exec_stmt].
    eapply ms_bind_r; [exact (ext_poll _)|apply poll_false, Hp|]. cbv beta.
    eapply ms_bind_r; [apply eval_ext|exact En|]. cbv beta.
    eapply ms_bind_r; [apply ext_lift|reflexivity|]. cbv beta.
    eapply esub_exec_attrs_write; eauto.
  Qed.

  (* `attr (src -> snk) pre.., k = e, post..` *)
  Lemma esub_attr_edge_stmt fuel le src snk pre k e post l s p a b sa pa s1 p1 s2 p2 v s3 p3 :
    snd (poll_step L_exec_stmt p) = false ->
    eval' (S fuel) le src s (fst (poll_step L_exec_stmt p)) = Ok (VGraph a, sa, pa) ->
    eval' (S fuel) le snk sa pa = Ok (VGraph b, s1, p1) ->
    iterM (exec_attr' (S fuel) le (TEdge a b)) pre s1 p1 = Ok (tt, s2, p2) ->
    snd (poll_step L_exec_attr p2) = false -> find_shorthand k (f_shorthands fl) = None ->
    eval' fuel le e s2 (fst (poll_step L_exec_attr p2)) = Ok (v, s3, p3) ->
    esub (add_attr (TEdge a b) k v) s3 p3 (exec_stmt' (S (S fuel)) le (SAttrEdge src snk (pre ++ Attr k e :: post) l)) s p.
  Proof.
    intros Hp Ea Eb Hpre Hp2 Hs Ev. cbn [exec_stmt].
    eapply ms_bind_r; [exact (ext_poll _)|apply poll_false, Hp|]. cbv beta.
    eapply ms_bind_r; [apply ext_bind; [apply eval_ext|intros x; apply ext_lift]| |].
    { unfold bind. rewrite Ea. reflexivity. }
    cbv beta.
    eapply ms_bind_r; [apply ext_bind; [apply eval_ext|intros x; apply ext_lift]| |].
    { unfold bind. rewrite Eb. reflexivity. }
    cbv beta. eapply esub_exec_attrs_write; eauto.
  Qed.

  (* ---- from a top-level statement of a stanza up to the run of the file ---- *)
  Lemma esub_exec_file_app {B} (d : M sstate B) s' p' fuel st1 : forall ms1 st2 ms2 s p s1 p1, length st1 = length ms1 ->
    exec_file' fuel st1 ms1 s p = Ok (tt, s1, p1) ->
    esub d s' p' (exec_file' fuel st2 ms2) s1 p1 -> esub d s' p' (exec_file' fuel (st1 ++ st2) (ms1 ++ ms2)) s p.
  Proof.
    induction st1 as [|st st1 IH]; intros [|m ms1] st2 ms2 s p s1 p1 Hl H Hd; cbn [length] in Hl; try discriminate.
    - cbn [exec_file] in H. inversion H; subst. exact Hd.
    - cbn [app exec_file] in *. apply bind_ok in H as ([] & sa & pa & Hy & H).
      eapply ms_bind_r; [apply mono_iterM; [exact sR_refl|exact sR_trans|intros y; apply exec_stanza_ext]|exact Hy|].
      eapply IH; eauto.
  Qed.

  Lemma esub_top_stmt fuel stpre mspre st sts mpre q mpost ms s0 p0 sA pA sB pB n rest spre x spost s p :
    length stpre = length mspre ->
    exec_file' fuel stpre mspre s0 p0 = Ok (tt, sA, pA) ->
    iterM (exec_stanza' fuel st) mpre sA pA = Ok (tt, sB, pB) ->
    nodes_for_capture q (st_full_stanza_idx st) = n :: rest ->
    st_stmts st = spre ++ x :: spost ->
    exec_stanza' fuel (stanza_prefix st spre) q sB pB = Ok (tt, s, p) ->
    esub (exec_stmt' fuel (top_le st q n x) x) s p
         (exec_file' fuel (stpre ++ st :: sts) (mspre ++ (mpre ++ q :: mpost) :: ms)) s0 p0.
  Proof.
    intros Hl HA HB Hn Hst Hpre. eapply esub_exec_file_app; [exact Hl|exact HA|]. cbn [exec_file].
    apply ms_bind_l; [|intros _; apply (exec_file_extends t fl cfg glob regexes find call Hcall)].
    eapply (msubrun_iterM sinv sR sR_refl sR_trans); [intros y; apply exec_stanza_ext|exact HB|].
    unfold exec_stanza in *. cbn [stanza_prefix st_stmts st_full_stanza_idx st_start] in Hpre.
    apply bind_ok in Hpre as ([] & sc & pc & Hc & Hit).
    eapply ms_bind_r; [exact clear_frame_ext|exact Hc|]. cbv beta. rewrite Hst.
    eapply (msubrun_iterM sinv sR sR_refl sR_trans); [|exact Hit|].
    - intros y. cbv zeta. destruct (nodes_for_capture q (st_full_stanza_idx st)); [apply ext_noresult; intros ? ? ? ? ?; discriminate|].
      apply ext_ctx, exec_stmt_ext.
    - cbv zeta. rewrite Hn. apply ms_ctx. apply ms_here.
  Qed.
End AssignedStrict.

(* ---- whole strict run ---- *)
Definition assigned_strict {rx} t fl cfg supplied budget (regexes : list rx) find call fuel matches g0 (tgt : target) (k : ident) (v : value) : Prop :=
  exists glob, check_globals (f_globals fl) (globals_nested supplied) = Ok glob /\
    writes (exec_file t fl cfg glob regexes find call fuel (f_stanzas fl) matches) (sinit g0) (polls0 budget) tgt k v.

Theorem strict_ok_run_keeps_lemma {rx} t fl cfg supplied budget (regexes : list rx) find call fuel matches g0 s p tgt k v :
  graph_wf g0 ->
  run_strict t fl cfg supplied budget regexes find call fuel matches g0 = Ok (s, p) ->
  assigned_strict t fl cfg supplied budget regexes find call fuel matches g0 tgt k v ->
  target_attr (s_graph s) tgt k = Some v.
Proof.
  intros Hwf Hrun (glob & Hg & Hw). unfold run_strict in Hrun. rewrite Hg in Hrun.
  destruct (exec_file _ _ _ _ _ _ _ _ _ _ (sinit g0) (polls0 budget)) as [[[u s1] p1]| | |] eqn:E; try discriminate.
  inversion Hrun; subst. exact (writes_kept _ (sinit g0) _ _ _ _ _ _ _ Hwf E Hw).
Qed.

(* a top-level `attr (node) ..` statement the run reached, whose `k = e` was executed with value v, is an assignment of the run *)
Lemma strict_top_attr_node_assigned {rx} t fl cfg supplied budget (regexes : list rx) find call fuel matches g0 glob
    stpre mspre st sts mpre q mpost ms sA pA sB pB n rest spre spost s p node pre k e post l gn s1 p1 s2 p2 v s3 p3 :
  call_extends call ->
  check_globals (f_globals fl) (globals_nested supplied) = Ok glob ->
  f_stanzas fl = stpre ++ st :: sts -> matches = mspre ++ (mpre ++ q :: mpost) :: ms -> length stpre = length mspre ->
  exec_file t fl cfg glob regexes find call (S (S fuel)) stpre mspre (sinit g0) (polls0 budget) = Ok (tt, sA, pA) ->
  iterM (exec_stanza t fl cfg glob regexes find call (S (S fuel)) st) mpre sA pA = Ok (tt, sB, pB) ->
  nodes_for_capture q (st_full_stanza_idx st) = n :: rest ->
  let x := SAttrNode node (pre ++ Attr k e :: post) l in
  let le := top_le st q n x in
  st_stmts st = spre ++ x :: spost ->
  exec_stanza t fl cfg glob regexes find call (S (S fuel)) (stanza_prefix st spre) q sB pB = Ok (tt, s, p) ->
  snd (poll_step L_exec_stmt p) = false ->
  eval t fl glob call (S fuel) le node s (fst (poll_step L_exec_stmt p)) = Ok (VGraph gn, s1, p1) ->
  iterM (exec_attr t fl glob call (S fuel) le (TNode gn)) pre s1 p1 = Ok (tt, s2, p2) ->
  snd (poll_step L_exec_attr p2) = false -> find_shorthand k (f_shorthands fl) = None ->
  eval t fl glob call fuel le e s2 (fst (poll_step L_exec_attr p2)) = Ok (v, s3, p3) ->
  assigned_strict t fl cfg supplied budget regexes find call (S (S fuel)) matches g0 (TNode gn) k v.
Proof.
  intros Hc Hg Hf Hm Hl HA HB Hn x le Hst Hpre Hp En Hit Hp2 Hs Ev. exists glob. split; [exact Hg|]. rewrite Hf, Hm.
  eapply writes_sub; [eapply (esub_top_stmt t fl cfg glob regexes find call Hc); eauto|].
  exists s3, p3. eapply (esub_attr_node_stmt t fl cfg glob regexes find call Hc); eauto.
Qed.

Lemma strict_top_attr_edge_assigned {rx} t fl cfg supplied budget (regexes : list rx) find call fuel matches g0 glob
    stpre mspre st sts mpre q mpost ms sA pA sB pB n rest spre spost s p src snk pre k e post l a b sa pa s1 p1 s2 p2 v s3 p3 :
  call_extends call ->
  check_globals (f_globals fl) (globals_nested supplied) = Ok glob ->
  f_stanzas fl = stpre ++ st :: sts -> matches = mspre ++ (mpre ++ q :: mpost) :: ms -> length stpre = length mspre ->
  exec_file t fl cfg glob regexes find call (S (S fuel)) stpre mspre (sinit g0) (polls0 budget) = Ok (tt, sA, pA) ->
  iterM (exec_stanza t fl cfg glob regexes find call (S (S fuel)) st) mpre sA pA = Ok (tt, sB, pB) ->
  nodes_for_capture q (st_full_stanza_idx st) = n :: rest ->
  let x := SAttrEdge src snk (pre ++ Attr k e :: post) l in
  let le := top_le st q n x in
  st_stmts st = spre ++ x :: spost ->
  exec_stanza t fl cfg glob regexes find call (S (S fuel)) (stanza_prefix st spre) q sB pB = Ok (tt, s, p) ->
  snd (poll_step L_exec_stmt p) = false ->
  eval t fl glob call (S fuel) le src s (fst (poll_step L_exec_stmt p)) = Ok (VGraph a, sa, pa) ->
  eval t fl glob call (S fuel) le snk sa pa = Ok (VGraph b, s1, p1) ->
  iterM (exec_attr t fl glob call (S fuel) le (TEdge a b)) pre s1 p1 = Ok (tt, s2, p2) ->
  snd (poll_step L_exec_attr p2) = false -> find_shorthand k (f_shorthands fl) = None ->
  eval t fl glob call fuel le e s2 (fst (poll_step L_exec_attr p2)) = Ok (v, s3, p3) ->
  assigned_strict t fl cfg supplied budget regexes find call (S (S fuel)) matches g0 (TEdge a b) k v.
Proof.
  intros Hc Hg Hf Hm Hl HA HB Hn x le Hst Hpre Hp Ea Eb Hit Hp2 Hs Ev. exists glob. split; [exact Hg|]. rewrite Hf, Hm.
  eapply writes_sub; [eapply (esub_top_stmt t fl cfg glob regexes find call Hc); eauto|].
  exists s3, p3. eapply (esub_attr_edge_stmt t fl cfg glob regexes find call Hc); eauto.
Qed.
