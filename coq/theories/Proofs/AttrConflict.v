(* Proofs/AttrConflict.v — C09 at statement level: an attribute statement whose value differs from the value the
   graph element already has FAILS with DuplicateAttribute (it neither succeeds nor overwrites); an equal value is
   accepted and leaves the graph as it is.  Strict: exec_attr / exec_stmt / exec_stanza.  Lazy: the evaluation of the
   deferred attribute statements (eval_lstmt), whoever set the old value (this run or the caller of execute_into). *)
From TSG Require Import Model.Strict Model.Lazy Proofs.BaseFacts Proofs.MonadFacts Proofs.Containers Proofs.DebugAttrs.

(* the attribute map of a graph element *)
Definition target_attrs (g : graph) (tgt : target) : option amap :=
  match tgt with
  | TNode n => match gnode_at g n with Some nd => Some (g_attrs nd) | None => None end
  | TEdge a b => match gnode_at g a with Some nd => edges_get b (g_edges nd) | None => None end
  end.
Definition target_attr (g : graph) (tgt : target) (k : ident) : option value :=
  match target_attrs g tgt with Some m => attrs_get m k | None => None end.

Lemma list_update_same {A} n (f : A -> A) l x : nth_error l n = Some x -> f x = x -> list_update n f l = l.
Proof.
  revert n. induction l as [|y l IH]; intros [|n] H Hf; cbn [list_update nth_error] in *; try discriminate.
  - inversion H; subst. rewrite Hf. reflexivity.
  - rewrite (IH n H Hf). reflexivity.
Qed.
Lemma graph_update_same g n f nd : gnode_at g n = Some nd -> f nd = nd -> graph_update g n f = g.
Proof. intros H Hf. unfold graph_update. eapply list_update_same; eauto. Qed.
Lemma edges_set_same b m es : edges_get b es = Some m -> edges_set b m es = es.
Proof.
  induction es as [|[s a] es IH]; cbn [edges_get edges_set]; [discriminate|].
  destruct (N.compare_spec b s) as [->|Hlt|Hgt]; intros H.
  - inversion H; subst. rewrite N.eqb_refl. reflexivity.
  - discriminate.
  - destruct (N.eqb_spec b s); [lia|]. rewrite (IH H). reflexivity.
Qed.
Lemma with_attrs_same nd : with_attrs (g_attrs nd) nd = nd.
Proof. destruct nd as [a e]. reflexivity. Qed.
Lemma with_edges_same nd : with_edges (g_edges nd) nd = nd.
Proof. destruct nd as [a e]. reflexivity. Qed.

Lemma attrs_add_conflict m k v old : attrs_get m k = Some old -> old <> v -> exists m', attrs_add m k v = (m', Some old).
Proof.
  unfold attrs_get, attrs_add. intros -> Hne. apply value_eqb_neq in Hne. rewrite Hne. eexists. reflexivity.
Qed.
Lemma attrs_add_equal m k v : attrs_get m k = Some v -> attrs_add m k v = (m, None).
Proof. unfold attrs_get, attrs_add. intros ->. rewrite value_eqb_refl. reflexivity. Qed.

Lemma iterM_app {S A} (f : A -> M S unit) l1 l2 s p :
  iterM f (l1 ++ l2) s p = bind (iterM f l1) (fun _ => iterM f l2) s p.
Proof.
  revert s p. induction l1 as [|x l1 IH]; intros s p; cbn [app iterM]; [reflexivity|].
  unfold bind in *. destruct (f x s p) as [[[u s1] p1]| | |]; try reflexivity. apply IH.
Qed.

Lemma root_cause_add_context c e : root_cause (add_context c e) = root_cause e.
Proof. destruct e; try reflexivity. cbn [add_context]. destruct c0; reflexivity. Qed.

(* ================= strict ================= *)
Section StrictAttr.
  Context {rx : Type}.
  Variable t : tree.
  Variable fl : file.
  Variable cfg : config.
  Variable glob : globals.
  Variable regexes : list rx.
  Variable find : rx -> str -> option (list (option (N * N))).
  Variable call : ident -> graph -> list value -> res (value * graph).
  Notation exec_stmt' := (exec_stmt t fl cfg glob regexes find call).
  Notation exec_attr' := (exec_attr t fl glob call).
  Notation eval' := (eval t fl glob call).

  Lemma add_attr_conflict tgt k v s p old :
    target_attr (s_graph s) tgt k = Some old -> old <> v -> add_attr tgt k v s p = Err EDuplicateAttribute.
  Proof.
    unfold target_attr, target_attrs, add_attr, bind, get_state. intros H Hne. destruct tgt as [n|a b].
    - destruct (gnode_at (s_graph s) n) as [nd|]; [|discriminate].
      destruct (attrs_add_conflict _ _ _ _ H Hne) as [m' ->]. reflexivity.
    - destruct (gnode_at (s_graph s) a) as [nd|]; [|discriminate]. destruct (edges_get b (g_edges nd)) as [m|]; [|discriminate].
      destruct (attrs_add_conflict _ _ _ _ H Hne) as [m' ->]. reflexivity.
  Qed.
  Lemma add_attr_equal tgt k v s p :
    target_attr (s_graph s) tgt k = Some v ->
    add_attr tgt k v s p = Ok (tt, {| s_graph := s_graph s; s_locals := s_locals s; s_scoped := s_scoped s; s_params := s_params s |}, p).
  Proof.
    unfold target_attr, target_attrs, add_attr, bind, get_state. intros H. destruct tgt as [n|a b].
    - destruct (gnode_at (s_graph s) n) as [nd|] eqn:En; [|discriminate].
      rewrite (attrs_add_equal _ _ _ H). unfold set_graph, modify.
      rewrite (graph_update_same _ _ _ nd En (with_attrs_same nd)). reflexivity.
    - destruct (gnode_at (s_graph s) a) as [nd|] eqn:En; [|discriminate]. destruct (edges_get b (g_edges nd)) as [m|] eqn:Eb; [|discriminate].
      rewrite (attrs_add_equal _ _ _ H). unfold set_graph, modify.
      rewrite (edges_set_same _ _ _ Eb). rewrite (graph_update_same _ _ _ nd En (with_edges_same nd)). reflexivity.
  Qed.

  (* one attribute `k = e` of an attribute statement (k is not a shorthand) *)
  Lemma exec_attr_conflict fuel le tgt k e s p v s1 p1 old :
    snd (poll_step L_exec_attr p) = false -> find_shorthand k (f_shorthands fl) = None ->
    eval' fuel le e s (fst (poll_step L_exec_attr p)) = Ok (v, s1, p1) ->
    target_attr (s_graph s1) tgt k = Some old -> old <> v ->
    exec_attr' (S fuel) le tgt (Attr k e) s p = Err EDuplicateAttribute.
  Proof.
    intros Hp Hs E Ht Hne. cbn [exec_attr].
    unfold bind at 1. unfold poll. destruct (poll_step L_exec_attr p) as [p0 c]. cbn [snd fst] in *. subst c.
    unfold bind at 1. rewrite E, Hs. eapply add_attr_conflict; eauto.
  Qed.
  Lemma exec_attr_equal fuel le tgt k e s p v s1 p1 :
    snd (poll_step L_exec_attr p) = false -> find_shorthand k (f_shorthands fl) = None ->
    eval' fuel le e s (fst (poll_step L_exec_attr p)) = Ok (v, s1, p1) ->
    target_attr (s_graph s1) tgt k = Some v ->
    exec_attr' (S fuel) le tgt (Attr k e) s p =
    Ok (tt, {| s_graph := s_graph s1; s_locals := s_locals s1; s_scoped := s_scoped s1; s_params := s_params s1 |}, p1).
  Proof.
    intros Hp Hs E Ht. cbn [exec_attr].
    unfold bind at 1. unfold poll. destruct (poll_step L_exec_attr p) as [p0 c]. cbn [snd fst] in *. subst c.
    unfold bind at 1. rewrite E, Hs. apply add_attr_equal, Ht.
  Qed.

  (* the attribute list of a statement: the attributes before the conflicting one ran (to s2), the conflicting one fails,
     the ones after it are never run *)
  Lemma exec_attrs_conflict fuel le tgt pre k e post s1 p1 s2 p2 v s3 p3 old :
    iterM (exec_attr' (S fuel) le tgt) pre s1 p1 = Ok (tt, s2, p2) ->
    snd (poll_step L_exec_attr p2) = false -> find_shorthand k (f_shorthands fl) = None ->
    eval' fuel le e s2 (fst (poll_step L_exec_attr p2)) = Ok (v, s3, p3) ->
    target_attr (s_graph s3) tgt k = Some old -> old <> v ->
    iterM (exec_attr' (S fuel) le tgt) (pre ++ Attr k e :: post) s1 p1 = Err EDuplicateAttribute.
  Proof.
    intros Hpre Hp Hs E Ht Hne. rewrite iterM_app. unfold bind at 1. rewrite Hpre. cbn [iterM]. unfold bind at 1.
    erewrite exec_attr_conflict; eauto.
  Qed.

  (* `attr (node) pre.., k = e, post..` *)
  Lemma strict_attr_node_conflict fuel le node pre k e post l s p n s1 p1 s2 p2 v s3 p3 old :
    snd (poll_step L_exec_stmt p) = false ->
    eval' (S fuel) le node s (fst (poll_step L_exec_stmt p)) = Ok (VGraph n, s1, p1) ->
    iterM (exec_attr' (S fuel) le (TNode n)) pre s1 p1 = Ok (tt, s2, p2) ->
    snd (poll_step L_exec_attr p2) = false -> find_shorthand k (f_shorthands fl) = None ->
    eval' fuel le e s2 (fst (poll_step L_exec_attr p2)) = Ok (v, s3, p3) ->
    target_attr (s_graph s3) (TNode n) k = Some old -> old <> v ->
    exec_stmt' (S (S fuel)) le (SAttrNode node (pre ++ Attr k e :: post) l) s p = Err EDuplicateAttribute.
  Proof.
    intros Hp En Hpre Hp2 Hs E Ht Hne. cbn [exec_stmt].
    unfold bind at 1. unfold poll. destruct (poll_step L_exec_stmt p) as [p0 c]. cbn [snd fst] in *. subst c.
    unfold bind at 1. rewrite En. unfold bind at 1. unfold lift at 1. cbn [as_gnode].
    eapply exec_attrs_conflict; eauto.
  Qed.
  Lemma strict_attr_node_equal fuel le node k e l s p n s1 p1 v s2 p2 :
    snd (poll_step L_exec_stmt p) = false ->
    eval' (S fuel) le node s (fst (poll_step L_exec_stmt p)) = Ok (VGraph n, s1, p1) ->
    snd (poll_step L_exec_attr p1) = false -> find_shorthand k (f_shorthands fl) = None ->
    eval' fuel le e s1 (fst (poll_step L_exec_attr p1)) = Ok (v, s2, p2) ->
    target_attr (s_graph s2) (TNode n) k = Some v ->
    exec_stmt' (S (S fuel)) le (SAttrNode node [Attr k e] l) s p =
    Ok (tt, {| s_graph := s_graph s2; s_locals := s_locals s2; s_scoped := s_scoped s2; s_params := s_params s2 |}, p2).
  Proof.
    intros Hp En Hp2 Hs E Ht. cbn [exec_stmt].
    unfold bind at 1. unfold poll. destruct (poll_step L_exec_stmt p) as [p0 c]. cbn [snd fst] in *. subst c.
    unfold bind at 1. rewrite En. unfold bind at 1. unfold lift at 1. cbn [as_gnode iterM].
    unfold bind at 1. erewrite exec_attr_equal; eauto. reflexivity.
  Qed.

  (* `attr (src -> snk) pre.., k = e, post..` *)
  Lemma strict_attr_edge_conflict fuel le src snk pre k e post l s p a b sa pa s1 p1 s2 p2 v s3 p3 old :
    snd (poll_step L_exec_stmt p) = false ->
    eval' (S fuel) le src s (fst (poll_step L_exec_stmt p)) = Ok (VGraph a, sa, pa) ->
    eval' (S fuel) le snk sa pa = Ok (VGraph b, s1, p1) ->
    iterM (exec_attr' (S fuel) le (TEdge a b)) pre s1 p1 = Ok (tt, s2, p2) ->
    snd (poll_step L_exec_attr p2) = false -> find_shorthand k (f_shorthands fl) = None ->
    eval' fuel le e s2 (fst (poll_step L_exec_attr p2)) = Ok (v, s3, p3) ->
    target_attr (s_graph s3) (TEdge a b) k = Some old -> old <> v ->
    exec_stmt' (S (S fuel)) le (SAttrEdge src snk (pre ++ Attr k e :: post) l) s p = Err EDuplicateAttribute.
  Proof.
    intros Hp Ea Eb Hpre Hp2 Hs E Ht Hne. cbn [exec_stmt].
    unfold bind at 1. unfold poll. destruct (poll_step L_exec_stmt p) as [p0 c]. cbn [snd fst] in *. subst c.
    unfold bind at 1. unfold bind at 1. rewrite Ea. unfold lift at 1. cbn [as_gnode].
    unfold bind at 1. unfold bind at 1. rewrite Eb. unfold lift at 1. cbn [as_gnode].
    eapply exec_attrs_conflict; eauto.
  Qed.
  Lemma strict_attr_edge_equal fuel le src snk k e l s p a b sa pa s1 p1 v s2 p2 :
    snd (poll_step L_exec_stmt p) = false ->
    eval' (S fuel) le src s (fst (poll_step L_exec_stmt p)) = Ok (VGraph a, sa, pa) ->
    eval' (S fuel) le snk sa pa = Ok (VGraph b, s1, p1) ->
    snd (poll_step L_exec_attr p1) = false -> find_shorthand k (f_shorthands fl) = None ->
    eval' fuel le e s1 (fst (poll_step L_exec_attr p1)) = Ok (v, s2, p2) ->
    target_attr (s_graph s2) (TEdge a b) k = Some v ->
    exec_stmt' (S (S fuel)) le (SAttrEdge src snk [Attr k e] l) s p =
    Ok (tt, {| s_graph := s_graph s2; s_locals := s_locals s2; s_scoped := s_scoped s2; s_params := s_params s2 |}, p2).
  Proof.
    intros Hp Ea Eb Hp2 Hs E Ht. cbn [exec_stmt].
    unfold bind at 1. unfold poll. destruct (poll_step L_exec_stmt p) as [p0 c]. cbn [snd fst] in *. subst c.
    unfold bind at 1. unfold bind at 1. rewrite Ea. unfold lift at 1. cbn [as_gnode].
    unfold bind at 1. unfold bind at 1. rewrite Eb. unfold lift at 1. cbn [as_gnode iterM].
    unfold bind at 1. erewrite exec_attr_equal; eauto. reflexivity.
  Qed.

  (* a failing top-level statement makes the stanza fail: same root cause, and none of the later statements runs *)
  Lemma exec_stanza_stmt_fails fuel st m n rest spre x spost s0 p0 s p e :
    nodes_for_capture m (st_full_stanza_idx st) = n :: rest ->
    st_stmts st = spre ++ x :: spost ->
    exec_stanza t fl cfg glob regexes find call fuel {| st_stmts := spre; st_full_stanza_idx := st_full_stanza_idx st;
                                                       st_full_file_idx := st_full_file_idx st; st_start := st_start st |} m s0 p0 = Ok (tt, s, p) ->
    exec_stmt' fuel {| le_match := m; le_full := st_full_stanza_idx st; le_caps := [];
                       le_ctx := {| sc_stmt := stmt_loc x; sc_stanza := st_start st; sc_node := n |} |} x s p = Err e ->
    exists e', exec_stanza t fl cfg glob regexes find call fuel st m s0 p0 = Err e' /\ root_cause e' = root_cause e.
  Proof.
    intros Hn Hst Hpre Hx. unfold exec_stanza in *. cbn [st_stmts st_full_stanza_idx st_start] in Hpre. rewrite Hst.
    unfold bind at 1. unfold bind at 1 in Hpre. destruct (clear_frame s0 p0) as [[[u sc] pc]| | |]; try discriminate.
    rewrite iterM_app. unfold bind at 1. rewrite Hpre. cbn [iterM]. unfold bind at 1. rewrite Hn.
    unfold ctx_wrap at 1. unfold le_with_ctx at 1. cbn [le_match le_full le_caps]. rewrite Hx.
    eexists. split; [reflexivity|]. apply root_cause_add_context.
  Qed.
End StrictAttr.

(* ================= lazy: evaluation of the deferred attribute statements ================= *)
Section LazyAttr.
  Variable t : tree.
  Variable fl : file.
  Variable call : ident -> graph -> list value -> res (value * graph).
  Notation eval_lstmt' := (eval_lstmt t fl call).
  Notation eval_lv' := (eval_lv t fl call).
  Notation eval_as_gnode' := (eval_as_gnode t fl call).

  (* the error of a conflict: DuplicateAttribute inside the statement context(s): the statement that set the old
     value in this run, if any (none if the attribute was on the graph passed to execute_into), then this statement *)
  Definition dup_attr_error (prev : option stmt_ctx) (dbg : stmt_ctx) : exec_error :=
    EInContext (CtxStmts (match prev with Some p => [p; dbg] | None => [dbg] end)) EDuplicateAttribute.

  Lemma prev_insert_eq k dbg s p : exists o s', prev_insert k dbg s p = Ok (o, s', p) /\ l_graph s' = l_graph s.
  Proof. unfold prev_insert, bind, get_state, set_lprev, Lazy.upd, modify, ret. eexists. eexists. split; reflexivity. Qed.

  Lemma lattr_node_add_conflict n k v prev dbg s p old :
    target_attr (l_graph s) (TNode n) k = Some old -> old <> v ->
    lattr_node_add n k v prev dbg s p = Err (dup_attr_error prev dbg).
  Proof.
    unfold target_attr, target_attrs, lattr_node_add, bind, get_state. intros H Hne.
    destruct (gnode_at (l_graph s) n) as [nd|]; [|discriminate].
    destruct (attrs_add_conflict _ _ _ _ H Hne) as [m' ->]. reflexivity.
  Qed.
  Lemma lattr_node_add_equal n k v prev dbg s p :
    target_attr (l_graph s) (TNode n) k = Some v ->
    exists s', lattr_node_add n k v prev dbg s p = Ok (tt, s', p) /\ l_graph s' = l_graph s.
  Proof.
    unfold target_attr, target_attrs, lattr_node_add, bind, get_state. intros H.
    destruct (gnode_at (l_graph s) n) as [nd|] eqn:En; [|discriminate].
    rewrite (attrs_add_equal _ _ _ H). unfold set_lgraph, Lazy.upd, modify.
    rewrite (graph_update_same _ _ _ nd En (with_attrs_same nd)). eexists. split; reflexivity.
  Qed.
  Lemma lattr_edge_add_conflict a b k v prev dbg s p old :
    target_attr (l_graph s) (TEdge a b) k = Some old -> old <> v ->
    lattr_edge_add a b k v prev dbg s p = Err (dup_attr_error prev dbg).
  Proof.
    unfold target_attr, target_attrs, lattr_edge_add, bind, get_state. intros H Hne.
    destruct (gnode_at (l_graph s) a) as [nd|]; [|discriminate]. destruct (edges_get b (g_edges nd)) as [m|]; [|discriminate].
    destruct (attrs_add_conflict _ _ _ _ H Hne) as [m' ->]. reflexivity.
  Qed.
  Lemma lattr_edge_add_equal a b k v prev dbg s p :
    target_attr (l_graph s) (TEdge a b) k = Some v ->
    exists s', lattr_edge_add a b k v prev dbg s p = Ok (tt, s', p) /\ l_graph s' = l_graph s.
  Proof.
    unfold target_attr, target_attrs, lattr_edge_add, bind, get_state. intros H.
    destruct (gnode_at (l_graph s) a) as [nd|] eqn:En; [|discriminate]. destruct (edges_get b (g_edges nd)) as [m|] eqn:Eb; [|discriminate].
    rewrite (attrs_add_equal _ _ _ H). unfold set_lgraph, Lazy.upd, modify.
    rewrite (edges_set_same _ _ _ Eb). rewrite (graph_update_same _ _ _ nd En (with_edges_same nd)). eexists. split; reflexivity.
  Qed.
  Lemma ledge_exists_true a b k s p x : target_attr (l_graph s) (TEdge a b) k = Some x -> ledge_exists a b s p = Ok (true, s, p).
  Proof.
    unfold target_attr, target_attrs, ledge_exists, bind, get_state, ret. intros H.
    destruct (gnode_at (l_graph s) a) as [nd|]; [|discriminate]. destruct (edges_get b (g_edges nd)); [reflexivity|discriminate].
  Qed.

  (* the per-attribute step of eval_lstmt *)
  Definition node_attr_step fuel n dbg : ident * lvalue -> M lstate unit := fun a =>
    v <- eval_lv' fuel (snd a) ;; prev <- prev_insert (KNode n (fst a)) dbg ;; lattr_node_add n (fst a) v prev dbg.
  Definition edge_attr_step fuel a b dbg : ident * lvalue -> M lstate unit := fun ak =>
    v <- eval_lv' fuel (snd ak) ;;
    ex <- ledge_exists a b ;;
    if ex then prev <- prev_insert (KEdge a b (fst ak)) dbg ;; lattr_edge_add a b (fst ak) v prev dbg
    else fail EUndefinedEdge.

  Lemma lazy_attr_node_conflict fuel node pre k lv post dbg s p n s1 p1 s2 p2 v s3 p3 old :
    snd (poll_step L_eval_stmt p) = false ->
    eval_as_gnode' fuel node s (fst (poll_step L_eval_stmt p)) = Ok (n, s1, p1) ->
    iterM (node_attr_step fuel n dbg) pre s1 p1 = Ok (tt, s2, p2) ->
    eval_lv' fuel lv s2 p2 = Ok (v, s3, p3) ->
    target_attr (l_graph s3) (TNode n) k = Some old -> old <> v ->
    exists prev, eval_lstmt' fuel (LSAttrNode node (pre ++ (k, lv) :: post) dbg) s p = Err (dup_attr_error prev dbg).
  Proof.
    intros Hp En Hpre E Ht Hne. unfold eval_lstmt.
    unfold bind at 1. unfold lpoll, poll. destruct (poll_step L_eval_stmt p) as [p0 c]. cbn [snd fst] in *. subst c.
    unfold ctx_wrap at 1. unfold bind at 1. unfold ctx_wrap at 1. rewrite En.
    fold (node_attr_step fuel n dbg). rewrite iterM_app. unfold bind at 1. rewrite Hpre. cbn [iterM]. unfold bind at 1.
    unfold node_attr_step at 1. cbn [fst snd]. unfold bind at 1. rewrite E.
    destruct (prev_insert_eq (KNode n k) dbg s3 p3) as (o & s4 & Epi & Hg). unfold bind at 1. rewrite Epi.
    rewrite (lattr_node_add_conflict n k v o dbg s4 p3 old); [|rewrite Hg; exact Ht|exact Hne].
    exists o. reflexivity.
  Qed.
  Lemma lazy_attr_node_equal fuel node k lv dbg s p n s1 p1 v s2 p2 :
    snd (poll_step L_eval_stmt p) = false ->
    eval_as_gnode' fuel node s (fst (poll_step L_eval_stmt p)) = Ok (n, s1, p1) ->
    eval_lv' fuel lv s1 p1 = Ok (v, s2, p2) ->
    target_attr (l_graph s2) (TNode n) k = Some v ->
    exists s', eval_lstmt' fuel (LSAttrNode node [(k, lv)] dbg) s p = Ok (tt, s', p2) /\ l_graph s' = l_graph s2.
  Proof.
    intros Hp En E Ht. unfold eval_lstmt.
    unfold bind at 1. unfold lpoll, poll. destruct (poll_step L_eval_stmt p) as [p0 c]. cbn [snd fst] in *. subst c.
    unfold ctx_wrap at 1. unfold bind at 1. unfold ctx_wrap at 1. rewrite En.
    cbn [iterM fst snd]. unfold bind at 1. unfold bind at 1. rewrite E.
    destruct (prev_insert_eq (KNode n k) dbg s2 p2) as (o & s3 & Epi & Hg). unfold bind at 1. rewrite Epi.
    destruct (lattr_node_add_equal n k v o dbg s3 p2) as (s4 & E4 & Hg4); [rewrite Hg; exact Ht|].
    rewrite E4. exists s4. split; [reflexivity|congruence].
  Qed.

  Lemma lazy_attr_edge_conflict fuel src snk pre k lv post dbg s p a b sa pa s1 p1 s2 p2 v s3 p3 old :
    snd (poll_step L_eval_stmt p) = false ->
    eval_as_gnode' fuel src s (fst (poll_step L_eval_stmt p)) = Ok (a, sa, pa) ->
    eval_as_gnode' fuel snk sa pa = Ok (b, s1, p1) ->
    iterM (edge_attr_step fuel a b dbg) pre s1 p1 = Ok (tt, s2, p2) ->
    eval_lv' fuel lv s2 p2 = Ok (v, s3, p3) ->
    target_attr (l_graph s3) (TEdge a b) k = Some old -> old <> v ->
    exists prev, eval_lstmt' fuel (LSAttrEdge src snk (pre ++ (k, lv) :: post) dbg) s p = Err (dup_attr_error prev dbg).
  Proof.
    intros Hp Ea Eb Hpre E Ht Hne. unfold eval_lstmt.
    unfold bind at 1. unfold lpoll, poll. destruct (poll_step L_eval_stmt p) as [p0 c]. cbn [snd fst] in *. subst c.
    unfold ctx_wrap at 1. unfold bind at 1. unfold ctx_wrap at 1. rewrite Ea.
    unfold bind at 1. unfold ctx_wrap at 1. rewrite Eb.
    fold (edge_attr_step fuel a b dbg). rewrite iterM_app. unfold bind at 1. rewrite Hpre. cbn [iterM]. unfold bind at 1.
    unfold edge_attr_step at 1. cbn [fst snd]. unfold bind at 1. rewrite E.
    unfold bind at 1. rewrite (ledge_exists_true a b k s3 p3 old Ht).
    destruct (prev_insert_eq (KEdge a b k) dbg s3 p3) as (o & s4 & Epi & Hg). unfold bind at 1. rewrite Epi.
    rewrite (lattr_edge_add_conflict a b k v o dbg s4 p3 old); [|rewrite Hg; exact Ht|exact Hne].
    exists o. reflexivity.
  Qed.
  Lemma lazy_attr_edge_equal fuel src snk k lv dbg s p a b sa pa s1 p1 v s2 p2 :
    snd (poll_step L_eval_stmt p) = false ->
    eval_as_gnode' fuel src s (fst (poll_step L_eval_stmt p)) = Ok (a, sa, pa) ->
    eval_as_gnode' fuel snk sa pa = Ok (b, s1, p1) ->
    eval_lv' fuel lv s1 p1 = Ok (v, s2, p2) ->
    target_attr (l_graph s2) (TEdge a b) k = Some v ->
    exists s', eval_lstmt' fuel (LSAttrEdge src snk [(k, lv)] dbg) s p = Ok (tt, s', p2) /\ l_graph s' = l_graph s2.
  Proof.
    intros Hp Ea Eb E Ht. unfold eval_lstmt.
    unfold bind at 1. unfold lpoll, poll. destruct (poll_step L_eval_stmt p) as [p0 c]. cbn [snd fst] in *. subst c.
    unfold ctx_wrap at 1. unfold bind at 1. unfold ctx_wrap at 1. rewrite Ea.
    unfold bind at 1. unfold ctx_wrap at 1. rewrite Eb.
    cbn [iterM fst snd]. unfold bind at 1. unfold bind at 1. rewrite E.
    unfold bind at 1. rewrite (ledge_exists_true a b k s2 p2 v Ht).
    destruct (prev_insert_eq (KEdge a b k) dbg s2 p2) as (o & s3 & Epi & Hg). unfold bind at 1. rewrite Epi.
    destruct (lattr_edge_add_equal a b k v o dbg s3 p2) as (s4 & E4 & Hg4); [rewrite Hg; exact Ht|].
    rewrite E4. exists s4. split; [reflexivity|congruence].
  Qed.

  (* a failing deferred statement makes the evaluation phase fail with the same error: the evaluation phase runs the edge
     statements, then the attribute statements, in the order they were recorded *)
  Lemma evaluate_phase_attr_fails fuel s p s1 p1 apre x apost e :
    iterM (eval_lstmt' fuel) (l_edges s) s p = Ok (tt, s1, p1) ->
    l_attrs s = apre ++ x :: apost ->
    forall s2 p2, iterM (eval_lstmt' fuel) apre s1 p1 = Ok (tt, s2, p2) ->
    eval_lstmt' fuel x s2 p2 = Err e ->
    evaluate_phase t fl call fuel s p = Err e.
  Proof.
    intros He Ha s2 p2 Hpre Hx. unfold evaluate_phase. unfold bind at 1. unfold get_state at 1.
    unfold bind at 1. rewrite He. rewrite Ha. unfold bind at 1. rewrite iterM_app. unfold bind at 1. rewrite Hpre.
    cbn [iterM]. unfold bind at 1. rewrite Hx. reflexivity.
  Qed.
End LazyAttr.

(* ================= run level: a failing stanza / deferred statement makes the RUN fail ================= *)
Section RunStrict.
  Context {rx : Type}.
  Variable t : tree.
  Variable fl : file.
  Variable cfg : config.
  Variable glob : globals.
  Variable regexes : list rx.
  Variable find : rx -> str -> option (list (option (N * N))).
  Variable call : ident -> graph -> list value -> res (value * graph).
  Notation exec_file' := (exec_file t fl cfg glob regexes find call).
  Notation exec_stanza' := (exec_stanza t fl cfg glob regexes find call).

  Lemma exec_file_app fuel st1 : forall ms1 st2 ms2 s p, length st1 = length ms1 ->
    exec_file' fuel (st1 ++ st2) (ms1 ++ ms2) s p = bind (exec_file' fuel st1 ms1) (fun _ => exec_file' fuel st2 ms2) s p.
  Proof.
    induction st1 as [|st st1 IH]; intros [|m ms1] st2 ms2 s p H; cbn [length] in H; try discriminate.
    - reflexivity.
    - cbn [app exec_file]. unfold bind at 1 2 3. destruct (iterM (exec_stanza' fuel st) m s p) as [[[u s1] p1]| | |]; try reflexivity.
      apply IH. congruence.
  Qed.

  (* stanzas stpre ran on their matches, stanza st ran on the matches mpre, and fails on the match q: the file fails *)
  Lemma exec_file_stanza_fails fuel stpre mspre st sts mpre q mpost ms s0 p0 sA pA sB pB e :
    length stpre = length mspre ->
    exec_file' fuel stpre mspre s0 p0 = Ok (tt, sA, pA) ->
    iterM (exec_stanza' fuel st) mpre sA pA = Ok (tt, sB, pB) ->
    exec_stanza' fuel st q sB pB = Err e ->
    exec_file' fuel (stpre ++ st :: sts) (mspre ++ (mpre ++ q :: mpost) :: ms) s0 p0 = Err e.
  Proof.
    intros Hl HA HB Hq. rewrite exec_file_app by exact Hl. unfold bind at 1. rewrite HA. cbn [exec_file].
    unfold bind at 1. rewrite iterM_app. unfold bind at 1. rewrite HB. cbn [iterM]. unfold bind at 1. rewrite Hq. reflexivity.
  Qed.
End RunStrict.

Lemma run_strict_fails {rx} t fl cfg supplied budget (regexes : list rx) find call fuel matches g0 glob e :
  check_globals (f_globals fl) (globals_nested supplied) = Ok glob ->
  exec_file t fl cfg glob regexes find call fuel (f_stanzas fl) matches (sinit g0) (polls0 budget) = Err e ->
  run_strict t fl cfg supplied budget regexes find call fuel matches g0 = Err e.
Proof. intros Hg He. unfold run_strict. rewrite Hg, He. reflexivity. Qed.

(* lazy: the execution phase succeeded (state s); the evaluation phase fails *)
Lemma run_lazy_eval_fails {rx} t fl cfg supplied budget (regexes : list rx) find call fuel matches g0 glob s p e :
  check_globals (f_globals fl) (globals_nested supplied) = Ok glob ->
  iterM (fun pm : N * qmatch =>
           match nth_error (f_stanzas fl) (N.to_nat (fst pm)) with
           | Some st => lexec_stanza t fl cfg glob regexes find call fuel st (snd pm)
           | None => panic P_stanza_index
           end) matches (linit g0) (polls0 budget) = Ok (tt, s, p) ->
  evaluate_phase t fl call (fuel + default_eval_fuel) s p = Err e ->
  run_lazy t fl cfg supplied budget regexes find call fuel matches g0 = Err e.
Proof. intros Hg Hx He. unfold run_lazy. rewrite Hg. unfold lexec_file. unfold bind at 1. rewrite Hx, He. reflexivity. Qed.

(* the environment Stanza::execute gives to the top-level statement x of stanza st on match m (n = first full-match
   node), and the stanza cut down to the statements before x *)
Definition top_le (st : stanza) (m : qmatch) (n : N) (x : stmt) : lenv :=
  {| le_match := m; le_full := st_full_stanza_idx st; le_caps := [];
     le_ctx := {| sc_stmt := stmt_loc x; sc_stanza := st_start st; sc_node := n |} |}.
Definition stanza_prefix (st : stanza) (spre : list stmt) : stanza :=
  {| st_stmts := spre; st_full_stanza_idx := st_full_stanza_idx st; st_full_file_idx := st_full_file_idx st; st_start := st_start st |}.

Lemma strict_run_stmt_fails {rx} t fl cfg supplied budget (regexes : list rx) find call fuel matches g0 glob
    stpre mspre st sts mpre q mpost ms sA pA sB pB n rest spre x spost s p e :
  check_globals (f_globals fl) (globals_nested supplied) = Ok glob ->
  f_stanzas fl = stpre ++ st :: sts -> matches = mspre ++ (mpre ++ q :: mpost) :: ms -> length stpre = length mspre ->
  exec_file t fl cfg glob regexes find call fuel stpre mspre (sinit g0) (polls0 budget) = Ok (tt, sA, pA) ->
  iterM (exec_stanza t fl cfg glob regexes find call fuel st) mpre sA pA = Ok (tt, sB, pB) ->
  nodes_for_capture q (st_full_stanza_idx st) = n :: rest ->
  st_stmts st = spre ++ x :: spost ->
  exec_stanza t fl cfg glob regexes find call fuel (stanza_prefix st spre) q sB pB = Ok (tt, s, p) ->
  exec_stmt t fl cfg glob regexes find call fuel (top_le st q n x) x s p = Err e ->
  exists e', run_strict t fl cfg supplied budget regexes find call fuel matches g0 = Err e' /\ root_cause e' = root_cause e.
Proof.
  intros Hg Hf Hm Hl HA HB Hn Hst Hpre Hx.
  destruct (exec_stanza_stmt_fails t fl cfg glob regexes find call fuel st q n rest spre x spost sB pB s p e Hn Hst Hpre Hx) as (e' & He' & Hr).
  exists e'. split; [|exact Hr]. apply (run_strict_fails t fl cfg supplied budget regexes find call fuel matches g0 glob e' Hg).
  rewrite Hf, Hm. eapply exec_file_stanza_fails; eauto.
Qed.

Lemma lazy_run_attr_stmt_fails {rx} t fl cfg supplied budget (regexes : list rx) find call fuel matches g0 glob s p s1 p1 apre x apost s2 p2 e :
  check_globals (f_globals fl) (globals_nested supplied) = Ok glob ->
  iterM (fun pm : N * qmatch =>
           match nth_error (f_stanzas fl) (N.to_nat (fst pm)) with
           | Some st => lexec_stanza t fl cfg glob regexes find call fuel st (snd pm)
           | None => panic P_stanza_index
           end) matches (linit g0) (polls0 budget) = Ok (tt, s, p) ->
  iterM (eval_lstmt t fl call (fuel + default_eval_fuel)) (l_edges s) s p = Ok (tt, s1, p1) ->
  l_attrs s = apre ++ x :: apost ->
  iterM (eval_lstmt t fl call (fuel + default_eval_fuel)) apre s1 p1 = Ok (tt, s2, p2) ->
  eval_lstmt t fl call (fuel + default_eval_fuel) x s2 p2 = Err e ->
  run_lazy t fl cfg supplied budget regexes find call fuel matches g0 = Err e.
Proof.
  intros Hg Hx He Ha Hpre Hs. eapply run_lazy_eval_fails; eauto. eapply evaluate_phase_attr_fails; eauto.
Qed.
