(* Proofs/StrictLazy.v — C02: the first whole-run theorem relating the two interpreter models.
   On the fragment of Proofs/SLExpr.v (no scoped variables, graph-pure function calls; local variables,
   `if`, `for`, `scan`, comprehensions, `print`, `node`, `edge`, `attr`, shorthands all allowed), whenever
   strict execution succeeds, lazy execution of the same file on the same matches (taken in strict order)
   never fails, never panics, and — unless the model runs out of fuel — returns EXACTLY the strict graph.
   Parts: SLGraph (graph operations commute), SLForce (forcing lemma), SLExpr (expressions), SLStmt
   (statements, execution phase); here: the evaluation phase, files, the theorem, and the purity of the
   standard library (every function but `node`). *)
From TSG Require Import Model.Lazy Model.Stdlib Proofs.BaseFacts Proofs.Containers Proofs.MonadFacts
  Proofs.SLGraph Proofs.SLForce Proofs.SLExpr Proofs.SLConv Proofs.SLStmt.

(* the lazy interpreter's match list: the strict one, stanza by stanza, in strict order *)
Fixpoint lmatches_from (i : N) (ms : list (list qmatch)) : list (N * qmatch) :=
  match ms with
  | [] => []
  | m :: ms' => map (fun q => (i, q)) m ++ lmatches_from (i + 1) ms'
  end.
Definition lmatches_of (ms : list (list qmatch)) : list (N * qmatch) := lmatches_from 0 ms.

(* a stanza and one of its matches: statements and shorthand bodies in the fragment (the two capture indices
   of every capture expression select the same nodes of this match), and the match has its full-match capture *)
Definition match_ok (okfn : ident -> Prop) (fl : file) (st : stanza) (m : qmatch) : Prop :=
  All (fstmt okfn m) (st_stmts st) /\
  Forall (fun sh => All (fattr okfn m) (sh_attrs sh)) (f_shorthands fl) /\
  nodes_for_capture m (st_full_file_idx st) <> [].
Fixpoint file_ok (okfn : ident -> Prop) (fl : file) (sts : list stanza) (ms : list (list qmatch)) : Prop :=
  match sts, ms with
  | st :: sts', m :: ms' => Forall (match_ok okfn fl st) m /\ file_ok okfn fl sts' ms'
  | _, [] => True
  | [], _ :: _ => False                   (* no matches for stanzas that do not exist *)
  end.

Lemma iterM_app {S X} (F : X -> M S unit) a b s p : iterM F (a ++ b) s p = (iterM F a ;;; iterM F b) s p.
Proof.
  revert s p. induction a as [|x a IH]; intros s p; cbn [iterM app]; [reflexivity|].
  unfold bind. destruct (F x s p) as [[[u s1] p1]|e|y|]; try reflexivity. rewrite IH. reflexivity.
Qed.
Lemma ofold_app_inv {A} (f : A -> graph -> option graph) l1 l2 g g' :
  ofold f (l1 ++ l2) g = Some g' -> exists gm, ofold f l1 g = Some gm /\ ofold f l2 gm = Some g'.
Proof. rewrite ofold_app. destruct (ofold f l1 g) as [gm|]; [|discriminate]. intros H. exists gm. auto. Qed.

Section Whole.
  Context {rx : Type}.
  Variables (t : tree) (fl : file) (glob : globals) (regexes : list rx)
            (find : rx -> str -> option (list (option (N * N))))
            (call : ident -> graph -> list value -> res (value * graph)).
  Variable okfn : ident -> Prop.
  Hypothesis Hpure : forall f, okfn f -> pure_fn call f.

  Notation den := (den call).
  Notation store_wf := (store_wf call).
  Notation eval_lv' := (eval_lv t fl call).

  (* ---------------- the evaluation phase ---------------- *)
  Definition vinv (rho : list value) (g : graph) (ls : lstate) : Prop :=
    l_graph ls = g /\ store_wf rho (l_store ls) /\ l_scoped ls = [].
  Lemma vinv_intro rho g ls : l_graph ls = g -> store_wf rho (l_store ls) -> l_scoped ls = [] -> vinv rho g ls.
  Proof. intros H1 H2 H3. split; [exact H1|]. split; [exact H2|exact H3]. Qed.
  Definition vpost (rho : list value) (g : graph) : unit -> lstate -> polls -> Prop :=
    fun _ ls' pl' => nob pl' /\ vinv rho g ls'.

  Lemma force_v F rho g lv v ls pl : vinv rho g ls -> den rho lv v -> nob pl ->
    lres (eval_lv' F lv ls pl) (fun v' ls' pl' => v' = v /\ nob pl' /\ vinv rho g ls').
  Proof.
    intros (Hg & Hst & Hsc) Hd Hb. eapply lres_mono; [apply (force_full call t fl F rho lv v ls pl Hst Hd Hb)|].
    intros v' ls' pl' (-> & Hb' & st' & -> & Hst'). split; [reflexivity|]. split; [exact Hb'|]. apply vinv_intro; first [assumption|reflexivity].
  Qed.
  Lemma force_gnode F rho g lv x ls pl : vinv rho g ls -> den rho lv (VGraph x) -> nob pl ->
    lres (eval_as_gnode t fl call F lv ls pl) (fun n ls' pl' => n = x /\ nob pl' /\ vinv rho g ls').
  Proof.
    intros HV Hd Hb. unfold eval_as_gnode. apply lres_bind. eapply lres_mono; [apply (force_v F rho g lv _ ls pl HV Hd Hb)|].
    intros v' ls' pl' (-> & Hb' & HV'). eapply lres_lift; [reflexivity|]. auto.
  Qed.

  Lemma ledge_add_res rho g g' x y ls pl : vinv rho g ls -> apply_edge (x, y) g = Some g' -> nob pl ->
    lres (ledge_add x y [] ls pl) (vpost rho g').
  Proof.
    intros (Hg & Hst & Hsc) He Hb. unfold ledge_add. apply lres_get. rewrite Hg. unfold apply_edge in He. cbn [fst snd] in He.
    destruct (graph_add_edge g x y) as [[g1 isnew]|] eqn:E; [|discriminate]. inversion He; subst g1; clear He.
    destruct isnew.
    - rewrite (edge_reset_id _ _ _ _ E). unfold set_lgraph, Lazy.upd. apply lres_modify. split; [exact Hb|]. apply vinv_intro; first [assumption|reflexivity].
    - unfold set_lgraph, Lazy.upd. apply lres_modify. split; [exact Hb|]. apply vinv_intro; first [assumption|reflexivity].
  Qed.

  Lemma eval_edge_stmt F rho g g' st e ls pl : den_edge call rho st e -> vinv rho g ls -> apply_edge e g = Some g' -> nob pl ->
    lres (eval_lstmt t fl call F st ls pl) (vpost rho g').
  Proof.
    intros (a & b & dbg & -> & Ha & Hb0) HV He Hb. destruct e as [x y]. cbn [fst snd] in *. unfold eval_lstmt.
    apply lres_bind. unfold lpoll. apply lres_poll; [exact Hb|]. intros pl0 Hbl. apply lres_ctx.
    apply lres_bind. apply lres_ctx. eapply lres_mono; [apply (force_gnode F rho g a x ls pl0 HV Ha Hbl)|]. intros n ls1 pl1 (-> & Hb1 & HV1).
    apply lres_bind. apply lres_ctx. eapply lres_mono; [apply (force_gnode F rho g b y ls1 pl1 HV1 Hb0 Hb1)|]. intros n ls2 pl2 (-> & Hb2 & HV2).
    apply (ledge_add_res rho g g' x y ls2 pl2 HV2 He Hb2).
  Qed.
  Lemma eval_edge_stmts F rho : forall stmts eops g g' ls pl, Forall2 (den_edge call rho) stmts eops -> vinv rho g ls ->
    apply_edges eops g = Some g' -> nob pl -> lres (iterM (eval_lstmt t fl call F) stmts ls pl) (vpost rho g').
  Proof.
    intros stmts eops g g' ls pl HF. revert g ls pl. induction HF as [|st e stmts eops Hd _ IH]; intros g ls pl HV Hg Hb; cbn [iterM ofold] in *.
    - inversion Hg; subst. apply lres_ret. split; assumption.
    - destruct (apply_edge e g) as [gm|] eqn:E; [|discriminate]. apply lres_bind.
      eapply lres_mono; [apply (eval_edge_stmt F rho g gm st e ls pl Hd HV E Hb)|]. intros _ ls1 pl1 [Hb1 HV1]. apply (IH gm ls1 pl1 HV1 Hg Hb1).
  Qed.

  Lemma prev_insert_res rho g k dbg ls pl : vinv rho g ls -> nob pl ->
    lres (prev_insert k dbg ls pl) (fun _ ls' pl' => nob pl' /\ vinv rho g ls').
  Proof.
    intros (Hg & Hst & Hsc) Hb. unfold prev_insert. apply lres_get. apply lres_bind. unfold set_lprev, Lazy.upd. apply lres_modify. apply lres_ret.
    split; [exact Hb|]. apply vinv_intro; first [assumption|reflexivity].
  Qed.

  Lemma eval_node_attrs F rho x dbg : forall attrs kvs g g' ls pl, den_attrs call rho attrs kvs -> vinv rho g ls ->
    apply_attrs (map (mk (TNode x)) kvs) g = Some g' -> nob pl ->
    lres (iterM (fun a : ident * lvalue => v <- eval_lv' F (snd a) ;; prev <- prev_insert (KNode x (fst a)) dbg ;; lattr_node_add x (fst a) v prev dbg) attrs ls pl)
         (vpost rho g').
  Proof.
    intros attrs kvs g g' ls pl HF. revert g ls pl. induction HF as [|[k lv] [k' v] attrs kvs [Hk Hd] _ IH]; intros g ls pl HV Hg Hb; cbn [iterM map ofold] in *.
    - inversion Hg; subst. apply lres_ret. split; assumption.
    - cbn [fst snd] in *. subst k'. destruct (apply_attr (mk (TNode x) (k, v)) g) as [gm|] eqn:E; [|discriminate]. apply lres_bind.
      apply lres_bind. eapply lres_mono; [apply (force_v F rho g lv v ls pl HV Hd Hb)|]. intros v' ls1 pl1 (-> & Hb1 & HV1).
      apply lres_bind. eapply lres_mono; [apply (prev_insert_res rho g _ dbg ls1 pl1 HV1 Hb1)|]. intros prev ls2 pl2 (Hb2 & (Hg2 & Hst2 & Hsc2)).
      unfold lattr_node_add. apply lres_get. rewrite Hg2. cbn [mk apply_attr fst snd] in E.
      destruct (gnode_at g x) as [nd|]; [|discriminate]. destruct (attrs_add (g_attrs nd) k v) as [m' [c|]]; [discriminate|]. inversion E; subst gm.
      unfold set_lgraph, Lazy.upd. apply lres_modify. refine (IH _ _ pl2 _ Hg Hb2). apply vinv_intro; first [assumption|reflexivity].
  Qed.
  Lemma eval_edge_attrs F rho x y dbg : forall attrs kvs g g' ls pl, den_attrs call rho attrs kvs -> vinv rho g ls ->
    apply_attrs (map (mk (TEdge x y)) kvs) g = Some g' -> nob pl ->
    lres (iterM (fun ak : ident * lvalue =>
                   v <- eval_lv' F (snd ak) ;; ex <- ledge_exists x y ;;
                   if ex then prev <- prev_insert (KEdge x y (fst ak)) dbg ;; lattr_edge_add x y (fst ak) v prev dbg else fail EUndefinedEdge) attrs ls pl)
         (vpost rho g').
  Proof.
    intros attrs kvs g g' ls pl HF. revert g ls pl. induction HF as [|[k lv] [k' v] attrs kvs [Hk Hd] _ IH]; intros g ls pl HV Hg Hb; cbn [iterM map ofold] in *.
    - inversion Hg; subst. apply lres_ret. split; assumption.
    - cbn [fst snd] in *. subst k'. destruct (apply_attr (mk (TEdge x y) (k, v)) g) as [gm|] eqn:E; [|discriminate]. apply lres_bind.
      apply lres_bind. eapply lres_mono; [apply (force_v F rho g lv v ls pl HV Hd Hb)|]. intros v' ls1 pl1 (-> & Hb1 & (Hg1 & Hst1 & Hsc1)).
      cbn [mk apply_attr fst snd] in E. destruct (gnode_at g x) as [nd|] eqn:En; [|discriminate].
      destruct (edges_get y (g_edges nd)) as [m0|] eqn:Ee; [|discriminate]. destruct (attrs_add m0 k v) as [m' [c|]] eqn:Ea; [discriminate|]. inversion E; subst gm.
      apply lres_bind. unfold ledge_exists. apply lres_get. rewrite Hg1, En. apply lres_ret. rewrite Ee.
      apply lres_bind. eapply lres_mono; [apply (prev_insert_res rho g _ dbg ls1 pl1 (conj Hg1 (conj Hst1 Hsc1)) Hb1)|]. intros prev ls2 pl2 (Hb2 & (Hg2 & Hst2 & Hsc2)).
      unfold lattr_edge_add. apply lres_get. rewrite Hg2, En, Ee, Ea.
      unfold set_lgraph, Lazy.upd. apply lres_modify. refine (IH _ _ pl2 _ Hg Hb2). apply vinv_intro; first [assumption|reflexivity].
  Qed.

  Lemma eval_attr_stmt F rho g g' st ops ls pl : den_astmt call rho st ops -> vinv rho g ls -> apply_attrs ops g = Some g' -> nob pl ->
    lres (eval_lstmt t fl call F st ls pl) (vpost rho g').
  Proof.
    intros Hd HV Hg Hb. unfold eval_lstmt. apply lres_bind. unfold lpoll. apply lres_poll; [exact Hb|]. intros pl0 Hbl.
    destruct st as [n attrs dbg|a b ea dbg|a b attrs dbg|args dbg]; cbn [den_astmt] in Hd; try contradiction.
    - destruct Hd as (x & kvs & Hn & Ha & ->). apply lres_ctx.
      apply lres_bind. apply lres_ctx. eapply lres_mono; [apply (force_gnode F rho g n x ls pl0 HV Hn Hbl)|]. intros n0 ls1 pl1 (-> & Hb1 & HV1).
      apply (eval_node_attrs F rho x dbg attrs kvs g g' ls1 pl1 Ha HV1 Hg Hb1).
    - destruct Hd as (x & y & kvs & Hna & Hnb & Ha & ->). apply lres_ctx.
      apply lres_bind. apply lres_ctx. eapply lres_mono; [apply (force_gnode F rho g a x ls pl0 HV Hna Hbl)|]. intros n0 ls1 pl1 (-> & Hb1 & HV1).
      apply lres_bind. apply lres_ctx. eapply lres_mono; [apply (force_gnode F rho g b y ls1 pl1 HV1 Hnb Hb1)|]. intros n0 ls2 pl2 (-> & Hb2 & HV2).
      apply (eval_edge_attrs F rho x y dbg attrs kvs g g' ls2 pl2 Ha HV2 Hg Hb2).
  Qed.
  Lemma eval_attr_stmts F rho : forall stmts aopss g g' ls pl, Forall2 (den_astmt call rho) stmts aopss -> vinv rho g ls ->
    apply_attrs (concat aopss) g = Some g' -> nob pl -> lres (iterM (eval_lstmt t fl call F) stmts ls pl) (vpost rho g').
  Proof.
    intros stmts aopss g g' ls pl HF. revert g ls pl. induction HF as [|st ops stmts aopss Hd _ IH]; intros g ls pl HV Hg Hb; cbn [iterM concat] in *.
    - cbn [ofold] in Hg. inversion Hg; subst. apply lres_ret. split; assumption.
    - apply ofold_app_inv in Hg. destruct Hg as (gm & G1 & G2). apply lres_bind.
      eapply lres_mono; [apply (eval_attr_stmt F rho g gm st ops ls pl Hd HV G1 Hb)|]. intros _ ls1 pl1 [Hb1 HV1]. apply (IH gm ls1 pl1 HV1 G2 Hb1).
  Qed.

  Lemma eval_print_stmts F rho g : forall stmts ls pl, Forall (print_ok call rho) stmts -> vinv rho g ls -> nob pl ->
    lres (iterM (eval_lstmt t fl call F) stmts ls pl) (vpost rho g).
  Proof.
    induction stmts as [|st stmts IH]; intros ls pl HF HV Hb; cbn [iterM]; [apply lres_ret; split; assumption|].
    inversion HF as [|? ? Hst HF']; subst. apply lres_bind. unfold eval_lstmt. apply lres_bind. unfold lpoll. apply lres_poll; [exact Hb|]. intros pl0 Hbl.
    destruct st as [n attrs dbg|a b ea dbg|a b attrs dbg|args dbg]; cbn [print_ok] in Hst; try contradiction. apply lres_ctx.
    assert (Hargs : forall ls0 pl1, vinv rho g ls0 -> nob pl1 ->
              lres (iterM (fun a : option lvalue => match a with Some lv => eval_lv' F lv ;;; ret tt | None => ret tt end) args ls0 pl1) (vpost rho g)).
    { clear -Hst. induction args as [|a args IHa]; intros ls0 pl1 HV Hb; cbn [iterM]; [apply lres_ret; split; assumption|].
      inversion Hst as [|? ? Ha Hrest]; subst. apply lres_bind. destruct a as [lv|].
      - destruct Ha as [v Hv]. apply lres_bind. eapply lres_mono; [apply (force_v F rho g lv v ls0 pl1 HV Hv Hb)|]. intros v' ls1 pl2 (-> & Hb1 & HV1).
        apply lres_ret. apply (IHa Hrest ls1 pl2 HV1 Hb1).
      - apply lres_ret. apply (IHa Hrest ls0 pl1 HV Hb). }
    eapply lres_mono; [apply (Hargs ls pl0 HV Hbl)|]. intros _ ls1 pl1 [Hb1 HV1]. apply (IH ls1 pl1 HF' HV1 Hb1).
  Qed.

  Lemma eval_store_all F rho g ls pl : vinv rho g ls -> nob pl -> lres (store_evaluate_all t fl call F ls pl) (vpost rho g).
  Proof.
    intros HV Hb. unfold store_evaluate_all. apply lres_get.
    assert (Hlen : length (l_store ls) = length rho) by (destruct HV as (_ & [Hl _] & _); congruence). rewrite Hlen.
    assert (Hgen : forall l ls0 pl0, Forall (fun i => (i < length rho)%nat) l -> vinv rho g ls0 -> nob pl0 ->
              lres (iterM (fun i => force_thunk t fl call F i ;;; ret tt) (map N.of_nat l) ls0 pl0) (vpost rho g)).
    { induction l as [|i l IHl]; intros ls0 pl0 HF HV0 Hb0; cbn [map iterM]; [apply lres_ret; split; assumption|].
      inversion HF as [|? ? Hi HF']; subst. apply lres_bind. apply lres_bind. destruct HV0 as (Hg0 & Hst0 & Hsc0).
      eapply lres_mono; [apply (force_full_thunk call t fl F rho i ls0 pl0 Hst0 Hi Hb0)|]. intros v ls1 pl1 (Hb1 & st' & -> & Hst').
      apply lres_ret. apply (IHl _ pl1 HF'); [apply vinv_intro; first [assumption|reflexivity]|exact Hb1]. }
    apply Hgen; [|exact HV|exact Hb]. apply Forall_forall. intros i Hi. apply in_seq in Hi. lia.
  Qed.

  Lemma evaluate_phase_res F rho ss ls pl : Rel call rho ss ls -> nob pl ->
    lres (evaluate_phase t fl call F ls pl) (fun _ ls' _ => l_graph ls' = s_graph ss).
  Proof.
    intros ([Hst _] & Hsc & Hpr & eops & aopss & g1 & He & Ha & Hg1 & Hg2) Hb. unfold evaluate_phase. apply lres_get.
    assert (HV : vinv rho (l_graph ls) ls) by (apply vinv_intro; first [assumption|reflexivity]).
    apply lres_bind. eapply lres_mono; [apply (eval_edge_stmts F rho _ _ _ _ ls pl He HV Hg1 Hb)|]. intros _ ls1 pl1 [Hb1 HV1].
    apply lres_bind. eapply lres_mono; [apply (eval_attr_stmts F rho _ _ _ _ ls1 pl1 Ha HV1 Hg2 Hb1)|]. intros _ ls2 pl2 [Hb2 HV2].
    apply lres_bind. eapply lres_mono; [apply (eval_print_stmts F rho _ _ ls2 pl2 Hpr HV2 Hb2)|]. intros _ ls3 pl3 [Hb3 HV3].
    apply lres_bind. eapply lres_mono; [apply (eval_store_all F rho _ ls3 pl3 HV3 Hb3)|]. intros _ ls4 pl4 [Hb4 (Hg4 & Hst4 & Hsc4)].
    unfold scoped_evaluate_all. apply lres_get. rewrite Hsc4. cbn [sort_alist sort_by fold_right map iterM]. apply lres_ret. exact Hg4.
  Qed.

  (* ---------------- stanzas and files ---------------- *)
  Notation xsimU := (xsim call (@anyQ unit unit)).
  Lemma xsim_lext {A B} (Q : A -> B -> Prop) ms (ml ml' : M lstate B) : (forall s p, ml s p = ml' s p) -> xsim call Q ms ml' -> xsim call Q ms ml.
  Proof. intros E H ss p a ss' p' Hs ls pl HR Hb. rewrite E. apply (H _ _ _ _ _ Hs ls pl HR Hb). Qed.

  Definition lstep (lf : nat) (pm : N * qmatch) : M lstate unit :=
    match nth_error (f_stanzas fl) (N.to_nat (fst pm)) with
    | Some st => lexec_stanza t fl config0 glob regexes find call lf st (snd pm)
    | None => panic P_stanza_index
    end.

  Lemma stanza_matches_sim fuel lf st i : nth_error (f_stanzas fl) (N.to_nat i) = Some st ->
    forall qs, Forall (match_ok okfn fl st) qs ->
    xsimU (iterM (exec_stanza t fl config0 glob regexes find call fuel st) qs) (iterM (lstep lf) (map (fun q => (i, q)) qs)).
  Proof.
    intros Hst. induction qs as [|q qs IH]; intros HF; cbn [iterM map]; [apply xsim_ret; exact I|].
    inversion HF as [|? ? (H1 & H2 & H3) HF']; subst. apply xsim_seq; [|apply IH, HF'].
    unfold lstep. cbn [fst snd]. rewrite Hst. apply (stanza_sim t fl glob regexes find call okfn Hpure q H2 fuel lf st H1 H3).
  Qed.

  Lemma file_sim fuel lf : forall sts ms i,
    (forall j st, nth_error sts j = Some st -> nth_error (f_stanzas fl) (N.to_nat i + j) = Some st) ->
    file_ok okfn fl sts ms ->
    xsimU (exec_file t fl config0 glob regexes find call fuel sts ms) (iterM (lstep lf) (lmatches_from i ms)).
  Proof.
    induction sts as [|st sts IH]; intros [|qs ms] i Hnth Hok; cbn [exec_file lmatches_from file_ok] in *; try (apply xsim_ret; exact I); [contradiction|].
    destruct Hok as [Hqs Hrest]. eapply xsim_lext; [intros s p; apply iterM_app|]. apply xsim_seq.
    - apply stanza_matches_sim; [|exact Hqs]. rewrite <- (Nat.add_0_r (N.to_nat i)). apply Hnth. reflexivity.
    - apply IH; [|exact Hrest]. intros j st' Hj. rewrite N2Nat.inj_add. change (N.to_nat 1) with 1%nat.
      replace (N.to_nat i + 1 + j)%nat with (N.to_nat i + S j)%nat by lia. apply Hnth. exact Hj.
  Qed.

  (* ================= adequacy: the evaluation phase and whole files converge ================= *)
  Lemma force_v_conv rho g lv v ls pl : vinv rho g ls -> den rho lv v -> nob pl ->
    convP (fun F => eval_lv' F lv ls pl) (fun v' ls' pl' => v' = v /\ nob pl' /\ vinv rho g ls').
  Proof.
    intros (Hg & Hst & Hsc) Hd Hb. eapply convP_mono; [apply (force_full_convP t fl call rho lv v ls pl Hst Hd Hb)|].
    intros v' ls' pl' (-> & Hb' & st' & -> & Hst'). split; [reflexivity|]. split; [exact Hb'|]. apply vinv_intro; first [assumption|reflexivity].
  Qed.
  Lemma force_gnode_conv rho g lv x ls pl : vinv rho g ls -> den rho lv (VGraph x) -> nob pl ->
    convP (fun F => eval_as_gnode t fl call F lv ls pl) (fun n ls' pl' => n = x /\ nob pl' /\ vinv rho g ls').
  Proof.
    intros HV Hd Hb. unfold eval_as_gnode. apply (convP_bind (fun F => eval_lv' F lv) (fun _ v => lift (as_gnode v))).
    eapply convP_mono; [apply (force_v_conv rho g lv _ ls pl HV Hd Hb)|].
    intros v' ls' pl' (-> & Hb' & HV'). eapply convP_lift; [reflexivity|]. auto.
  Qed.
  Lemma ledge_add_noof x y ea ls pl : ledge_add x y ea ls pl <> OutOfFuel.
  Proof. unfold ledge_add, bind, get_state. destruct (graph_add_edge (l_graph ls) x y) as [[g1 [|]]|]; discriminate. Qed.

  Lemma eval_edge_stmt_conv rho g g' st e ls pl : den_edge call rho st e -> vinv rho g ls -> apply_edge e g = Some g' -> nob pl ->
    convP (fun F => eval_lstmt t fl call F st ls pl) (vpost rho g').
  Proof.
    intros (a & b & dbg & -> & Ha & Hb0) HV He Hb. destruct e as [x y]. cbn [fst snd] in *. unfold eval_lstmt.
    apply convP_bind. unfold lpoll. apply convP_poll; [exact Hb|]. intros pl0 Hbl. apply convP_ctx.
    apply convP_bind. apply convP_ctx. eapply convP_mono; [apply (force_gnode_conv rho g a x ls pl0 HV Ha Hbl)|]. intros n ls1 pl1 (-> & Hb1 & HV1).
    apply (convP_bind (fun F => ctx_wrap CtxOther (eval_as_gnode t fl call F b)) (fun _ b0 => ledge_add x b0 [])).
    apply convP_ctx. eapply convP_mono; [apply (force_gnode_conv rho g b y ls1 pl1 HV1 Hb0 Hb1)|]. intros n ls2 pl2 (-> & Hb2 & HV2).
    apply convP_of_lres; [apply (ledge_add_res rho g g' x y ls2 pl2 HV2 He Hb2)|apply ledge_add_noof].
  Qed.
  Lemma eval_edge_stmts_conv rho : forall stmts eops g g' ls pl, Forall2 (den_edge call rho) stmts eops -> vinv rho g ls ->
    apply_edges eops g = Some g' -> nob pl -> convP (fun F => iterM (eval_lstmt t fl call F) stmts ls pl) (vpost rho g').
  Proof.
    intros stmts eops g g' ls pl HF. revert g ls pl. induction HF as [|st e stmts eops Hd _ IH]; intros g ls pl HV Hg Hb; cbn [iterM ofold] in *.
    - inversion Hg; subst. apply convP_ret. split; assumption.
    - destruct (apply_edge e g) as [gm|] eqn:E; [|discriminate]. apply convP_bind.
      eapply convP_mono; [apply (eval_edge_stmt_conv rho g gm st e ls pl Hd HV E Hb)|]. intros _ ls1 pl1 [Hb1 HV1]. apply (IH gm ls1 pl1 HV1 Hg Hb1).
  Qed.

  Lemma prev_insert_conv rho g k dbg ls pl : vinv rho g ls -> nob pl ->
    convP (fun _ : nat => prev_insert k dbg ls pl) (fun _ ls' pl' => nob pl' /\ vinv rho g ls').
  Proof.
    intros HV Hb. apply convP_of_lres; [apply (prev_insert_res rho g k dbg ls pl HV Hb)|]. discriminate.
  Qed.

  Lemma eval_node_attrs_conv rho x dbg : forall attrs kvs g g' ls pl, den_attrs call rho attrs kvs -> vinv rho g ls ->
    apply_attrs (map (mk (TNode x)) kvs) g = Some g' -> nob pl ->
    convP (fun F => iterM (fun a : ident * lvalue => v <- eval_lv' F (snd a) ;; prev <- prev_insert (KNode x (fst a)) dbg ;; lattr_node_add x (fst a) v prev dbg) attrs ls pl)
          (vpost rho g').
  Proof.
    intros attrs kvs g g' ls pl HF. revert g ls pl. induction HF as [|[k lv] [k' v] attrs kvs [Hk Hd] _ IH]; intros g ls pl HV Hg Hb; cbn [iterM map ofold] in *.
    - inversion Hg; subst. apply convP_ret. split; assumption.
    - cbn [fst snd] in *. subst k'. destruct (apply_attr (mk (TNode x) (k, v)) g) as [gm|] eqn:E; [|discriminate]. apply convP_bind.
      apply (convP_bind (fun F => eval_lv' F lv) (fun _ v0 => prev <- prev_insert (KNode x k) dbg ;; lattr_node_add x k v0 prev dbg)).
      eapply convP_mono; [apply (force_v_conv rho g lv v ls pl HV Hd Hb)|]. intros v' ls1 pl1 (-> & Hb1 & HV1).
      apply convP_bind. eapply convP_mono; [apply (prev_insert_conv rho g _ dbg ls1 pl1 HV1 Hb1)|]. intros prev ls2 pl2 (Hb2 & (Hg2 & Hst2 & Hsc2)).
      unfold lattr_node_add. apply convP_get. rewrite Hg2. cbn [mk apply_attr fst snd] in E.
      destruct (gnode_at g x) as [nd|]; [|discriminate]. destruct (attrs_add (g_attrs nd) k v) as [m' [c|]]; [discriminate|]. inversion E; subst gm.
      unfold set_lgraph, Lazy.upd. apply convP_modify. refine (IH _ _ pl2 _ Hg Hb2). apply vinv_intro; first [assumption|reflexivity].
  Qed.
  Lemma eval_edge_attrs_conv rho x y dbg : forall attrs kvs g g' ls pl, den_attrs call rho attrs kvs -> vinv rho g ls ->
    apply_attrs (map (mk (TEdge x y)) kvs) g = Some g' -> nob pl ->
    convP (fun F => iterM (fun ak : ident * lvalue =>
                   v <- eval_lv' F (snd ak) ;; ex <- ledge_exists x y ;;
                   if ex then prev <- prev_insert (KEdge x y (fst ak)) dbg ;; lattr_edge_add x y (fst ak) v prev dbg else fail EUndefinedEdge) attrs ls pl)
          (vpost rho g').
  Proof.
    intros attrs kvs g g' ls pl HF. revert g ls pl. induction HF as [|[k lv] [k' v] attrs kvs [Hk Hd] _ IH]; intros g ls pl HV Hg Hb; cbn [iterM map ofold] in *.
    - inversion Hg; subst. apply convP_ret. split; assumption.
    - cbn [fst snd] in *. subst k'. destruct (apply_attr (mk (TEdge x y) (k, v)) g) as [gm|] eqn:E; [|discriminate]. apply convP_bind.
      apply (convP_bind (fun F => eval_lv' F lv) (fun _ v0 => ex <- ledge_exists x y ;;
                   if ex then prev <- prev_insert (KEdge x y k) dbg ;; lattr_edge_add x y k v0 prev dbg else fail EUndefinedEdge)).
      eapply convP_mono; [apply (force_v_conv rho g lv v ls pl HV Hd Hb)|]. intros v' ls1 pl1 (-> & Hb1 & (Hg1 & Hst1 & Hsc1)).
      cbn [mk apply_attr fst snd] in E. destruct (gnode_at g x) as [nd|] eqn:En; [|discriminate].
      destruct (edges_get y (g_edges nd)) as [m0|] eqn:Ee; [|discriminate]. destruct (attrs_add m0 k v) as [m' [c|]] eqn:Ea; [discriminate|]. inversion E; subst gm.
      apply convP_bind. unfold ledge_exists. apply convP_get. rewrite Hg1, En. apply convP_ret. rewrite Ee.
      apply convP_bind. eapply convP_mono; [apply (prev_insert_conv rho g _ dbg ls1 pl1 (conj Hg1 (conj Hst1 Hsc1)) Hb1)|]. intros prev ls2 pl2 (Hb2 & (Hg2 & Hst2 & Hsc2)).
      unfold lattr_edge_add. apply convP_get. rewrite Hg2, En, Ee, Ea.
      unfold set_lgraph, Lazy.upd. apply convP_modify. refine (IH _ _ pl2 _ Hg Hb2). apply vinv_intro; first [assumption|reflexivity].
  Qed.

  Lemma eval_attr_stmt_conv rho g g' st ops ls pl : den_astmt call rho st ops -> vinv rho g ls -> apply_attrs ops g = Some g' -> nob pl ->
    convP (fun F => eval_lstmt t fl call F st ls pl) (vpost rho g').
  Proof.
    intros Hd HV Hg Hb. unfold eval_lstmt. apply convP_bind. unfold lpoll. apply convP_poll; [exact Hb|]. intros pl0 Hbl.
    destruct st as [n attrs dbg|a b ea dbg|a b attrs dbg|args dbg]; cbn [den_astmt] in Hd; try contradiction.
    - destruct Hd as (x & kvs & Hn & Ha & ->). apply convP_ctx.
      apply convP_bind. apply convP_ctx. eapply convP_mono; [apply (force_gnode_conv rho g n x ls pl0 HV Hn Hbl)|]. intros n0 ls1 pl1 (-> & Hb1 & HV1).
      apply (eval_node_attrs_conv rho x dbg attrs kvs g g' ls1 pl1 Ha HV1 Hg Hb1).
    - destruct Hd as (x & y & kvs & Hna & Hnb & Ha & ->). apply convP_ctx.
      apply convP_bind. apply convP_ctx. eapply convP_mono; [apply (force_gnode_conv rho g a x ls pl0 HV Hna Hbl)|]. intros n0 ls1 pl1 (-> & Hb1 & HV1).
      apply convP_bind. apply convP_ctx. eapply convP_mono; [apply (force_gnode_conv rho g b y ls1 pl1 HV1 Hnb Hb1)|]. intros n0 ls2 pl2 (-> & Hb2 & HV2).
      apply (eval_edge_attrs_conv rho x y dbg attrs kvs g g' ls2 pl2 Ha HV2 Hg Hb2).
  Qed.
  Lemma eval_attr_stmts_conv rho : forall stmts aopss g g' ls pl, Forall2 (den_astmt call rho) stmts aopss -> vinv rho g ls ->
    apply_attrs (concat aopss) g = Some g' -> nob pl -> convP (fun F => iterM (eval_lstmt t fl call F) stmts ls pl) (vpost rho g').
  Proof.
    intros stmts aopss g g' ls pl HF. revert g ls pl. induction HF as [|st ops stmts aopss Hd _ IH]; intros g ls pl HV Hg Hb; cbn [iterM concat] in *.
    - cbn [ofold] in Hg. inversion Hg; subst. apply convP_ret. split; assumption.
    - apply ofold_app_inv in Hg. destruct Hg as (gm & G1 & G2). apply convP_bind.
      eapply convP_mono; [apply (eval_attr_stmt_conv rho g gm st ops ls pl Hd HV G1 Hb)|]. intros _ ls1 pl1 [Hb1 HV1]. apply (IH gm ls1 pl1 HV1 G2 Hb1).
  Qed.

  Lemma eval_print_stmts_conv rho g : forall stmts ls pl, Forall (print_ok call rho) stmts -> vinv rho g ls -> nob pl ->
    convP (fun F => iterM (eval_lstmt t fl call F) stmts ls pl) (vpost rho g).
  Proof.
    induction stmts as [|st stmts IH]; intros ls pl HF HV Hb; cbn [iterM]; [apply convP_ret; split; assumption|].
    inversion HF as [|? ? Hst HF']; subst. apply convP_bind. unfold eval_lstmt. apply convP_bind. unfold lpoll. apply convP_poll; [exact Hb|]. intros pl0 Hbl.
    destruct st as [n attrs dbg|a b ea dbg|a b attrs dbg|args dbg]; cbn [print_ok] in Hst; try contradiction. apply convP_ctx.
    assert (Hargs : forall ls0 pl1, vinv rho g ls0 -> nob pl1 ->
              convP (fun F => iterM (fun a : option lvalue => match a with Some lv => eval_lv' F lv ;;; ret tt | None => ret tt end) args ls0 pl1) (vpost rho g)).
    { clear -Hst. induction args as [|a args IHa]; intros ls0 pl1 HV Hb; cbn [iterM]; [apply convP_ret; split; assumption|].
      inversion Hst as [|? ? Ha Hrest]; subst. apply convP_bind. destruct a as [lv|].
      - destruct Ha as [v Hv]. apply (convP_bind (fun F => eval_lv' F lv) (fun _ _ => ret tt)).
        eapply convP_mono; [apply (force_v_conv rho g lv v ls0 pl1 HV Hv Hb)|]. intros v' ls1 pl2 (-> & Hb1 & HV1).
        apply convP_ret. apply (IHa Hrest ls1 pl2 HV1 Hb1).
      - apply convP_ret. apply (IHa Hrest ls0 pl1 HV Hb). }
    eapply convP_mono; [apply (Hargs ls pl0 HV Hbl)|]. intros _ ls1 pl1 [Hb1 HV1]. apply (IH ls1 pl1 HF' HV1 Hb1).
  Qed.

  Lemma eval_store_all_conv rho g ls pl : vinv rho g ls -> nob pl -> convP (fun F => store_evaluate_all t fl call F ls pl) (vpost rho g).
  Proof.
    intros HV Hb. unfold store_evaluate_all. apply convP_get.
    assert (Hlen : length (l_store ls) = length rho) by (destruct HV as (_ & [Hl _] & _); congruence). rewrite Hlen.
    assert (Hgen : forall l ls0 pl0, Forall (fun i => (i < length rho)%nat) l -> vinv rho g ls0 -> nob pl0 ->
              convP (fun F => iterM (fun i => force_thunk t fl call F i ;;; ret tt) (map N.of_nat l) ls0 pl0) (vpost rho g)).
    { induction l as [|i l IHl]; intros ls0 pl0 HF HV0 Hb0; cbn [map iterM]; [apply convP_ret; split; assumption|].
      inversion HF as [|? ? Hi HF']; subst. apply convP_bind. apply (convP_bind (fun F => force_thunk t fl call F (N.of_nat i)) (fun _ _ => ret tt)).
      destruct HV0 as (Hg0 & Hst0 & Hsc0).
      assert (HC : convP (fun F => force_thunk t fl call F (N.of_nat i) ls0 pl0) (fun _ ls' p' => nob p' /\ exists st', ls' = set_store st' ls0 /\ store_wf rho st')).
      { apply convP_of_conv; [|intros F; apply (force_full_thunk call t fl F rho i ls0 pl0 Hst0 Hi Hb0)].
        destruct (nth_error rho i) as [v|] eqn:Ev; [|apply nth_error_None in Ev; lia].
        apply (thunk_conv call t fl rho _ (N.of_nat i) v ls0 pl0 Hst0); rewrite ?Nnat.Nat2N.id; [|exact Ev|exact Hb0].
        destruct Hst0 as [Hl _]. lia. }
      eapply convP_mono; [exact HC|]. intros v ls1 pl1 (Hb1 & st' & -> & Hst').
      apply convP_ret. apply (IHl _ pl1 HF'); [apply vinv_intro; first [assumption|reflexivity]|exact Hb1]. }
    apply Hgen; [|exact HV|exact Hb]. apply Forall_forall. intros i Hi. apply in_seq in Hi. lia.
  Qed.

  Lemma evaluate_phase_conv rho ss ls pl : Rel call rho ss ls -> nob pl ->
    convP (fun F => evaluate_phase t fl call F ls pl) (fun _ ls' _ => l_graph ls' = s_graph ss).
  Proof.
    intros ([Hst _] & Hsc & Hpr & eops & aopss & g1 & He & Ha & Hg1 & Hg2) Hb. unfold evaluate_phase. apply convP_get.
    assert (HV : vinv rho (l_graph ls) ls) by (apply vinv_intro; first [assumption|reflexivity]).
    apply convP_bind. eapply convP_mono; [apply (eval_edge_stmts_conv rho _ _ _ _ ls pl He HV Hg1 Hb)|]. intros _ ls1 pl1 [Hb1 HV1].
    apply convP_bind. eapply convP_mono; [apply (eval_attr_stmts_conv rho _ _ _ _ ls1 pl1 Ha HV1 Hg2 Hb1)|]. intros _ ls2 pl2 [Hb2 HV2].
    apply convP_bind. eapply convP_mono; [apply (eval_print_stmts_conv rho _ _ ls2 pl2 Hpr HV2 Hb2)|]. intros _ ls3 pl3 [Hb3 HV3].
    apply convP_bind. eapply convP_mono; [apply (eval_store_all_conv rho _ ls3 pl3 HV3 Hb3)|]. intros _ ls4 pl4 [Hb4 (Hg4 & Hst4 & Hsc4)].
    unfold scoped_evaluate_all. apply convP_get. rewrite Hsc4. cbn [sort_alist sort_by fold_right map iterM]. apply convP_ret. exact Hg4.
  Qed.

  Notation xconvU := (xconv call (@anyQ unit unit)).
  Lemma xconv_lext {A B} (Q : A -> B -> Prop) ms (mlf mlf' : nat -> M lstate B) : (forall lf s p, mlf lf s p = mlf' lf s p) -> xconv call Q ms mlf' -> xconv call Q ms mlf.
  Proof. intros E H ss p a ss' p' Hs ls pl HR Hb. eapply convP_ext; [intros lf; apply E|]. apply (H _ _ _ _ _ Hs ls pl HR Hb). Qed.

  Lemma stanza_matches_conv fuel st i : nth_error (f_stanzas fl) (N.to_nat i) = Some st ->
    forall qs, Forall (match_ok okfn fl st) qs ->
    xconvU (iterM (exec_stanza t fl config0 glob regexes find call fuel st) qs) (fun lf => iterM (lstep lf) (map (fun q => (i, q)) qs)).
  Proof.
    intros Hst. induction qs as [|q qs IH]; intros HF; cbn [iterM map]; [apply xconv_ret; exact I|].
    inversion HF as [|? ? (H1 & H2 & H3) HF']; subst.
    apply (xconv_seq call anyQ _ (fun lf => lstep lf (i, q)) _ (fun lf => iterM (lstep lf) (map (fun q0 => (i, q0)) qs))); [|apply IH, HF'].
    unfold lstep. cbn [fst snd]. rewrite Hst. apply (stanza_conv t fl glob regexes find call okfn Hpure q H2 fuel st H1 H3).
  Qed.

  Lemma file_conv fuel : forall sts ms i,
    (forall j st, nth_error sts j = Some st -> nth_error (f_stanzas fl) (N.to_nat i + j) = Some st) ->
    file_ok okfn fl sts ms ->
    xconvU (exec_file t fl config0 glob regexes find call fuel sts ms) (fun lf => iterM (lstep lf) (lmatches_from i ms)).
  Proof.
    induction sts as [|st sts IH]; intros [|qs ms] i Hnth Hok; cbn [exec_file lmatches_from file_ok] in *; try (apply xconv_ret; exact I); [contradiction|].
    destruct Hok as [Hqs Hrest].
    apply (xconv_lext anyQ _ _ (fun lf => iterM (lstep lf) (map (fun q => (i, q)) qs) ;;; iterM (lstep lf) (lmatches_from (i + 1) ms))); [intros lf s p; apply iterM_app|].
    apply (xconv_seq call anyQ _ (fun lf => iterM (lstep lf) (map (fun q => (i, q)) qs)) _ (fun lf => iterM (lstep lf) (lmatches_from (i + 1) ms))).
    - apply stanza_matches_conv; [|exact Hqs]. rewrite <- (Nat.add_0_r (N.to_nat i)). apply Hnth. reflexivity.
    - apply IH; [|exact Hrest]. intros j st' Hj. rewrite N2Nat.inj_add. change (N.to_nat 1) with 1%nat.
      replace (N.to_nat i + 1 + j)%nat with (N.to_nat i + S j)%nat by lia. apply Hnth. exact Hj.
  Qed.
End Whole.

(* ---------------- the theorem ---------------- *)
Theorem strict_lazy_same_graph_lemma {rx : Type} t fl supplied (regexes : list rx) find call (okfn : ident -> Prop) fuel ms g0 s p :
  (forall f, okfn f -> pure_fn call f) ->
  file_ok okfn fl (f_stanzas fl) ms ->
  run_strict t fl config0 supplied None regexes find call fuel ms g0 = Ok (s, p) ->
  forall lfuel,
    match run_lazy t fl config0 supplied None regexes find call lfuel (lmatches_of ms) g0 with
    | Ok (ls, _) => l_graph ls = s_graph s
    | OutOfFuel => True
    | Err _ | Panic _ => False
    end.
Proof.
  intros Hpure Hok Hs lfuel. unfold run_strict in Hs. unfold run_lazy.
  destruct (check_globals (f_globals fl) (globals_nested supplied)) as [glob|e|x|]; try discriminate.
  destruct (exec_file t fl config0 glob regexes find call fuel (f_stanzas fl) ms (sinit g0) (polls0 None)) as [[[u s1] p1]|e|x|] eqn:Es; try discriminate.
  inversion Hs; subst s1 p1; clear Hs.
  assert (HR0 : RelX call (sinit g0) (linit g0)).
  { exists []. split; [split; [apply store_wf_nil|constructor; [constructor|constructor]]|]. split; [reflexivity|]. split; [constructor|].
    exists [], [], g0. repeat split; constructor. }
  pose proof (file_sim t fl glob regexes find call okfn Hpure fuel lfuel (f_stanzas fl) ms 0 (fun j st H => H) Hok _ _ _ _ _ Es (linit g0) (polls0 None) HR0 eq_refl) as Hx.
  unfold lexec_file. fold (lstep t fl glob regexes find call lfuel). unfold lmatches_of.
  unfold bind. destruct (iterM (lstep t fl glob regexes find call lfuel) (lmatches_from 0 ms) (linit g0) (polls0 None)) as [[[u1 ls1] pl1]|e|x|]; cbn [lres] in Hx; try contradiction; [|exact I].
  destruct Hx as (Hb1 & [rho HR1] & _).
  pose proof (evaluate_phase_res t fl call (lfuel + default_eval_fuel) rho s ls1 pl1 HR1 Hb1) as Hv.
  destruct (evaluate_phase t fl call (lfuel + default_eval_fuel) ls1 pl1) as [[[u2 ls2] pl2]|e|x|]; cbn [lres] in Hv; try contradiction; [exact Hv|exact I].
Qed.

(* adequacy: some lazy fuel suffices, and then every larger fuel gives the same graph *)
Theorem strict_lazy_adequate_lemma {rx : Type} t fl supplied (regexes : list rx) find call (okfn : ident -> Prop) fuel ms g0 s p :
  (forall f, okfn f -> pure_fn call f) ->
  file_ok okfn fl (f_stanzas fl) ms ->
  run_strict t fl config0 supplied None regexes find call fuel ms g0 = Ok (s, p) ->
  exists lfuel0, forall lfuel, (lfuel0 <= lfuel)%nat ->
    exists ls pl, run_lazy t fl config0 supplied None regexes find call lfuel (lmatches_of ms) g0 = Ok (ls, pl) /\ l_graph ls = s_graph s.
Proof.
  intros Hpure Hok Hs. unfold run_strict in Hs. unfold run_lazy.
  destruct (check_globals (f_globals fl) (globals_nested supplied)) as [glob|e|x|]; try discriminate.
  destruct (exec_file t fl config0 glob regexes find call fuel (f_stanzas fl) ms (sinit g0) (polls0 None)) as [[[u s1] p1]|e|x|] eqn:Es; try discriminate.
  inversion Hs; subst s1 p1; clear Hs.
  assert (HR0 : RelX call (sinit g0) (linit g0)).
  { exists []. split; [split; [apply store_wf_nil|constructor; [constructor|constructor]]|]. split; [reflexivity|]. split; [constructor|].
    exists [], [], g0. repeat split; constructor. }
  pose proof (file_conv t fl glob regexes find call okfn Hpure fuel (f_stanzas fl) ms 0 (fun j st H => H) Hok _ _ _ _ _ Es (linit g0) (polls0 None) HR0 eq_refl) as Hx.
  assert (HC : convP (fun lf => lexec_file t fl config0 glob regexes find call lf (lmatches_of ms) (linit g0) (polls0 None)) (fun _ ls' _ => l_graph ls' = s_graph s)).
  { unfold lexec_file, lmatches_of.
    apply (convP_bind (fun lf => iterM (lstep t fl glob regexes find call lf) (lmatches_from 0 ms)) (fun lf _ => evaluate_phase t fl call (lf + default_eval_fuel))).
    eapply convP_mono; [exact Hx|]. intros _ ls1 pl1 (Hb1 & [rho HR1] & _).
    apply (convP_reindex (fun F => evaluate_phase t fl call F ls1 pl1) (fun lf => (lf + default_eval_fuel)%nat)); [intros; lia|].
    apply (evaluate_phase_conv t fl call rho s ls1 pl1 HR1 Hb1). }
  destruct HC as (B & u2 & ls2 & pl2 & HB & Hg). exists B. intros lfuel Hl. exists ls2, pl2. rewrite (HB lfuel Hl). auto.
Qed.

(* ---------------- the standard library: every function except `node` is graph-pure ---------------- *)
Lemma stdlib_pure_fn rxo t f : fn_of_name f <> Some FNode -> pure_fn (stdlib_call rxo t) f.
Proof.
  intros Hn g args v g'. unfold stdlib_call. destruct (fn_of_name f) as [fn|]; [|discriminate]. unfold stdlib_fn.
  assert (Hp : forall g2, stdlib_pure rxo t fn g2 args = stdlib_pure rxo t fn g args) by (intros g2; destruct fn; try reflexivity; congruence).
  destruct (stdlib_pure rxo t fn g args) as [v0|e|x|] eqn:E; cbn [obind]; try discriminate.
  intros H. assert (Hg : g' = g) by (destruct fn; inversion H; try reflexivity; congruence).
  assert (Hv : v0 = v) by (inversion H; reflexivity). subst. split; [reflexivity|].
  intros g2. rewrite Hp. cbn [obind]. destruct fn; try reflexivity; congruence.
Qed.
