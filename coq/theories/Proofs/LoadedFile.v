(* Proofs/LoadedFile.v — what the checker model leaves unchanged: File::check rewrites capture resolutions only
   (check_resolves_lemma: erase_resolution f' = erase_resolution f), so the statements of the checked file, in the traversal
   order of file_stmts, have the same locations and print the same identifiers as those of the parsed file.  Hence the two
   facts about parsed files (Proofs/ParseLocStmt.v: locations strictly increasing; Proofs/ParseClean.v: identifiers without
   control characters) hold of the file that Model/Loader.v `load` returns - the file that is executed. *)
From TSG Require Import Model.AstDisplay.
From TSG Require Import Model.Checker Spec.Rules Proofs.BaseFacts Proofs.Checker.
From TSG Require Model.Parser Model.Loader Proofs.Loader Proofs.ParseLocStmt Proofs.ParseClean Proofs.ParseNodeText.

Lemma flat_map_map_same {A B} (g : A -> A) (f : A -> list B) l :
  Forall (fun x => f (g x) = f x) l -> flat_map f (map g l) = flat_map f l.
Proof. induction 1 as [|x l Hx Hl IH]; cbn [map flat_map]; [reflexivity|]. rewrite Hx, IH. reflexivity. Qed.

Lemma erase_expr_names e : expr_names (erase_expr e) = expr_names e.
Proof.
  induction e using expr_ind'; cbn [erase_expr expr_names]; try reflexivity.
  - apply flat_map_map_same. assumption.
  - apply flat_map_map_same. assumption.
  - rewrite IHe1, IHe2. reflexivity.
  - rewrite IHe1, IHe2. reflexivity.
  - rewrite IHe. reflexivity.
  - f_equal. apply flat_map_map_same. assumption.
Qed.
Lemma erase_variable_names v : variable_names (erase_variable v) = variable_names v.
Proof. destruct v; cbn [erase_variable variable_names]; [reflexivity|]. rewrite erase_expr_names. reflexivity. Qed.
Lemma erase_attr_names a : attr_names (erase_attr a) = attr_names a.
Proof. destruct a; cbn [erase_attr attr_names]. rewrite erase_expr_names. reflexivity. Qed.
Lemma erase_cond_names c : cond_names (erase_cond c) = cond_names c.
Proof. destruct c; cbn [erase_cond cond_names]; apply erase_expr_names. Qed.
Lemma erase_attrs_names l : flat_map attr_names (map erase_attr l) = flat_map attr_names l.
Proof. apply flat_map_map_same. apply Forall_forall. intros a _. apply erase_attr_names. Qed.
Lemma erase_conds_names l : flat_map cond_names (map erase_cond l) = flat_map cond_names l.
Proof. apply flat_map_map_same. apply Forall_forall. intros a _. apply erase_cond_names. Qed.
Lemma erase_exprs_names l : flat_map expr_names (map erase_expr l) = flat_map expr_names l.
Proof. apply flat_map_map_same. apply Forall_forall. intros a _. apply erase_expr_names. Qed.

Lemma erase_stmt_loc s : stmt_loc (erase_stmt s) = stmt_loc s.
Proof. destruct s; reflexivity. Qed.
Lemma erase_stmt_names s : stmt_names (erase_stmt s) = stmt_names s.
Proof.
  destruct s; cbn [erase_stmt stmt_names];
    rewrite ?erase_variable_names, ?erase_expr_names, ?erase_attrs_names, ?erase_exprs_names; try reflexivity.
  induction arms as [|a r IH]; cbn [map flat_map fst snd]; [reflexivity|]. rewrite erase_conds_names, IH. reflexivity.
Qed.

Lemma erase_block_stmts body :
  Forall (fun s => substmts (erase_stmt s) = map erase_stmt (substmts s)) body ->
  flat_map (fun x => x :: substmts x) (map erase_stmt body) = map erase_stmt (flat_map (fun x => x :: substmts x) body).
Proof.
  induction 1 as [|x l Hx Hl IH]; cbn [map flat_map]; [reflexivity|].
  rewrite map_app. cbn [map app]. rewrite Hx, IH. reflexivity.
Qed.
Lemma erase_substmts s : substmts (erase_stmt s) = map erase_stmt (substmts s).
Proof.
  induction s using stmt_ind'; cbn [erase_stmt substmts]; try reflexivity.
  - induction H as [|a r Ha Hr IH]; cbn [map flat_map fst snd]; [reflexivity|].
    rewrite map_app, IH. f_equal. apply erase_block_stmts. exact Ha.
  - induction H as [|a r Ha Hr IH]; cbn [map flat_map fst snd]; [reflexivity|].
    rewrite map_app, IH. f_equal. apply erase_block_stmts. exact Ha.
  - apply erase_block_stmts. assumption.
Qed.
Lemma erase_block l : block_stmts (map erase_stmt l) = map erase_stmt (block_stmts l).
Proof. unfold block_stmts. apply erase_block_stmts. apply Forall_forall. intros s _. apply erase_substmts. Qed.
Lemma erase_file_stmts f : file_stmts (erase_resolution f) = map erase_stmt (file_stmts f).
Proof.
  unfold file_stmts, erase_resolution. cbn [f_stanzas].
  induction (f_stanzas f) as [|st r IH]; cbn [map flat_map]; [reflexivity|].
  rewrite map_app, IH. f_equal. unfold erase_stanza. cbn [st_stmts]. apply erase_block.
Qed.

Lemma erased_same_locs f f' : erase_resolution f' = erase_resolution f ->
  map stmt_loc (file_stmts f') = map stmt_loc (file_stmts f).
Proof.
  intros H. assert (Hm : forall g, map stmt_loc (file_stmts (erase_resolution g)) = map stmt_loc (file_stmts g)).
  { intros g. rewrite erase_file_stmts, map_map. apply map_ext. apply erase_stmt_loc. }
  rewrite <- (Hm f'), <- (Hm f), H. reflexivity.
Qed.
Lemma erased_same_names f f' : erase_resolution f' = erase_resolution f ->
  map stmt_names (file_stmts f') = map stmt_names (file_stmts f).
Proof.
  intros H. assert (Hm : forall g, map stmt_names (file_stmts (erase_resolution g)) = map stmt_names (file_stmts g)).
  { intros g. rewrite erase_file_stmts, map_map. apply map_ext. apply erase_stmt_names. }
  rewrite <- (Hm f'), <- (Hm f), H. reflexivity.
Qed.

Lemma checked_same_locs q f f' : check_file q f = CkOk f' -> map stmt_loc (file_stmts f') = map stmt_loc (file_stmts f).
Proof. intros H. apply erased_same_locs. exact (proj1 (check_resolves_lemma _ _ _ _ H)). Qed.
Lemma checked_same_names q f f' : check_file q f = CkOk f' -> map stmt_names (file_stmts f') = map stmt_names (file_stmts f).
Proof. intros H. apply erased_same_names. exact (proj1 (check_resolves_lemma _ _ _ _ H)). Qed.

(* the Display text of a variable does not read the capture resolutions, so the check `text of a node statement = Display
   text of its variable` (Proofs/ParseNodeText.v node_textb) survives the checker *)
Lemma erase_expr_display E e : display_expr E (erase_expr e) = display_expr E e.
Proof.
  induction e using expr_ind'; cbn [erase_expr display_expr]; try reflexivity.
  - rewrite map_map. rewrite (map_ext_in _ (display_expr E)); [reflexivity|].
    intros a Ha. rewrite Forall_forall in H. exact (H a Ha).
  - rewrite map_map. rewrite (map_ext_in _ (display_expr E)); [reflexivity|].
    intros a Ha. rewrite Forall_forall in H. exact (H a Ha).
  - rewrite IHe1, IHe2. reflexivity.
  - rewrite IHe1, IHe2. reflexivity.
  - rewrite IHe. reflexivity.
  - do 2 f_equal. f_equal. apply flat_map_map_same. induction H as [|a args Ha Hargs IH]; constructor; [|exact IH].
    rewrite Ha. reflexivity.
Qed.
Lemma erase_variable_display E v : display_variable E (erase_variable v) = display_variable E v.
Proof. destruct v; cbn [erase_variable display_variable]; [reflexivity|]. rewrite erase_expr_display. reflexivity. Qed.
Lemma erase_stmt_node_textb E s : ParseNodeText.node_textb E (erase_stmt s) = ParseNodeText.node_textb E s.
Proof. destruct s; cbn [erase_stmt ParseNodeText.node_textb]; try reflexivity. rewrite erase_variable_display. reflexivity. Qed.
Lemma erased_same_node_textb E f f' : erase_resolution f' = erase_resolution f ->
  map (ParseNodeText.node_textb E) (file_stmts f') = map (ParseNodeText.node_textb E) (file_stmts f).
Proof.
  intros H. assert (Hm : forall g, map (ParseNodeText.node_textb E) (file_stmts (erase_resolution g)) = map (ParseNodeText.node_textb E) (file_stmts g)).
  { intros g. rewrite erase_file_stmts, map_map. apply map_ext. apply erase_stmt_node_textb. }
  rewrite <- (Hm f'), <- (Hm f), H. reflexivity.
Qed.
Lemma checked_same_node_textb E q f f' : check_file q f = CkOk f' ->
  map (ParseNodeText.node_textb E) (file_stmts f') = map (ParseNodeText.node_textb E) (file_stmts f).
Proof. intros H. apply erased_same_node_textb. exact (proj1 (check_resolves_lemma _ _ _ _ H)). Qed.
Lemma forallb_map_id {A} (f : A -> bool) L : forallb f L = forallb (fun b => b) (map f L).
Proof. induction L as [|x L IH]; cbn [map forallb]; [reflexivity|]. rewrite IH. reflexivity. Qed.

Lemma names_cleanb_map L : forallb stmt_names_cleanb L = forallb (forallb clean_strb) (map stmt_names L).
Proof. induction L as [|s L IH]; cbn [map forallb]; [reflexivity|]. rewrite IH. reflexivity. Qed.

(* ------------------------------------------------------------------ the file returned by the loader *)
Lemma load_ok_inv X q fuel text fl pats :
  Loader.load X q fuel text = Loader.LdOk fl pats ->
  exists f0, Parser.parse X fuel text = Parser.POk f0 pats /\ check_file q f0 = CkOk fl.
Proof.
  rewrite Loader.load_spec_lemma. destruct (Parser.parse X fuel text) as [f0 p0|v l p|n| |]; try discriminate.
  destruct (check_file q f0) as [f'|v l ns|n] eqn:Ec; try discriminate.
  intros H. injection H as <- <-. exists f0. split; [reflexivity|exact Ec].
Qed.

Lemma loaded_locs_unique_lemma X q fuel text fl pats :
  Loader.load X q fuel text = Loader.LdOk fl pats -> locs_unique fl = true.
Proof.
  intros H. destruct (load_ok_inv _ _ _ _ _ _ H) as (f0 & Hp & Hc).
  unfold locs_unique. rewrite (checked_same_locs _ _ _ Hc). exact (ParseLocStmt.parsed_locs_unique_lemma _ _ _ _ _ Hp).
Qed.
Lemma loaded_locs_increasing_lemma X q fuel text fl pats :
  Loader.load X q fuel text = Loader.LdOk fl pats ->
  forall i j a b, (i < j)%nat ->
    nth_error (map stmt_loc (file_stmts fl)) i = Some a -> nth_error (map stmt_loc (file_stmts fl)) j = Some b ->
    fst a < fst b \/ (fst a = fst b /\ snd a < snd b).
Proof.
  intros H. destruct (load_ok_inv _ _ _ _ _ _ H) as (f0 & Hp & Hc).
  rewrite (checked_same_locs _ _ _ Hc). exact (ParseLocStmt.parsed_locs_increasing_lemma _ _ _ _ _ Hp).
Qed.
Lemma loaded_names_clean_lemma X q fuel text fl pats :
  Loader.load X q fuel text = Loader.LdOk fl pats -> forallb stmt_names_cleanb (file_stmts fl) = true.
Proof.
  intros H. destruct (load_ok_inv _ _ _ _ _ _ H) as (f0 & Hp & Hc).
  rewrite names_cleanb_map, (checked_same_names _ _ _ Hc), <- names_cleanb_map.
  exact (ParseClean.parsed_names_clean_lemma _ _ _ _ _ Hp).
Qed.

(* every `node` statement of the loaded file, at any depth, carries the Display text of its variable (the text the
   interpreters write into the debug attribute), for the <str as Debug> table the loader was given *)
Lemma loaded_node_text_lemma X q fuel text fl pats :
  Loader.load X q fuel text = Loader.LdOk fl pats ->
  forall v t l, In (SNode v t l) (file_stmts fl) -> t = display_variable (dpenv_of (Parser.x_print X)) v.
Proof.
  intros H v t l Hin. destruct (load_ok_inv _ _ _ _ _ _ H) as (f0 & Hp & Hc).
  pose proof (ParseNodeText.parsed_node_text_lemma _ _ _ _ _ Hp) as Hall.
  rewrite forallb_map_id, <- (checked_same_node_textb _ _ _ _ Hc), <- forallb_map_id in Hall.
  rewrite forallb_forall in Hall. apply (ParseNodeText.node_textb_spec _ v t l). exact (Hall _ Hin).
Qed.
