(* Proofs/Containers.v — C17: the container models refine plain map/set specifications. *)
From TSG Require Import Model.ContainerOps Proofs.BaseFacts.
From Coq Require Import Sorted.

(* ================= Attributes ================= *)
Definition amap_abs := ident -> option value.
Definition abs_attrs (m : amap) : amap_abs := fun k => alist_get k m.
Definition upd (f : amap_abs) (k : ident) (v : value) : amap_abs := fun k' => if str_eqb k' k then Some v else f k'.

(* the documented contract of Attributes::add, on abstract maps *)
Definition spec_attrs_add (f : amap_abs) (k : ident) (v : value) : amap_abs * option value :=
  match f k with
  | None => (upd f k v, None)
  | Some old => if value_eqb old v then (f, None) else (upd f k v, Some old)
  end.

Definition attrs_wf (m : amap) : Prop := NoDup (map fst m).

Lemma attrs_add_refines m k v :
  snd (attrs_add m k v) = snd (spec_attrs_add (abs_attrs m) k v) /\
  forall k', abs_attrs (fst (attrs_add m k v)) k' = fst (spec_attrs_add (abs_attrs m) k v) k'.
Proof.
  unfold attrs_add, spec_attrs_add, abs_attrs, upd.
  destruct (alist_get k m) as [old|] eqn:E.
  - destruct (value_eqb old v); cbn [fst snd]; split; auto.
    intros k'. apply alist_get_set.
  - cbn [fst snd]. split; auto. intros k'. rewrite alist_get_app. cbn [alist_get].
    destruct (str_eqb_spec k' k) as [->|Hn]; [rewrite E; reflexivity|]. destruct (alist_get k' m); reflexivity.
Qed.

Lemma attrs_add_wf m k v : attrs_wf m -> attrs_wf (fst (attrs_add m k v)).
Proof.
  unfold attrs_wf, attrs_add. intros H. destruct (alist_get k m) as [old|] eqn:E.
  - destruct (value_eqb old v); cbn [fst]; [assumption|]. rewrite alist_set_keys; [assumption|congruence].
  - cbn [fst]. rewrite map_app. cbn [map fst]. apply NoDup_app_one; [assumption|]. apply alist_get_None; assumption.
Qed.

(* a conflict is reported exactly when a different value was present; the new value is stored *)
Lemma attr_add_conflict_iff_lemma m k v old :
  snd (attrs_add m k v) = Some old <-> (attrs_get m k = Some old /\ old <> v).
Proof.
  unfold attrs_add, attrs_get. destruct (alist_get k m) as [o|] eqn:E.
  - destruct (value_eqb o v) eqn:Ev; cbn [snd].
    + apply value_eqb_eq in Ev; subst. split; [discriminate|]. intros [[= ->] Hn]; congruence.
    + apply value_eqb_neq in Ev. split; [intros [= ->]; auto | intros [[= ->] _]; reflexivity].
  - cbn [snd]. split; [discriminate | intros [? _]; discriminate].
Qed.
Lemma attr_add_then_get_lemma m k v : attrs_get (fst (attrs_add m k v)) k = Some v.
Proof.
  unfold attrs_get, attrs_add. destruct (alist_get k m) as [o|] eqn:E.
  - destruct (value_eqb o v) eqn:Ev; cbn [fst].
    + apply value_eqb_eq in Ev; subst; assumption.
    + rewrite alist_get_set, str_eqb_refl; reflexivity.
  - cbn [fst]. rewrite alist_get_app, E. cbn [alist_get]. rewrite str_eqb_refl; reflexivity.
Qed.

(* ================= sorted edge vectors ================= *)
Definition sinks (es : edges) : list N := map fst es.
Definition edges_wf (es : edges) : Prop := StronglySorted N.lt (sinks es).

Definition abs_edges (es : edges) : N -> option amap := fun k => edges_get k es.

Lemma edges_get_lt_hd k es : edges_wf es -> Forall (N.lt k) (sinks es) -> edges_get k es = None.
Proof.
  destruct es as [|[s a] es]; cbn [edges_get sinks map fst]; [reflexivity|].
  intros _ H. inversion H; subst. destruct (N.compare_spec k s); try lia. reflexivity.
Qed.

Ltac ncases := repeat match goal with
  | |- context [N.compare ?a ?b] => destruct (N.compare_spec a b); try lia; subst
  | |- context [N.eqb ?a ?b] => destruct (N.eqb_spec a b); try lia; subst
  end.
Ltac small := intros; cbn [In sinks map fst edges_get] in *; ncases; try rewrite ?N.compare_refl in *;
  try reflexivity; try discriminate; try solve [intuition (subst; auto; try lia; try discriminate)].

Lemma edges_add_spec k es : edges_wf es ->
  let '(b, es') := edges_add k es in
  edges_wf es' /\
  (b = true <-> edges_get k es = None) /\
  (forall k', edges_get k' es' = if N.eqb k' k then (match edges_get k es with Some a => Some a | None => Some [] end) else edges_get k' es) /\
  (forall x, In x (sinks es') <-> x = k \/ In x (sinks es)).
Proof.
  unfold edges_wf. induction es as [|[s a] es IH]; intros Hs.
  - cbn [edges_add]. split; [repeat constructor|]. split; [small|]. split; small.
  - cbn [edges_add]. inversion Hs as [|? ? Hs' Hall]; subst. destruct (N.compare_spec k s) as [->|Hlt|Hgt].
    + split; [exact Hs|]. split; [small|]. split; small.
    + split; [|split; [small|split; small]].
      constructor; [exact Hs|]. constructor; [assumption|]. eapply Forall_impl; [|exact Hall]. cbn; intros; lia.
    + specialize (IH Hs'). destruct (edges_add k es) as [b r]. destruct IH as (Hr & Hb & Hget & Hin).
      split; [|split; [|split]].
      * cbn [sinks map fst]. constructor; [exact Hr|]. apply Forall_forall. intros x Hx. apply Hin in Hx. destruct Hx as [->|Hx]; [assumption|].
        rewrite Forall_forall in Hall. auto.
      * cbn [edges_get]. destruct (N.compare_spec k s); try lia. exact Hb.
      * intros k'. cbn [edges_get]. destruct (N.compare_spec k s); try lia. destruct (N.compare_spec k' s) as [->|Hl|Hg].
        -- destruct (N.eqb_spec s k); [lia|reflexivity].
        -- destruct (N.eqb_spec k' k); [lia|reflexivity].
        -- apply Hget.
      * intros x. cbn [sinks map fst In]. specialize (Hin x). unfold sinks in Hin. tauto.
Qed.

Lemma edges_add_wf k es : edges_wf es -> edges_wf (snd (edges_add k es)).
Proof. intros H. pose proof (edges_add_spec k es H) as S. destruct (edges_add k es). cbn; intuition (subst; auto). Qed.

Lemma edges_set_sinks k a es : sinks (edges_set k a es) = sinks es.
Proof.
  induction es as [|[s a'] es IH]; cbn [edges_set sinks map fst]; [reflexivity|].
  destruct (N.eqb k s); cbn [map fst]; [reflexivity|]. unfold sinks in IH. rewrite IH. reflexivity.
Qed.
Lemma edges_get_set k a es k' : edges_wf es -> edges_get k es <> None ->
  edges_get k' (edges_set k a es) = if N.eqb k' k then Some a else edges_get k' es.
Proof.
  unfold edges_wf. induction es as [|[s a'] es IH]; intros Hs Hk; cbn [edges_get edges_set] in *; [congruence|].
  inversion Hs as [|? ? Hs' Hall]; subst.
  destruct (N.eqb_spec k s) as [->|Hn]; cbn [edges_get].
  - destruct (N.compare_spec k' s); destruct (N.eqb_spec k' s); try lia; reflexivity.
  - destruct (N.compare_spec k s); try lia; [congruence|].
    destruct (N.compare_spec k' s); destruct (N.eqb_spec k' k); try lia; try reflexivity; apply IH; auto.
    all: destruct (N.eqb_spec k' k); try lia; auto.
Qed.
Lemma edges_get_In k es a : edges_get k es = Some a -> In k (sinks es).
Proof.
  induction es as [|[s a'] es IH]; cbn [edges_get sinks map fst]; [discriminate|].
  destruct (N.compare_spec k s); [left; auto | discriminate | right; auto].
Qed.
Lemma edges_In_get k es : edges_wf es -> In k (sinks es) -> edges_get k es <> None.
Proof.
  unfold edges_wf. induction es as [|[s a'] es IH]; cbn [edges_get sinks map fst]; [tauto|].
  intros Hs [->|Hin]; [rewrite N.compare_refl; discriminate|]. inversion Hs as [|? ? Hs' Hall]; subst.
  rewrite Forall_forall in Hall. specialize (Hall _ Hin). destruct (N.compare_spec k s); try lia. auto.
Qed.

(* ================= graph histories ================= *)
Definition gnode_wf (n : gnode) : Prop :=
  attrs_wf (g_attrs n) /\ edges_wf (g_edges n) /\ Forall (fun e => attrs_wf (snd e)) (g_edges n).
Definition graph_wf (g : graph) : Prop := Forall gnode_wf g.

Lemma list_update_Forall {A} (P : A -> Prop) n f l :
  Forall P l -> (forall x, P x -> P (f x)) -> Forall P (list_update n f l).
Proof. revert n; induction l as [|x l IH]; intros [|n] H Hf; cbn; auto; inversion H; subst; constructor; auto. Qed.
Lemma list_update_length {A} n (f : A -> A) l : length (list_update n f l) = length l.
Proof. revert n; induction l as [|x l IH]; intros [|n]; cbn; auto. Qed.
Lemma nth_error_list_update {A} n m (f : A -> A) l :
  nth_error (list_update n f l) m = if Nat.eqb m n then option_map f (nth_error l m) else nth_error l m.
Proof.
  revert n m; induction l as [|x l IH]; intros [|n] [|m]; cbn; auto.
  all: try (destruct (Nat.eqb m n); reflexivity); try (destruct (Nat.eqb m 0); reflexivity).
Qed.

Lemma edges_add_attrs_wf k es : Forall (fun e => attrs_wf (snd e)) es -> Forall (fun e => attrs_wf (snd e)) (snd (edges_add k es)).
Proof.
  induction es as [|[s a] es IH]; intros H; cbn [edges_add].
  - cbn. repeat constructor.
  - inversion H; subst. destruct (N.compare k s); cbn [snd].
    + assumption.
    + constructor; [constructor|assumption].
    + specialize (IH H3). destruct (edges_add k es). cbn [snd] in *. constructor; assumption.
Qed.
Lemma edges_set_attrs_wf k a es : attrs_wf a -> Forall (fun e => attrs_wf (snd e)) es -> Forall (fun e => attrs_wf (snd e)) (edges_set k a es).
Proof.
  intros Ha. induction es as [|[s a'] es IH]; intros H; cbn [edges_set]; [constructor|].
  inversion H; subst. destruct (N.eqb k s); constructor; auto.
Qed.
Lemma edges_get_attrs_wf k es a : Forall (fun e => attrs_wf (snd e)) es -> edges_get k es = Some a -> attrs_wf a.
Proof.
  induction es as [|[s a'] es IH]; cbn [edges_get]; [discriminate|]. intros H; inversion H; subst.
  destruct (N.compare k s); [intros [= <-]; assumption | discriminate | auto].
Qed.

Definition cstate_wf (s : cstate) : Prop := graph_wf (cs_graph s) /\ Forall (fun f : gframe => NoDup (map fst f)) (cs_vars s).

Lemma gnode_at_wf g i n : graph_wf g -> gnode_at g i = Some n -> gnode_wf n.
Proof. unfold graph_wf, gnode_at. intros H E. rewrite Forall_forall in H. apply H. eapply nth_error_In; eauto. Qed.

(* every reachable state keeps: edges strictly ascending by sink, attribute names unique *)
Lemma cstep_wf s o : cstate_wf s -> cstate_wf (fst (cstep s o)).
Proof.
  intros [Hg Hv]. unfold cstep.
  destruct o; cbn [cs_graph cs_vars].
  - (* add node *) unfold add_graph_node. cbn [fst cs_graph cs_vars]. split; [|assumption].
    apply Forall_app. split; [assumption|]. repeat constructor.
  - destruct (in_range _ src && in_range _ sink); [|split; assumption].
    unfold graph_add_edge. destruct (gnode_at (cs_graph s) src) as [n|] eqn:E; [|split; assumption].
    pose proof (gnode_at_wf _ _ _ Hg E) as (Ha & He & Hea).
    pose proof (edges_add_wf sink _ He) as Hw. pose proof (edges_add_attrs_wf sink _ Hea) as Hw2.
    destruct (edges_add sink (g_edges n)) as [b es]. cbn [snd fst cs_graph cs_vars] in *. split; [|assumption].
    apply list_update_Forall; [assumption|]. intros x (Hxa & _ & _). repeat split; assumption.
  - destruct (gnode_at _ src); split; assumption.
  - destruct (gnode_at (cs_graph s) src) as [n|] eqn:E; [|split; assumption].
    pose proof (gnode_at_wf _ _ _ Hg E) as (Ha & He & Hea).
    destruct (edges_get sink (g_edges n)) as [m|] eqn:E2; [|split; assumption].
    pose proof (attrs_add_wf m k v (edges_get_attrs_wf _ _ _ Hea E2)) as Hm.
    destruct (attrs_add m k v) as [m' c]. cbn [fst cs_graph cs_vars] in *. split; [|assumption].
    apply list_update_Forall; [assumption|]. intros x (Hxa & _ & _). repeat split; cbn.
    + assumption.
    + unfold edges_wf. rewrite edges_set_sinks. exact He.
    + apply edges_set_attrs_wf; assumption.
  - destruct (gnode_at _ src) as [n|]; [destruct (edges_get sink (g_edges n))|]; split; assumption.
  - destruct (gnode_at (cs_graph s) n) as [nd|] eqn:E; [|split; assumption].
    pose proof (gnode_at_wf _ _ _ Hg E) as (Ha & He & Hea).
    pose proof (attrs_add_wf (g_attrs nd) k v Ha) as Hm.
    destruct (attrs_add (g_attrs nd) k v) as [m' c]. cbn [fst cs_graph cs_vars] in *. split; [|assumption].
    apply list_update_Forall; [assumption|]. intros x (_ & Hxe & Hxea). repeat split; assumption.
  - destruct (gnode_at _ n); split; assumption.
  - destruct (gnode_at _ n); split; assumption.
  - destruct (gnode_at _ src) as [n|]; [destruct (edges_get sink (g_edges n))|]; split; assumption.
  - split; assumption.
  - destruct (gnode_at _ n); split; assumption.
  - split; assumption.
  - destruct (gnode_at _ n); split; assumption.
  - cbn. split; [assumption|]. constructor; [constructor|assumption].
  - destruct (cs_vars s) as [|f [|f' up]] eqn:E; cbn [fst cs_graph cs_vars]; try (split; [assumption|rewrite E; assumption]).
    split; [assumption|]. inversion Hv; assumption.
  - unfold globals_add. destruct (cs_vars s) as [|f up] eqn:E; cbn [fst cs_graph cs_vars]; [split; [assumption|constructor]|].
    destruct (alist_get k f) eqn:E2; cbn [fst cs_graph cs_vars]; split; try assumption.
    inversion Hv; subst. constructor; [|assumption]. rewrite map_app. cbn [map fst]. apply NoDup_app_one; [assumption|].
    apply alist_get_None; assumption.
  - split; assumption.
  - cbn. split; [assumption|]. unfold globals_remove. destruct (cs_vars s); [constructor|]. inversion Hv; subst.
    constructor; [apply alist_remove_nodup|]; assumption.
  - cbn. split; [assumption|]. unfold globals_clear. destruct (cs_vars s); [constructor|]. inversion Hv; subst. constructor; [constructor|assumption].
  - split; assumption.
  - split; assumption.
Qed.

(* ---- histories ---- *)
Fixpoint cstate_after (s : cstate) (ops : list cop) : cstate :=
  match ops with [] => s | o :: ops' => cstate_after (fst (cstep s o)) ops' end.

Lemma cinit_wf : cstate_wf cinit.
Proof. split; [constructor | repeat constructor]. Qed.

Lemma history_wf_lemma ops : forall s, cstate_wf s -> cstate_wf (cstate_after s ops).
Proof. induction ops as [|o ops IH]; intros s H; cbn [cstate_after]; [assumption|]. apply IH, cstep_wf, H. Qed.

Lemma crun_app s ops1 ops2 : crun s (ops1 ++ ops2) = crun s ops1 ++ crun (cstate_after s ops1) ops2.
Proof.
  revert s; induction ops1 as [|o ops1 IH]; intros s; cbn [crun app cstate_after]; [reflexivity|].
  destruct (cstep s o) as [s' r] eqn:E. cbn [fst]. rewrite IH. reflexivity.
Qed.

(* iter_edges is strictly ascending by sink after any history *)
Lemma iter_edges_ascending_lemma ops n l :
  snd (cstep (cstate_after cinit ops) (OIterEdges n)) = RNodes l -> StronglySorted N.lt l.
Proof.
  pose proof (history_wf_lemma ops cinit cinit_wf) as [Hg _]. unfold cstep.
  destruct (gnode_at (cs_graph (cstate_after cinit ops)) n) as [nd|] eqn:E; cbn [snd]; [|discriminate].
  intros [= <-]. apply (gnode_at_wf _ _ _ Hg E).
Qed.

(* node references are dense indices in creation order *)
Definition count_addnode (ops : list cop) : nat := length (filter (fun o => match o with OAddNode => true | _ => false end) ops).

Lemma cstep_length s o :
  (length (cs_graph (fst (cstep s o))) = length (cs_graph s) + match o with OAddNode => 1 | _ => 0 end)%nat.
Proof.
  unfold cstep. destruct o; cbn [cs_graph fst]; try lia;
  repeat match goal with
  | |- context [match ?x with _ => _ end] => destruct x eqn:?; cbn [cs_graph fst]
  end; try lia; unfold graph_update; rewrite ?list_update_length; try lia.
  - unfold add_graph_node in *. match goal with H : (_, _) = (_, _) |- _ => inversion H; subst end. rewrite app_length. cbn. lia.
  - unfold graph_add_edge in *. destruct (gnode_at (cs_graph s) src); [|discriminate]. destruct (edges_add sink (g_edges g0)).
    match goal with H : Some _ = Some _ |- _ => inversion H; subst end. unfold graph_update. rewrite list_update_length. lia.
Qed.

Lemma node_count_lemma ops : forall s, (length (cs_graph (cstate_after s ops)) = length (cs_graph s) + count_addnode ops)%nat.
Proof.
  induction ops as [|o ops IH]; intros s; cbn [cstate_after count_addnode filter length]; [lia|].
  rewrite IH, cstep_length. unfold count_addnode. destruct o; cbn [length]; lia.
Qed.

Lemma node_refs_dense_lemma ops :
  snd (cstep (cstate_after cinit ops) OAddNode) = RNode (N.of_nat (count_addnode ops)).
Proof. unfold cstep, add_graph_node. cbn [snd]. rewrite node_count_lemma. reflexivity. Qed.

(* edge lookup succeeds exactly for added edges: after add_edge(a,b), get_edge(a,b) holds and every
   other lookup is unchanged *)
Lemma get_after_add_lemma es k : edges_wf es ->
  edges_get k (snd (edges_add k es)) <> None /\
  forall k', k' <> k -> edges_get k' (snd (edges_add k es)) = edges_get k' es.
Proof.
  intros H. pose proof (edges_add_spec k es H) as S. destruct (edges_add k es) as [b es']. cbn [snd].
  destruct S as (_ & _ & Hget & _). split.
  - rewrite Hget, N.eqb_refl. destruct (edges_get k es); discriminate.
  - intros k' Hn. rewrite Hget. destruct (N.eqb_spec k' k); [contradiction|reflexivity].
Qed.

(* a nested variable set sees outer bindings but never changes them *)
Definition var_op (o : cop) : bool :=
  match o with OVarAdd _ _ | OVarGet _ | OVarRemove _ | OVarClear | OVarIsEmpty | OVarIter => true | _ => false end.

Lemma nested_no_write_lemma s o : var_op o = true -> tl (cs_vars (fst (cstep s o))) = tl (cs_vars s).
Proof.
  unfold cstep. destruct o; cbn [var_op]; try discriminate; intros _; cbn [fst cs_vars]; try reflexivity.
  - unfold globals_add. destruct (cs_vars s) as [|f up]; [reflexivity|]. destruct (alist_get k f); reflexivity.
  - unfold globals_remove. destruct (cs_vars s); reflexivity.
  - unfold globals_clear. destruct (cs_vars s); reflexivity.
Qed.
Lemma nested_sees_outer_lemma g k : globals_get (globals_nested g) k = globals_get g k.
Proof. reflexivity. Qed.
Lemma globals_get_shadow f up k : globals_get (f :: up) k = match alist_get k f with Some v => Some v | None => globals_get up k end.
Proof. reflexivity. Qed.
