(* Proofs/ScThEval.v — C08 WITH scoped variables inside thunks, part 6: the typed states with kinds provide the typing
   interface `evty` of the evaluation-phase theorem (Proofs/ScPermEvalSwap.v): the domain of a block is its graph ids
   and its L locations; bodies of L thunks are local, bodies of M thunks are `mty`. *)
From Coq Require Import Permutation.
From TSG Require Import Model.Lazy Proofs.BaseFacts Proofs.Containers Proofs.MonadFacts Proofs.SLForce Proofs.SLExpr Proofs.Scoped
  Proofs.BlockPermRen Proofs.BlockPermSim Proofs.BlockPermSwap Proofs.BlockPermGraph
  Proofs.ScPermCbn Proofs.ScPermSound Proofs.ScPermRen Proofs.ScPermSim Proofs.ScPermSwap Proofs.ScPermTyped Proofs.ScPermSR Proofs.ScPermEvalSwap
  Proofs.ScThSim Proofs.ScThSwap Proofs.ScThTyped.

Lemma mvall2_lvok okfn D LLp LAp lv : mvall2 okfn D LLp LAp lv -> lvok okfn lv.
Proof.
  induction lv as [v|l IH|l IH|loc|sc name IH|f args IH] using lv_ind; cbn [mvall2]; intros [H|H]; try (apply (lvall_lvok okfn D LLp _ H)); try contradiction.
  - apply mvall2_all in H. apply lvok_list. rewrite Forall_forall in *. intros x Hx. apply IH; auto.
  - exact I.
  - cbn [lvok]. apply IH, H.
Qed.
Lemma ms2all_lsok okfn D LLp LAp st : ms2all ea0 okfn D LLp LAp st -> lsok okfn st.
Proof.
  assert (Hat : forall l, Forall (mat2all okfn D LLp LAp) l -> Forall (fun a : ident * lvalue => lvok okfn (snd a)) l).
  { intros l H. eapply Forall_impl; [|exact H]. intros a. apply mvall2_lvok. }
  destruct st; cbn [ms2all lsok].
  - intros [H1 H2]. split; [eapply mvall2_lvok; eauto|apply Hat, H2].
  - intros (H1 & H2 & H3). split; [eapply mvall2_lvok; eauto|]. split; [eapply mvall2_lvok; eauto|exact H3].
  - intros (H1 & H2 & H3). split; [eapply mvall2_lvok; eauto|]. split; [eapply mvall2_lvok; eauto|apply Hat, H3].
  - intros H. eapply Forall_impl; [|exact H]. intros [lv|]; auto. apply mvall2_lvok.
Qed.

Section Ty3.
  Variable okfn : ident -> Prop.
  Variable g0 : graph.
  Notation n0 := (N.of_nat (length g0)).
  Variables (rg : N -> N) (bds : list bdesc3) (S : lstate).
  Hypothesis Ht : styped3 okfn g0 bds S.
  Hypothesis Hmono : forall d, In d bds -> forall i j, bD n0 (q_b d) i -> bD n0 (q_b d) j -> i < j -> rg i < rg j.
  Notation E := (env_of S).
  Definition bdsDL3 : list ((N -> Prop) * (N -> Prop)) := map (fun d => (bD n0 (q_b d), qLL d)) bds.

  Lemma in_bdsDL3 D L : In (D, L) bdsDL3 -> exists d, In d bds /\ D = bD n0 (q_b d) /\ L = qLL d.
  Proof. unfold bdsDL3. intros H. apply in_map_iff in H as (d & Hd & Hin). inversion Hd; subst. eauto. Qed.
  Lemma in_bdsDL3' d : In d bds -> In (bD n0 (q_b d), qLL d) bdsDL3.
  Proof. intros Hd. unfold bdsDL3. apply in_map_iff. exists d. auto. Qed.

  Lemma mvall2_mty d (LLx LAx : N -> Prop) lv : In d bds -> (forall l, LLx l -> qLL d l) -> mvall2 okfn (bD n0 (q_b d)) LLx LAx lv -> mty okfn bdsDL3 lv.
  Proof.
    intros Hd HL. induction lv as [v|l IH|l IH|loc|sc name IH|f args IH] using lv_ind; cbn [mvall2]; intros [H|H];
      try solve [apply (mty_local okfn bdsDL3 (bD n0 (q_b d)) (qLL d)); [apply in_bdsDL3', Hd|apply (lvall_impl okfn (bD n0 (q_b d)) (bD n0 (q_b d)) LLx (qLL d) _ (fun i Hi => Hi) HL H)]]; try contradiction.
    - cbn [mty]. right. apply mvall2_all in H. apply mty_all. rewrite Forall_forall in *. intros x Hx. apply IH; auto.
    - cbn [mty]. right. exact I.
    - cbn [mty]. right. apply IH, H.
  Qed.
  Lemma cells_S3 name c : alist_get name (l_scoped S) = Some c -> exists ps, c = SVUnforced ps /\ Forall (pair_ok (sn S)) ps.
  Proof.
    intros Ec. destruct Ht as (_ & _ & _ & _ & _ & (Hu & Hc) & _). destruct (Hu _ _ Ec) as [ps ->]. exists ps. split; [reflexivity|].
    specialize (Hc name). unfold cellps in Hc. rewrite Ec in Hc. exact Hc.
  Qed.
  (* the thunk at a location, typed by its block *)
  Lemma thunk_S3 i th : nth_error (l_store S) i = Some th -> exists d, In d bds /\ qLA d (N.of_nat i) /\ qthk okfn g0 d i th.
  Proof. intros Ei. destruct Ht as (_ & Hth & _). destruct (Hth i th Ei) as ((d & Hd & HL) & Hall). exists d. split; [exact Hd|]. split; [exact HL|apply (Hall d Hd HL)]. Qed.
  Lemma body_L d i th lv : qthk okfn g0 d i th -> qLL d (N.of_nat i) -> body_of th = Some lv -> lvall okfn (bD n0 (q_b d)) (qLL d) lv.
  Proof.
    unfold qthk, thk, qLL, LLk. intros Hk [H1 H2] Hb. replace (N.to_nat (N.of_nat i - b_klo (q_b d))) with (i - N.to_nat (b_klo (q_b d)))%nat in H2 by lia. rewrite H2 in Hk.
    eapply lvall_impl; [| |eapply thall_body; [exact Hk|exact Hb]]; [auto|]. intros l Hl. apply (LLk_firstn _ _ _ l Hl).
  Qed.
  Lemma body_any d i th lv : In d bds -> qthk okfn g0 d i th -> body_of th = Some lv -> mty okfn bdsDL3 lv /\ lvok okfn lv.
  Proof.
    unfold qthk, thk. intros Hd Hk Hb. destruct (nth_error (q_ks d) (i - N.to_nat (b_klo (q_b d)))) as [[|]|]; [| |contradiction].
    - pose proof (thall_body _ _ _ _ _ Hk Hb) as Hl. split; [|eapply lvall_lvok; eauto].
      apply (mty_local okfn bdsDL3 (bD n0 (q_b d)) (qLL d)); [apply in_bdsDL3', Hd|]. eapply lvall_impl; [| |exact Hl]; [auto|]. intros l Hl'. apply (LLk_firstn _ _ _ l Hl').
    - unfold body_of in Hb. destruct (th_state th) as [lv0| |v]; try contradiction. inversion Hb; subst lv0. split; [|eapply mvall2_lvok; eauto].
      eapply mvall2_mty; [exact Hd| |exact Hk]. intros l Hl'. apply (LLk_firstn _ _ _ l Hl').
  Qed.

  Lemma styped3_evty : evty okfn g0 rg S.
  Proof.
    exists bdsDL3. pose proof Ht as (_ & _ & Tye & Tya & Typ & _ & Hg).
    assert (Hst : forall K l, stmts_typed3 okfn g0 K bds l -> Forall (fun st => K st /\ lsok okfn st) l /\ Forall (lsmty okfn bdsDL3) l).
    { intros K l H. split.
      - eapply Forall_impl; [|exact H]. intros st [HK (d & _ & Hm)]. split; [exact HK|eapply ms2all_lsok; eauto].
      - eapply Forall_impl; [|exact H]. intros st [_ (d & Hd & Hm)].
        assert (Hmv : forall lv, mvall2 okfn (Dn n0 (b_glo (q_b d)) (b_ghi (q_b d))) (qLL d) (qLA d) lv -> mty okfn bdsDL3 lv) by (intros lv; apply (mvall2_mty d); auto).
        assert (Hat : forall l0, Forall (mat2all okfn (Dn n0 (b_glo (q_b d)) (b_ghi (q_b d))) (qLL d) (qLA d)) l0 -> Forall (fun a : ident * lvalue => mty okfn bdsDL3 (snd a)) l0).
        { intros l0 H0. eapply Forall_impl; [|exact H0]. intros a. apply Hmv. }
        unfold qsty, sty in Hm. destruct st; cbn [ms2all lsmty] in *.
        + destruct Hm as [H1 H2]. split; [apply Hmv, H1|apply Hat, H2].
        + destruct Hm as (H1 & H2 & _). split; apply Hmv; assumption.
        + destruct Hm as (H1 & H2 & H3). split; [apply Hmv, H1|]. split; [apply Hmv, H2|apply Hat, H3].
        + eapply Forall_impl; [|exact Hm]. intros [lv|]; auto. }
    assert (Henv : env_ok okfn E).
    { split.
      - intros i lv Hb. destruct (body_S S i lv Hb) as (th & Ei & Hbo). destruct (thunk_S3 i th Ei) as (d & Hd & _ & Hk). apply (body_any d i th lv Hd Hk Hbo).
      - intros name m n lv Hc Hn. cbn [env_of se_cell] in Hc. destruct (alist_get name (l_scoped S)) as [c|] eqn:Ec; [|discriminate].
        destruct (cells_S3 name c Ec) as (ps & -> & Hps). destruct (cell_val_values ps m n lv Hc Hn) as (pr & Hin & <-).
        rewrite Forall_forall in Hps. destruct (Hps pr Hin) as [_ (loc & -> & _)]. exact I. }
    split; [|split; [|split; [|split; [|split; [|split; [|split; [|split; [|split]]]]]]]].
    - split; [|split; [apply (Hst is_estmt), Tye|split; [apply (Hst is_astmt), Tya|split; [apply (Hst is_pstmt), Typ|exact Henv]]]].
      intros name c Ec. destruct (cells_S3 name c Ec) as (ps & -> & Hps). eapply pair_ok_lit; eauto.
    - intros D L Hin. destruct (in_bdsDL3 D L Hin) as (d & Hd & -> & ->). apply (Hmono d Hd).
    - intros D L Hin loc lv HL Hb. destruct (in_bdsDL3 D L Hin) as (d & Hd & -> & ->). destruct (body_S S _ lv Hb) as (th & Ei & Hbo).
      destruct Ht as (_ & Hth & _). destruct (Hth _ th Ei) as (_ & Hall). rewrite N2Nat.id in Hall. pose proof (Hall d Hd (LLk_LAk _ _ _ HL)) as Hk.
      apply (body_L d (N.to_nat loc) th lv Hk); [rewrite N2Nat.id; exact HL|exact Hbo].
    - intros i lv Hb. destruct (body_S S i lv Hb) as (th & Ei & Hbo). destruct (thunk_S3 i th Ei) as (d & Hd & _ & Hk). apply (body_any d i th lv Hd Hk Hbo).
    - intros name m n lv Hc Hn. cbn [env_of se_cell] in Hc. destruct (alist_get name (l_scoped S)) as [c|] eqn:Ec; [|discriminate].
      destruct (cells_S3 name c Ec) as (ps & -> & Hps). destruct (cell_val_values ps m n lv Hc Hn) as (pr & Hin & <-).
      rewrite Forall_forall in Hps. destruct (Hps pr Hin) as [_ (loc & -> & _)]. cbn [mty]. right. exact I.
    - apply (Hst is_estmt), Tye.
    - apply (Hst is_astmt), Tya.
    - apply (Hst is_pstmt), Typ.
    - exact cells_S3.
    - exact Hg.
  Qed.
End Ty3.
