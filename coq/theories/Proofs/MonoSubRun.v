(* Proofs/MonoSubRun.v — sub-runs of a run whose every OTHER part is monotone.

   Proofs/SubRun.v: `subrun d s' p' c s p` = the run of c from (s, p) executes d from (s', p').  Here the same derivations,
   with a side condition on everything the run executes around d (msubrun):

     inv : S -> Prop        an invariant of the state (graph well formed / edge vectors sorted)
     R   : S -> S -> Prop   a preorder on states (the graph of the second extends the graph of the first)
     mono_ok m              from a state satisfying inv, a successful run of m ends in a state satisfying inv that is
                            R-above the start state (Proofs/Extends.v `ext_ok`, Proofs/ExtendsLazy.v `lext_ok` are instances)

     ms_bind_l   c = bind c1 f, d is executed inside c1, and every continuation (f a) is mono_ok
     ms_bind_r   c = bind c1 f, c1 is mono_ok and RAN SUCCESSFULLY to (a, s1, p1), d is executed inside (f a) from (s1, p1)

   msubrun_ok: if the WHOLE run c returns Ok then d returned Ok as well, from a state satisfying inv that is R-above the
   start state of c, and the final state of c is R-above the state in which d ended: whatever d established and R preserves
   still holds at the end of the run. *)
From TSG Require Import Model.Errors Model.Exec.
From TSG Require Import Proofs.MonadFacts Proofs.SubRun.

Section MonoSubRun.
  Context {S : Type}.
  Variable inv : S -> Prop.
  Variable R : S -> S -> Prop.
  Hypothesis R_refl : forall s, R s s.
  Hypothesis R_trans : forall a b c, R a b -> R b c -> R a c.
  Implicit Types (s : S) (p : polls).

  Definition mono_ok {A} (m : M S A) : Prop :=
    forall s p a s' p', inv s -> m s p = Ok (a, s', p') -> inv s' /\ R s s'.

  Lemma mono_ret A (a : A) : mono_ok (ret a).
  Proof. intros s p a' s' p' Hi H. apply ret_ok in H as (_ & -> & _). split; [exact Hi|apply R_refl]. Qed.
  Lemma mono_bind A B (m : M S A) (f : A -> M S B) : mono_ok m -> (forall a, mono_ok (f a)) -> mono_ok (bind m f).
  Proof.
    intros Hm Hf s p b s' p' Hi H. apply bind_ok in H as (a & s1 & p1 & E & H).
    destruct (Hm _ _ _ _ _ Hi E) as [I1 R1]. destruct (Hf a _ _ _ _ _ I1 H) as [I2 R2]. split; [exact I2|eapply R_trans; eauto].
  Qed.
  Lemma mono_ctx A c (m : M S A) : mono_ok m -> mono_ok (ctx_wrap c m).
  Proof. intros Hm s p a s' p' Hi H. apply ctx_wrap_ok in H. eapply Hm; eauto. Qed.
  Lemma mono_iterM A (f : A -> M S unit) l : (forall x, mono_ok (f x)) -> mono_ok (iterM f l).
  Proof. intros H. induction l as [|x l IH]; cbn [iterM]; [apply mono_ret|]. apply mono_bind; [apply H|intros _; exact IH]. Qed.

  Inductive msubrun {B : Type} (d : M S B) (s' : S) (p' : polls) : forall A : Type, M S A -> S -> polls -> Prop :=
  | ms_here : msubrun d s' p' B d s' p'
  | ms_bind_l A C (c : M S A) (f : A -> M S C) s p :
      msubrun d s' p' A c s p -> (forall a, mono_ok (f a)) -> msubrun d s' p' C (bind c f) s p
  | ms_bind_r A C (c : M S A) (f : A -> M S C) s p a s1 p1 :
      mono_ok c -> c s p = Ok (a, s1, p1) -> msubrun d s' p' C (f a) s1 p1 -> msubrun d s' p' C (bind c f) s p
  | ms_ctx A ctx (c : M S A) s p :
      msubrun d s' p' A c s p -> msubrun d s' p' A (ctx_wrap ctx c) s p.

  (* a monotone sub-run is a sub-run: everything Proofs/SubRun.v says applies (a failing part fails the whole run) *)
  Lemma msubrun_subrun {B} (d : M S B) s' p' A (c : M S A) s p : msubrun d s' p' A c s p -> subrun d s' p' c s p.
  Proof.
    induction 1 as [|A C c f s p _ IH _|A C c f s p a sa pa _ Hc _ IH|A ctx c s p _ IH].
    - apply sr_here.
    - apply sr_bind_l, IH.
    - eapply sr_bind_r; [exact Hc|exact IH].
    - apply sr_ctx, IH.
  Qed.

  Lemma msubrun_trans {B B2} (d2 : M S B2) s2 p2 (d1 : M S B) s1 p1 :
    msubrun d2 s2 p2 B d1 s1 p1 -> forall A (c : M S A) s p, msubrun d1 s1 p1 A c s p -> msubrun d2 s2 p2 A c s p.
  Proof.
    intros H2 A c s p H1. induction H1 as [|A C c f s p _ IH Hf|A C c f s p a sa pa Hm Hc _ IH|A ctx c s p _ IH].
    - exact H2.
    - apply ms_bind_l; [exact IH|exact Hf].
    - eapply ms_bind_r; [exact Hm|exact Hc|exact IH].
    - apply ms_ctx, IH.
  Qed.

  Theorem msubrun_ok {B} (d : M S B) s' p' A (c : M S A) s p :
    mono_ok d -> msubrun d s' p' A c s p ->
    forall a sf pf, inv s -> c s p = Ok (a, sf, pf) ->
    inv sf /\ inv s' /\ R s s' /\ exists b s'' p'', d s' p' = Ok (b, s'', p'') /\ R s'' sf.
  Proof.
    intros Hd H. induction H as [|A C c f s p _ IH Hf|A C c f s p a1 s1 p1 Hm Hc _ IH|A ctx c s p _ IH]; intros a sf pf Hi E.
    - destruct (Hd _ _ _ _ _ Hi E) as [If Rf]. split; [exact If|]. split; [exact Hi|]. split; [apply R_refl|].
      exists a, sf, pf. split; [exact E|apply R_refl].
    - apply bind_ok in E as (a1 & s1 & p1 & E1 & E2).
      destruct (IH _ _ _ Hi E1) as (I1 & I' & R' & b & s'' & p'' & Ed & R''). destruct (Hf a1 _ _ _ _ _ I1 E2) as [If Rf].
      split; [exact If|]. split; [exact I'|]. split; [exact R'|]. exists b, s'', p''. split; [exact Ed|eapply R_trans; eauto].
    - unfold bind in E. rewrite Hc in E. destruct (Hm _ _ _ _ _ Hi Hc) as [I1 R1].
      destruct (IH _ _ _ I1 E) as (If & I' & R' & b & s'' & p'' & Ed & R'').
      split; [exact If|]. split; [exact I'|]. split; [eapply R_trans; eauto|]. exists b, s'', p''. split; [exact Ed|exact R''].
    - apply ctx_wrap_ok in E. exact (IH _ _ _ Hi E).
  Qed.

  (* the loop: the elements before x ran successfully, d is executed inside (f x) *)
  Lemma msubrun_iterM {B} (d : M S B) s' p' A (f : A -> M S unit) l1 x l2 s p s1 p1 :
    (forall y, mono_ok (f y)) ->
    iterM f l1 s p = Ok (tt, s1, p1) -> msubrun d s' p' unit (f x) s1 p1 -> msubrun d s' p' unit (iterM f (l1 ++ x :: l2)) s p.
  Proof.
    intros Hf. revert s p. induction l1 as [|y l1 IH]; intros s p H Hx; cbn [iterM app] in *.
    - inversion H; subst. apply ms_bind_l; [exact Hx|]. intros _. apply mono_iterM, Hf.
    - apply bind_ok in H as ([] & sa & pa & Hy & H). eapply ms_bind_r; [apply Hf|exact Hy|]. apply IH; assumption.
  Qed.
End MonoSubRun.
Arguments msubrun {S} inv R {B} d s' p' {A} c s p.
Arguments mono_ok {S} inv R {A} m.
