(* Proofs/SLF2Example.v — C02, failure direction WITH scoped variables: concrete programs (tree "p\nq\nr\n" of Proofs/K7.v:
   module 0, expression statements 1 3 5, identifiers 2 4 6) on which the hypotheses of strict_fail_lazy_fail_scoped_lemma
   hold, strict execution fails and lazy execution fails too:
     sf1  (identifier) @x { let @x.v = (plus "a" 1)   node @x.n }
          the VALUE of a scoped variable has a type error; strict evaluates the value AT THE DEFINITION and fails there;
          lazy stores a thunk, nobody ever reads @x.v, and the final sweep `evaluate_all` forces the thunk: ExpectedInteger
     sf2  (identifier) @x { node @x.n }     (expression_statement (identifier) @y) @s { node @y.n }
          a second definition of the same (node, name): strict DuplicateVariable at the second definition; lazy
          DuplicateVariable when the final sweep forces the cell of n
     sf3  (identifier) @x { node 3.n }      the scope is not a syntax node: strict InvalidVariableScope, lazy ExpectedSyntaxNode (sweep)
     sf4  (identifier) @x { let @x.v = "s" }   (expression_statement (identifier) @y) @s { node @s.st  edge @s.st -> @y.v }
          a scoped READ in a deferred position whose value has the wrong type: ExpectedGraphNode in both modes
     sf5  inherit .v    (module) @x { let @x.v = "s" }    (identifier) @x { node @x.r   edge @x.r -> @x.v }
          an INHERITED name: `v` may only be defined on the root (D v = {0}, an antichain): ExpectedGraphNode in both modes
   and the two witnesses that the statement needs its side conditions:
     sr1  (identifier) @x { node @x.n  attr (@x.n) k = @x.late }    (expression_statement (identifier) @y) @s { let @y.late = 1 }
          strict: UndefinedVariable (the definition comes LATER in the file); lazy: Ok — order dependent, excluded by okerr2
     sr2  inherit .v    (module) @x { let @x.v = "s" }    (identifier) @x { node @x.r  edge @x.r -> @x.v }
                        (expression_statement (identifier) @y) @s { node @s.v }
          strict: ExpectedGraphNode in the second stanza (v inherited from the root); lazy: Ok — the third stanza, which strict
          never reached, defines v on a NEARER ancestor; the static condition fails (0 is an ancestor of 1), and the scoped
          store at the failure point (v on the root only) satisfies `inh_antichain`: a condition on the strict store cannot do. *)
From TSG Require Import Model.Run Model.Stdlib Proofs.BaseFacts Proofs.K7 Proofs.MonadFacts Proofs.SLForce Proofs.SLExpr Proofs.SLConv Proofs.StrictLazy Proofs.SLExample
  Proofs.SL2Force Proofs.SL2Expr Proofs.SL2Stmt Proofs.SL2Whole Proofs.SL2Example Proofs.SLFailGraph Proofs.SLFailExpr Proofs.SLFailStmt Proofs.SLFailExample
  Proofs.SLF2Store Proofs.SLF2Expr Proofs.SLF2File.
Open Scope N_scope.

Definition sf_stanza (stmts : list stmt) : stanza := {| st_stmts := stmts; st_full_stanza_idx := 1; st_full_file_idx := 1; st_start := e0 |}.
Definition sf_file (inh : list ident) (sts : list (list stmt)) : file :=
  {| f_globals := []; f_inherited := inh; f_shorthands := []; f_stanzas := map sf_stanza sts |}.
Definition nm_v : ident := [118].
Definition nm_late : ident := [108;97;116;101].
Definition nm_r : ident := [114].

Definition sf1_file : file := sf_file [] [[SLet (VarS capx nm_v e0) (ECall Lit.plus [EStr [97]; EInt 1]) e0; SNode (VarS capx nm_n e0) [110] e0]].
Definition sf2_file : file := sf_file [] [[SNode (VarS capx nm_n e0) [110] e0]; [SNode (VarS capx nm_n e0) [110] e0]].
Definition sf3_file : file := sf_file [] [[SNode (VarS (EInt 3) nm_n e0) [110] e0]].
Definition sf4_file : file := sf_file [] [[SLet (VarS capx nm_v e0) (EStr [115]) e0];
                                           [SNode (VarS caps nm_st e0) [115;116] e0; SEdge (EScoped caps nm_st e0) (EScoped capx nm_v e0) e0]].
Definition sf5_file : file := sf_file [nm_v] [[SLet (VarS capx nm_v e0) (EStr [115]) e0];
                                               [SNode (VarS capx nm_r e0) [114] e0; SEdge (EScoped capx nm_r e0) (EScoped capx nm_v e0) e0]].
Definition sr1_file : file := sf_file [] [[SNode (VarS capx nm_n e0) [110] e0; SAttrNode (EScoped capx nm_n e0) [Attr [107] (EScoped capx nm_late e0)] e0];
                                           [SLet (VarS capx nm_late e0) (EInt 1) e0]].
Definition sr2_file : file := sf_file [nm_v] [[SLet (VarS capx nm_v e0) (EStr [115]) e0];
                                               [SNode (VarS capx nm_r e0) [114] e0; SEdge (EScoped capx nm_r e0) (EScoped capx nm_v e0) e0];
                                               [SNode (VarS caps nm_v e0) [118] e0]].

Definition ids_matches : list qmatch := [ [(0, [2]); (1, [2])]; [(0, [4]); (1, [4])]; [(0, [6]); (1, [6])] ].
Definition stmts_matches : list qmatch := [ [(0, [2]); (1, [1])]; [(0, [4]); (1, [3])]; [(0, [6]); (1, [5])] ].
Definition root_matches : list qmatch := [ [(0, [0]); (1, [0])] ].
Definition ms1 : list (list qmatch) := [ids_matches].
Definition ms2 : list (list qmatch) := [ids_matches; stmts_matches].
Definition ms5 : list (list qmatch) := [root_matches; ids_matches].
Definition ms6 : list (list qmatch) := [root_matches; ids_matches; stmts_matches].
Definition nopure (x : ident) : bool := false.

Ltac sf_ok := cbn [file_ok2 sf_file f_stanzas map]; repeat split; repeat constructor; unfold match_ok2, fe_okfn; cbn;
              repeat split; try reflexivity; try discriminate; try (intros; discriminate); auto; repeat constructor.
Lemma sf1_file_ok : file_ok2 fe_okfn nopure sf1_file (f_stanzas sf1_file) ms1. Proof. sf_ok. Qed.
Lemma sf2_file_ok : file_ok2 fe_okfn nopure sf2_file (f_stanzas sf2_file) ms2. Proof. sf_ok. Qed.
Lemma sf3_file_ok : file_ok2 fe_okfn nopure sf3_file (f_stanzas sf3_file) ms1. Proof. sf_ok. Qed.
Lemma sf4_file_ok : file_ok2 fe_okfn nopure sf4_file (f_stanzas sf4_file) ms2. Proof. sf_ok. Qed.
Lemma sf5_file_ok : file_ok2 fe_okfn nopure sf5_file (f_stanzas sf5_file) ms5. Proof. sf_ok. Qed.
Lemma sr1_file_ok : file_ok2 fe_okfn nopure sr1_file (f_stanzas sr1_file) ms2. Proof. sf_ok. Qed.
Lemma sr2_file_ok : file_ok2 fe_okfn nopure sr2_file (f_stanzas sr2_file) ms6. Proof. sf_ok. Qed.

(* the static condition for sf5: `v` may be defined on the root only *)
Definition sf5_D (name : ident) (k : N) : Prop := k = 0.
Lemma sf5_static : inh_static k7_tree sf5_file ms5.
Proof.
  exists sf5_D. split.
  - cbn [file_sdef sf5_file sf_file f_stanzas map ms5 root_matches ids_matches]. repeat split; repeat constructor; cbn [sf_stanza st_stmts All sdef inh_scope_ok]; repeat split.
    all: intros Hi; try (vm_compute in Hi; discriminate).
    exists [120], QOne, 0, 0, e0. split; [reflexivity|]. intros k Hk. vm_compute in Hk. destruct Hk as [<-|[]]. reflexivity.
  - intros name n a _ -> -> Ha. vm_compute in Ha. destruct Ha.
Qed.

Definition sf_strict (f : file) ms := run_strict k7_tree f config0 [[]] None ([] : list regex) rx_captures fe_call default_fuel ms [].
Definition sf_lazy (f : file) ms := run_lazy k7_tree f config0 [[]] None ([] : list regex) rx_captures fe_call default_fuel (lmatches_of ms) [].

Lemma sf1_strict : err_cause (sf_strict sf1_file ms1) = Some EExpectedInteger. Proof. vm_compute. reflexivity. Qed.
Lemma sf1_lazy : err_cause (sf_lazy sf1_file ms1) = Some EExpectedInteger. Proof. vm_compute. reflexivity. Qed.
Lemma sf2_strict : err_cause (sf_strict sf2_file ms2) = Some EDuplicateVariable. Proof. vm_compute. reflexivity. Qed.
Lemma sf2_lazy : err_cause (sf_lazy sf2_file ms2) = Some EDuplicateVariable. Proof. vm_compute. reflexivity. Qed.
Lemma sf3_strict : err_cause (sf_strict sf3_file ms1) = Some EInvalidVariableScope. Proof. vm_compute. reflexivity. Qed.
Lemma sf3_lazy : err_cause (sf_lazy sf3_file ms1) = Some EExpectedSyntaxNode. Proof. vm_compute. reflexivity. Qed.
Lemma sf4_strict : err_cause (sf_strict sf4_file ms2) = Some EExpectedGraphNode. Proof. vm_compute. reflexivity. Qed.
Lemma sf4_lazy : err_cause (sf_lazy sf4_file ms2) = Some EExpectedGraphNode. Proof. vm_compute. reflexivity. Qed.
Lemma sf5_strict : err_cause (sf_strict sf5_file ms5) = Some EExpectedGraphNode. Proof. vm_compute. reflexivity. Qed.
Lemma sf5_lazy : err_cause (sf_lazy sf5_file ms5) = Some EExpectedGraphNode. Proof. vm_compute. reflexivity. Qed.

(* the strict error is order independent in the sense of the theorem *)
Lemma err_cause_okerr2 {A} (r : outcome exec_error A) c : err_cause r = Some c ->
  match c with EUndefinedEdge | ECancelled _ | EUndefinedVariable => False | _ => True end -> exists e, r = Err e /\ okerr2 e.
Proof.
  destruct r as [a|e|x|]; cbn [err_cause]; try discriminate. intros [= <-] H. exists e. split; [reflexivity|]. unfold okerr2, okerr.
  destruct (root_cause e); try contradiction; split; try exact I; discriminate.
Qed.

(* the theorem applies: lazy execution returns Ok at NO fuel *)
Lemma sf_applies f ms c : file_ok2 fe_okfn nopure f (f_stanzas f) ms -> inh_static k7_tree f ms -> err_cause (sf_strict f ms) = Some c ->
  match c with EUndefinedEdge | ECancelled _ | EUndefinedVariable => False | _ => True end ->
  forall lfuel, match run_lazy k7_tree f config0 [[]] None ([] : list regex) rx_captures fe_call lfuel (lmatches_of ms) [] with Ok _ => False | _ => True end.
Proof.
  intros Hok Hst Hc Hk. destruct (err_cause_okerr2 _ c Hc Hk) as (e & He & Ho).
  exact (strict_fail_lazy_fail_scoped_lemma k7_tree f [[]] ([] : list regex) rx_captures fe_call fe_okfn nopure default_fuel ms [] e fe_pure fe_pure_err fe_graph_ext Hok Hst He Ho).
Qed.
Lemma sf1_applies : forall lfuel, match run_lazy k7_tree sf1_file config0 [[]] None ([] : list regex) rx_captures fe_call lfuel (lmatches_of ms1) [] with Ok _ => False | _ => True end.
Proof. apply (sf_applies sf1_file ms1 _ sf1_file_ok (inh_static_nil k7_tree sf1_file ms1 eq_refl) sf1_strict I). Qed.
Lemma sf2_applies : forall lfuel, match run_lazy k7_tree sf2_file config0 [[]] None ([] : list regex) rx_captures fe_call lfuel (lmatches_of ms2) [] with Ok _ => False | _ => True end.
Proof. apply (sf_applies sf2_file ms2 _ sf2_file_ok (inh_static_nil k7_tree sf2_file ms2 eq_refl) sf2_strict I). Qed.
Lemma sf3_applies : forall lfuel, match run_lazy k7_tree sf3_file config0 [[]] None ([] : list regex) rx_captures fe_call lfuel (lmatches_of ms1) [] with Ok _ => False | _ => True end.
Proof. apply (sf_applies sf3_file ms1 _ sf3_file_ok (inh_static_nil k7_tree sf3_file ms1 eq_refl) sf3_strict I). Qed.
Lemma sf4_applies : forall lfuel, match run_lazy k7_tree sf4_file config0 [[]] None ([] : list regex) rx_captures fe_call lfuel (lmatches_of ms2) [] with Ok _ => False | _ => True end.
Proof. apply (sf_applies sf4_file ms2 _ sf4_file_ok (inh_static_nil k7_tree sf4_file ms2 eq_refl) sf4_strict I). Qed.
Lemma sf5_applies : forall lfuel, match run_lazy k7_tree sf5_file config0 [[]] None ([] : list regex) rx_captures fe_call lfuel (lmatches_of ms5) [] with Ok _ => False | _ => True end.
Proof. apply (sf_applies sf5_file ms5 _ sf5_file_ok sf5_static sf5_strict I). Qed.

(* ---------------- the witnesses ---------------- *)
Lemma sr1_strict : err_cause (sf_strict sr1_file ms2) = Some EUndefinedVariable. Proof. vm_compute. reflexivity. Qed.
Lemma sr1_lazy : exists g, lgraph_of (sf_lazy sr1_file ms2) = Ok g /\ length g = 3%nat. Proof. eexists. split; [vm_compute; reflexivity|reflexivity]. Qed.
Lemma sr2_strict : err_cause (sf_strict sr2_file ms6) = Some EExpectedGraphNode. Proof. vm_compute. reflexivity. Qed.
Lemma sr2_lazy : exists g, lgraph_of (sf_lazy sr2_file ms6) = Ok g /\ length g = 6%nat. Proof. eexists. split; [vm_compute; reflexivity|reflexivity]. Qed.
(* the static condition fails for sr2: the root (0) and an expression statement (1) may both define v *)
Lemma sr2_not_static : ~ inh_static k7_tree sr2_file ms6.
Proof.
  intros (D & Hsd & Hanti). cbn [file_sdef sr2_file sf_file f_stanzas map ms6 root_matches ids_matches stmts_matches] in Hsd.
  destruct Hsd as (H1 & _ & H3 & _). inversion H1 as [|? ? Hr _]; subst. inversion H3 as [|? ? Hs _]; subst. cbn [sf_stanza st_stmts All sdef inh_scope_ok] in Hr, Hs.
  destruct Hr as [Hr _]. destruct Hs as [Hs _].
  destruct (Hr eq_refl) as (nm & q & fi & si & l & E & HD0). inversion E; subst. destruct (Hs eq_refl) as (nm' & q' & fi' & si' & l' & E' & HD1). inversion E'; subst.
  apply (Hanti nm_v 1 0 eq_refl); [apply HD1; vm_compute; left; reflexivity|apply HD0; vm_compute; left; reflexivity|vm_compute; left; reflexivity].
Qed.
