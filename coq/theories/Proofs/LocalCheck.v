(* Proofs/LocalCheck.v — C06, locality part 1: what `check_file = CkOk` guarantees about EAGER positions.
   `lenv_of env` projects the checker's environment to the one-bit environment of Model/Locality.v.
   - `check_expr_local_exact`: the checker's `is_local` verdict IS `eager_ok` (when globals are judged local,
     which `File::check` ensures);
   - `check_stmt_eok` / `check_block_eok`: an accepted statement has every eager position `eager_ok`, and the
     environment the checker continues with projects to `stmt_env`;
   - `check_file_eok`: the whole file. *)
From TSG Require Import Model.Checker Model.Locality Spec.Rules Proofs.BaseFacts Proofs.Checker.

Definition proj_entry (kv : ident * (vres * bool)) : ident * bool := (fst kv, vr_local (fst (snd kv))).
Definition lenv_of (env : cenv) : lenv := map (map proj_entry) env.
Definition cx_global (cx : cctx) (x : ident) : bool := match varmap_get (cx_globals cx) x with Some _ => true | None => false end.
Definition globals_local (cx : cctx) : Prop := forall x v, varmap_get (cx_globals cx) x = Some v -> vr_local v = true.

Lemma alist_get_proj fr x : alist_get x (map proj_entry fr) = option_map (fun b : vres * bool => vr_local (fst b)) (alist_get x fr).
Proof.
  induction fr as [|[k b] fr IH]; cbn [map alist_get proj_entry fst snd]; [reflexivity|].
  destruct (str_eqb x k); [reflexivity|exact IH].
Qed.
Lemma lenv_get_of env x : lenv_get (lenv_of env) x = option_map (fun b : vres * bool => vr_local (fst b)) (env_find env x).
Proof.
  induction env as [|fr env IH]; cbn [lenv_of map lenv_get env_find]; [reflexivity|].
  rewrite alist_get_proj. destruct (alist_get x fr) as [b|]; [reflexivity|exact IH].
Qed.
Lemma lenv_of_nested env : lenv_of (varmap_nested env) = [] :: lenv_of env. Proof. reflexivity. Qed.
Lemma lenv_of_pop env : lenv_of (varmap_pop env) = tl (lenv_of env). Proof. destruct env; reflexivity. Qed.

Lemma add_lenv cx env x l v m env' : unscoped_check_add cx env x l v m = Ok env' ->
  lenv_of env' = lenv_bind (lenv_of env) x (if m then false else vr_local v).
Proof.
  intros H. apply unscoped_check_add_shape in H. destruct H as (_ & fr & up & -> & _ & ->).
  cbn [lenv_of map lenv_bind]. rewrite map_app. cbn [map proj_entry fst snd]. destruct m; reflexivity.
Qed.

Lemma alist_set_proj (fr : list (ident * (vres * bool))) x v v0 :
  alist_get x fr = Some (v0, true) ->
  (forall y v1 m1, In (y, (v1, m1)) fr -> vr_local v1 = true -> m1 = false) ->
  vr_local v = false -> map proj_entry (alist_set x (v, true) fr) = map proj_entry fr.
Proof.
  induction fr as [|[k [v1 m1]] fr IH]; cbn [alist_get alist_set]; intros Hg Hinv Hv; [discriminate|].
  destruct (str_eqb x k) eqn:Exk.
  - apply str_eqb_eq in Exk. subst k. inversion Hg; subst. cbn [map]. f_equal. unfold proj_entry. cbn [fst snd]. f_equal. rewrite Hv.
    destruct (vr_local v0) eqn:E; [|reflexivity]. specialize (Hinv x v0 true (or_introl eq_refl) E). discriminate.
  - cbn [map]. f_equal. apply IH; [exact Hg| |exact Hv]. intros y v2 m2 Hin. apply (Hinv y). right. exact Hin.
Qed.
Lemma varmap_set_lenv (env : cenv) x v env' :
  varmap_set env x v = inl env' -> env_inv env -> vr_local v = false -> lenv_of env' = lenv_of env.
Proof.
  revert env'. induction env as [|fr up IH]; cbn [varmap_set]; intros env' H Hinv Hv; [discriminate|].
  destruct (alist_get x fr) as [[v0 [|]]|] eqn:E; try discriminate.
  - inversion H; subst. cbn [lenv_of map]. f_equal. eapply alist_set_proj; [exact E| |exact Hv].
    intros y v1 m1 Hin. eapply Hinv; [left; reflexivity|exact Hin].
  - destruct (varmap_set up x v) as [up'|] eqn:E2; [|discriminate]. inversion H; subst. cbn [lenv_of map]. f_equal.
    apply IH; [reflexivity| |exact Hv]. intros fr0 y v1 m1 Hin. apply Hinv. right. exact Hin.
Qed.
Lemma set_lenv cx env x l v env' : unscoped_check_set cx env x l v = Ok env' -> env_inv env -> lenv_of env' = lenv_of env.
Proof.
  unfold unscoped_check_set. destruct (varmap_get (cx_globals cx) x); [discriminate|].
  destruct (varmap_set env x _) as [e1|] eqn:E; [|discriminate]. intros [= <-] Hinv. eapply varmap_set_lenv; [exact E|exact Hinv|reflexivity].
Qed.

Lemma tl_lenv_bind env x b : tl (lenv_bind env x b) = tl env. Proof. destruct env; reflexivity. Qed.
Lemma tl_stmt_env G env s : tl (stmt_env G env s) = tl env.
Proof. destruct s; cbn [stmt_env]; try reflexivity; destruct v; cbn [bind_var]; try reflexivity; apply tl_lenv_bind. Qed.
Lemma tl_block_env G body : forall env, tl (block_env G env body) = tl env.
Proof.
  unfold block_env. induction body as [|s body IH]; intros env; cbn [fold_left]; [reflexivity|]. rewrite IH. apply tl_stmt_env.
Qed.

Section WithG.
  Variable cx : cctx.
  Variable G : ident -> bool.
  Hypothesis HG : forall x, G x = cx_global cx x.

  (* ---------------- expressions ---------------- *)
  Lemma get_local_exact env x l r : globals_local cx ->
    unscoped_check_get cx env x l = Ok r -> er_local r = name_ok G (lenv_of env) x.
  Proof.
    intros Hgl. unfold unscoped_check_get, name_ok. rewrite HG. unfold cx_global.
    destruct (varmap_get (cx_globals cx) x) as [v|] eqn:Eg.
    - intros [= <-]. cbn [eres_of er_local orb]. apply (Hgl _ _ Eg).
    - rewrite varmap_get_find, lenv_get_of. destruct (env_find env x) as [[v m]|]; cbn [option_map fst]; [|discriminate].
      intros [= <-]. reflexivity.
  Qed.

  Lemma elems_eok (P : lenv -> expr -> bool) env es rs (Q : eres -> bool) :
    Forall2 (fun e y => check_expr cx env e = Ok y) es rs ->
    Forall (fun e => forall e' r, check_expr cx env e = Ok (e', r) -> P (lenv_of env) e' = Q r) es ->
    forallb (P (lenv_of env)) (map fst rs) = forallb (fun r : expr * eres => Q (snd r)) rs.
  Proof.
    induction 1 as [|e [e' r] es rs He Hes IH]; intros HF; cbn [map forallb fst snd]; [reflexivity|].
    inversion HF as [|? ? H1 H2]; subst. rewrite (H1 _ _ He), (IH H2). reflexivity.
  Qed.

  (* every eager position inside an accepted expression is eager_ok, and the verdict `is_local` is eager_ok *)
  Lemma check_expr_eok_both : globals_local cx -> forall e env e' r, check_expr cx env e = Ok (e', r) ->
    expr_eok G (lenv_of env) e' = true /\ er_local r = eager_ok G (lenv_of env) e'.
  Proof.
    intros Hgl. induction e using expr_ind'; intros env e' r Hc.
    1-5: cbn [check_expr] in Hc; inversion Hc; subst; split; reflexivity.
    - rewrite check_expr_list in Hc. unfold check_elems in Hc. bind_ok Hc rs Hrs. inversion Hc; subst. apply mapM_ok in Hrs.
      cbn [expr_eok eager_ok er_local]. split.
      + rewrite (elems_eok (expr_eok G) env es rs (fun _ => true) Hrs).
        * clear. induction rs; [reflexivity|assumption].
        * eapply Forall_impl; [|exact H]. intros e IH e' r He. apply (IH _ _ _ He).
      + unfold all_local. symmetry. apply (elems_eok (eager_ok G) env es rs er_local Hrs).
        eapply Forall_impl; [|exact H]. intros e IH e' r He. symmetry. apply (IH _ _ _ He).
    - rewrite check_expr_set in Hc. unfold check_elems in Hc. bind_ok Hc rs Hrs. inversion Hc; subst. apply mapM_ok in Hrs.
      cbn [expr_eok eager_ok er_local]. split.
      + rewrite (elems_eok (expr_eok G) env es rs (fun _ => true) Hrs).
        * clear. induction rs; [reflexivity|assumption].
        * eapply Forall_impl; [|exact H]. intros e IH e' r He. apply (IH _ _ _ He).
      + unfold all_local. symmetry. apply (elems_eok (eager_ok G) env es rs er_local Hrs).
        eapply Forall_impl; [|exact H]. intros e IH e' r He. symmetry. apply (IH _ _ _ He).
    - rewrite check_expr_listcomp in Hc. unfold check_comp in Hc. bind_ok Hc a Ha. destruct a as [v' vr]. cbv beta iota in Hc.
      destruct (er_local vr) eqn:El; cbn [negb] in Hc; [|discriminate]. destruct (negb (is_list_q (er_quant vr))); [discriminate|].
      bind_ok Hc loopenv Hle. bind_ok Hc b Hb. destruct b as [el' er]. cbv beta iota in Hc. inversion Hc; subst.
      destruct (IHe2 _ _ _ Ha) as [V1 V2]. destruct (IHe1 _ _ _ Hb) as [E1 E2].
      rewrite (add_lenv _ _ _ _ _ _ _ Hle) in E1, E2. cbn [vres_of vr_local] in E1, E2. rewrite El, lenv_of_nested in E1, E2.
      cbn [lenv_bind app] in E1, E2. cbn [expr_eok eager_ok er_local]. rewrite <- V2, El, E1, <- E2. split; reflexivity.
    - rewrite check_expr_setcomp in Hc. unfold check_comp in Hc. bind_ok Hc a Ha. destruct a as [v' vr]. cbv beta iota in Hc.
      destruct (er_local vr) eqn:El; cbn [negb] in Hc; [|discriminate]. destruct (negb (is_list_q (er_quant vr))); [discriminate|].
      bind_ok Hc loopenv Hle. bind_ok Hc b Hb. destruct b as [el' er]. cbv beta iota in Hc. inversion Hc; subst.
      destruct (IHe2 _ _ _ Ha) as [V1 V2]. destruct (IHe1 _ _ _ Hb) as [E1 E2].
      rewrite (add_lenv _ _ _ _ _ _ _ Hle) in E1, E2. cbn [vres_of vr_local] in E1, E2. rewrite El, lenv_of_nested in E1, E2.
      cbn [lenv_bind app] in E1, E2. cbn [expr_eok eager_ok er_local]. rewrite <- V2, El, E1, <- E2. split; reflexivity.
    - cbn [check_expr] in Hc. unfold check_capture in Hc.
      destruct (name_index n (cx_stanza_names cx)); [|discriminate]. destruct (name_index n (cx_file_names cx)); [|discriminate].
      destruct (cx_file_quants cx); [|discriminate]. destruct (nth_error _ _); [|discriminate]. inversion Hc; subst. split; reflexivity.
    - cbn [check_expr] in Hc. bind_ok Hc r0 Hr. inversion Hc; subst. cbn [expr_eok eager_ok]. split; [reflexivity|].
      eapply get_local_exact; eassumption.
    - rewrite check_expr_scoped in Hc. bind_ok Hc a Ha. destruct a as [s' sr]. cbv beta iota in Hc. inversion Hc; subst.
      cbn [expr_eok eager_ok er_local]. split; [apply (IHe _ _ _ Ha)|reflexivity].
    - rewrite check_expr_call in Hc. unfold check_elems in Hc. bind_ok Hc rs Hrs. inversion Hc; subst. apply mapM_ok in Hrs.
      cbn [expr_eok eager_ok er_local]. split.
      + rewrite (elems_eok (expr_eok G) env args rs (fun _ => true) Hrs).
        * clear. induction rs; [reflexivity|assumption].
        * eapply Forall_impl; [|exact H]. intros e IH e' r He. apply (IH _ _ _ He).
      + unfold all_local. symmetry. apply (elems_eok (eager_ok G) env args rs er_local Hrs).
        eapply Forall_impl; [|exact H]. intros e IH e' r He. symmetry. apply (IH _ _ _ He).
    - cbn [check_expr] in Hc. inversion Hc; subst. split; reflexivity.
  Qed.

  Hypothesis Hgl : globals_local cx.
  Lemma check_expr_eok env e e' r : check_expr cx env e = Ok (e', r) -> expr_eok G (lenv_of env) e' = true.
  Proof. intros H. apply (check_expr_eok_both Hgl _ _ _ _ H). Qed.
  Lemma check_expr_local env e e' r : check_expr cx env e = Ok (e', r) -> er_local r = eager_ok G (lenv_of env) e'.
  Proof. intros H. apply (check_expr_eok_both Hgl _ _ _ _ H). Qed.

  Lemma check_exprs_eok env es rs : mapM (check_expr cx env) es = Ok rs -> forallb (expr_eok G (lenv_of env)) (map fst rs) = true.
  Proof.
    intros H. apply mapM_ok in H. induction H as [|e [e' r] es rs He Hes IH]; cbn [map forallb fst]; [reflexivity|].
    rewrite (check_expr_eok _ _ _ _ He), IH. reflexivity.
  Qed.
  Lemma check_attrs_eok env attrs ars : mapM (check_attr cx env) attrs = Ok ars -> forallb (attr_eok G (lenv_of env)) (map fst ars) = true.
  Proof.
    intros H. apply mapM_ok in H. induction H as [|a [a' u] attrs ars Ha Has IH]; cbn [map forallb fst]; [reflexivity|].
    rewrite IH, andb_true_r. destruct a as [name value]. cbn [check_attr] in Ha. bind_ok Ha p Hp. destruct p as [value' r].
    cbv beta iota in Ha. inversion Ha; subst. cbn [attr_eok]. eapply check_expr_eok; eassumption.
  Qed.
  Lemma check_cond_eok env c c' u : check_cond cx env c = Ok (c', u) -> eager_ok G (lenv_of env) (cond_expr c') = true.
  Proof.
    destruct c as [e l|e l|e l]; cbn [check_cond]; intros H; bind_ok H p Hp; destruct p as [e' r]; cbv beta iota in H;
      (destruct (er_local r) eqn:El; cbn [negb] in H; [|discriminate]); try (destruct (negb (is_opt_q (er_quant r))); [discriminate|]);
      inversion H; subst; cbn [cond_expr]; rewrite <- (check_expr_local _ _ _ _ Hp); exact El.
  Qed.
  Lemma check_conds_eok env conds crs : mapM (check_cond cx env) conds = Ok crs ->
    forallb (fun c => eager_ok G (lenv_of env) (cond_expr c)) (map fst crs) = true.
  Proof.
    intros H. apply mapM_ok in H. induction H as [|c [c' u] conds crs Hc Hcs IH]; cbn [map forallb fst]; [reflexivity|].
    rewrite IH, andb_true_r. eapply check_cond_eok; eassumption.
  Qed.

  (* ---------------- variables ---------------- *)
  Lemma check_var_add_eok env v val m v' env' u : check_var_add cx env v val m = Ok (v', env', u) ->
    var_eok G (lenv_of env) v' = true /\ lenv_of env' = bind_var (lenv_of env) v' (if m then false else vr_local val).
  Proof.
    destruct v as [x l|s x l]; cbn [check_var_add]; intros H.
    - bind_ok H a Ha. inversion H; subst. cbn [var_eok bind_var]. split; [reflexivity|]. eapply add_lenv; eassumption.
    - bind_ok H a Ha. destruct a as [s' sr]. cbv beta iota in H. inversion H; subst. cbn [var_eok bind_var]. split; [|reflexivity].
      eapply check_expr_eok; eassumption.
  Qed.
  Lemma check_var_set_eok env v val v' env' u : check_var_set cx env v val = Ok (v', env', u) -> env_inv env ->
    var_eok G (lenv_of env) v' = true /\ lenv_of env' = lenv_of env.
  Proof.
    destruct v as [x l|s x l]; cbn [check_var_set]; intros H Hinv.
    - bind_ok H a Ha. inversion H; subst. cbn [var_eok]. split; [reflexivity|]. eapply set_lenv; eassumption.
    - bind_ok H a Ha. destruct a as [s' sr]. cbv beta iota in H. inversion H; subst. cbn [var_eok]. split; [|reflexivity].
      eapply check_expr_eok; eassumption.
  Qed.

  (* ---------------- sequences ---------------- *)
  (* a block: statements thread the environment *)
  Lemma check_seq_block body :
    Forall (fun s => forall env s' env' u, check_stmt cx env s = Ok (s', env', u) -> env_inv env ->
                     stmt_eok G (lenv_of env) s' = true /\ lenv_of env' = stmt_env G (lenv_of env) s') body ->
    forall env body' env' u, check_seq (check_stmt cx) env body = Ok (body', env', u) -> env_inv env ->
    block_eok G (lenv_of env) body' = true /\ lenv_of env' = block_env G (lenv_of env) body'.
  Proof.
    unfold block_eok, block_env.
    induction 1 as [|s body Hs Hb IH]; cbn [check_seq]; intros env body' env' u H Hinv.
    - inversion H; subst. split; reflexivity.
    - bind_ok H a Ha. destruct a as [[s' env1] u1]. cbv beta iota in H. bind_ok H b Hb'. destruct b as [[l'' env2] u2].
      cbv beta iota in H. inversion H; subst. destruct (Hs _ _ _ _ Ha Hinv) as [S1 S2].
      pose proof (check_stmt_inv _ _ _ _ _ _ Ha Hinv) as Hinv1. destruct (IH _ _ _ _ Hb' Hinv1) as [B1 B2].
      cbn [seq_eok fold_left]. rewrite S1, <- S2, B1, B2. split; reflexivity.
  Qed.
  (* arms: every arm is checked in (a set-modified copy of) the same environment *)
  Lemma check_seq_arms {A} (f : cenv -> A -> ck (A * cenv * list ident)) (okA : lenv -> A -> bool) l :
    Forall (fun x => forall env x' env' u, f env x = Ok (x', env', u) -> env_inv env ->
                     env_inv env' /\ okA (lenv_of env) x' = true /\ lenv_of env' = lenv_of env) l ->
    forall env l' env' u, check_seq f env l = Ok (l', env', u) -> env_inv env ->
    forallb (okA (lenv_of env)) l' = true /\ lenv_of env' = lenv_of env.
  Proof.
    induction 1 as [|x l Hx Hl IH]; cbn [check_seq]; intros env l' env' u H Hinv.
    - inversion H; subst. split; reflexivity.
    - bind_ok H a Ha. destruct a as [[x' env1] u1]. cbv beta iota in H. bind_ok H b Hb. destruct b as [[l'' env2] u2].
      cbv beta iota in H. inversion H; subst. destruct (Hx _ _ _ _ Ha Hinv) as (I1 & O1 & L1).
      destruct (IH _ _ _ _ Hb I1) as [O2 L2]. rewrite L1 in O2, L2. cbn [forallb]. rewrite O1, O2. split; [reflexivity|exact L2].
  Qed.

  (* ---------------- statements ---------------- *)
  Lemma check_stmt_eok s : forall env s' env' u, check_stmt cx env s = Ok (s', env', u) -> env_inv env ->
    stmt_eok G (lenv_of env) s' = true /\ lenv_of env' = stmt_env G (lenv_of env) s'.
  Proof.
    induction s using stmt_ind'; intros env s' env' u Hc Hinv.
    - cbn [check_stmt] in Hc. bind_ok Hc p Hp. destruct p as [e' r]. cbv beta iota in Hc. bind_ok Hc b Hb. destruct b as [[v' env1] u1].
      cbv beta iota in Hc. inversion Hc; subst. destruct (check_var_add_eok _ _ _ _ _ _ _ Hb) as [V1 V2].
      cbn [stmt_eok stmt_env]. rewrite (check_expr_eok _ _ _ _ Hp), V1, V2. cbn [vres_of vr_local].
      rewrite (check_expr_local _ _ _ _ Hp). split; reflexivity.
    - cbn [check_stmt] in Hc. bind_ok Hc p Hp. destruct p as [e' r]. cbv beta iota in Hc. bind_ok Hc b Hb. destruct b as [[v' env1] u1].
      cbv beta iota in Hc. inversion Hc; subst. destruct (check_var_add_eok _ _ _ _ _ _ _ Hb) as [V1 V2].
      cbn [stmt_eok stmt_env]. rewrite (check_expr_eok _ _ _ _ Hp), V1, V2. split; reflexivity.
    - cbn [check_stmt] in Hc. bind_ok Hc p Hp. destruct p as [e' r]. cbv beta iota in Hc. bind_ok Hc b Hb. destruct b as [[v' env1] u1].
      cbv beta iota in Hc. inversion Hc; subst. destruct (check_var_set_eok _ _ _ _ _ _ Hb Hinv) as [V1 V2].
      cbn [stmt_eok stmt_env]. rewrite (check_expr_eok _ _ _ _ Hp), V1, V2. split; reflexivity.
    - cbn [check_stmt] in Hc. bind_ok Hc b Hb. destruct b as [[v' env1] u1]. cbv beta iota in Hc. inversion Hc; subst.
      destruct (check_var_add_eok _ _ _ _ _ _ _ Hb) as [V1 V2]. cbn [stmt_eok stmt_env]. rewrite V1, V2. split; reflexivity.
    - cbn [check_stmt] in Hc. bind_ok Hc p Hp. destruct p as [e' r]. cbv beta iota in Hc. bind_ok Hc ars Hars. inversion Hc; subst.
      cbn [stmt_eok stmt_env]. rewrite (check_expr_eok _ _ _ _ Hp), (check_attrs_eok _ _ _ Hars). split; reflexivity.
    - cbn [check_stmt] in Hc. bind_ok Hc p Hp. destruct p as [e' r]. cbv beta iota in Hc. bind_ok Hc p2 Hp2. destruct p2 as [e2 r2].
      cbv beta iota in Hc. inversion Hc; subst. cbn [stmt_eok stmt_env]. rewrite (check_expr_eok _ _ _ _ Hp), (check_expr_eok _ _ _ _ Hp2).
      split; reflexivity.
    - cbn [check_stmt] in Hc. bind_ok Hc p Hp. destruct p as [e' r]. cbv beta iota in Hc. bind_ok Hc p2 Hp2. destruct p2 as [e2 r2].
      cbv beta iota in Hc. bind_ok Hc ars Hars. inversion Hc; subst. cbn [stmt_eok stmt_env].
      rewrite (check_expr_eok _ _ _ _ Hp), (check_expr_eok _ _ _ _ Hp2), (check_attrs_eok _ _ _ Hars). split; reflexivity.
    - rewrite check_stmt_scan in Hc. bind_ok Hc p Hp. destruct p as [v' r]. cbv beta iota in Hc.
      destruct (er_local r) eqn:El; cbn [negb] in Hc; [|discriminate]. bind_ok Hc b Hb. destruct b as [[arms' env1] u1]. cbv beta iota in Hc.
      inversion Hc; subst. cbn [stmt_eok stmt_env]. rewrite <- (check_expr_local _ _ _ _ Hp), El. cbn [andb].
      eapply (check_seq_arms (scan_arm cx)
               (fun L (arm : N * list stmt * loc) => let '(_, body, _) := arm in seq_eok (stmt_eok G) (stmt_env G) ([] :: L) body));
        [|exact Hb|exact Hinv].
      eapply Forall_impl; [|exact H]. intros [[rx body] al] Hbody env0 x' env2 u2 Harm Hinv0. unfold scan_arm in Harm.
      destruct (nullable_rx cx rx); [discriminate|]. bind_ok Harm c Hc'. destruct c as [[body' env3] u3]. cbv beta iota in Harm.
      inversion Harm; subst. unfold check_block in Hc'.
      pose proof (env_inv_nested _ Hinv0) as Hn. destruct (check_seq_block _ Hbody _ _ _ _ Hc' Hn) as [B1 B2].
      split; [apply env_inv_pop; eapply check_seq_inv; [|exact Hc'|exact Hn]; apply Forall_forall; intros s _; apply check_stmt_inv|].
      rewrite lenv_of_nested in B1, B2. split; [exact B1|]. rewrite lenv_of_pop, B2, tl_block_env. reflexivity.
    - cbn [check_stmt] in Hc. bind_ok Hc rs Hrs. inversion Hc; subst. cbn [stmt_eok stmt_env]. rewrite (check_exprs_eok _ _ _ Hrs).
      split; reflexivity.
    - rewrite check_stmt_if in Hc. bind_ok Hc b Hb. destruct b as [[arms' env1] u1]. cbv beta iota in Hc.
      inversion Hc; subst. cbn [stmt_eok stmt_env].
      eapply (check_seq_arms (if_arm cx)
               (fun L (arm : list cond * list stmt * loc) => let '(conds, body, _) := arm in
                  forallb (fun c => eager_ok G L (cond_expr c)) conds && seq_eok (stmt_eok G) (stmt_env G) ([] :: L) body));
        [|exact Hb|exact Hinv].
      eapply Forall_impl; [|exact H]. intros [[conds body] al] Hbody env0 x' env2 u2 Harm Hinv0. unfold if_arm in Harm.
      bind_ok Harm crs Hcrs. bind_ok Harm c Hc'. destruct c as [[body' env3] u3]. cbv beta iota in Harm. inversion Harm; subst.
      unfold check_block in Hc'.
      pose proof (env_inv_nested _ Hinv0) as Hn. destruct (check_seq_block _ Hbody _ _ _ _ Hc' Hn) as [B1 B2].
      split; [apply env_inv_pop; eapply check_seq_inv; [|exact Hc'|exact Hn]; apply Forall_forall; intros s _; apply check_stmt_inv|].
      rewrite lenv_of_nested in B1, B2. split; [rewrite (check_conds_eok _ _ _ Hcrs); exact B1|].
      rewrite lenv_of_pop, B2, tl_block_env. reflexivity.
    - rewrite check_stmt_for in Hc. bind_ok Hc p Hp. destruct p as [v' r]. cbv beta iota in Hc.
      destruct (er_local r) eqn:El; cbn [negb] in Hc; [|discriminate]. destruct (negb (is_list_q (er_quant r))); [discriminate|].
      bind_ok Hc loop_env Hle. bind_ok Hc b Hb. destruct b as [[body' env1] u1]. cbv beta iota in Hc. inversion Hc; subst.
      cbn [stmt_eok stmt_env]. rewrite <- (check_expr_local _ _ _ _ Hp), El. cbn [andb]. unfold check_block in Hb.
      pose proof (env_inv_add _ _ _ _ _ _ _ Hle (env_inv_nested _ Hinv)) as Hn.
      destruct (check_seq_block _ H _ _ _ _ Hb Hn) as [B1 B2].
      rewrite (add_lenv _ _ _ _ _ _ _ Hle) in B1, B2. cbn [vres_of vr_local] in B1, B2. rewrite El, lenv_of_nested in B1, B2.
      cbn [lenv_bind app] in B1, B2. split; [exact B1|]. rewrite lenv_of_pop, B2, tl_block_env. reflexivity.
  Qed.

  Lemma check_block_eok body env body' env' u : check_block cx env body = Ok (body', env', u) -> env_inv env ->
    block_eok G (lenv_of env) body' = true /\ lenv_of env' = block_env G (lenv_of env) body'.
  Proof. unfold check_block. apply check_seq_block. apply Forall_forall. intros s _. apply check_stmt_eok. Qed.
End WithG.

(* ---------------- the global table ---------------- *)
Lemma global_table_shape gs : forall fr m', check_global_table gs [fr] = Ok m' ->
  exists fr', m' = [fr'] /\ map fst fr' = map fst fr ++ map gl_name gs /\
    (Forall (fun kv : ident * (vres * bool) => vr_local (fst (snd kv)) = true) fr ->
     Forall (fun kv : ident * (vres * bool) => vr_local (fst (snd kv)) = true) fr').
Proof.
  induction gs as [|g gs IH]; cbn [check_global_table]; intros fr m' H.
  - inversion H; subst. exists fr. rewrite app_nil_r. auto.
  - cbn [varmap_add] in H. destruct (alist_get (gl_name g) fr); [discriminate|].
    destruct (IH _ _ H) as (fr' & -> & Hk & Hl). exists fr'. split; [reflexivity|]. split.
    + rewrite Hk, map_app, <- app_assoc. reflexivity.
    + intros HF. apply Hl. apply Forall_app. split; [exact HF|]. constructor; [reflexivity|constructor].
Qed.
Lemma varmap_get_single {V} (fr : vframe V) x : (exists v, varmap_get [fr] x = Some v) <-> In x (map fst fr).
Proof.
  cbn [varmap_get]. destruct (alist_get x fr) as [[v m]|] eqn:E.
  - split; [intros _|eauto]. apply alist_get_In in E. apply in_map_iff. exists (x, (v, m)). auto.
  - split; [intros [v Hv]; discriminate|]. intros Hin. apply alist_get_None in E. contradiction.
Qed.
Lemma is_global_In f x : is_global f x = true <-> In x (map gl_name (f_globals f)).
Proof.
  unfold is_global. rewrite existsb_exists. split.
  - intros (g & Hg & E). apply str_eqb_eq in E. subst. apply in_map. exact Hg.
  - intros Hin. apply in_map_iff in Hin. destruct Hin as (g & <- & Hg). exists g. split; [exact Hg|apply str_eqb_refl].
Qed.

Lemma check_stanzas_eok order q globals G :
  (forall i names x, G x = cx_global (stanza_ctx q globals i names) x) ->
  (forall i names, globals_local (stanza_ctx q globals i names)) ->
  forall sts i sts', check_stanzas order q globals i sts = Ok sts' ->
  forallb (fun st => block_eok G [[]] (st_stmts st)) sts' = true.
Proof.
  intros HG Hgl. induction sts as [|st sts IH]; cbn [check_stanzas]; intros i sts' H.
  - inversion H; subst. reflexivity.
  - bind_ok H st' Hst. bind_ok H sts'' Hsts. inversion H; subst. cbn [forallb]. rewrite (IH _ _ Hsts), andb_true_r.
    unfold check_stanza in Hst. destruct (nth_error (qt_stanza_names q) i) as [names|]; [|discriminate].
    destruct (name_index FULL_MATCH (qt_file_names q)); [|discriminate]. bind_ok Hst a Ha. destruct a as [[stmts' env'] used].
    cbv beta iota in Hst. bind_ok Hst un Hun. destruct un; [|discriminate]. inversion Hst; subst. cbn [st_stmts].
    apply (check_block_eok _ G (HG i names) (Hgl i names) _ _ _ _ _ Ha env_inv_init).
Qed.

Theorem check_file_eok_with order q f f' : check_file_with order q f = CkOk f' -> file_eok f' = true.
Proof.
  unfold check_file_with, check_file_ck. intros H.
  destruct (check_global_table (f_globals f) [[]]) as [globals| | |] eqn:Eg; cbn [obind to_result] in H; try discriminate.
  destruct (check_stanzas order q globals 0 (f_stanzas f)) as [sts'| | |] eqn:Es; cbn [obind to_result] in H; try discriminate.
  inversion H; subst. unfold file_eok. cbn [f_stanzas].
  destruct (global_table_shape _ _ _ Eg) as (fr' & -> & Hk & Hl). cbn [map app] in Hk.
  eapply check_stanzas_eok; [| |exact Es].
  - intros i names x. unfold cx_global, stanza_ctx. cbn [cx_globals].
    destruct (is_global _ x) eqn:E.
    + apply is_global_In in E. cbn [f_globals] in E. rewrite <- Hk in E. apply varmap_get_single in E. destruct E as [v ->]. reflexivity.
    + destruct (varmap_get [fr'] x) as [v|] eqn:E2; [|reflexivity].
      assert (Hin : In x (map fst fr')) by (apply varmap_get_single; eauto). rewrite Hk in Hin.
      apply (is_global_In {| f_globals := f_globals f; f_inherited := f_inherited f; f_shorthands := f_shorthands f; f_stanzas := sts' |}) in Hin.
      rewrite Hin in E. discriminate.
  - intros i names x v. unfold stanza_ctx. cbn [cx_globals varmap_get]. destruct (alist_get x fr') as [[v0 m]|] eqn:E; [|discriminate].
    intros [= <-]. apply alist_get_In in E. specialize (Hl (Forall_nil _)). rewrite Forall_forall in Hl. apply (Hl _ E).
Qed.
