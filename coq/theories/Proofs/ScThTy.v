(* Proofs/ScThTy.v — C08 WITH scoped variables INSIDE THUNKS, part 0: the fragment `tstmt` and the typing of lazy values
   with two KINDS of store locations (the two-run relation and the simulation are in Proofs/ScThSim.v).
   New with respect to Proofs/ScPermSim.v: the value of a local variable and the value of a scoped definition may contain
   scoped reads (`let x = @a.y`, `let @a.x = @b.y`, `let @a.x = [x, @c.z]`).  Such a thunk (kind M) is never forced
   during the execution phase and must never reach a position where values are compared or inspected: a TAINT
   `tnt : ident -> bool` names the local variables that may hold such a value; untainted expressions (`lexpr`) are those
   of the fragment `fexpr` that mention no tainted name.  A block's store locations carry a ghost list of kinds
   (true = L: body local to the block, scoped-free, mentions earlier L locations only; false = M: anything typed
   `mvall2`); L-typed lazy values mention L locations only.  Because the store relation of Proofs/BlockPermSim.v demands
   that EVERY thunk of the block is scoped-free, nothing of it can be inherited: the simulation is redone here for the
   whole interpreter, indexed by (graph size, list of kinds) instead of (graph size, store size). *)
From TSG Require Import Model.Lazy Proofs.BaseFacts Proofs.OrderFacts Proofs.Containers Proofs.MonadFacts Proofs.SLGraph Proofs.SLForce Proofs.SLExpr
  Proofs.BlockPermRen Proofs.BlockPermSim Proofs.BlockPermDen Proofs.ScPermSound Proofs.ScPermSim.

(* ---------------- the fragment ---------------- *)
Section Frag3.
  Variable fl : file.
  Variable okfn : ident -> Prop.
  Variable tnt : ident -> bool.          (* local variables that may hold a value with scoped reads *)
  Variable m : qmatch.
  (* untainted expressions: the fragment of Step 3 without tainted names *)
  Fixpoint lexpr (e : expr) : Prop :=
    match e with
    | EList es | ESet es => All lexpr es
    | EListComp elem _ _ value _ | ESetComp elem _ _ value _ => lexpr elem /\ lexpr value
    | ECapture _ _ file_idx stanza_idx _ => nodes_for_capture m stanza_idx = nodes_for_capture m file_idx
    | EUnscoped name _ => tnt name = false
    | EScoped _ _ _ => False
    | ECall f args => okfn f /\ All lexpr args
    | _ => True
    end.
  (* expressions in deferred positions and in the values of variables *)
  Fixpoint texpr (e : expr) : Prop :=
    lexpr e \/
    match e with
    | EUnscoped _ _ => True
    | EScoped sc _ _ => texpr sc
    | EList es => All texpr es
    | _ => False
    end.
  Definition lattr (a : attr) : Prop := match a with Attr _ e => lexpr e end.
  Definition tattr (a : attr) : Prop :=
    match a with Attr name e => lexpr e \/ (texpr e /\ find_shorthand name (f_shorthands fl) = None) end.
  Definition lcond (c : cond) : Prop := match c with CSome e _ | CNone e _ | CBool e _ => lexpr e end.
  (* the value assigned to a variable: tainted names take anything, the others untainted values, scoped definitions anything *)
  Definition tassign (v : variable) (e : expr) : Prop :=
    match v with
    | VarU name _ => if tnt name then texpr e else lexpr e
    | VarS sc _ _ => is_capture sc /\ texpr e
    end.
  Fixpoint tstmt (s : stmt) : Prop :=
    match s with
    | SLet v e _ => tassign v e
    | SVar v e _ | SSet v e _ => fvar v /\ tassign v e
    | SNode v _ _ => match v with VarU _ _ => True | VarS sc _ _ => is_capture sc end
    | SAttrNode n attrs _ => texpr n /\ All tattr attrs
    | SEdge a b _ => texpr a /\ texpr b
    | SAttrEdge a b attrs _ => texpr a /\ texpr b /\ All tattr attrs
    | SScan v arms _ => lexpr v /\ All (fun arm : N * list stmt * loc => All tstmt (snd (fst arm))) arms
    | SPrint vs _ => All texpr vs
    | SIf arms _ => All (fun arm : list cond * list stmt * loc => All lcond (fst (fst arm)) /\ All tstmt (snd (fst arm))) arms
    | SFor _ _ v body _ => lexpr v /\ All tstmt body
    end.
End Frag3.

(* ---------------- typing with two kinds of locations ---------------- *)
(* LLp: the L locations, LAp: all locations of the block *)
Fixpoint mvall2 (okfn : ident -> Prop) (D LLp LAp : N -> Prop) (lv : lvalue) : Prop :=
  lvall okfn D LLp lv \/
  match lv with
  | LVar loc => LAp loc
  | LScoped sc _ => mvall2 okfn D LLp LAp sc
  | LList ls => (fix all (l : list lvalue) : Prop := match l with [] => True | x :: l' => mvall2 okfn D LLp LAp x /\ all l' end) ls
  | _ => False
  end.
Lemma mvall2_all okfn D LLp LAp l :
  (fix all (l : list lvalue) : Prop := match l with [] => True | x :: l' => mvall2 okfn D LLp LAp x /\ all l' end) l <-> Forall (mvall2 okfn D LLp LAp) l.
Proof.
  induction l as [|x l IH]; [split; constructor|]. split.
  - intros [H1 H2]. constructor; [exact H1|apply IH, H2].
  - intros H. inversion H; subst. split; [assumption|apply IH; assumption].
Qed.
Lemma mvall2_local okfn D LLp LAp lv : lvall okfn D LLp lv -> mvall2 okfn D LLp LAp lv.
Proof. intros H. destruct lv; left; exact H. Qed.
Lemma mvall2_impl okfn (D D' LLp LLp' LAp LAp' : N -> Prop) lv : (forall i, D i -> D' i) -> (forall i, LLp i -> LLp' i) -> (forall i, LAp i -> LAp' i) ->
  mvall2 okfn D LLp LAp lv -> mvall2 okfn D' LLp' LAp' lv.
Proof.
  intros HD HL HA. induction lv as [v|l IH|l IH|loc|sc name IH|f args IH] using lv_ind; cbn [mvall2]; intros [H|H]; try (left; apply (lvall_impl okfn D D' LLp LLp'); assumption); try contradiction.
  - right. apply mvall2_all in H. apply mvall2_all. rewrite Forall_forall in *. intros x Hx. apply IH; auto.
  - right. apply HA, H.
  - right. apply IH, H.
Qed.
Lemma mvall2_ext okfn (D LLp LAp : N -> Prop) rg rg' rl rl' lv : (forall i, D i -> rg i = rg' i) -> (forall i, LLp i -> rl i = rl' i) -> (forall i, LAp i -> rl i = rl' i) ->
  mvall2 okfn D LLp LAp lv -> lvren rg rl lv = lvren rg' rl' lv.
Proof.
  intros HD HL HA. induction lv as [v|l IH|l IH|loc|sc name IH|f args IH] using lv_ind; cbn [mvall2]; intros [H|H]; try (apply (lvren_ext okfn D LLp); assumption); try contradiction.
  - apply mvall2_all in H. cbn [lvren]. f_equal. apply map_ext_in. intros x Hx. rewrite Forall_forall in *. apply IH; auto.
  - cbn [lvren]. rewrite (HA _ H). reflexivity.
  - cbn [lvren]. f_equal. apply IH, H.
Qed.
Lemma mvall_mvall2 okfn D LLp LAp lv : mvall okfn D LLp lv -> mvall2 okfn D LLp LAp lv.
Proof.
  induction lv as [v|l IH|l IH|loc|sc name IH|f args IH] using lv_ind; cbn [mvall mvall2]; intros [H|H]; try (left; exact H); try contradiction.
  - right. apply mvall_all in H. apply mvall2_all. rewrite Forall_forall in *. intros x Hx. apply IH; auto.
  - right. apply IH, H.
Qed.

Definition mat2all (okfn : ident -> Prop) (D LLp LAp : N -> Prop) (a : ident * lvalue) : Prop := mvall2 okfn D LLp LAp (snd a).
Definition ms2all (eaok : amap -> Prop) (okfn : ident -> Prop) (D LLp LAp : N -> Prop) (st : lstmt) : Prop :=
  match st with
  | LSAttrNode n attrs _ => mvall2 okfn D LLp LAp n /\ Forall (mat2all okfn D LLp LAp) attrs
  | LSEdge a b ea _ => mvall2 okfn D LLp LAp a /\ mvall2 okfn D LLp LAp b /\ eaok ea
  | LSAttrEdge a b attrs _ => mvall2 okfn D LLp LAp a /\ mvall2 okfn D LLp LAp b /\ Forall (mat2all okfn D LLp LAp) attrs
  | LSPrint args _ => Forall (fun o => match o with Some lv => mvall2 okfn D LLp LAp lv | None => True end) args
  end.
Lemma ms2all_impl eaok okfn (D D' LLp LLp' LAp LAp' : N -> Prop) st : (forall i, D i -> D' i) -> (forall i, LLp i -> LLp' i) -> (forall i, LAp i -> LAp' i) ->
  ms2all eaok okfn D LLp LAp st -> ms2all eaok okfn D' LLp' LAp' st.
Proof.
  intros HD HL HA. assert (Hat : forall l, Forall (mat2all okfn D LLp LAp) l -> Forall (mat2all okfn D' LLp' LAp') l).
  { intros l H. eapply Forall_impl; [|exact H]. intros a. apply mvall2_impl; assumption. }
  destruct st; cbn [ms2all].
  - intros [H1 H2]. split; [eapply mvall2_impl; eauto|apply Hat, H2].
  - intros (H1 & H2 & H3). split; [|split]; [eapply mvall2_impl; eauto..|exact H3].
  - intros (H1 & H2 & H3). split; [|split]; [eapply mvall2_impl; eauto..|apply Hat, H3].
  - intros H. eapply Forall_impl; [|exact H]. intros [lv|]; auto. apply mvall2_impl; assumption.
Qed.
Lemma ms2all_ext eaok okfn (D LLp LAp : N -> Prop) rg rg' rl rl' st : (forall i, D i -> rg i = rg' i) -> (forall i, LLp i -> rl i = rl' i) -> (forall i, LAp i -> rl i = rl' i) ->
  ms2all eaok okfn D LLp LAp st -> lsren rg rl st = lsren rg' rl' st.
Proof.
  intros HD HL HA. assert (Hat : forall l, Forall (mat2all okfn D LLp LAp) l -> map (atren rg rl) l = map (atren rg' rl') l).
  { intros l H. apply map_ext_in. intros [k lv] Hin. unfold atren. cbn [fst snd]. f_equal. rewrite Forall_forall in H. apply (mvall2_ext okfn D LLp LAp); auto. apply (H _ Hin). }
  destruct st; cbn [ms2all lsren].
  - intros [H1 H2]. rewrite (mvall2_ext okfn D LLp LAp rg rg' rl rl' node HD HL HA H1), (Hat _ H2). reflexivity.
  - intros (H1 & H2 & _). rewrite (mvall2_ext okfn D LLp LAp rg rg' rl rl' src HD HL HA H1), (mvall2_ext okfn D LLp LAp rg rg' rl rl' snk HD HL HA H2). reflexivity.
  - intros (H1 & H2 & H3). rewrite (mvall2_ext okfn D LLp LAp rg rg' rl rl' src HD HL HA H1), (mvall2_ext okfn D LLp LAp rg rg' rl rl' snk HD HL HA H2), (Hat _ H3). reflexivity.
  - intros H. f_equal. apply map_ext_in. intros [lv|] Hin; cbn [option_map]; [|reflexivity]. f_equal. rewrite Forall_forall in H. apply (mvall2_ext okfn D LLp LAp); auto. apply (H _ Hin).
Qed.

(* kinds of the locations kb, kb+1, .. of a block *)
Definition LLk (kb : N) (ks : list bool) : N -> Prop := fun l => kb <= l /\ nth_error ks (N.to_nat (l - kb)) = Some true.
Definition LAk (kb : N) (ks : list bool) : N -> Prop := fun l => kb <= l /\ l < kb + N.of_nat (length ks).
Lemma LLk_LAk kb ks l : LLk kb ks l -> LAk kb ks l.
Proof. intros [H1 H2]. split; [exact H1|]. assert (N.to_nat (l - kb) < length ks)%nat by (apply nth_error_Some; congruence). lia. Qed.
Lemma LLk_mono kb ks ks' l : prefix ks ks' -> LLk kb ks l -> LLk kb ks' l.
Proof. intros [r ->] [H1 H2]. split; [exact H1|]. rewrite nth_error_app1; [exact H2|]. apply nth_error_Some. congruence. Qed.
Lemma LAk_mono kb ks ks' l : prefix ks ks' -> LAk kb ks l -> LAk kb ks' l.
Proof. intros [r ->] [H1 H2]. split; [exact H1|]. rewrite app_length. lia. Qed.
Lemma LLk_firstn kb ks j l : LLk kb (firstn j ks) l -> LLk kb ks l /\ l < kb + N.of_nat j.
Proof.
  intros [H1 H2]. assert (Hlt : (N.to_nat (l - kb) < length (firstn j ks))%nat) by (apply nth_error_Some; congruence). rewrite firstn_length in Hlt.
  split; [|lia]. split; [exact H1|]. rewrite <- H2. symmetry. apply nth_error_firstn'. lia.
Qed.
Lemma LAk_firstn kb ks j l : LAk kb (firstn j ks) l -> LAk kb ks l /\ l < kb + N.of_nat j.
Proof. intros [H1 H2]. rewrite firstn_length in H2. unfold LAk. split; [split; [exact H1|lia]|lia]. Qed.
Lemma LLk_snoc kb ks b : LLk kb (ks ++ [b]) (kb + N.of_nat (length ks)) <-> b = true.
Proof.
  unfold LLk. replace (N.to_nat (kb + N.of_nat (length ks) - kb)) with (length ks) by lia. rewrite nth_error_app2, Nat.sub_diag by lia. cbn. split; [intros [_ H]; congruence|intros ->; split; [lia|reflexivity]].
Qed.
Lemma LAk_snoc kb ks b : LAk kb (ks ++ [b]) (kb + N.of_nat (length ks)).
Proof. unfold LAk. rewrite app_length. cbn [length]. lia. Qed.

Lemma prefix_snoc {A} (l : list A) x : prefix l (l ++ [x]). Proof. apply prefix_app. Qed.
Lemma prefix_length {A} (l l' : list A) : prefix l l' -> (length l <= length l')%nat.
Proof. intros [r ->]. rewrite app_length. lia. Qed.
Lemma firstn_prefix_lt {A} (l l' : list A) j : prefix l l' -> (j <= length l)%nat -> firstn j l' = firstn j l.
Proof. intros [r ->] Hj. rewrite firstn_app. replace (j - length l)%nat with 0%nat by lia. rewrite firstn_O, app_nil_r. reflexivity. Qed.

