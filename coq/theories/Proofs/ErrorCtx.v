(* Proofs/ErrorCtx.v — C20: every non-cancellation error raised while executing a stanza is reported
   inside a statement context carrying the stanza's location and the matched node. *)
From TSG Require Import Model.Strict Model.Lazy Proofs.MonadFacts Proofs.StrictMeta Proofs.LazyMeta Proofs.Captures.

(* errors not yet inside a statement context: a base error, possibly inside Context::Other wrappers *)
Inductive unwrapped : exec_error -> Prop :=
| U_base e : base_error e -> unwrapped e
| U_other e : unwrapped e -> unwrapped (EInContext CtxOther e).

Definition in_stmt_ctx (z : loc) (n : N) (e : exec_error) : Prop :=
  exists l e0, e = EInContext (CtxStmts [{| sc_stmt := l; sc_stanza := z; sc_node := n |}]) e0 /\ unwrapped e0.
Definition eshape (z : loc) (n : N) (e : exec_error) : Prop :=
  (exists l, e = ECancelled l) \/ unwrapped e \/ in_stmt_ctx z n e.

Definition stanza_ctx (z : loc) (n : N) (c : context) : Prop :=
  c = CtxOther \/ exists l, c = CtxStmts [{| sc_stmt := l; sc_stanza := z; sc_node := n |}].

Lemma unwrapped_add_other e : unwrapped e -> unwrapped (add_context CtxOther e).
Proof. intros H. destruct H as [e Hb|e H]; [|cbn; apply U_other, U_other, H]. destruct e; cbn in *; try contradiction; apply U_other, U_base; exact I. Qed.
Lemma unwrapped_add_stmt z n l e : unwrapped e -> in_stmt_ctx z n (add_context (CtxStmts [{| sc_stmt := l; sc_stanza := z; sc_node := n |}]) e).
Proof.
  intros H. exists l, e. split; [|exact H]. destruct H as [e Hb|e H]; [|reflexivity]. destruct e; cbn in *; try contradiction; reflexivity.
Qed.
Lemma eshape_add_context z n c e : stanza_ctx z n c -> eshape z n e -> eshape z n (add_context c e).
Proof.
  intros Hc [[l ->]|[Hu|(l & e0 & -> & Hu)]].
  - left. exists l. reflexivity.
  - destruct Hc as [->|[l ->]]; [right; left; apply unwrapped_add_other, Hu|right; right; apply unwrapped_add_stmt, Hu].
  - right. right. cbn. exists l, e0. auto.
Qed.

Definition errs_shaped {S A} (z : loc) (n : N) (m : M S A) : Prop := forall s p e, m s p = Err e -> eshape z n e.

Definition call_errors_base (call : ident -> graph -> list value -> res (value * graph)) : Prop :=
  forall f g args e, call f g args = Err e -> base_error e.

Section StrictCtx.
  Context {rx : Type}.
  Variables (t : tree) (fl : file) (cfg : config) (glob : globals) (regexes : list rx)
            (find : rx -> str -> option (list (option (N * N))))
            (call : ident -> graph -> list value -> res (value * graph)).
  Hypothesis Hcall : call_errors_base call.
  Variables (z : loc) (n : N).

  Ltac destruct_matches_in H :=
    repeat match type of H with context [match ?x with _ => _ end] => destruct x eqn:? end.
  Ltac prim := intros s0 p0 e0 H;
    cbv [add_node add_attr add_edge call_function set_graph set_locals set_scoped set_params bind get_state modify ret fail panic out_of_fuel] in H;
    destruct_matches_in H; try discriminate; inversion H; subst; try (right; left; apply U_base; exact I).

  Lemma shaped_stmt fuel le st : good_le (stanza_ctx z n) le -> errs_shaped z n (exec_stmt t fl cfg glob regexes find call fuel le st).
  Proof.
    apply (Phi_exec_stmt t fl cfg glob regexes find call (fun A m => errs_shaped z n m)) with (good_ctx := stanza_ctx z n).
    - intros A a s0 p e H. discriminate.
    - intros A B m f Hm Hf s0 p e H. apply bind_err in H as [H|(a & s1 & p1 & _ & H)]; [eapply Hm|eapply Hf]; eauto.
    - intros A e Hb s0 p e' H. inversion H; subst. right; left. apply U_base, Hb.
    - intros A x s0 p e H. discriminate.
    - intros A s0 p e H. discriminate.
    - intros A c m Hc Hm s0 p e H. apply ctx_wrap_err in H as (e0 & H & ->). apply eshape_add_context; [exact Hc|eapply Hm; eauto].
    - intros s0 p e H. discriminate.
    - intros l. prim.
    - intros l. prim.
    - intros l. prim.
    - intros l s0 p e H. apply poll_err in H as (-> & _). left. exists l. reflexivity.
    - prim.
    - intros tgt k v. prim.
    - intros a b. prim.
    - intros f args. prim. right; left. apply U_base. eapply Hcall; eauto.
  Qed.
End StrictCtx.

Lemma iterM_err {S A} (f : A -> M S unit) l : forall s p e, iterM f l s p = Err e -> exists x s' p', In x l /\ f x s' p' = Err e.
Proof.
  induction l as [|x l IH]; intros s p e H; cbn [iterM] in H; [discriminate|].
  apply bind_err in H as [H|(u & s1 & p1 & _ & H)]; [exists x, s, p; split; [left; reflexivity|exact H]|].
  destruct (IH _ _ _ H) as (y & s' & p' & Hin & Hy). exists y, s', p'. split; [right; exact Hin|exact Hy].
Qed.

(* strict mode: an error of one block execution is the bare cancellation, or an error (inside any number
   of Context::Other) wrapped in ONE statement context that carries the stanza's location and the node
   matched by the stanza's query *)
Theorem strict_stanza_error_ctx_lemma {rx : Type} t fl cfg glob (regexes : list rx) find call fuel st m s p e n rest :
  call_errors_base call ->
  nodes_for_capture m (st_full_stanza_idx st) = n :: rest ->
  exec_stanza t fl cfg glob regexes find call fuel st m s p = Err e ->
  (exists l, e = ECancelled l) \/ in_stmt_ctx (st_start st) n e.
Proof.
  intros Hcall Hn H. unfold exec_stanza in H. apply bind_err in H as [H|(u & s1 & p1 & _ & H)].
  - unfold clear_frame in H. apply bind_err in H as [H|(a & s2 & p2 & _ & H)]; discriminate.
  - apply iterM_err in H as (x & s' & p' & _ & H). cbv zeta in H. rewrite Hn in H.
    apply ctx_wrap_err in H as (e0 & H & ->).
    assert (Hs : eshape (st_start st) n e0).
    { eapply (shaped_stmt t fl cfg glob regexes find call Hcall (st_start st) n); [|exact H].
      split; [left; reflexivity|]. intros st'. right. eexists. reflexivity. }
    destruct Hs as [[l ->]|[Hu|(l & e1 & -> & Hu)]].
    + left. exists l. reflexivity.
    + right. apply unwrapped_add_stmt, Hu.
    + right. cbn. exists l, e1. auto.
Qed.

(* the error of a whole strict execution phase comes from one (stanza, match) block *)
Theorem strict_file_error_ctx_lemma {rx : Type} t fl cfg glob (regexes : list rx) find call fuel sts ms s p e :
  call_errors_base call ->
  exec_file t fl cfg glob regexes find call fuel sts ms s p = Err e ->
  (exists l, e = ECancelled l) \/
  exists st m, In (st, m) (blocks sts ms) /\
    match nodes_for_capture m (st_full_stanza_idx st) with
    | n :: _ => in_stmt_ctx (st_start st) n e
    | [] => False
    end.
Proof.
  intros Hcall H. rewrite strict_blocks_once in H. apply iterM_err in H as ([st m] & s' & p' & Hin & H). cbn [fst snd] in H.
  destruct (nodes_for_capture m (st_full_stanza_idx st)) as [|n rest] eqn:En.
  - exfalso. unfold exec_stanza in H. apply bind_err in H as [H|(u & s1 & p1 & _ & H)].
    + unfold clear_frame in H. apply bind_err in H as [H|(a & s2 & p2 & _ & H)]; discriminate.
    + apply iterM_err in H as (x & s'' & p'' & _ & H). cbv zeta in H. rewrite En in H. discriminate.
  - destruct (strict_stanza_error_ctx_lemma t fl cfg glob regexes find call fuel st m s' p' e n rest Hcall En H) as [Hc|Hc]; [left; exact Hc|].
    right. exists st, m. split; [exact Hin|]. rewrite En. exact Hc.
Qed.

(* ---- lazy mode: shape of the context chain (1 statement context, or 2 for a conflict) ---- *)
Definition lshape (e : exec_error) : Prop :=
  (exists l, e = ECancelled l) \/ unwrapped e \/
  exists cs e0, e = EInContext (CtxStmts cs) e0 /\ (length cs = 1 \/ length cs = 2)%nat.

Lemma lshape_add_context c e : (c = CtxOther \/ exists sc, c = CtxStmts [sc]) -> lshape e -> lshape (add_context c e).
Proof.
  intros Hc [[l ->]|[Hu|(cs & e0 & -> & Hl)]].
  - left. exists l. reflexivity.
  - destruct Hc as [->|[sc ->]]; [right; left; apply unwrapped_add_other, Hu|].
    right. right. exists [sc], e. split; [|left; reflexivity]. destruct Hu as [e Hb|e Hu]; [|reflexivity]. destruct e; cbn in *; try contradiction; reflexivity.
  - right. right. exists cs, e0. split; [reflexivity|exact Hl].
Qed.

Definition lerrs_shaped {A} (m : M lstate A) : Prop := forall s p e, m s p = Err e -> lshape e.

Section LazyCtx.
  Context {rx : Type}.
  Variables (t : tree) (fl : file) (cfg : config) (glob : globals) (regexes : list rx)
            (find : rx -> str -> option (list (option (N * N))))
            (call : ident -> graph -> list value -> res (value * graph)).
  Hypothesis Hcall : call_errors_base call.

  Ltac destruct_matches_in H :=
    repeat match type of H with context [match ?x with _ => _ end] => destruct x eqn:? end.
  Ltac unfH H := cbv [ladd_node ladd_node_attr lcall_function lattr_node_add ledge_add lattr_edge_add fail_in
                      set_lgraph set_llocals set_lstore set_lscoped push_lstmt set_lparams set_lprev upd
                      bind get_state modify ret fail panic out_of_fuel] in H.
  Ltac prim := intros s0 p0 e0 H; unfH H; destruct_matches_in H; try discriminate; inversion H; subst;
               try (right; left; apply U_base; exact I);
               try (right; right; eexists; eexists; split; [reflexivity|cbn; auto]).

  Theorem lexec_file_error_shape fuel ms : lerrs_shaped (lexec_file t fl cfg glob regexes find call fuel ms).
  Proof.
    apply (Phi_lexec_file t fl cfg glob regexes find call (fun A m => lerrs_shaped m))
      with (good_ctx := fun c => c = CtxOther \/ exists sc, c = CtxStmts [sc]).
    - intros A a s0 p e H. discriminate.
    - intros A B m f Hm Hf s0 p e H. apply bind_err in H as [H|(a & s1 & p1 & _ & H)]; [eapply Hm|eapply Hf]; eauto.
    - intros A e Hb s0 p e' H. inversion H; subst. right; left. apply U_base, Hb.
    - intros A a b e Hb s0 p e' H. inversion H; subst. right. right. eexists; eexists; split; [reflexivity|right; reflexivity].
    - intros A x s0 p e H. discriminate.
    - intros A s0 p e H. discriminate.
    - left. reflexivity.
    - intros sc. right. eexists. reflexivity.
    - intros A c m Hc Hm s0 p e H. apply ctx_wrap_err in H as (e0 & H & ->). apply lshape_add_context; [exact Hc|eapply Hm; eauto].
    - intros s0 p e H. discriminate.
    - intros l. prim.
    - intros l. prim.
    - intros l. prim.
    - intros st. prim.
    - intros l. prim.
    - intros l. prim.
    - intros l s0 p e H. apply poll_err in H as (-> & _). left. exists l. reflexivity.
    - prim.
    - intros n k v. prim.
    - intros f args. prim. right; left. apply U_base. eapply Hcall; eauto.
    - intros n k v prev dbg. prim. all: destruct prev; cbn; auto.
    - intros a b ea. prim.
    - intros a b k v prev dbg. prim. all: destruct prev; cbn; auto.
  Qed.
End LazyCtx.
