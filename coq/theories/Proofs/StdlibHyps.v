(* Proofs/StdlibHyps.v — the four hypotheses on the function library that the C01 / C09 / C11 / C20
   theorems carry (call_errors_base, call_errors_ok, call_extends, call_extends_sorted) hold of the
   standard library model `stdlib_call` (Model/Stdlib.v), for every regex oracle and every tree. *)
From TSG Require Import Model.Stdlib Spec.StdlibDoc Proofs.BaseFacts Proofs.Containers Proofs.Stdlib.
From TSG Require Import Proofs.StrictMeta Proofs.ErrorCtx Proofs.Cancel Proofs.Extends Proofs.ExtendsLazy.

(* the errors of the standard library are plain errors: never Cancelled, never wrapped in a context *)
Lemma stdlib_error_base e : stdlib_error e = true -> base_error e.
Proof. destruct e; cbn [stdlib_error base_error]; intros H; try discriminate H; exact I. Qed.

Lemma stdlib_call_errors_base rxo t : call_errors_base (stdlib_call rxo t).
Proof. intros f g args e H. apply stdlib_error_base. eapply error_classes_lemma; exact H. Qed.

Lemma stdlib_call_errors_ok rxo t : call_errors_ok (stdlib_call rxo t).
Proof. intros f g args e H. apply cancel_shape_base. eapply stdlib_call_errors_base; exact H. Qed.

(* the graph a successful call returns: the input graph, or (for `node` only) the input graph with
   one fresh node appended *)
Lemma stdlib_call_graph rxo t f g args v g' :
  stdlib_call rxo t f g args = Ok (v, g') -> g' = g \/ g' = g ++ [new_gnode].
Proof.
  unfold stdlib_call. destruct (fn_of_name f) as [fn|]; [|discriminate]. unfold stdlib_fn.
  destruct (stdlib_pure rxo t fn g args) as [v0|e0|x|]; cbn [obind]; try discriminate.
  intros H. inversion H; subst. destruct fn; try (left; reflexivity). right. reflexivity.
Qed.

Lemma graph_ext_app_new g : graph_ext g (g ++ [new_gnode]).
Proof. exact (proj1 (add_graph_node_ext g)). Qed.

Lemma graph_sorted_app_new g : graph_sorted g -> graph_sorted (g ++ [new_gnode]).
Proof. intros H. apply Forall_app. split; [exact H|]. repeat constructor. Qed.

(* every function of the standard library returns a well-formed graph that extends its input *)
Lemma stdlib_call_extends rxo t : call_extends (stdlib_call rxo t).
Proof.
  intros f g args v g' Hwf H. destruct (stdlib_call_graph _ _ _ _ _ _ _ H) as [-> | ->].
  - split; [exact Hwf|apply graph_ext_refl].
  - split; [apply graph_wf_app_new, Hwf|apply graph_ext_app_new].
Qed.

Lemma stdlib_call_extends_sorted rxo t : call_extends_sorted (stdlib_call rxo t).
Proof.
  intros f g args v g' Hs H. destruct (stdlib_call_graph _ _ _ _ _ _ _ H) as [-> | ->].
  - split; [exact Hs|apply graph_ext_refl].
  - split; [apply graph_sorted_app_new, Hs|apply graph_ext_app_new].
Qed.
