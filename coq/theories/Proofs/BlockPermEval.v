(* Proofs/BlockPermEval.v — C08, part 7 (STEP 3): the evaluation phase on a permutation of the blocks.
   The denotational summary of a state (store valuation + graph operations, Proofs/BlockPermDen.v) is cut into
   per-block canonical summaries (each block in its own numbering), permuted, and laid out again for the other
   order; the graph operations of the two layouts are related by the renumbering of Proofs/BlockPermGraph.v. *)
From Coq Require Import Permutation.
From TSG Require Import Model.Lazy Proofs.BaseFacts Proofs.Containers Proofs.MonadFacts Proofs.SLGraph Proofs.SLForce Proofs.SLExpr Proofs.SLConv Proofs.SLStmt
  Proofs.StrictLazy Proofs.EvalPerm Proofs.EvalPermLazy
  Proofs.BlockPermRen Proofs.BlockPermSim Proofs.BlockPermSwap Proofs.BlockPermExec Proofs.BlockPermDen Proofs.BlockPermGraph.

Notation ea0 := (fun ea : amap => ea = []).

Section Transport.
  Variable call : ident -> graph -> list value -> res (value * graph).
  Variable okfn : ident -> Prop.
  Hypothesis Hcall : forall f, okfn f -> call_ok call f.

  (* a block of m thunks sits at store offset kA under valuation rhoA and at offset kB under rhoB, where rhoB holds
     the r-renamed values; D = the graph ids of the block *)
  Variables (D : N -> Prop) (r : N -> N) (rhoA rhoB : list value) (kA kB m : nat).
  Hypothesis Hmono : forall i j, D i -> D j -> i < j -> r i < r j.
  Hypothesis Hseg : forall j w, (j < m)%nat -> nth_error rhoA (kA + j) = Some w -> vall D w /\ nth_error rhoB (kB + j) = Some (vren r w).

  Definition Lk (j : nat) : N -> Prop := fun l => N.of_nat kA <= l /\ l < N.of_nat kA + N.of_nat j.
  Definition rlk (l : N) : N := l - N.of_nat kA + N.of_nat kB.

  Lemma tr_den_full lv v : den call rhoA lv v -> lvall okfn D (Lk m) lv -> den call rhoB (lvren r rlk lv) (vren r v) /\ vall D v.
  Proof.
    apply (den_ren call okfn Hcall D (Lk m) r rlk rhoA rhoB Hmono). intros loc w [H1 H2] Hn.
    replace (N.to_nat loc) with (kA + (N.to_nat loc - kA))%nat in Hn by lia. destruct (Hseg (N.to_nat loc - kA)%nat w ltac:(lia) Hn) as [Hv Hn']. split; [exact Hv|].
    unfold rlk. replace (N.to_nat (loc - N.of_nat kA + N.of_nat kB)) with (kB + (N.to_nat loc - kA))%nat by lia. exact Hn'.
  Qed.
  Lemma tr_den j lv v : (j <= m)%nat -> den call (firstn (kA + j) rhoA) lv v -> lvall okfn D (Lk j) lv ->
    den call (firstn (kB + j) rhoB) (lvren r rlk lv) (vren r v) /\ vall D v.
  Proof.
    intros Hj. apply (den_ren call okfn Hcall D (Lk j) r rlk _ _ Hmono). intros loc w [H1 H2] Hn.
    rewrite nth_error_firstn' in Hn by lia. replace (N.to_nat loc) with (kA + (N.to_nat loc - kA))%nat in Hn by lia.
    destruct (Hseg (N.to_nat loc - kA)%nat w ltac:(lia) Hn) as [Hv Hn']. split; [exact Hv|].
    unfold rlk. replace (N.to_nat (loc - N.of_nat kA + N.of_nat kB)) with (kB + (N.to_nat loc - kA))%nat by lia. rewrite nth_error_firstn' by lia. exact Hn'.
  Qed.
  Lemma tr_thunk j th : (j < m)%nat -> thunk_ok call rhoA (kA + j) th -> thall okfn D (Lk j) th -> thunk_ok call rhoB (kB + j) (thren r rlk th).
  Proof.
    intros Hj (v & Hv & Hs) Hth. destruct (Hseg j v Hj Hv) as [Hvv Hn']. exists (vren r v). split; [exact Hn'|].
    unfold thall in Hth. unfold thren. cbn [th_state]. destruct (th_state th) as [lv| |v']; cbn [tsren tsall] in *.
    - apply (tr_den j lv v ltac:(lia) Hs Hth).
    - exact Hs.
    - congruence.
  Qed.
  Lemma tr_edge st e : den_edge call rhoA st e -> lsall ea0 okfn D (Lk m) st -> den_edge call rhoB (lsren r rlk st) (ere r e) /\ eall D e.
  Proof.
    intros (a & b & dbg & -> & Ha & Hb) (Hla & Hlb & _). destruct (tr_den_full _ _ Ha Hla) as [A1 A2]. destruct (tr_den_full _ _ Hb Hlb) as [B1 B2].
    split; [|split; [exact A2|exact B2]]. exists (lvren r rlk a), (lvren r rlk b), dbg. split; [reflexivity|]. split; [exact A1|exact B1].
  Qed.
  Definition kvren (kv : ident * value) : ident * value := (fst kv, vren r (snd kv)).
  Lemma tr_attrs attrs kvs : den_attrs call rhoA attrs kvs -> Forall (atall okfn D (Lk m)) attrs ->
    den_attrs call rhoB (map (atren r rlk) attrs) (map kvren kvs) /\ Forall (fun kv => vall D (snd kv)) kvs.
  Proof.
    intros H. induction H as [|x y l l' [H1 H2] _ IH]; intros Hf; cbn [map]; [split; constructor|]. inversion Hf as [|? ? Hx Hl]; subst.
    destruct (tr_den_full _ _ H2 Hx) as [A1 A2]. destruct (IH Hl) as [B1 B2]. split; [|constructor; assumption].
    constructor; [|exact B1]. unfold atren, kvren. cbn [fst snd]. split; [exact H1|exact A1].
  Qed.
  Lemma tr_astmt st ops : den_astmt call rhoA st ops -> lsall ea0 okfn D (Lk m) st ->
    den_astmt call rhoB (lsren r rlk st) (map (are r) ops) /\ Forall (aall D) ops.
  Proof.
    destruct st as [n attrs dbg|a b ea dbg|a b attrs dbg|args dbg]; cbn [den_astmt lsall lsren]; try contradiction.
    - intros (x & kvs & Hn & Ha & ->) [Hln Hla]. destruct (tr_den_full _ _ Hn Hln) as [A1 A2]. destruct (tr_attrs _ _ Ha Hla) as [B1 B2]. split.
      + exists (r x), (map kvren kvs). split; [exact A1|]. split; [exact B1|]. rewrite !map_map. apply map_ext. intros [k v]. reflexivity.
      + apply Forall_forall. intros o Ho. apply in_map_iff in Ho as ([k v] & <- & Hin). rewrite Forall_forall in B2. cbn [mk aall fst snd]. split; [exact A2|apply (B2 _ Hin)].
    - intros (x & y & kvs & Hx & Hy & Ha & ->) (Hlx & Hly & Hla). destruct (tr_den_full _ _ Hx Hlx) as [A1 A2]. destruct (tr_den_full _ _ Hy Hly) as [A1' A2'].
      destruct (tr_attrs _ _ Ha Hla) as [B1 B2]. split.
      + exists (r x), (r y), (map kvren kvs). split; [exact A1|]. split; [exact A1'|]. split; [exact B1|]. rewrite !map_map. apply map_ext. intros [k v]. reflexivity.
      + apply Forall_forall. intros o Ho. apply in_map_iff in Ho as ([k v] & <- & Hin). rewrite Forall_forall in B2. cbn [mk aall fst snd]. split; [exact A2|]. split; [exact A2'|apply (B2 _ Hin)].
  Qed.
  Lemma tr_print st : print_ok call rhoA st -> lsall ea0 okfn D (Lk m) st -> print_ok call rhoB (lsren r rlk st).
  Proof.
    destruct st as [n attrs dbg|a b ea dbg|a b attrs dbg|args dbg]; cbn [print_ok lsall lsren]; try contradiction.
    intros H Hl. apply Forall_forall. intros o Ho. apply in_map_iff in Ho as (o0 & <- & Hin). rewrite Forall_forall in H, Hl. specialize (H _ Hin). specialize (Hl _ Hin).
    destruct o0 as [lv|]; cbn [option_map]; [|exact I]. destruct H as [v Hv]. exists (vren r v). apply (tr_den_full _ _ Hv Hl).
  Qed.
End Transport.

Section Valid.
  Variable call : ident -> graph -> list value -> res (value * graph).
  Variable okfn : ident -> Prop.
  Hypothesis Hcall : forall f, okfn f -> call_ok call f.
  (* the values of a block's thunks only mention the block's graph ids *)
  Lemma seg_valid (D : N -> Prop) rho k (T : list thunk) :
    (forall j th, nth_error T j = Some th -> thunk_ok call rho (k + j) th /\ thall okfn D (Lk k j) th) ->
    forall j w, (j < length T)%nat -> nth_error rho (k + j) = Some w -> vall D w.
  Proof.
    intros HT. induction j as [j IH] using lt_wf_ind. intros w Hj Hw.
    destruct (nth_error T j) as [th|] eqn:Eth; [|apply nth_error_None in Eth; lia]. destruct (HT j th Eth) as [(v & Hv & Hs) Hth].
    assert (v = w) by congruence. subst v. unfold thall in Hth. destruct (th_state th) as [lv| |v']; cbn [tsall] in Hth.
    - refine (proj2 (den_ren call okfn Hcall D (Lk k j) (fun i => i) (fun l => l) (firstn (k + j) rho) (firstn (k + j) rho) (fun i j0 _ _ H => H) _ lv w Hs Hth)).
      intros loc x [H1 H2] Hn. rewrite nth_error_firstn' in Hn by lia. split; [|rewrite vren_idf, nth_error_firstn' by lia; exact Hn].
      replace (N.to_nat loc) with (k + (N.to_nat loc - k))%nat in Hn by lia. apply (IH (N.to_nat loc - k)%nat ltac:(lia) x ltac:(lia) Hn).
    - contradiction.
    - subst v'. exact Hth.
  Qed.
End Valid.

(* ---------------- the evaluation phase of a state with a denotational summary converges ---------------- *)
Section Converge.
  Variables (t : tree) (fl : file) (call : ident -> graph -> list value -> res (value * graph)).
  Lemma evaluate_phase_denotes rho eops aopss g1 g2 s p :
    denotes call s rho eops aopss -> l_scoped s = [] -> apply_edges eops (l_graph s) = Some g1 -> apply_attrs (concat aopss) g1 = Some g2 -> nob p ->
    convP (fun F => evaluate_phase t fl call F s p) (fun _ s' p' => l_graph s' = g2 /\ nob p').
  Proof.
    intros (Hst & He & Ha & Hpr) Hsc Hg1 Hg2 Hb. unfold evaluate_phase. apply convP_get.
    assert (HV : vinv call rho (l_graph s) s) by (apply vinv_intro; first [assumption|reflexivity]).
    apply convP_bind. eapply convP_mono; [apply (eval_edge_stmts_conv t fl call rho _ _ _ _ s p He HV Hg1 Hb)|]. intros _ ls1 pl1 [Hb1 HV1].
    apply convP_bind. eapply convP_mono; [apply (eval_attr_stmts_conv t fl call rho _ _ _ _ ls1 pl1 Ha HV1 Hg2 Hb1)|]. intros _ ls2 pl2 [Hb2 HV2].
    apply convP_bind. eapply convP_mono; [apply (eval_print_stmts_conv t fl call rho _ _ ls2 pl2 Hpr HV2 Hb2)|]. intros _ ls3 pl3 [Hb3 HV3].
    apply convP_bind. eapply convP_mono; [apply (eval_store_all_conv t fl call rho _ ls3 pl3 HV3 Hb3)|]. intros _ ls4 pl4 [Hb4 (Hg4 & Hst4 & Hsc4)].
    unfold scoped_evaluate_all. apply convP_get. rewrite Hsc4. cbn [sort_alist sort_by fold_right map iterM]. apply convP_ret. split; assumption.
  Qed.
End Converge.

(* ================= one block: canonical numbering <-> its place in a state ================= *)
Record cX := { x_r : list value; x_e : list (N * N); x_a : list (list aop) }.

Lemma shg_mono n0 g n : n0 <= g -> forall i j, dom n0 n0 n i -> dom n0 n0 n j -> i < j -> shg n0 g i < shg n0 g j.
Proof. unfold dom, shg. intros Hg i j Hi Hj Hlt. destruct (N.ltb_spec i n0), (N.ltb_spec j n0); lia. Qed.
Lemma shg_back_mono n0 g n : n0 <= g -> forall i j, dom n0 g n i -> dom n0 g n j -> i < j -> shg g n0 i < shg g n0 j.
Proof. unfold dom, shg. intros Hg i j Hi Hj Hlt. destruct (N.ltb_spec i g), (N.ltb_spec j g); lia. Qed.
Lemma shg_back n0 g n i : n0 <= g -> dom n0 n0 n i -> shg g n0 (shg n0 g i) = i.
Proof. unfold dom, shg. intros Hg Hi. destruct (N.ltb_spec i n0) as [H|H]; [destruct (N.ltb_spec i g); lia|]. destruct (N.ltb_spec (i - n0 + g) g); lia. Qed.
Lemma shg_forth n0 g n i : n0 <= g -> dom n0 g n i -> shg n0 g (shg g n0 i) = i.
Proof. unfold dom, shg. intros Hg Hi. destruct (N.ltb_spec i g) as [H|H]; [destruct (N.ltb_spec i n0); lia|]. destruct (N.ltb_spec (i - g + n0) n0); lia. Qed.
Lemma shg_dom_back n0 g n i : n0 <= g -> dom n0 g n i -> dom n0 n0 n (shg g n0 i).
Proof. unfold dom, shg. intros Hg H. destruct (N.ltb_spec i g); lia. Qed.

Definition seg (rho : list value) (k : nat) (l : list value) : Prop := forall j w, nth_error l j = Some w -> nth_error rho (k + j) = Some w.
Lemma seg_app rho k a b : seg rho k (a ++ b) -> seg rho k a /\ seg rho (k + length a) b.
Proof.
  intros H. split.
  - intros j w E. apply H. rewrite nth_error_app1; [exact E|]. apply nth_error_Some. congruence.
  - intros j w E. replace (k + length a + j)%nat with (k + (length a + j))%nat by lia. apply H. rewrite nth_error_app2 by lia. rewrite <- E. f_equal. lia.
Qed.

Section Blocks3.
  Variable call : ident -> graph -> list value -> res (value * graph).
  Variable okfn : ident -> Prop.
  Hypothesis Hcall : forall f, okfn f -> call_ok call f.
  Variable n0 : N.

  Definition cden (d : delta) (X : cX) : Prop :=
    store_wf call (x_r X) (d_thunks d) /\ Forall2 (den_edge call (x_r X)) (d_edges d) (x_e X) /\
    Forall2 (den_astmt call (x_r X)) (d_attrs d) (x_a X) /\ Forall (print_ok call (x_r X)) (d_prints d).
  Definition oseg_of (d : delta) (X : cX) : oseg := {| o_nodes := d_nodes d; o_e := x_e X; o_a := concat (x_a X) |}.
  Notation dok := (delta_ok ea0 okfn n0 n0 0).
  Notation nn d := (N.of_nat (length (d_nodes d))).

  (* the pieces of delta_ok in the shape used by the transport lemmas *)
  Lemma dok_thunks d : dok d -> forall j th, nth_error (d_thunks d) j = Some th -> thall okfn (dom n0 n0 (nn d)) (Lk 0 j) th.
  Proof. intros (_ & H & _) j th E. eapply thall_impl; [| |apply (H j th E)]; [intros i Hi; exact Hi|unfold Lk; intros l; cbn; lia]. Qed.
  Lemma dok_stmts d : dok d ->
    Forall (lsall ea0 okfn (dom n0 n0 (nn d)) (Lk 0 (length (d_thunks d)))) (d_edges d) /\
    Forall (lsall ea0 okfn (dom n0 n0 (nn d)) (Lk 0 (length (d_thunks d)))) (d_attrs d) /\
    Forall (lsall ea0 okfn (dom n0 n0 (nn d)) (Lk 0 (length (d_thunks d)))) (d_prints d).
  Proof.
    intros (_ & _ & He & Ha & Hp).
    assert (G : forall (K : lstmt -> Prop) l, Forall (fun st => K st /\ lsall ea0 okfn (fun i => i < n0 \/ n0 <= i /\ i < n0 + nn d) (fun l => 0 <= l /\ l < 0 + N.of_nat (length (d_thunks d))) st) l ->
                Forall (lsall ea0 okfn (dom n0 n0 (nn d)) (Lk 0 (length (d_thunks d)))) l).
    { intros K l H. eapply Forall_impl; [|exact H]. intros st [_ Hst]. eapply lsall_impl; [| |exact Hst]; [intros i Hi; exact Hi|unfold Lk; intros x; cbn; lia]. }
    split; [eapply G; exact He|]. split; [eapply G; exact Ha|eapply G; exact Hp].
  Qed.

  Section Place.
    Variables (d : delta) (X : cX) (g : N) (k : nat) (rhoB : list value).
    Hypothesis Hd : dok d.
    Hypothesis HX : cden d X.
    Hypothesis Hg : n0 <= g.
    Hypothesis Hrho : seg rhoB k (map (vren (shg n0 g)) (x_r X)).
    Let Dp := dren (shg n0 g) (shl 0 (N.of_nat k)) d.

    Lemma place_seg : forall j w, (j < length (d_thunks d))%nat -> nth_error (x_r X) (0 + j) = Some w ->
      vall (dom n0 n0 (nn d)) w /\ nth_error rhoB (k + j) = Some (vren (shg n0 g) w).
    Proof.
      intros j w Hj Hw. destruct HX as ([Hlen Hst] & _). split.
      - refine (seg_valid call okfn Hcall (dom n0 n0 (nn d)) (x_r X) 0 (d_thunks d) _ j w Hj Hw).
        intros j0 th E. cbn [plus]. split; [apply Hst; [apply nth_error_Some; congruence|exact E]|apply dok_thunks; assumption].
      - apply Hrho. cbn [plus] in Hw. rewrite nth_error_map, Hw. reflexivity.
    Qed.
    Lemma rlk_shl l : rlk 0 k l = shl 0 (N.of_nat k) l. Proof. unfold rlk, shl. cbn. reflexivity. Qed.
    Lemma thren_rlk th : thren (shg n0 g) (rlk 0 k) th = thren (shg n0 g) (shl 0 (N.of_nat k)) th.
    Proof. reflexivity. Qed.
    Lemma lsren_rlk st : lsren (shg n0 g) (rlk 0 k) st = lsren (shg n0 g) (shl 0 (N.of_nat k)) st.
    Proof. reflexivity. Qed.

    Lemma place_thunks : forall j th', nth_error (d_thunks Dp) j = Some th' -> thunk_ok call rhoB (k + j) th'.
    Proof.
      intros j th' E. unfold Dp, dren in E. cbn [d_thunks] in E. rewrite nth_error_map in E. destruct (nth_error (d_thunks d) j) as [th|] eqn:Eth; [|discriminate].
      cbn in E. inversion E; subst th'. rewrite <- thren_rlk. destruct HX as ([Hlen Hst] & _).
      assert (Hj : (j < length (d_thunks d))%nat) by (apply nth_error_Some; congruence).
      apply (tr_thunk call okfn Hcall (dom n0 n0 (nn d)) (shg n0 g) (x_r X) rhoB 0 k (length (d_thunks d)) (shg_mono n0 g (nn d) Hg) place_seg j th Hj).
      - apply Hst; assumption.
      - apply dok_thunks; assumption.
    Qed.
    Lemma place_edges : Forall2 (den_edge call rhoB) (d_edges Dp) (map (ere (shg n0 g)) (x_e X)) /\ Forall (eall (dom n0 n0 (nn d))) (x_e X).
    Proof.
      destruct HX as (_ & He & _). destruct (dok_stmts d Hd) as (Hle & _). unfold Dp, dren. cbn [d_edges]. clear -He Hle Hcall Hg Hrho Hd HX.
      induction He as [|st e sts es Hste _ IH]; cbn [map]; [split; constructor|]. inversion Hle as [|? ? Hst Hrest]; subst.
      destruct (tr_edge call okfn Hcall (dom n0 n0 (nn d)) (shg n0 g) (x_r X) rhoB 0 k (length (d_thunks d)) (shg_mono n0 g (nn d) Hg) place_seg st e Hste Hst) as [A1 A2].
      destruct (IH Hrest) as [B1 B2]. split; constructor; assumption.
    Qed.
    Lemma place_attrs : Forall2 (den_astmt call rhoB) (d_attrs Dp) (map (map (are (shg n0 g))) (x_a X)) /\ Forall (Forall (aall (dom n0 n0 (nn d)))) (x_a X).
    Proof.
      destruct HX as (_ & _ & Ha & _). destruct (dok_stmts d Hd) as (_ & Hla & _). unfold Dp, dren. cbn [d_attrs]. clear -Ha Hla Hcall Hg Hrho Hd HX.
      induction Ha as [|st e sts es Hste _ IH]; cbn [map]; [split; constructor|]. inversion Hla as [|? ? Hst Hrest]; subst.
      destruct (tr_astmt call okfn Hcall (dom n0 n0 (nn d)) (shg n0 g) (x_r X) rhoB 0 k (length (d_thunks d)) (shg_mono n0 g (nn d) Hg) place_seg st e Hste Hst) as [A1 A2].
      destruct (IH Hrest) as [B1 B2]. split; constructor; assumption.
    Qed.
    Lemma place_prints : Forall (print_ok call rhoB) (d_prints Dp).
    Proof.
      destruct HX as (_ & _ & _ & Hp). destruct (dok_stmts d Hd) as (_ & _ & Hlp). unfold Dp, dren. cbn [d_prints]. clear -Hp Hlp Hcall Hg Hrho Hd HX.
      induction Hp as [|st sts Hst0 _ IH]; cbn [map]; [constructor|]. inversion Hlp as [|? ? Hst Hrest]; subst. constructor; [|apply IH, Hrest].
      apply (tr_print call okfn Hcall (dom n0 n0 (nn d)) (shg n0 g) (x_r X) rhoB 0 k (length (d_thunks d)) (shg_mono n0 g (nn d) Hg) place_seg st Hst0 Hst).
    Qed.
    Lemma place_oseg : oseg_ok n0 (oseg_of d X).
    Proof.
      unfold oseg_ok, oseg_of, o_n. cbn [o_nodes o_e o_a]. split; [apply place_edges|]. destruct place_attrs as [_ H]. clear -H.
      induction H as [|l ls Hl _ IH]; cbn [concat]; [constructor|]. apply Forall_app. split; assumption.
    Qed.
  End Place.
End Blocks3.

Lemma nth_error_skipn' {A} (l : list A) k j : nth_error (skipn k l) j = nth_error l (k + j).
Proof. revert l. induction k as [|k IH]; intros [|x l]; cbn [skipn plus nth_error]; try reflexivity; [destruct j; reflexivity|apply IH]. Qed.

Section Blocks4.
  Variable call : ident -> graph -> list value -> res (value * graph).
  Variable okfn : ident -> Prop.
  Hypothesis Hcall : forall f, okfn f -> call_ok call f.
  Variable n0 : N.
  Notation dok := (delta_ok ea0 okfn n0 n0 0).
  Notation nn d := (N.of_nat (length (d_nodes d))).
  Notation cden := (cden call).

  Section Unplace.
    Variables (d : delta) (g : N) (k : nat) (rhoA : list value) (eA : list (N * N)) (aA : list (list aop)).
    Hypothesis Hd : dok d.
    Hypothesis Hg : n0 <= g.
    Let Dp := dren (shg n0 g) (shl 0 (N.of_nat k)) d.
    Hypothesis HTa : forall j th', nth_error (d_thunks Dp) j = Some th' -> thunk_ok call rhoA (k + j) th'.
    Hypothesis HEa : Forall2 (den_edge call rhoA) (d_edges Dp) eA.
    Hypothesis HAa : Forall2 (den_astmt call rhoA) (d_attrs Dp) aA.
    Hypothesis HPa : Forall (print_ok call rhoA) (d_prints Dp).
    Let m := length (d_thunks d).
    Let sb := shg g n0.
    Let sf := shg n0 g.
    Let Dpl := dom n0 g (nn d).
    Let slice := firstn m (skipn k rhoA).
    Definition unR : list value := map (vren sb) slice.
    Definition unX : cX := {| x_r := unR; x_e := map (ere sb) eA; x_a := map (map (are sb)) aA |}.

    Lemma placed_thall j th : nth_error (d_thunks d) j = Some th -> thall okfn Dpl (Lk k j) (thren sf (shl 0 (N.of_nat k)) th).
    Proof.
      intros E. apply (thall_thren okfn (dom n0 n0 (nn d)) Dpl (Lk 0 j) (Lk k j)); [intros i; apply shg_dom, Hg|unfold Lk, shl; intros l; cbn; lia|].
      apply (dok_thunks okfn n0 d Hd j th E).
    Qed.
    Lemma placed_lsall st : lsall ea0 okfn (dom n0 n0 (nn d)) (Lk 0 m) st -> lsall ea0 okfn Dpl (Lk k m) (lsren sf (shl 0 (N.of_nat k)) st).
    Proof. apply lsall_lsren; [intros i; apply shg_dom, Hg|unfold Lk, shl; intros l; cbn; lia]. Qed.

    Lemma slice_nth j : (j < m)%nat -> nth_error slice j = nth_error rhoA (k + j).
    Proof. intros Hj. unfold slice. rewrite nth_error_firstn' by exact Hj. apply nth_error_skipn'. Qed.
    Lemma big_len j : (j < m)%nat -> exists w, nth_error rhoA (k + j) = Some w.
    Proof.
      intros Hj. destruct (nth_error (d_thunks d) j) as [th|] eqn:E; [|apply nth_error_None in E; unfold m in Hj; lia].
      destruct (HTa j (thren sf (shl 0 (N.of_nat k)) th)) as (v & Hv & _); [unfold Dp, dren; cbn [d_thunks]; rewrite nth_error_map, E; reflexivity|]. eauto.
    Qed.
    Lemma slice_len : length slice = m.
    Proof.
      unfold slice. rewrite firstn_length, skipn_length. destruct m as [|m'] eqn:Em; [reflexivity|].
      destruct (big_len m' ltac:(lia)) as (w & Hw). assert (k + m' < length rhoA)%nat by (apply nth_error_Some; congruence). lia.
    Qed.

    Lemma unplace_seg : forall j w, (j < m)%nat -> nth_error rhoA (k + j) = Some w -> vall Dpl w /\ nth_error unR (0 + j) = Some (vren sb w).
    Proof.
      intros j w Hj Hw. split.
      - refine (seg_valid call okfn Hcall Dpl rhoA k (d_thunks Dp) _ j w _ Hw).
        + intros j0 th' E. split; [apply HTa, E|]. unfold Dp, dren in E. cbn [d_thunks] in E. rewrite nth_error_map in E.
          destruct (nth_error (d_thunks d) j0) as [th|] eqn:Eth; [|discriminate]. cbn in E. inversion E; subst th'. apply placed_thall, Eth.
        + unfold Dp, dren. cbn [d_thunks]. rewrite map_length. exact Hj.
      - cbn [plus]. unfold unR. rewrite nth_error_map, (slice_nth j Hj), Hw. reflexivity.
    Qed.

    Lemma rlk_back l : Lk 0 m l -> rlk k 0 (shl 0 (N.of_nat k) l) = l.
    Proof. unfold Lk, rlk, shl. cbn. lia. Qed.

    Lemma unplace_cden : cden d unX.
    Proof.
      destruct (dok_stmts okfn n0 d Hd) as (Hle & Hla & Hlp). split; [|split; [|split]].
      - split; [cbn [unX x_r]; unfold unR; rewrite map_length; apply slice_len|]. intros i th Hi E. cbn [unX x_r].
        pose proof (tr_thunk call okfn Hcall Dpl sb rhoA unR k 0 m (shg_back_mono n0 g (nn d) Hg) unplace_seg i (thren sf (shl 0 (N.of_nat k)) th) Hi) as H.
        cbn [plus] in H. rewrite (thren_back okfn (dom n0 n0 (nn d)) (Lk 0 i) sf (shl 0 (N.of_nat k)) sb (rlk k 0)) in H.
        + apply H; [apply HTa; unfold Dp, dren; cbn [d_thunks]; rewrite nth_error_map, E; reflexivity|apply placed_thall, E].
        + intros x Hx. apply (shg_back n0 g (nn d) x Hg Hx).
        + intros l Hl. unfold Lk, rlk, shl in *. cbn in *. lia.
        + apply (dok_thunks okfn n0 d Hd i th E).
      - unfold Dp, dren in HEa. cbn [d_edges] in HEa. cbn [unX x_e x_r]. revert eA HEa. clear HAa HPa. induction Hle as [|st sts Hst _ IH]; intros es HF; inversion HF as [|? e ? es' Hse HF']; subst; cbn [map]; constructor; [|apply IH, HF'].
        destruct (tr_edge call okfn Hcall Dpl sb rhoA unR k 0 m (shg_back_mono n0 g (nn d) Hg) unplace_seg _ e Hse (placed_lsall st Hst)) as [H _].
        rewrite (lsren_back ea0 okfn (dom n0 n0 (nn d)) (Lk 0 m) sf (shl 0 (N.of_nat k)) sb (rlk k 0)) in H; [exact H|intros x Hx; apply (shg_back n0 g (nn d) x Hg Hx)|apply rlk_back|exact Hst].
      - unfold Dp, dren in HAa. cbn [d_attrs] in HAa. cbn [unX x_a x_r]. revert aA HAa. clear HEa HPa. induction Hla as [|st sts Hst _ IH]; intros es HF; inversion HF as [|? e ? es' Hse HF']; subst; cbn [map]; constructor; [|apply IH, HF'].
        destruct (tr_astmt call okfn Hcall Dpl sb rhoA unR k 0 m (shg_back_mono n0 g (nn d) Hg) unplace_seg _ e Hse (placed_lsall st Hst)) as [H _].
        rewrite (lsren_back ea0 okfn (dom n0 n0 (nn d)) (Lk 0 m) sf (shl 0 (N.of_nat k)) sb (rlk k 0)) in H; [exact H|intros x Hx; apply (shg_back n0 g (nn d) x Hg Hx)|apply rlk_back|exact Hst].
      - unfold Dp, dren in HPa. cbn [d_prints] in HPa. clear HEa HAa. induction Hlp as [|st sts Hst _ IH]; cbn [map] in HPa; [constructor|]. inversion HPa as [|? ? Hp0 Hp']; subst. constructor; [|apply IH, Hp'].
        pose proof (tr_print call okfn Hcall Dpl sb rhoA unR k 0 m (shg_back_mono n0 g (nn d) Hg) unplace_seg _ Hp0 (placed_lsall st Hst)) as H.
        rewrite (lsren_back ea0 okfn (dom n0 n0 (nn d)) (Lk 0 m) sf (shl 0 (N.of_nat k)) sb (rlk k 0)) in H; [exact H|intros x Hx; apply (shg_back n0 g (nn d) x Hg Hx)|apply rlk_back|exact Hst].
    Qed.

    (* placing the canonical data again gives back what was there *)
    Lemma unplace_rho : seg rhoA k (map (vren sf) unR).
    Proof.
      intros j w E. cbn [unX x_r] in E. unfold unR in E. rewrite map_map, nth_error_map in E. assert (Hj : (j < m)%nat).
      { rewrite <- slice_len. apply nth_error_Some. destruct (nth_error slice j); [discriminate|discriminate]. }
      rewrite (slice_nth j Hj) in E. destruct (nth_error rhoA (k + j)) as [w0|] eqn:Ew; [|discriminate]. cbn in E. inversion E; subst w.
      destruct (unplace_seg j w0 Hj Ew) as [Hv _]. f_equal. symmetry. rewrite vren_comp. apply (vren_fix Dpl); [|exact Hv]. intros i Hi. apply (shg_forth n0 g (nn d) i Hg Hi).
    Qed.
    Lemma unplace_edges : eA = map (ere sf) (x_e unX).
    Proof.
      destruct (dok_stmts okfn n0 d Hd) as (Hle & _). unfold Dp, dren in HEa. cbn [d_edges] in HEa. cbn [unX x_e]. revert eA HEa. clear HAa HPa.
      induction Hle as [|st sts Hst _ IH]; intros es HF; inversion HF as [|? e ? es' Hse HF']; subst; cbn [map]; [reflexivity|]. f_equal; [|apply IH, HF'].
      destruct (tr_edge call okfn Hcall Dpl sb rhoA unR k 0 m (shg_back_mono n0 g (nn d) Hg) unplace_seg _ e Hse (placed_lsall st Hst)) as [_ He].
      rewrite ere_comp. symmetry. rewrite (ere_ext Dpl _ (fun i => i) e He); [apply ere_id|]. intros i Hi. apply (shg_forth n0 g (nn d) i Hg Hi).
    Qed.
    Lemma unplace_attrs : aA = map (map (are sf)) (x_a unX).
    Proof.
      destruct (dok_stmts okfn n0 d Hd) as (_ & Hla & _). unfold Dp, dren in HAa. cbn [d_attrs] in HAa. cbn [unX x_a]. revert aA HAa. clear HEa HPa.
      induction Hla as [|st sts Hst _ IH]; intros es HF; inversion HF as [|? e ? es' Hse HF']; subst; cbn [map]; [reflexivity|]. f_equal; [|apply IH, HF'].
      destruct (tr_astmt call okfn Hcall Dpl sb rhoA unR k 0 m (shg_back_mono n0 g (nn d) Hg) unplace_seg _ e Hse (placed_lsall st Hst)) as [_ He].
      rewrite map_map. rewrite <- (map_id e) at 1. apply map_ext_in. intros o Ho. rewrite are_comp. symmetry. rewrite Forall_forall in He.
      rewrite (are_ext Dpl _ (fun i => i) o (He o Ho)); [apply are_id|]. intros i Hi. apply (shg_forth n0 g (nn d) i Hg Hi).
    Qed.
  End Unplace.
End Blocks4.

(* ================= lists of blocks ================= *)
Lemma Forall2_perm_pairs {A B} (R : A -> B -> Prop) l l' : Permutation l l' -> forall m, Forall2 R l m ->
  exists m', Forall2 R l' m' /\ Permutation (combine l m) (combine l' m').
Proof.
  induction 1 as [|x l l' _ IH|x y l|l1 l2 l3 _ IH1 _ IH2]; intros m H.
  - inversion H; subst. exists []. split; constructor.
  - inversion H as [|? b ? m0 Hxb Hl]; subst. destruct (IH m0 Hl) as (m' & F & P). exists (b :: m'). split; [constructor; assumption|cbn [combine]; constructor; exact P].
  - inversion H as [|? b ? m0 Hyb Hl]; subst. inversion Hl as [|? c ? m1 Hxc Hl']; subst. exists (c :: b :: m1). split; [repeat constructor; assumption|cbn [combine]; apply perm_swap].
  - destruct (IH1 m H) as (m2 & F2 & P2). destruct (IH2 m2 F2) as (m3 & F3 & P3). exists m3. split; [exact F3|eapply perm_trans; eauto].
Qed.
Lemma seg_app_intro rho k a b : seg rho k a -> seg rho (k + length a) b -> seg rho k (a ++ b).
Proof.
  intros Ha Hb j w E. destruct (Nat.lt_ge_cases j (length a)) as [Hlt|Hge].
  - rewrite nth_error_app1 in E by exact Hlt. apply Ha, E.
  - rewrite nth_error_app2 in E by exact Hge. replace (k + j)%nat with (k + length a + (j - length a))%nat by lia. apply Hb, E.
Qed.

Section Lists.
  Variable call : ident -> graph -> list value -> res (value * graph).
  Variable okfn : ident -> Prop.
  Hypothesis Hcall : forall f, okfn f -> call_ok call f.
  Variable n0 : N.
  Notation dok := (delta_ok ea0 okfn n0 n0 0).
  Notation nn d := (N.of_nat (length (d_nodes d))).
  Notation cden := (cden call).

  Fixpoint rlay (g : N) (ds : list delta) (Xs : list cX) : list value :=
    match ds, Xs with d :: ds', X :: Xs' => map (vren (shg n0 g)) (x_r X) ++ rlay (g + nn d) ds' Xs' | _, _ => [] end.
  Fixpoint alay (g : N) (ds : list delta) (Xs : list cX) : list (list aop) :=
    match ds, Xs with d :: ds', X :: Xs' => map (map (are (shg n0 g))) (x_a X) ++ alay (g + nn d) ds' Xs' | _, _ => [] end.
  Definition osegs (ds : list delta) (Xs : list cX) : list oseg := map (fun dx => oseg_of (fst dx) (snd dx)) (combine ds Xs).

  Lemma osegs_cons d ds X Xs : osegs (d :: ds) (X :: Xs) = oseg_of d X :: osegs ds Xs. Proof. reflexivity. Qed.
  Lemma alay_layA : forall ds Xs g, concat (alay g ds Xs) = layA n0 g (osegs ds Xs).
  Proof.
    induction ds as [|d ds IH]; intros [|X Xs] g; try reflexivity. rewrite osegs_cons. cbn [alay layA]. rewrite concat_app, IH. f_equal.
    unfold oseg_of. cbn [o_a]. rewrite concat_map. reflexivity.
  Qed.

  Lemma dcat_cons x l : dcat (x :: l) = dapp x (dcat l). Proof. reflexivity. Qed.

  Lemma compose_list : forall ds Xs, Forall2 cden ds Xs -> Forall dok ds -> forall g k rho, n0 <= g -> seg rho k (rlay g ds Xs) ->
    (forall j th, nth_error (d_thunks (dcat (lay n0 0 g (N.of_nat k) ds))) j = Some th -> thunk_ok call rho (k + j) th) /\
    Forall2 (den_edge call rho) (d_edges (dcat (lay n0 0 g (N.of_nat k) ds))) (layE n0 g (osegs ds Xs)) /\
    Forall2 (den_astmt call rho) (d_attrs (dcat (lay n0 0 g (N.of_nat k) ds))) (alay g ds Xs) /\
    Forall (print_ok call rho) (d_prints (dcat (lay n0 0 g (N.of_nat k) ds))) /\
    Forall (oseg_ok n0) (osegs ds Xs).
  Proof.
    induction 1 as [|d X ds Xs HX HF IH]; intros Hok g k rho Hg Hs.
    - cbn [lay dcat fold_right dnil d_thunks d_edges d_attrs d_prints osegs combine map layE alay]. split; [intros j th E; destruct j; discriminate|]. repeat split; constructor.
    - inversion Hok as [|? ? Hd Hrest]; subst. cbn [rlay] in Hs. apply seg_app in Hs. destruct Hs as [Hs1 Hs2]. rewrite map_length in Hs2.
      assert (Hlen : length (x_r X) = length (d_thunks d)) by apply HX. rewrite Hlen in Hs2.
      cbn [lay]. rewrite dcat_cons. cbn [dapp d_thunks d_edges d_attrs d_prints]. rewrite <- Nat2N.inj_add.
      destruct (IH Hrest (g + nn d) (k + length (d_thunks d))%nat rho ltac:(lia) Hs2) as (T2 & E2 & A2 & P2 & O2).
      pose proof (place_thunks call okfn Hcall n0 d X g k rho Hd HX Hg Hs1) as T1.
      destruct (place_edges call okfn Hcall n0 d X g k rho Hd HX Hg Hs1) as [E1 _].
      destruct (place_attrs call okfn Hcall n0 d X g k rho Hd HX Hg Hs1) as [A1 _].
      pose proof (place_prints call okfn Hcall n0 d X g k rho Hd HX Hg Hs1) as P1.
      pose proof (place_oseg call okfn Hcall n0 d X g k rho Hd HX Hg Hs1) as O1.
      rewrite osegs_cons. cbn [layE alay]. split; [|split; [|split; [|split]]].
      + intros j th E. assert (Hm : length (d_thunks (dren (shg n0 g) (shl 0 (N.of_nat k)) d)) = length (d_thunks d)) by (cbn [dren d_thunks]; apply map_length).
        destruct (Nat.lt_ge_cases j (length (d_thunks d))) as [Hlt|Hge].
        * rewrite nth_error_app1 in E by lia. apply T1, E.
        * rewrite nth_error_app2 in E by lia. rewrite Hm in E. replace (k + j)%nat with (k + length (d_thunks d) + (j - length (d_thunks d)))%nat by lia. apply T2, E.
      + apply Forall2_app; [exact E1|exact E2].
      + apply Forall2_app; [exact A1|exact A2].
      + apply Forall_app. split; assumption.
      + constructor; assumption.
  Qed.

  Lemma decompose_list : forall ds, Forall dok ds -> forall g k rho eA aA, n0 <= g ->
    (forall j th, nth_error (d_thunks (dcat (lay n0 0 g (N.of_nat k) ds))) j = Some th -> thunk_ok call rho (k + j) th) ->
    Forall2 (den_edge call rho) (d_edges (dcat (lay n0 0 g (N.of_nat k) ds))) eA ->
    Forall2 (den_astmt call rho) (d_attrs (dcat (lay n0 0 g (N.of_nat k) ds))) aA ->
    Forall (print_ok call rho) (d_prints (dcat (lay n0 0 g (N.of_nat k) ds))) ->
    exists Xs, Forall2 cden ds Xs /\ seg rho k (rlay g ds Xs) /\ eA = layE n0 g (osegs ds Xs) /\ aA = alay g ds Xs.
  Proof.
    induction ds as [|d ds IH]; intros Hok g k rho eA aA Hg HT HE HA HP.
    - cbn [lay dcat fold_right dnil d_edges d_attrs] in HE, HA. inversion HE; inversion HA; subst. exists []. split; [constructor|]. split; [intros j w E; destruct j; discriminate|]. split; reflexivity.
    - inversion Hok as [|? ? Hd Hrest]; subst. cbn [lay] in HT, HE, HA, HP. rewrite dcat_cons in HT, HE, HA, HP. cbn [dapp d_thunks d_edges d_attrs d_prints] in HT, HE, HA, HP.
      rewrite <- Nat2N.inj_add in HT, HE, HA, HP.
      apply Forall2_app_inv_l in HE. destruct HE as (e1 & e2 & HE1 & HE2 & ->). apply Forall2_app_inv_l in HA. destruct HA as (a1 & a2 & HA1 & HA2 & ->).
      apply Forall_app in HP. destruct HP as [HP1 HP2].
      assert (Hm : length (d_thunks (dren (shg n0 g) (shl 0 (N.of_nat k)) d)) = length (d_thunks d)) by (cbn [dren d_thunks]; apply map_length).
      assert (HT1 : forall j th', nth_error (d_thunks (dren (shg n0 g) (shl 0 (N.of_nat k)) d)) j = Some th' -> thunk_ok call rho (k + j) th').
      { intros j th' E. apply HT. rewrite nth_error_app1; [exact E|]. apply nth_error_Some. congruence. }
      assert (HT2 : forall j th, nth_error (d_thunks (dcat (lay n0 0 (g + nn d) (N.of_nat (k + length (d_thunks d))) ds))) j = Some th -> thunk_ok call rho (k + length (d_thunks d) + j) th).
      { intros j th E. replace (k + length (d_thunks d) + j)%nat with (k + (length (d_thunks d) + j))%nat by lia. apply HT. rewrite nth_error_app2 by lia. rewrite Hm. rewrite <- E. f_equal. lia. }
      destruct (IH Hrest (g + nn d) (k + length (d_thunks d))%nat rho e2 a2 ltac:(lia) HT2 HE2 HA2 HP2) as (Xs & HF & Hs2 & -> & ->).
      exists (unX n0 d g k rho e1 a1 :: Xs).
      pose proof (unplace_cden call okfn Hcall n0 d g k rho e1 a1 Hd Hg HT1 HE1 HA1 HP1) as HX.
      split; [constructor; [exact HX|exact HF]|]. split; [|split].
      + cbn [rlay]. apply seg_app_intro; [apply (unplace_rho call okfn Hcall n0 d g k rho Hd Hg HT1)|].
        rewrite map_length. replace (length (x_r (unX n0 d g k rho e1 a1))) with (length (d_thunks d)) by (symmetry; apply HX). exact Hs2.
      + rewrite osegs_cons. cbn [layE]. f_equal. apply (unplace_edges call okfn Hcall n0 d g k rho e1 a1 Hd Hg HT1 HE1).
      + cbn [alay]. f_equal. apply (unplace_attrs call okfn Hcall n0 d g k rho e1 a1 Hd Hg HT1 HA1).
  Qed.

  Lemma rlay_length : forall ds Xs, Forall2 cden ds Xs -> forall g, length (rlay g ds Xs) = length (d_thunks (dcat (lay n0 0 g 0 ds))).
  Proof.
    assert (G : forall ds Xs, Forall2 cden ds Xs -> forall g k, length (rlay g ds Xs) = length (d_thunks (dcat (lay n0 0 g k ds)))).
    { induction 1 as [|d X ds Xs HX _ IH]; intros g k; [reflexivity|]. cbn [rlay lay]. rewrite dcat_cons. cbn [dapp d_thunks dren]. rewrite !app_length, !map_length, (IH (g + nn d) (k + N.of_nat (length (d_thunks d)))).
      f_equal. apply HX. }
    intros ds Xs H g. apply G, H.
  Qed.

  (* validity of the laid-out state: acyclic store, statements sorted by kind, in the fragment *)
  Lemma lay_valid : forall ds, Forall dok ds -> forall g k, n0 <= g ->
    (forall j th, nth_error (d_thunks (dcat (lay n0 0 g (N.of_nat k) ds))) j = Some th -> thall okfn top (fun l => l < N.of_nat (k + j)) th) /\
    (forall M, (k + length (d_thunks (dcat (lay n0 0 g (N.of_nat k) ds))) <= M)%nat ->
       Forall (fun st => is_estmt st /\ lsall ea0 okfn top (fun l => l < N.of_nat M) st) (d_edges (dcat (lay n0 0 g (N.of_nat k) ds))) /\
       Forall (fun st => is_astmt st /\ lsall ea0 okfn top (fun l => l < N.of_nat M) st) (d_attrs (dcat (lay n0 0 g (N.of_nat k) ds))) /\
       Forall (fun st => is_pstmt st /\ lsall ea0 okfn top (fun l => l < N.of_nat M) st) (d_prints (dcat (lay n0 0 g (N.of_nat k) ds)))) /\
    Forall nplain (d_nodes (dcat (lay n0 0 g (N.of_nat k) ds))).
  Proof.
    induction ds as [|d ds IH]; intros Hok g k Hg.
    - cbn [lay dcat fold_right dnil d_thunks d_edges d_attrs d_prints d_nodes]. split; [intros j th E; destruct j; discriminate|]. split; [intros; repeat split; constructor|constructor].
    - inversion Hok as [|? ? Hd Hrest]; subst. cbn [lay]. rewrite dcat_cons. cbn [dapp d_thunks d_edges d_attrs d_prints d_nodes dren]. rewrite <- Nat2N.inj_add.
      destruct (IH Hrest (g + nn d) (k + length (d_thunks d))%nat ltac:(lia)) as (T2 & S2 & N2). destruct Hd as (Hn & Ht & He & Ha & Hp). split; [|split].
      + intros j th E. destruct (Nat.lt_ge_cases j (length (d_thunks d))) as [Hlt|Hge].
        * rewrite nth_error_app1 in E by (rewrite map_length; exact Hlt). rewrite nth_error_map in E. destruct (nth_error (d_thunks d) j) as [th0|] eqn:E0; [|discriminate]. cbn in E. inversion E; subst th.
          eapply (thall_thren okfn _ top _ (fun l => l < N.of_nat (k + j))); [intros; exact I| |apply (Ht j th0 E0)]. unfold shl. intros l. cbn. lia.
        * rewrite nth_error_app2 in E by (rewrite map_length; exact Hge). rewrite map_length in E. replace (k + j)%nat with (k + length (d_thunks d) + (j - length (d_thunks d)))%nat by lia. apply T2, E.
      + intros M HM. rewrite app_length, map_length in HM. destruct (S2 M ltac:(lia)) as (E2 & A2 & P2).
        assert (G : forall (K : lstmt -> Prop) l, (forall st, K st -> K (lsren (shg n0 g) (shl 0 (N.of_nat k)) st)) ->
                  Forall (fun st => K st /\ lsall ea0 okfn (fun i => i < n0 \/ n0 <= i /\ i < n0 + nn d) (fun l => 0 <= l /\ l < 0 + N.of_nat (length (d_thunks d))) st) l ->
                  Forall (fun st => K st /\ lsall ea0 okfn top (fun l => l < N.of_nat M) st) (map (lsren (shg n0 g) (shl 0 (N.of_nat k))) l)).
        { intros K l HK H. apply Forall_forall. intros y Hy. apply in_map_iff in Hy as (x & <- & Hx). rewrite Forall_forall in H. destruct (H x Hx) as [H1 H2]. split; [apply HK, H1|].
          eapply (lsall_lsren ea0 okfn _ top _ (fun l => l < N.of_nat M)); [intros; exact I| |exact H2]. unfold shl. intros l0. cbn. lia. }
        split; [|split]; (apply Forall_app; split; [|assumption]); apply G; try assumption; intros [] HK; exact HK.
      + apply Forall_app. split; [exact Hn|exact N2].
  Qed.
End Lists.

(* ================= the whole run on a permutation of the blocks ================= *)
Section Final.
  Context {rx : Type}.
  Variables (t : tree) (fl : file) (glob : globals) (regexes : list rx)
            (find : rx -> str -> option (list (option (N * N))))
            (call : ident -> graph -> list value -> res (value * graph)).
  Variable okfn : ident -> Prop.
  Hypothesis Hcall : forall f, okfn f -> call_ok call f.
  Variable g0 : graph.
  Notation n0 := (N.of_nat (length g0)).
  Hypothesis Hglob : forall name v, globals_get glob name = Some v -> vall (fun i => i < n0) v.
  Hypothesis Hcl : gclosed n0 g0.

  Notation step fuel := (bstep t fl config0 glob regexes find call fuel).
  Notation dok := (delta_ok ea0 okfn n0 n0 0).

  Lemma dcat_nodes l : d_nodes (dcat l) = concat (map d_nodes l).
  Proof. induction l as [|x l IH]; [reflexivity|]. rewrite dcat_cons. cbn [dapp d_nodes map concat]. rewrite IH. reflexivity. Qed.
  Lemma lay_nodes gb kb : forall ds g k, map d_nodes (lay gb kb g k ds) = map d_nodes ds.
  Proof. induction ds as [|d ds IH]; intros g k; [reflexivity|]. cbn [lay map dren d_nodes]. rewrite IH. reflexivity. Qed.
  Lemma layN_osegs : forall ds Xs, length ds = length Xs -> layN (osegs ds Xs) = concat (map d_nodes ds).
  Proof.
    unfold layN. induction ds as [|d ds IH]; intros [|X Xs] H; try discriminate; [reflexivity|]. rewrite osegs_cons. cbn [map concat oseg_of o_nodes]. rewrite IH by (cbn in H; lia). reflexivity.
  Qed.
  Lemma total_layN os : N.of_nat (length (layN os)) = total os.
  Proof. unfold layN. induction os as [|o l IH]; [reflexivity|]. cbn [map concat total fold_right]. rewrite app_length. fold (total l). unfold o_n. lia. Qed.

  (* STEP 3: if the run on ms (execution phase with `fuel`, evaluation phase with F1) succeeds, then on every
     permutation ms' the execution phase succeeds with the same fuel, the evaluation phase succeeds from some
     fuel on, and the final graphs are isomorphic under a renumbering that fixes the nodes of g0 *)
  Theorem lazy_perm_eval fuel F1 ms ms' u fin p1 : Permutation ms ms' -> Forall (pm_ok fl okfn) ms ->
    (iterM (step fuel) ms ;;; evaluate_phase t fl call F1) (linit g0) (polls0 None) = Ok (u, fin, p1) ->
    exists r r', (forall i, r' (r i) = i) /\ (forall i, r (r' i) = i) /\ (forall i, i < n0 -> r i = i) /\
      exists F0, forall F, (F0 <= F)%nat -> exists fin' p', (iterM (step fuel) ms' ;;; evaluate_phase t fl call F) (linit g0) (polls0 None) = Ok (tt, fin', p') /\
        graph_iso r (l_graph fin) (l_graph fin').
  Proof.
    intros HP Hok H. unfold bind in H.
    pose proof (exec_phase_perm t fl config0 glob regexes find call ea0 okfn n0 (fun _ => eq_refl) Hcall Hglob (linit g0) (N.le_refl _) eq_refl fuel ms ms' (polls0 None) HP Hok eq_refl) as HX.
    destruct (iterM (step fuel) ms (linit g0) (polls0 None)) as [[[u1 S] pS]|e|x|] eqn:ES; try discriminate.
    destruct HX as (ds & ds' & S' & pS' & HD & HD' & Pd & XS & ES' & HpS' & XS').
    change (lay (gn (linit g0)) (sn (linit g0)) (gn (linit g0)) (sn (linit g0))) with (lay n0 0 n0 (N.of_nat 0%nat)) in XS, XS'.
    assert (Hdok : Forall dok ds).
    { clear -HD. induction HD as [|pm d ms ds (st & s' & p' & _ & _ & _ & Hd) _ IH]; constructor; [exact Hd|exact IH]. }
    assert (Hdok' : Forall dok ds').
    { clear -HD'. induction HD' as [|pm d ms ds (st & s' & p' & _ & _ & _ & Hd) _ IH]; constructor; [exact Hd|exact IH]. }
    destruct XS as (Sg & Sst & Se & Sa & Sp & _ & Ssc & _). destruct XS' as (Sg' & Sst' & Se' & Sa' & Sp' & _ & Ssc' & _).
    cbn [linit l_graph l_store l_edges l_attrs l_prints l_scoped app] in Sg, Sst, Se, Sa, Sp, Ssc, Sg', Sst', Se', Sa', Sp', Ssc'.
    (* the state after the execution phase of ms can be evaluated denotationally *)
    destruct (lay_valid okfn n0 ds Hdok n0 0 (N.le_refl _)) as (VT & VS & VN).
    assert (Hev : evalable okfn S).
    { unfold evalable. rewrite Sst, Se, Sa, Sp, Ssc. split; [|split; [reflexivity|]].
      - intros i th E. apply (VT i th E).
      - apply (VS (length (d_thunks (dcat (lay n0 0 n0 (N.of_nat 0) ds)))) ltac:(cbn; lia)). }
    destruct (eval_extract t fl call okfn Hcall F1 S pS u fin p1 H Hev) as (rho & eops & aopss & g1 & (Hwf & HE & HA & HPr) & Hg1 & Hg2).
    rewrite Sst in Hwf. rewrite Se in HE. rewrite Sa in HA. rewrite Sp in HPr.
    destruct (decompose_list call okfn Hcall n0 ds Hdok n0 0 rho eops aopss (N.le_refl _)) as (Xs & HF & Hseg & -> & ->); try assumption.
    { intros j th E. cbn [plus]. apply (proj2 Hwf); [apply nth_error_Some; congruence|exact E]. }
    (* the same canonical summaries, in the order of ms' *)
    destruct (Forall2_perm_pairs _ _ _ Pd _ HF) as (Xs' & HF' & Pp).
    assert (Pos : Permutation (osegs ds Xs) (osegs ds' Xs')) by (unfold osegs; apply Permutation_map, Pp).
    set (rho' := rlay n0 n0 ds' Xs').
    destruct (compose_list call okfn Hcall n0 ds' Xs' HF' Hdok' n0 0 rho' (N.le_refl _) ltac:(intros j w E; exact E)) as (T' & E' & A' & P' & O').
    assert (Hos : Forall (oseg_ok n0) (osegs ds Xs)).
    { apply Forall_forall. intros o Ho. rewrite Forall_forall in O'. apply O'. eapply Permutation_in; eauto. }
    assert (Hden' : denotes call S' rho' (layE n0 n0 (osegs ds' Xs')) (alay n0 n0 ds' Xs')).
    { unfold denotes. rewrite Sst', Se', Sa', Sp'. split; [|split; [exact E'|split; [exact A'|exact P']]].
      split; [unfold rho'; apply (rlay_length call n0 ds' Xs' HF')|]. intros i th _ E. apply (T' i th E). }
    (* the renumbering *)
    destruct (perm_ren n0 _ _ Pos Hos n0 (N.le_refl _)) as (r & r' & I1 & I2 & Fx & Rg & PE & PA & PN).
    assert (Hinj : inj r) by (intros i j E; rewrite <- (I1 i), <- (I1 j), E; reflexivity).
    assert (Hlen2 : length ds = length Xs) by (eapply Forall2_length'; eauto). assert (Hlen2' : length ds' = length Xs') by (eapply Forall2_length'; eauto).
    assert (HgS : l_graph S = g0 ++ layN (osegs ds Xs)) by (rewrite Sg, dcat_nodes, lay_nodes, layN_osegs by exact Hlen2; reflexivity).
    assert (HgS' : l_graph S' = g0 ++ layN (osegs ds' Xs')) by (rewrite Sg', dcat_nodes, lay_nodes, layN_osegs by exact Hlen2'; reflexivity).
    assert (Hpl : Forall nplain (layN (osegs ds Xs))) by (rewrite layN_osegs by exact Hlen2; rewrite <- (lay_nodes n0 0 ds n0 (N.of_nat 0)), <- dcat_nodes; exact VN).
    assert (Hpl' : Forall nplain (layN (osegs ds' Xs'))).
    { destruct (lay_valid okfn n0 ds' Hdok' n0 0 (N.le_refl _)) as (_ & _ & VN'). rewrite layN_osegs by exact Hlen2'. rewrite <- (lay_nodes n0 0 ds' n0 (N.of_nat 0)), <- dcat_nodes. exact VN'. }
    assert (Htot : total (osegs ds' Xs') = total (osegs ds Xs)) by (symmetry; apply total_perm, Pos).
    assert (HI : giso r (l_graph S) (l_graph S')).
    { rewrite HgS, HgS'. apply base_giso; try assumption.
      - intros i Hi. apply Fx. left. exact Hi.
      - apply Nat2N.inj. rewrite !total_layN. symmetry. exact Htot.
      - intros i H1 H2. rewrite total_layN in H2. apply (Rg i H1 H2). }
    assert (Hsorted : edges_sorted (l_graph S')) by (rewrite HgS'; eapply base_sorted; eauto).
    rewrite alay_layA in Hg2.
    destruct (ops_perm_iso r Hinj _ _ _ _ _ _ _ _ HI Hsorted Hg1 Hg2 PE PA) as (g1' & g2' & Hg1' & Hg2' & Hiso).
    rewrite <- alay_layA in Hg2'.
    destruct (evaluate_phase_denotes t fl call rho' _ _ g1' g2' S' pS' Hden' Ssc' Hg1' Hg2' HpS') as (F0 & u' & fin' & p' & HB & Hfin & _).
    exists r, r'. split; [exact I1|]. split; [exact I2|]. split; [intros i Hi; apply Fx; left; exact Hi|].
    exists F0. intros F HF0. exists fin', p'. unfold bind. rewrite ES'. destruct u'. split; [apply HB, HF0|]. rewrite Hfin. exact Hiso.
  Qed.
End Final.

(* ================= run level ================= *)
(* run_lazy with separate fuels for the execution phase and for the evaluation phase
   (run_lazy fuel = run_lazy2 fuel (fuel + default_eval_fuel): lemma run_lazy_2) *)
Definition run_lazy2 {rx : Type} (t : tree) (fl : file) (cfg : config) (supplied : globals) (budget : option N)
    (regexes : list rx) (find : rx -> str -> option (list (option (N * N))))
    (call : ident -> graph -> list value -> res (value * graph))
    (fuel feval : nat) (matches : list (N * qmatch)) (g0 : graph) : outcome exec_error (lstate * polls) :=
  match check_globals (f_globals fl) (globals_nested supplied) with
  | Ok glob =>
      match (iterM (bstep t fl cfg glob regexes find call fuel) matches ;;; evaluate_phase t fl call feval) (linit g0) (polls0 budget) with
      | Ok (_, s, p) => Ok (s, p)
      | Err e => Err e
      | Panic p => Panic p
      | OutOfFuel => OutOfFuel
      end
  | Err e => Err e
  | Panic p => Panic p
  | OutOfFuel => OutOfFuel
  end.
Lemma run_lazy_2 {rx : Type} t fl cfg supplied budget (regexes : list rx) find call fuel ms g0 :
  run_lazy t fl cfg supplied budget regexes find call fuel ms g0 = run_lazy2 t fl cfg supplied budget regexes find call fuel (fuel + default_eval_fuel) ms g0.
Proof. reflexivity. Qed.

Theorem lazy_run_perm {rx : Type} t fl supplied (regexes : list rx) find call (okfn : ident -> Prop) fuel ms ms' g0 ls p :
  (forall f, okfn f -> call_ok call f) -> gclosed (N.of_nat (length g0)) g0 ->
  (forall glob, check_globals (f_globals fl) (globals_nested supplied) = Ok glob ->
     forall name v, globals_get glob name = Some v -> vall (fun i => i < N.of_nat (length g0)) v) ->
  Permutation ms ms' -> Forall (pm_ok fl okfn) ms ->
  run_lazy t fl config0 supplied None regexes find call fuel ms g0 = Ok (ls, p) ->
  exists r r', (forall i, r' (r i) = i) /\ (forall i, r (r' i) = i) /\ (forall i, i < N.of_nat (length g0) -> r i = i) /\
    exists F0, forall F, (F0 <= F)%nat -> exists ls' p', run_lazy2 t fl config0 supplied None regexes find call fuel F ms' g0 = Ok (ls', p') /\
      graph_iso r (l_graph ls) (l_graph ls').
Proof.
  intros Hcall Hcl Hglob HP Hok H. rewrite run_lazy_2 in H. unfold run_lazy2 in *.
  destruct (check_globals (f_globals fl) (globals_nested supplied)) as [glob|e|x|] eqn:Eg; try discriminate.
  destruct ((iterM (bstep t fl config0 glob regexes find call fuel) ms;;; evaluate_phase t fl call (fuel + default_eval_fuel)) (linit g0) (polls0 None)) as [[[u s] p0]|e|x|] eqn:E; try discriminate.
  inversion H; subst s p0; clear H.
  destruct (lazy_perm_eval t fl glob regexes find call okfn Hcall g0 (Hglob glob eq_refl) Hcl fuel _ ms ms' u ls p HP Hok E) as (r & r' & I1 & I2 & Fx & F0 & HF).
  exists r, r'. split; [exact I1|]. split; [exact I2|]. split; [exact Fx|]. exists F0. intros F HF0. destruct (HF F HF0) as (fin' & p' & E' & Hiso).
  exists fin', p'. rewrite E'. split; [reflexivity|exact Hiso].
Qed.
