(* Proofs/IdxBridge.v — capture-index bridge (audit finding G1): the executable per-case check `idx_agreeb` is the relation `idx_agree`;
   regrouping the merged-query blocks by stanza is a permutation of them; `run_one` of a recorded case is `run_one` of its
   normalization (Model/IdxBridge.v `normalize_run`), in both modes. *)
From TSG Require Import Model.Strict Model.Lazy Model.Run Model.IdxBridge Proofs.BaseFacts Proofs.IdxMeq Proofs.IdxStrict Proofs.IdxLazy Proofs.StrictLazy.
From Coq Require Import Permutation Lia.

(* ---------------- reflection ---------------- *)
Lemma cap_agreeb_spec ms ml c : cap_agreeb ms ml c = true <-> cap_agree ms ml c.
Proof. unfold cap_agreeb, cap_agree. apply list_eqb_eq. intros; apply N.eqb_eq. Qed.
Lemma match_agreeb_spec fl st ms ml : match_agreeb fl st ms ml = true <-> match_agree fl st ms ml.
Proof.
  unfold match_agreeb, match_agree, agree_on. rewrite forallb_forall. split; intros H c Hc; [apply cap_agreeb_spec|apply cap_agreeb_spec]; apply H; exact Hc.
Qed.
Lemma forall2b_spec {A B} (f : A -> B -> bool) (R : A -> B -> Prop) : (forall x y, f x y = true <-> R x y) ->
  forall a b, forall2b f a b = true <-> Forall2 R a b.
Proof.
  intros Hf. induction a as [|x a IH]; intros [|y b]; cbn [forall2b]; split; intros H; try discriminate; try constructor; try (inversion H; fail).
  - apply andb_prop in H. apply Hf. apply H.
  - apply andb_prop in H. apply IH. apply H.
  - inversion H; subst. apply andb_true_intro. split; [apply Hf; assumption|apply IH; assumption].
Qed.
Lemma idx_relb_spec fl : forall sts sms sms', idx_relb fl sts sms sms' = true <-> idx_rel fl sts sms sms'.
Proof.
  induction sts as [|st sts IH]; intros sms sms'; cbn [idx_relb idx_rel]; [tauto|].
  destruct sms as [|m ms], sms' as [|m' ms']; try tauto; try (split; [discriminate|contradiction]).
  rewrite andb_true_iff, IH. rewrite (forall2b_spec _ (match_agree fl st) (match_agreeb_spec fl st)). tauto.
Qed.

(* the relation the harness data satisfy (A1–A3 of C03 on the recorded case): every block of the merged-query list is tagged with a
   stanza of the file, and the k-th recorded match of stanza i and the k-th block tagged i select the same nodes for every capture the
   stanza can read — the former through the stanza index, the latter through the file index *)
Definition idx_agree (fl : file) (sms : list (list qmatch)) (lms : list (N * qmatch)) : Prop :=
  Forall (fun pm : N * qmatch => fst pm < N.of_nat (length (f_stanzas fl))) lms /\
  idx_rel fl (f_stanzas fl) sms (regroup (length (f_stanzas fl)) lms).
Lemma idx_agreeb_spec fl sms lms : idx_agreeb fl sms lms = true <-> idx_agree fl sms lms.
Proof.
  unfold idx_agreeb, idx_agree. rewrite andb_true_iff, idx_relb_spec, forallb_forall, Forall_forall.
  split; intros [H1 H2]; (split; [|exact H2]); intros pm Hpm; [apply N.ltb_lt|apply N.ltb_lt]; apply H1; exact Hpm.
Qed.

(* ---------------- regrouping is a permutation ---------------- *)
Lemma tagged_filter i (lms : list (N * qmatch)) :
  map (fun q => (i, q)) (map snd (filter (fun pm : N * qmatch => N.eqb (fst pm) i) lms)) = filter (fun pm : N * qmatch => N.eqb (fst pm) i) lms.
Proof.
  induction lms as [|[j q] l IH]; cbn [filter map fst]; [reflexivity|]. destruct (N.eqb_spec j i) as [->|Hn]; cbn [map snd]; [f_equal; exact IH|exact IH].
Qed.
Lemma filter_or_perm {A} (p q : A -> bool) l : (forall x, p x = true -> q x = true -> False) ->
  Permutation (filter p l ++ filter q l) (filter (fun x => p x || q x) l).
Proof.
  intros Hd. induction l as [|a l IH]; cbn [filter app]; [constructor|].
  destruct (p a) eqn:Ep, (q a) eqn:Eq; cbn [orb app].
  - exfalso. eapply Hd; eauto.
  - constructor. exact IH.
  - apply Permutation_sym, Permutation_cons_app, Permutation_sym. exact IH.
  - exact IH.
Qed.
Lemma filter_none {A} (p : A -> bool) l : (forall x, p x = false) -> filter p l = [].
Proof. intros H. induction l as [|a l IH]; cbn [filter]; [reflexivity|]. rewrite H. exact IH. Qed.
Lemma filter_all {A} (p : A -> bool) l : Forall (fun x => p x = true) l -> filter p l = l.
Proof. intros H. induction H as [|a l Ha _ IH]; cbn [filter]; [reflexivity|]. rewrite Ha, IH. reflexivity. Qed.

Lemma regroup_perm_from (lms : list (N * qmatch)) : forall k i,
  Permutation (lmatches_from i (regroup_from i k lms)) (filter (fun pm : N * qmatch => N.leb i (fst pm) && N.ltb (fst pm) (i + N.of_nat k)) lms).
Proof.
  induction k as [|k IH]; intros i; cbn [regroup_from lmatches_from].
  - rewrite filter_none; [constructor|]. intros x. destruct (N.leb_spec i (fst x)), (N.ltb_spec (fst x) (i + N.of_nat 0)); cbn; try reflexivity. lia.
  - rewrite tagged_filter. eapply perm_trans; [apply Permutation_app_head, IH|]. eapply perm_trans; [apply filter_or_perm|].
    + intros x H1 H2. apply N.eqb_eq in H1. apply andb_prop in H2. destruct H2 as [H2 _]. apply N.leb_le in H2. lia.
    + rewrite (filter_ext _ (fun pm : N * qmatch => N.leb i (fst pm) && N.ltb (fst pm) (i + N.of_nat (S k)))); [apply Permutation_refl|].
      intros x. destruct (N.eqb_spec (fst x) i), (N.leb_spec (i + 1) (fst x)), (N.ltb_spec (fst x) (i + 1 + N.of_nat k)),
        (N.leb_spec i (fst x)), (N.ltb_spec (fst x) (i + N.of_nat (S k))); cbn; try reflexivity; lia.
Qed.
Lemma regroup_perm n (lms : list (N * qmatch)) : Forall (fun pm : N * qmatch => fst pm < N.of_nat n) lms -> Permutation (lmatches_of (regroup n lms)) lms.
Proof.
  intros H. unfold lmatches_of, regroup. eapply perm_trans; [apply regroup_perm_from|]. rewrite filter_all; [apply Permutation_refl|].
  eapply Forall_impl; [|exact H]. intros x Hx. cbv beta in Hx. destruct (N.leb_spec 0 (fst x)), (N.ltb_spec (fst x) (0 + N.of_nat n)); cbn; try reflexivity; lia.
Qed.
Lemma idx_agree_perm fl sms lms : idx_agree fl sms lms -> Permutation (lmatches_of (regroup (length (f_stanzas fl)) lms)) lms.
Proof. intros [H _]. apply regroup_perm. exact H. Qed.

(* ---------------- the harness driver ---------------- *)
Lemma run_one_reindex_lazy t cfg budget r g0 :
  run_one t cfg budget (with_lazy r true) g0 = run_one t cfg budget (with_lazy (normalize_run r) true) g0.
Proof.
  unfold run_one, with_lazy, normalize_run. cbn [ri_lazy ri_file ri_rxs ri_tbl ri_supplied ri_smatches ri_lmatches].
  rewrite run_lazy_reindex. reflexivity.
Qed.
Lemma run_one_reindex_strict t cfg budget r g0 : idx_agree (ri_file r) (ri_smatches r) (ri_lmatches r) ->
  run_one t cfg budget (with_lazy r false) g0 = run_one t cfg budget (with_lazy (normalize_run r) false) g0.
Proof.
  intros [_ H]. unfold run_one, with_lazy, normalize_run, real_smatches. cbn [ri_lazy ri_file ri_rxs ri_tbl ri_supplied ri_smatches ri_lmatches].
  rewrite (run_strict_reindex t (ri_file r) cfg (ri_supplied r) budget (ri_rxs r) rx_captures (the_call t (ri_tbl r)) default_fuel (ri_smatches r) _ g0 H). reflexivity.
Qed.
Lemma run_one_reindex t cfg budget r b g0 : idx_agree (ri_file r) (ri_smatches r) (ri_lmatches r) ->
  run_one t cfg budget (with_lazy r b) g0 = run_one t cfg budget (with_lazy (normalize_run r) b) g0.
Proof. intros H. destruct b; [apply run_one_reindex_lazy|apply run_one_reindex_strict; exact H]. Qed.

(* ---------------- in the normalized file the two index spaces coincide by construction ---------------- *)
From TSG Require Import Proofs.Checker.
Notation diag := (fun c : N * N => fst c = snd c).
Lemma Forall_flat_map_in {A B} (P : B -> Prop) (f : A -> list B) l : (forall x, In x l -> Forall P (f x)) -> Forall P (flat_map f l).
Proof. intros H. apply Forall_flat_map. apply Forall_forall. exact H. Qed.
Lemma expr_caps_norm e : Forall diag (expr_caps (norm_expr e)).
Proof.
  induction e using expr_ind'; cbn [norm_expr expr_caps]; try constructor; try reflexivity; try constructor; try (apply Forall_app; split; assumption); try assumption.
  - apply Forall_flat_map_in. intros x Hx. apply in_map_iff in Hx. destruct Hx as (y & <- & Hy). rewrite Forall_forall in H. apply H. exact Hy.
  - apply Forall_flat_map_in. intros x Hx. apply in_map_iff in Hx. destruct Hx as (y & <- & Hy). rewrite Forall_forall in H. apply H. exact Hy.
  - apply Forall_flat_map_in. intros x Hx. apply in_map_iff in Hx. destruct Hx as (y & <- & Hy). rewrite Forall_forall in H. apply H. exact Hy.
Qed.
Lemma var_caps_norm v : Forall diag (var_caps (norm_var v)).
Proof. destruct v; cbn [norm_var var_caps]; [constructor|apply expr_caps_norm]. Qed.
Lemma attrs_caps_norm attrs : Forall diag (flat_map attr_caps (map norm_attr attrs)).
Proof. apply Forall_flat_map_in. intros x Hx. apply in_map_iff in Hx. destruct Hx as ([n e] & <- & _). apply expr_caps_norm. Qed.
Lemma exprs_caps_norm es : Forall diag (flat_map expr_caps (map norm_expr es)).
Proof. apply Forall_flat_map_in. intros x Hx. apply in_map_iff in Hx. destruct Hx as (e & <- & _). apply expr_caps_norm. Qed.
Lemma conds_caps_norm cs : Forall diag (flat_map cond_caps (map norm_cond cs)).
Proof. apply Forall_flat_map_in. intros x Hx. apply in_map_iff in Hx. destruct Hx as ([e l|e l|e l] & <- & _); apply expr_caps_norm. Qed.
Lemma stmts_caps_norm body : Forall (fun s => Forall diag (stmt_caps (norm_stmt s))) body -> Forall diag (flat_map stmt_caps (map norm_stmt body)).
Proof. intros H. apply Forall_flat_map_in. intros x Hx. apply in_map_iff in Hx. destruct Hx as (s & <- & Hs). rewrite Forall_forall in H. apply H. exact Hs. Qed.
Lemma stmt_caps_norm s : Forall diag (stmt_caps (norm_stmt s)).
Proof.
  induction s using stmt_ind'; cbn [norm_stmt stmt_caps];
    repeat (apply Forall_app; split); try apply var_caps_norm; try apply expr_caps_norm; try apply attrs_caps_norm; try apply exprs_caps_norm.
  - apply Forall_flat_map_in. intros x Hx. apply in_map_iff in Hx. destruct Hx as (arm & <- & Ha). cbn [fst snd]. apply stmts_caps_norm.
    rewrite Forall_forall in H. apply (H arm Ha).
  - apply Forall_flat_map_in. intros x Hx. apply in_map_iff in Hx. destruct Hx as (arm & <- & Ha). cbn [fst snd]. apply Forall_app. split; [apply conds_caps_norm|].
    apply stmts_caps_norm. rewrite Forall_forall in H. apply (H arm Ha).
  - apply stmts_caps_norm. exact H.
Qed.
Theorem normalize_file_caps_coincide fl st : In st (f_stanzas (normalize_file fl)) -> Forall diag (stanza_caps (normalize_file fl) st).
Proof.
  intros Hst. cbn [normalize_file f_stanzas] in Hst. apply in_map_iff in Hst. destruct Hst as (st0 & <- & _).
  unfold stanza_caps. cbn [norm_stanza st_full_file_idx st_full_stanza_idx st_stmts]. constructor; [reflexivity|]. apply Forall_app. split.
  - apply stmts_caps_norm. apply Forall_forall. intros s _. apply stmt_caps_norm.
  - unfold shorthand_caps. cbn [normalize_file f_shorthands]. apply Forall_flat_map_in. intros sh Hsh. apply in_map_iff in Hsh. destruct Hsh as (sh0 & <- & _).
    cbn [norm_shorthand sh_attrs]. apply attrs_caps_norm.
Qed.
