(* Proofs/LoadErrRender.v — lemmas about Model/LoadErrRender.v (pretty rendering of load errors, property C05). *)
From TSG Require Import Model.LoadErrRender Model.LoadErrOf Proofs.ParseErr Proofs.ErrRender.
From TSG Require Model.Parser Model.Checker.
From Coq Require Import Lia.

Lemma load_error_pretty_eq_lemma : forall path src msg e,
  load_error_pretty path src msg e
  = msg ++ [10] ++ excerpt path src (fst (le_loc e)) (snd (le_loc e)) (snd (le_loc e) + 1).
Proof.
  intros path src msg [v l|v l]; cbn [load_error_pretty check_error_pretty le_loc]; unfold excerpt_loc;
    exact (f_equal (fun x => msg ++ [10] ++ x) (excerpt_ind_0 path src (fst l) (snd l) (snd l + 1))).
Qed.

Lemma load_error_pretty_check_lemma : forall path src msg v l,
  load_error_pretty path src msg (LCheck v l) = check_error_pretty path src msg l.
Proof. reflexivity. Qed.

Lemma load_error_pretty_excerpt : forall path src msg e,
  load_error_pretty path src msg e = msg ++ [10] ++ excerpt_loc 0 path src (le_loc e).
Proof. intros path src msg [v l|v l]; reflexivity. Qed.

Lemma load_error_pretty_missing_lemma : forall path src msg e,
  (length (lines src) <= N.to_nat (fst (le_loc e)))%nat ->
  load_error_pretty path src msg e
  = msg ++ [10] ++ cite path (fst (le_loc e)) (snd (le_loc e)) ++ [10] ++ missing_source ++ [10].
Proof.
  intros path src msg e H. rewrite load_error_pretty_excerpt. unfold excerpt_loc.
  rewrite excerpt_ind_missing by (apply nth_error_None, H). reflexivity.
Qed.

Lemma load_error_pretty_present_lemma : forall path src msg e,
  (N.to_nat (fst (le_loc e)) < length (lines src))%nat ->
  exists l, nth_error (lines src) (N.to_nat (fst (le_loc e))) = Some l /\
    load_error_pretty path src msg e
    = msg ++ [10] ++ cite path (fst (le_loc e)) (snd (le_loc e)) ++ [10]
      ++ dec (fst (le_loc e) + 1) ++ [32;124;32] ++ l ++ [10]
      ++ spaces (gutter_width (fst (le_loc e))) ++ [32;124;32] ++ spaces (snd (le_loc e))
      ++ (if snd (le_loc e) <? utf8_bytes l then [94] else []) ++ [10].
Proof.
  intros path src msg e H. destruct (nth_error (lines src) (N.to_nat (fst (le_loc e)))) as [l|] eqn:E.
  - exists l. split; [reflexivity|]. rewrite load_error_pretty_excerpt.
    destruct (le_loc e) as [r c] eqn:El. cbn [fst snd] in *.
    rewrite (excerpt_loc_present 0 path src r c l E). reflexivity.
  - apply nth_error_None in E. lia.
Qed.

Lemma load_error_pretty_cites_lemma : forall path src msg e,
  contains (cite path (fst (le_loc e)) (snd (le_loc e))) (load_error_pretty path src msg e) = true.
Proof.
  intros. apply sub_contains. rewrite load_error_pretty_excerpt. do 2 apply sub_app_r. apply excerpt_loc_cites.
Qed.

Lemma load_error_pretty_line_lemma : forall path src msg e l,
  nth_error (lines src) (N.to_nat (fst (le_loc e))) = Some l -> contains l (load_error_pretty path src msg e) = true.
Proof.
  intros * E. apply sub_contains. rewrite load_error_pretty_excerpt. do 2 apply sub_app_r. apply excerpt_loc_line, E.
Qed.

Lemma load_error_pretty_msg_lemma : forall path src msg e,
  is_prefix (msg ++ [10]) (load_error_pretty path src msg e) = true.
Proof. intros. rewrite load_error_pretty_excerpt, app_assoc. apply is_prefix_app. Qed.

(* the location of the load error of a model error is the location the streams C07/C05p and C06 compare *)
Lemma le_loc_of_parse : forall e, le_loc (load_error_of_parse e) = snd (fst (Parser.error_obs e)).
Proof. intros e. unfold load_error_of_parse. destruct (Parser.error_obs e) as [[v l] p]. reflexivity. Qed.
Lemma le_loc_of_check : forall e, le_loc (load_error_of_check e) = Checker.ce_loc e.
Proof. reflexivity. Qed.
