(* Proofs/LocSimExec.v — the execution phase of the lazy interpreter under `config0` is invariant under
   `reloc_* rho` (all locations erased, file capture indices renamed by rho) when the match of the right-hand run
   answers at `rho i` what the match of the left-hand run answers at `i`.  Outcomes are related by `orel`
   (Proofs/LocSim.v): Ok with the same result and the erased state, or the same kind of failure. *)
From TSG Require Import Model.Lazy Model.LocErase Proofs.LocSim Proofs.LocSimEval.

Section Exec.
  Context {rx : Type}.
  Variable t : tree.
  Variables fl fl' : file.
  Variable glob : globals.
  Variable regexes : list rx.
  Variable find : rx -> str -> option (list (option (N * N))).
  Variable call : ident -> graph -> list value -> res (value * graph).
  Variable rho : N -> N.
  Hypothesis Hinh : f_inherited fl' = f_inherited fl.
  Hypothesis Hsh : f_shorthands fl' = map (reloc_shorthand rho) (f_shorthands fl).

  Definition lerel (le le' : llenv) : Prop :=
    ll_caps le' = ll_caps le /\ ll_ctx le' = ectx (ll_ctx le) /\
    forall i, nodes_for_capture (ll_match le') (rho i) = nodes_for_capture (ll_match le) i.

  Lemma lerel_with_ctx le le' c : lerel le le' -> lerel (ll_with_ctx le c) (ll_with_ctx le' (ectx c)).
  Proof. intros (A & B & C). repeat split; assumption. Qed.
  Lemma lerel_with_caps le le' caps : lerel le le' -> lerel (ll_with_caps le caps) (ll_with_caps le' caps).
  Proof. intros (A & B & C). repeat split; assumption. Qed.
  Lemma ctx_update_reloc c s : ctx_update (ectx c) (reloc_stmt rho s) = ectx (ctx_update c s).
  Proof. destruct s; reflexivity. Qed.

  Lemma sim_lunscoped_add le le' name v mut : lerel le le' -> simeq (lunscoped_add glob le name v mut) (lunscoped_add glob le' name v mut).
  Proof.
    intros (_ & Hc & _). unfold lunscoped_add. destruct (globals_get glob name); [apply sim_fail|]. rewrite Hc.
    eapply sim_bind; [apply sim_store_add|]. intros var var' <-. apply sim_get_bind. intros s. change (l_locals (estate s)) with (l_locals s).
    destruct (varmap_add (l_locals s) name var mut); [apply sim_set_llocals|apply sim_fail].
  Qed.
  Lemma sim_lunscoped_set le le' name v : lerel le le' -> simeq (lunscoped_set glob le name v) (lunscoped_set glob le' name v).
  Proof.
    intros (_ & Hc & _). unfold lunscoped_set. destruct (globals_get glob name); [apply sim_fail|]. rewrite Hc.
    eapply sim_bind; [apply sim_store_add|]. intros var var' <-. apply sim_get_bind. intros s. change (l_locals (estate s)) with (l_locals s).
    destruct (varmap_set (l_locals s) name var); [apply sim_set_llocals|]. destruct (varmap_get (l_locals s) name); apply sim_fail.
  Qed.

  Notation leval1 := (leval t fl glob call).
  Notation leval2 := (leval t fl' glob call).

  Lemma sim_leval : forall fuel le le' e, lerel le le' -> simeq (leval1 fuel le e) (leval2 fuel le' (reloc_expr rho e)).
  Proof.
    induction fuel as [|fuel IH]; intros le le' e Hle; [apply sim_oof|].
    assert (Heager : forall e', simeq (lv <- leval1 fuel le e' ;; eval_lv t fl call (S fuel + default_eval_fuel) lv)
                                      (lv <- leval2 fuel le' (reloc_expr rho e') ;; eval_lv t fl' call (S fuel + default_eval_fuel) lv)).
    { intros e'. eapply sim_bind; [apply IH, Hle|]. intros lv lv' <-. apply sim_eval_lv. exact Hinh. }
    assert (Hcomp : forall elem var value,
      simeq (lv <- (lv <- leval1 fuel le value ;; eval_lv t fl call (S fuel + default_eval_fuel) lv) ;; vals <- lift (as_list lv) ;;
             lpush_frame ;;;
             out <- mapM (fun v => lclear_frame ;;; lunscoped_add glob le var (LValue v) false ;;; leval1 fuel le elem) vals ;;
             lpop_frame ;;; ret out)
            (lv <- (lv <- leval2 fuel le' (reloc_expr rho value) ;; eval_lv t fl' call (S fuel + default_eval_fuel) lv) ;; vals <- lift (as_list lv) ;;
             lpush_frame ;;;
             out <- mapM (fun v => lclear_frame ;;; lunscoped_add glob le' var (LValue v) false ;;; leval2 fuel le' (reloc_expr rho elem)) vals ;;
             lpop_frame ;;; ret out)).
    { intros elem var value. eapply sim_bind; [apply Heager|]. intros lv lv' <-. eapply sim_bind; [apply sim_lift|]. intros vals vals' <-.
      eapply sim_bind; [apply sim_lpush_frame|]. intros _ _ _.
      eapply sim_bind.
      { apply sim_mapM_same. intros v. eapply sim_bind; [apply sim_lclear_frame|]. intros _ _ _.
        eapply sim_bind; [apply sim_lunscoped_add, Hle|]. intros _ _ _. apply IH, Hle. }
      intros out out' <-. eapply sim_bind; [apply sim_lpop_frame|]. intros _ _ _. apply sim_ret. reflexivity. }
    destruct e; cbn [leval reloc_expr]; try (apply sim_ret; reflexivity).
    - eapply sim_bind; [apply sim_mapM; intros x; apply IH, Hle|]. intros vs vs' <-. apply sim_ret. reflexivity.
    - eapply sim_bind; [apply sim_mapM; intros x; apply IH, Hle|]. intros vs vs' <-. apply sim_ret. reflexivity.
    - eapply sim_bind; [apply Hcomp|]. intros out out' <-. apply sim_ret. reflexivity.
    - eapply sim_bind; [apply Hcomp|]. intros out out' <-. apply sim_ret. reflexivity.
    - destruct Hle as (_ & _ & Hm). rewrite Hm. eapply sim_bind; [apply sim_lift|]. intros v v' <-. apply sim_ret. reflexivity.
    - apply sim_lunscoped_get.
    - eapply sim_bind; [apply IH, Hle|]. intros sv sv' <-. apply sim_ret. reflexivity.
    - eapply sim_bind; [apply sim_mapM; intros x; apply IH, Hle|]. intros vs vs' <-. apply sim_ret. reflexivity.
    - destruct Hle as (Hc & _ & _). rewrite Hc. destruct (nth_error (ll_caps le) (N.to_nat i)); [apply sim_ret; reflexivity|apply sim_fail].
  Qed.

  Lemma sim_leager fuel le le' e : lerel le le' -> simeq (leager t fl glob call fuel le e) (leager t fl' glob call fuel le' (reloc_expr rho e)).
  Proof. intros Hle. unfold leager. eapply sim_bind; [apply sim_leval, Hle|]. intros lv lv' <-. apply sim_eval_lv. exact Hinh. Qed.

  Lemma sim_lvar_add fuel le le' v x mut : lerel le le' ->
    simeq (lvar_add t fl glob call fuel le v x mut) (lvar_add t fl' glob call fuel le' (reloc_var rho v) x mut).
  Proof.
    intros Hle. destruct v; cbn [lvar_add reloc_var]; [apply sim_lunscoped_add, Hle|]. destruct mut; [apply sim_fail|].
    eapply sim_bind; [apply sim_leval, Hle|]. intros sv sv' <-. destruct Hle as (_ & Hc & _). rewrite Hc.
    eapply sim_bind; [apply sim_store_add|]. intros var var' <-. apply sim_scoped_store_add.
  Qed.
  Lemma sim_lvar_set fuel le le' v x : lerel le le' -> simeq (lvar_set glob fuel le v x) (lvar_set glob fuel le' (reloc_var rho v) x).
  Proof. intros Hle. destruct v; cbn [lvar_set reloc_var]; [apply sim_lunscoped_set, Hle|apply sim_fail]. Qed.
  Lemma sim_ltest_cond fuel le le' c : lerel le le' ->
    simeq (ltest_cond t fl glob call fuel le c) (ltest_cond t fl' glob call fuel le' (reloc_cond rho c)).
  Proof.
    intros Hle. destruct c; cbn [ltest_cond reloc_cond]; (eapply sim_bind; [apply sim_leager, Hle|]); intros v v' <-;
      [apply sim_ret; reflexivity|apply sim_ret; reflexivity|apply sim_lift].
  Qed.

  Lemma find_shorthand_reloc name l : find_shorthand name (map (reloc_shorthand rho) l) = option_map (reloc_shorthand rho) (find_shorthand name l).
  Proof.
    induction l as [|sh l IH]; cbn [map find_shorthand]; [reflexivity|]. rewrite IH.
    destruct (find_shorthand name l); cbn [option_map]; [reflexivity|]. change (sh_name (reloc_shorthand rho sh)) with (sh_name sh).
    destruct (str_eqb name (sh_name sh)); reflexivity.
  Qed.

  Lemma sim_lexec_attr : forall fuel le le' a, lerel le le' ->
    simeq (lexec_attr t fl glob call fuel le a) (lexec_attr t fl' glob call fuel le' (reloc_attr rho a)).
  Proof.
    induction fuel as [|fuel IH]; intros le le' a Hle; [apply sim_oof|]. destruct a as [name value]. cbn [lexec_attr reloc_attr].
    eapply sim_bind; [apply sim_lpoll|]. intros _ _ _. eapply sim_bind; [apply sim_leval, Hle|]. intros v v' <-.
    rewrite Hsh, find_shorthand_reloc. destruct (find_shorthand name (f_shorthands fl)) as [sh|]; cbn [option_map]; [|apply sim_ret; reflexivity].
    apply sim_get_bind. intros s. change (l_locals (estate s)) with (l_locals s).
    eapply sim_bind; [apply sim_set_llocals|]. intros _ _ _.
    change (sh_var (reloc_shorthand rho sh)) with (sh_var sh). change (sh_attrs (reloc_shorthand rho sh)) with (map (reloc_attr rho) (sh_attrs sh)).
    eapply sim_bind; [apply sim_lunscoped_add, Hle|]. intros _ _ _.
    eapply sim_bind; [apply sim_mapM; intros x; apply IH, Hle|]. intros outs outs' <-.
    eapply sim_bind; [apply sim_set_llocals|]. intros _ _ _. apply sim_ret. reflexivity.
  Qed.

  Lemma arm_table_reloc arms : arm_table regexes (map (reloc_arm rho) arms) = arm_table regexes arms.
  Proof. induction arms as [|arm arms IH]; cbn [map arm_table]; [reflexivity|]. rewrite IH. reflexivity. Qed.

  Lemma sim_lscan_loop run_arm run_arm' arms rs subject :
    (forall caps body, simeq (run_arm caps body) (run_arm' caps (map (reloc_stmt rho) body))) ->
    forall sfuel i, simeq (lscan_loop find run_arm arms rs subject sfuel i) (lscan_loop find run_arm' (map (reloc_arm rho) arms) rs subject sfuel i).
  Proof.
    intros Hrun. induction sfuel as [|sfuel IH]; intros i; cbn [lscan_loop]; [apply sim_oof|].
    destruct (N.ltb i (N.of_nat (length subject))); [|apply sim_ret; reflexivity].
    eapply sim_bind; [apply sim_lpoll_n|]. intros _ _ _.
    destruct (arm_select find rs (skipn (N.to_nat i) subject)) as [|k|k caps]; [apply sim_ret; reflexivity|apply sim_fail|].
    rewrite nth_error_map. destruct (nth_error arms (N.to_nat k)) as [[[a body] l]|]; cbn [option_map reloc_arm fst snd]; [|apply sim_panic].
    eapply sim_bind; [apply sim_lpush_frame|]. intros _ _ _. eapply sim_bind; [apply Hrun|]. intros _ _ _.
    eapply sim_bind; [apply sim_lpop_frame|]. intros _ _ _. apply IH.
  Qed.

  Lemma sim_lif_loop test test' run_body run_body' :
    (forall c, simeq (test c) (test' (reloc_cond rho c))) ->
    (forall body, simeq (run_body body) (run_body' (map (reloc_stmt rho) body))) ->
    forall arms, simeq (lif_loop test run_body arms) (lif_loop test' run_body' (map (reloc_ifarm rho) arms)).
  Proof.
    intros Ht Hb. induction arms as [|[[conds body] l] arms IH]; cbn [map lif_loop reloc_ifarm fst snd]; [apply sim_ret; reflexivity|].
    eapply sim_bind; [apply sim_mapM, Ht|]. intros bs bs' <-. destruct (forallb (fun b => b) bs); [|exact IH].
    eapply sim_bind; [apply sim_lpush_frame|]. intros _ _ _. eapply sim_bind; [apply Hb|]. intros _ _ _. apply sim_lpop_frame.
  Qed.

  Notation lexec1 := (lexec_stmt t fl config0 glob regexes find call).
  Notation lexec2 := (lexec_stmt t fl' config0 glob regexes find call).

  Lemma sim_lexec_stmt : forall fuel le le' s, lerel le le' -> simeq (lexec1 fuel le s) (lexec2 fuel le' (reloc_stmt rho s)).
  Proof.
    induction fuel as [|fuel IH]; intros le le' s Hle; [apply sim_oof|].
    assert (Hblock : forall le0 le0' body, lerel le0 le0' ->
      simeq (iterM (fun st => lexec1 fuel (ll_with_ctx le0 (ctx_update (ll_ctx le0) st)) st) body)
            (iterM (fun st => lexec2 fuel (ll_with_ctx le0' (ctx_update (ll_ctx le0') st)) st) (map (reloc_stmt rho) body))).
    { intros le0 le0' body H0. apply sim_iterM. intros st. apply IH.
      destruct H0 as (A & B & C). rewrite B, ctx_update_reloc. apply lerel_with_ctx. repeat split; assumption. }
    assert (Harm : forall le0 le0' body, lerel le0 le0' ->
      simeq (iterM (fun st => let c := ctx_update (ll_ctx le0) st in
                              ctx_wrap (CtxStmts [c]) (ctx_wrap CtxOther (lexec1 fuel (ll_with_ctx le0 c) st))) body)
            (iterM (fun st => let c := ctx_update (ll_ctx le0') st in
                              ctx_wrap (CtxStmts [c]) (ctx_wrap CtxOther (lexec2 fuel (ll_with_ctx le0' c) st))) (map (reloc_stmt rho) body))).
    { intros le0 le0' body H0. apply sim_iterM. intros st. cbv zeta. apply sim_ctx, sim_ctx. apply IH.
      destruct H0 as (A & B & C). rewrite B, ctx_update_reloc. apply lerel_with_ctx. repeat split; assumption. }
    assert (Hctx : ll_ctx le' = ectx (ll_ctx le)) by apply Hle.
    destruct s; cbn [lexec_stmt reloc_stmt]; (eapply sim_bind; [apply sim_lpoll|intros _ _ _]).
    - eapply sim_bind; [apply sim_leval, Hle|]. intros x x' <-. apply sim_lvar_add, Hle.
    - eapply sim_bind; [apply sim_leval, Hle|]. intros x x' <-. apply sim_lvar_add, Hle.
    - eapply sim_bind; [apply sim_leval, Hle|]. intros x x' <-. apply sim_lvar_set, Hle.
    - eapply sim_bind; [apply sim_ladd_node|]. intros n n' <-. cbn [config0 c_var_attr c_loc_attr c_match_attr lopt_node_attr].
      eapply sim_bind; [apply sim_ret; reflexivity|]. intros _ _ _. eapply sim_bind; [apply sim_ret; reflexivity|]. intros _ _ _.
      eapply sim_bind; [apply sim_ret; reflexivity|]. intros _ _ _. apply sim_lvar_add, Hle.
    - eapply sim_bind; [apply sim_leval, Hle|]. intros nv nv' <-.
      eapply sim_bind; [apply sim_mapM; intros x; apply sim_lexec_attr, Hle|]. intros outs outs' <-. rewrite Hctx.
      apply (sim_push_lstmt (LSAttrNode nv (concat outs) (ll_ctx le))).
    - eapply sim_bind; [apply sim_leval, Hle|]. intros a a' <-. eapply sim_bind; [apply sim_leval, Hle|]. intros b b' <-.
      cbn [config0 c_loc_attr]. rewrite Hctx. apply (sim_push_lstmt (LSEdge a b [] (ll_ctx le))).
    - eapply sim_bind; [apply sim_leval, Hle|]. intros a a' <-. eapply sim_bind; [apply sim_leval, Hle|]. intros b b' <-.
      eapply sim_bind; [apply sim_mapM; intros x; apply sim_lexec_attr, Hle|]. intros outs outs' <-. rewrite Hctx.
      apply (sim_push_lstmt (LSAttrEdge a b (concat outs) (ll_ctx le))).
    - eapply sim_bind; [apply sim_leager, Hle|]. intros sv sv' <-. eapply sim_bind; [apply sim_lift|]. intros subject subject' <-.
      change (map (fun arm : N * list stmt * loc => (fst (fst arm), map (reloc_stmt rho) (snd (fst arm)), loc0)) arms) with (map (reloc_arm rho) arms).
      rewrite arm_table_reloc. destruct (arm_table regexes arms) as [rs|]; [|apply sim_panic].
      apply sim_lscan_loop. intros caps body. apply Harm. apply lerel_with_caps, Hle.
    - eapply sim_bind.
      { apply (sim_mapM (reloc_expr rho)). intros e. destruct e; cbn [reloc_expr]; try (apply sim_ret; reflexivity);
          match goal with |- sim _ (bind (leval _ _ _ _ _ _ ?e) _) _ => eapply sim_bind; [exact (sim_leval fuel le le' e Hle)|] end;
          intros lv lv' <-; apply sim_ret; reflexivity. }
      intros args args' <-. rewrite Hctx. apply (sim_push_lstmt (LSPrint args (ll_ctx le))).
    - change (map (fun arm : list cond * list stmt * loc => (map (reloc_cond rho) (fst (fst arm)), map (reloc_stmt rho) (snd (fst arm)), loc0)) arms)
        with (map (reloc_ifarm rho) arms).
      apply sim_lif_loop; [intros c; apply sim_ltest_cond, Hle|intros body; apply Hblock, Hle].
    - eapply sim_bind; [apply sim_leager, Hle|]. intros lv lv' <-. eapply sim_bind; [apply sim_lift|]. intros vals vals' <-.
      eapply sim_bind; [apply sim_lpush_frame|]. intros _ _ _.
      eapply sim_bind; [|intros _ _ _; apply sim_lpop_frame].
      apply sim_iterM_same. intros v. eapply sim_bind; [apply sim_lclear_frame|]. intros _ _ _.
      eapply sim_bind; [apply sim_lunscoped_add, Hle|]. intros _ _ _. apply Hblock, Hle.
  Qed.

  Lemma sim_lexec_stanza fuel st m m' :
    (forall i, nodes_for_capture m' (rho i) = nodes_for_capture m i) ->
    simeq (lexec_stanza t fl config0 glob regexes find call fuel st m) (lexec_stanza t fl' config0 glob regexes find call fuel (reloc_stanza rho st) m').
  Proof.
    intros Hm. unfold lexec_stanza. eapply sim_bind; [apply sim_lpoll|]. intros _ _ _. eapply sim_bind; [apply sim_lclear_frame|]. intros _ _ _.
    cbv zeta. cbn [reloc_stanza st_full_file_idx st_stmts st_start]. rewrite Hm.
    destruct (nodes_for_capture m (st_full_file_idx st)) as [|n ns]; [apply sim_panic|].
    apply sim_iterM. intros s. apply sim_ctx.
    replace (stmt_loc (reloc_stmt rho s)) with loc0 by (destruct s; reflexivity).
    apply sim_lexec_stmt. repeat split. exact Hm.
  Qed.
End Exec.
