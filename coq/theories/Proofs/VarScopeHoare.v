(* Proofs/VarScopeHoare.v — C06, scope soundness part 3: the logic of the simulation, for both interpreters.
     hv env m Q    started in a state whose local-variable frames have the shape `env`, the computation m
                     - returns a value a and a state whose frames have a shape env' with Q a env', or
                     - returns an error that satisfies EOk (the errors the theorem allows), or
                     - panics / runs out of model fuel (not the subject here: C05).
   The logic is generic in the state (projection `locs` to the shape of the frames) and in EOk, which must be
   closed under `with_context`. *)
From TSG Require Import Model.Exec Model.VarScope Proofs.BaseFacts Proofs.MonadFacts Proofs.VarScopeShape.

Section Hoare.
  Context {S : Type}.
  Variable locs : S -> lenv.
  Variable EOk : exec_error -> Prop.
  Hypothesis EOk_ctx : forall c e, EOk e -> EOk (add_context c e).

  Definition hv {A} (env : lenv) (m : M S A) (Q : A -> lenv -> Prop) : Prop :=
    forall s p, locs s = env ->
      match m s p with
      | Ok (a, s', _) => Q a (locs s')
      | Err e => EOk e
      | _ => True
      end.
  (* same shape afterwards *)
  Definition keeps {A} (env : lenv) : A -> lenv -> Prop := fun _ env' => env' = env.

  Lemma hv_conseq {A} env (m : M S A) (Q Q' : A -> lenv -> Prop) :
    (forall a env', Q a env' -> Q' a env') -> hv env m Q -> hv env m Q'.
  Proof. intros HQ H s p Hs. specialize (H s p Hs). destruct (m s p) as [[[a s'] p']| | |]; auto. Qed.
  Lemma hv_ret {A} env (a : A) (Q : A -> lenv -> Prop) : Q a env -> hv env (ret a) Q.
  Proof. intros H s p Hs. cbn [ret]. rewrite Hs. exact H. Qed.
  Lemma hv_bind {A B} env (m : M S A) (Q : A -> lenv -> Prop) (f : A -> M S B) (R : B -> lenv -> Prop) :
    hv env m Q -> (forall a env', Q a env' -> hv env' (f a) R) -> hv env (bind m f) R.
  Proof.
    intros Hm Hf s p Hs. specialize (Hm s p Hs). unfold bind. destruct (m s p) as [[[a s'] p']|e|x|]; auto.
    exact (Hf a _ Hm s' p' eq_refl).
  Qed.
  Lemma hv_fail {A} env e (Q : A -> lenv -> Prop) : EOk e -> hv env (fail e) Q.
  Proof. intros H s p _. exact H. Qed.
  Lemma hv_panic {A} env x (Q : A -> lenv -> Prop) : hv env (panic x) Q.
  Proof. intros s p _. exact I. Qed.
  Lemma hv_oof {A} env (Q : A -> lenv -> Prop) : hv env out_of_fuel Q.
  Proof. intros s p _. exact I. Qed.
  Lemma hv_lift {A} env (r : res A) (Q : A -> lenv -> Prop) :
    (forall a, r = Ok a -> Q a env) -> (forall e, r = Err e -> EOk e) -> hv env (lift r) Q.
  Proof. intros H1 H2 s p Hs. unfold lift. destruct r; auto. rewrite Hs. auto. Qed.
  Lemma hv_poll env l : EOk (ECancelled l) -> hv env (poll l) (keeps env).
  Proof. intros H s p Hs. unfold poll. destruct (poll_step l p) as [p' c]. destruct c; [exact H|exact Hs]. Qed.
  Lemma hv_ctx {A} env c (m : M S A) Q : hv env m Q -> hv env (ctx_wrap c m) Q.
  Proof. intros H s p Hs. specialize (H s p Hs). unfold ctx_wrap. destruct (m s p) as [[[a s'] p']|e|x|]; auto. Qed.
  Lemma hv_get {A} env (k : S -> M S A) Q : (forall s, locs s = env -> hv env (k s) Q) -> hv env (bind get_state k) Q.
  Proof. intros H s p Hs. unfold bind, get_state. exact (H s Hs s p Hs). Qed.
  (* computations that do not touch the frames and raise only allowed errors *)
  Definition neutral {A} (m : M S A) : Prop :=
    forall s p, match m s p with Ok (_, s', _) => locs s' = locs s | Err e => EOk e | _ => True end.
  Lemma hv_neutral {A} env (m : M S A) : neutral m -> hv env m (keeps env).
  Proof. intros H s p Hs. specialize (H s p). destruct (m s p) as [[[a s'] p']|e|x|]; auto. unfold keeps. congruence. Qed.
  Lemma neutral_ret {A} (a : A) : neutral (ret a). Proof. intros s p. reflexivity. Qed.
  Lemma neutral_bind {A B} (m : M S A) (f : A -> M S B) : neutral m -> (forall a, neutral (f a)) -> neutral (bind m f).
  Proof.
    intros Hm Hf s p. specialize (Hm s p). unfold bind. destruct (m s p) as [[[a s'] p']|e|x|]; auto.
    specialize (Hf a s' p'). destruct (f a s' p') as [[[b s2] p2]|e|x|]; auto. congruence.
  Qed.
  Lemma neutral_get {A} (k : S -> M S A) : (forall s, neutral (k s)) -> neutral (bind get_state k).
  Proof. intros H s p. unfold bind, get_state. apply H. Qed.
  Lemma neutral_modify (f : S -> S) : (forall s, locs (f s) = locs s) -> neutral (modify f).
  Proof. intros H s p. cbn [modify]. apply H. Qed.
  Lemma neutral_fail {A} e : EOk e -> neutral (@fail S A e). Proof. intros H s p. exact H. Qed.
  Lemma neutral_panic {A} x : neutral (@panic S A x). Proof. intros s p. exact I. Qed.
  Lemma neutral_oof {A} : neutral (@out_of_fuel S A). Proof. intros s p. exact I. Qed.
  Lemma neutral_lift {A} (r : res A) : (forall e, r = Err e -> EOk e) -> neutral (lift r).
  Proof. intros H s p. unfold lift. destruct r; auto. Qed.
  Lemma neutral_poll l : EOk (ECancelled l) -> neutral (@poll S l).
  Proof. intros H s p. unfold poll. destruct (poll_step l p) as [p' c]. destruct c; [exact H|reflexivity]. Qed.
  Lemma neutral_ctx {A} c (m : M S A) : neutral m -> neutral (ctx_wrap c m).
  Proof. intros H s p. specialize (H s p). unfold ctx_wrap. destruct (m s p) as [[[a s'] p']|e|x|]; auto. Qed.
  Lemma neutral_iterM {A} (f : A -> M S unit) l : (forall x, neutral (f x)) -> neutral (iterM f l).
  Proof. intros H. induction l as [|x l IH]; cbn [iterM]; [apply neutral_ret|]. apply neutral_bind; [apply H|intros _; exact IH]. Qed.
  Lemma neutral_mapM {A B} (f : A -> M S B) l : (forall x, neutral (f x)) -> neutral (Exec.mapM f l).
  Proof.
    intros H. induction l as [|x l IH]; cbn [Exec.mapM]; [apply neutral_ret|].
    apply neutral_bind; [apply H|intros y]. apply neutral_bind; [exact IH|intros ys; apply neutral_ret].
  Qed.

  (* loops with an invariant on the shape *)
  Lemma hv_iterM {A} (I : lenv -> Prop) (f : A -> M S unit) l :
    (forall x env, In x l -> I env -> hv env (f x) (fun _ => I)) -> forall env, I env -> hv env (iterM f l) (fun _ => I).
  Proof.
    induction l as [|x l IH]; intros Hf env HI; cbn [iterM].
    - apply hv_ret. exact HI.
    - eapply hv_bind; [apply Hf; [left; reflexivity|exact HI]|]. intros u env' HI'. apply IH; [|exact HI'].
      intros x' env0 Hx'. apply Hf. right. exact Hx'.
  Qed.
  Lemma hv_mapM {A B} (I : lenv -> Prop) (f : A -> M S B) l :
    (forall x env, In x l -> I env -> hv env (f x) (fun _ => I)) -> forall env, I env -> hv env (Exec.mapM f l) (fun _ => I).
  Proof.
    induction l as [|x l IH]; intros Hf env HI; cbn [Exec.mapM].
    - apply hv_ret. exact HI.
    - eapply hv_bind; [apply Hf; [left; reflexivity|exact HI]|]. intros y env' HI'.
      eapply hv_bind; [apply IH; [|exact HI']; intros x' env0 Hx'; apply Hf; right; exact Hx'|].
      intros ys env2 HI2. apply hv_ret. exact HI2.
  Qed.
  Lemma hv_iterM_keeps {A} env (f : A -> M S unit) l :
    (forall x, In x l -> hv env (f x) (keeps env)) -> hv env (iterM f l) (keeps env).
  Proof. intros H. apply (hv_iterM (fun e => e = env)); [|reflexivity]. intros x env0 Hx ->. apply H. exact Hx. Qed.
  Lemma hv_mapM_keeps {A B} env (f : A -> M S B) l :
    (forall x, In x l -> hv env (f x) (keeps env)) -> hv env (Exec.mapM f l) (keeps env).
  Proof. intros H. apply (hv_mapM (fun e => e = env)); [|reflexivity]. intros x env0 Hx ->. apply H. exact Hx. Qed.

  (* a block: the statements thread the static environment *)
  Lemma hv_block G sr sd (run : stmt -> M S unit) :
    (forall s env0, vs_stmt G sr sd env0 s = true -> hv env0 (run s) (keeps (vs_env env0 s))) ->
    forall body env0, vs_block G sr sd env0 body = true -> hv env0 (iterM run body) (keeps (vs_block_env env0 body)).
  Proof.
    intros Hrun. unfold vs_block, vs_block_env. induction body as [|s body IH]; intros env0 Hb; cbn [iterM fold_left].
    - apply hv_ret. reflexivity.
    - cbn [seq_eok] in Hb. apply andb_true_iff in Hb. destruct Hb as [H1 H2].
      eapply hv_bind; [apply (Hrun s env0 H1)|]. intros u env' ->. apply IH. exact H2.
  Qed.
  (* an inner block: only the innermost frame may have changed *)
  Definition inner (env : lenv) : lenv -> Prop := fun env' => exists fr, env' = fr :: env.
  Lemma hv_block_inner G sr sd (run : stmt -> M S unit) fr env body :
    (forall s env0, vs_stmt G sr sd env0 s = true -> hv env0 (run s) (keeps (vs_env env0 s))) ->
    vs_block G sr sd (fr :: env) body = true -> hv (fr :: env) (iterM run body) (fun _ => inner env).
  Proof.
    intros Hrun Hb. eapply hv_conseq; [|apply (hv_block G sr sd run Hrun body (fr :: env) Hb)].
    intros a env' ->. apply vs_block_env_cons.
  Qed.
End Hoare.
