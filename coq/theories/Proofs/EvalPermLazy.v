(* Proofs/EvalPermLazy.v — the evaluation phase of the lazy interpreter does not depend on the order in which
   the stanzas deferred their edge and attribute statements (pure deferred values, no scoped variables:
   the fragment of Proofs/StrictLazy.v). *)
From Coq Require Import Permutation.
From TSG Require Import Model.Lazy Proofs.SLGraph Proofs.SLForce Proofs.SLStmt Proofs.StrictLazy Proofs.EvalPerm.

Lemma Forall2_perm {A B} (R : A -> B -> Prop) l l' : Permutation l l' -> forall m, Forall2 R l m -> exists m', Permutation m m' /\ Forall2 R l' m'.
Proof.
  induction 1 as [|x l l' _ IH|x y l|l1 l2 l3 _ IH1 _ IH2]; intros m H.
  - inversion H; subst. exists []. split; constructor.
  - inversion H as [|? b ? m0 Hxb Hl]; subst. destruct (IH m0 Hl) as (m' & P & F). exists (b :: m'). split; [constructor; exact P|constructor; assumption].
  - inversion H as [|? b ? m0 Hyb Hl]; subst. inversion Hl as [|? c ? m1 Hxc Hl']; subst. exists (c :: b :: m1). split; [apply perm_swap|repeat constructor; assumption].
  - destruct (IH1 m H) as (m2 & P2 & F2). destruct (IH2 m2 F2) as (m3 & P3 & F3). exists m3. split; [eapply perm_trans; eauto|exact F3].
Qed.
Lemma Permutation_concat {A} (l l' : list (list A)) : Permutation l l' -> Permutation (concat l) (concat l').
Proof.
  induction 1 as [|x l l' _ IH|x y l|l1 l2 l3 _ IH1 _ IH2]; cbn [concat].
  - constructor.
  - apply Permutation_app_head, IH.
  - rewrite !app_assoc. apply Permutation_app_tail, Permutation_app_comm.
  - eapply perm_trans; eauto.
Qed.

Section EvalOrder.
  Variables (t : tree) (fl : file) (call : ident -> graph -> list value -> res (value * graph)).

  (* If the deferred statements, read in ONE order as graph operations (edges, then attributes), succeed with
     graph g2, then evaluating them in ANY order within the two phases never fails or panics, and yields g2 up
     to the order in which attribute maps list their entries. *)
  Theorem lazy_eval_any_order_lemma F rho g ls pl E E' A A' eops aopss g1 g2 :
    vinv call rho g ls -> nob pl -> edges_sorted g ->
    Forall2 (den_edge call rho) E eops -> Forall2 (den_astmt call rho) A aopss ->
    apply_edges eops g = Some g1 -> apply_attrs (concat aopss) g1 = Some g2 ->
    Permutation E E' -> Permutation A A' ->
    lres ((iterM (eval_lstmt t fl call F) E' ;;; iterM (eval_lstmt t fl call F) A') ls pl)
         (fun _ ls' _ => geq g2 (l_graph ls')).
  Proof.
    intros HV Hb W HE HA He Ha PE PA.
    destruct (Forall2_perm _ _ _ PE _ HE) as (eops' & Pe & HE'). destruct (Forall2_perm _ _ _ PA _ HA) as (aopss' & Pa & HA').
    destruct (deferred_ops_any_order_lemma eops eops' (concat aopss) (concat aopss') g g1 g2 Pe (Permutation_concat _ _ Pa) W He Ha) as (g2' & He' & Ha' & Hq).
    apply lres_bind. eapply lres_mono; [apply (eval_edge_stmts t fl call F rho E' eops' g g1 ls pl HE' HV He' Hb)|].
    intros _ ls1 pl1 [Hb1 HV1]. eapply lres_mono; [apply (eval_attr_stmts t fl call F rho A' aopss' g1 g2' ls1 pl1 HA' HV1 Ha' Hb1)|].
    intros _ ls2 pl2 [_ (Hg & _)]. rewrite Hg. exact Hq.
  Qed.
End EvalOrder.
