(* Proofs/SubRun.v — "the computation d, started in state (s', p'), is a part of the run of c from (s, p)".

   The C20 theorems of Proofs/ErrorCtxValid.v / Proofs/CiteExec.v say that the cited statement "fails directly" in SOME state
   (`fails_directly`, `lfails_directly`, `forced` are existential over the state).  To tie the cited failure to THE run, the
   run-level versions (Proofs/StrictCiteRun.v, Proofs/LazyCiteRun.v) carry a derivation of `subrun`:

     subrun d s' p' c s p    the run of c from (s, p) executes d from (s', p'):
        sr_here    c itself, from its own start state;
        sr_bind_l  c = bind c1 f and the run of c1 from (s, p) executes d from (s', p');
        sr_bind_r  c = bind c1 f, c1 RAN SUCCESSFULLY from (s, p) to (a, s1, p1) and the run of (f a) from (s1, p1)
                   executes d from (s', p');
        sr_ctx     c = with_context ctx c1 and the run of c1 from (s, p) executes d from (s', p').
   Every state on the path is the result of running the preceding part of c successfully from the state before it
   (sr_bind_r is the only rule that moves the state): (s', p') is REACHED by the run of c from (s, p).  The interpreters are
   built from bind / with_context only (iterM, mapM, the scan / if / for loops unfold to them), so the rules suffice.

   What a derivation means for the outcome (no rule is vacuous): if d does not return normally from (s', p') then c does not
   return normally from (s, p) (subrun_fails): an error of d is an error of c (with contexts added on the way,
   subrun_err; same root cause, subrun_root_cause), fuel exhaustion and panics of d are those of c (subrun_oof, subrun_panic). *)
From TSG Require Import Model.Errors Model.Exec.
From TSG Require Import Proofs.MonadFacts.

Section SubRun.
  Context {S : Type}.
  Implicit Types (s : S) (p : polls).

  Inductive subrun {B : Type} (d : M S B) (s' : S) (p' : polls) : forall A : Type, M S A -> S -> polls -> Prop :=
  | sr_here : subrun d s' p' B d s' p'
  | sr_bind_l A C (c : M S A) (f : A -> M S C) s p :
      subrun d s' p' A c s p -> subrun d s' p' C (bind c f) s p
  | sr_bind_r A C (c : M S A) (f : A -> M S C) s p a s1 p1 :
      c s p = Ok (a, s1, p1) -> subrun d s' p' C (f a) s1 p1 -> subrun d s' p' C (bind c f) s p
  | sr_ctx A ctx (c : M S A) s p :
      subrun d s' p' A c s p -> subrun d s' p' A (ctx_wrap ctx c) s p.

  Lemma subrun_trans {B B2} (d2 : M S B2) s2 p2 (d1 : M S B) s1 p1 :
    subrun d2 s2 p2 B d1 s1 p1 -> forall A (c : M S A) s p, subrun d1 s1 p1 A c s p -> subrun d2 s2 p2 A c s p.
  Proof.
    intros H2 A c s p H1. induction H1 as [|A C c f s p _ IH|A C c f s p a sa pa Hc _ IH|A ctx c s p _ IH].
    - exact H2.
    - apply sr_bind_l, IH.
    - eapply sr_bind_r; [exact Hc|exact IH].
    - apply sr_ctx, IH.
  Qed.

  (* the state of a sub-run matters: if the part fails, the whole fails *)
  Lemma subrun_err {B} (d : M S B) s' p' A (c : M S A) s p :
    subrun d s' p' A c s p -> forall e1, d s' p' = Err e1 -> exists e, c s p = Err e.
  Proof.
    induction 1 as [|A C c f s p _ IH|A C c f s p a sa pa Hc _ IH|A ctx c s p _ IH]; intros e1 H1.
    - exists e1. exact H1.
    - destruct (IH _ H1) as (e & He). exists e. unfold bind. rewrite He. reflexivity.
    - destruct (IH _ H1) as (e & He). exists e. unfold bind. rewrite Hc. exact He.
    - destruct (IH _ H1) as (e & He). exists (add_context ctx e). unfold ctx_wrap. rewrite He. reflexivity.
  Qed.
  (* ... with the same root cause: with_context only wraps *)
  Lemma root_cause_add_context ctx e : root_cause (add_context ctx e) = root_cause e.
  Proof. destruct e; try reflexivity. destruct c; reflexivity. Qed.
  Lemma subrun_root_cause {B} (d : M S B) s' p' A (c : M S A) s p :
    subrun d s' p' A c s p -> forall e1, d s' p' = Err e1 -> exists e, c s p = Err e /\ root_cause e = root_cause e1.
  Proof.
    induction 1 as [|A C c f s p _ IH|A C c f s p a sa pa Hc _ IH|A ctx c s p _ IH]; intros e1 H1.
    - exists e1. split; [exact H1|reflexivity].
    - destruct (IH _ H1) as (e & He & Hr). exists e. split; [|exact Hr]. unfold bind. rewrite He. reflexivity.
    - destruct (IH _ H1) as (e & He & Hr). exists e. split; [|exact Hr]. unfold bind. rewrite Hc. exact He.
    - destruct (IH _ H1) as (e & He & Hr). exists (add_context ctx e). split; [|rewrite root_cause_add_context; exact Hr].
      unfold ctx_wrap. rewrite He. reflexivity.
  Qed.
  Lemma subrun_oof {B} (d : M S B) s' p' A (c : M S A) s p :
    subrun d s' p' A c s p -> d s' p' = OutOfFuel -> c s p = OutOfFuel.
  Proof.
    induction 1 as [|A C c f s p _ IH|A C c f s p a sa pa Hc _ IH|A ctx c s p _ IH]; intros H1.
    - exact H1.
    - unfold bind. rewrite (IH H1). reflexivity.
    - unfold bind. rewrite Hc. exact (IH H1).
    - unfold ctx_wrap. rewrite (IH H1). reflexivity.
  Qed.
  Lemma subrun_panic {B} (d : M S B) s' p' A (c : M S A) s p :
    subrun d s' p' A c s p -> forall x, d s' p' = Panic x -> c s p = Panic x.
  Proof.
    induction 1 as [|A C c f s p _ IH|A C c f s p a sa pa Hc _ IH|A ctx c s p _ IH]; intros x H1.
    - exact H1.
    - unfold bind. rewrite (IH _ H1). reflexivity.
    - unfold bind. rewrite Hc. exact (IH _ H1).
    - unfold ctx_wrap. rewrite (IH _ H1). reflexivity.
  Qed.
  Lemma subrun_fails {B} (d : M S B) s' p' A (c : M S A) s p :
    subrun d s' p' A c s p -> (forall r, d s' p' <> Ok r) -> forall r, c s p <> Ok r.
  Proof.
    intros H Hd r Hr. destruct (d s' p') as [r'|e|x|] eqn:E.
    - exact (Hd r' eq_refl).
    - destruct (subrun_err _ _ _ _ _ _ _ H _ E) as (e' & He). congruence.
    - rewrite (subrun_panic _ _ _ _ _ _ _ H _ E) in Hr. discriminate.
    - rewrite (subrun_oof _ _ _ _ _ _ _ H E) in Hr. discriminate.
  Qed.

  (* the loops *)
  Lemma subrun_iterM {B} (d : M S B) s' p' A (f : A -> M S unit) l1 x l2 s p s1 p1 :
    iterM f l1 s p = Ok (tt, s1, p1) -> subrun d s' p' unit (f x) s1 p1 -> subrun d s' p' unit (iterM f (l1 ++ x :: l2)) s p.
  Proof.
    revert s p. induction l1 as [|y l1 IH]; intros s p H Hx; cbn [iterM app] in *.
    - inversion H; subst. apply sr_bind_l, Hx.
    - apply bind_ok in H as ([] & sa & pa & Hy & H). eapply sr_bind_r; [exact Hy|]. apply IH; assumption.
  Qed.

  (* an error of iterM: the elements before the failing one ran successfully *)
  Lemma iterM_err_prefix {A} (f : A -> M S unit) l : forall s p e, iterM f l s p = Err e ->
    exists l1 x l2 s1 p1, l = l1 ++ x :: l2 /\ iterM f l1 s p = Ok (tt, s1, p1) /\ f x s1 p1 = Err e.
  Proof.
    induction l as [|y l IH]; intros s p e H; cbn [iterM] in H; [discriminate|].
    apply bind_err in H as [H|([] & sa & pa & Hy & H)].
    - exists [], y, l, s, p. repeat split. exact H.
    - destruct (IH _ _ _ H) as (l1 & x & l2 & s1 & p1 & -> & Hok & Hx). exists (y :: l1), x, l2, s1, p1. split; [reflexivity|]. split; [|exact Hx].
      cbn [iterM]. unfold bind. rewrite Hy. exact Hok.
  Qed.
End SubRun.
Arguments subrun {S B} d s' p' {A} c s p.
