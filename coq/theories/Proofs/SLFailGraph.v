(* Proofs/SLFailGraph.v — C02, failure direction (strict fails => lazy cannot succeed), part 1: what does not
   depend on the strict interpreter.
   * `nres r Phi`: IF the lazy computation returned Ok THEN Phi (the dual reading of `lres`); `nok r`: r is not Ok.
   * graph extension (`graph_ext` of Proofs/Extends.v) WITHOUT any sortedness assumption: every graph primitive of the
     lazy interpreter extends the graph; an edge / attribute insertion performed on two graphs g ⊑ G keeps them
     related; an attribute conflict on g is a conflict on every G ⊒ g.
   * two frame properties of EVERY successful lazy computation (by the generic induction of Proofs/LazyMeta.v): the
     graph is only extended and the three lists of deferred statements are only appended to (`prefix`); computations
     at expression level and the whole evaluation phase do not touch the lists at all. *)
From TSG Require Import Model.Lazy Proofs.BaseFacts Proofs.Containers Proofs.MonadFacts Proofs.StrictMeta Proofs.LazyMeta
  Proofs.SLGraph Proofs.EvalPerm Proofs.SLForce Proofs.Extends.

(* ---------------- reading a result that need not be Ok ---------------- *)
Definition nres {S A} (r : outcome exec_error (A * S * polls)) (Phi : A -> S -> polls -> Prop) : Prop :=
  match r with Ok (a, s, p) => Phi a s p | _ => True end.
Definition nok {S A} (r : outcome exec_error (A * S * polls)) : Prop := nres r (fun _ _ _ => False).

Section NRes.
  Context {S : Type}.
  Lemma nres_mono {A} (r : outcome exec_error (A * S * polls)) (Phi Psi : A -> S -> polls -> Prop) :
    nres r Phi -> (forall a s p, Phi a s p -> Psi a s p) -> nres r Psi.
  Proof. destruct r as [[[a s] p]|e|x|]; cbn; auto. Qed.
  Lemma nres_bind {A B} (m : M S A) (f : A -> M S B) s p Phi :
    nres (m s p) (fun a s1 p1 => nres (f a s1 p1) Phi) -> nres (bind m f s p) Phi.
  Proof. unfold bind. destruct (m s p) as [[[a s1] p1]|e|x|]; cbn; auto. Qed.
  Lemma nres_ret {A} (a : A) s p (Phi : A -> S -> polls -> Prop) : Phi a s p -> nres (ret a s p) Phi.
  Proof. cbn. auto. Qed.
  Lemma nres_ctx {A} c (m : M S A) s p Phi : nres (m s p) Phi -> nres (ctx_wrap c m s p) Phi.
  Proof. unfold ctx_wrap. destruct (m s p) as [[[a s1] p1]|e|x|]; cbn; auto. Qed.
  Lemma nres_get {A} (f : S -> M S A) s p Phi : nres (f s s p) Phi -> nres (bind get_state f s p) Phi.
  Proof. auto. Qed.
  Lemma nres_modify (f : S -> S) s p (Phi : unit -> S -> polls -> Prop) : Phi tt (f s) p -> nres (modify f s p) Phi.
  Proof. cbn. auto. Qed.
  Lemma nres_of_lres {A} (r : outcome exec_error (A * S * polls)) Phi : lres r Phi -> nres r Phi.
  Proof. destruct r as [[[a s] p]|e|x|]; cbn; auto. Qed.
  Lemma nres_poll l s p (Phi : unit -> S -> polls -> Prop) : nob p -> (forall p', nob p' -> Phi tt s p') -> nres (poll l s p) Phi.
  Proof. intros Hb H. apply nres_of_lres, lres_poll; assumption. Qed.
  Lemma nres_lift {A} (r : res A) s p (Phi : A -> S -> polls -> Prop) : (forall a, r = Ok a -> Phi a s p) -> nres (lift r s p) Phi.
  Proof. intros H. destruct r; cbn; auto. Qed.
  Lemma nres_true {A} (r : outcome exec_error (A * S * polls)) : nres r (fun _ _ _ => True).
  Proof. destruct r as [[[a s] p]|e|x|]; cbn; auto. Qed.
  Lemma nres_eq {A} (r r' : outcome exec_error (A * S * polls)) Phi : r = r' -> nres r' Phi -> nres r Phi.
  Proof. intros ->. auto. Qed.
  Lemma nok_nres {A} (r : outcome exec_error (A * S * polls)) Phi : nok r -> nres r Phi.
  Proof. intros H. eapply nres_mono; [exact H|]. contradiction. Qed.
  Lemma nres_ok {A} (r : outcome exec_error (A * S * polls)) Phi a s p : nres r Phi -> r = Ok (a, s, p) -> Phi a s p.
  Proof. intros H ->. exact H. Qed.
  Lemma nres_iter {X} (Inv : S -> polls -> Prop) (f : X -> M S unit) l :
    (forall x, In x l -> forall s p, Inv s p -> nres (f x s p) (fun _ s' p' => Inv s' p')) ->
    forall s p, Inv s p -> nres (iterM f l s p) (fun _ s' p' => Inv s' p').
  Proof.
    induction l as [|x l IH]; intros Hf s p HI; cbn [iterM]; [apply nres_ret; exact HI|].
    apply nres_bind. eapply nres_mono; [apply (Hf x (or_introl eq_refl) s p HI)|]. intros u1 s1 p1 H1.
    apply IH; [|exact H1]. intros y Hy. apply Hf. right. exact Hy.
  Qed.
  (* an iteration that meets an element on which the step cannot succeed *)
  Lemma nok_iter {X} (Inv : S -> polls -> Prop) (f : X -> M S unit) l x :
    In x l ->
    (forall y s p, Inv s p -> nres (f y s p) (fun _ s' p' => Inv s' p')) ->
    (forall s p, Inv s p -> nok (f x s p)) ->
    forall s p, Inv s p -> nok (iterM f l s p).
  Proof.
    intros Hin Hf Hx. induction l as [|y l IH]; [contradiction|]. intros s p HI. cbn [iterM]. apply nres_bind. destruct Hin as [->|Hin].
    - apply nok_nres. apply Hx, HI.
    - eapply nres_mono; [apply (Hf y s p HI)|]. intros u1 s1 p1 H1. apply (IH Hin s1 p1 H1).
  Qed.
End NRes.

(* ---------------- errors whose cause does not depend on the evaluation order ---------------- *)
(* `attr (a -> b) k = v` before `edge a -> b` is UndefinedEdge for the strict interpreter only (the lazy one evaluates
   all edge statements first); a cancellation cannot come from the interpreter when there is no budget *)
Definition okerr (e : exec_error) : Prop :=
  match root_cause e with EUndefinedEdge | ECancelled _ => False | _ => True end.
(* the name used in the property theorem *)
Definition order_independent_error : exec_error -> Prop := okerr.
Lemma root_cause_add_context c e : root_cause (add_context c e) = root_cause e.
Proof. destruct e; try reflexivity. destruct c0; reflexivity. Qed.
Lemma okerr_add_context c e : okerr (add_context c e) -> okerr e.
Proof. unfold okerr. rewrite root_cause_add_context. auto. Qed.

(* ---------------- edge vectors without sortedness ---------------- *)
Lemma edges_get_add_same b es : exists a, edges_get b (snd (edges_add b es)) = Some a /\ (edges_get b es = None -> a = []).
Proof.
  induction es as [|[s a0] es IH]; cbn [edges_add edges_get snd].
  - rewrite N.compare_refl. exists []. auto.
  - destruct (N.compare b s) eqn:Ec; cbn [snd edges_get].
    + rewrite Ec. exists a0. split; [reflexivity|discriminate].
    + rewrite N.compare_refl. exists []. auto.
    + destruct (edges_add b es) as [bb r]. cbn [snd edges_get] in *. rewrite Ec. exact IH.
Qed.
Lemma edges_get_add_inv b k es a : edges_get k (snd (edges_add b es)) = Some a ->
  edges_get k es = Some a \/ (k = b /\ a = [] /\ edges_get b es = None).
Proof.
  revert a. induction es as [|[s a0] es IH]; intros a; cbn [edges_add edges_get snd].
  - destruct (N.compare k b) eqn:Ec; try discriminate. intros [= <-]. apply N.compare_eq in Ec. right. auto.
  - destruct (N.compare b s) eqn:Ebs; cbn [snd edges_get].
    + auto.
    + destruct (N.compare k b) eqn:Ec; try discriminate.
      * intros [= <-]. apply N.compare_eq in Ec. subst k. right. auto.
      * auto.
    + destruct (edges_add b es) as [bb r]. cbn [snd edges_get] in *. destruct (N.compare k s) eqn:Eks; auto.
Qed.
Lemma edges_add_new_none b es : fst (edges_add b es) = true -> edges_get b es = None.
Proof.
  induction es as [|[s a0] es IH]; cbn [edges_add edges_get fst]; [reflexivity|].
  destruct (N.compare b s) eqn:Ec; cbn [fst]; try discriminate; [reflexivity|].
  destruct (edges_add b es) as [bb r]. cbn [fst] in *. exact IH.
Qed.

Lemma edges_ext_add b es : edges_ext es (snd (edges_add b es)).
Proof. intros k a H. exists a. split; [apply (edges_get_add k b es a H)|apply attrs_ext_refl]. Qed.
Lemma edges_ext_add_both b es es' : edges_ext es es' -> edges_ext (snd (edges_add b es)) (snd (edges_add b es')).
Proof.
  intros Hx k a H. destruct (edges_get_add_inv b k es a H) as [H1|(-> & -> & _)].
  - destruct (Hx k a H1) as (a' & Ha' & Haa). exists a'. split; [apply (edges_get_add k b es' a' Ha')|exact Haa].
  - destruct (edges_get_add_same b es') as (a' & Ha' & _). exists a'. split; [exact Ha'|]. intros k v Hk. discriminate.
Qed.
Lemma edges_ext_set b m m' es : edges_get b es = Some m -> attrs_ext m m' -> edges_ext es (edges_set b m' es).
Proof.
  intros Hb Hm k a Hk. destruct (N.eq_dec b k) as [<-|Hn].
  - exists m'. split; [apply (edges_get_set_same b m m' es Hb)|]. rewrite Hb in Hk. inversion Hk; subst. exact Hm.
  - exists a. split; [rewrite edges_get_set_other by exact Hn; exact Hk|apply attrs_ext_refl].
Qed.
Lemma edges_ext_set_both b m1 m2 m1' m2' es1 es2 : edges_ext es1 es2 -> edges_get b es1 = Some m1 -> edges_get b es2 = Some m2 ->
  attrs_ext m1' m2' -> edges_ext (edges_set b m1' es1) (edges_set b m2' es2).
Proof.
  intros Hx H1 H2 Hm k a Hk. destruct (N.eq_dec b k) as [<-|Hn].
  - rewrite (edges_get_set_same b m1 m1' es1 H1) in Hk. inversion Hk; subst. exists m2'. split; [apply (edges_get_set_same b m2 m2' es2 H2)|exact Hm].
  - rewrite edges_get_set_other in Hk by exact Hn. destruct (Hx k a Hk) as (a' & Ha' & Haa). exists a'. split; [rewrite edges_get_set_other by exact Hn; exact Ha'|exact Haa].
Qed.

Lemma attrs_ext_add_both m1 m2 k v m1' m2' : attrs_ext m1 m2 -> attrs_add m1 k v = (m1', None) -> attrs_add m2 k v = (m2', None) -> attrs_ext m1' m2'.
Proof.
  intros Hx H1 H2.
  assert (G2 : attrs_ext m2 m2').
  { pose proof (attrs_add_ext m2 k v) as X. rewrite H2 in X. apply X. reflexivity. }
  assert (K2 : alist_get k m2' = Some v).
  { unfold attrs_add in H2. destruct (alist_get k m2) as [old|] eqn:E.
    - destruct (value_eqb old v) eqn:Ev; [|discriminate]. inversion H2; subst. apply value_eqb_eq in Ev. subst. exact E.
    - inversion H2; subst. rewrite alist_get_app, E. cbn [alist_get]. rewrite str_eqb_refl. reflexivity. }
  unfold attrs_add in H1. destruct (alist_get k m1) as [old|] eqn:E.
  - destruct (value_eqb old v); [|discriminate]. inversion H1; subst. intros k' x Hk. apply G2, Hx, Hk.
  - inversion H1; subst. intros k' x Hk. rewrite alist_get_app in Hk. destruct (alist_get k' m1) as [y|] eqn:E1.
    + inversion Hk; subst. apply G2, Hx, E1.
    + cbn [alist_get] in Hk. destruct (str_eqb_spec k' k) as [->|Hn]; [|discriminate]. inversion Hk; subst. exact K2.
Qed.

(* ---------------- graphs ---------------- *)
Lemma graph_ext_update_both g G i f F : graph_ext g G ->
  (forall n N, gnode_at g i = Some n -> gnode_at G i = Some N -> gnode_ext n N -> gnode_ext (f n) (F N)) ->
  graph_ext (graph_update g i f) (graph_update G i F).
Proof.
  intros [Hl Hx] Hf. unfold graph_update. split; [rewrite !list_update_length; exact Hl|].
  intros j n H. rewrite nth_error_list_update in H. rewrite nth_error_list_update. destruct (Nat.eqb_spec j (N.to_nat i)) as [->|Hn].
  - destruct (nth_error g (N.to_nat i)) as [n0|] eqn:E; [|discriminate]. cbn in H. inversion H; subst.
    destruct (Hx _ _ E) as (N0 & EN & Hext). rewrite EN. cbn. exists (F N0). split; [reflexivity|]. apply Hf; assumption.
  - apply Hx, H.
Qed.
Lemma graph_ext_nth g G i n : graph_ext g G -> gnode_at g i = Some n -> exists N, gnode_at G i = Some N /\ gnode_ext n N.
Proof. intros [_ Hx] H. apply Hx, H. Qed.

Lemma apply_edge_ext e g g' : apply_edge e g = Some g' -> graph_ext g g'.
Proof.
  unfold apply_edge, graph_add_edge. destruct (gnode_at g (fst e)) as [n|] eqn:E; [|discriminate].
  destruct (edges_add (snd e) (g_edges n)) as [isnew es] eqn:Ea. intros [= <-]. apply graph_update_ext. intros n0 Hn0.
  rewrite E in Hn0. inversion Hn0; subst. split; cbn [with_edges g_attrs g_edges]; [apply attrs_ext_refl|].
  pose proof (edges_ext_add (snd e) (g_edges n0)) as X. rewrite Ea in X. exact X.
Qed.
Lemma apply_edge_ext_both e g G g' G' : graph_ext g G -> apply_edge e g = Some g' -> apply_edge e G = Some G' -> graph_ext g' G'.
Proof.
  intros Hx. unfold apply_edge, graph_add_edge. destruct (gnode_at g (fst e)) as [n|] eqn:E; [|discriminate].
  destruct (gnode_at G (fst e)) as [N0|] eqn:EN; [|discriminate].
  destruct (edges_add (snd e) (g_edges n)) as [i1 es1] eqn:E1. destruct (edges_add (snd e) (g_edges N0)) as [i2 es2] eqn:E2.
  intros [= <-] [= <-]. apply graph_ext_update_both; [exact Hx|]. intros n1 N1 H1 H2 [Ha He]. split; cbn [with_edges g_attrs g_edges]; [exact Ha|].
  rewrite E in H1. rewrite EN in H2. inversion H1; inversion H2; subst.
  pose proof (edges_ext_add_both (snd e) _ _ He) as X. rewrite E1, E2 in X. exact X.
Qed.
Lemma apply_attr_ext_both o g G g' G' : graph_ext g G -> apply_attr o g = Some g' -> apply_attr o G = Some G' -> graph_ext g' G'.
Proof.
  intros Hx. destruct o as [n k v|a b k v]; cbn [apply_attr].
  - destruct (gnode_at g n) as [nd|] eqn:E; [|discriminate]. destruct (gnode_at G n) as [ND|] eqn:EN; [|discriminate].
    destruct (attrs_add (g_attrs nd) k v) as [m1 [c1|]] eqn:A1; [discriminate|]. destruct (attrs_add (g_attrs ND) k v) as [m2 [c2|]] eqn:A2; [discriminate|].
    intros [= <-] [= <-]. apply graph_ext_update_both; [exact Hx|]. intros n1 N1 H1 H2 [Ha He]. rewrite E in H1. rewrite EN in H2. inversion H1; inversion H2; subst.
    split; cbn [with_attrs g_attrs g_edges]; [|exact He]. eapply attrs_ext_add_both; eauto.
  - destruct (gnode_at g a) as [nd|] eqn:E; [|discriminate]. destruct (gnode_at G a) as [ND|] eqn:EN; [|discriminate].
    destruct (edges_get b (g_edges nd)) as [m1|] eqn:G1; [|discriminate]. destruct (edges_get b (g_edges ND)) as [m2|] eqn:G2; [|discriminate].
    destruct (attrs_add m1 k v) as [m1' [c1|]] eqn:A1; [discriminate|]. destruct (attrs_add m2 k v) as [m2' [c2|]] eqn:A2; [discriminate|].
    intros [= <-] [= <-]. apply graph_ext_update_both; [exact Hx|]. intros n1 N1 H1 H2 [Ha He]. rewrite E in H1. rewrite EN in H2. inversion H1; inversion H2; subst.
    split; cbn [with_edges g_attrs g_edges]; [exact Ha|]. destruct (He b m1 G1) as (m2x & G2x & Hm). rewrite G2 in G2x. inversion G2x; subst m2x.
    eapply edges_ext_set_both; eauto. eapply attrs_ext_add_both; eauto.
Qed.

(* an attribute insertion that conflicts with a value already there *)
Definition conflict (o : aop) (g : graph) : Prop :=
  match o with
  | AN n k v => exists nd old, gnode_at g n = Some nd /\ alist_get k (g_attrs nd) = Some old /\ value_eqb old v = false
  | AE a b k v => exists nd m old, gnode_at g a = Some nd /\ edges_get b (g_edges nd) = Some m /\ alist_get k m = Some old /\ value_eqb old v = false
  end.
Lemma conflict_ext o g G : graph_ext g G -> conflict o g -> conflict o G.
Proof.
  intros Hx. destruct o as [n k v|a b k v]; cbn [conflict].
  - intros (nd & old & H1 & H2 & H3). destruct (graph_ext_nth _ _ _ _ Hx H1) as (ND & HN & [Ha _]). exists ND, old. auto.
  - intros (nd & m & old & H1 & H2 & H3 & H4). destruct (graph_ext_nth _ _ _ _ Hx H1) as (ND & HN & [_ He]).
    destruct (He b m H2) as (m' & Hm' & Hmm). exists ND, m', old. auto.
Qed.
Lemma conflict_none o g : conflict o g -> apply_attr o g = None.
Proof.
  destruct o as [n k v|a b k v]; cbn [conflict apply_attr].
  - intros (nd & old & -> & H2 & H3). unfold attrs_add. rewrite H2, H3. reflexivity.
  - intros (nd & m & old & -> & -> & H3 & H4). unfold attrs_add. rewrite H3, H4. reflexivity.
Qed.

(* ---------------- frames of every successful lazy computation ---------------- *)
Definition call_graph_ext (call : ident -> graph -> list value -> res (value * graph)) : Prop :=
  forall f g args v g', call f g args = Ok (v, g') -> graph_ext g g'.

Section Frames.
  Context {rx : Type}.
  Variables (t : tree) (fl : file) (cfg : config) (glob : globals) (regexes : list rx)
            (find : rx -> str -> option (list (option (N * N))))
            (call : ident -> graph -> list value -> res (value * graph)).
  Hypothesis Hcall : call_graph_ext call.
  (* how the lists of deferred statements may change: `prefix` in general, `eq` below statement level *)
  Variable P : list lstmt -> list lstmt -> Prop.
  Hypothesis P_refl : forall l, P l l.
  Hypothesis P_trans : forall a b c, P a b -> P b c -> P a c.

  Definition FrP (s s' : lstate) : Prop :=
    graph_ext (l_graph s) (l_graph s') /\ P (l_edges s) (l_edges s') /\ P (l_attrs s) (l_attrs s') /\ P (l_prints s) (l_prints s').
  Lemma FrP_refl s : FrP s s. Proof. split; [apply graph_ext_refl|]. auto. Qed.
  Lemma FrP_trans a b c : FrP a b -> FrP b c -> FrP a c.
  Proof. intros (A1 & A2 & A3 & A4) (B1 & B2 & B3 & B4). split; [eapply graph_ext_trans; eauto|]. repeat split; eapply P_trans; eauto. Qed.

  Definition fr_ok {A} (m : M lstate A) : Prop := forall s p a s' p', m s p = Ok (a, s', p') -> FrP s s'.

  Lemma fr_ret A (a : A) : fr_ok (ret a).
  Proof. intros s p a' s' p' H. apply ret_ok in H as (_ & -> & _). apply FrP_refl. Qed.
  Lemma fr_bind A B (m : M lstate A) (f : A -> M lstate B) : fr_ok m -> (forall a, fr_ok (f a)) -> fr_ok (bind m f).
  Proof. intros Hm Hf s p b s' p' H. apply bind_ok in H as (a & s1 & p1 & E & H). eapply FrP_trans; [eapply Hm; eauto|eapply Hf; eauto]. Qed.
  Lemma fr_fail A e : base_error e -> fr_ok (@fail lstate A e). Proof. intros _ s p a s' p' H. discriminate. Qed.
  Lemma fr_fail_in A a b e : base_error e -> fr_ok (@fail_in A (CtxStmts [a; b]) e). Proof. intros _ s p x s' p' H. discriminate. Qed.
  Lemma fr_panic A x : fr_ok (@panic lstate A x). Proof. intros s p a s' p' H. discriminate. Qed.
  Lemma fr_oof A : fr_ok (@out_of_fuel lstate A). Proof. intros s p a s' p' H. discriminate. Qed.
  Lemma fr_ctx A c (m : M lstate A) : True -> fr_ok m -> fr_ok (ctx_wrap c m).
  Proof. intros _ Hm s p a s' p' H. apply ctx_wrap_ok in H. eapply Hm; eauto. Qed.
  Lemma fr_same A (m : M lstate A) :
    (forall s p a s' p', m s p = Ok (a, s', p') -> l_graph s' = l_graph s /\ l_edges s' = l_edges s /\ l_attrs s' = l_attrs s /\ l_prints s' = l_prints s) -> fr_ok m.
  Proof. intros H s p a s' p' E. destruct (H _ _ _ _ _ E) as (E1 & E2 & E3 & E4). unfold FrP. rewrite E1, E2, E3, E4. apply FrP_refl. Qed.
  Lemma fr_graph A (m : M lstate A) :
    (forall s p a s' p', m s p = Ok (a, s', p') -> graph_ext (l_graph s) (l_graph s') /\ l_edges s' = l_edges s /\ l_attrs s' = l_attrs s /\ l_prints s' = l_prints s) -> fr_ok m.
  Proof. intros H s p a s' p' E. destruct (H _ _ _ _ _ E) as (E1 & E2 & E3 & E4). unfold FrP. rewrite E2, E3, E4. split; [exact E1|]. auto. Qed.

  Ltac same_upd := apply fr_same; intros s p a s' p' H; unfold upd in H; apply modify_ok in H as (-> & _); auto.
  Lemma fr_get : fr_ok (@get_state lstate). Proof. apply fr_same. intros s p a s' p' H. apply get_ok in H as (_ & -> & _). auto. Qed.
  Lemma fr_set_llocals l : fr_ok (set_llocals l). Proof. unfold set_llocals. same_upd. Qed.
  Lemma fr_set_lstore l : fr_ok (set_lstore l). Proof. unfold set_lstore. same_upd. Qed.
  Lemma fr_set_lscoped l : fr_ok (set_lscoped l). Proof. unfold set_lscoped. same_upd. Qed.
  Lemma fr_set_lparams l : fr_ok (set_lparams l). Proof. unfold set_lparams. same_upd. Qed.
  Lemma fr_set_lprev l : fr_ok (set_lprev l). Proof. unfold set_lprev. same_upd. Qed.
  Lemma fr_lpoll l : fr_ok (lpoll l). Proof. apply fr_same. intros s p a s' p' H. apply poll_ok in H as (-> & _). auto. Qed.

  Ltac inv_get H := let s0 := fresh "s0" in let s1 := fresh "s1" in let p1 := fresh "p1" in let E := fresh "E" in
    apply bind_ok in H as (s0 & s1 & p1 & E & H); apply get_ok in E as (-> & -> & ->).
  Ltac inv_setg H := unfold set_lgraph, upd in H; apply modify_ok in H as (-> & _); cbn [l_graph l_edges l_attrs l_prints].

  Lemma fr_ladd_node : fr_ok ladd_node.
  Proof.
    apply fr_graph. intros s p n s' p' H. unfold ladd_node in H. inv_get H. unfold add_graph_node in H.
    apply bind_ok in H as (u & s2 & p2 & E & H). apply ret_ok in H as (_ & -> & _). inv_setg E. split; [|auto].
    apply (proj1 (add_graph_node_ext (l_graph s))).
  Qed.
  Lemma node_attr_ext g n nd k v m' : gnode_at g n = Some nd -> attrs_add (g_attrs nd) k v = (m', None) -> graph_ext g (graph_update g n (with_attrs m')).
  Proof.
    intros E Ha. apply graph_update_ext. intros n0 Hn0. rewrite E in Hn0. inversion Hn0; subst. split; cbn; [|apply edges_ext_refl].
    pose proof (attrs_add_ext (g_attrs n0) k v) as Hx. rewrite Ha in Hx. apply Hx. reflexivity.
  Qed.
  Lemma fr_ladd_node_attr n k v : fr_ok (ladd_node_attr n k v).
  Proof.
    apply fr_graph. intros s p a s' p' H. unfold ladd_node_attr in H. inv_get H.
    destruct (gnode_at (l_graph s) n) as [nd|] eqn:E; [|discriminate]. destruct (attrs_add (g_attrs nd) k v) as [m' c] eqn:Ea. destruct c; [discriminate|].
    inv_setg H. split; [|auto]. eapply node_attr_ext; eauto.
  Qed.
  Lemma fr_lattr_node_add n k v prev dbg : fr_ok (lattr_node_add n k v prev dbg).
  Proof.
    apply fr_graph. intros s p a s' p' H. unfold lattr_node_add in H. inv_get H.
    destruct (gnode_at (l_graph s) n) as [nd|] eqn:E; [|discriminate]. destruct (attrs_add (g_attrs nd) k v) as [m' c] eqn:Ea. destruct c; [discriminate|].
    inv_setg H. split; [|auto]. eapply node_attr_ext; eauto.
  Qed.
  Lemma fr_lattr_edge_add a b k v prev dbg : fr_ok (lattr_edge_add a b k v prev dbg).
  Proof.
    apply fr_graph. intros s p x s' p' H. unfold lattr_edge_add in H. inv_get H.
    destruct (gnode_at (l_graph s) a) as [nd|] eqn:E; [|discriminate]. destruct (edges_get b (g_edges nd)) as [m|] eqn:E2; [|discriminate].
    pose proof (attrs_add_ext m k v) as Hx. destruct (attrs_add m k v) as [m' c]. cbn [fst snd] in Hx. destruct c; [discriminate|].
    inv_setg H. split; [|auto]. apply graph_update_ext. intros n0 Hn0. rewrite E in Hn0. inversion Hn0; subst. split; cbn; [apply attrs_ext_refl|].
    eapply edges_ext_set; eauto.
  Qed.
  Lemma fr_ledge_add a b ea : fr_ok (ledge_add a b ea).
  Proof.
    apply fr_graph. intros s p x s' p' H. unfold ledge_add in H. inv_get H.
    destruct (graph_add_edge (l_graph s) a b) as [[g' isnew]|] eqn:Eg; [|discriminate].
    assert (Hx1 : graph_ext (l_graph s) g') by (apply (apply_edge_ext (a, b)); unfold apply_edge; cbn [fst snd]; rewrite Eg; reflexivity).
    destruct isnew; inv_setg H; (split; [|auto]); [|exact Hx1].
    eapply graph_ext_trans; [exact Hx1|]. apply graph_update_ext. intros n0 Hn0. split; cbn; [apply attrs_ext_refl|].
    unfold graph_add_edge in Eg. destruct (gnode_at (l_graph s) a) as [nd|] eqn:E; [|discriminate].
    destruct (edges_add b (g_edges nd)) as [isn es] eqn:Ea. inversion Eg; subst g' isn.
    unfold gnode_at, graph_update in Hn0. rewrite nth_error_list_update, Nat.eqb_refl in Hn0. unfold gnode_at in E. rewrite E in Hn0. cbn in Hn0. inversion Hn0; subst n0.
    cbn [with_edges g_edges]. destruct (edges_get_add_same b (g_edges nd)) as (a0 & Ha0 & Hnil). rewrite Ea in Ha0. cbn [snd] in Ha0.
    eapply edges_ext_set; [exact Ha0|]. rewrite Hnil; [intros k0 v0 Hk; discriminate|]. apply edges_add_new_none. rewrite Ea. reflexivity.
  Qed.
  Lemma fr_lcall f args : fr_ok (lcall_function call f args).
  Proof.
    apply fr_graph. intros s p v s' p' H. unfold lcall_function in H. inv_get H.
    destruct (call f (l_graph s) args) as [[v' g']| | |] eqn:E; try discriminate.
    apply bind_ok in H as (u & s2 & p2 & E2 & H). apply ret_ok in H as (_ & -> & _). inv_setg E2. split; [|auto]. eapply Hcall; eauto.
  Qed.
End Frames.

Lemma prefix_snoc {A} (l : list A) x : prefix l (l ++ [x]). Proof. apply prefix_app. Qed.

Section FrameThms.
  Context {rx : Type}.
  Variables (t : tree) (fl : file) (cfg : config) (glob : globals) (regexes : list rx)
            (find : rx -> str -> option (list (option (N * N))))
            (call : ident -> graph -> list value -> res (value * graph)).
  Hypothesis Hcall : call_graph_ext call.

  Ltac fr_hyps :=
    intros;
    first [ exact I
          | apply fr_lcall | apply fr_ladd_node | apply fr_ladd_node_attr | apply fr_lattr_node_add
          | apply fr_lattr_edge_add | apply fr_ledge_add
          | apply fr_get | apply fr_set_llocals | apply fr_set_lstore | apply fr_set_lscoped | apply fr_set_lparams
          | apply fr_set_lprev | apply fr_lpoll
          | apply fr_fail_in | apply fr_fail | apply fr_panic | apply fr_oof
          | apply fr_ctx | apply fr_ret | eapply fr_bind ];
    eauto.

  Section AnyP.
    Variable P : list lstmt -> list lstmt -> Prop.
    Hypothesis P_refl : forall l, P l l.
    Hypothesis P_trans : forall a b c, P a b -> P b c -> P a c.
    Lemma fr_leval fuel le e : fr_ok P (leval t fl glob call fuel le e).
    Proof. apply (Phi_leval t fl glob call (@fr_ok P)) with (good_ctx := fun _ => True); fr_hyps. Qed.
    Lemma fr_lexec_attr fuel le a : fr_ok P (lexec_attr t fl glob call fuel le a).
    Proof. apply (Phi_lexec_attr t fl glob call (@fr_ok P)) with (good_ctx := fun _ => True); fr_hyps. Qed.
    Lemma fr_eval_lv fuel lv : fr_ok P (eval_lv t fl call fuel lv).
    Proof. apply (Phi_eval_lv t fl call (@fr_ok P)) with (good_ctx := fun _ => True); fr_hyps. Qed.
    Lemma fr_force_thunk fuel loc : fr_ok P (force_thunk t fl call fuel loc).
    Proof. apply (Phi_force_thunk t fl call (@fr_ok P)) with (good_ctx := fun _ => True); fr_hyps. Qed.
    Lemma fr_eval_lstmt fuel st : fr_ok P (eval_lstmt t fl call fuel st).
    Proof. apply (Phi_eval_lstmt t fl call (@fr_ok P)) with (good_ctx := fun _ => True); fr_hyps. Qed.
    Lemma fr_lunscoped_add le name v mu : fr_ok P (lunscoped_add glob le name v mu).
    Proof. apply (Phi_lunscoped_add glob (@fr_ok P)); fr_hyps. Qed.
    Lemma fr_lunscoped_set le name v : fr_ok P (lunscoped_set glob le name v).
    Proof. apply (Phi_lunscoped_set glob (@fr_ok P)); fr_hyps. Qed.
    Lemma fr_leager fuel le e : fr_ok P (leager t fl glob call fuel le e).
    Proof. apply (Phi_leager t fl glob call (@fr_ok P)) with (good_ctx := fun _ => True); fr_hyps. Qed.
    Lemma fr_ltest_cond fuel le c : fr_ok P (ltest_cond t fl glob call fuel le c).
    Proof. apply (Phi_ltest_cond t fl glob call (@fr_ok P)) with (good_ctx := fun _ => True); fr_hyps. Qed.
    Lemma fr_lpoll_n n l : fr_ok P (lpoll_n n l).
    Proof. apply (Phi_lpoll_n (@fr_ok P)); fr_hyps. Qed.
    Lemma fr_lpush_frame : fr_ok P lpush_frame. Proof. apply (Phi_lpush_frame (@fr_ok P)); fr_hyps. Qed.
    Lemma fr_lpop_frame : fr_ok P lpop_frame. Proof. apply (Phi_lpop_frame (@fr_ok P)); fr_hyps. Qed.
    Lemma fr_lclear_frame : fr_ok P lclear_frame. Proof. apply (Phi_lclear_frame (@fr_ok P)); fr_hyps. Qed.
    Lemma fr_lift {A} (r : res A) : fr_ok P (lift r).
    Proof. intros s p a s' p' H. apply lift_ok in H as (_ & -> & _). apply FrP_refl. exact P_refl. Qed.
    Lemma fr_iterM {X} (f : X -> M lstate unit) l : (forall x, fr_ok P (f x)) -> fr_ok P (iterM f l).
    Proof. intros H. induction l as [|x l IH]; cbn [iterM]; [apply fr_ret; assumption|]. eapply fr_bind; eauto. Qed.
    Lemma fr_mapM {X B} (f : X -> M lstate B) l : (forall x, fr_ok P (f x)) -> fr_ok P (mapM f l).
    Proof.
      intros H. induction l as [|x l IH]; cbn [mapM]; [apply fr_ret; assumption|]. eapply fr_bind; eauto. intros y.
      eapply fr_bind; eauto. intros ys. apply fr_ret; assumption.
    Qed.
  End AnyP.

  (* statements append to the lists *)
  Lemma fr_push_lstmt st : fr_ok (@prefix lstmt) (push_lstmt st).
  Proof.
    intros s p a s' p' H. unfold push_lstmt, upd in H. apply modify_ok in H as (-> & _).
    destruct st; (split; [apply graph_ext_refl|]); cbn [l_edges l_attrs l_prints]; repeat split; first [apply prefix_refl | apply prefix_snoc].
  Qed.
  Lemma fr_lexec_stmt fuel le s : fr_ok (@prefix lstmt) (lexec_stmt t fl cfg glob regexes find call fuel le s).
  Proof.
    apply (Phi_lexec_stmt t fl cfg glob regexes find call (@fr_ok (@prefix lstmt))) with (good_ctx := fun _ => True);
      first [exact fr_push_lstmt | fr_hyps]; first [exact (@prefix_refl lstmt) | exact (@prefix_trans lstmt)].
  Qed.
  Lemma fr_lexec_stanza fuel st m : fr_ok (@prefix lstmt) (lexec_stanza t fl cfg glob regexes find call fuel st m).
  Proof.
    apply (Phi_lexec_stanza t fl cfg glob regexes find call (@fr_ok (@prefix lstmt))) with (good_ctx := fun _ => True);
      first [exact fr_push_lstmt | fr_hyps]; first [exact (@prefix_refl lstmt) | exact (@prefix_trans lstmt)].
  Qed.
End FrameThms.
