(* Proofs/ScPermRun.v — C08 WITH scoped variables, part 11: the whole run under ANY permutation of the blocks.
   One exchange of adjacent blocks: execution phase (ScPermExec.v) + evaluation phase (ScPermEvalSwap.v).  A permutation is a
   sequence of such exchanges (Permutation_transp); graph isomorphisms compose; the fuel is handled as in Proofs/BlockPermRun.v
   (fuel monotonicity of the whole interpreter).  The failure direction follows from the success direction. *)
From Coq Require Import Permutation.
From TSG Require Import Model.Lazy Proofs.BaseFacts Proofs.MonadFacts Proofs.SLForce Proofs.EvalPerm Proofs.BlockPermRen Proofs.BlockPermExec Proofs.BlockPermGraph Proofs.BlockPermEval Proofs.BlockPermFuel Proofs.BlockPermRun
  Proofs.ScPermSim Proofs.ScPermSwap Proofs.ScPermTyped Proofs.ScPermSR Proofs.ScPermExec Proofs.ScPermEvalSwap.

(* ---------------- graph isomorphisms compose ---------------- *)
Lemma amap_eq_amren r m m' : amap_eq m m' -> amap_eq (amren r m) (amren r m').
Proof. intros H k. rewrite !alist_get_amren, (H k). reflexivity. Qed.
Lemma amren_idf m : amren (fun i => i) m = m.
Proof. unfold amren. rewrite <- (map_id m) at 2. apply map_ext. intros [k v]. cbn [fst snd]. rewrite vren_idf. reflexivity. Qed.
Lemma graph_iso_refl g : graph_iso (fun i => i) g g.
Proof.
  split; [reflexivity|]. intros i nd E. exists nd. split; [exact E|]. split; [rewrite amren_idf; apply amap_eq_refl|]. intros b.
  destruct (edges_get b (g_edges nd)); [rewrite amren_idf; apply amap_eq_refl|exact I].
Qed.
Lemma graph_iso_trans r r2 g g' g'' : graph_iso r g g' -> graph_iso r2 g' g'' -> graph_iso (fun i => r2 (r i)) g g''.
Proof.
  intros [L1 H1] [L2 H2]. split; [congruence|]. intros i nd E. destruct (H1 i nd E) as (nd' & E' & A1 & B1). destruct (H2 (r i) nd' E') as (nd'' & E'' & A2 & B2).
  exists nd''. split; [exact E''|]. split.
  - rewrite <- amren_comp. eapply amap_eq_trans; [apply amap_eq_amren, A1|exact A2].
  - intros b. specialize (B1 b). specialize (B2 (r b)). destruct (edges_get b (g_edges nd)) as [m|], (edges_get (r b) (g_edges nd')) as [m'|]; try contradiction.
    + destruct (edges_get (r2 (r b)) (g_edges nd'')) as [m''|]; [|contradiction]. rewrite <- amren_comp. eapply amap_eq_trans; [apply amap_eq_amren, B1|exact B2].
    + exact B2.
Qed.

Section Run2.
  Context {rx : Type}.
  Variables (t : tree) (fl : file) (supplied : globals) (regexes : list rx)
            (find : rx -> str -> option (list (option (N * N))))
            (call : ident -> graph -> list value -> res (value * graph)).
  Variable okfn : ident -> Prop.
  Hypothesis Hcall : forall f, okfn f -> call_ok call f.
  Variable g0 : graph.
  Notation n0 := (N.of_nat (length g0)).
  Hypothesis Hcl : gclosed n0 g0.
  Hypothesis Hglob : forall glob, check_globals (f_globals fl) (globals_nested supplied) = Ok glob ->
     forall name v, globals_get glob name = Some v -> vall (fun i => i < n0) v.

  Notation run fuel ms := (run_lazy t fl config0 supplied None regexes find call fuel ms g0).
  Notation run2 fuel F ms := (run_lazy2 t fl config0 supplied None regexes find call fuel F ms g0).
  Notation ok := (pm_ok2 fl okfn).

  (* one exchange of adjacent blocks, separate fuels *)
  Lemma swap_run2 fuel F1 l1 a b l2 ls p : Forall ok (l1 ++ a :: b :: l2) -> run2 fuel F1 (l1 ++ a :: b :: l2) = Ok (ls, p) ->
    exists r r', (forall i, r' (r i) = i) /\ (forall i, r (r' i) = i) /\ (forall i, i < n0 -> r i = i) /\
      exists F0, forall F, (F0 <= F)%nat -> exists ls' p', run2 fuel F (l1 ++ b :: a :: l2) = Ok (ls', p') /\ graph_iso r (l_graph ls) (l_graph ls').
  Proof.
    intros Hok H. unfold run_lazy2 in *. destruct (check_globals (f_globals fl) (globals_nested supplied)) as [glob|e|x|] eqn:Eg; try discriminate.
    unfold bind in H. destruct (iterM (bstep t fl config0 glob regexes find call fuel) (l1 ++ a :: b :: l2) (linit g0) (polls0 None)) as [[[u S] pS]|e|x|] eqn:ES; try discriminate.
    destruct (evaluate_phase t fl call F1 S pS) as [[[u1 fin] p1]|e|x|] eqn:EE; try discriminate. inversion H; subst ls p; clear H.
    destruct (exec_swap t fl glob regexes find call okfn Hcall g0 (Hglob glob eq_refl) fuel l1 a b l2 (polls0 None) u S pS Hok eq_refl ES)
      as (S' & pS' & bds & rg & rl & rg' & rl' & ES' & HbS & HbS' & HS & I1 & I2 & I3 & I4).
    destruct (eval_swap t fl call okfn Hcall g0 Hcl rg rl rg' rl' bds S S' HS I1 I4 pS pS' F1 u1 fin p1 HbS' EE) as (F0 & HF).
    exists rg, rg'. split; [exact I1|]. split; [exact I2|]. split; [intros i Hi; destruct HS as (_ & _ & _ & _ & _ & Hid & _); apply Hid; left; exact Hi|].
    exists F0. intros F HF0. destruct (HF F HF0) as (fin' & p' & E' & Hiso). exists fin', p'. unfold bind. rewrite ES', E'. split; [reflexivity|exact Hiso].
  Qed.

  (* the statement, as a relation between block lists *)
  Definition Pst (ms ms' : list (N * qmatch)) : Prop := forall fuel ls p, run fuel ms = Ok (ls, p) ->
    exists r r', (forall i, r' (r i) = i) /\ (forall i, r (r' i) = i) /\ (forall i, i < n0 -> r i = i) /\
      exists fuel0, forall fuel', (fuel0 <= fuel')%nat -> exists ls' p', run fuel' ms' = Ok (ls', p') /\ graph_iso r (l_graph ls) (l_graph ls').

  Lemma Pst_swap l1 a b l2 : Forall ok (l1 ++ a :: b :: l2) -> Pst (l1 ++ a :: b :: l2) (l1 ++ b :: a :: l2).
  Proof.
    intros Hok fuel ls p H. rewrite run_lazy_2 in H. destruct (swap_run2 fuel _ l1 a b l2 ls p Hok H) as (r & r' & I1 & I2 & Fx & F0 & HF).
    exists r, r'. split; [exact I1|]. split; [exact I2|]. split; [exact Fx|]. exists (Nat.max fuel F0). intros fuel' Hf.
    destruct (HF (fuel' + default_eval_fuel)%nat ltac:(lia)) as (ls' & p' & E & Hiso). exists ls', p'. split; [|exact Hiso].
    rewrite run_lazy_2. apply (run_lazy2_exec_mono t fl supplied regexes find call g0 Hglob fuel fuel' _ _ ls' p' ltac:(lia) E).
  Qed.
  Lemma Pst_refl ms : Pst ms ms.
  Proof.
    intros fuel ls p H. exists (fun i => i), (fun i => i). split; [reflexivity|]. split; [reflexivity|]. split; [reflexivity|]. exists fuel. intros fuel' Hf.
    exists ls, p. split; [|apply graph_iso_refl]. destruct (run_lazy_fuel_mono t fl config0 supplied None regexes find call fuel fuel' ms g0 Hf) as [Eo|Eo]; [congruence|]. rewrite <- Eo. exact H.
  Qed.
  Lemma Pst_trans a b c : Pst a b -> Pst b c -> Pst a c.
  Proof.
    intros H1 H2 fuel ls p H. destruct (H1 fuel ls p H) as (r1 & r1' & A1 & A2 & A3 & f1 & HF1). destruct (HF1 f1 (le_n _)) as (ls1 & p1 & E1 & Iso1).
    destruct (H2 f1 ls1 p1 E1) as (r2 & r2' & B1 & B2 & B3 & f2 & HF2).
    exists (fun i => r2 (r1 i)), (fun i => r1' (r2' i)). split; [intros i; rewrite B1, A1; reflexivity|]. split; [intros i; rewrite A2, B2; reflexivity|].
    split; [intros i Hi; rewrite (A3 i Hi); apply B3, Hi|]. exists f2. intros fuel' Hf. destruct (HF2 fuel' Hf) as (ls2 & p2 & E2 & Iso2).
    exists ls2, p2. split; [exact E2|]. eapply graph_iso_trans; eauto.
  Qed.

  Lemma ok_perm ms ms' : Permutation ms ms' -> Forall ok ms -> Forall ok ms'.
  Proof. intros HP H. apply Forall_forall. intros x Hx. rewrite Forall_forall in H. apply H. eapply Permutation_in; [apply Permutation_sym, HP|exact Hx]. Qed.

  Lemma Pst_transp ms ms' : Permutation_transp ms ms' -> Forall ok ms -> Pst ms ms'.
  Proof.
    induction 1 as [l|x y l1 l2|l l' l'' HP1 IH1 HP2 IH2]; intros Hok.
    - apply Pst_refl.
    - apply Pst_swap, Hok.
    - eapply Pst_trans; [apply IH1, Hok|apply IH2]. apply (ok_perm l l'); [apply Permutation_Permutation_transp, HP1|exact Hok].
  Qed.

  (* THE WHOLE-RUN THEOREM with scoped variables *)
  Theorem lazy_run_perm_scoped fuel ms ms' ls p : Permutation ms ms' -> Forall ok ms -> run fuel ms = Ok (ls, p) ->
    exists r r', (forall i, r' (r i) = i) /\ (forall i, r (r' i) = i) /\ (forall i, i < n0 -> r i = i) /\
      exists fuel0, forall fuel', (fuel0 <= fuel')%nat -> exists ls' p', run fuel' ms' = Ok (ls', p') /\ graph_iso r (l_graph ls) (l_graph ls').
  Proof. intros HP Hok H. apply (Pst_transp ms ms' (proj1 (Permutation_Permutation_transp ms ms') HP) Hok fuel ls p H). Qed.

  (* the failure direction *)
  Theorem lazy_run_perm_scoped_fail fuel ms ms' : Permutation ms ms' -> Forall ok ms ->
    (forall r, run fuel ms <> Ok r) -> run fuel ms <> OutOfFuel -> forall fuel' r, run fuel' ms' <> Ok r.
  Proof.
    intros HP Hok Hno Hoof fuel' [ls' p'] E'.
    destruct (lazy_run_perm_scoped fuel' ms' ms ls' p' (Permutation_sym HP) (ok_perm _ _ HP Hok) E') as (r0 & r0' & _ & _ & _ & fuel0 & HF).
    destruct (HF (Nat.max fuel fuel0) ltac:(lia)) as (ls & p & E & _).
    destruct (run_lazy_fuel_mono t fl config0 supplied None regexes find call fuel (Nat.max fuel fuel0) ms g0 ltac:(lia)) as [Eo|Eo]; [exact (Hoof Eo)|].
    rewrite E in Eo. exact (Hno _ Eo).
  Qed.
End Run2.
