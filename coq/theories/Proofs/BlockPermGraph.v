(* Proofs/BlockPermGraph.v — C08, part 6: graph operations under a renumbering of the graph nodes.
   A bijective renaming r of node ids maps a graph to an isomorphic one (`giso`: node i goes to position r i,
   attribute values are renamed, each edge vector — kept sorted by sink — holds the renamed sinks); the
   operations of `edge` / `attr` statements commute with it.  Together with the order independence of the
   operations (Proofs/EvalPerm.v): if the operation lists are renamed AND permuted, the results are isomorphic
   up to the order in which attribute maps list their entries (`graph_iso`). *)
From Coq Require Import Permutation.
From TSG Require Import Model.Lazy Proofs.BaseFacts Proofs.Containers Proofs.SLGraph Proofs.EvalPerm Proofs.BlockPermRen.

Definition amren (r : N -> N) (m : amap) : amap := map (fun kv => (fst kv, vren r (snd kv))) m.
Definition ere (r : N -> N) (e : N * N) : N * N := (r (fst e), r (snd e)).
Definition are (r : N -> N) (o : aop) : aop :=
  match o with AN n k v => AN (r n) k (vren r v) | AE a b k v => AE (r a) (r b) k (vren r v) end.

Definition inj (r : N -> N) : Prop := forall i j, r i = r j -> i = j.

Lemma map_inj_F {A} (f : A -> A) l : Forall (fun x => forall y, f x = f y -> x = y) l -> forall l', map f l = map f l' -> l = l'.
Proof. induction 1 as [|x l Hx _ IH]; intros [|y l'] E; cbn [map] in E; try discriminate; [reflexivity|]. inversion E. f_equal; [apply Hx; assumption|apply IH; assumption]. Qed.
Lemma vren_inj r : inj r -> forall a b, vren r a = vren r b -> a = b.
Proof.
  intros Hr. induction a as [|b0|k|s|l IH|l IH|k|n] using value_ind'; intros w E; destruct w; cbn [vren] in E; try discriminate; try exact E.
  - inversion E as [E']. f_equal. apply (map_inj_F (vren r) l IH _ E').
  - inversion E as [E']. f_equal. apply (map_inj_F (vren r) l IH _ E').
  - inversion E as [E']. f_equal. apply Hr, E'.
Qed.
Lemma value_eqb_vren_inj r a b : inj r -> value_eqb (vren r a) (vren r b) = value_eqb a b.
Proof.
  intros Hr. destruct (value_eqb a b) eqn:E.
  - apply value_eqb_eq in E. subst. apply value_eqb_refl.
  - apply value_eqb_neq. intros H. apply (vren_inj r Hr) in H. apply value_eqb_neq in E. contradiction.
Qed.

Lemma alist_get_amren r m k : alist_get k (amren r m) = option_map (vren r) (alist_get k m).
Proof. induction m as [|[k0 v0] m IH]; cbn [amren map alist_get fst snd option_map]; [reflexivity|]. destruct (str_eqb k k0); [reflexivity|exact IH]. Qed.
Lemma alist_set_amren r m k v : alist_set k (vren r v) (amren r m) = amren r (alist_set k v m).
Proof.
  induction m as [|[k0 v0] m IH]; cbn [amren map alist_set fst snd]; [reflexivity|].
  destruct (str_eqb k k0); cbn [map fst snd]; [reflexivity|]. f_equal. exact IH.
Qed.
Lemma attrs_add_amren r m k v : inj r ->
  attrs_add (amren r m) k (vren r v) = (amren r (fst (attrs_add m k v)), option_map (vren r) (snd (attrs_add m k v))).
Proof.
  intros Hr. unfold attrs_add. rewrite alist_get_amren. destruct (alist_get k m) as [old|]; cbn [option_map].
  - rewrite (value_eqb_vren_inj r old v Hr). destruct (value_eqb old v); cbn [fst snd option_map]; [reflexivity|]. rewrite alist_set_amren. reflexivity.
  - cbn [fst snd option_map]. unfold amren. rewrite map_app. reflexivity.
Qed.
Lemma amren_comp r r' m : amren r (amren r' m) = amren (fun i => r (r' i)) m.
Proof. unfold amren. rewrite map_map. apply map_ext. intros [k v]. cbn [fst snd]. rewrite vren_comp. reflexivity. Qed.

Section Iso.
  Variable r : N -> N.
  Hypothesis Hinj : inj r.

  (* sorted edge vectors with corresponding sinks and renamed attribute maps *)
  Definition eiso (es es' : edges) : Prop :=
    edges_wf es /\ edges_wf es' /\ forall b, edges_get (r b) es' = option_map (amren r) (edges_get b es).
  Definition niso (nd nd' : gnode) : Prop := g_attrs nd' = amren r (g_attrs nd) /\ eiso (g_edges nd) (g_edges nd').
  Definition giso (g g' : graph) : Prop :=
    length g = length g' /\ forall i nd, nth_error g (N.to_nat i) = Some nd -> exists nd', nth_error g' (N.to_nat (r i)) = Some nd' /\ niso nd nd'.

  Lemma eiso_add k es es' : eiso es es' ->
    fst (edges_add (r k) es') = fst (edges_add k es) /\ eiso (snd (edges_add k es)) (snd (edges_add (r k) es')).
  Proof.
    intros (W & W' & Hg). pose proof (edges_add_spec k es W) as S. pose proof (edges_add_spec (r k) es' W') as S'.
    destruct (edges_add k es) as [b e2]. destruct (edges_add (r k) es') as [b' e2']. destruct S as (W2 & Hb & Hget & _). destruct S' as (W2' & Hb' & Hget' & _).
    cbn [fst snd]. split.
    - rewrite Hg in Hb'. destruct (edges_get k es) as [a|]; cbn [option_map] in Hb'.
      + destruct b; [exfalso; pose proof (proj1 Hb eq_refl) as X; discriminate X|]. destruct b'; [exfalso; pose proof (proj1 Hb' eq_refl) as X; discriminate X|reflexivity].
      + destruct b; [|exfalso; pose proof (proj2 Hb eq_refl) as X; discriminate X]. destruct b'; [reflexivity|exfalso; pose proof (proj2 Hb' eq_refl) as X; discriminate X].
    - split; [exact W2|]. split; [exact W2'|]. intros c. rewrite Hget', Hget. destruct (N.eqb_spec c k) as [->|Hne].
      + rewrite N.eqb_refl, Hg. destruct (edges_get k es); reflexivity.
      + destruct (N.eqb_spec (r c) (r k)) as [E|_]; [exfalso; apply Hne, Hinj, E|]. apply Hg.
  Qed.
  Lemma eiso_set b m m0 es es' : eiso es es' -> edges_get b es = Some m0 -> eiso (edges_set b m es) (edges_set (r b) (amren r m) es').
  Proof.
    intros (W & W' & Hg) E. assert (E' : edges_get (r b) es' <> None) by (rewrite Hg, E; discriminate).
    split; [unfold edges_wf; rewrite edges_set_sinks; exact W|]. split; [unfold edges_wf; rewrite edges_set_sinks; exact W'|].
    intros c. rewrite (edges_get_set (r b) _ es' (r c) W' E'), (edges_get_set b m es c W ltac:(congruence)).
    destruct (N.eqb_spec c b) as [->|Hne]; [rewrite N.eqb_refl; reflexivity|].
    destruct (N.eqb_spec (r c) (r b)) as [Ec|_]; [exfalso; apply Hne, Hinj, Ec|]. apply Hg.
  Qed.

  Lemma nat_inj i j : N.to_nat (r i) = N.to_nat (r j) -> i = j.
  Proof. intros H. apply Hinj. lia. Qed.

  Lemma giso_update g g' a nd nd' f f' : giso g g' -> nth_error g (N.to_nat a) = Some nd -> nth_error g' (N.to_nat (r a)) = Some nd' ->
    niso (f nd) (f' nd') -> giso (list_update (N.to_nat a) f g) (list_update (N.to_nat (r a)) f' g').
  Proof.
    intros [Hl H] En En' Hn. split; [rewrite !list_update_length; exact Hl|]. intros i x Ei. rewrite nth_error_list_update in Ei.
    destruct (Nat.eqb_spec (N.to_nat i) (N.to_nat a)) as [E|Hne].
    - assert (i = a) by lia. subst i. rewrite En in Ei. cbn in Ei. inversion Ei; subst x. exists (f' nd'). split; [|exact Hn].
      rewrite nth_error_list_update, Nat.eqb_refl, En'. reflexivity.
    - destruct (H i x Ei) as (x' & Ex' & Hx'). exists x'. split; [|exact Hx']. rewrite nth_error_list_update.
      destruct (Nat.eqb_spec (N.to_nat (r i)) (N.to_nat (r a))) as [E|_]; [exfalso; apply Hne; f_equal; apply nat_inj, E|exact Ex'].
  Qed.

  Lemma apply_edge_iso g g' e g1 : giso g g' -> apply_edge e g = Some g1 -> exists g1', apply_edge (ere r e) g' = Some g1' /\ giso g1 g1'.
  Proof.
    destruct e as [a b]. unfold apply_edge, graph_add_edge, gnode_at, graph_update, ere. cbn [fst snd]. intros HI.
    destruct (nth_error g (N.to_nat a)) as [nd|] eqn:En; [|discriminate]. destruct (proj2 HI a nd En) as (nd' & En' & Ha & He). rewrite En'.
    destruct (eiso_add b _ _ He) as [Hb He2]. destruct (edges_add b (g_edges nd)) as [isnew es]. destruct (edges_add (r b) (g_edges nd')) as [isnew' es'].
    cbn [fst snd] in *. intros [= <-]. eexists. split; [reflexivity|]. eapply giso_update; eauto. split; [exact Ha|exact He2].
  Qed.
  Lemma apply_attr_iso g g' o g1 : giso g g' -> apply_attr o g = Some g1 -> exists g1', apply_attr (are r o) g' = Some g1' /\ giso g1 g1'.
  Proof.
    intros HI. destruct o as [n k v|a b k v]; cbn [apply_attr are]; unfold gnode_at, graph_update.
    - destruct (nth_error g (N.to_nat n)) as [nd|] eqn:En; [|discriminate]. destruct (proj2 HI n nd En) as (nd' & En' & Ha & He). rewrite En', Ha.
      rewrite (attrs_add_amren r _ k v Hinj). destruct (attrs_add (g_attrs nd) k v) as [m' [c|]]; cbn [fst snd option_map]; [discriminate|].
      intros [= <-]. eexists. split; [reflexivity|]. eapply giso_update; eauto. split; [reflexivity|exact He].
    - destruct (nth_error g (N.to_nat a)) as [nd|] eqn:En; [|discriminate]. destruct (proj2 HI a nd En) as (nd' & En' & Ha & He). rewrite En'.
      destruct He as (W & W' & Hg). rewrite Hg. destruct (edges_get b (g_edges nd)) as [m|] eqn:Eg; cbn [option_map]; [|discriminate].
      rewrite (attrs_add_amren r _ k v Hinj). destruct (attrs_add m k v) as [m' [c|]]; cbn [fst snd option_map]; [discriminate|].
      intros [= <-]. eexists. split; [reflexivity|]. eapply giso_update; eauto. split; [exact Ha|]. cbn [with_edges g_edges].
      eapply eiso_set; [split; [exact W|split; [exact W'|exact Hg]]|exact Eg].
  Qed.
  Lemma apply_edges_iso es : forall g g' g1, giso g g' -> apply_edges es g = Some g1 -> exists g1', apply_edges (map (ere r) es) g' = Some g1' /\ giso g1 g1'.
  Proof.
    induction es as [|e es IH]; intros g g' g1 HI; cbn [ofold map]; [intros [= <-]; eauto|].
    destruct (apply_edge e g) as [gm|] eqn:E; [|discriminate]. intros H. destruct (apply_edge_iso _ _ _ _ HI E) as (gm' & E' & HI'). rewrite E'. eapply IH; eauto.
  Qed.
  Lemma apply_attrs_iso ops : forall g g' g1, giso g g' -> apply_attrs ops g = Some g1 -> exists g1', apply_attrs (map (are r) ops) g' = Some g1' /\ giso g1 g1'.
  Proof.
    induction ops as [|o ops IH]; intros g g' g1 HI; cbn [ofold map]; [intros [= <-]; eauto|].
    destruct (apply_attr o g) as [gm|] eqn:E; [|discriminate]. intros H. destruct (apply_attr_iso _ _ _ _ HI E) as (gm' & E' & HI'). rewrite E'. eapply IH; eauto.
  Qed.

  (* isomorphism up to the listing order of attribute entries: what the whole-run theorem states *)
  Definition graph_iso (g g' : graph) : Prop :=
    length g = length g' /\
    forall i nd, nth_error g (N.to_nat i) = Some nd -> exists nd', nth_error g' (N.to_nat (r i)) = Some nd' /\
      amap_eq (amren r (g_attrs nd)) (g_attrs nd') /\
      forall b, match edges_get b (g_edges nd), edges_get (r b) (g_edges nd') with
                | Some m, Some m' => amap_eq (amren r m) m'
                | None, None => True
                | _, _ => False
                end.
  Lemma giso_geq g h h' : giso g h -> geq h h' -> graph_iso g h'.
  Proof.
    intros [Hl H] Hq. split; [rewrite Hl; apply geq_length, Hq|]. intros i nd Ei. destruct (H i nd Ei) as (nd1 & E1 & Ha & (_ & _ & Hg)).
    pose proof (geq_nth h h' (N.to_nat (r i)) Hq) as Hn. rewrite E1 in Hn. destruct (nth_error h' (N.to_nat (r i))) as [nd'|]; [|contradiction].
    destruct Hn as [Hqa Hqe]. exists nd'. split; [reflexivity|]. split; [rewrite <- Ha; exact Hqa|]. intros b.
    pose proof (edges_get_eq (r b) _ _ Hqe) as Hb. rewrite Hg in Hb. destruct (edges_get b (g_edges nd)) as [m|]; cbn [option_map] in Hb; exact Hb.
  Qed.

  (* renamed and permuted operation lists give isomorphic results *)
  Theorem ops_perm_iso g g' eops aops g1 g2 eops' aops' :
    giso g g' -> edges_sorted g' -> apply_edges eops g = Some g1 -> apply_attrs aops g1 = Some g2 ->
    Permutation (map (ere r) eops) eops' -> Permutation (map (are r) aops) aops' ->
    exists g1' g2', apply_edges eops' g' = Some g1' /\ apply_attrs aops' g1' = Some g2' /\ graph_iso g2 g2'.
  Proof.
    intros HI W He Ha Pe Pa. destruct (apply_edges_iso _ _ _ _ HI He) as (h1 & He' & HI1). destruct (apply_attrs_iso _ _ _ _ HI1 Ha) as (h2 & Ha' & HI2).
    destruct (deferred_ops_any_order_lemma _ _ _ _ g' h1 h2 Pe Pa W He' Ha') as (h2' & He2 & Ha2 & Hq).
    exists h1, h2'. split; [exact He2|]. split; [exact Ha2|]. eapply giso_geq; eauto.
  Qed.
End Iso.

(* ================= the renumbering induced by a permutation of blocks ================= *)
(* the graph operations of one block, in the block's canonical numbering: its o_n own nodes are n0, n0+1, ... *)
Record oseg := { o_nodes : list gnode; o_e : list (N * N); o_a : list aop }.
Definition o_n (o : oseg) : N := N.of_nat (length (o_nodes o)).
Definition layN (os : list oseg) : list gnode := concat (map o_nodes os).
Definition eall (D : N -> Prop) (e : N * N) : Prop := D (fst e) /\ D (snd e).
Definition aall (D : N -> Prop) (o : aop) : Prop :=
  match o with AN n _ v => D n /\ vall D v | AE a b _ v => D a /\ D b /\ vall D v end.
Definition dom (n0 g n : N) : N -> Prop := fun i => i < n0 \/ (g <= i /\ i < g + n).
Definition oseg_ok (n0 : N) (o : oseg) : Prop := Forall (eall (dom n0 n0 (o_n o))) (o_e o) /\ Forall (aall (dom n0 n0 (o_n o))) (o_a o).
Fixpoint layE (n0 g : N) (os : list oseg) : list (N * N) :=
  match os with [] => [] | o :: os' => map (ere (shg n0 g)) (o_e o) ++ layE n0 (g + o_n o) os' end.
Fixpoint layA (n0 g : N) (os : list oseg) : list aop :=
  match os with [] => [] | o :: os' => map (are (shg n0 g)) (o_a o) ++ layA n0 (g + o_n o) os' end.
Definition total (os : list oseg) : N := fold_right (fun o acc => o_n o + acc) 0 os.

Lemma total_perm os os' : Permutation os os' -> total os = total os'.
Proof.
  induction 1 as [|x l l' _ IH|x y l|l1 l2 l3 _ IH1 _ IH2].
  - reflexivity.
  - change (o_n x + total l = o_n x + total l'). rewrite IH. reflexivity.
  - change (o_n y + (o_n x + total l) = o_n x + (o_n y + total l)). lia.
  - congruence.
Qed.

Section Ops.
  Lemma ere_ext (D : N -> Prop) r r2 e : eall D e -> (forall i, D i -> r i = r2 i) -> ere r e = ere r2 e.
  Proof. intros [H1 H2] H. unfold ere. rewrite (H _ H1), (H _ H2). reflexivity. Qed.
  Lemma are_ext (D : N -> Prop) r r2 o : aall D o -> (forall i, D i -> r i = r2 i) -> are r o = are r2 o.
  Proof.
    intros Ho H. destruct o as [n k v|a b k v]; cbn [aall are] in *.
    - destruct Ho as [H1 H2]. rewrite (H _ H1), (vren_ext D r r2 v H H2). reflexivity.
    - destruct Ho as (H1 & H2 & H3). rewrite (H _ H1), (H _ H2), (vren_ext D r r2 v H H3). reflexivity.
  Qed.
  Lemma ere_comp r r2 e : ere r (ere r2 e) = ere (fun i => r (r2 i)) e. Proof. reflexivity. Qed.
  Lemma are_comp r r2 o : are r (are r2 o) = are (fun i => r (r2 i)) o.
  Proof. destruct o; cbn [are]; rewrite vren_comp; reflexivity. Qed.
  Lemma ere_id e : ere (fun i => i) e = e. Proof. destruct e; reflexivity. Qed.
  Lemma are_id o : are (fun i => i) o = o. Proof. destruct o; cbn [are]; rewrite vren_idf; reflexivity. Qed.
  Lemma eall_map (D D' : N -> Prop) r e : eall D e -> (forall i, D i -> D' (r i)) -> eall D' (ere r e).
  Proof. intros [H1 H2] H. split; cbn [ere fst snd]; auto. Qed.
  Lemma aall_map (D D' : N -> Prop) r o : aall D o -> (forall i, D i -> D' (r i)) -> aall D' (are r o).
  Proof.
    intros Ho H. destruct o as [n k v|a b k v]; cbn [aall are] in *.
    - destruct Ho as [H1 H2]. split; [auto|eapply vall_vren; eauto].
    - destruct Ho as (H1 & H2 & H3). split; [auto|]. split; [auto|eapply vall_vren; eauto].
  Qed.
  Lemma eall_impl (D D' : N -> Prop) e : (forall i, D i -> D' i) -> eall D e -> eall D' e.
  Proof. intros H [H1 H2]. split; auto. Qed.
  Lemma aall_impl (D D' : N -> Prop) o : (forall i, D i -> D' i) -> aall D o -> aall D' o.
  Proof. intros H. destruct o; cbn [aall]; intuition auto; eapply vall_impl; eauto. Qed.
  Lemma map_ere_ext (D : N -> Prop) r r2 l : Forall (eall D) l -> (forall i, D i -> r i = r2 i) -> map (ere r) l = map (ere r2) l.
  Proof. intros Hl H. apply map_ext_in. intros e He. rewrite Forall_forall in Hl. eapply ere_ext; eauto. Qed.
  Lemma map_are_ext (D : N -> Prop) r r2 l : Forall (aall D) l -> (forall i, D i -> r i = r2 i) -> map (are r) l = map (are r2) l.
  Proof. intros Hl H. apply map_ext_in. intros e He. rewrite Forall_forall in Hl. eapply are_ext; eauto. Qed.
  Lemma map_ere_fix (D : N -> Prop) r l : Forall (eall D) l -> (forall i, D i -> r i = i) -> map (ere r) l = l.
  Proof. intros Hl H. rewrite (map_ere_ext D r (fun i => i) l Hl H). rewrite <- (map_id l) at 2. apply map_ext. apply ere_id. Qed.
  Lemma map_are_fix (D : N -> Prop) r l : Forall (aall D) l -> (forall i, D i -> r i = i) -> map (are r) l = l.
  Proof. intros Hl H. rewrite (map_are_ext D r (fun i => i) l Hl H). rewrite <- (map_id l) at 2. apply map_ext. apply are_id. Qed.

  Variable n0 : N.

  Lemma shg_dom g n i : n0 <= g -> dom n0 n0 n i -> dom n0 g n (shg n0 g i).
  Proof. unfold dom, shg. intros Hg H. destruct (N.ltb_spec i n0); lia. Qed.
  Lemma placed_E o g : n0 <= g -> oseg_ok n0 o -> Forall (eall (dom n0 g (o_n o))) (map (ere (shg n0 g)) (o_e o)).
  Proof. intros Hg [H _]. apply Forall_forall. intros e He. apply in_map_iff in He as (e0 & <- & He0). rewrite Forall_forall in H. eapply eall_map; [apply H, He0|]. intros i. apply shg_dom, Hg. Qed.
  Lemma placed_A o g : n0 <= g -> oseg_ok n0 o -> Forall (aall (dom n0 g (o_n o))) (map (are (shg n0 g)) (o_a o)).
  Proof. intros Hg [_ H]. apply Forall_forall. intros e He. apply in_map_iff in He as (e0 & <- & He0). rewrite Forall_forall in H. eapply aall_map; [apply H, He0|]. intros i. apply shg_dom, Hg. Qed.
  Lemma layE_dom os : forall g, n0 <= g -> Forall (oseg_ok n0) os -> Forall (eall (dom n0 g (total os))) (layE n0 g os).
  Proof.
    induction os as [|o os IH]; intros g Hg Hok; cbn [layE total fold_right]; [constructor|]. inversion Hok; subst. apply Forall_app. split.
    - eapply Forall_impl; [|apply placed_E; eassumption]. intros e. apply eall_impl. unfold dom. lia.
    - eapply Forall_impl; [|apply (IH (g + o_n o)); [lia|assumption]]. intros e. apply eall_impl. unfold dom. fold (total os). lia.
  Qed.
  Lemma layA_dom os : forall g, n0 <= g -> Forall (oseg_ok n0) os -> Forall (aall (dom n0 g (total os))) (layA n0 g os).
  Proof.
    induction os as [|o os IH]; intros g Hg Hok; cbn [layA total fold_right]; [constructor|]. inversion Hok; subst. apply Forall_app. split.
    - eapply Forall_impl; [|apply placed_A; eassumption]. intros e. apply aall_impl. unfold dom. lia.
    - eapply Forall_impl; [|apply (IH (g + o_n o)); [lia|assumption]]. intros e. apply aall_impl. unfold dom. fold (total os). lia.
  Qed.

  (* exchanging two adjacent ranges [g, g+a) and [g+a, g+a+b) *)
  Definition swp (g a b : N) (i : N) : N := if i <? g then i else if i <? g + a then i + b else if i <? g + a + b then i - a else i.
  Lemma swp_inv g a b i : swp g b a (swp g a b i) = i.
  Proof. unfold swp. repeat match goal with |- context [N.ltb ?x ?y] => destruct (N.ltb_spec x y) end; lia. Qed.

  (* the renumbering: identity outside [g, g + total), a bijection of that range, and the laid-out operations
     of os, renamed, are a permutation of the laid-out operations of os' *)
  Lemma perm_ren os os' : Permutation os os' -> Forall (oseg_ok n0) os -> forall g, n0 <= g ->
    exists r r', (forall i, r' (r i) = i) /\ (forall i, r (r' i) = i) /\
      (forall i, i < g \/ g + total os <= i -> r i = i /\ r' i = i) /\
      (forall i, g <= i -> i < g + total os -> (g <= r i /\ r i < g + total os) /\ (g <= r' i /\ r' i < g + total os)) /\
      Permutation (map (ere r) (layE n0 g os)) (layE n0 g os') /\ Permutation (map (are r) (layA n0 g os)) (layA n0 g os') /\
      (forall j nd, nth_error (layN os) j = Some nd -> nth_error (layN os') (N.to_nat (r (g + N.of_nat j) - g)) = Some nd).
  Proof.
    induction 1 as [|x l l' HP IH|x y l|l1 l2 l3 HP1 IH1 HP2 IH2]; intros Hok g Hg.
    - exists (fun i => i), (fun i => i). cbn [layE layA map]. repeat split; auto; try lia. intros j nd E. destruct j; discriminate.
    - inversion Hok as [|? ? Hx Hl]; subst. destruct (IH Hl (g + o_n x) ltac:(lia)) as (r & r' & I1 & I2 & Fx & Rg & PE & PA & PN).
      exists r, r'. split; [exact I1|]. split; [exact I2|]. cbn [total fold_right]. fold (total l). split; [|split; [|split; [|split]]].
      + intros i Hi. apply Fx. lia.
      + intros i H1 H2. destruct (N.lt_ge_cases i (g + o_n x)) as [Hlt|Hge].
        * destruct (Fx i (or_introl Hlt)) as [-> ->]. lia.
        * destruct (Rg i Hge ltac:(lia)) as [A B]. lia.
      + cbn [layE]. rewrite map_app. rewrite (map_ere_fix (dom n0 g (o_n x)) r _ (placed_E x g Hg Hx)).
        * apply Permutation_app_head, PE.
        * intros i Hi. apply Fx. unfold dom in Hi. lia.
      + cbn [layA]. rewrite map_app. rewrite (map_are_fix (dom n0 g (o_n x)) r _ (placed_A x g Hg Hx)).
        * apply Permutation_app_head, PA.
        * intros i Hi. apply Fx. unfold dom in Hi. lia.
      + intros j nd E. unfold layN in *. cbn [map concat] in *. destruct (Nat.lt_ge_cases j (length (o_nodes x))) as [Hlt|Hge].
        * rewrite nth_error_app1 in E by exact Hlt. destruct (Fx (g + N.of_nat j) ltac:(unfold o_n; lia)) as [-> _].
          replace (N.to_nat (g + N.of_nat j - g)) with j by lia. rewrite nth_error_app1 by exact Hlt. exact E.
        * rewrite nth_error_app2 in E by exact Hge. specialize (PN _ _ E). assert (Hj : (j - length (o_nodes x) < length (concat (map o_nodes l)))%nat) by (apply nth_error_Some; congruence).
          assert (Hlen : N.of_nat (length (concat (map o_nodes l))) = total l).
          { clear. induction l as [|o l IH]; [reflexivity|]. cbn [map concat total fold_right]. rewrite app_length. fold (total l). unfold o_n. lia. }
          replace (g + o_n x + N.of_nat (j - length (o_nodes x))) with (g + N.of_nat j) in PN by (unfold o_n; lia).
          destruct (Rg (g + N.of_nat j) ltac:(unfold o_n; lia) ltac:(unfold o_n; lia)) as [[A B] _].
          rewrite nth_error_app2 by (unfold o_n in A; lia). replace (N.to_nat (r (g + N.of_nat j) - g)%N - length (o_nodes x))%nat with (N.to_nat (r (g + N.of_nat j) - (g + o_n x))) by (unfold o_n in *; lia). exact PN.
    - inversion Hok as [|? ? Hy Hl0]; subst. inversion Hl0 as [|? ? Hx Hl]; subst.
      exists (swp g (o_n y) (o_n x)), (swp g (o_n x) (o_n y)). split; [apply swp_inv|]. split; [apply swp_inv|].
      cbn [total fold_right]. fold (total l). split; [|split; [|split; [|split]]].
      + intros i Hi. unfold swp. repeat match goal with |- context [N.ltb ?a ?b] => destruct (N.ltb_spec a b) end; lia.
      + intros i H1 H2. unfold swp. repeat match goal with |- context [N.ltb ?a ?b] => destruct (N.ltb_spec a b) end; lia.
      + cbn [layE]. rewrite !map_app.
        assert (E1 : map (ere (swp g (o_n y) (o_n x))) (map (ere (shg n0 g)) (o_e y)) = map (ere (shg n0 (g + o_n x))) (o_e y)).
        { rewrite map_map. apply map_ext_in. intros e He. rewrite ere_comp. destruct Hy as [Hy _]. rewrite Forall_forall in Hy. eapply ere_ext; [apply Hy, He|].
          intros i Hi. unfold dom in Hi. unfold swp, shg. repeat match goal with |- context [N.ltb ?a ?b] => destruct (N.ltb_spec a b) end; lia. }
        assert (E2 : map (ere (swp g (o_n y) (o_n x))) (map (ere (shg n0 (g + o_n y))) (o_e x)) = map (ere (shg n0 g)) (o_e x)).
        { rewrite map_map. apply map_ext_in. intros e He. rewrite ere_comp. destruct Hx as [Hx _]. rewrite Forall_forall in Hx. eapply ere_ext; [apply Hx, He|].
          intros i Hi. unfold dom in Hi. unfold swp, shg. repeat match goal with |- context [N.ltb ?a ?b] => destruct (N.ltb_spec a b) end; lia. }
        assert (E3 : map (ere (swp g (o_n y) (o_n x))) (layE n0 (g + o_n y + o_n x) l) = layE n0 (g + o_n x + o_n y) l).
        { replace (g + o_n x + o_n y) with (g + o_n y + o_n x) by lia. apply (map_ere_fix (dom n0 (g + o_n y + o_n x) (total l))); [apply layE_dom; [lia|exact Hl]|].
          intros i Hi. unfold dom in Hi. unfold swp. repeat match goal with |- context [N.ltb ?a ?b] => destruct (N.ltb_spec a b) end; lia. }
        rewrite E1, E2, E3. apply Permutation_app_swap_app.
      + cbn [layA]. rewrite !map_app.
        assert (E1 : map (are (swp g (o_n y) (o_n x))) (map (are (shg n0 g)) (o_a y)) = map (are (shg n0 (g + o_n x))) (o_a y)).
        { rewrite map_map. apply map_ext_in. intros e He. rewrite are_comp. destruct Hy as [_ Hy]. rewrite Forall_forall in Hy. eapply are_ext; [apply Hy, He|].
          intros i Hi. unfold dom in Hi. unfold swp, shg. repeat match goal with |- context [N.ltb ?a ?b] => destruct (N.ltb_spec a b) end; lia. }
        assert (E2 : map (are (swp g (o_n y) (o_n x))) (map (are (shg n0 (g + o_n y))) (o_a x)) = map (are (shg n0 g)) (o_a x)).
        { rewrite map_map. apply map_ext_in. intros e He. rewrite are_comp. destruct Hx as [_ Hx]. rewrite Forall_forall in Hx. eapply are_ext; [apply Hx, He|].
          intros i Hi. unfold dom in Hi. unfold swp, shg. repeat match goal with |- context [N.ltb ?a ?b] => destruct (N.ltb_spec a b) end; lia. }
        assert (E3 : map (are (swp g (o_n y) (o_n x))) (layA n0 (g + o_n y + o_n x) l) = layA n0 (g + o_n x + o_n y) l).
        { replace (g + o_n x + o_n y) with (g + o_n y + o_n x) by lia. apply (map_are_fix (dom n0 (g + o_n y + o_n x) (total l))); [apply layA_dom; [lia|exact Hl]|].
          intros i Hi. unfold dom in Hi. unfold swp. repeat match goal with |- context [N.ltb ?a ?b] => destruct (N.ltb_spec a b) end; lia. }
        rewrite E1, E2, E3. apply Permutation_app_swap_app.
      + intros j nd E. unfold layN in *. cbn [map concat] in *. unfold swp, o_n.
        destruct (Nat.lt_ge_cases j (length (o_nodes y))) as [Hy1|Hy1].
        * rewrite nth_error_app1 in E by exact Hy1.
          repeat match goal with |- context [N.ltb ?a ?b] => destruct (N.ltb_spec a b); try lia end.
          rewrite nth_error_app2 by lia. rewrite nth_error_app1 by lia. rewrite <- E. f_equal. lia.
        * rewrite nth_error_app2 in E by exact Hy1. destruct (Nat.lt_ge_cases (j - length (o_nodes y)) (length (o_nodes x))) as [Hx1|Hx1].
          -- rewrite nth_error_app1 in E by exact Hx1.
             repeat match goal with |- context [N.ltb ?a ?b] => destruct (N.ltb_spec a b); try lia end.
             rewrite nth_error_app1 by lia. rewrite <- E. f_equal. lia.
          -- rewrite nth_error_app2 in E by exact Hx1.
             repeat match goal with |- context [N.ltb ?a ?b] => destruct (N.ltb_spec a b); try lia end.
             rewrite nth_error_app2 by lia. rewrite nth_error_app2 by lia. rewrite <- E. f_equal. lia.
    - assert (Hok2 : Forall (oseg_ok n0) l2) by (apply Forall_forall; intros o Ho; rewrite Forall_forall in Hok; apply Hok; eapply Permutation_in; [apply Permutation_sym, HP1|exact Ho]).
      destruct (IH1 Hok g Hg) as (r1 & r1' & I1 & I1' & F1 & R1 & PE1 & PA1 & PN1). destruct (IH2 Hok2 g Hg) as (r2 & r2' & I2 & I2' & F2 & R2 & PE2 & PA2 & PN2).
      pose proof (total_perm _ _ HP1) as T12. rewrite <- T12 in F2, R2.
      exists (fun i => r2 (r1 i)), (fun i => r1' (r2' i)). split; [intros i; rewrite I2, I1; reflexivity|]. split; [intros i; rewrite I1', I2'; reflexivity|].
      split; [|split; [|split; [|split]]].
      + intros i Hi. destruct (F1 i Hi) as [A B]. destruct (F2 i Hi) as [C D]. rewrite A, C, D, B. auto.
      + intros i H1 H2. destruct (R1 i H1 H2) as [[A1 A2] [B1 B2]]. destruct (R2 i H1 H2) as [[C1 C2] [D1 D2]].
        destruct (R2 (r1 i) A1 A2) as [[E1 E2] _]. destruct (R1 (r2' i) D1 D2) as [_ [G1 G2]]. lia.
      + eapply perm_trans; [|exact PE2]. rewrite <- (map_map (ere r1) (ere r2)). apply Permutation_map, PE1.
      + eapply perm_trans; [|exact PA2]. assert (E : map (are (fun i => r2 (r1 i))) (layA n0 g l1) = map (are r2) (map (are r1) (layA n0 g l1))).
        { rewrite map_map. apply map_ext. intros o. symmetry. apply are_comp. }
        rewrite E. apply Permutation_map, PA1.
      + intros j nd E. specialize (PN1 _ _ E). assert (Hj : (j < length (layN l1))%nat) by (apply nth_error_Some; congruence).
        assert (Hlen : forall l, N.of_nat (length (layN l)) = total l).
        { clear. unfold layN. induction l as [|o l IH]; [reflexivity|]. cbn [map concat total fold_right]. rewrite app_length. fold (total l). unfold o_n. lia. }
        destruct (R1 (g + N.of_nat j) ltac:(lia) ltac:(rewrite <- Hlen; lia)) as [[A B] _].
        specialize (PN2 _ _ PN1). replace (g + N.of_nat (N.to_nat (r1 (g + N.of_nat j) - g))) with (r1 (g + N.of_nat j)) in PN2 by lia. exact PN2.
  Qed.
End Ops.

(* ================= the graph before evaluation: shared nodes, then the blocks' fresh nodes ================= *)
(* the initial graph only mentions its own nodes (edge sinks, graph-node references inside attribute values) *)
Definition gclosed (n0 : N) (g0 : graph) : Prop :=
  Forall (fun nd => Forall (fun kv => vall (fun i => i < n0) (snd kv)) (g_attrs nd) /\ edges_wf (g_edges nd) /\
                    Forall (fun e => fst e < n0 /\ Forall (fun kv => vall (fun i => i < n0) (snd kv)) (snd e)) (g_edges nd)) g0.
Definition nplain (nd : gnode) : Prop := g_edges nd = [] /\ amap_plain (g_attrs nd).

Lemma amren_fix (D : N -> Prop) r m : Forall (fun kv => vall D (snd kv)) m -> (forall i, D i -> r i = i) -> amren r m = m.
Proof.
  intros Hm Hr. unfold amren. rewrite <- (map_id m) at 2. apply map_ext_in. intros [k v] Hin. cbn [fst snd]. f_equal.
  rewrite Forall_forall in Hm. apply (vren_fix D r v Hr (Hm _ Hin)).
Qed.

Lemma base_giso r g0 ns ns' : inj r -> (forall i, i < N.of_nat (length g0) -> r i = i) -> gclosed (N.of_nat (length g0)) g0 ->
  Forall nplain ns -> length ns = length ns' ->
  (forall j nd, nth_error ns j = Some nd -> nth_error ns' (N.to_nat (r (N.of_nat (length g0) + N.of_nat j) - N.of_nat (length g0))) = Some nd) ->
  (forall i, N.of_nat (length g0) <= i -> i < N.of_nat (length g0) + N.of_nat (length ns) -> N.of_nat (length g0) <= r i) ->
  giso r (g0 ++ ns) (g0 ++ ns').
Proof.
  intros Hinj Hfix Hcl Hpl Hlen Hn Hrg. split; [rewrite !app_length, Hlen; reflexivity|]. intros i nd Ei.
  destruct (N.lt_ge_cases i (N.of_nat (length g0))) as [Hlt|Hge].
  - rewrite nth_error_app1 in Ei by lia. rewrite (Hfix i Hlt). exists nd. split; [rewrite nth_error_app1 by lia; exact Ei|].
    unfold gclosed in Hcl. rewrite Forall_forall in Hcl. destruct (Hcl nd (nth_error_In _ _ Ei)) as (Ha & Hw & He). split.
    + symmetry. apply (amren_fix (fun i => i < N.of_nat (length g0))); assumption.
    + split; [exact Hw|]. split; [exact Hw|]. intros b. destruct (edges_get b (g_edges nd)) as [m|] eqn:Eb; cbn [option_map].
      * pose proof (edges_get_In _ _ _ Eb) as Hin. unfold sinks in Hin. apply in_map_iff in Hin as ([s a] & Hs & Hin). cbn [fst] in Hs. subst s.
        rewrite Forall_forall in He. destruct (He _ Hin) as [Hb _]. cbn [fst] in Hb. rewrite (Hfix b Hb), Eb. f_equal. symmetry.
        assert (Hin2 : In (b, m) (g_edges nd)).
        { clear -Eb. induction (g_edges nd) as [|[s a'] es IH]; cbn [edges_get] in Eb; [discriminate|]. destruct (N.compare_spec b s) as [->|_|_]; [inversion Eb; left; reflexivity|discriminate|right; auto]. }
        destruct (He _ Hin2) as [_ Hm]. cbn [snd] in Hm. apply (amren_fix (fun i => i < N.of_nat (length g0))); assumption.
      * destruct (edges_get (r b) (g_edges nd)) as [m'|] eqn:Erb; [|reflexivity]. exfalso.
        pose proof (edges_get_In _ _ _ Erb) as Hin. unfold sinks in Hin. apply in_map_iff in Hin as ([s a] & Hs & Hin). cbn [fst] in Hs. subst s.
        rewrite Forall_forall in He. destruct (He _ Hin) as [Hb _]. cbn [fst] in Hb. pose proof (Hfix (r b) Hb) as E. apply Hinj in E. rewrite E in Erb. congruence.
  - rewrite nth_error_app2 in Ei by lia. specialize (Hn _ _ Ei). assert (Hj : (N.to_nat i - length g0 < length ns)%nat) by (apply nth_error_Some; congruence).
    replace (N.of_nat (length g0) + N.of_nat (N.to_nat i - length g0)) with i in Hn by lia.
    pose proof (Hrg i Hge ltac:(lia)) as Hr. exists nd. split; [rewrite nth_error_app2 by lia; rewrite <- Hn; f_equal; lia|].
    rewrite Forall_forall in Hpl. destruct (Hpl nd (nth_error_In _ _ Ei)) as [He Ha]. split.
    + symmetry. apply (amren_fix noid); [exact Ha|intros j []].
    + rewrite He. split; [constructor|]. split; [constructor|]. intros b. reflexivity.
Qed.
Lemma base_sorted n0 g0 ns : gclosed n0 g0 -> Forall nplain ns -> edges_sorted (g0 ++ ns).
Proof.
  intros Hcl Hpl. apply Forall_app. split.
  - eapply Forall_impl; [|exact Hcl]. intros nd (_ & H & _). exact H.
  - eapply Forall_impl; [|exact Hpl]. intros nd [H _]. rewrite H. constructor.
Qed.
