(* Proofs/BlockPermGraph.v — C08, part 6: graph operations under a renumbering of the graph nodes.
   A bijective renaming r of node ids maps a graph to an isomorphic one (`giso`: node i goes to position r i,
   attribute values are renamed, each edge vector — kept sorted by sink — holds the renamed sinks); the
   operations of `edge` / `attr` statements commute with it.  Together with the order independence of the
   operations (Proofs/EvalPerm.v): if the operation lists are renamed AND permuted, the results are isomorphic
   up to the order in which attribute maps list their entries (`graph_iso`). *)
From Coq Require Import Permutation.
From TSG Require Import Model.Lazy Proofs.BaseFacts Proofs.Containers Proofs.SLGraph Proofs.EvalPerm Proofs.BlockPermRen.

Definition amren (r : N -> N) (m : amap) : amap := map (fun kv => (fst kv, vren r (snd kv))) m.
Definition ere (r : N -> N) (e : N * N) : N * N := (r (fst e), r (snd e)).
Definition are (r : N -> N) (o : aop) : aop :=
  match o with AN n k v => AN (r n) k (vren r v) | AE a b k v => AE (r a) (r b) k (vren r v) end.

Definition inj (r : N -> N) : Prop := forall i j, r i = r j -> i = j.

Lemma map_inj_F {A} (f : A -> A) l : Forall (fun x => forall y, f x = f y -> x = y) l -> forall l', map f l = map f l' -> l = l'.
Proof. induction 1 as [|x l Hx _ IH]; intros [|y l'] E; cbn [map] in E; try discriminate; [reflexivity|]. inversion E. f_equal; [apply Hx; assumption|apply IH; assumption]. Qed.
Lemma vren_inj r : inj r -> forall a b, vren r a = vren r b -> a = b.
Proof.
  intros Hr. induction a as [|b0|k|s|l IH|l IH|k|n] using value_ind'; intros w E; destruct w; cbn [vren] in E; try discriminate; try exact E.
  - inversion E as [E']. f_equal. apply (map_inj_F (vren r) l IH _ E').
  - inversion E as [E']. f_equal. apply (map_inj_F (vren r) l IH _ E').
  - inversion E as [E']. f_equal. apply Hr, E'.
Qed.
Lemma value_eqb_vren_inj r a b : inj r -> value_eqb (vren r a) (vren r b) = value_eqb a b.
Proof.
  intros Hr. destruct (value_eqb a b) eqn:E.
  - apply value_eqb_eq in E. subst. apply value_eqb_refl.
  - apply value_eqb_neq. intros H. apply (vren_inj r Hr) in H. apply value_eqb_neq in E. contradiction.
Qed.

Lemma alist_get_amren r m k : alist_get k (amren r m) = option_map (vren r) (alist_get k m).
Proof. induction m as [|[k0 v0] m IH]; cbn [amren map alist_get fst snd option_map]; [reflexivity|]. destruct (str_eqb k k0); [reflexivity|exact IH]. Qed.
Lemma alist_set_amren r m k v : alist_set k (vren r v) (amren r m) = amren r (alist_set k v m).
Proof.
  induction m as [|[k0 v0] m IH]; cbn [amren map alist_set fst snd]; [reflexivity|].
  destruct (str_eqb k k0); cbn [map fst snd]; [reflexivity|]. f_equal. exact IH.
Qed.
Lemma attrs_add_amren r m k v : inj r ->
  attrs_add (amren r m) k (vren r v) = (amren r (fst (attrs_add m k v)), option_map (vren r) (snd (attrs_add m k v))).
Proof.
  intros Hr. unfold attrs_add. rewrite alist_get_amren. destruct (alist_get k m) as [old|]; cbn [option_map].
  - rewrite (value_eqb_vren_inj r old v Hr). destruct (value_eqb old v); cbn [fst snd option_map]; [reflexivity|]. rewrite alist_set_amren. reflexivity.
  - cbn [fst snd option_map]. unfold amren. rewrite map_app. reflexivity.
Qed.
Lemma amren_comp r r' m : amren r (amren r' m) = amren (fun i => r (r' i)) m.
Proof. unfold amren. rewrite map_map. apply map_ext. intros [k v]. cbn [fst snd]. rewrite vren_comp. reflexivity. Qed.

Section Iso.
  Variable r : N -> N.
  Hypothesis Hinj : inj r.

  (* sorted edge vectors with corresponding sinks and renamed attribute maps *)
  Definition eiso (es es' : edges) : Prop :=
    edges_wf es /\ edges_wf es' /\ forall b, edges_get (r b) es' = option_map (amren r) (edges_get b es).
  Definition niso (nd nd' : gnode) : Prop := g_attrs nd' = amren r (g_attrs nd) /\ eiso (g_edges nd) (g_edges nd').
  Definition giso (g g' : graph) : Prop :=
    length g = length g' /\ forall i nd, nth_error g (N.to_nat i) = Some nd -> exists nd', nth_error g' (N.to_nat (r i)) = Some nd' /\ niso nd nd'.

  Lemma eiso_add k es es' : eiso es es' ->
    fst (edges_add (r k) es') = fst (edges_add k es) /\ eiso (snd (edges_add k es)) (snd (edges_add (r k) es')).
  Proof.
    intros (W & W' & Hg). pose proof (edges_add_spec k es W) as S. pose proof (edges_add_spec (r k) es' W') as S'.
    destruct (edges_add k es) as [b e2]. destruct (edges_add (r k) es') as [b' e2']. destruct S as (W2 & Hb & Hget & _). destruct S' as (W2' & Hb' & Hget' & _).
    cbn [fst snd]. split.
    - rewrite Hg in Hb'. destruct (edges_get k es) as [a|]; cbn [option_map] in Hb'.
      + destruct b; [exfalso; pose proof (proj1 Hb eq_refl) as X; discriminate X|]. destruct b'; [exfalso; pose proof (proj1 Hb' eq_refl) as X; discriminate X|reflexivity].
      + destruct b; [|exfalso; pose proof (proj2 Hb eq_refl) as X; discriminate X]. destruct b'; [reflexivity|exfalso; pose proof (proj2 Hb' eq_refl) as X; discriminate X].
    - split; [exact W2|]. split; [exact W2'|]. intros c. rewrite Hget', Hget. destruct (N.eqb_spec c k) as [->|Hne].
      + rewrite N.eqb_refl, Hg. destruct (edges_get k es); reflexivity.
      + destruct (N.eqb_spec (r c) (r k)) as [E|_]; [exfalso; apply Hne, Hinj, E|]. apply Hg.
  Qed.
  Lemma eiso_set b m m0 es es' : eiso es es' -> edges_get b es = Some m0 -> eiso (edges_set b m es) (edges_set (r b) (amren r m) es').
  Proof.
    intros (W & W' & Hg) E. assert (E' : edges_get (r b) es' <> None) by (rewrite Hg, E; discriminate).
    split; [unfold edges_wf; rewrite edges_set_sinks; exact W|]. split; [unfold edges_wf; rewrite edges_set_sinks; exact W'|].
    intros c. rewrite (edges_get_set (r b) _ es' (r c) W' E'), (edges_get_set b m es c W ltac:(congruence)).
    destruct (N.eqb_spec c b) as [->|Hne]; [rewrite N.eqb_refl; reflexivity|].
    destruct (N.eqb_spec (r c) (r b)) as [Ec|_]; [exfalso; apply Hne, Hinj, Ec|]. apply Hg.
  Qed.

  Lemma nat_inj i j : N.to_nat (r i) = N.to_nat (r j) -> i = j.
  Proof. intros H. apply Hinj. lia. Qed.

  Lemma giso_update g g' a nd nd' f f' : giso g g' -> nth_error g (N.to_nat a) = Some nd -> nth_error g' (N.to_nat (r a)) = Some nd' ->
    niso (f nd) (f' nd') -> giso (list_update (N.to_nat a) f g) (list_update (N.to_nat (r a)) f' g').
  Proof.
    intros [Hl H] En En' Hn. split; [rewrite !list_update_length; exact Hl|]. intros i x Ei. rewrite nth_error_list_update in Ei.
    destruct (Nat.eqb_spec (N.to_nat i) (N.to_nat a)) as [E|Hne].
    - assert (i = a) by lia. subst i. rewrite En in Ei. cbn in Ei. inversion Ei; subst x. exists (f' nd'). split; [|exact Hn].
      rewrite nth_error_list_update, Nat.eqb_refl, En'. reflexivity.
    - destruct (H i x Ei) as (x' & Ex' & Hx'). exists x'. split; [|exact Hx']. rewrite nth_error_list_update.
      destruct (Nat.eqb_spec (N.to_nat (r i)) (N.to_nat (r a))) as [E|_]; [exfalso; apply Hne; f_equal; apply nat_inj, E|exact Ex'].
  Qed.

  Lemma apply_edge_iso g g' e g1 : giso g g' -> apply_edge e g = Some g1 -> exists g1', apply_edge (ere r e) g' = Some g1' /\ giso g1 g1'.
  Proof.
    destruct e as [a b]. unfold apply_edge, graph_add_edge, gnode_at, graph_update, ere. cbn [fst snd]. intros HI.
    destruct (nth_error g (N.to_nat a)) as [nd|] eqn:En; [|discriminate]. destruct (proj2 HI a nd En) as (nd' & En' & Ha & He). rewrite En'.
    destruct (eiso_add b _ _ He) as [Hb He2]. destruct (edges_add b (g_edges nd)) as [isnew es]. destruct (edges_add (r b) (g_edges nd')) as [isnew' es'].
    cbn [fst snd] in *. intros [= <-]. eexists. split; [reflexivity|]. eapply giso_update; eauto. split; [exact Ha|exact He2].
  Qed.
  Lemma apply_attr_iso g g' o g1 : giso g g' -> apply_attr o g = Some g1 -> exists g1', apply_attr (are r o) g' = Some g1' /\ giso g1 g1'.
  Proof.
    intros HI. destruct o as [n k v|a b k v]; cbn [apply_attr are]; unfold gnode_at, graph_update.
    - destruct (nth_error g (N.to_nat n)) as [nd|] eqn:En; [|discriminate]. destruct (proj2 HI n nd En) as (nd' & En' & Ha & He). rewrite En', Ha.
      rewrite (attrs_add_amren r _ k v Hinj). destruct (attrs_add (g_attrs nd) k v) as [m' [c|]]; cbn [fst snd option_map]; [discriminate|].
      intros [= <-]. eexists. split; [reflexivity|]. eapply giso_update; eauto. split; [reflexivity|exact He].
    - destruct (nth_error g (N.to_nat a)) as [nd|] eqn:En; [|discriminate]. destruct (proj2 HI a nd En) as (nd' & En' & Ha & He). rewrite En'.
      destruct He as (W & W' & Hg). rewrite Hg. destruct (edges_get b (g_edges nd)) as [m|] eqn:Eg; cbn [option_map]; [|discriminate].
      rewrite (attrs_add_amren r _ k v Hinj). destruct (attrs_add m k v) as [m' [c|]]; cbn [fst snd option_map]; [discriminate|].
      intros [= <-]. eexists. split; [reflexivity|]. eapply giso_update; eauto. split; [exact Ha|]. cbn [with_edges g_edges].
      eapply eiso_set; [split; [exact W|split; [exact W'|exact Hg]]|exact Eg].
  Qed.
  Lemma apply_edges_iso es : forall g g' g1, giso g g' -> apply_edges es g = Some g1 -> exists g1', apply_edges (map (ere r) es) g' = Some g1' /\ giso g1 g1'.
  Proof.
    induction es as [|e es IH]; intros g g' g1 HI; cbn [ofold map]; [intros [= <-]; eauto|].
    destruct (apply_edge e g) as [gm|] eqn:E; [|discriminate]. intros H. destruct (apply_edge_iso _ _ _ _ HI E) as (gm' & E' & HI'). rewrite E'. eapply IH; eauto.
  Qed.
  Lemma apply_attrs_iso ops : forall g g' g1, giso g g' -> apply_attrs ops g = Some g1 -> exists g1', apply_attrs (map (are r) ops) g' = Some g1' /\ giso g1 g1'.
  Proof.
    induction ops as [|o ops IH]; intros g g' g1 HI; cbn [ofold map]; [intros [= <-]; eauto|].
    destruct (apply_attr o g) as [gm|] eqn:E; [|discriminate]. intros H. destruct (apply_attr_iso _ _ _ _ HI E) as (gm' & E' & HI'). rewrite E'. eapply IH; eauto.
  Qed.

  (* isomorphism up to the listing order of attribute entries: what the whole-run theorem states *)
  Definition graph_iso (g g' : graph) : Prop :=
    length g = length g' /\
    forall i nd, nth_error g (N.to_nat i) = Some nd -> exists nd', nth_error g' (N.to_nat (r i)) = Some nd' /\
      amap_eq (amren r (g_attrs nd)) (g_attrs nd') /\
      forall b, match edges_get b (g_edges nd), edges_get (r b) (g_edges nd') with
                | Some m, Some m' => amap_eq (amren r m) m'
                | None, None => True
                | _, _ => False
                end.
  Lemma giso_geq g h h' : giso g h -> geq h h' -> graph_iso g h'.
  Proof.
    intros [Hl H] Hq. split; [rewrite Hl; apply geq_length, Hq|]. intros i nd Ei. destruct (H i nd Ei) as (nd1 & E1 & Ha & (_ & _ & Hg)).
    pose proof (geq_nth h h' (N.to_nat (r i)) Hq) as Hn. rewrite E1 in Hn. destruct (nth_error h' (N.to_nat (r i))) as [nd'|]; [|contradiction].
    destruct Hn as [Hqa Hqe]. exists nd'. split; [reflexivity|]. split; [rewrite <- Ha; exact Hqa|]. intros b.
    pose proof (edges_get_eq (r b) _ _ Hqe) as Hb. rewrite Hg in Hb. destruct (edges_get b (g_edges nd)) as [m|]; cbn [option_map] in Hb; exact Hb.
  Qed.

  (* renamed and permuted operation lists give isomorphic results *)
  Theorem ops_perm_iso g eops aops g1 g2 eops' aops' :
    giso g g -> edges_sorted g -> apply_edges eops g = Some g1 -> apply_attrs aops g1 = Some g2 ->
    Permutation (map (ere r) eops) eops' -> Permutation (map (are r) aops) aops' ->
    exists g1' g2', apply_edges eops' g = Some g1' /\ apply_attrs aops' g1' = Some g2' /\ graph_iso g2 g2'.
  Proof.
    intros HI W He Ha Pe Pa. destruct (apply_edges_iso _ _ _ _ HI He) as (h1 & He' & HI1). destruct (apply_attrs_iso _ _ _ _ HI1 Ha) as (h2 & Ha' & HI2).
    destruct (deferred_ops_any_order_lemma _ _ _ _ g h1 h2 Pe Pa W He' Ha') as (h2' & He2 & Ha2 & Hq).
    exists h1, h2'. split; [exact He2|]. split; [exact Ha2|]. eapply giso_geq; eauto.
  Qed.
End Iso.
